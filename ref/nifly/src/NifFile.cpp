/*
nifly
C++ NIF library for the Gamebryo/NetImmerse File Format
See the included GPLv3 LICENSE file
*/

#include "NifFile.hpp"
#include "bhk.hpp"
#include "NifUtil.hpp"

#include <fstream>
#include <regex>
#include <set>
#include <unordered_set>
#include <queue>

using namespace nifly;

uint32_t NifFile::GetBlockID(NiObject* block) const {
	auto it = find_if(blocks, [&block](const auto& ptr) { return ptr.get() == block; });

	if (it != blocks.end())
		return static_cast<uint32_t>(std::distance(blocks.begin(), it));

	return NIF_NPOS;
}

NiNode* NifFile::GetParentNode(NiObject* childBlock) const {
	if (childBlock != nullptr) {
		int childId = GetBlockID(childBlock);
		for (auto& block : blocks) {
			auto node = dynamic_cast<NiNode*>(block.get());
			if (node) {
				auto children = node->childRefs;
				for (auto& c : children) {
					if (c == childId)
						return node;
				}
			}
		}
	}

	return nullptr;
}

void NifFile::SetParentNode(NiObject* childBlock, NiNode* newParent) {
	if (!childBlock)
		return;

	if (!newParent) {
		newParent = GetRootNode();

		if (!newParent)
			return;
	}

	if (childBlock == newParent)
		return;

	uint32_t childId = GetBlockID(childBlock);
	for (auto& block : blocks) {
		auto node = dynamic_cast<NiNode*>(block.get());
		if (!node)
			continue;

		auto& children = node->childRefs;
		for (uint32_t ci = 0; ci < children.GetSize(); ++ci) {
			if (childId != children.GetBlockRef(ci))
				continue;

			// We have now found the node's old parent
			if (newParent != node) {
				children.RemoveBlockRef(ci);
				newParent->childRefs.AddBlockRef(childId);
			}

			return;
		}
	}

	// If we get here, the node's old parent was not found.
	newParent->childRefs.AddBlockRef(childId);
}

std::vector<NiNode*> NifFile::GetNodes() const {
	std::vector<NiNode*> outList;
	for (auto& block : blocks) {
		auto node = dynamic_cast<NiNode*>(block.get());
		if (node)
			outList.push_back(node);
	}

	return outList;
}

void NifFile::CopyFrom(const NifFile& other) {
	if (isValid)
		Clear();

	isValid = other.isValid;
	hasUnknown = other.hasUnknown;
	isTerrain = other.isTerrain;

	hdr = NiHeader(other.hdr);

	size_t nBlocks = other.blocks.size();
	blocks.resize(nBlocks);

	for (uint32_t i = 0; i < nBlocks; i++)
		blocks[i] = other.blocks[i]->Clone();

	hdr.SetBlockReference(&blocks);
	LinkGeomData();
}

void NifFile::LinkGeomData() {
	for (auto& block : blocks) {
		if (auto geom = dynamic_cast<NiGeometry*>(block.get())) {
			// NiGeometry refers to geometry data within the nif file
			// (a data block that was deleted or replaced must not stay cached)
			geom->SetGeomData(hdr.GetBlock(geom->DataRef()));
		}
		// NOTE: BSGeometry is it's own geometry data... need explicit linking here?
	}
}

void NifFile::RemoveInvalidTris() const {
	for (auto& shape : GetShapes()) {
		std::vector<Triangle> tris;
		if (shape->GetTriangles(tris)) {
			uint16_t numVerts = shape->GetNumVertices();
			tris.erase(std::remove_if(tris.begin(),
									  tris.end(),
									  [&](auto& t) {
										  return t.p1 >= numVerts || t.p2 >= numVerts || t.p3 >= numVerts;
									  }),
					   tris.end());

			shape->SetTriangles(tris);
		}
	}
}

size_t NifFile::GetVertexLimit() {
	constexpr size_t maxVertIndex = std::numeric_limits<uint16_t>::max();
	return maxVertIndex;
}

size_t NifFile::GetTriangleLimit() const {
	size_t maxTriIndex = std::numeric_limits<uint32_t>::max();
	if (hdr.GetVersion().User() >= 12 && hdr.GetVersion().Stream() < 130)
		maxTriIndex = std::numeric_limits<uint16_t>::max();

	return maxTriIndex;
}

void NifFile::Create(const NiVersion& version) {
	Clear();
	hdr.SetVersion(version);
	hdr.SetBlockReference(&blocks);

	auto rootNode = std::make_unique<NiNode>();
	rootNode->name.get() = "Scene Root";
	hdr.AddBlock(std::move(rootNode));

	isValid = true;
}

void NifFile::Clear() {
	isValid = false;
	hasUnknown = false;
	isTerrain = false;

	blocks.clear();
	hdr.Clear();
}

int NifFile::Load(const std::filesystem::path& fileName, const NifLoadOptions& options) {
	std::ifstream file(fileName, std::ios::in | std::ios::binary);
	return Load(file, options);
}

int NifFile::Load(std::istream& file, const NifLoadOptions& options) {
	Clear();

	isTerrain = options.isTerrain;

	if (file) {
		NiIStream stream(&file, &hdr);
		hdr.Get(stream);

		if (!hdr.IsValid()) {
			Clear();
			return 1;
		}

		NiVersion& version = hdr.GetVersion();
		if (!(version.IsOB() || version.IsFO3() || version.IsSK() || version.IsSSE() || version.IsFO4() || version.IsFO76() || version.IsSF() || version.IsSpecial())) {
			// Unsupported file version
			Clear();
			return 2;
		}

		uint32_t nBlocks = hdr.GetNumBlocks();
		blocks.resize(nBlocks);

		auto& nifactories = NiFactoryRegister::Get();
		for (uint32_t i = 0; i < nBlocks; i++) {
			std::string blockTypeStr = hdr.GetBlockTypeStringById(i);

			auto nifactory = nifactories.GetFactoryByName(blockTypeStr);
			if (nifactory) {
				blocks[i] = nifactory->Load(stream);
			}
			else {
				if (version.File() < V20_2_0_5) {
					// Loading unknown blocks w/o block sizes isn't possible
					Clear();
					return 3;
				}

				hasUnknown = true;
				blocks[i] = std::make_unique<NiUnknown>(stream, hdr.GetBlockSize(i));
			}
		}

		hdr.SetBlockReference(&blocks);
	}
	else {
		Clear();
		return 1;
	}

	PrepareData();
	isValid = true;
	return 0;
}

void NifFile::SetShapeOrder(const std::vector<std::string>& order) {
	if (hasUnknown)
		return;

	if (order.empty())
		return;

	auto shapes = GetShapes();
	if (order.size() != shapes.size())
		return;

	SortState sortState{};
	sortState.newIndices.resize(hdr.GetNumBlocks());
	for (size_t i = 0; i < sortState.newIndices.size(); i++)
		sortState.newIndices[i] = static_cast<uint32_t>(i);

	for (auto& s : order) {
		auto shape = FindBlockByName<NiShape>(s);
		if (shape)
			sortState.rootShapeOrder.push_back(GetBlockID(shape));
	}

	auto root = GetRootNode();
	if (root)
		SetSortIndices(GetBlockID(root), sortState);

	for (size_t i = 0; i < sortState.newIndices.size(); i++) {
		uint32_t index = static_cast<uint32_t>(i);
		if (sortState.visitedIndices.count(index) == 0) {
			sortState.newIndices[i] = sortState.newIndex++;
			sortState.visitedIndices.insert(index);
		}
	}

	hdr.SetBlockOrder(sortState.newIndices);
}

void NifFile::SetSortIndices(const NiRef& ref, SortState& sortState) {
	SetSortIndices(ref.index, sortState);
}

void NifFile::SetSortIndices(const NiRef* ref, SortState& sortState) {
	if (ref)
		SetSortIndices(ref->index, sortState);
}

void NifFile::SetSortIndices(uint32_t refIndex, SortState& sortState) {
	auto obj = hdr.GetBlock<NiObject>(refIndex);
	if (!obj)
		return;

	bool fullySorted = sortState.visitedIndices.count(refIndex) > 0;

	if (!fullySorted) {
		auto collision = dynamic_cast<NiCollisionObject*>(obj);
		if (collision) {
			SortCollision(collision, refIndex, sortState);
			fullySorted = true;
		}
		else {
			// Assign new sort index
			sortState.newIndices[refIndex] = sortState.newIndex++;
			sortState.visitedIndices.insert(refIndex);
		}
	}

	if (!fullySorted) {
		auto node = dynamic_cast<NiNode*>(obj);
		if (node) {
			SortGraph(node, sortState);
			fullySorted = true;
		}
	}

	if (!fullySorted) {
		auto shape = dynamic_cast<NiShape*>(obj);
		if (shape) {
			SortShape(shape, sortState);
			fullySorted = true;
		}
	}

	if (!fullySorted) {
		auto controller = dynamic_cast<NiTimeController*>(obj);
		if (controller) {
			SortController(controller, sortState);
			fullySorted = true;
		}
	}

	if (!fullySorted) {
		auto shader = dynamic_cast<NiShader*>(obj);
		if (shader) {
			SortNiObjectNET(shader, sortState);
			SetSortIndices(shader->TextureSetRef(), sortState);
			fullySorted = true;
		}
	}

	if (!fullySorted) {
		// Default child sorting
		std::vector<uint32_t> childIndices;
		obj->GetChildIndices(childIndices);

		for (auto& child : childIndices)
			SetSortIndices(child, sortState);

		fullySorted = true;
	}
}

void NifFile::SortNiObjectNET(NiObjectNET* objnet, SortState& sortState) {
	for (auto& r : objnet->extraDataRefs)
		SetSortIndices(r, sortState);

	SetSortIndices(objnet->controllerRef, sortState);

	auto controller = hdr.GetBlock<NiTimeController>(objnet->controllerRef);
	if (controller)
		SortController(controller, sortState);
}

void NifFile::SortAVObject(NiAVObject* avobj, SortState& sortState) {
	SortNiObjectNET(avobj, sortState);

	for (auto& r : avobj->propertyRefs)
		SetSortIndices(r, sortState);

	auto col = hdr.GetBlock<NiCollisionObject>(avobj->collisionRef);
	if (col)
		SortCollision(col, avobj->collisionRef.index, sortState);
}

void NifFile::SortController(NiTimeController* controller, SortState& sortState) {
	std::vector<uint32_t> childIndices;
	controller->GetChildIndices(childIndices);

	for (auto& index : childIndices) {
		SetSortIndices(index, sortState);

		auto controllerSequence = hdr.GetBlock<NiControllerSequence>(index);
		if (controllerSequence) {
			for (auto& cb : controllerSequence->controlledBlocks) {
				auto interp = hdr.GetBlock<NiInterpolator>(cb.interpolatorRef);
				if (interp)
					SetSortIndices(cb.interpolatorRef, sortState);

				auto subController = hdr.GetBlock<NiTimeController>(cb.controllerRef);
				if (subController)
					SetSortIndices(cb.controllerRef, sortState);
			}

			SetSortIndices(controllerSequence->textKeyRef, sortState);

			auto animNotes = hdr.GetBlock<BSAnimNotes>(controllerSequence->animNotesRef);
			if (animNotes) {
				SetSortIndices(controllerSequence->animNotesRef, sortState);

				for (auto& an : animNotes->animNoteRefs)
					SetSortIndices(an, sortState);
			}

			for (auto& ar : controllerSequence->animNotesRefs) {
				animNotes = hdr.GetBlock<BSAnimNotes>(ar);
				if (animNotes) {
					SetSortIndices(ar, sortState);

					for (auto& an : animNotes->animNoteRefs)
						SetSortIndices(an, sortState);
				}
			}
		}
	}
}

void NifFile::SortCollision(NiObject* parent, uint32_t parentIndex, SortState& sortState) {
	// Blocks that are already being sorted further up the call stack are skipped,
	// otherwise cyclic references recurse without end.
	if (!sortState.pendingIndices.insert(parentIndex).second)
		return;

	auto constraint = dynamic_cast<bhkConstraint*>(parent);
	if (constraint) {
		for (auto& entityId : constraint->entityRefs) {
			auto entity = hdr.GetBlock<NiObject>(entityId);
			if (entity && sortState.visitedIndices.count(entityId.index) == 0)
				SortCollision(entity, entityId.index, sortState);
		}
	}

	auto constraintChain = dynamic_cast<bhkBallSocketConstraintChain*>(parent);
	if (constraintChain) {
		for (auto& entityId : constraintChain->chainedEntityRefs) {
			auto entity = hdr.GetBlock<NiObject>(entityId);
			if (entity && sortState.visitedIndices.count(entityId.index) == 0)
				SortCollision(entity, entityId.index, sortState);
		}

		auto entityA = hdr.GetBlock<NiObject>(constraintChain->entityARef);
		if (entityA && sortState.visitedIndices.count(constraintChain->entityARef.index) == 0)
			SortCollision(entityA, constraintChain->entityARef.index, sortState);

		auto entityB = hdr.GetBlock<NiObject>(constraintChain->entityBRef);
		if (entityB && sortState.visitedIndices.count(constraintChain->entityBRef.index) == 0)
			SortCollision(entityB, constraintChain->entityBRef.index, sortState);
	}

	std::vector<uint32_t> childIndices;
	parent->GetChildIndices(childIndices);

	for (auto& id : childIndices) {
		auto child = hdr.GetBlock<NiObject>(id);
		if (child && sortState.visitedIndices.count(id) == 0) {
			bool childBeforeParent = child->HasType<bhkRefObject>() && !child->HasType<bhkConstraint>()
									 && !child->HasType<bhkBallSocketConstraintChain>();
			if (childBeforeParent)
				SortCollision(child, id, sortState);
		}
	}

	// Assign new sort index
	if (sortState.visitedIndices.count(parentIndex) == 0) {
		sortState.newIndices[parentIndex] = sortState.newIndex++;
		sortState.visitedIndices.insert(parentIndex);
	}

	for (auto& id : childIndices) {
		auto child = hdr.GetBlock<NiObject>(id);
		if (child && sortState.visitedIndices.count(id) == 0) {
			bool childBeforeParent = child->HasType<bhkRefObject>() && !child->HasType<bhkConstraint>()
									 && !child->HasType<bhkBallSocketConstraintChain>();
			if (!childBeforeParent)
				SortCollision(child, id, sortState);
		}
	}

	sortState.pendingIndices.erase(parentIndex);
}

void NifFile::SortShape(NiShape* shape, SortState& sortState) {
	SortAVObject(shape, sortState);

	SetSortIndices(shape->DataRef(), sortState);
	SetSortIndices(shape->SkinInstanceRef(), sortState);

	auto niSkinInst = hdr.GetBlock<NiSkinInstance>(shape->SkinInstanceRef());
	if (niSkinInst) {
		SetSortIndices(niSkinInst->dataRef, sortState);
		SetSortIndices(niSkinInst->skinPartitionRef, sortState);
	}

	auto bsSkinInst = hdr.GetBlock<BSSkinInstance>(shape->SkinInstanceRef());
	if (bsSkinInst)
		SetSortIndices(bsSkinInst->dataRef, sortState);

	SetSortIndices(shape->ShaderPropertyRef(), sortState);
	SetSortIndices(shape->AlphaPropertyRef(), sortState);

	std::vector<uint32_t> remainingChildIndices;
	shape->GetChildIndices(remainingChildIndices);

	// Sort remaining children
	for (auto& child : remainingChildIndices)
		SetSortIndices(child, sortState);
}

void NifFile::SortGraph(NiNode* root, SortState& sortState) {
	bool isRootNode = root == GetRootNode();
	SortAVObject(root, sortState);

	std::vector<uint32_t> childIndices;
	root->childRefs.GetIndices(childIndices);

	if (childIndices.empty())
		return;

	bool reorderChildRefs = !root->HasType<BSOrderedNode>();
	if (reorderChildRefs) {
		std::vector<uint32_t> newChildIndices;
		newChildIndices.reserve(childIndices.size());

		NiBlockRefArray<NiAVObject> newChildRefs;

		if (hdr.GetVersion().IsOB() || hdr.GetVersion().IsFO3()) {
			// Order for OB/FO3:
			// 1. Nodes with children
			// 2. Shapes
			// 3. other

			// Add nodes with children
			for (auto& index : childIndices) {
				auto node = hdr.GetBlock<NiNode>(index);
				if (node && node->childRefs.GetSize() > 0) {
					newChildIndices.push_back(index);
					newChildRefs.AddBlockRef(index);
				}
			}

			// Add shapes
			std::vector<uint32_t> shapeIndices;
			for (auto& index : childIndices) {
				auto shape = hdr.GetBlock<NiShape>(index);
				if (shape)
					shapeIndices.push_back(index);
			}

			if (isRootNode) {
				// Reorder shapes on root node if order is provided
				if (sortState.rootShapeOrder.size() == shapeIndices.size()
					&& std::is_permutation(sortState.rootShapeOrder.begin(), sortState.rootShapeOrder.end(), shapeIndices.begin())) {
					std::vector<uint32_t> newShapeIndices(shapeIndices.size());
					for (size_t si = 0; si < sortState.rootShapeOrder.size(); si++) {
						auto it = find(shapeIndices, sortState.rootShapeOrder[si]);
						if (it != shapeIndices.end())
							newShapeIndices[si] = shapeIndices[std::distance(shapeIndices.begin(), it)];
					}
					shapeIndices = newShapeIndices;
				}
			}

			for (auto& index : shapeIndices) {
				newChildIndices.push_back(index);
				newChildRefs.AddBlockRef(index);
			}
		}
		else {
			// Order:
			// 1. Nodes
			// 2. Shapes
			// 3. other

			// Add nodes
			for (auto& index : childIndices) {
				auto node = hdr.GetBlock<NiNode>(index);
				if (node) {
					newChildIndices.push_back(index);
					newChildRefs.AddBlockRef(index);
				}
			}

			// Add shapes
			std::vector<uint32_t> shapeIndices;
			for (auto& index : childIndices) {
				auto shape = hdr.GetBlock<NiShape>(index);
				if (shape)
					shapeIndices.push_back(index);
			}

			if (isRootNode) {
				// Reorder shapes on root node if order is provided
				if (sortState.rootShapeOrder.size() == shapeIndices.size()
					&& std::is_permutation(sortState.rootShapeOrder.begin(), sortState.rootShapeOrder.end(), shapeIndices.begin())) {
					std::vector<uint32_t> newShapeIndices(shapeIndices.size());
					for (size_t si = 0; si < sortState.rootShapeOrder.size(); si++) {
						auto it = find(shapeIndices, sortState.rootShapeOrder[si]);
						if (it != shapeIndices.end())
							newShapeIndices[si] = shapeIndices[std::distance(shapeIndices.begin(), it)];
					}
					shapeIndices = newShapeIndices;
				}
			}

			for (auto& index : shapeIndices) {
				newChildIndices.push_back(index);
				newChildRefs.AddBlockRef(index);
			}
		}

		// Add missing others
		for (auto& index : childIndices) {
			if (!contains(newChildIndices, index)) {
				auto obj = hdr.GetBlock<NiObject>(index);
				if (obj) {
					newChildIndices.push_back(index);
					newChildRefs.AddBlockRef(index);
				}
			}
		}

		// Add empty refs
		for (auto& index : childIndices) {
			if (index == NIF_NPOS) {
				newChildIndices.push_back(index);
				newChildRefs.AddBlockRef(index);
			}
		}

		// Assign child ref array with new order
		root->childRefs = newChildRefs;
	}

	std::vector<uint32_t> remainingChildIndices;
	root->GetChildIndices(remainingChildIndices);

	// Sort remaining children
	for (auto& child : remainingChildIndices)
		SetSortIndices(child, sortState);
}

void NifFile::PrettySortBlocks() {
	if (hasUnknown)
		return;

	SortState sortState{};
	sortState.newIndices.resize(hdr.GetNumBlocks());
	for (size_t i = 0; i < sortState.newIndices.size(); i++)
		sortState.newIndices[i] = static_cast<uint32_t>(i);

	if (sortState.newIndices.empty())
		return;

	for (auto& node : GetNodes()) {
		auto parentNode = GetParentNode(node);
		if (!parentNode) {
			// No parent, node is at the root level
			SetSortIndices(GetBlockID(node), sortState);
		}
	}

	for (size_t i = 0; i < sortState.newIndices.size(); i++) {
		uint32_t index = static_cast<uint32_t>(i);
		if (sortState.visitedIndices.count(index) == 0) {
			sortState.newIndices[i] = sortState.newIndex++;
			sortState.visitedIndices.insert(index);
		}
	}

	hdr.SetBlockOrder(sortState.newIndices);
}

void NifFile::FixBSXFlags() {
	auto bsx = FindBlockByName<BSXFlags>("BSX");
	if (bsx) {
		if (bsx->integerData & BSX_EXTERNAL_EMITTANCE) {
			// BSXFlags external emittance = on. Check if any shaders require that.
			bool flagUnnecessary = true;

			for (auto& block : blocks) {
				auto bssp = dynamic_cast<BSShaderProperty*>(block.get());
				if (bssp) {
					if (bssp->shaderFlags1 & SLSF1_EXTERNAL_EMITTANCE) { // Same flag in SK and FO4
						flagUnnecessary = false;
						break;
					}
				}
			}

			if (flagUnnecessary)
			{
				// Unset unnecessary external emittance flag on BSXFlags
				bsx->integerData &= (~BSX_EXTERNAL_EMITTANCE);
			}
		}
		else {
			// BSXFlags external emittance = off. Check if any shaders have it set regardless.
			bool flagMissing = false;

			for (auto& block : blocks) {
				auto bssp = dynamic_cast<BSShaderProperty*>(block.get());
				if (bssp) {
					if (bssp->shaderFlags1 & SLSF1_EXTERNAL_EMITTANCE) { // Same flag in SK and FO4
						flagMissing = true;
						break;
					}
				}
			}

			if (flagMissing)
			{
				// Set missing external emittance flag on BSXFlags
				bsx->integerData |= BSX_EXTERNAL_EMITTANCE;
			}
		}
	}
}

void NifFile::FixShaderFlags() {
	for (auto& block : blocks) {
		auto bslsp = dynamic_cast<BSLightingShaderProperty*>(block.get());
		if (bslsp) {
			if (bslsp->bslspShaderType != BSLSP_ENVMAP && (bslsp->shaderFlags1 & SLSF1_ENVIRONMENT_MAPPING)) { // Same flag in SK and FO4
				// Shader is no environment shader, remove unused shader flag
				bslsp->shaderFlags1 &= (~SLSF1_ENVIRONMENT_MAPPING);
			}
			else if (bslsp->bslspShaderType == BSLSP_ENVMAP && !(bslsp->shaderFlags1 & SLSF1_ENVIRONMENT_MAPPING)) { // Same flag in SK and FO4
				// Shader is environment shader, add missing shader flag
				bslsp->shaderFlags1 |= SLSF1_ENVIRONMENT_MAPPING;
			}
		}
	}
}

bool NifFile::DeleteUnreferencedNodes(int* deletionCount) {
	if (hasUnknown)
		return false;

	auto root = GetRootNode();
	if (!root)
		return false;

	for (auto& node : GetNodes()) {
		if (node == root)
			continue;

		uint32_t blockId = GetBlockID(node);
		if (blockId == NIF_NPOS)
			continue;

		if (!CanDeleteNode(node))
			continue;

		if (hdr.GetBlockRefCount(blockId) < 2) {
			hdr.DeleteBlock(blockId);

			if (deletionCount)
				(*deletionCount)++;

			// Deleting a block can cause others to become unreferenced
			return DeleteUnreferencedNodes(deletionCount);
		}
	}

	return true;
}

NiNode* NifFile::AddNode(const std::string& nodeName, const MatTransform& xformToParent, NiNode* parent) {
	if (!parent)
		parent = GetRootNode();
	if (!parent)
		return nullptr;

	auto newNode = std::make_unique<NiNode>();
	newNode->name.get() = nodeName;
	newNode->SetTransformToParent(xformToParent);

	uint32_t newNodeId = hdr.AddBlock(std::move(newNode));
	if (newNodeId != NIF_NPOS)
		parent->childRefs.AddBlockRef(newNodeId);

	return hdr.GetBlockUnsafe<NiNode>(newNodeId);
}

void NifFile::DeleteNode(const std::string& nodeName) {
	hdr.DeleteBlock(GetBlockID(FindBlockByName<NiNode>(nodeName)));
}

bool NifFile::CanDeleteNode(NiNode* node) {
	if (!node)
		return false;

	std::set<NiRef*> refs;
	node->GetChildRefs(refs);

	// Only delete if the node has no child refs
	return std::all_of(refs.cbegin(), refs.cend(), [](auto&& ref) { return ref->IsEmpty(); });
}

bool NifFile::CanDeleteNode(const std::string& nodeName) const {
	auto node = FindBlockByName<NiNode>(nodeName);
	return CanDeleteNode(node);
}

std::string NifFile::GetNodeName(const uint32_t blockID) const {
	std::string name;

	auto n = hdr.GetBlock<NiNode>(blockID);
	if (n) {
		name = n->name.get();
		if (name.empty())
			name = "_unnamed_";
	}

	return name;
}

void NifFile::SetNodeName(const uint32_t blockID, const std::string& newName) {
	auto node = hdr.GetBlock<NiNode>(blockID);
	if (!node)
		return;

	node->name.get() = newName;
}

uint32_t NifFile::AssignExtraData(NiAVObject* target, std::unique_ptr<NiExtraData> extraData) {
	uint32_t extraDataId = hdr.AddBlock(std::move(extraData));
	target->extraDataRefs.AddBlockRef(extraDataId);
	return extraDataId;
}

NiShader* NifFile::GetShader(NiShape* shape) const {
	auto shader = hdr.GetBlock<NiShader>(shape->ShaderPropertyRef());
	if (shader)
		return shader;

	for (auto& prop : shape->propertyRefs) {
		auto shaderProp = hdr.GetBlock<NiShader>(prop);
		if (shaderProp) {
			shader = shaderProp;

			// Only return NiMaterialProperty if no other shader blocks are found
			if (!shaderProp->HasType<NiMaterialProperty>())
				return shaderProp;
		}
	}

	return shader;
}

NiMaterialProperty* NifFile::GetMaterialProperty(NiShape* shape) const {
	for (auto& prop : shape->propertyRefs) {
		auto material = hdr.GetBlock<NiMaterialProperty>(prop);
		if (material)
			return material;
	}

	return nullptr;
}

NiStencilProperty* NifFile::GetStencilProperty(NiShape* shape) const {
	for (auto& prop : shape->propertyRefs) {
		auto stencil = hdr.GetBlock<NiStencilProperty>(prop);
		if (stencil)
			return stencil;
	}

	return nullptr;
}

NiTexturingProperty* NifFile::GetTexturingProperty(NiShape* shape) const {
	for (auto& prop : shape->propertyRefs) {
		auto texturingProp = hdr.GetBlock<NiTexturingProperty>(prop);
		if (texturingProp)
			return texturingProp;
	}

	return nullptr;
}


NiGeometryData* NifFile::GetGeometryData(NiShape* shape) const {
	if (shape->HasType<NiTriBasedGeom>()) {
		return hdr.GetBlock<NiGeometryData>(shape->DataRef());
	}
	else if (shape->HasType<BSGeometry>()) {
		return static_cast<BSGeometry*>(shape)->GetGeomData();
	}
	return nullptr;
}

std::vector<std::reference_wrapper<std::string>> NifFile::GetExternalGeometryPathRefs(NiShape* shape) const {
	std::vector<std::reference_wrapper<std::string>> meshPaths;
	auto bsgeo = dynamic_cast<BSGeometry*>(shape);
	if (bsgeo) {
		for (uint8_t i = 0; i < bsgeo->MeshCount(); i++) {
			auto mesh = bsgeo->SelectMesh(i);
			meshPaths.push_back(mesh->meshName.get());
			bsgeo->ReleaseMesh();
		}
	}
	return meshPaths;
}

bool NifFile::LoadExternalShapeData(NiShape* shape, std::istream& infile, uint8_t shapeIndex) {
	auto bsgeo = dynamic_cast<BSGeometry*>(shape);
	if (bsgeo && (shapeIndex < bsgeo->MeshCount())) {
		NiIStream meshStream(&infile, nullptr);
		NiStreamReversible s(&meshStream, nullptr, NiStreamReversible::Mode::Reading);
		auto mesh = bsgeo->SelectMesh(shapeIndex);
		mesh->meshData.Sync(s);
		bsgeo->ReleaseMesh();
	}
	return true;
}

bool NifFile::SaveExternalShapeData(NiShape* shape, std::ostream& outfile, uint8_t shapeIndex) {
	auto bsgeo = dynamic_cast<BSGeometry*>(shape);
	if (bsgeo && (shapeIndex < bsgeo->MeshCount())) {
		NiOStream meshStream(&outfile, nullptr);
		NiStreamReversible s(nullptr, &meshStream,NiStreamReversible::Mode::Reading);
		auto mesh = bsgeo->SelectMesh(shapeIndex);
		mesh->Sync(s);
		bsgeo->ReleaseMesh();
	}
	return true;
}


std::vector<std::reference_wrapper<std::string>> NifFile::GetTexturePathRefs(NiShape* shape) const {
	std::vector<std::reference_wrapper<std::string>> texturePaths;

	auto shader = GetShader(shape);
	if (shader) {
		auto textureSet = hdr.GetBlock(shader->TextureSetRef());
		if (textureSet) {
			for (auto& t : textureSet->textures)
				texturePaths.push_back(t.get());
		}

		auto effectShader = dynamic_cast<BSEffectShaderProperty*>(shader);
		if (effectShader) {
			texturePaths.push_back(effectShader->sourceTexture.get());
			texturePaths.push_back(effectShader->normalTexture.get());
			texturePaths.push_back(effectShader->greyscaleTexture.get());
			texturePaths.push_back(effectShader->envMapTexture.get());
			texturePaths.push_back(effectShader->envMaskTexture.get());
		}
	}

	// Get texture path from referenced NiSourceTexture block
	auto pushSourceTexturePath = [&hdr = hdr, &texturePaths](const NiBlockRef<NiSourceTexture>& sourceRef) {
		auto sourceTexture = hdr.GetBlock(sourceRef);
		if (sourceTexture)
			texturePaths.push_back(sourceTexture->fileName.get());
	};

	// NiTexturingProperty and NiSourceTexture for OB
	auto texturingProp = GetTexturingProperty(shape);
	if (texturingProp) {
		if (texturingProp->hasBaseTex)
			pushSourceTexturePath(texturingProp->baseTex.sourceRef);

		if (texturingProp->hasDarkTex)
			pushSourceTexturePath(texturingProp->darkTex.sourceRef);

		if (texturingProp->hasDetailTex)
			pushSourceTexturePath(texturingProp->detailTex.sourceRef);

		if (texturingProp->hasGlossTex)
			pushSourceTexturePath(texturingProp->glossTex.sourceRef);

		if (texturingProp->hasGlowTex)
			pushSourceTexturePath(texturingProp->glowTex.sourceRef);

		if (texturingProp->hasBumpTex)
			pushSourceTexturePath(texturingProp->bumpTex.sourceRef);

		if (texturingProp->hasDecalTex0)
			pushSourceTexturePath(texturingProp->decalTex0.sourceRef);

		if (texturingProp->hasDecalTex1)
			pushSourceTexturePath(texturingProp->decalTex1.sourceRef);

		if (texturingProp->hasDecalTex2)
			pushSourceTexturePath(texturingProp->decalTex2.sourceRef);

		if (texturingProp->hasDecalTex3)
			pushSourceTexturePath(texturingProp->decalTex3.sourceRef);
	}

	return texturePaths;
}

uint32_t NifFile::GetTextureSlot(NiShape* shape, std::string& outTexFile, uint32_t texIndex) const {
	outTexFile.clear();

	auto shader = GetShader(shape);
	if (shader) {
		auto textureSet = hdr.GetBlock(shader->TextureSetRef());
		if (textureSet && texIndex + 1 <= textureSet->textures.size()) {
			outTexFile = textureSet->textures[texIndex].get();
			return 1;
		}

		if (!textureSet) {
			auto effectShader = dynamic_cast<BSEffectShaderProperty*>(shader);
			if (effectShader) {
				switch (texIndex) {
					case 0: outTexFile = effectShader->sourceTexture.get(); break;
					case 1: outTexFile = effectShader->normalTexture.get(); break;
					case 3: outTexFile = effectShader->greyscaleTexture.get(); break;
					case 4: outTexFile = effectShader->envMapTexture.get(); break;
					case 5: outTexFile = effectShader->envMaskTexture.get(); break;
				}

				return 2;
			}
		}
	}

	// Get texture path from referenced NiSourceTexture block
	auto getSourceTexturePath = [&hdr = hdr](const NiBlockRef<NiSourceTexture>& sourceRef) -> std::string {
		auto sourceTexture = hdr.GetBlock(sourceRef);
		if (sourceTexture)
			return sourceTexture->fileName.get();

		return std::string();
	};

	// NiTexturingProperty and NiSourceTexture for OB
	auto texturingProp = GetTexturingProperty(shape);
	if (texturingProp && texturingProp->textureCount > texIndex) {
		switch (texIndex) {
			case 0:
				if (texturingProp->hasBaseTex)
					outTexFile = getSourceTexturePath(texturingProp->baseTex.sourceRef);
				break;
			case 1:
				if (texturingProp->hasDarkTex)
					outTexFile = getSourceTexturePath(texturingProp->darkTex.sourceRef);
				break;
			case 2:
				if (texturingProp->hasDetailTex)
					outTexFile = getSourceTexturePath(texturingProp->detailTex.sourceRef);
				break;
			case 3:
				if (texturingProp->hasGlossTex)
					outTexFile = getSourceTexturePath(texturingProp->glossTex.sourceRef);
				break;
			case 4:
				if (texturingProp->hasGlowTex)
					outTexFile = getSourceTexturePath(texturingProp->glowTex.sourceRef);
				break;
			case 5:
				if (texturingProp->hasBumpTex)
					outTexFile = getSourceTexturePath(texturingProp->bumpTex.sourceRef);
				break;
			case 6:
				if (texturingProp->hasDecalTex0)
					outTexFile = getSourceTexturePath(texturingProp->decalTex0.sourceRef);
				break;
			case 7:
				if (texturingProp->hasDecalTex1)
					outTexFile = getSourceTexturePath(texturingProp->decalTex1.sourceRef);
				break;
			case 8:
				if (texturingProp->hasDecalTex2)
					outTexFile = getSourceTexturePath(texturingProp->decalTex2.sourceRef);
				break;
			case 9:
				if (texturingProp->hasDecalTex3)
					outTexFile = getSourceTexturePath(texturingProp->decalTex3.sourceRef);
				break;
		}

		if (!outTexFile.empty())
			return 3;
	}

	return 0;
}

void NifFile::SetTextureSlot(NiShape* shape, std::string& inTexFile, uint32_t texIndex) {
	auto shader = GetShader(shape);
	if (shader) {
		auto textureSet = hdr.GetBlock(shader->TextureSetRef());
		if (textureSet && texIndex + 1 <= textureSet->textures.size()) {
			textureSet->textures[texIndex].get() = inTexFile;
			return;
		}

		if (!textureSet) {
			auto effectShader = dynamic_cast<BSEffectShaderProperty*>(shader);
			if (effectShader) {
				switch (texIndex) {
					case 0: effectShader->sourceTexture.get() = inTexFile; break;
					case 1: effectShader->normalTexture.get() = inTexFile; break;
					case 3: effectShader->greyscaleTexture.get() = inTexFile; break;
					case 4: effectShader->envMapTexture.get() = inTexFile; break;
					case 5: effectShader->envMaskTexture.get() = inTexFile; break;
				}
				return;
			}
		}
	}

	// Set texture path in referenced NiSourceTexture block
	auto setSourceTexturePath = [&hdr = hdr](const NiBlockRef<NiSourceTexture>& sourceRef,
											 const std::string& texturePath) {
		auto sourceTexture = hdr.GetBlock(sourceRef);
		if (sourceTexture)
			sourceTexture->fileName.get() = texturePath;
	};

	// NiTexturingProperty and NiSourceTexture for OB
	auto texturingProp = GetTexturingProperty(shape);
	if (texturingProp) {
		texturingProp->textureCount = texIndex + 1;

		switch (texIndex) {
			case 0:
				texturingProp->hasBaseTex = true;
				setSourceTexturePath(texturingProp->baseTex.sourceRef, inTexFile);
				break;
			case 1:
				texturingProp->hasDarkTex = true;
				setSourceTexturePath(texturingProp->darkTex.sourceRef, inTexFile);
				break;
			case 2:
				texturingProp->hasDetailTex = true;
				setSourceTexturePath(texturingProp->detailTex.sourceRef, inTexFile);
				break;
			case 3:
				texturingProp->hasGlossTex = true;
				setSourceTexturePath(texturingProp->glossTex.sourceRef, inTexFile);
				break;
			case 4:
				texturingProp->hasGlowTex = true;
				setSourceTexturePath(texturingProp->glowTex.sourceRef, inTexFile);
				break;
			case 5:
				texturingProp->hasBumpTex = true;
				setSourceTexturePath(texturingProp->bumpTex.sourceRef, inTexFile);
				break;
			case 6:
				texturingProp->hasDecalTex0 = true;
				setSourceTexturePath(texturingProp->decalTex0.sourceRef, inTexFile);
				break;
			case 7:
				texturingProp->hasDecalTex1 = true;
				setSourceTexturePath(texturingProp->decalTex1.sourceRef, inTexFile);
				break;
			case 8:
				texturingProp->hasDecalTex2 = true;
				setSourceTexturePath(texturingProp->decalTex2.sourceRef, inTexFile);
				break;
			case 9:
				texturingProp->hasDecalTex3 = true;
				setSourceTexturePath(texturingProp->decalTex3.sourceRef, inTexFile);
				break;
		}
	}
}

void NifFile::TrimTexturePaths() {
	auto fTrimPath = [&hdr = hdr, &isTerrain = isTerrain](std::string& tex) -> std::string& {
		if (tex.empty())
			return tex;

		// Trim whitespace characters (including newlines)
		trim_whitespace(tex);

		if (tex.empty())
			return tex;

		// Replace multiple slashes or forward slashes with one backslash
		tex = std::regex_replace(tex, std::regex("[/\\\\]+"), "\\");

		// Repeat the removal steps until nothing changes, so that cleaning a cleaned path is a no-op
		std::string previous;
		do {
			previous = tex;

			// A "Data\" prefix of a terrain path is added back below
			if (isTerrain)
				tex = std::regex_replace(tex, std::regex("^Data\\\\", std::regex_constants::icase), "");

			// Search for the first occurrence of "\textures\" (only if "textures\" isn't at the start)
			std::smatch match;
			std::regex pattern(R"(^(?!textures\\)[\s\S]*?\\textures\\)", std::regex_constants::icase);

			if (std::regex_search(tex, match, pattern))
				tex = tex.substr(match[0].length()); // Remove matched string

			// Remove all backslashes (and whitespace they were hiding) from the front
			tex = std::regex_replace(tex, std::regex("^[\\\\\\s]+"), "");
		} while (tex != previous);

		if (!hdr.GetVersion().IsOB() && !hdr.GetVersion().IsSpecial() && is_relative_path(tex)) {
			// If the path doesn't start with "textures\", add it to the front
			tex = std::regex_replace(tex,
									 std::regex("^(?!^textures\\\\)", std::regex_constants::icase),
									 "textures\\");
		}

		// If the path doesn't start with "Data\", add it to the front
		if (isTerrain && is_relative_path(tex)) {
			tex = std::regex_replace(tex, std::regex("^(?!^Data\\\\)", std::regex_constants::icase), "Data\\");
		}
		return tex;
	};

	// Trim texture path in referenced NiSourceTexture block
	auto trimSourceTexturePath = [&hdr = hdr,
								  &fTrimPath = fTrimPath](const NiBlockRef<NiSourceTexture>& sourceRef) {
		auto sourceTexture = hdr.GetBlock(sourceRef);
		if (sourceTexture) {
			std::string tex = sourceTexture->fileName.get();
			sourceTexture->fileName.get() = fTrimPath(tex);
		}
	};

	for (auto& shape : GetShapes()) {
		auto shader = GetShader(shape);
		if (shader) {
			auto textureSet = hdr.GetBlock(shader->TextureSetRef());
			if (textureSet) {
				for (auto& i : textureSet->textures) {
					std::string tex = i.get();
					i.get() = fTrimPath(tex);
				}
			}

			auto effectShader = dynamic_cast<BSEffectShaderProperty*>(shader);
			if (effectShader) {
				std::string tex = effectShader->sourceTexture.get();
				effectShader->sourceTexture.get() = fTrimPath(tex);

				tex = effectShader->normalTexture.get();
				effectShader->normalTexture.get() = fTrimPath(tex);

				tex = effectShader->greyscaleTexture.get();
				effectShader->greyscaleTexture.get() = fTrimPath(tex);

				tex = effectShader->envMapTexture.get();
				effectShader->envMapTexture.get() = fTrimPath(tex);

				tex = effectShader->envMaskTexture.get();
				effectShader->envMaskTexture.get() = fTrimPath(tex);
			}
		}

		// NiTexturingProperty and NiSourceTexture for OB
		auto texturingProp = GetTexturingProperty(shape);
		if (texturingProp) {
			if (texturingProp->hasBaseTex)
				trimSourceTexturePath(texturingProp->baseTex.sourceRef);
			if (texturingProp->hasDarkTex)
				trimSourceTexturePath(texturingProp->darkTex.sourceRef);
			if (texturingProp->hasDetailTex)
				trimSourceTexturePath(texturingProp->detailTex.sourceRef);
			if (texturingProp->hasGlossTex)
				trimSourceTexturePath(texturingProp->glossTex.sourceRef);
			if (texturingProp->hasGlowTex)
				trimSourceTexturePath(texturingProp->glowTex.sourceRef);
			if (texturingProp->hasBumpTex)
				trimSourceTexturePath(texturingProp->bumpTex.sourceRef);
			if (texturingProp->hasDecalTex0)
				trimSourceTexturePath(texturingProp->decalTex0.sourceRef);
			if (texturingProp->hasDecalTex1)
				trimSourceTexturePath(texturingProp->decalTex1.sourceRef);
			if (texturingProp->hasDecalTex2)
				trimSourceTexturePath(texturingProp->decalTex2.sourceRef);
			if (texturingProp->hasDecalTex3)
				trimSourceTexturePath(texturingProp->decalTex3.sourceRef);
		}
	}
}

void NifFile::CloneChildren(NiObject* block, NifFile* srcNif) {
	if (!srcNif)
		srcNif = this;

	// Assign new refs and strings, rebind ptrs where possible
	std::function<void(NiObject*, uint32_t, uint32_t)> cloneBlock =
		[&](NiObject* b, uint32_t parentOldId, uint32_t parentNewId) -> void {
		std::set<NiRef*> refs;
		b->GetChildRefs(refs);

		for (auto& r : refs) {
			auto srcChild = srcNif->hdr.GetBlock<NiObject>(r);
			if (srcChild) {
				auto destChildS = srcChild->Clone();
				auto destChild = destChildS.get();
				uint32_t destId = hdr.AddBlock(std::move(destChildS));

				uint32_t oldId = r->index;
				r->index = destId;

				std::vector<NiStringRef*> strRefs;
				destChild->GetStringRefs(strRefs);

				for (auto& str : strRefs) {
					int strId = hdr.AddOrFindStringId(str->get());
					str->SetIndex(strId);
				}

				if (parentOldId != NIF_NPOS) {
					std::set<NiRef*> ptrs;
					destChild->GetPtrs(ptrs);

					for (auto& p : ptrs)
						if (p->index == parentOldId)
							p->index = parentNewId;

					cloneBlock(destChild, parentOldId, parentNewId);
				}
				else
					cloneBlock(destChild, oldId, destId);
			}
		}
	};

	cloneBlock(block, NIF_NPOS, NIF_NPOS);
}

NiShape* NifFile::CloneShape(NiShape* srcShape, const std::string& destShapeName, NifFile* srcNif) {
	if (!srcNif)
		srcNif = this;

	if (!srcShape)
		return nullptr;

	auto rootNode = GetRootNode();
	auto srcRootNode = srcNif->GetRootNode();

	// Geometry
	auto destShapeS = srcShape->Clone();
	auto destShape = destShapeS.get();
	destShape->name.get() = destShapeName;

	int destId = hdr.AddBlock(std::move(destShapeS));
	if (srcNif == this) {
		// Assign copied geometry to the same parent
		auto parentNode = GetParentNode(srcShape);
		if (parentNode)
			parentNode->childRefs.AddBlockRef(destId);
	}
	else if (rootNode)
		rootNode->childRefs.AddBlockRef(destId);

	// Children
	CloneChildren(destShape, srcNif);

	// Geometry Data
	auto destGeomData = hdr.GetBlock<NiTriBasedGeomData>(destShape->DataRef());
	if (destGeomData)
		destShape->SetGeomData(destGeomData);

	// Shader
	auto destShader = GetShader(destShape);
	if (destShader) {
		if (hdr.GetVersion().IsSK() || hdr.GetVersion().IsSSE()) {
			// Kill normals and tangents
			if (destShader->IsModelSpace()) {
				destShape->SetNormals(false);
				destShape->SetTangents(false);
			}
		}
	}

	// Bones
	std::vector<std::string> srcBoneList;
	srcNif->GetShapeBoneList(srcShape, srcBoneList);

	auto destBoneCont = hdr.GetBlock(destShape->SkinInstanceRef());
	if (destBoneCont)
		destBoneCont->boneRefs.Clear();

	if (rootNode && srcRootNode) {
		std::function<void(NiNode*)> cloneNodes = [&](NiNode* srcNode) -> void {
			std::string boneName = srcNode->name.get();

			// Insert as root child by default
			NiNode* nodeParent = rootNode;

			// Look for existing node to use as parent instead
			auto srcNodeParent = srcNif->GetParentNode(srcNode);
			if (srcNodeParent) {
				auto parent = FindBlockByName<NiNode>(srcNodeParent->name.get());
				if (parent)
					nodeParent = parent;
			}

			auto node = FindBlockByName<NiNode>(boneName);
			uint32_t boneID = GetBlockID(node);
			if (!node) {
				// Clone missing node into the right parent
				boneID = CloneNamedNode(boneName, srcNif);
				nodeParent->childRefs.AddBlockRef(boneID);
			}
			else {
				// Move existing node to non-root parent
				auto oldParent = GetParentNode(node);
				if (oldParent && oldParent != nodeParent && nodeParent != rootNode) {
					MatTransform xformToParent;
					srcNif->GetNodeTransformToParent(boneName, xformToParent);

					std::set<NiRef*> childRefs;
					oldParent->GetChildRefs(childRefs);
					for (auto& ref : childRefs)
						if (ref->index == boneID)
							ref->Clear();

					nodeParent->childRefs.AddBlockRef(boneID);
					SetNodeTransformToParent(boneName, xformToParent);
				}
			}

			// Recurse children
			for (auto& child : srcNode->childRefs) {
				auto childNode = srcNif->hdr.GetBlock<NiNode>(child);
				if (childNode)
					cloneNodes(childNode);
			}
		};

		for (auto& child : srcRootNode->childRefs) {
			auto srcChildNode = srcNif->hdr.GetBlock<NiNode>(child);
			if (srcChildNode)
				cloneNodes(srcChildNode);
		}
	}

	// Add bones to container if used in skin
	if (destBoneCont) {
		for (auto& boneName : srcBoneList) {
			auto node = FindBlockByName<NiNode>(boneName);
			int boneID = GetBlockID(node);
			if (node)
				destBoneCont->boneRefs.AddBlockRef(boneID);
		}
	}

	// Skeleton root of the skin instance: the source's root node becomes the destination's root node
	if (rootNode && srcRootNode) {
		uint32_t srcRootId = srcNif->GetBlockID(srcRootNode);
		uint32_t destRootId = GetBlockID(rootNode);

		auto destSkinInst = hdr.GetBlock<NiSkinInstance>(destShape->SkinInstanceRef());
		if (destSkinInst && destSkinInst->targetRef.index == srcRootId)
			destSkinInst->targetRef.index = destRootId;

		auto destBSSkinInst = hdr.GetBlock<BSSkinInstance>(destShape->SkinInstanceRef());
		if (destBSSkinInst && destBSSkinInst->targetRef.index == srcRootId)
			destBSSkinInst->targetRef.index = destRootId;
	}

	return destShape;
}

uint32_t NifFile::CloneNamedNode(const std::string& nodeName, NifFile* srcNif) {
	if (!srcNif)
		srcNif = this;

	auto srcNode = srcNif->FindBlockByName<NiNode>(nodeName);
	if (!srcNode)
		return NIF_NPOS;

	auto destNode = srcNode->Clone();
	destNode->name.get() = nodeName;
	destNode->collisionRef.Clear();
	destNode->controllerRef.Clear();
	destNode->childRefs.Clear();
	destNode->effectRefs.Clear();

	return hdr.AddBlock(std::move(destNode));
}

int NifFile::Save(const std::filesystem::path& fileName, const NifSaveOptions& options) {
	std::ofstream file(fileName, std::ios::out | std::ios::binary);
	return Save(file, options);
}

int NifFile::Save(std::ostream& file, const NifSaveOptions& options) {
	if (file) {
		NiOStream stream(&file, &hdr);
		FinalizeData();

		if (options.optimize) {
			uint32_t numBlocksBefore = hdr.GetNumBlocks();
			Optimize();

			// Strings of blocks that were just pruned don't belong into the header anymore
			if (hdr.GetNumBlocks() != numBlocksBefore)
				hdr.UpdateHeaderStrings(hasUnknown);
		}

		if (options.sortBlocks)
			PrettySortBlocks();

		hdr.Put(stream);
		stream.InitBlockSize();

		// Retrieve block sizes from NiStream while writing
		std::vector<std::streamsize> blockSizes(hdr.GetNumBlocks());
		for (uint32_t i = 0; i < hdr.GetNumBlocks(); i++) {
			blocks[i]->Put(stream);
			blockSizes[i] = stream.GetBlockSize();
			stream.InitBlockSize();
		}

		uint32_t endPad = 1;
		stream << endPad;
		endPad = 0;
		stream << endPad;

		// Get previous stream pos of block size array and overwrite
		std::streampos blockSizePos = hdr.GetBlockSizeStreamPos();
		if (blockSizePos != std::streampos()) {
			file.seekp(blockSizePos);

			for (uint32_t i = 0; i < hdr.GetNumBlocks(); i++)
				stream << static_cast<uint32_t>(blockSizes[i]);

			hdr.ResetBlockSizeStreamPos();
		}
	}
	else
		return 1;

	return 0;
}

void NifFile::Optimize() {
	for (auto& s : GetShapes())
		s->UpdateBounds();

	DeleteUnreferencedBlocks();
}

OptResult NifFile::OptimizeFor(OptOptions& options) {
	OptResult result;

	const bool toSSE = options.targetVersion.IsSSE() && hdr.GetVersion().IsSK();
	const bool toLE = options.targetVersion.IsSK() && hdr.GetVersion().IsSSE();

	if (!toSSE && !toLE) {
		result.versionMismatch = true;
		return result;
	}

	if (!isTerrain)
		result.dupesRenamed = RenameDuplicateShapes();

	hdr.SetVersion(options.targetVersion);

	auto shapes = GetShapes();
	if (toSSE) {
		for (auto* shape : shapes) {
			std::string shapeName = shape->name.get();

			auto geomData = hdr.GetBlock<NiGeometryData>(shape->DataRef());

			if (!geomData)
				continue;

			bool removeVertexColors = true;
			bool hasTangents = geomData->HasTangents();
			std::vector<Vector3>* vertices = &geomData->vertices;
			std::vector<Vector3>* normals = &geomData->normals;
			const std::vector<Color4>& colors = geomData->vertexColors;
			std::vector<Vector2>* uvs = nullptr;
			if (!geomData->uvSets.empty())
				uvs = &geomData->uvSets[0];

			std::vector<Triangle> triangles;
			geomData->GetTriangles(triangles);

			if (!options.removeParallax)
				removeVertexColors = false;

			// Only remove vertex colors if all are 0xFFFFFFFF
			if (removeVertexColors) {
				Color4 white(1.0f, 1.0f, 1.0f, 1.0f);
				for (auto& c : colors) {
					if (white != c) {
						removeVertexColors = false;
						break;
					}
				}
			}

			bool headPartEyes = false;
			NiShader* shader = GetShader(shape);
			if (shader) {
				auto bslsp = dynamic_cast<BSLightingShaderProperty*>(shader);
				if (bslsp) {
					// Remember eyes flag for later
					if ((bslsp->shaderFlags1 & (1 << 17)) != 0)
						headPartEyes = true;

					// No normals and tangents with model space maps
					if (bslsp->IsModelSpace()) {
						if (!normals->empty())
							result.shapesNormalsRemoved.push_back(shapeName);

						normals = nullptr;
					}

					// Check tree anim flag
					if ((bslsp->shaderFlags2 & (1 << 29)) != 0)
						removeVertexColors = false;

					// Disable flags if vertex colors were removed
					if (removeVertexColors) {
						bslsp->SetVertexColors(false);
						bslsp->SetVertexAlpha(false);
					}

					if (options.removeParallax) {
						if (bslsp->GetShaderType() == BSLSP_PARALLAX) {
							// Change type from parallax to default
							bslsp->SetShaderType(BSLSP_DEFAULT);

							// Remove parallax flag
							bslsp->shaderFlags1 &= ~(1 << 11);

							// Remove parallax texture from set
							auto textureSet = hdr.GetBlock(shader->TextureSetRef());
							if (textureSet && textureSet->textures.size() >= 4)
								textureSet->textures[3].clear();

							result.shapesParallaxRemoved.push_back(shapeName);
						}
					}
				}

				auto bsesp = dynamic_cast<BSEffectShaderProperty*>(shader);
				if (bsesp) {
					// Remember eyes flag for later
					if ((bsesp->shaderFlags1 & (1 << 17)) != 0)
						headPartEyes = true;

					// Check tree anim flag
					if ((bsesp->shaderFlags2 & (1 << 29)) != 0)
						removeVertexColors = false;

					// Disable flags if vertex colors were removed
					if (removeVertexColors) {
						bsesp->SetVertexColors(false);
						bsesp->SetVertexAlpha(false);
					}
				}
			}

			if (!colors.empty() && removeVertexColors)
				result.shapesVColorsRemoved.push_back(shapeName);

			std::unique_ptr<BSTriShape> bsOptShape = nullptr;

			auto bsSegmentShape = dynamic_cast<BSSegmentedTriShape*>(shape);
			if (bsSegmentShape) {
				bsOptShape = std::make_unique<BSSubIndexTriShape>();
			}
			else {
				if (options.headParts)
					bsOptShape = std::make_unique<BSDynamicTriShape>();
				else
					bsOptShape = std::make_unique<BSTriShape>();
			}

			bsOptShape->name.get() = shape->name.get();
			bsOptShape->controllerRef = shape->controllerRef;

			if (shape->HasSkinInstance())
				bsOptShape->SkinInstanceRef()->index = shape->SkinInstanceRef()->index;

			if (shape->HasShaderProperty())
				bsOptShape->ShaderPropertyRef()->index = shape->ShaderPropertyRef()->index;

			if (shape->HasAlphaProperty())
				bsOptShape->AlphaPropertyRef()->index = shape->AlphaPropertyRef()->index;

			bsOptShape->collisionRef = shape->collisionRef;
			bsOptShape->propertyRefs = shape->propertyRefs;
			bsOptShape->extraDataRefs = shape->extraDataRefs;

			bsOptShape->SetTransformToParent(shape->GetTransformToParent());

			bsOptShape->Create(hdr.GetVersion(), vertices, &triangles, uvs, normals);
			bsOptShape->flags = shape->flags;

			// Move segments to new shape
			if (bsSegmentShape) {
				auto bsSITS = static_cast<BSSubIndexTriShape*>(bsOptShape.get());
				bsSITS->SetSegments(bsSegmentShape->GetSegments());
			}

			// Restore old bounds for static meshes or when calc bounds is off
			if (!shape->IsSkinned() || !options.calcBounds)
				bsOptShape->SetBounds(geomData->GetBounds());

			// Vertex Colors
			if (bsOptShape->GetNumVertices() > 0) {
				if (!removeVertexColors && !colors.empty()) {
					bsOptShape->SetVertexColors(true);
					for (uint16_t i = 0; i < bsOptShape->GetNumVertices(); i++) {
						auto& vertex = bsOptShape->vertData[i];

						float f = std::max(0.0f, std::min(1.0f, colors[i].r));
						vertex.colorData[0] = static_cast<uint8_t>(std::floor(f == 1.0f ? 255 : f * 256.0));

						f = std::max(0.0f, std::min(1.0f, colors[i].g));
						vertex.colorData[1] = static_cast<uint8_t>(std::floor(f == 1.0f ? 255 : f * 256.0));

						f = std::max(0.0f, std::min(1.0f, colors[i].b));
						vertex.colorData[2] = static_cast<uint8_t>(std::floor(f == 1.0f ? 255 : f * 256.0));

						f = std::max(0.0f, std::min(1.0f, colors[i].a));
						vertex.colorData[3] = static_cast<uint8_t>(std::floor(f == 1.0f ? 255 : f * 256.0));
					}
				}

				// Find NiOptimizeKeep string
				for (auto& extraData : bsOptShape->extraDataRefs) {
					auto stringData = hdr.GetBlock<NiStringExtraData>(extraData);
					if (stringData) {
						if (stringData->stringData.get().find("NiOptimizeKeep") != std::string::npos) {
							bsOptShape->particleDataSize = bsOptShape->GetNumVertices() * 6
														   + static_cast<uint32_t>(triangles.size()) * 3;
							bsOptShape->particleVerts = *vertices;

							bsOptShape->particleNorms.resize(vertices->size(), Vector3(1.0f, 0.0f, 0.0f));
							if (normals && normals->size() == vertices->size())
								bsOptShape->particleNorms = *normals;

							bsOptShape->particleTris = triangles;
						}
					}
				}

				// Skinning and partitions
				if (shape->IsSkinned()) {
					bsOptShape->SetSkinned(true);

					auto skinInst = hdr.GetBlock<NiSkinInstance>(shape->SkinInstanceRef());
					if (skinInst) {
						auto skinPart = hdr.GetBlock(skinInst->skinPartitionRef);
						if (skinPart) {
							bool triangulated = skinPart->ConvertStripsToTriangles();
							if (triangulated)
								result.shapesPartTriangulated.push_back(shapeName);

							for (uint32_t partID = 0; partID < skinPart->numPartitions; partID++) {
								NiSkinPartition::PartitionBlock& part = skinPart->partitions[partID];

								for (uint32_t i = 0; i < part.numVertices; i++) {
									const uint16_t v = part.vertexMap[i];

									if (bsOptShape->vertData.size() > v) {
										auto& vertex = bsOptShape->vertData[v];

										if (part.hasVertexWeights) {
											auto& weights = part.vertexWeights[i];
											vertex.weights[0] = weights.w1;
											vertex.weights[1] = weights.w2;
											vertex.weights[2] = weights.w3;
											vertex.weights[3] = weights.w4;
										}

										if (part.hasBoneIndices) {
											// Partitions can have no (or fewer) bones than their bone indices refer to
											auto partBone = [&part](const uint8_t boneIndex) {
												return boneIndex < part.bones.size() ? static_cast<uint8_t>(part.bones[boneIndex]) : uint8_t(0);
											};

											auto& boneIndices = part.boneIndices[i];
											vertex.weightBones[0] = partBone(boneIndices.i1);
											vertex.weightBones[1] = partBone(boneIndices.i2);
											vertex.weightBones[2] = partBone(boneIndices.i3);
											vertex.weightBones[3] = partBone(boneIndices.i4);
										}
									}
								}

								part.GenerateTrueTrianglesFromMappedTriangles();
								part.triangles = part.trueTriangles;
							}
							skinPart->bMappedIndices = false;
						}
					}
				}
				else
					bsOptShape->SetSkinned(false);
			}
			else
				bsOptShape->SetVertices(false);

			// Check if tangents were added
			if (!hasTangents && bsOptShape->HasTangents())
				result.shapesTangentsAdded.push_back(shapeName);

			// Enable eye data flag
			if (!bsSegmentShape) {
				if (options.headParts) {
					if (headPartEyes)
						bsOptShape->SetEyeData(true);
				}
			}

			auto bsOptShapeObserver = bsOptShape.get();
			hdr.ReplaceBlock(GetBlockID(shape), std::move(bsOptShape));
			UpdateSkinPartitions(bsOptShapeObserver);
		}

		DeleteUnreferencedBlocks();

		// For files without a root node, remove the leftover data blocks anyway
		hdr.DeleteBlockByType("NiTriStripsData", true);
		hdr.DeleteBlockByType("NiTriShapeData", true);
	}
	else {
		for (auto* shape : shapes) {
			std::string shapeName = shape->name.get();

			auto bsTriShape = dynamic_cast<BSTriShape*>(shape);
			if (!bsTriShape)
				continue;

			bool removeVertexColors = true;
			bool removeNormals = false;
			bool hasTangents = bsTriShape->HasTangents();
			const std::vector<Vector3>& vertices = bsTriShape->UpdateRawVertices();
			const std::vector<Vector3>& normals = bsTriShape->UpdateRawNormals();
			const std::vector<Color4>& colors = bsTriShape->UpdateRawColors();
			const std::vector<Vector2>& uvs = bsTriShape->UpdateRawUvs();

			std::vector<Triangle> triangles;
			bsTriShape->GetTriangles(triangles);

			if (!options.removeParallax)
				removeVertexColors = false;

			// Only remove vertex colors if all are 0xFFFFFFFF
			if (bsTriShape->HasVertexColors() && removeVertexColors) {
				Color4 white(1.0f, 1.0f, 1.0f, 1.0f);
				for (auto& c : colors) {
					if (white != c) {
						removeVertexColors = false;
						break;
					}
				}
			}

			NiShader* shader = GetShader(shape);
			if (shader) {
				auto bslsp = dynamic_cast<BSLightingShaderProperty*>(shader);
				if (bslsp) {
					// No normals and tangents with model space maps
					if (bslsp->IsModelSpace()) {
						if (!normals.empty())
							result.shapesNormalsRemoved.push_back(shapeName);

						removeNormals = true;
					}

					// Check tree anim flag
					if ((bslsp->shaderFlags2 & (1 << 29)) != 0)
						removeVertexColors = false;

					// Disable flags if vertex colors were removed
					if (removeVertexColors) {
						bslsp->SetVertexColors(false);
						bslsp->SetVertexAlpha(false);
					}

					// this flag breaks LE headparts
					if (options.headParts) {
						bslsp->shaderFlags2 &= ~SLSF2_PACKED_TANGENT;
					}

					if (options.removeParallax) {
						if (bslsp->GetShaderType() == BSLSP_PARALLAX) {
							// Change type from parallax to default
							bslsp->SetShaderType(BSLSP_DEFAULT);

							// Remove parallax flag
							bslsp->shaderFlags1 &= ~(1 << 11);

							// Remove parallax texture from set
							auto textureSet = hdr.GetBlock(shader->TextureSetRef());
							if (textureSet && textureSet->textures.size() >= 4)
								textureSet->textures[3].clear();

							result.shapesParallaxRemoved.push_back(shapeName);
						}
					}
				}

				auto bsesp = dynamic_cast<BSEffectShaderProperty*>(shader);
				if (bsesp) {
					// Check tree anim flag
					if ((bsesp->shaderFlags2 & (1 << 29)) != 0)
						removeVertexColors = false;

					// Disable flags if vertex colors were removed
					if (removeVertexColors) {
						bsesp->SetVertexColors(false);
						bsesp->SetVertexAlpha(false);
					}
				}
			}

			if (!colors.empty() && removeVertexColors)
				result.shapesVColorsRemoved.push_back(shapeName);

			std::unique_ptr<NiTriShape> bsOptShape = nullptr;
			auto [bsOptShapeDataS, bsOptShapeData] = make_unique<NiTriShapeData>();
			auto bsSITS = dynamic_cast<BSSubIndexTriShape*>(shape);
			if (bsSITS)
				bsOptShape = std::make_unique<BSSegmentedTriShape>();
			else
				bsOptShape = std::make_unique<NiTriShape>();

			int dataId = hdr.AddBlock(std::move(bsOptShapeDataS));
			bsOptShape->DataRef()->index = dataId;
			bsOptShape->SetGeomData(bsOptShapeData);
			bsOptShapeData->Create(hdr.GetVersion(),
								   &vertices,
								   &triangles,
								   &uvs,
								   !removeNormals ? &normals : nullptr);

			bsOptShape->name.get() = shape->name.get();

			if (shape->HasSkinInstance())
				bsOptShape->SkinInstanceRef()->index = shape->SkinInstanceRef()->index;

			if (shape->HasShaderProperty())
				bsOptShape->ShaderPropertyRef()->index = shape->ShaderPropertyRef()->index;

			if (shape->HasAlphaProperty())
				bsOptShape->AlphaPropertyRef()->index = shape->AlphaPropertyRef()->index;

			bsOptShape->controllerRef = shape->controllerRef;
			bsOptShape->collisionRef = shape->collisionRef;
			bsOptShape->propertyRefs = shape->propertyRefs;
			bsOptShape->extraDataRefs = shape->extraDataRefs;

			bsOptShape->SetTransformToParent(shape->GetTransformToParent());
			bsOptShape->flags = shape->flags;

			// Move segments to new shape
			if (bsSITS) {
				auto bsSegmentShape = static_cast<BSSegmentedTriShape*>(bsOptShape.get());
				bsSegmentShape->SetSegments(bsSITS->GetSegments());
			}

			// Restore old bounds for static meshes or when calc bounds is off
			if (!shape->IsSkinned() || !options.calcBounds)
				bsOptShape->SetBounds(bsTriShape->GetBounds());

			// Vertex Colors
			if (bsOptShape->GetNumVertices() > 0) {
				if (!removeVertexColors && !colors.empty()) {
					bsOptShape->SetVertexColors(true);
					for (uint16_t i = 0; i < bsOptShape->GetNumVertices(); i++)
						bsOptShapeData->vertexColors[i] = colors[i];
				}

				// Skinning and partitions
				if (shape->IsSkinned()) {
					auto skinInst = hdr.GetBlock<NiSkinInstance>(shape->SkinInstanceRef());
					if (skinInst) {
						auto skinPart = hdr.GetBlock(skinInst->skinPartitionRef);
						if (skinPart) {
							bool triangulated = skinPart->ConvertStripsToTriangles();
							if (triangulated)
								result.shapesPartTriangulated.push_back(shapeName);

							for (uint32_t partID = 0; partID < skinPart->numPartitions; partID++) {
								NiSkinPartition::PartitionBlock& part = skinPart->partitions[partID];

								part.GenerateMappedTrianglesFromTrueTrianglesAndVertexMap();
							}
							skinPart->bMappedIndices = true;
						}
					}
				}
			}
			else
				bsOptShape->SetVertices(false);

			// Check if tangents were added
			if (!hasTangents && bsOptShape->HasTangents())
				result.shapesTangentsAdded.push_back(shapeName);

			auto bsOptShapeObserver = bsOptShape.get();
			hdr.ReplaceBlock(GetBlockID(shape), std::move(bsOptShape));
			UpdateSkinPartitions(bsOptShapeObserver);
		}

		DeleteUnreferencedBlocks();
		PrettySortBlocks();
	}

	if (options.fixBSXFlags)
		FixBSXFlags();

	if (options.fixShaderFlags)
		FixShaderFlags();

	return result;
}

void NifFile::PrepareData() {
	hdr.FillStringRefs();
	LinkGeomData();
	TrimTexturePaths();

	for (auto& shape : GetShapes()) {
		// Move triangle and vertex data from partition to shape
		if (hdr.GetVersion().IsSSE()) {
			auto* bsTriShape = dynamic_cast<BSTriShape*>(shape);
			if (!bsTriShape)
				continue;

			auto skinInst = hdr.GetBlock<NiSkinInstance>(shape->SkinInstanceRef());
			if (!skinInst)
				continue;

			auto skinPart = hdr.GetBlock(skinInst->skinPartitionRef);
			if (!skinPart)
				continue;

			bsTriShape->SetVertexData(skinPart->vertData);

			std::vector<Triangle> tris;
			for (int pi = 0; pi < static_cast<int>(skinPart->partitions.size()); ++pi)
				for (auto& tri : skinPart->partitions[pi].trueTriangles) {
					tris.push_back(tri);
					skinPart->triParts.push_back(pi);
				}

			bsTriShape->SetTriangles(tris);

			auto dynamicShape = dynamic_cast<BSDynamicTriShape*>(bsTriShape);
			if (dynamicShape) {
				for (uint16_t i = 0; i < dynamicShape->GetNumVertices(); i++) {
					dynamicShape->vertData[i].vert.x = dynamicShape->dynamicData[i].x;
					dynamicShape->vertData[i].vert.y = dynamicShape->dynamicData[i].y;
					dynamicShape->vertData[i].vert.z = dynamicShape->dynamicData[i].z;
					dynamicShape->vertData[i].bitangentX = dynamicShape->dynamicData[i].w;
				}
			}
		}

		// Move tangents and bitangents from binary extra data to shape
		if (hdr.GetVersion().IsOB()) {
			std::vector<Vector3> tangents;
			std::vector<Vector3> bitangents;
			if (GetBinaryTangentData(shape, &tangents, &bitangents)) {
				SetTangentsForShape(shape, tangents);
				SetBitangentsForShape(shape, bitangents);
			}
		}
	}

	RemoveInvalidTris();
}

void NifFile::FinalizeData() {
	for (auto& shape : GetShapes()) {
		auto bsTriShape = dynamic_cast<BSTriShape*>(shape);
		if (bsTriShape) {
			auto bsDynTriShape = dynamic_cast<BSDynamicTriShape*>(shape);
			if (bsDynTriShape)
				bsDynTriShape->CalcDynamicData();

			bsTriShape->CalcDataSizes(hdr.GetVersion());

			if (hdr.GetVersion().IsSSE()) {
				// Move triangle and vertex data from shape to partition
				auto skinInst = hdr.GetBlock<NiSkinInstance>(shape->SkinInstanceRef());
				if (skinInst) {
					auto skinPart = hdr.GetBlock(skinInst->skinPartitionRef);
					if (skinPart) {
						skinPart->numVertices = bsTriShape->GetNumVertices();
						skinPart->dataSize = bsTriShape->dataSize;
						skinPart->vertexSize = bsTriShape->vertexSize;
						skinPart->vertData = bsTriShape->vertData;
						skinPart->vertexDesc = bsTriShape->vertexDesc;

						for (uint32_t partInd = 0; partInd < skinPart->numPartitions; ++partInd) {
							NiSkinPartition::PartitionBlock& part = skinPart->partitions[partInd];

							// Copy relevant data from shape to each partition
							part.vertexDesc = bsTriShape->vertexDesc;
						}
					}
				}
			}
		}

		if (hdr.GetVersion().IsOB()) {
			// Move tangents and bitangents from shape back to binary extra data
			if (shape->HasTangents()) {
				auto tangents = GetTangentsForShape(shape);
				auto bitangents = GetBitangentsForShape(shape);
				SetBinaryTangentData(shape, tangents, bitangents);
			}
			else
				DeleteBinaryTangentData(shape);
		}
	}

	hdr.UpdateHeaderStrings(hasUnknown);
}

bool NifFile::IsSSECompatible() const {
	auto shapes = GetShapes();
	return std::all_of(shapes.cbegin(), shapes.cend(), [this](auto&& shape) {
		return IsSSECompatible(shape);
	});
}

bool NifFile::IsSSECompatible(NiShape* shape) const {
	// Check if shape has strips in the geometry or skin partition
	if (shape->HasType<NiTriStrips>())
		return false;

	auto skinInst = hdr.GetBlock<NiSkinInstance>(shape->SkinInstanceRef());
	if (skinInst) {
		auto skinPart = hdr.GetBlock(skinInst->skinPartitionRef);
		if (skinPart) {
			for (auto& partition : skinPart->partitions) {
				if (partition.numStrips > 0)
					return false;
			}
		}
	}

	return true;
}

NiShape* NifFile::CreateShapeFromData(const std::string& shapeName,
									  const std::vector<Vector3>* v,
									  const std::vector<Triangle>* t,
									  const std::vector<Vector2>* uv,
									  const std::vector<Vector3>* norms) {
	auto rootNode = GetRootNode();
	if (!rootNode)
		return nullptr;

	const NiVersion& version = hdr.GetVersion();

	NiShape* shapeResult = nullptr;
	if (version.IsSSE()) {
		auto triShape = std::make_unique<BSTriShape>();
		triShape->Create(hdr.GetVersion(), v, t, uv, norms);
		triShape->SetSkinned(false);

		auto nifTexset = std::make_unique<BSShaderTextureSet>(hdr.GetVersion());

		auto nifShader = std::make_unique<BSLightingShaderProperty>(hdr.GetVersion());
		nifShader->TextureSetRef()->index = hdr.AddBlock(std::move(nifTexset));
		nifShader->SetSkinned(false);

		triShape->name.get() = shapeName;

		int shaderID = hdr.AddBlock(std::move(nifShader));
		triShape->ShaderPropertyRef()->index = shaderID;

		shapeResult = triShape.get();

		int shapeID = hdr.AddBlock(std::move(triShape));
		rootNode->childRefs.AddBlockRef(shapeID);
	}
	else if (version.IsFO4() || version.IsFO76()) {
		auto nifBSTriShape = std::make_unique<BSSubIndexTriShape>();
		nifBSTriShape->Create(hdr.GetVersion(), v, t, uv, norms);
		nifBSTriShape->SetSkinned(false);

		auto nifTexset = std::make_unique<BSShaderTextureSet>(hdr.GetVersion());

		auto nifShader = std::make_unique<BSLightingShaderProperty>(hdr.GetVersion());
		nifShader->TextureSetRef()->index = hdr.AddBlock(std::move(nifTexset));

		std::string wetShaderName = "template/OutfitTemplate_Wet.bgsm";
		nifShader->SetWetMaterialName(wetShaderName);
		nifShader->SetSkinned(false);

		nifBSTriShape->name.get() = shapeName;

		int shaderID = hdr.AddBlock(std::move(nifShader));
		nifBSTriShape->ShaderPropertyRef()->index = shaderID;

		shapeResult = nifBSTriShape.get();

		int shapeID = hdr.AddBlock(std::move(nifBSTriShape));
		rootNode->childRefs.AddBlockRef(shapeID);
	}
	else {
		auto nifTexset = std::make_unique<BSShaderTextureSet>(hdr.GetVersion());

		int shaderID{};
		std::unique_ptr<BSLightingShaderProperty> nifShader = nullptr;
		std::unique_ptr<BSShaderPPLightingProperty> nifShaderPP = nullptr;

		if (version.IsSK()) {
			nifShader = std::make_unique<BSLightingShaderProperty>(hdr.GetVersion());
			nifShader->TextureSetRef()->index = hdr.AddBlock(std::move(nifTexset));
			nifShader->SetSkinned(false);
			shaderID = hdr.AddBlock(std::move(nifShader));
		}
		else {
			nifShaderPP = std::make_unique<BSShaderPPLightingProperty>();
			nifShaderPP->TextureSetRef()->index = hdr.AddBlock(std::move(nifTexset));
			nifShaderPP->SetSkinned(false);
			shaderID = hdr.AddBlock(std::move(nifShaderPP));
		}

		auto nifTriShape = std::make_unique<NiTriShape>();
		if (version.IsSK())
			nifTriShape->ShaderPropertyRef()->index = shaderID;
		else
			nifTriShape->propertyRefs.AddBlockRef(shaderID);

		nifTriShape->name.get() = shapeName;

		auto nifShapeData = std::make_unique<NiTriShapeData>();
		nifShapeData->Create(hdr.GetVersion(), v, t, uv, norms);
		nifTriShape->SetGeomData(nifShapeData.get());

		int dataID = hdr.AddBlock(std::move(nifShapeData));
		nifTriShape->DataRef()->index = dataID;
		nifTriShape->SetSkinned(false);

		shapeResult = nifTriShape.get();

		int shapeID = hdr.AddBlock(std::move(nifTriShape));
		rootNode->childRefs.AddBlockRef(shapeID);
	}

	return shapeResult;
}

std::vector<std::string> NifFile::GetShapeNames() const {
	std::vector<std::string> outList;
	for (auto& block : blocks) {
		auto shape = dynamic_cast<NiShape*>(block.get());
		if (shape)
			outList.push_back(shape->name.get());
	}
	return outList;
}

std::vector<NiShape*> NifFile::GetShapes() const {
	std::vector<NiShape*> outList;
	for (auto& block : blocks) {
		auto shape = dynamic_cast<NiShape*>(block.get());
		if (shape)
			outList.push_back(shape);
	}
	return outList;
}

bool NifFile::RenameShape(NiShape* shape, const std::string& newName) {
	if (shape) {
		shape->name.get() = newName;
		return true;
	}

	return false;
}

bool NifFile::RenameDuplicateShapes() {
	auto countDupes = [this](NiNode* parent, const std::string& name) {
		if (name.empty())
			return ptrdiff_t(0);

		std::vector<std::string> names;
		std::set<int> uniqueRefs;
		for (auto& child : parent->childRefs) {
			auto obj = hdr.GetBlock<NiAVObject>(child);
			if (obj) {
				if (uniqueRefs.find(child.index) == uniqueRefs.end()) {
					names.push_back(obj->name.get());
					uniqueRefs.insert(child.index);
				}
			}
		}

		return std::count(names.begin(), names.end(), name);
	};

	bool renamed = false;
	auto nodes = GetNodes();

	for (auto& node : nodes) {
		int dupCount = 0;

		for (auto& child : node->childRefs) {
			auto shape = hdr.GetBlock<NiShape>(child);
			if (shape) {
				// Skip first child
				if (dupCount == 0) {
					dupCount++;
					continue;
				}

				std::string shapeName = shape->name.get();

				bool duped = countDupes(node, shapeName) > 1;
				if (duped) {
					std::string dup = "_" + std::to_string(dupCount);

					while (countDupes(node, shapeName + dup) > 0) {
						dupCount++;
						dup = "_" + std::to_string(dupCount);
					}

					shape->name.get() = shapeName + dup;
					dupCount++;
					renamed = true;
				}
			}
		}
	}

	return renamed;
}

void NifFile::TriangulateShape(NiShape* shape) {
	if (shape->HasType<NiTriStrips>()) {
		auto stripsData = hdr.GetBlock<NiTriStripsData>(shape->DataRef());
		if (stripsData) {
			std::vector<Triangle> tris = stripsData->StripsToTris();

			if (!tris.empty()) {
				auto [triShapeS, triShape] = make_unique<NiTriShape>();
				*static_cast<NiTriBasedGeom*>(triShape) = *static_cast<NiTriBasedGeom*>(shape);
				hdr.ReplaceBlock(GetBlockID(shape), std::move(triShapeS));

				auto [triShapeDataS, triShapeData] = make_unique<NiTriShapeData>();
				*static_cast<NiTriBasedGeomData*>(triShapeData) = *static_cast<NiTriBasedGeomData*>(
					stripsData);
				triShapeData->SetTriangles(tris);
				hdr.ReplaceBlock(GetBlockID(stripsData), std::move(triShapeDataS));
				triShape->SetGeomData(triShapeData);
			}
		}
	}
}

NiNode* NifFile::GetRootNode() const {
	// Check if block at index 0 is a node
	auto root = hdr.GetBlock<NiNode>(0u);
	if (!root) {
		// Not a node, look for first node block
		for (auto& block : blocks) {
			auto node = dynamic_cast<NiNode*>(block.get());
			if (node) {
				root = node;
				break;
			}
		}
	}
	return root;
}

void NifFile::GetTree(std::vector<NiObject*>& result, NiObject* parent) const {
	if (parent == nullptr) {
		parent = GetRootNode();
		if (parent == nullptr)
			return;
	}

	result.push_back(parent);

	std::vector<uint32_t> indices;
	parent->GetChildIndices(indices);

	for (auto& i : indices) {
		auto child = hdr.GetBlock<NiObject>(i);
		if (child && !contains(result, child))
			GetTree(result, child);
	}
}

bool NifFile::GetNodeTransformToParent(const std::string& nodeName, MatTransform& outTransform) const {
	for (auto& block : blocks) {
		auto node = dynamic_cast<NiNode*>(block.get());
		if (node && node->name == nodeName) {
			outTransform = node->GetTransformToParent();
			return true;
		}
	}
	return false;
}

bool NifFile::GetNodeTransformToGlobal(const std::string& nodeName, MatTransform& outTransform) const {
	for (auto& block : blocks) {
		auto* node = dynamic_cast<NiNode*>(block.get());
		if (!node || node->name != nodeName)
			continue;

		MatTransform xform = node->GetTransformToParent();
		NiNode* parent = GetParentNode(node);

		// A parent chain can't be longer than the block count. Stops on cyclic child references.
		size_t depth = 0;
		while (parent && depth++ < blocks.size()) {
			xform = parent->GetTransformToParent().ComposeTransforms(xform);
			parent = GetParentNode(parent);
		}
		outTransform = xform;
		return true;
	}

	return false;
}

bool NifFile::SetNodeTransformToParent(const std::string& nodeName,
									   const MatTransform& inTransform,
									   const bool rootChildrenOnly) {
	if (rootChildrenOnly) {
		auto root = GetRootNode();
		if (root) {
			for (auto& child : root->childRefs) {
				auto node = hdr.GetBlock<NiNode>(child);
				if (node) {
					if (node->name == nodeName) {
						node->SetTransformToParent(inTransform);
						return true;
					}
				}
			}
		}
	}
	else {
		for (auto& block : blocks) {
			auto node = dynamic_cast<NiNode*>(block.get());
			if (node && node->name == nodeName) {
				node->SetTransformToParent(inTransform);
				return true;
			}
		}
	}

	return false;
}

uint32_t NifFile::GetShapeBoneList(NiShape* shape, std::vector<std::string>& outList) const {
	outList.clear();

	if (!shape)
		return 0;

	auto skinInst = hdr.GetBlock<NiBoneContainer>(shape->SkinInstanceRef());
	if (!skinInst)
		return 0;

	for (auto& bone : skinInst->boneRefs) {
		auto node = hdr.GetBlock(bone);
		if (node)
			outList.push_back(node->name.get());
	}

	return static_cast<uint32_t>(outList.size());
}

uint32_t NifFile::GetShapeBoneIDList(NiShape* shape, std::vector<int>& outList) const {
	outList.clear();

	if (!shape)
		return 0;

	auto skinInst = hdr.GetBlock<NiBoneContainer>(shape->SkinInstanceRef());
	if (!skinInst)
		return 0;

	for (auto& bone : skinInst->boneRefs)
		if (!bone.IsEmpty())
			outList.push_back(bone.index);

	return static_cast<uint32_t>(outList.size());
}

void NifFile::SetShapeBoneIDList(NiShape* shape, std::vector<int>& inList) {
	if (!shape)
		return;

	BSSkinBoneData* boneData = nullptr;
	if (shape->HasType<BSTriShape>()) {
		auto skinForBoneRef = hdr.GetBlock<BSSkinInstance>(shape->SkinInstanceRef());
		if (skinForBoneRef)
			boneData = hdr.GetBlock(skinForBoneRef->dataRef);
	}

	auto boneCont = hdr.GetBlock<NiBoneContainer>(shape->SkinInstanceRef());
	if (!boneCont)
		return;

	boneCont->boneRefs.Clear();

	bool feedBoneData = false;
	if (boneData && boneData->nBones != inList.size()) {
		// Clear if size doesn't match
		boneData->nBones = 0;
		boneData->boneXforms.clear();
		feedBoneData = true;
	}

	for (auto& i : inList) {
		boneCont->boneRefs.AddBlockRef(i);
		if (boneData && feedBoneData) {
			boneData->boneXforms.emplace_back();
			boneData->nBones++;
		}
	}

	auto skinInst = dynamic_cast<NiSkinInstance*>(boneCont);
	if (skinInst) {
		auto skinData = hdr.GetBlock(skinInst->dataRef);
		if (skinData) {
			feedBoneData = false;

			if (skinData->numBones != inList.size()) {
				// Clear if size doesn't match
				skinData->numBones = 0;
				skinData->bones.clear();
				feedBoneData = true;
			}

			if (feedBoneData) {
				skinData->bones.resize(inList.size());
				skinData->numBones = static_cast<uint32_t>(skinData->bones.size());
			}
		}
	}
}

uint32_t NifFile::GetShapeBoneWeights(NiShape* shape,
									  const uint32_t boneIndex,
									  std::unordered_map<uint16_t, float>& outWeights) const {
	outWeights.clear();

	if (!shape)
		return 0;

	auto bsTriShape = dynamic_cast<BSTriShape*>(shape);
	if (bsTriShape) {
		outWeights.reserve(bsTriShape->GetNumVertices());
		for (uint16_t vid = 0; vid < bsTriShape->GetNumVertices(); vid++) {
			auto& vertex = bsTriShape->vertData[vid];
			for (size_t i = 0; i < 4; i++) {
				if (vertex.weightBones[i] == boneIndex && vertex.weights[i] != 0.0f)
					outWeights.emplace(vid, vertex.weights[i]);
			}
		}

		return static_cast<uint32_t>(outWeights.size());
	}

	auto skinInst = hdr.GetBlock<NiSkinInstance>(shape->SkinInstanceRef());
	if (!skinInst)
		return 0;

	auto skinData = hdr.GetBlock(skinInst->dataRef);
	if (!skinData || boneIndex >= skinData->numBones)
		return 0;

	NiSkinData::BoneData* bone = &skinData->bones[boneIndex];
	for (auto& sw : bone->vertexWeights)
		if (sw.weight >= EPSILON)
			outWeights.emplace(sw.index, sw.weight);

	return static_cast<uint32_t>(outWeights.size());
}

bool NifFile::CalcShapeTransformGlobalToSkin(NiShape* shape, MatTransform& outTransform) const {
	if (!shape)
		return false;
	if (GetShapeTransformGlobalToSkin(shape, outTransform))
		return true;

	// Now the nif doesn't have this transform, probably because it's
	// a FO4 nif, so we will try to calculate it, since FO4 shapes almost
	// always have a non-identity global-to-skin transform.
	// Ideally, we'd use bone transforms from the skeleton file, but we
	// don't have access to that here.
	std::vector<std::string> bones;
	GetShapeBoneList(shape, bones);
	for (const std::string& bone : bones) {
		MatTransform xformBoneToGlobal;
		if (!GetNodeTransformToGlobal(bone, xformBoneToGlobal))
			continue;
		MatTransform xformSkinToBone;
		if (!GetShapeTransformSkinToBone(shape, bone, xformSkinToBone))
			continue;
		// compose: skin -> bone -> global and invert
		outTransform = xformBoneToGlobal.ComposeTransforms(xformSkinToBone).InverseTransform();
		return true;
	}
	return false;
}

bool NifFile::GetShapeTransformGlobalToSkin(NiShape* shape, MatTransform& outTransform) const {
	if (!shape)
		return false;

	// For FO4 meshes, the skin instance is a BSSkinInstance instead of
	// an NiSkinInstance, so skinInst will be nullptr.  FO4 meshes do not
	// have this transform.
	auto skinInst = hdr.GetBlock<NiSkinInstance>(shape->SkinInstanceRef());
	if (!skinInst)
		return false;

	auto skinData = hdr.GetBlock(skinInst->dataRef);
	if (!skinData)
		return false;

	outTransform = skinData->skinTransform;
	return true;
}

void NifFile::SetShapeTransformGlobalToSkin(NiShape* shape, const MatTransform& inTransform) {
	if (!shape)
		return;

	// For FO4 meshes, the skin instance is a BSSkinInstance instead of
	// an NiSkinInstance, so skinInst will be nullptr.  FO4 meshes do not
	// have this transform.
	auto skinInst = hdr.GetBlock<NiSkinInstance>(shape->SkinInstanceRef());
	if (!skinInst)
		return;

	auto skinData = hdr.GetBlock(skinInst->dataRef);
	if (!skinData)
		return;

	// Set the overall skin transform
	skinData->skinTransform = inTransform;
}

bool NifFile::GetShapeTransformSkinToBone(NiShape* shape,
										  const std::string& boneName,
										  MatTransform& outTransform) const {
	if (!shape)
		return false;

	return GetShapeTransformSkinToBone(shape, shape->GetBoneID(hdr, boneName), outTransform);
}

bool NifFile::GetShapeTransformSkinToBone(NiShape* shape,
										  const uint32_t boneIndex,
										  MatTransform& outTransform) const {
	if (!shape)
		return false;

	auto skinForBoneRef = hdr.GetBlock<BSSkinInstance>(shape->SkinInstanceRef());
	if (skinForBoneRef) {
		auto boneData = hdr.GetBlock(skinForBoneRef->dataRef);
		if (boneData) {
			if (boneIndex >= boneData->nBones)
				return false;

			outTransform = boneData->boneXforms[boneIndex].boneTransform;
			return true;
		}
	}

	auto skinInst = hdr.GetBlock<NiSkinInstance>(shape->SkinInstanceRef());
	if (!skinInst)
		return false;

	auto skinData = hdr.GetBlock(skinInst->dataRef);
	if (!skinData)
		return false;

	if (boneIndex >= skinData->numBones)
		return false;

	NiSkinData::BoneData* bone = &skinData->bones[boneIndex];
	outTransform = bone->boneTransform;
	return true;
}

void NifFile::SetShapeTransformSkinToBone(NiShape* shape,
										  const uint32_t boneIndex,
										  const MatTransform& inTransform) {
	if (!shape)
		return;

	auto skinForBoneRef = hdr.GetBlock<BSSkinInstance>(shape->SkinInstanceRef());
	if (skinForBoneRef) {
		auto bsSkin = hdr.GetBlock(skinForBoneRef->dataRef);
		if (!bsSkin)
			return;

		if (boneIndex >= bsSkin->nBones)
			return;
		bsSkin->boneXforms[boneIndex].boneTransform = inTransform;
		return;
	}

	auto skinInst = hdr.GetBlock<NiSkinInstance>(shape->SkinInstanceRef());
	if (!skinInst)
		return;

	auto skinData = hdr.GetBlock(skinInst->dataRef);
	if (!skinData)
		return;

	if (boneIndex >= skinData->numBones)
		return;

	NiSkinData::BoneData* bone = &skinData->bones[boneIndex];
	bone->boneTransform = inTransform;
}

bool NifFile::GetShapeBoneTransform(NiShape* shape,
									const std::string& boneName,
									MatTransform& outTransform) const {
	if (boneName.empty())
		return GetShapeTransformGlobalToSkin(shape, outTransform);
	return GetShapeTransformSkinToBone(shape, boneName, outTransform);
}

bool NifFile::GetShapeBoneTransform(NiShape* shape,
									const uint32_t boneIndex,
									MatTransform& outTransform) const {
	if (boneIndex == 0xFFFFFFFF)
		return GetShapeTransformGlobalToSkin(shape, outTransform);

	return GetShapeTransformSkinToBone(shape, boneIndex, outTransform);
}

bool NifFile::SetShapeBoneTransform(NiShape* shape, const uint32_t boneIndex, MatTransform& inTransform) {
	if (boneIndex == 0xFFFFFFFF)
		SetShapeTransformGlobalToSkin(shape, inTransform);
	else
		SetShapeTransformSkinToBone(shape, boneIndex, inTransform);
	return true;
}

bool NifFile::SetShapeBoneBounds(const std::string& shapeName,
								 const uint32_t boneIndex,
								 BoundingSphere& inBounds) {
	auto shape = FindBlockByName<NiShape>(shapeName);
	if (!shape)
		return false;

	auto skinForBoneRef = hdr.GetBlock<BSSkinInstance>(shape->SkinInstanceRef());
	if (skinForBoneRef && boneIndex != 0xFFFFFFFF) {
		auto bsSkin = hdr.GetBlock(skinForBoneRef->dataRef);
		if (!bsSkin)
			return false;

		bsSkin->boneXforms[boneIndex].bounds = inBounds;
		return true;
	}

	auto skinInst = hdr.GetBlock<NiSkinInstance>(shape->SkinInstanceRef());
	if (!skinInst)
		return false;

	auto skinData = hdr.GetBlock(skinInst->dataRef);
	if (!skinData)
		return false;

	if (boneIndex >= skinData->numBones)
		return false;

	NiSkinData::BoneData* bone = &skinData->bones[boneIndex];
	bone->bounds = inBounds;
	return true;
}

bool NifFile::GetShapeBoneBounds(NiShape* shape, const uint32_t boneIndex, BoundingSphere& outBounds) const {
	if (!shape)
		return false;

	auto skinForBoneRef = hdr.GetBlock<BSSkinInstance>(shape->SkinInstanceRef());
	if (skinForBoneRef) {
		auto boneData = hdr.GetBlock(skinForBoneRef->dataRef);
		if (boneData) {
			if (boneIndex >= boneData->boneXforms.size())
				return false;

			outBounds = boneData->boneXforms[boneIndex].bounds;
			return true;
		}
	}

	auto skinInst = hdr.GetBlock<NiSkinInstance>(shape->SkinInstanceRef());
	if (!skinInst)
		return false;

	auto skinData = hdr.GetBlock(skinInst->dataRef);
	if (!skinData)
		return false;

	if (boneIndex >= skinData->numBones)
		return false;

	NiSkinData::BoneData* bone = &skinData->bones[boneIndex];
	outBounds = bone->bounds;
	return true;
}

void NifFile::UpdateShapeBoneID(const std::string& shapeName, const uint32_t oldID, const uint32_t newID) {
	auto shape = FindBlockByName<NiShape>(shapeName);
	if (!shape)
		return;

	auto boneCont = hdr.GetBlock<NiBoneContainer>(shape->SkinInstanceRef());
	if (!boneCont)
		return;

	for (auto& bp : boneCont->boneRefs) {
		if (!bp.IsEmpty() && bp.index == oldID) {
			bp.index = newID;
			return;
		}
	}
}

void NifFile::SetShapeBoneWeights(const std::string& shapeName,
								  const uint32_t boneIndex,
								  std::unordered_map<uint16_t, float>& inWeights) {
	auto shape = FindBlockByName<NiShape>(shapeName);
	if (!shape)
		return;

	auto skinInst = hdr.GetBlock<NiSkinInstance>(shape->SkinInstanceRef());
	if (!skinInst)
		return;

	auto skinData = hdr.GetBlock(skinInst->dataRef);
	if (!skinData)
		return;

	if (boneIndex >= skinData->numBones)
		return;

	skinData->hasVertWeights = true;

	NiSkinData::BoneData* bone = &skinData->bones[boneIndex];
	bone->vertexWeights.clear();
	for (auto& sw : inWeights)
		if (sw.second >= 0.0001f)
			bone->vertexWeights.emplace_back(SkinWeight(sw.first, sw.second));

	bone->numVertices = static_cast<uint16_t>(bone->vertexWeights.size());
}

void NifFile::SetShapeVertWeights(const std::string& shapeName,
								  const uint16_t vertIndex,
								  std::vector<uint8_t>& boneids,
								  std::vector<float>& weights) const {
	auto shape = FindBlockByName<NiShape>(shapeName);
	if (!shape)
		return;

	auto bsTriShape = dynamic_cast<BSTriShape*>(shape);
	if (!bsTriShape)
		return;

	if (vertIndex < 0 || vertIndex >= bsTriShape->vertData.size())
		return;

	auto& vertex = bsTriShape->vertData[vertIndex];
	std::memset(vertex.weights, 0, sizeof(float) * 4);
	std::memset(vertex.weightBones, 0, sizeof(uint8_t) * 4);

	// Sum weights to normalize values
	float sum = 0.0f;
	for (auto weight : weights)
		sum += weight;

	uint32_t num = (weights.size() < 4 ? static_cast<uint32_t>(weights.size()) : 4);

	for (uint32_t i = 0; i < num; i++) {
		vertex.weightBones[i] = boneids[i];
		vertex.weights[i] = weights[i] / sum;
	}
}

void NifFile::ClearShapeVertWeights(const std::string& shapeName) const {
	auto shape = FindBlockByName<NiShape>(shapeName);
	if (!shape)
		return;

	auto bsTriShape = dynamic_cast<BSTriShape*>(shape);
	if (!bsTriShape)
		return;

	for (auto& vertex : bsTriShape->vertData) {
		std::memset(vertex.weights, 0, sizeof(float) * 4);
		std::memset(vertex.weightBones, 0, sizeof(uint8_t) * 4);
	}
}

bool NifFile::GetShapeSegments(NiShape* shape, NifSegmentationInfo& inf, std::vector<int>& triParts) {
	auto bssits = dynamic_cast<BSSubIndexTriShape*>(shape);
	if (!bssits)
		return false;

	bssits->GetSegmentation(inf, triParts);
	return true;
}

void NifFile::SetShapeSegments(NiShape* shape,
							   const NifSegmentationInfo& inf,
							   const std::vector<int>& triParts) {
	auto bssits = dynamic_cast<BSSubIndexTriShape*>(shape);
	if (!bssits)
		return;

	bssits->SetSegmentation(inf, triParts);
}

bool NifFile::GetShapePartitions(NiShape* shape,
								 NiVector<BSDismemberSkinInstance::PartitionInfo>& partitionInfo,
								 std::vector<int>& triParts) const {
	if (!shape)
		return false;

	auto bsdSkinInst = hdr.GetBlock<BSDismemberSkinInstance>(shape->SkinInstanceRef());
	if (bsdSkinInst)
		partitionInfo = bsdSkinInst->partitions;
	else
		partitionInfo.clear();

	auto skinInst = hdr.GetBlock<NiSkinInstance>(shape->SkinInstanceRef());
	if (!skinInst)
		return false;

	auto skinPart = hdr.GetBlock(skinInst->skinPartitionRef);
	if (!skinPart)
		return false;

	// Generate triParts
	std::vector<Triangle> shapeTris;
	shape->GetTriangles(shapeTris);
	skinPart->PrepareTriParts(shapeTris);
	triParts = skinPart->triParts;

	// Make sure every partition has a PartitionInfo
	while (partitionInfo.size() < skinPart->partitions.size()) {
		BSDismemberSkinInstance::PartitionInfo pi;
		pi.flags = PF_EDITOR_VISIBLE;
		pi.partID = hdr.GetVersion().User() >= 12 ? 32 : 0;
		partitionInfo.push_back(pi);
	}

	return true;
}

void NifFile::SetShapePartitions(NiShape* shape,
								 const NiVector<BSDismemberSkinInstance::PartitionInfo>& partitionInfo,
								 const std::vector<int>& triParts,
								 const bool convertSkinInstance) {
	if (!shape)
		return;

	auto skinInst = hdr.GetBlock<NiSkinInstance>(shape->SkinInstanceRef());
	if (!skinInst)
		return;

	auto skinPart = hdr.GetBlock(skinInst->skinPartitionRef);
	if (!skinPart)
		return;

	// Calculate new number of partitions.  This code assumes we might have
	// misassigned or unassigned triangles, though it's unclear whether
	// it's even possible to have misassigned or unassigned triangles.
	uint32_t numParts = static_cast<uint32_t>(partitionInfo.size());
	bool hasUnassignedTris = false;
	for (auto pi : triParts) {
		if (pi >= static_cast<int>(numParts))
			numParts = pi + 1;
		if (pi < 0)
			hasUnassignedTris = true;
	}
	if (hasUnassignedTris)
		++numParts;

	// Copy triParts and assign unassigned triangles to a partition
	skinPart->triParts = triParts;
	if (hasUnassignedTris) {
		for (int& pi : skinPart->triParts) {
			if (pi < 0)
				pi = static_cast<int>(numParts) - 1;
		}
	}

	// Resize NiSkinPartition partition list
	skinPart->numPartitions = numParts;
	skinPart->partitions.resize(numParts);
	for (uint32_t i = 0; i < numParts; i++)
		skinPart->partitions[i].hasVertexMap = true;

	// Regenerate trueTriangles
	std::vector<Triangle> shapeTris;
	shape->GetTriangles(shapeTris);
	skinPart->GenerateTrueTrianglesFromTriParts(shapeTris);

	// Set BSDismemberSkinInstance partition list
	auto bsdSkinInst = hdr.GetBlock<BSDismemberSkinInstance>(shape->SkinInstanceRef());
	if (!bsdSkinInst && convertSkinInstance && hdr.GetVersion().File() == NiFileVersion::V20_2_0_7) {
		auto newBsdSkinInst = std::make_unique<BSDismemberSkinInstance>();
		bsdSkinInst = newBsdSkinInst.get();

		*static_cast<NiSkinInstance*>(bsdSkinInst) = *static_cast<NiSkinInstance*>(skinInst);
		hdr.ReplaceBlock(GetBlockID(skinInst), std::move(newBsdSkinInst));
	}

	if (bsdSkinInst) {
		bsdSkinInst->partitions = partitionInfo;
		while (bsdSkinInst->partitions.size() < numParts) {
			BSDismemberSkinInstance::PartitionInfo pi;
			pi.flags = PF_EDITOR_VISIBLE;
			pi.partID = hdr.GetVersion().User() >= 12 ? 32 : 0;
			bsdSkinInst->partitions.push_back(pi);
		}
	}
}

void NifFile::SetDefaultPartition(NiShape* shape) {
	std::vector<Triangle> tris;
	shape->GetTriangles(tris);

	uint16_t numVertices = shape->GetNumVertices();
	bool bMappedIndices = !shape->HasType<BSTriShape>();

	auto bsdSkinInst = hdr.GetBlock<BSDismemberSkinInstance>(shape->SkinInstanceRef());
	if (bsdSkinInst) {
		BSDismemberSkinInstance::PartitionInfo partInfo;
		partInfo.flags = PF_EDITOR_VISIBLE;
		partInfo.partID = hdr.GetVersion().User() >= 12 ? 32 : 0;

		bsdSkinInst->partitions.clear();
		bsdSkinInst->partitions.push_back(partInfo);
	}

	auto skinInst = hdr.GetBlock<NiSkinInstance>(shape->SkinInstanceRef());
	if (!skinInst)
		return;

	auto skinPart = hdr.GetBlock(skinInst->skinPartitionRef);
	if (skinPart) {
		NiSkinPartition::PartitionBlock part;
		if (numVertices > 0) {
			part.hasVertexMap = true;
			part.numVertices = numVertices;

			std::vector<uint16_t> vertIndices(part.numVertices);
			for (uint16_t i = 0; i < static_cast<uint16_t>(vertIndices.size()); i++)
				vertIndices[i] = i;

			part.vertexMap = vertIndices;
		}

		if (!tris.empty()) {
			part.hasFaces = true;
			part.numTriangles = static_cast<uint16_t>(tris.size());
			part.trueTriangles = tris;
			if (!bMappedIndices)
				part.triangles = part.trueTriangles;
		}

		skinPart->bMappedIndices = bMappedIndices;
		skinPart->partitions.clear();
		skinPart->partitions.push_back(part);
		skinPart->numPartitions = 1;
		skinPart->triParts.clear();
	}
}

void NifFile::DeletePartitions(NiShape* shape, std::vector<uint32_t>& partInds) {
	if (!shape)
		return;

	auto skinInst = hdr.GetBlock<NiSkinInstance>(shape->SkinInstanceRef());
	if (!skinInst)
		return;

	auto skinPart = hdr.GetBlock(skinInst->skinPartitionRef);
	if (!skinPart)
		return;

	skinPart->DeletePartitions(partInds);

	auto bsdSkinInst = dynamic_cast<BSDismemberSkinInstance*>(skinInst);
	if (bsdSkinInst) {
		bsdSkinInst->DeletePartitions(partInds);
		UpdatePartitionFlags(shape);
	}
}

bool NifFile::ReorderTriangles(NiShape* shape, const std::vector<uint32_t>& triangleIndices) {
	if (!shape)
		return false;

	if (shape->HasType<NiTriStrips>())
		return false;

	return shape->ReorderTriangles(triangleIndices);
}

const std::vector<Vector3>* NifFile::GetVertsForShape(NiShape* shape) {
	if (!shape)
		return nullptr;

	if (auto geomData = GetGeometryData(shape)) {
		if (geomData)
			return &geomData->vertices;
	}
	else if (shape->HasType<BSTriShape>()) {
		auto bsTriShape = dynamic_cast<BSTriShape*>(shape);
		if (bsTriShape)
			return &bsTriShape->UpdateRawVertices();
	}
	return nullptr;
}

const std::vector<Vector3>* NifFile::GetNormalsForShape(NiShape* shape) {
	if (!shape || !shape->HasNormals())
		return nullptr;

	if (auto geomData = GetGeometryData(shape)) {
		if (geomData)
			return &geomData->normals;
	}
	else if (shape->HasType<BSTriShape>()) {
		auto bsTriShape = dynamic_cast<BSTriShape*>(shape);
		if (bsTriShape)
			return &bsTriShape->UpdateRawNormals();
	}

	return nullptr;
}

const std::vector<Vector2>* NifFile::GetUvsForShape(NiShape* shape) {
	if (!shape)
		return nullptr;

	if (auto geomData = GetGeometryData(shape)) {
		if (geomData && !geomData->uvSets.empty())
			return &geomData->uvSets[0];
	}
	else if (shape->HasType<BSTriShape>()) {
		auto bsTriShape = dynamic_cast<BSTriShape*>(shape);
		if (bsTriShape)
			return &bsTriShape->UpdateRawUvs();
	}

	return nullptr;
}

const std::vector<Color4>* NifFile::GetColorsForShape(const std::string& shapeName) {
	auto shape = FindBlockByName<NiShape>(shapeName);
	return GetColorsForShape(shape);
}

const std::vector<Color4>* NifFile::GetColorsForShape(NiShape* shape) {
	if (!shape)
		return nullptr;

	if (auto geomData = GetGeometryData(shape)) {
		if (geomData)
			return &geomData->vertexColors;
	}
	else if (shape->HasType<BSTriShape>()) {
		auto bsTriShape = dynamic_cast<BSTriShape*>(shape);
		if (bsTriShape)
			return &bsTriShape->UpdateRawColors();
	}

	return nullptr;
}

const std::vector<Vector3>* NifFile::GetTangentsForShape(NiShape* shape) {
	if (!shape || !shape->HasTangents())
		return nullptr;

	if (auto geomData = GetGeometryData(shape)) {
		if (geomData)
			return &geomData->tangents;
	}
	else if (shape->HasType<BSTriShape>()) {
		auto bsTriShape = dynamic_cast<BSTriShape*>(shape);
		if (bsTriShape)
			return &bsTriShape->UpdateRawTangents();
	}

	return nullptr;
}

const std::vector<Vector3>* NifFile::GetBitangentsForShape(NiShape* shape) {
	if (!shape || !shape->HasTangents())
		return nullptr;

	if (auto geomData = GetGeometryData(shape)) {
		if (geomData)
			return &geomData->bitangents;
	}
	else if (shape->HasType<BSTriShape>()) {
		auto bsTriShape = dynamic_cast<BSTriShape*>(shape);
		if (bsTriShape)
			return &bsTriShape->UpdateRawBitangents();
	}

	return nullptr;
}

const std::vector<float>* NifFile::GetEyeDataForShape(NiShape* shape) {
	if (!shape)
		return nullptr;

	auto bsTriShape = dynamic_cast<BSTriShape*>(shape);
	if (bsTriShape)
		return &bsTriShape->UpdateRawEyeData();

	return nullptr;
}

bool NifFile::GetVertsForShape(NiShape* shape, std::vector<Vector3>& outVerts) const {
	if (!shape) {
		outVerts.clear();
		return false;
	}

	if (auto geomData = GetGeometryData(shape)) {
		if (geomData && geomData->HasVertices()) {
			outVerts = geomData->vertices;
			return true;
		}
	}
	else if (shape->HasType<BSTriShape>()) {
		auto bsTriShape = dynamic_cast<BSTriShape*>(shape);
		if (bsTriShape) {
			outVerts.resize(bsTriShape->GetNumVertices());

			for (uint16_t i = 0; i < bsTriShape->GetNumVertices(); i++)
				outVerts[i] = bsTriShape->vertData[i].vert;

			return true;
		}
	}

	outVerts.clear();
	return false;
}

bool NifFile::GetUvsForShape(NiShape* shape, std::vector<Vector2>& outUvs) const {
	if (auto geomData = GetGeometryData(shape)) {
		if (geomData && geomData->HasUVs() && !geomData->uvSets.empty()) {
			outUvs = geomData->uvSets[0];
			return true;
		}
	}
	else if (shape->HasType<BSTriShape>()) {
		auto bsTriShape = dynamic_cast<BSTriShape*>(shape);
		if (bsTriShape && bsTriShape->HasUVs()) {
			outUvs.resize(bsTriShape->GetNumVertices());

			for (uint16_t i = 0; i < bsTriShape->GetNumVertices(); i++)
				outUvs[i] = bsTriShape->vertData[i].uv;

			return true;
		}
	}

	return false;
}

bool NifFile::GetColorsForShape(NiShape* shape, std::vector<Color4>& outColors) const {
	if (auto geomData = GetGeometryData(shape)) {
		if (geomData && geomData->HasVertexColors()) {
			outColors = geomData->vertexColors;
			return true;
		}
	}
	else if (shape->HasType<BSTriShape>()) {
		auto bsTriShape = dynamic_cast<BSTriShape*>(shape);
		if (bsTriShape && bsTriShape->HasVertexColors()) {
			outColors.resize(bsTriShape->GetNumVertices());

			for (uint16_t i = 0; i < bsTriShape->GetNumVertices(); i++) {
				outColors[i].r = bsTriShape->vertData[i].colorData[0] / 255.0f;
				outColors[i].g = bsTriShape->vertData[i].colorData[1] / 255.0f;
				outColors[i].b = bsTriShape->vertData[i].colorData[2] / 255.0f;
				outColors[i].a = bsTriShape->vertData[i].colorData[3] / 255.0f;
			}

			return true;
		}
	}

	return false;
}

bool NifFile::GetTangentsForShape(NiShape* shape, std::vector<Vector3>& outTang) const {
	if (auto geomData = GetGeometryData(shape)) {
		if (geomData && geomData->HasTangents()) {
			outTang = geomData->tangents;
			return true;
		}
	}
	else if (shape->HasType<BSTriShape>()) {
		auto bsTriShape = dynamic_cast<BSTriShape*>(shape);
		if (bsTriShape && bsTriShape->HasTangents()) {
			outTang.resize(bsTriShape->GetNumVertices());

			for (uint16_t i = 0; i < bsTriShape->GetNumVertices(); i++) {
				outTang[i].x = ((static_cast<float>(bsTriShape->vertData[i].tangent[0])) / 255.0f) * 2.0f
							   - 1.0f;
				outTang[i].y = ((static_cast<float>(bsTriShape->vertData[i].tangent[1])) / 255.0f) * 2.0f
							   - 1.0f;
				outTang[i].z = ((static_cast<float>(bsTriShape->vertData[i].tangent[2])) / 255.0f) * 2.0f
							   - 1.0f;
			}

			return true;
		}
	}

	return false;
}

bool NifFile::GetBitangentsForShape(NiShape* shape, std::vector<Vector3>& outBitang) const {
	if (auto geomData = GetGeometryData(shape)) {
		if (geomData && geomData->HasTangents()) {
			outBitang = geomData->bitangents;
			return true;
		}
	}
	else if (shape->HasType<BSTriShape>()) {
		auto bsTriShape = dynamic_cast<BSTriShape*>(shape);
		if (bsTriShape && bsTriShape->HasTangents()) {
			outBitang.resize(bsTriShape->GetNumVertices());

			for (uint16_t i = 0; i < bsTriShape->GetNumVertices(); i++) {
				outBitang[i].x = bsTriShape->vertData[i].bitangentX;
				outBitang[i].y = ((static_cast<float>(bsTriShape->vertData[i].bitangentY)) / 255.0f) * 2.0f
								 - 1.0f;
				outBitang[i].z = ((static_cast<float>(bsTriShape->vertData[i].bitangentZ)) / 255.0f) * 2.0f
								 - 1.0f;
			}

			return true;
		}
	}

	return false;
}

bool NifFile::GetEyeDataForShape(NiShape* shape, std::vector<float>& outEyeData) {
	auto bsTriShape = dynamic_cast<BSTriShape*>(shape);
	if (bsTriShape && bsTriShape->HasEyeData()) {
		outEyeData.resize(bsTriShape->GetNumVertices());

		for (uint16_t i = 0; i < bsTriShape->GetNumVertices(); i++)
			outEyeData[i] = bsTriShape->vertData[i].eyeData;

		return true;
	}

	return false;
}

void NifFile::SetVertsForShape(NiShape* shape, const std::vector<Vector3>& verts) {
	if (!shape)
		return;

	if (auto geomData = GetGeometryData(shape)) {
		if (geomData) {
			if (verts.size() != geomData->GetNumVertices())
				geomData->Create(hdr.GetVersion(), &verts, nullptr, nullptr, nullptr);
			else
				geomData->vertices = verts;
		}
	}
	else if (shape->HasType<BSTriShape>()) {
		auto bsTriShape = dynamic_cast<BSTriShape*>(shape);
		if (bsTriShape) {
			if (verts.size() != bsTriShape->GetNumVertices()) {
				bsTriShape->Create(hdr.GetVersion(), &verts, nullptr, nullptr, nullptr);
			}
			else {
				for (uint16_t i = 0; i < bsTriShape->GetNumVertices(); i++)
					bsTriShape->vertData[i].vert = verts[i];
			}
		}
	}
}

void NifFile::SetUvsForShape(NiShape* shape, const std::vector<Vector2>& uvs) {
	if (!shape)
		return;

	if (auto geomData = GetGeometryData(shape)) {
		if (geomData && uvs.size() == geomData->GetNumVertices()) {
			geomData->SetUVs(true);
			geomData->uvSets[0] = uvs;
		}
	}
	else if (shape->HasType<BSTriShape>()) {
		auto bsTriShape = dynamic_cast<BSTriShape*>(shape);
		if (bsTriShape && uvs.size() == bsTriShape->GetNumVertices()) {
			bsTriShape->SetUVs(true);

			for (uint16_t i = 0; i < bsTriShape->GetNumVertices(); i++)
				bsTriShape->vertData[i].uv = uvs[i];
		}
	}
}

void NifFile::SetColorsForShape(NiShape* shape, const std::vector<Color4>& colors) {
	if (!shape)
		return;

	if (auto geomData = GetGeometryData(shape)) {
		if (geomData && colors.size() == geomData->GetNumVertices()) {
			geomData->SetVertexColors(true);
			geomData->vertexColors = colors;
		}
	}
	else if (shape->HasType<BSTriShape>()) {
		auto bsTriShape = dynamic_cast<BSTriShape*>(shape);
		if (bsTriShape && colors.size() == bsTriShape->GetNumVertices()) {
			bsTriShape->SetVertexColors(true);

			for (uint16_t i = 0; i < bsTriShape->GetNumVertices(); i++) {
				auto& vertex = bsTriShape->vertData[i];

				float f = std::max(0.0f, std::min(1.0f, colors[i].r));
				vertex.colorData[0] = static_cast<uint8_t>(std::floor(f == 1.0f ? 255 : f * 256.0));

				f = std::max(0.0f, std::min(1.0f, colors[i].g));
				vertex.colorData[1] = static_cast<uint8_t>(std::floor(f == 1.0f ? 255 : f * 256.0));

				f = std::max(0.0f, std::min(1.0f, colors[i].b));
				vertex.colorData[2] = static_cast<uint8_t>(std::floor(f == 1.0f ? 255 : f * 256.0));

				f = std::max(0.0f, std::min(1.0f, colors[i].a));
				vertex.colorData[3] = static_cast<uint8_t>(std::floor(f == 1.0f ? 255 : f * 256.0));
			}
		}
	}
}

void NifFile::SetColorsForShape(const std::string& shapeName, const std::vector<Color4>& colors) {
	auto shape = FindBlockByName<NiShape>(shapeName);
	if (!shape)
		return;

	SetColorsForShape(shape, colors);
}

void NifFile::SetTangentsForShape(NiShape* shape, const std::vector<Vector3>& tangents) {
	if (!shape)
		return;

	if (auto geomData = GetGeometryData(shape)) {
		if (geomData) {
			geomData->SetTangents(true);
			geomData->tangents = tangents;
		}
	}
	else if (shape->HasType<BSTriShape>()) {
		auto bsTriShape = dynamic_cast<BSTriShape*>(shape);
		if (bsTriShape && tangents.size() == bsTriShape->GetNumVertices())
			bsTriShape->SetTangentData(tangents);
	}
}

void NifFile::SetBitangentsForShape(NiShape* shape, const std::vector<Vector3>& bitangents) {
	if (!shape)
		return;

	if (auto geomData = GetGeometryData(shape)) {
		if (geomData) {
			geomData->SetTangents(true);
			geomData->bitangents = bitangents;
		}
	}
	else if (shape->HasType<BSTriShape>()) {
		auto bsTriShape = dynamic_cast<BSTriShape*>(shape);
		if (bsTriShape && bitangents.size() == bsTriShape->GetNumVertices())
			bsTriShape->SetBitangentData(bitangents);
	}
}

void NifFile::SetEyeDataForShape(NiShape* shape, const std::vector<float>& eyeData) {
	if (!shape)
		return;

	auto bsTriShape = dynamic_cast<BSTriShape*>(shape);
	if (bsTriShape && eyeData.size() == bsTriShape->GetNumVertices())
		bsTriShape->SetEyeData(eyeData);
}

NiBinaryExtraData* NifFile::GetBinaryTangentData(NiShape* shape,
												 std::vector<nifly::Vector3>* outTangents,
												 std::vector<nifly::Vector3>* outBitangents) const {
	if (!shape)
		return nullptr;

	uint16_t numVerts = shape->GetNumVertices();

	for (auto& extraData : shape->extraDataRefs) {
		auto binaryData = hdr.GetBlock<NiBinaryExtraData>(extraData);
		if (binaryData && binaryData->name.get() == "Tangent space (binormal & tangent vectors)") {
			uint32_t dataSize = numVerts * 4 * 3 * 2;
			if (binaryData->data.size() == dataSize) {
				auto vecPtr = reinterpret_cast<Vector3*>(binaryData->data.data());

				if (outTangents) {
					outTangents->resize(numVerts);

					for (uint16_t i = 0; i < numVerts; i++) {
						outTangents->at(i) = (*vecPtr);
						++vecPtr;
					}
				}
				else
					vecPtr += numVerts;

				if (outBitangents) {
					outBitangents->resize(numVerts);

					for (uint16_t i = 0; i < numVerts; i++) {
						outBitangents->at(i) = (*vecPtr);
						++vecPtr;
					}
				}
				else
					vecPtr += numVerts;
			}

			return binaryData;
		}
	}

	return nullptr;
}

void NifFile::SetBinaryTangentData(NiShape* shape,
								   const std::vector<nifly::Vector3>* tangents,
								   const std::vector<nifly::Vector3>* bitangents) {
	if (!shape || !tangents || !bitangents)
		return;

	uint16_t numVerts = shape->GetNumVertices();
	if (tangents->size() != numVerts || bitangents->size() != numVerts)
		return;

	NiBinaryExtraData* binaryData = nullptr;

	for (auto& extraData : shape->extraDataRefs) {
		auto binaryExtraData = hdr.GetBlock<NiBinaryExtraData>(extraData);
		if (binaryExtraData && binaryExtraData->name.get() == "Tangent space (binormal & tangent vectors)") {
			binaryData = binaryExtraData;
			break;
		}
	}

	if (!binaryData) {
		// Add new NiBinaryExtraData block
		NiBinaryExtraData binaryExtraData;
		binaryExtraData.name.get() = "Tangent space (binormal & tangent vectors)";

		uint32_t extraDataId = AssignExtraData(shape, binaryExtraData.Clone());
		binaryData = hdr.GetBlock<NiBinaryExtraData>(extraDataId);
	}

	if (!binaryData)
		return;

	uint32_t dataSize = numVerts * 4 * 3 * 2;
	binaryData->data.resize(dataSize);

	auto vecPtr = reinterpret_cast<Vector3*>(binaryData->data.data());

	for (uint16_t i = 0; i < numVerts; i++) {
		(*vecPtr) = tangents->at(i);
		++vecPtr;
	}

	for (uint16_t i = 0; i < numVerts; i++) {
		(*vecPtr) = bitangents->at(i);
		++vecPtr;
	}
}

void NifFile::DeleteBinaryTangentData(NiShape* shape) {
	if (!shape)
		return;

	for (auto& extraData : shape->extraDataRefs) {
		auto binaryExtraData = hdr.GetBlock<NiBinaryExtraData>(extraData);
		if (binaryExtraData && binaryExtraData->name.get() == "Tangent space (binormal & tangent vectors)")
			hdr.DeleteBlock(extraData);
	}
}

void NifFile::InvertUVsForShape(NiShape* shape, bool invertX, bool invertY) {
	if (!shape)
		return;

	if (auto geomData = GetGeometryData(shape)) {
		if (geomData && !geomData->uvSets.empty()) {
			if (invertX)
				for (auto& i : geomData->uvSets[0])
					i.u = 1.0f - i.u;

			if (invertY)
				for (auto& i : geomData->uvSets[0])
					i.v = 1.0f - i.v;
		}
	}
	else if (shape->HasType<BSTriShape>()) {
		auto bsTriShape = dynamic_cast<BSTriShape*>(shape);
		if (bsTriShape) {
			if (invertX)
				for (auto& i : bsTriShape->vertData)
					i.uv.u = 1.0f - i.uv.u;

			if (invertY)
				for (auto& i : bsTriShape->vertData)
					i.uv.v = 1.0f - i.uv.v;
		}
	}
}

void NifFile::MirrorShape(NiShape* shape, bool mirrorX, bool mirrorY, bool mirrorZ) {
	if (!shape)
		return;

	bool flipTris = false;
	Matrix4 mirrorMat;

	if (mirrorX) {
		mirrorMat.Scale(-1.0f, 1.0f, 1.0f);
		flipTris = !flipTris;
	}

	if (mirrorY) {
		mirrorMat.Scale(1.0f, -1.0f, 1.0f);
		flipTris = !flipTris;
	}

	if (mirrorZ) {
		mirrorMat.Scale(1.0f, 1.0f, -1.0f);
		flipTris = !flipTris;
	}

	if (auto geomData = GetGeometryData(shape)) {
		if (geomData && !geomData->vertices.empty()) {
			for (auto& vertice : geomData->vertices)
				vertice = mirrorMat * vertice;

			for (auto& normal : geomData->normals)
				normal = mirrorMat * normal;

			for (auto& tangent : geomData->tangents)
				tangent = mirrorMat * tangent;

			for (auto& bitangent : geomData->bitangents)
				bitangent = mirrorMat * bitangent;
		}
	}
	else if (shape->HasType<BSTriShape>()) {
		auto bsTriShape = dynamic_cast<BSTriShape*>(shape);
		if (bsTriShape) {
			for (auto& i : bsTriShape->vertData)
				i.vert = mirrorMat * i.vert;

			if (bsTriShape->HasNormals()) {
				bsTriShape->UpdateRawNormals();

				for (auto& normal : bsTriShape->rawNormals)
					normal = mirrorMat * normal;

				bsTriShape->SetNormals(bsTriShape->rawNormals);

				if (bsTriShape->HasTangents())
					bsTriShape->CalcTangentSpace();
			}
		}
	}

	if (flipTris) {
		std::vector<Triangle> tris;
		shape->GetTriangles(tris);

		for (auto& tri : tris)
			std::swap(tri.p1, tri.p3);

		shape->SetTriangles(tris);
	}
}

void NifFile::SetNormalsForShape(NiShape* shape, const std::vector<Vector3>& norms) {
	if (!shape)
		return;

	if (auto geomData = GetGeometryData(shape)) {
		if (geomData) {
			geomData->SetNormals(true);
			geomData->normals = norms;
		}
	}
	else if (shape->HasType<BSTriShape>()) {
		auto bsTriShape = dynamic_cast<BSTriShape*>(shape);
		if (bsTriShape)
			bsTriShape->SetNormals(norms);
	}
}

void NifFile::CalcNormalsForShape(NiShape* shape,
								  const bool force,
								  const bool smooth,
								  const float smoothThresh) {
	if (!shape)
		return;

	if (hdr.GetVersion().IsSK() || hdr.GetVersion().IsSSE()) {
		NiShader* shader = GetShader(shape);
		if (shader && shader->IsModelSpace() && !force)
			return;
	}

	std::unordered_set<uint32_t> lockedIndices;

	for (auto& extraDataRef : shape->extraDataRefs) {
		auto integersExtraData = hdr.GetBlock<NiIntegersExtraData>(extraDataRef);
		if (integersExtraData && integersExtraData->name == "LOCKEDNORM")
			for (auto& i : integersExtraData->integersData)
				lockedIndices.insert(i);
	}

	if (auto geomData = GetGeometryData(shape)) {
		if (geomData)
			geomData->RecalcNormals(smooth, smoothThresh, lockedIndices.empty() ? nullptr : &lockedIndices);
	}
	else if (shape->HasType<BSTriShape>()) {
		auto bsTriShape = dynamic_cast<BSTriShape*>(shape);
		if (bsTriShape)
			bsTriShape->RecalcNormals(smooth, smoothThresh, lockedIndices.empty() ? nullptr : &lockedIndices);
	}
}

void NifFile::CalcTangentsForShape(NiShape* shape) {
	if (!shape)
		return;

	if (auto geomData = GetGeometryData(shape)) {
		if (geomData)
			geomData->CalcTangentSpace();
	}
	else if (shape->HasType<BSTriShape>()) {
		auto bsTriShape = dynamic_cast<BSTriShape*>(shape);
		if (bsTriShape)
			bsTriShape->CalcTangentSpace();
	}
}

int NifFile::ApplyNormalsFromFile(NifFile& srcNif, const std::string& shapeName) {
	auto shape = FindBlockByName<NiShape>(shapeName);
	if (!shape)
		return -1;

	auto srcShape = srcNif.FindBlockByName<NiShape>(shapeName);
	if (!srcShape)
		return -2;

	std::unordered_set<uint32_t> lockedNormalIndices;

	// Get LOCKEDNORM from source
	NiIntegersExtraData* integersExtraData = nullptr;

	for (auto& extraDataRef : srcShape->extraDataRefs) {
		integersExtraData = srcNif.GetHeader().GetBlock<NiIntegersExtraData>(extraDataRef);
		if (integersExtraData && integersExtraData->name == "LOCKEDNORM")
			for (auto& i : integersExtraData->integersData)
				lockedNormalIndices.insert(i);
	}

	if (lockedNormalIndices.empty())
		return -3;

	// Get normals of target
	auto norms = GetNormalsForShape(shape);
	if (!norms)
		return -4;

	// Get normals of source
	auto srcNorms = srcNif.GetNormalsForShape(srcShape);
	if (!srcNorms)
		return -5;

	// Vertex count needs to match up
	if (norms->size() != srcNorms->size())
		return -6;

	auto workNorms = (*norms);

	// Copy locked normals of the source into the target
	for (auto& i : lockedNormalIndices) {
		auto& sn = srcNorms->at(i);
		workNorms[i] = sn;
	}

	SetNormalsForShape(shape, workNorms);

	for (auto& extraDataRef : shape->extraDataRefs) {
		auto oldIntegersExtraData = hdr.GetBlock<NiIntegersExtraData>(extraDataRef);
		if (oldIntegersExtraData && oldIntegersExtraData->name == "LOCKEDNORM")
			hdr.DeleteBlock(extraDataRef);
	}

	AssignExtraData(shape, integersExtraData->Clone());
	return 0;
}

void NifFile::GetRootTranslation(Vector3& outVec) const {
	auto root = GetRootNode();
	if (root)
		outVec = root->GetTransformToParent().translation;
	else
		outVec.Zero();
}

void NifFile::MoveVertex(NiShape* shape, const Vector3& pos, const int id) {
	if (!shape)
		return;

	if (auto geomData = GetGeometryData(shape)) {
		if (geomData && geomData->GetNumVertices() > id)
			geomData->vertices[id] = pos;
	}
	else if (shape->HasType<BSTriShape>()) {
		auto bsTriShape = dynamic_cast<BSTriShape*>(shape);
		if (bsTriShape && bsTriShape->GetNumVertices() > id)
			bsTriShape->vertData[id].vert = pos;
	}
}

void NifFile::OffsetShape(NiShape* shape, const Vector3& offset, std::unordered_map<uint16_t, float>* mask) {
	if (!shape)
		return;

	if (auto geomData = GetGeometryData(shape)) {
		if (geomData) {
			for (uint16_t i = 0; i < geomData->GetNumVertices(); i++) {
				if (mask) {
					float maskFactor = 1.0f;
					Vector3 diff = offset;
					if (mask->find(i) != mask->end()) {
						maskFactor = 1.0f - (*mask)[i];
						diff *= maskFactor;
					}
					geomData->vertices[i] += diff;
				}
				else
					geomData->vertices[i] += offset;
			}
		}
	}
	else if (shape->HasType<BSTriShape>()) {
		auto bsTriShape = dynamic_cast<BSTriShape*>(shape);
		if (bsTriShape) {
			for (uint16_t i = 0; i < bsTriShape->GetNumVertices(); i++) {
				if (mask) {
					float maskFactor = 1.0f;
					Vector3 diff = offset;
					if (mask->find(i) != mask->end()) {
						maskFactor = 1.0f - (*mask)[i];
						diff *= maskFactor;
					}
					bsTriShape->vertData[i].vert += diff;
				}
				else
					bsTriShape->vertData[i].vert += offset;
			}
		}
	}
}

void NifFile::ScaleShape(NiShape* shape, const Vector3& scale, std::unordered_map<uint16_t, float>* mask) {
	if (!shape)
		return;

	Vector3 root;
	GetRootTranslation(root);

	if (auto geomData = GetGeometryData(shape)) {
		if (!geomData)
			return;

		std::unordered_map<uint16_t, Vector3> diff;
		for (uint16_t i = 0; i < geomData->GetNumVertices(); i++) {
			Vector3 target = geomData->vertices[i] - root;
			target.x *= scale.x;
			target.y *= scale.y;
			target.z *= scale.z;
			diff[i] = geomData->vertices[i] - target;

			if (mask) {
				float maskFactor = 1.0f;
				if (mask->find(i) != mask->end()) {
					maskFactor = 1.0f - (*mask)[i];
					diff[i] *= maskFactor;
					target = geomData->vertices[i] - root + diff[i];
				}
			}
			geomData->vertices[i] = target;
		}
	}
	else if (shape->HasType<BSTriShape>()) {
		auto bsTriShape = dynamic_cast<BSTriShape*>(shape);
		if (!bsTriShape)
			return;

		std::unordered_map<uint16_t, Vector3> diff;
		for (uint16_t i = 0; i < bsTriShape->GetNumVertices(); i++) {
			Vector3 target = bsTriShape->vertData[i].vert - root;
			target.x *= scale.x;
			target.y *= scale.y;
			target.z *= scale.z;
			diff[i] = bsTriShape->vertData[i].vert - target;

			if (mask) {
				float maskFactor = 1.0f;
				if (mask->find(i) != mask->end()) {
					maskFactor = 1.0f - (*mask)[i];
					diff[i] *= maskFactor;
					target = bsTriShape->vertData[i].vert - root + diff[i];
				}
			}
			bsTriShape->vertData[i].vert = target;
		}
	}
}

void NifFile::RotateShape(NiShape* shape, const Vector3& angle, std::unordered_map<uint16_t, float>* mask) {
	if (!shape)
		return;

	Vector3 root;
	GetRootTranslation(root);

	if (auto geomData = GetGeometryData(shape)) {
		if (!geomData)
			return;

		std::unordered_map<uint16_t, Vector3> diff;
		for (uint16_t i = 0; i < geomData->GetNumVertices(); i++) {
			Vector3 target = geomData->vertices[i] - root;
			Matrix4 mat;
			mat.Rotate(angle.x * DEG2RAD, Vector3(1.0f, 0.0f, 0.0f));
			mat.Rotate(angle.y * DEG2RAD, Vector3(0.0f, 1.0f, 0.0f));
			mat.Rotate(angle.z * DEG2RAD, Vector3(0.0f, 0.0f, 1.0f));
			target = mat * target;
			diff[i] = geomData->vertices[i] - target;

			if (mask) {
				float maskFactor = 1.0f;
				if (mask->find(i) != mask->end()) {
					maskFactor = 1.0f - (*mask)[i];
					diff[i] *= maskFactor;
					target = geomData->vertices[i] - root + diff[i];
				}
			}
			geomData->vertices[i] = target;
		}
	}
	else if (shape->HasType<BSTriShape>()) {
		auto bsTriShape = dynamic_cast<BSTriShape*>(shape);
		if (!bsTriShape)
			return;

		std::unordered_map<uint16_t, Vector3> diff;
		for (uint16_t i = 0; i < bsTriShape->GetNumVertices(); i++) {
			Vector3 target = bsTriShape->vertData[i].vert - root;
			Matrix4 mat;
			mat.Rotate(angle.x * DEG2RAD, Vector3(1.0f, 0.0f, 0.0f));
			mat.Rotate(angle.y * DEG2RAD, Vector3(0.0f, 1.0f, 0.0f));
			mat.Rotate(angle.z * DEG2RAD, Vector3(0.0f, 0.0f, 1.0f));
			target = mat * target;
			diff[i] = bsTriShape->vertData[i].vert - target;

			if (mask) {
				float maskFactor = 1.0f;
				if (mask->find(i) != mask->end()) {
					maskFactor = 1.0f - (*mask)[i];
					diff[i] *= maskFactor;
					target = bsTriShape->vertData[i].vert - root + diff[i];
				}
			}
			bsTriShape->vertData[i].vert = target;
		}
	}
}

NiAlphaProperty* NifFile::GetAlphaProperty(NiShape* shape) const {
	if (shape->HasAlphaProperty())
		return hdr.GetBlock(shape->AlphaPropertyRef());

	for (auto& prop : shape->propertyRefs) {
		auto alphaProp = hdr.GetBlock<NiAlphaProperty>(prop);
		if (alphaProp)
			return alphaProp;
	}

	return nullptr;
}

uint32_t NifFile::AssignAlphaProperty(NiShape* shape, std::unique_ptr<NiAlphaProperty> alphaProp) {
	RemoveAlphaProperty(shape);

	NiShader* shader = GetShader(shape);
	if (shader) {
		int alphaRef = hdr.AddBlock(std::move(alphaProp));
		if (shader->HasType<BSShaderPPLightingProperty>() || shader->HasType<NiMaterialProperty>())
			shape->propertyRefs.AddBlockRef(alphaRef);
		else if (shape->AlphaPropertyRef())
			shape->AlphaPropertyRef()->index = alphaRef;

		return alphaRef;
	}

	return NIF_NPOS;
}

void NifFile::RemoveAlphaProperty(NiShape* shape) {
	auto alpha = hdr.GetBlock(shape->AlphaPropertyRef());
	if (alpha) {
		hdr.DeleteBlock(*shape->AlphaPropertyRef());
		shape->AlphaPropertyRef()->Clear();
	}

	for (uint32_t i = 0; i < shape->propertyRefs.GetSize(); i++) {
		alpha = hdr.GetBlock<NiAlphaProperty>(shape->propertyRefs.GetBlockRef(i));
		if (alpha) {
			hdr.DeleteBlock(shape->propertyRefs.GetBlockRef(i));
			i--;
			continue;
		}
	}
}

void NifFile::DeleteShape(NiShape* shape) {
	if (!shape)
		return;

	if (shape->HasData())
		hdr.DeleteBlock(*shape->DataRef());

	if (shape->HasShaderProperty()) {
		if (hdr.GetBlockRefCount(shape->ShaderPropertyRef()->index, false) == 1)
			DeleteShader(shape);
	}

	DeleteSkinning(shape);

	for (int i = shape->propertyRefs.GetSize() - 1; i >= 0; --i)
		hdr.DeleteBlock(shape->propertyRefs.GetBlockRef(i));

	for (int i = shape->extraDataRefs.GetSize() - 1; i >= 0; --i)
		hdr.DeleteBlock(shape->extraDataRefs.GetBlockRef(i));

	int shapeID = GetBlockID(shape);
	hdr.DeleteBlock(shapeID);
}

void NifFile::DeleteShader(NiShape* shape) {
	auto shader = hdr.GetBlock(shape->ShaderPropertyRef());
	if (shader) {
		if (shader->HasTextureSet()) {
			if (hdr.GetBlockRefCount(shader->TextureSetRef()->index, false) == 1)
				hdr.DeleteBlock(*shader->TextureSetRef());
		}

		hdr.DeleteBlock(shader->controllerRef);
		hdr.DeleteBlock(*shape->ShaderPropertyRef());
		shape->ShaderPropertyRef()->Clear();
	}

	RemoveAlphaProperty(shape);

	for (uint32_t i = 0; i < shape->propertyRefs.GetSize(); i++) {
		shader = hdr.GetBlock<NiShader>(shape->propertyRefs.GetBlockRef(i));
		if (shader) {
			if (shader->HasType<BSShaderPPLightingProperty>() || shader->HasType<NiMaterialProperty>()) {
				if (shader->HasTextureSet()) {
					if (hdr.GetBlockRefCount(shader->TextureSetRef()->index, false) == 1)
						hdr.DeleteBlock(*shader->TextureSetRef());
				}

				hdr.DeleteBlock(shader->controllerRef);
				hdr.DeleteBlock(shape->propertyRefs.GetBlockRef(i));
				i--;
				continue;
			}
		}
	}
}

void NifFile::DeleteSkinning(NiShape* shape) {
	auto skinInst = hdr.GetBlock<NiSkinInstance>(shape->SkinInstanceRef());
	if (skinInst) {
		hdr.DeleteBlock(skinInst->dataRef);
		hdr.DeleteBlock(skinInst->skinPartitionRef);

		if (shape->HasSkinInstance()) {
			hdr.DeleteBlock(*shape->SkinInstanceRef());
			shape->SkinInstanceRef()->Clear();
		}
	}

	auto bsSkinInst = hdr.GetBlock<BSSkinInstance>(shape->SkinInstanceRef());
	if (bsSkinInst) {
		hdr.DeleteBlock(bsSkinInst->dataRef);

		if (shape->HasSkinInstance()) {
			hdr.DeleteBlock(*shape->SkinInstanceRef());
			shape->SkinInstanceRef()->Clear();
		}
	}

	shape->SetSkinned(false);

	NiShader* shader = GetShader(shape);
	if (shader)
		shader->SetSkinned(false);
}

void NifFile::RemoveEmptyPartitions(NiShape* shape) {
	if (!shape)
		return;

	auto skinInst = hdr.GetBlock<NiSkinInstance>(shape->SkinInstanceRef());
	if (skinInst) {
		auto skinPartition = hdr.GetBlock(skinInst->skinPartitionRef);
		if (skinPartition) {
			std::vector<uint32_t> emptyIndices;
			if (skinPartition->RemoveEmptyPartitions(emptyIndices)) {
				auto bsdSkinInst = dynamic_cast<BSDismemberSkinInstance*>(skinInst);
				if (bsdSkinInst) {
					bsdSkinInst->DeletePartitions(emptyIndices);
					UpdatePartitionFlags(shape);
				}
			}
		}
	}
}

bool NifFile::DeleteVertsForShape(NiShape* shape, const std::vector<uint16_t>& indices) {
	if (indices.empty())
		return false;

	if (!shape)
		return false;

	bool allVertsDeleted = false;

	auto geomData = hdr.GetBlock<NiTriBasedGeomData>(shape->DataRef());
	if (geomData) {
		// The segments of a BSSegmentedTriShape are ranges of the triangle list that is about to shrink
		auto segmentShape = dynamic_cast<BSSegmentedTriShape*>(shape);
		std::vector<Triangle> oldTris;
		if (segmentShape)
			geomData->GetTriangles(oldTris);

		geomData->notifyVerticesDelete(indices);
		if (geomData->GetNumVertices() == 0 || geomData->GetNumTriangles() == 0) {
			// Deleted all verts or tris
			allVertsDeleted = true;
		}

		if (segmentShape) {
			// Number of surviving triangles in front of each old triangle index
			auto isDeleted = [&indices](uint16_t v) { return std::find(indices.begin(), indices.end(), v) != indices.end(); };
			std::vector<uint32_t> kept(oldTris.size() + 1, 0);
			for (size_t t = 0; t < oldTris.size(); t++) {
				bool gone = isDeleted(oldTris[t].p1) || isDeleted(oldTris[t].p2) || isDeleted(oldTris[t].p3);
				kept[t + 1] = kept[t] + (gone ? 0 : 1);
			}

			// Re-fit the segments to the triangles that are left
			auto segments = segmentShape->GetSegments();
			for (auto& segment : segments) {
				size_t first = std::min<size_t>(segment.index / 3, oldTris.size());
				size_t last = std::min<size_t>(first + segment.numTris, oldTris.size());
				segment.index = kept[first] * 3;
				segment.numTris = kept[last] - kept[first];
			}
			segmentShape->SetSegments(segments);
		}
	}

	auto bsTriShape = dynamic_cast<BSTriShape*>(shape);
	if (bsTriShape) {
		bsTriShape->notifyVerticesDelete(indices);
		if (bsTriShape->GetNumVertices() == 0 || bsTriShape->GetNumTriangles() == 0) {
			// Deleted all verts or tris
			allVertsDeleted = true;
		}
	}

	auto skinInst = hdr.GetBlock<NiSkinInstance>(shape->SkinInstanceRef());
	if (skinInst) {
		auto skinData = hdr.GetBlock(skinInst->dataRef);
		if (skinData)
			skinData->notifyVerticesDelete(indices);

		auto skinPartition = hdr.GetBlock(skinInst->skinPartitionRef);
		if (skinPartition) {
			skinPartition->notifyVerticesDelete(indices);

			std::vector<uint32_t> emptyIndices;
			if (skinPartition->RemoveEmptyPartitions(emptyIndices)) {
				auto bsdSkinInst = dynamic_cast<BSDismemberSkinInstance*>(skinInst);
				if (bsdSkinInst) {
					bsdSkinInst->DeletePartitions(emptyIndices);
					UpdatePartitionFlags(shape);
				}
			}
		}
	}

	for (auto& extraDataRef : shape->extraDataRefs) {
		auto integersExtraData = hdr.GetBlock<NiIntegersExtraData>(extraDataRef);
		if (integersExtraData && integersExtraData->name == "LOCKEDNORM") {
			auto integersData = integersExtraData->integersData;
			std::sort(integersData.begin(), integersData.end());

			uint16_t highestRemoved = indices.back();
			uint16_t mapSize = highestRemoved + 1;
			std::vector<int> indexCollapse = GenerateIndexCollapseMap(indices, mapSize);

			for (uint32_t i = integersData.size() - 1; i != NIF_NPOS; i--) {
				auto& val = integersData[i];
				if (val > highestRemoved) {
					val -= static_cast<uint32_t>(indices.size());
				}
				else if (indexCollapse[val] == -1) {
					integersData.erase(i);
				}
				else
					val = indexCollapse[val];
			}

			integersExtraData->integersData = std::move(integersData);
		}
	}

	return allVertsDeleted;
}

int NifFile::CalcShapeDiff(NiShape* shape,
						   const std::vector<Vector3>* targetData,
						   std::unordered_map<uint16_t, Vector3>& outDiffData,
						   float scale) {
	outDiffData.clear();

	const std::vector<Vector3>* myData = GetVertsForShape(shape);
	if (!myData)
		return 1;

	if (!targetData)
		return 2;

	if (myData->size() != targetData->size())
		return 3;

	for (uint16_t i = 0; i < static_cast<uint16_t>(myData->size()); i++) {
		auto& target = targetData->at(i);
		auto& src = myData->at(i);

		Vector3 v;
		v.x = (target.x * scale) - src.x;
		v.y = (target.y * scale) - src.y;
		v.z = (target.z * scale) - src.z;

		if (v.IsZero(true))
			continue;

		outDiffData[i] = v;
	}

	return 0;
}

int NifFile::CalcUVDiff(NiShape* shape,
						const std::vector<Vector2>* targetData,
						std::unordered_map<uint16_t, Vector3>& outDiffData,
						float scale) {
	outDiffData.clear();

	const std::vector<Vector2>* myData = GetUvsForShape(shape);
	if (!myData)
		return 1;

	if (!targetData)
		return 2;

	if (myData->size() != targetData->size())
		return 3;

	for (uint16_t i = 0; i < static_cast<uint16_t>(myData->size()); i++) {
		Vector3 v;
		v.x = (targetData->at(i).u - myData->at(i).u) * scale;
		v.y = (targetData->at(i).v - myData->at(i).v) * scale;

		if (v.IsZero(true))
			continue;

		outDiffData[i] = v;
	}

	return 0;
}

void NifFile::UpdateSkinPartitions(NiShape* shape) {
	NiSkinData* skinData = nullptr;
	NiSkinPartition* skinPart = nullptr;
	auto skinInst = hdr.GetBlock<NiSkinInstance>(shape->SkinInstanceRef());
	if (skinInst) {
		skinData = hdr.GetBlock(skinInst->dataRef);
		skinPart = hdr.GetBlock(skinInst->skinPartitionRef);

		if (!skinData || !skinPart)
			return;
	}
	else
		return;

	std::vector<Triangle> tris;
	if (!shape->GetTriangles(tris))
		return;

	auto bsdSkinInst = dynamic_cast<BSDismemberSkinInstance*>(skinInst);
	auto bsTriShape = dynamic_cast<BSTriShape*>(shape);
	if (bsTriShape)
		bsTriShape->CalcDataSizes(hdr.GetVersion());

	// Align triangles for comparisons
	for (auto& t : tris)
		t.rot();

	// Make maps of vertices to bones and weights
	std::unordered_map<uint16_t, std::vector<SkinWeight>> vertBoneWeights;
	uint16_t boneIndex = 0;
	for (auto& bone : skinData->bones) {
		for (auto& bw : bone.vertexWeights)
			vertBoneWeights[bw.index].push_back(SkinWeight(boneIndex, bw.weight));

		boneIndex++;
	}

	// Sort weights and corresponding bones
	for (auto& bw : vertBoneWeights)
		sort(bw.second.begin(), bw.second.end(), BoneWeightsSort());

	// Enforce maximum vertex bone weight count
	const uint16_t maxBonesPerVertex = 4;

	for (auto& bw : vertBoneWeights)
		if (bw.second.size() > maxBonesPerVertex)
			bw.second.resize(maxBonesPerVertex);

	skinPart->PrepareTriParts(tris);
	std::vector<int>& triParts = skinPart->triParts;

	uint16_t maxBonesPerPartition = std::numeric_limits<uint16_t>::max();
	if (hdr.GetVersion().IsOB() || hdr.GetVersion().IsFO3())
		maxBonesPerPartition = 18;
	else if (hdr.GetVersion().IsSSE())
		maxBonesPerPartition = 80;

	// Make a list of the bones used by each partition.  If any partition
	// has too many bones, split it.
	std::vector<std::set<int>> partBones(skinPart->partitions.size());
	for (size_t triIndex = 0; triIndex < tris.size(); ++triIndex) {
		int partInd = triParts[triIndex];
		if (partInd < 0 || static_cast<size_t>(partInd) >= partBones.size())
			continue;

		Triangle tri = tris[triIndex];

		// Get associated bones for the current tri
		std::set<int> triBones;
		for (uint32_t i = 0; i < 3; i++)
			for (auto& tb : vertBoneWeights[tri[i]])
				triBones.insert(tb.index);

		// How many new bones are in the tri's bone list?
		uint16_t newBoneCount = 0;
		for (auto& tb : triBones)
			if (partBones[partInd].find(tb) == partBones[partInd].end())
				newBoneCount++;

		const auto partBonesSize = static_cast<uint16_t>(partBones[partInd].size());
		if (partBonesSize + newBoneCount > maxBonesPerPartition) {
			// Too many bones for this partition, make a new partition starting with this triangle
			for (size_t j = 0; j < tris.size(); ++j)
				if (triParts[j] > partInd || (j >= triIndex && triParts[j] >= partInd))
					++triParts[j];

			partBones.insert(partBones.begin() + partInd + 1, std::set<int>());

			if (bsdSkinInst) {
				BSDismemberSkinInstance::PartitionInfo info;
				info.flags = PF_EDITOR_VISIBLE;
				info.partID = bsdSkinInst->partitions[partInd].partID;
				bsdSkinInst->partitions.insert(partInd + 1, info);
			}

			++partInd;
		}

		partBones[partInd].insert(triBones.begin(), triBones.end());
	}

	// Re-create partitions
	std::vector<NiSkinPartition::PartitionBlock> partitions(partBones.size());
	for (size_t partInd = 0; partInd < partBones.size(); partInd++) {
		NiSkinPartition::PartitionBlock& part = partitions[partInd];
		part.hasBoneIndices = true;
		part.hasFaces = true;
		part.hasVertexMap = true;
		part.hasVertexWeights = true;
		part.numWeightsPerVertex = maxBonesPerVertex;
	}
	skinPart->numPartitions = static_cast<uint32_t>(partitions.size());
	skinPart->partitions = std::move(partitions);

	// Re-create trueTriangles, vertexMap, and triangles for each partition
	skinPart->GenerateTrueTrianglesFromTriParts(tris);
	skinPart->PrepareVertexMapsAndTriangles();

	for (uint32_t partInd = 0; partInd < skinPart->numPartitions; ++partInd) {
		NiSkinPartition::PartitionBlock& part = skinPart->partitions[partInd];

		// Copy relevant data from shape to partition
		if (bsTriShape)
			part.vertexDesc = bsTriShape->vertexDesc;

		std::unordered_map<int, uint8_t> boneLookup;
		boneLookup.reserve(partBones[partInd].size());
		part.numBones = static_cast<uint16_t>(partBones[partInd].size());
		part.bones.reserve(part.numBones);

		for (auto& b : partBones[partInd]) {
			part.bones.push_back(static_cast<uint16_t>(b));
			boneLookup[b] = static_cast<uint8_t>(part.bones.size() - 1);
		}

		for (auto& v : part.vertexMap) {
			BoneIndices b;
			VertexWeight vw;

			uint8_t* pb = &b.i1;
			float* pw = &vw.w1;

			float tot = 0.0f;
			for (size_t bi = 0; bi < vertBoneWeights[v].size(); bi++) {
				if (bi == 4)
					break;

				pb[bi] = boneLookup[vertBoneWeights[v][bi].index];
				pw[bi] = vertBoneWeights[v][bi].weight;
				tot += pw[bi];
			}

			if (tot != 0.0f)
				for (int bi = 0; bi < 4; bi++)
					pw[bi] /= tot;

			part.boneIndices.push_back(b);
			part.vertexWeights.push_back(vw);
		}
	}

	if (bsTriShape) {
		skinPart->numVertices = bsTriShape->GetNumVertices();
		skinPart->dataSize = bsTriShape->dataSize;
		skinPart->vertexSize = bsTriShape->vertexSize;
		skinPart->vertData = bsTriShape->vertData;
		skinPart->vertexDesc = bsTriShape->vertexDesc;
	}

	UpdatePartitionFlags(shape);
}

void NifFile::UpdatePartitionFlags(NiShape* shape) {
	auto bsdSkinInst = hdr.GetBlock<BSDismemberSkinInstance>(shape->SkinInstanceRef());
	if (!bsdSkinInst)
		return;

	auto skinPart = hdr.GetBlock(bsdSkinInst->skinPartitionRef);
	if (!skinPart)
		return;

	for (uint32_t i = 0; i < bsdSkinInst->partitions.size(); i++) {
		PartitionFlags flags = PF_NONE;

		if (hdr.GetVersion().IsFO3()) {
			// Don't make FO3/NV meat caps visible
			if (bsdSkinInst->partitions[i].partID < 100 || bsdSkinInst->partitions[i].partID >= 1000)
				flags = PartitionFlags(flags | PF_EDITOR_VISIBLE);
		}
		else
			flags = PartitionFlags(flags | PF_EDITOR_VISIBLE);

		if (i != 0) {
			// Start a new set if the previous bones are different
			if (skinPart->partitions[i].bones != skinPart->partitions[i - 1].bones)
				flags = PartitionFlags(flags | PF_START_NET_BONESET);
		}
		else
			flags = PartitionFlags(flags | PF_START_NET_BONESET);

		bsdSkinInst->partitions[i].flags = flags;
	}
}

void NifFile::CreateSkinning(NiShape* shape) {
	if (shape->HasType<NiTriShape>() || shape->HasType<NiTriStrips>()) {
		if (shape->SkinInstanceRef()->IsEmpty()) {
			int skinDataID = hdr.AddBlock(std::make_unique<NiSkinData>());
			int partID = hdr.AddBlock(std::make_unique<NiSkinPartition>());

			NiSkinInstance* skinInst;
			int skinInstID;

			if (hdr.GetVersion().File() == NiFileVersion::V20_2_0_7) {
				auto [nifDismemberInstS, nifDismemberInst] = make_unique<BSDismemberSkinInstance>();
				skinInstID = hdr.AddBlock(std::move(nifDismemberInstS));
				skinInst = nifDismemberInst;
			}
			else {
				auto [nifSkinInstS, nifSkinInst] = make_unique<NiSkinInstance>();
				skinInstID = hdr.AddBlock(std::move(nifSkinInstS));
				skinInst = nifSkinInst;
			}

			skinInst->dataRef.index = skinDataID;
			skinInst->skinPartitionRef.index = partID;
			skinInst->targetRef.index = GetBlockID(GetRootNode());
			shape->SkinInstanceRef()->index = skinInstID;
			shape->SetSkinned(true);

			SetDefaultPartition(shape);
		}
	}
	else if (shape->HasType<BSTriShape>()) {
		if (shape->SkinInstanceRef()->IsEmpty()) {
			int skinInstID = 0;
			if (hdr.GetVersion().Stream() == 100) {
				int skinDataID = hdr.AddBlock(std::make_unique<NiSkinData>());

				auto nifSkinPartition = std::make_unique<NiSkinPartition>();
				nifSkinPartition->bMappedIndices = false;
				int partID = hdr.AddBlock(std::move(nifSkinPartition));

				auto nifDismemberInst = std::make_unique<BSDismemberSkinInstance>();

				nifDismemberInst->dataRef.index = skinDataID;
				nifDismemberInst->skinPartitionRef.index = partID;
				nifDismemberInst->targetRef.index = GetBlockID(GetRootNode());

				skinInstID = hdr.AddBlock(std::move(nifDismemberInst));

				shape->SkinInstanceRef()->index = skinInstID;
				shape->SetSkinned(true);

				SetDefaultPartition(shape);
				UpdateSkinPartitions(shape);
			}
			else {
				auto [newSkinInstS, newSkinInst] = make_unique<BSSkinInstance>();
				skinInstID = hdr.AddBlock(std::move(newSkinInstS));

				int boneDataRef = hdr.AddBlock(std::make_unique<BSSkinBoneData>());

				newSkinInst->targetRef.index = GetBlockID(GetRootNode());
				newSkinInst->dataRef.index = boneDataRef;

				shape->SkinInstanceRef()->index = skinInstID;
				shape->SetSkinned(true);
			}
		}
	}

	NiShader* shader = GetShader(shape);
	if (shader)
		shader->SetSkinned(true);
}

void NifFile::SetShapeDynamic(const std::string& shapeName) {
	auto shape = FindBlockByName<NiShape>(shapeName);
	if (!shape)
		return;

	// Set consistency flag to mutable
	auto geomData = hdr.GetBlock<NiGeometryData>(shape->DataRef());
	if (geomData)
		geomData->consistencyFlags = CT_MUTABLE;
}
