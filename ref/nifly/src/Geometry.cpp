/*
nifly
C++ NIF library for the Gamebryo/NetImmerse File Format
See the included GPLv3 LICENSE file
*/

#include "Geometry.hpp"
#include "Nodes.hpp"
#include "Skin.hpp"

#include "KDMatcher.hpp"
#include "NifUtil.hpp"

#include <array>

using namespace nifly;

void NiAdditionalGeometryData::Sync(NiStreamReversible& stream) {
	stream.Sync(numVertices);

	blockInfos.Sync(stream);
	blocks.Sync(stream);
}


void BSPackedAdditionalGeometryData::Sync(NiStreamReversible& stream) {
	stream.Sync(numVertices);

	blockInfos.Sync(stream);
	blocks.Sync(stream);
}


void NiGeometryData::Sync(NiStreamReversible& stream) {
	if (stream.GetVersion().File() >= NiFileVersion::V10_1_0_114)
		stream.Sync(groupID);

	stream.Sync(numVertices);

	if (stream.GetVersion().File() >= NiFileVersion::V10_1_0_0) {
		stream.Sync(keepFlags);
		stream.Sync(compressFlags);
	}

	stream.Sync(hasVertices);

	if (hasVertices && (!isPSys || stream.GetVersion().File() < V20_2_0_7)) {
		vertices.resize(numVertices);
		for (uint16_t i = 0; i < numVertices; i++)
			stream.Sync(vertices[i]);
	}

	// Disable tangent flag for OB (in the synced value only: when writing, the flags of the
	// live object keep describing its data, so a later save still finds the tangents)
	uint16_t syncDataFlags = dataFlags;
	if (stream.GetVersion().IsOB())
		syncDataFlags &= ~(1 << 12);

	if (stream.GetVersion().File() >= NiFileVersion::V10_0_1_0)
		stream.Sync(syncDataFlags);

	if (stream.GetMode() == NiStreamReversible::Mode::Reading)
		dataFlags = syncDataFlags;

	uint16_t nbtMethod = syncDataFlags & 0xF000;
	uint8_t numTextureSets = syncDataFlags & 0x3F;
	if (stream.GetVersion().Stream() >= 34)
		numTextureSets = syncDataFlags & 0x1;

	if (stream.GetVersion().File() == NiFileVersion::V20_2_0_7 && stream.GetVersion().Stream() > 34)
		stream.Sync(materialCRC);

	stream.Sync(hasNormals);
	if (hasNormals && (!isPSys || stream.GetVersion().File() < V20_2_0_7)) {
		normals.resize(numVertices);

		for (uint16_t i = 0; i < numVertices; i++)
			stream.Sync(normals[i]);

		if (nbtMethod) {
			tangents.resize(numVertices);
			bitangents.resize(numVertices);

			for (uint16_t i = 0; i < numVertices; i++)
				stream.Sync(tangents[i]);

			for (uint16_t i = 0; i < numVertices; i++)
				stream.Sync(bitangents[i]);
		}
	}

	stream.Sync(bounds);

	stream.Sync(hasVertexColors);
	if (hasVertexColors && (!isPSys || stream.GetVersion().File() < V20_2_0_7)) {
		vertexColors.resize(numVertices);
		for (uint16_t i = 0; i < numVertices; i++)
			stream.Sync(vertexColors[i]);
	}

	if (numTextureSets > 0 && (!isPSys || stream.GetVersion().File() < V20_2_0_7)) {
		uvSets.resize(numTextureSets);
		for (uint32_t i = 0; i < numTextureSets; i++) {
			uvSets[i].resize(numVertices);
			for (uint16_t j = 0; j < numVertices; j++)
				stream.Sync(uvSets[i][j]);
		}
	}

	stream.Sync(consistencyFlags);

	if (stream.GetVersion().File() >= NiFileVersion::V20_0_0_4)
		additionalDataRef.Sync(stream);
}

void NiGeometryData::GetChildRefs(std::set<NiRef*>& refs) {
	NiObject::GetChildRefs(refs);

	refs.insert(&additionalDataRef);
}

void NiGeometryData::GetChildIndices(std::vector<uint32_t>& indices) {
	NiObject::GetChildIndices(indices);

	indices.push_back(additionalDataRef.index);
}

uint16_t NiGeometryData::GetNumVertices() const {
	return numVertices;
}

void NiGeometryData::SetVertices(const bool enable) {
	hasVertices = enable;
	if (enable) {
		vertices.resize(numVertices);
	}
	else {
		vertices.clear();
		numVertices = 0;

		SetNormals(false);
		SetVertexColors(false);
		SetUVs(false);
		SetTangents(false);
	}
}

void NiGeometryData::SetNormals(const bool enable) {
	hasNormals = enable;
	if (enable)
		normals.resize(numVertices);
	else
		normals.clear();
}

void NiGeometryData::SetVertexColors(const bool enable) {
	hasVertexColors = enable;
	if (enable)
		vertexColors.resize(numVertices, Color4(1.0f, 1.0f, 1.0f, 1.0f));
	else
		vertexColors.clear();
}

void NiGeometryData::SetUVs(const bool enable) {
	if (enable) {
		dataFlags |= 1 << 0;
		uvSets.resize(1);
		uvSets[0].resize(numVertices);
	}
	else {
		dataFlags &= ~(1 << 0);
		uvSets.clear();
	}
}

void NiGeometryData::SetTangents(const bool enable) {
	if (enable) {
		dataFlags |= 1 << 12;
		tangents.resize(numVertices);
		bitangents.resize(numVertices);
	}
	else {
		dataFlags &= ~(1 << 12);
		tangents.clear();
		bitangents.clear();
	}
}

uint32_t NiGeometryData::GetNumTriangles() const {
	return 0;
}
bool NiGeometryData::GetTriangles(std::vector<Triangle>&) const {
	return false;
}
void NiGeometryData::SetTriangles(const std::vector<Triangle>&){};

void NiGeometryData::UpdateBounds() {
	bounds = BoundingSphere(vertices);
}

void NiGeometryData::Create(NiVersion&,
							const std::vector<Vector3>* verts,
							const std::vector<Triangle>*,
							const std::vector<Vector2>* uvs,
							const std::vector<Vector3>* norms) {
	size_t vertCount = verts->size();
	constexpr uint16_t maxIndex = std::numeric_limits<uint16_t>::max();

	if (vertCount > static_cast<size_t>(maxIndex))
		numVertices = maxIndex;
	else
		numVertices = uint16_t(vertCount);

	vertices.resize(numVertices);
	for (uint16_t v = 0; v < numVertices; v++)
		vertices[v] = (*verts)[v];

	bounds = BoundingSphere(vertices);

	// Vertex colors can't be passed in, drop colors of a previous vertex set
	SetVertexColors(false);

	if (uvs) {
		size_t uvCount = uvs->size();
		if (uvCount == numVertices) {
			SetUVs(true);

			for (size_t uv = 0; uv < uvSets[0].size(); uv++)
				uvSets[0][uv] = (*uvs)[uv];
		}
		else {
			SetUVs(false);
		}
	}
	else {
		SetUVs(false);
	}

	if (norms && norms->size() == numVertices) {
		SetNormals(true);
		normals = (*norms);
		CalcTangentSpace();
	}
	else {
		SetNormals(false);
		SetTangents(false);
	}
}

void NiGeometryData::notifyVerticesDelete(const std::vector<uint16_t>& vertIndices) {
	EraseVectorIndices(vertices, vertIndices);
	numVertices = static_cast<uint16_t>(vertices.size());
	if (!normals.empty())
		EraseVectorIndices(normals, vertIndices);
	if (!tangents.empty())
		EraseVectorIndices(tangents, vertIndices);
	if (!bitangents.empty())
		EraseVectorIndices(bitangents, vertIndices);
	if (!vertexColors.empty())
		EraseVectorIndices(vertexColors, vertIndices);
	for (auto& uvSet : uvSets)
		EraseVectorIndices(uvSet, vertIndices);
}

void NiGeometryData::RecalcNormals(const bool, const float, std::unordered_set<uint32_t>*) {
	SetNormals(true);
}

void NiGeometryData::CalcTangentSpace() {
	SetTangents(true);
}


uint16_t NiShape::GetNumVertices() const {
	auto geomData = GetGeomData();
	if (geomData)
		return geomData->GetNumVertices();

	return 0;
}

void NiShape::SetVertices(const bool enable) {
	auto geomData = GetGeomData();
	if (geomData)
		geomData->SetVertices(enable);
};

bool NiShape::HasVertices() const {
	auto geomData = GetGeomData();
	if (geomData)
		return geomData->HasVertices();

	return false;
};

void NiShape::SetUVs(const bool enable) {
	auto geomData = GetGeomData();
	if (geomData)
		geomData->SetUVs(enable);
};

bool NiShape::HasUVs() const {
	auto geomData = GetGeomData();
	if (geomData)
		return geomData->HasUVs();

	return false;
};

void NiShape::SetNormals(const bool enable) {
	auto geomData = GetGeomData();
	if (geomData)
		geomData->SetNormals(enable);
};

bool NiShape::HasNormals() const {
	auto geomData = GetGeomData();
	if (geomData)
		return geomData->HasNormals();

	return false;
};

void NiShape::SetTangents(const bool enable) {
	auto geomData = GetGeomData();
	if (geomData)
		geomData->SetTangents(enable);
};

bool NiShape::HasTangents() const {
	auto geomData = GetGeomData();
	if (geomData)
		return geomData->HasTangents();

	return false;
};

void NiShape::SetVertexColors(const bool enable) {
	auto geomData = GetGeomData();
	if (geomData)
		geomData->SetVertexColors(enable);
};

bool NiShape::HasVertexColors() const {
	auto geomData = GetGeomData();
	if (geomData)
		return geomData->HasVertexColors();

	return false;
};

void NiShape::SetSkinned(const bool){};
bool NiShape::IsSkinned() const {
	return false;
};

uint32_t NiShape::GetNumTriangles() const {
	auto geomData = GetGeomData();
	if (geomData)
		return geomData->GetNumTriangles();

	return 0;
}

bool NiShape::GetTriangles(std::vector<Triangle>& tris) const {
	auto geomData = GetGeomData();
	if (geomData)
		return geomData->GetTriangles(tris);

	return false;
};

void NiShape::SetTriangles(const std::vector<Triangle>& tris) {
	auto geomData = GetGeomData();
	if (geomData)
		geomData->SetTriangles(tris);
};

void NiShape::SetBounds(const BoundingSphere& bounds) {
	auto geomData = GetGeomData();
	if (geomData)
		geomData->SetBounds(bounds);
}

BoundingSphere NiShape::GetBounds() const {
	auto geomData = GetGeomData();
	if (geomData)
		return geomData->GetBounds();

	return BoundingSphere();
}

void NiShape::UpdateBounds() {
	auto geomData = GetGeomData();
	if (geomData)
		geomData->UpdateBounds();
}

int NiShape::GetBoneID(const NiHeader& hdr, const std::string& boneName) const {
	auto boneCont = hdr.GetBlock(SkinInstanceRef());
	if (boneCont) {
		int i = 0;
		for (auto& bone : boneCont->boneRefs) {
			auto node = hdr.GetBlock(bone);
			if (node && node->name == boneName)
				return i;
			++i;
		}
	}

	return NIF_NPOS;
}

bool NiShape::ReorderTriangles(const std::vector<uint32_t>& triInds) {
	std::vector<Triangle> trisOrdered;
	std::vector<Triangle> tris;
	if (!GetTriangles(tris))
		return false;

	if (tris.size() != triInds.size())
		return false;

	for (uint32_t id : triInds)
		if (id < tris.size())
			trisOrdered.push_back(tris[id]);

	if (trisOrdered.size() != tris.size())
		return false;

	SetTriangles(trisOrdered);
	return true;
}


BSTriShape::BSTriShape() {
	flags = 14;
	vertexDesc.SetFlag(VF_VERTEX);
	vertexDesc.SetFlag(VF_UV);
	vertexDesc.SetFlag(VF_NORMAL);
	vertexDesc.SetFlag(VF_TANGENT);
	vertexDesc.SetFlag(VF_SKINNED);
}

void BSTriShape::Sync(NiStreamReversible& stream) {
	stream.Sync(flags);
	stream.Sync(transform.translation);
	stream.Sync(transform.rotation);
	stream.Sync(transform.scale);

	collisionRef.Sync(stream);

	stream.Sync(bounds);

	if (stream.GetVersion().Stream() > 139)
		for (float& i : boundMinMax)
			stream.Sync(i);

	skinInstanceRef.Sync(stream);
	shaderPropertyRef.Sync(stream);
	alphaPropertyRef.Sync(stream);

	vertexDesc.Sync(stream);

	bool syncVertexData = true;

	// Vertex and triangle counts as they are stored in this block. They size the particle data below and
	// differ from the counts of the shape when a skinned shape is written (its data lives in the skin partition).
	bool storedCountsZeroed = false;

	if (stream.GetMode() == NiStreamReversible::Mode::Reading) {
		if (stream.GetVersion().User() >= 12 && stream.GetVersion().Stream() < 130) {
			uint16_t numTris = 0;
			stream.Sync(numTris);
			numTriangles = numTris;
		}
		else
			stream.Sync(numTriangles);
	}
	else {
		if (stream.GetVersion().User() >= 12 && stream.GetVersion().Stream() < 130) {
			if (IsSkinned()) {
				// Triangle and vertex data is in partition instead
				uint16_t numUShort = 0;
				uint32_t numUInt = 0;
				stream.Sync(numUShort);

				if (HasType<BSDynamicTriShape>())
					stream.Sync(numVertices);
				else
					stream.Sync(numUShort);

				stream.Sync(numUInt);
				syncVertexData = false;
				storedCountsZeroed = true;
			}
			else {
				auto numTris = static_cast<uint16_t>(numTriangles);
				stream.Sync(numTris);
			}
		}
		else
			stream.Sync(numTriangles);
	}

	if (syncVertexData) {
		stream.Sync(numVertices);
		stream.Sync(dataSize);

		vertData.resize(numVertices);

		if (dataSize > 0) {
			uint32_t vertexMainSize = vertexDesc.GetVertexMainSize();

			for (uint16_t i = 0; i < numVertices; i++) {
				auto& vertex = vertData[i];
				if (HasVertices() && vertexMainSize <= 16) {
					if (IsFullPrecision() || stream.GetVersion().Stream() == 100) {
						// Full precision (vert + bitangentX = 16 bytes)
						stream.Sync((char*) &vertex.vert, sizeof(vertex.vert) + sizeof(vertex.bitangentX));
					}
					else {
						// Half precision (vert + bitangentX = 8 bytes)
						stream.SyncHalf(vertex.vert.x);
						stream.SyncHalf(vertex.vert.y);
						stream.SyncHalf(vertex.vert.z);

						stream.SyncHalf(vertex.bitangentX);
					}
				}
				else if (vertexMainSize > 16) {
					// Full precision (vert = 12 bytes)
					stream.Sync((char*) &vertex.vert, sizeof(vertex.vert));

					// Variable length extra float elements
					uint32_t vertexExtraCount = (vertexMainSize - 16) / 4;
					if (vertexExtraCount > 0) {
						vertex.extra.resize(vertexExtraCount);
						for (uint32_t e = 0; e < vertexExtraCount; e++)
							stream.Sync(vertex.extra[e]);
					}

					// BitangentX after extra floats (bitangentX = 4 bytes)
					stream.Sync(vertex.bitangentX);
				}

				if (HasUVs()) {
					stream.SyncHalf(vertex.uv.u);
					stream.SyncHalf(vertex.uv.v);
				}

				if (HasNormals()) {
					// 3 normals + bitangentY = 4 bytes
					stream.Sync((char*) &vertex.normal, sizeof(vertex.normal) + sizeof(vertex.bitangentY));

					if (HasTangents()) {
						// 3 tangents + bitangentZ = 4 bytes
						stream.Sync((char*) &vertex.tangent,
									sizeof(vertex.tangent) + sizeof(vertex.bitangentZ));
					}
				}

				if (HasVertexColors()) {
					// 4 vertex colors = 4 bytes
					stream.Sync((char*) &vertex.colorData, sizeof(vertex.colorData));
				}

				if (IsSkinned()) {
					// 4 weights = 8 bytes
					for (float& weight : vertex.weights)
						stream.SyncHalf(weight);

					// 4 bones = 4 bytes
					stream.Sync((char*) &vertex.weightBones, sizeof(vertex.weightBones));
				}

				if (HasEyeData())
					stream.Sync(vertex.eyeData);
			}
		}

		triangles.resize(numTriangles);

		if (dataSize > 0) {
			for (uint32_t i = 0; i < numTriangles; i++)
				stream.Sync(triangles[i]);
		}
	}

	if (stream.GetVersion().User() == 12 && stream.GetVersion().Stream() == 100) {
		stream.Sync(particleDataSize);

		if (particleDataSize > 0) {
			uint16_t storedNumVertices = numVertices;
			uint32_t storedNumTriangles = numTriangles;
			if (storedCountsZeroed) {
				// The reader sizes the particle data by the counts written above
				if (!HasType<BSDynamicTriShape>())
					storedNumVertices = 0;

				storedNumTriangles = 0;
			}

			if (stream.GetMode() == NiStreamReversible::Mode::Reading || particleVerts.size() < storedNumVertices)
				particleVerts.resize(storedNumVertices);
			if (stream.GetMode() == NiStreamReversible::Mode::Reading || particleNorms.size() < storedNumVertices)
				particleNorms.resize(storedNumVertices);
			if (stream.GetMode() == NiStreamReversible::Mode::Reading || particleTris.size() < storedNumTriangles)
				particleTris.resize(storedNumTriangles);

			for (uint16_t i = 0; i < storedNumVertices; i++) {
				stream.SyncHalf(particleVerts[i].x);
				stream.SyncHalf(particleVerts[i].y);
				stream.SyncHalf(particleVerts[i].z);
			}

			for (uint16_t i = 0; i < storedNumVertices; i++) {
				stream.SyncHalf(particleNorms[i].x);
				stream.SyncHalf(particleNorms[i].y);
				stream.SyncHalf(particleNorms[i].z);
			}

			for (uint32_t i = 0; i < storedNumTriangles; i++)
				stream.Sync(particleTris[i]);
		}
	}
}

void BSTriShape::notifyVerticesDelete(const std::vector<uint16_t>& vertIndices) {
	deletedTris.clear();

	std::vector<int> indexCollapse = GenerateIndexCollapseMap(vertIndices, vertData.size());

	EraseVectorIndices(vertData, vertIndices);
	numVertices = static_cast<uint16_t>(vertData.size());

	ApplyMapToTriangles(triangles, indexCollapse, &deletedTris);
	numTriangles = static_cast<uint32_t>(triangles.size());

	std::sort(deletedTris.begin(), deletedTris.end(), std::greater<>());
}

void BSTriShape::GetChildRefs(std::set<NiRef*>& refs) {
	NiAVObject::GetChildRefs(refs);

	refs.insert(&skinInstanceRef);
	refs.insert(&shaderPropertyRef);
	refs.insert(&alphaPropertyRef);
}

void BSTriShape::GetChildIndices(std::vector<uint32_t>& indices) {
	NiAVObject::GetChildIndices(indices);

	indices.push_back(skinInstanceRef.index);
	indices.push_back(shaderPropertyRef.index);
	indices.push_back(alphaPropertyRef.index);
}

std::vector<Vector3>& BSTriShape::UpdateRawVertices() {
	rawVertices.resize(numVertices);

	for (uint16_t i = 0; i < numVertices; i++)
		rawVertices[i] = vertData[i].vert;

	return rawVertices;
}

std::vector<Vector3>& BSTriShape::UpdateRawNormals() {
	if (!HasNormals()) {
		rawNormals.clear();
		return rawNormals;
	}

	rawNormals.resize(numVertices);

	for (uint16_t i = 0; i < numVertices; i++) {
		rawNormals[i].x = ((static_cast<float>(vertData[i].normal[0])) / 255.0f) * 2.0f - 1.0f;
		rawNormals[i].y = ((static_cast<float>(vertData[i].normal[1])) / 255.0f) * 2.0f - 1.0f;
		rawNormals[i].z = ((static_cast<float>(vertData[i].normal[2])) / 255.0f) * 2.0f - 1.0f;
	}

	return rawNormals;
}

std::vector<Vector3>& BSTriShape::UpdateRawTangents() {
	if (!HasTangents()) {
		rawTangents.clear();
		return rawTangents;
	}

	rawTangents.resize(numVertices);
	for (uint16_t i = 0; i < numVertices; i++) {
		rawTangents[i].x = ((static_cast<float>(vertData[i].tangent[0])) / 255.0f) * 2.0f - 1.0f;
		rawTangents[i].y = ((static_cast<float>(vertData[i].tangent[1])) / 255.0f) * 2.0f - 1.0f;
		rawTangents[i].z = ((static_cast<float>(vertData[i].tangent[2])) / 255.0f) * 2.0f - 1.0f;
	}

	return rawTangents;
}

std::vector<Vector3>& BSTriShape::UpdateRawBitangents() {
	if (!HasTangents()) {
		rawBitangents.clear();
		return rawBitangents;
	}

	rawBitangents.resize(numVertices);
	for (uint16_t i = 0; i < numVertices; i++) {
		rawBitangents[i].x = vertData[i].bitangentX;
		rawBitangents[i].y = ((static_cast<float>(vertData[i].bitangentY)) / 255.0f) * 2.0f - 1.0f;
		rawBitangents[i].z = ((static_cast<float>(vertData[i].bitangentZ)) / 255.0f) * 2.0f - 1.0f;
	}

	return rawBitangents;
}

std::vector<Vector2>& BSTriShape::UpdateRawUvs() {
	if (!HasUVs()) {
		rawUvs.clear();
		return rawUvs;
	}

	rawUvs.resize(numVertices);

	for (uint16_t i = 0; i < numVertices; i++)
		rawUvs[i] = vertData[i].uv;

	return rawUvs;
}

std::vector<Color4>& BSTriShape::UpdateRawColors() {
	if (!HasVertexColors()) {
		rawColors.clear();
		return rawColors;
	}

	rawColors.resize(numVertices);

	for (uint16_t i = 0; i < numVertices; i++) {
		rawColors[i].r = vertData[i].colorData[0] / 255.0f;
		rawColors[i].g = vertData[i].colorData[1] / 255.0f;
		rawColors[i].b = vertData[i].colorData[2] / 255.0f;
		rawColors[i].a = vertData[i].colorData[3] / 255.0f;
	}

	return rawColors;
}

std::vector<float>& BSTriShape::UpdateRawEyeData() {
	if (!HasEyeData()) {
		rawEyeData.clear();
		return rawEyeData;
	}

	rawEyeData.resize(numVertices);

	for (uint16_t i = 0; i < numVertices; ++i)
		rawEyeData[i] = vertData[i].eyeData;

	return rawEyeData;
}

uint16_t BSTriShape::GetNumVertices() const {
	return numVertices;
}

void BSTriShape::SetVertices(const bool enable) {
	if (enable) {
		vertexDesc.SetFlag(VF_VERTEX);
		vertData.resize(numVertices);
	}
	else {
		vertexDesc.RemoveFlag(VF_VERTEX);
		vertData.clear();
		numVertices = 0;

		SetUVs(false);
		SetNormals(false);
		SetTangents(false);
		SetVertexColors(false);
		SetSkinned(false);
	}
}

void BSTriShape::SetUVs(const bool enable) {
	if (enable)
		vertexDesc.SetFlag(VF_UV);
	else
		vertexDesc.RemoveFlag(VF_UV);
}

void BSTriShape::SetSecondUVs(const bool enable) {
	if (enable)
		vertexDesc.SetFlag(VF_UV_2);
	else
		vertexDesc.RemoveFlag(VF_UV_2);
}

void BSTriShape::SetNormals(const bool enable) {
	if (enable)
		vertexDesc.SetFlag(VF_NORMAL);
	else
		vertexDesc.RemoveFlag(VF_NORMAL);
}

void BSTriShape::SetTangents(const bool enable) {
	if (enable)
		vertexDesc.SetFlag(VF_TANGENT);
	else
		vertexDesc.RemoveFlag(VF_TANGENT);
}

void BSTriShape::SetVertexColors(const bool enable) {
	if (enable) {
		if (!vertexDesc.HasFlag(VF_COLORS)) {
			for (auto& v : vertData) {
				v.colorData[0] = 255;
				v.colorData[1] = 255;
				v.colorData[2] = 255;
				v.colorData[3] = 255;
			}
		}

		vertexDesc.SetFlag(VF_COLORS);
	}
	else
		vertexDesc.RemoveFlag(VF_COLORS);
}

void BSTriShape::SetSkinned(const bool enable) {
	if (enable)
		vertexDesc.SetFlag(VF_SKINNED);
	else
		vertexDesc.RemoveFlag(VF_SKINNED);
}

void BSTriShape::SetEyeData(const bool enable) {
	if (enable)
		vertexDesc.SetFlag(VF_EYEDATA);
	else
		vertexDesc.RemoveFlag(VF_EYEDATA);
}

void BSTriShape::SetFullPrecision(const bool enable) {
	if (!CanChangePrecision())
		return;

	if (enable)
		vertexDesc.SetFlag(VF_FULLPREC);
	else
		vertexDesc.RemoveFlag(VF_FULLPREC);
}

uint32_t BSTriShape::GetNumTriangles() const {
	return numTriangles;
}

bool BSTriShape::GetTriangles(std::vector<Triangle>& tris) const {
	tris = triangles;
	return true;
}

void BSTriShape::SetTriangles(const std::vector<Triangle>& tris) {
	triangles = tris;
	numTriangles = static_cast<uint32_t>(triangles.size());
}

void BSTriShape::UpdateBounds() {
	UpdateRawVertices();
	bounds = BoundingSphere(rawVertices);
}

void BSTriShape::SetVertexData(const std::vector<BSVertexData>& bsVertData) {
	vertData = bsVertData;
	numVertices = static_cast<uint16_t>(vertData.size());
}

void BSTriShape::SetNormals(const std::vector<Vector3>& inNorms) {
	SetNormals(true);

	rawNormals.resize(numVertices);
	for (uint16_t i = 0; i < numVertices; i++) {
		rawNormals[i] = inNorms[i];
		vertData[i].normal[0] = static_cast<uint8_t>(std::round((((inNorms[i].x + 1.0f) / 2.0f) * 255.0f)));
		vertData[i].normal[1] = static_cast<uint8_t>(std::round((((inNorms[i].y + 1.0f) / 2.0f) * 255.0f)));
		vertData[i].normal[2] = static_cast<uint8_t>(std::round((((inNorms[i].z + 1.0f) / 2.0f) * 255.0f)));
	}
}

void BSTriShape::SetTangentData(const std::vector<Vector3>& in) {
	SetTangents(true);

	for (uint16_t i = 0; i < numVertices; i++) {
		vertData[i].tangent[0] = static_cast<uint8_t>(std::round((((in[i].x + 1.0f) / 2.0f) * 255.0f)));
		vertData[i].tangent[1] = static_cast<uint8_t>(std::round((((in[i].y + 1.0f) / 2.0f) * 255.0f)));
		vertData[i].tangent[2] = static_cast<uint8_t>(std::round((((in[i].z + 1.0f) / 2.0f) * 255.0f)));
	}
}

void BSTriShape::SetBitangentData(const std::vector<Vector3>& in) {
	SetTangents(true);

	for (uint16_t i = 0; i < numVertices; i++) {
		vertData[i].bitangentX = in[i].x;
		vertData[i].bitangentY = static_cast<uint8_t>(std::round((((in[i].y + 1.0f) / 2.0f) * 255.0f)));
		vertData[i].bitangentZ = static_cast<uint8_t>(std::round((((in[i].z + 1.0f) / 2.0f) * 255.0f)));
	}
}

void BSTriShape::SetEyeData(const std::vector<float>& in) {
	SetEyeData(true);

	for (uint16_t i = 0; i < numVertices; i++)
		vertData[i].eyeData = in[i];
}

static void CalculateNormals(const std::vector<Vector3>& verts,
							 const std::vector<Triangle>& tris,
							 std::vector<Vector3>& outNorms,
							 const bool smooth,
							 float smoothThresh,
							 std::unordered_set<uint32_t>* lockedIndices = nullptr) {
	std::vector<Vector3> norms;
	norms.resize(verts.size());

	// Face normals
	for (const Triangle& t : tris) {
		Vector3 tn = t.trinormal(verts);
		norms[t.p1] += tn;
		norms[t.p2] += tn;
		norms[t.p3] += tn;
	}

	for (Vector3& n : norms)
		n.Normalize();

	// Smooth normals
	if (smooth) {
		smoothThresh *= DEG2RAD;
		std::vector<Vector3> seamNorms;
		SortingMatcher matcher(verts.data(), static_cast<uint16_t>(verts.size()));
		for (const auto& matchset : matcher.matches) {
			seamNorms.resize(matchset.size());
			for (size_t j = 0; j < matchset.size(); ++j) {
				const Vector3& n = norms[matchset[j]];
				Vector3 sn = n;
				for (size_t k = 0; k < matchset.size(); ++k) {
					if (j == k)
						continue;
					const Vector3& mn = norms[matchset[k]];
					if (n.angle(mn) >= smoothThresh)
						continue;
					sn += mn;
				}
				sn.Normalize();
				seamNorms[j] = sn;
			}
			for (size_t j = 0; j < matchset.size(); ++j)
				norms[matchset[j]] = seamNorms[j];
		}
	}

	if (lockedIndices) {
		outNorms.resize(norms.size());

		// Move normals of indices that aren't locked only
		for (uint32_t i = 0; i < static_cast<uint32_t>(norms.size()); i++) {
			if (lockedIndices->find(i) == lockedIndices->end())
				outNorms[i] = std::move(norms[i]);
		}
	}
	else
		outNorms = std::move(norms);
}

void BSTriShape::RecalcNormals(const bool smooth,
							   const float smoothThresh,
							   std::unordered_set<uint32_t>* lockedIndices) {
	UpdateRawVertices();
	SetNormals(true);

	CalculateNormals(rawVertices, triangles, rawNormals, smooth, smoothThresh, lockedIndices);

	for (uint16_t i = 0; i < numVertices; i++) {
		if (lockedIndices) {
			// Skip locked indices (keep current normal)
			if (lockedIndices->find(i) != lockedIndices->end())
				continue;
		}

		vertData[i].normal[0] = static_cast<uint8_t>(std::round((((rawNormals[i].x + 1.0f) / 2.0f) * 255.0f)));
		vertData[i].normal[1] = static_cast<uint8_t>(std::round((((rawNormals[i].y + 1.0f) / 2.0f) * 255.0f)));
		vertData[i].normal[2] = static_cast<uint8_t>(std::round((((rawNormals[i].z + 1.0f) / 2.0f) * 255.0f)));
	}
}

void BSTriShape::CalcTangentSpace() {
	if (!HasNormals() || !HasUVs())
		return;

	UpdateRawNormals();
	SetTangents(true);

	std::vector<Vector3> tan1;
	std::vector<Vector3> tan2;
	tan1.resize(numVertices);
	tan2.resize(numVertices);

	for (auto& triangle : triangles) {
		int i1 = triangle.p1;
		int i2 = triangle.p2;
		int i3 = triangle.p3;

		if (i1 >= numVertices || i2 >= numVertices || i3 >= numVertices)
			continue;

		Vector3 v1 = vertData[i1].vert;
		Vector3 v2 = vertData[i2].vert;
		Vector3 v3 = vertData[i3].vert;

		Vector2 w1 = vertData[i1].uv;
		Vector2 w2 = vertData[i2].uv;
		Vector2 w3 = vertData[i3].uv;

		float x1 = v2.x - v1.x;
		float x2 = v3.x - v1.x;
		float y1 = v2.y - v1.y;
		float y2 = v3.y - v1.y;
		float z1 = v2.z - v1.z;
		float z2 = v3.z - v1.z;

		float s1 = w2.u - w1.u;
		float s2 = w3.u - w1.u;
		float t1 = w2.v - w1.v;
		float t2 = w3.v - w1.v;

		float r = (s1 * t2 - s2 * t1);
		r = (r >= 0.0f ? +1.0f : -1.0f);

		Vector3 sdir = Vector3((t2 * x1 - t1 * x2) * r, (t2 * y1 - t1 * y2) * r, (t2 * z1 - t1 * z2) * r);
		Vector3 tdir = Vector3((s1 * x2 - s2 * x1) * r, (s1 * y2 - s2 * y1) * r, (s1 * z2 - s2 * z1) * r);

		sdir.Normalize();
		tdir.Normalize();

		tan1[i1] += tdir;
		tan1[i2] += tdir;
		tan1[i3] += tdir;

		tan2[i1] += sdir;
		tan2[i2] += sdir;
		tan2[i3] += sdir;
	}

	rawBitangents.resize(numVertices);
	rawTangents.resize(numVertices);

	for (uint16_t i = 0; i < numVertices; i++) {
		rawTangents[i] = tan1[i];
		rawBitangents[i] = tan2[i];

		if (rawTangents[i].IsZero() || rawBitangents[i].IsZero()) {
			rawTangents[i].x = rawNormals[i].y;
			rawTangents[i].y = rawNormals[i].z;
			rawTangents[i].z = rawNormals[i].x;
			rawBitangents[i] = rawNormals[i].cross(rawTangents[i]);
		}
		else {
			rawTangents[i].Normalize();
			rawTangents[i] = (rawTangents[i] - rawNormals[i] * rawNormals[i].dot(rawTangents[i]));
			rawTangents[i].Normalize();

			rawBitangents[i].Normalize();

			rawBitangents[i] = (rawBitangents[i] - rawNormals[i] * rawNormals[i].dot(rawBitangents[i]));
			rawBitangents[i] = (rawBitangents[i] - rawTangents[i] * rawTangents[i].dot(rawBitangents[i]));

			rawBitangents[i].Normalize();
		}

		vertData[i].tangent[0] = static_cast<uint8_t>(
			std::round((((rawTangents[i].x + 1.0f) / 2.0f) * 255.0f)));
		vertData[i].tangent[1] = static_cast<uint8_t>(
			std::round((((rawTangents[i].y + 1.0f) / 2.0f) * 255.0f)));
		vertData[i].tangent[2] = static_cast<uint8_t>(
			std::round((((rawTangents[i].z + 1.0f) / 2.0f) * 255.0f)));

		vertData[i].bitangentX = rawBitangents[i].x;
		vertData[i].bitangentY = static_cast<uint8_t>(
			std::round((((rawBitangents[i].y + 1.0f) / 2.0f) * 255.0f)));
		vertData[i].bitangentZ = static_cast<uint8_t>(
			std::round((((rawBitangents[i].z + 1.0f) / 2.0f) * 255.0f)));
	}
}

int BSTriShape::CalcDataSizes(NiVersion& version) {
	vertexSize = 0;
	dataSize = 0;

	VertexFlags vf = vertexDesc.GetFlags();
	vertexDesc.ClearAttributeOffsets();

	std::array<uint32_t, VA_COUNT> attributeSizes{};
	if (HasVertices()) {
		if (IsFullPrecision() || version.Stream() == 100)
			attributeSizes[VA_POSITION] = 4;
		else
			attributeSizes[VA_POSITION] = 2;
	}

	if (!vertData.empty() && !vertData.front().extra.empty()) {
		// Add extra float elements to vertex size
		uint8_t extraCount = static_cast<uint8_t>(vertData.front().extra.size());
		if (extraCount > 0)
			attributeSizes[VA_POSITION] += extraCount;
	}

	if (HasUVs())
		attributeSizes[VA_TEXCOORD0] = 1;

	if (HasSecondUVs())
		attributeSizes[VA_TEXCOORD1] = 1;

	if (HasNormals()) {
		attributeSizes[VA_NORMAL] = 1;

		if (HasTangents())
			attributeSizes[VA_BINORMAL] = 1;
	}

	if (HasVertexColors())
		attributeSizes[VA_COLOR] = 1;

	if (IsSkinned())
		attributeSizes[VA_SKINNING] = 3;

	if (HasEyeData())
		attributeSizes[VA_EYEDATA] = 1;

	for (int va = 0; va < VA_COUNT; va++) {
		if (attributeSizes[va] != 0) {
			vertexDesc.SetAttributeOffset(VertexAttribute(va), vertexSize);
			vertexSize += attributeSizes[va] * 4;
		}
	}

	vertexDesc.SetSize(vertexSize);
	vertexDesc.SetFlags(vf);

	if (HasType<BSDynamicTriShape>())
		vertexDesc.MakeDynamic();

	dataSize = vertexSize * numVertices + 6 * numTriangles;

	return dataSize;
}

void BSTriShape::Create(NiVersion& version,
						const std::vector<Vector3>* verts,
						const std::vector<Triangle>* tris,
						const std::vector<Vector2>* uvs,
						const std::vector<Vector3>* normals) {
	constexpr uint16_t maxVertIndex = std::numeric_limits<uint16_t>::max();
	size_t vertCount = verts->size();
	if (vertCount > static_cast<size_t>(maxVertIndex))
		numVertices = maxVertIndex;
	else
		numVertices = uint16_t(vertCount);

	uint32_t maxTriIndex = std::numeric_limits<uint32_t>::max();
	if (version.User() >= 12 && version.Stream() < 130)
		maxTriIndex = std::numeric_limits<uint16_t>::max();

	size_t triCount = tris ? tris->size() : 0;
	if (numVertices == 0)
		numTriangles = 0;
	else if (triCount > static_cast<size_t>(maxTriIndex))
		numTriangles = maxTriIndex;
	else
		numTriangles = uint32_t(triCount);

	vertData.resize(numVertices);

	if (uvs && uvs->size() != numVertices)
		SetUVs(false);

	for (uint16_t i = 0; i < numVertices; i++) {
		auto& vertex = vertData[i];
		vertex.vert = (*verts)[i];

		if (uvs && uvs->size() == numVertices)
			vertex.uv = (*uvs)[i];

		vertex.bitangentX = 0.0f;
		vertex.bitangentY = 0;
		vertex.bitangentZ = 0;
		vertex.normal[0] = vertex.normal[1] = vertex.normal[2] = 0;
		std::memset(vertex.colorData, 255, 4);
		std::memset(vertex.weights, 0, sizeof(float) * 4);
		std::memset(vertex.weightBones, 0, 4);
		vertex.eyeData = 0.0f;
	}

	triangles.resize(numTriangles);
	for (uint32_t i = 0; i < numTriangles; i++)
		triangles[i] = (*tris)[i];

	UpdateRawVertices();
	bounds = BoundingSphere(rawVertices);

	if (normals && normals->size() == numVertices) {
		SetNormals(*normals);
		CalcTangentSpace();
	}
	else {
		SetNormals(false);
		SetTangents(false);
	}
}


void BSSubIndexTriShape::Sync(NiStreamReversible& stream) {
	if (stream.GetVersion().Stream() >= 130 && dataSize > 0) {
		stream.Sync(segmentation.numPrimitives);
		stream.Sync(segmentation.numSegments);
		stream.Sync(segmentation.numTotalSegments);

		segmentation.segments.resize(segmentation.numSegments);
		for (auto& segment : segmentation.segments) {
			stream.Sync(segment.startIndex);
			stream.Sync(segment.numPrimitives);
			stream.Sync(segment.parentArrayIndex);
			stream.Sync(segment.numSubSegments);

			segment.subSegments.resize(segment.numSubSegments);
			for (auto& subSegment : segment.subSegments) {
				stream.Sync(subSegment.startIndex);
				stream.Sync(subSegment.numPrimitives);
				stream.Sync(subSegment.arrayIndex);
				stream.Sync(subSegment.unkInt1);
			}
		}

		if (segmentation.numSegments < segmentation.numTotalSegments) {
			stream.Sync(segmentation.subSegmentData.numSegments);
			stream.Sync(segmentation.subSegmentData.numTotalSegments);

			segmentation.subSegmentData.arrayIndices.resize(segmentation.numSegments);
			for (auto& arrayIndex : segmentation.subSegmentData.arrayIndices)
				stream.Sync(arrayIndex);

			segmentation.subSegmentData.dataRecords.resize(segmentation.numTotalSegments);
			for (auto& dataRecord : segmentation.subSegmentData.dataRecords) {
				stream.Sync(dataRecord.userSlotID);
				stream.Sync(dataRecord.material);
				stream.Sync(dataRecord.numData);

				dataRecord.extraData.resize(dataRecord.numData);
				for (auto& data : dataRecord.extraData)
					stream.Sync(data);
			}

			segmentation.subSegmentData.ssfFile.Sync(stream, 2);
		}
	}
	else if (stream.GetVersion().Stream() == 100) {
		stream.Sync(numSegments);
		segments.resize(numSegments);

		for (auto& segment : segments)
			segment.Sync(stream);
	}
}

void BSSubIndexTriShape::notifyVerticesDelete(const std::vector<uint16_t>& vertIndices) {
	BSTriShape::notifyVerticesDelete(vertIndices);

	//Remove triangles from segments and re-fit lists
	segmentation.numPrimitives -= static_cast<uint32_t>(deletedTris.size());

	// Primitives of each segment that precede its first sub segment (they belong to the segment itself)
	std::vector<uint32_t> leadingPrimitives(segmentation.segments.size(), 0);
	size_t segIndex = 0;

	for (auto& segment : segmentation.segments) {
		if (!segment.subSegments.empty() && segment.subSegments[0].startIndex > segment.startIndex) {
			uint32_t leading = (segment.subSegments[0].startIndex - segment.startIndex) / 3;
			leadingPrimitives[segIndex] = leading;

			for (auto& id : deletedTris)
				if (leadingPrimitives[segIndex] > 0 && id >= segment.startIndex / 3 && id < segment.startIndex / 3 + leading)
					leadingPrimitives[segIndex]--;
		}
		segIndex++;

		// Delete primitives
		for (auto& id : deletedTris)
			if (segment.numPrimitives > 0 && id >= segment.startIndex / 3
				&& id < segment.startIndex / 3 + segment.numPrimitives)
				segment.numPrimitives--;

		// Align sub segments
		for (auto& subSegment : segment.subSegments)
			for (auto& id : deletedTris)
				if (subSegment.numPrimitives > 0 && id >= subSegment.startIndex / 3
					&& id < subSegment.startIndex / 3 + subSegment.numPrimitives)
					subSegment.numPrimitives--;
	}

	// Align segments
	size_t i = 0;
	segIndex = 0;
	for (auto& segment : segmentation.segments) {
		// Align sub segments
		size_t j = 0;
		for (auto& subSegment : segment.subSegments) {
			if (j == 0)
				subSegment.startIndex = segment.startIndex + leadingPrimitives[segIndex] * 3;

			if (j + 1 >= segment.numSubSegments)
				continue;

			BSSITSSubSegment& nextSubSegment = segment.subSegments[j + 1];
			nextSubSegment.startIndex = subSegment.startIndex + subSegment.numPrimitives * 3;
			j++;
		}

		segIndex++;

		if (i + 1 >= segmentation.numSegments)
			continue;

		BSSITSSegment& nextSegment = segmentation.segments[i + 1];
		nextSegment.startIndex = segment.startIndex + segment.numPrimitives * 3;

		i++;
	}

	// Remove triangles from SSE segments
	for (auto& segment : segments) {
		for (auto& id : deletedTris)
			if (segment.numTris > 0 && id >= segment.index / 3 && id < segment.index / 3 + segment.numTris)
				segment.numTris--;
	}

	// Align SSE segments
	i = 0;
	for (auto& segment : segments) {
		if (i + 1 >= numSegments)
			continue;

		BSGeometrySegmentData& nextSegment = segments[i + 1];
		nextSegment.index = segment.index + segment.numTris * 3;

		i++;
	}
}

void BSSubIndexTriShape::SetDefaultSegments() {
	segmentation.numPrimitives = numTriangles;
	segmentation.numSegments = 4;
	segmentation.numTotalSegments = 4;

	segmentation.subSegmentData.numSegments = 0;
	segmentation.subSegmentData.numTotalSegments = 0;

	segmentation.subSegmentData.arrayIndices.clear();
	segmentation.subSegmentData.dataRecords.clear();
	segmentation.subSegmentData.ssfFile.clear();

	segmentation.segments.resize(4);
	for (uint32_t i = 0; i < 3; i++) {
		segmentation.segments[i].startIndex = 0;
		segmentation.segments[i].numPrimitives = 0;
		segmentation.segments[i].parentArrayIndex = 0xFFFFFFFF;
		segmentation.segments[i].numSubSegments = 0;
	}

	segmentation.segments[3].startIndex = 0;
	segmentation.segments[3].numPrimitives = numTriangles;
	segmentation.segments[3].parentArrayIndex = 0xFFFFFFFF;
	segmentation.segments[3].numSubSegments = 0;

	numSegments = 0;
	segments.clear();
}

void BSSubIndexTriShape::Create(NiVersion& version,
								const std::vector<Vector3>* verts,
								const std::vector<Triangle>* tris,
								const std::vector<Vector2>* uvs,
								const std::vector<Vector3>* normals) {
	BSTriShape::Create(version, verts, tris, uvs, normals);

	// Skinned most of the time
	SetSkinned(true);
	SetDefaultSegments();
}

std::vector<BSGeometrySegmentData> BSSubIndexTriShape::GetSegments() const {
	return segments;
}

void BSSubIndexTriShape::SetSegments(const std::vector<BSGeometrySegmentData>& sd) {
	segments = sd;
	numSegments = static_cast<uint32_t>(segments.size());
}

void BSSubIndexTriShape::GetSegmentation(NifSegmentationInfo& inf, std::vector<int>& triParts) const {
	inf.segs.clear();
	inf.ssfFile = segmentation.subSegmentData.ssfFile.get();
	inf.segs.resize(segmentation.segments.size());
	triParts.clear();

	uint32_t numTris = GetNumTriangles();
	triParts.resize(numTris, -1);

	int partID = 0;
	int arrayIndex = 0;

	for (size_t i = 0; i < segmentation.segments.size(); ++i) {
		const BSSITSSegment& seg = segmentation.segments[i];
		uint32_t startIndex = seg.startIndex / 3;
		uint32_t endIndex = std::min(numTris, startIndex + seg.numPrimitives);

		for (uint32_t id = startIndex; id < endIndex; id++)
			triParts[id] = partID;

		inf.segs[i].partID = partID++;
		inf.segs[i].subs.resize(seg.subSegments.size());

		for (size_t j = 0; j < seg.subSegments.size(); ++j) {
			const BSSITSSubSegment& sub = seg.subSegments[j];
			startIndex = sub.startIndex / 3;

			endIndex = std::min(numTris, startIndex + sub.numPrimitives);
			for (uint32_t id = startIndex; id < endIndex; id++)
				triParts[id] = partID;

			inf.segs[i].subs[j].partID = partID++;
			arrayIndex++;

			// A partially loaded shape can have fewer data records than sub segments
			if (static_cast<size_t>(arrayIndex) >= segmentation.subSegmentData.dataRecords.size())
				continue;

			const BSSITSSubSegmentDataRecord& rec = segmentation.subSegmentData.dataRecords[arrayIndex];
			inf.segs[i].subs[j].userSlotID = rec.userSlotID < 30 ? 0 : rec.userSlotID;
			inf.segs[i].subs[j].material = rec.material;
			inf.segs[i].subs[j].extraData = rec.extraData;
		}
		arrayIndex++;
	}
}

void BSSubIndexTriShape::SetSegmentation(const NifSegmentationInfo& inf, const std::vector<int>& inTriParts) {
	uint32_t numTris = GetNumTriangles();
	if (inTriParts.size() != numTris)
		return;

	// Renumber partitions so that the partition IDs are increasing.
	int newPartID = 0;
	std::vector<int> oldToNewPartIDs;
	for (const NifSegmentInfo& seg : inf.segs) {
		if (seg.partID >= static_cast<int>(oldToNewPartIDs.size()))
			oldToNewPartIDs.resize(seg.partID + 1);
		oldToNewPartIDs[seg.partID] = newPartID++;

		for (const NifSubSegmentInfo& sub : seg.subs) {
			if (sub.partID >= static_cast<int>(oldToNewPartIDs.size()))
				oldToNewPartIDs.resize(sub.partID + 1);
			oldToNewPartIDs[sub.partID] = newPartID++;
		}
	}

	std::vector<int> triParts(numTris);
	for (uint32_t i = 0; i < numTris; ++i)
		if (inTriParts[i] >= 0)
			triParts[i] = oldToNewPartIDs[inTriParts[i]];

	// Sort triangles (via index) by partition ID
	std::vector<uint32_t> triInds(numTris);
	for (uint32_t i = 0; i < numTris; ++i)
		triInds[i] = i;

	std::stable_sort(triInds.begin(), triInds.end(), [&triParts](int i, int j) {
		return triParts[i] < triParts[j];
	});

	ReorderTriangles(triInds);
	// Note that triPart's indexing no longer matches triangle indexing.
	// triParts uses the old indexing.  triInds maps from new indexing to old.
	// So triParts[triInds[i]] is now the partition number of triangle i.

	// Find the index of the first triangle of each partition: partTriInds.
	// If p is the partition number, then partTriInds[p] will be the index
	// in tris of the first triangle of partition p.
	// The number of triangles in partition p will be
	// partTriInds[p + 1] - partTriInds[p].
	std::vector<uint32_t> partTriInds(newPartID + 1);
	int nextPartID = 0;
	for (uint32_t i = 0; i < numTris; ++i)
		while (triParts[triInds[i]] >= nextPartID)
			partTriInds[nextPartID++] = i;
	while (nextPartID < static_cast<int>(partTriInds.size()))
		partTriInds[nextPartID++] = numTris;

	segmentation = BSSITSSegmentation();
	uint32_t parentArrayIndex = 0;
	uint32_t segmentIndex = 0;
	int partID = 0;

	for (const NifSegmentInfo& seg : inf.segs) {
		// Create new segment
		segmentation.segments.emplace_back();
		BSSITSSegment& segment = segmentation.segments.back();
		uint32_t childCount = static_cast<uint32_t>(seg.subs.size());
		segment.numPrimitives = partTriInds[partID + childCount + 1] - partTriInds[partID];
		segment.startIndex = partTriInds[partID] * 3;
		segment.numSubSegments = childCount;
		++partID;

		// Create new segment data record
		BSSITSSubSegmentDataRecord segmentDataRecord;
		segmentDataRecord.userSlotID = segmentIndex;
		segmentation.subSegmentData.arrayIndices.push_back(parentArrayIndex);
		segmentation.subSegmentData.dataRecords.push_back(segmentDataRecord);

		uint32_t subSegmentNumber = 1;
		for (const NifSubSegmentInfo& sub : seg.subs) {
			// Create new subsegment
			segment.subSegments.emplace_back();
			BSSITSSubSegment& subSegment = segment.subSegments.back();
			subSegment.arrayIndex = parentArrayIndex;
			subSegment.numPrimitives = partTriInds[partID + 1] - partTriInds[partID];
			subSegment.startIndex = partTriInds[partID] * 3;
			++partID;

			// Create new subsegment data record
			BSSITSSubSegmentDataRecord subSegmentDataRecord;
			if (sub.userSlotID < 30)
				subSegmentDataRecord.userSlotID = subSegmentNumber++;
			else
				subSegmentDataRecord.userSlotID = sub.userSlotID;

			subSegmentDataRecord.material = sub.material;
			subSegmentDataRecord.numData = static_cast<uint32_t>(sub.extraData.size());
			subSegmentDataRecord.extraData = sub.extraData;
			segmentation.subSegmentData.dataRecords.push_back(subSegmentDataRecord);
		}

		parentArrayIndex += childCount + 1;
		++segmentIndex;
	}

	segmentation.numPrimitives = numTris;
	segmentation.numSegments = segmentIndex;
	segmentation.numTotalSegments = parentArrayIndex;
	segmentation.subSegmentData.numSegments = segmentIndex;
	segmentation.subSegmentData.numTotalSegments = parentArrayIndex;
	segmentation.subSegmentData.ssfFile.get() = inf.ssfFile;
}


void BSMeshLODTriShape::Sync(NiStreamReversible& stream) {
	stream.Sync(lodSize0);
	stream.Sync(lodSize1);
	stream.Sync(lodSize2);
}

void BSMeshLODTriShape::notifyVerticesDelete(const std::vector<uint16_t>& vertIndices) {
	BSTriShape::notifyVerticesDelete(vertIndices);

	// Force full LOD (workaround)
	lodSize0 = 0;
	lodSize1 = 0;
	lodSize2 = numTriangles;
}


BSDynamicTriShape::BSDynamicTriShape() {
	vertexDesc.RemoveFlag(VF_VERTEX);
	vertexDesc.SetFlag(VF_FULLPREC);

	dynamicDataSize = 0;
}

void BSDynamicTriShape::Sync(NiStreamReversible& stream) {
	stream.Sync(dynamicDataSize);

	dynamicData.resize(numVertices);
	for (uint16_t i = 0; i < numVertices; i++)
		stream.Sync(dynamicData[i]);
}

void BSDynamicTriShape::notifyVerticesDelete(const std::vector<uint16_t>& vertIndices) {
	BSTriShape::notifyVerticesDelete(vertIndices);

	EraseVectorIndices(dynamicData, vertIndices);
	dynamicDataSize = static_cast<uint32_t>(dynamicData.size());
}

void BSDynamicTriShape::CalcDynamicData() {
	dynamicDataSize = numVertices * 16;

	dynamicData.resize(numVertices);
	for (uint16_t i = 0; i < numVertices; i++) {
		auto& vertex = vertData[i];
		dynamicData[i].x = vertex.vert.x;
		dynamicData[i].y = vertex.vert.y;
		dynamicData[i].z = vertex.vert.z;
		dynamicData[i].w = vertex.bitangentX;

		if (dynamicData[i].x > 0.0f)
			vertex.eyeData = 1.0f;
		else
			vertex.eyeData = 0.0f;
	}
}

void BSDynamicTriShape::Create(NiVersion& version,
							   const std::vector<Vector3>* verts,
							   const std::vector<Triangle>* tris,
							   const std::vector<Vector2>* uvs,
							   const std::vector<Vector3>* normals) {
	BSTriShape::Create(version, verts, tris, uvs, normals);

	constexpr uint32_t maxIndex = std::numeric_limits<uint32_t>::max();
	size_t vertCount = verts->size();
	if (vertCount > static_cast<size_t>(maxIndex))
		dynamicDataSize = maxIndex;
	else
		dynamicDataSize = uint32_t(vertCount);

	dynamicData.resize(dynamicDataSize);
	for (uint32_t i = 0; i < dynamicDataSize; i++) {
		dynamicData[i].x = (*verts)[i].x;
		dynamicData[i].y = (*verts)[i].y;
		dynamicData[i].z = (*verts)[i].z;
		dynamicData[i].w = 0.0f;
	}
}

void BSGeometryMeshData::Sync(NiStreamReversible& stream) {
	// verts, normals, vertcolors are always present, though it's possible the counts are 0
	SetVertices(true);
	SetNormals(true);
	SetTangents(true);
	SetVertexColors(true);

	stream.Sync(version);
	if (version > 2)
		return;

	stream.Sync(nTriIndices);
	tris.resize(nTriIndices / 3);
	for (uint32_t t = 0; t < nTriIndices / 3; t++)
		stream.Sync(tris[t]);

	stream.Sync(scale);
	if (scale <= 0.0f)
		return;

	stream.Sync(nWeightsPerVert);

	stream.Sync(nVertices);
	// maybe not a good idea to do the below, in case some meshes have over 65k verts, however since
	// triangles still use 16 bit indices, the total count must still fit under that limit ...
	numVertices = (uint16_t) nVertices;
	vertices.resize(nVertices);
	for (uint32_t v = 0; v < nVertices; v++) {
		if (stream.GetMode() == NiStreamReversible::Mode::Reading) {
			auto unpack = [&](const float posScale) -> float {
				int16_t val;
				stream.Sync(val);
				if (val < 0)
					return static_cast<float>((val / 32768.0) * scale * posScale);
				else
					return static_cast<float>((val / 32767.0) * scale * posScale);
			};

			vertices[v].x = unpack(havokScale);
			vertices[v].y = unpack(havokScale);
			vertices[v].z = unpack(havokScale);
		}
		else {
			auto pack = [&](float component, float posScale) {
				uint16_t factor;
				if (component < 0)
					factor = 32768;
				else
					factor = 32767;

				uint16_t val = (uint16_t) ((component / (scale * posScale)) * factor);
				stream.Sync(val);
			};

			pack(vertices[v].x, havokScale);
			pack(vertices[v].y, havokScale);
			pack(vertices[v].z, havokScale);
		}
	}

	stream.Sync(nUV1);
	if (nUV1 > 0)
		SetUVs(true);

	uvSets.resize(2);

	uvSets[0].resize(nUV1);
	for (uint32_t uv = 0; uv < nUV1; uv++) {
		stream.SyncHalf(uvSets[0][uv].u);
		stream.SyncHalf(uvSets[0][uv].v);
	}

	stream.Sync(nUV2);
	uvSets[1].resize(nUV2);
	for (uint32_t uv = 0; uv < nUV2; uv++) {
		stream.SyncHalf(uvSets[1][uv].u);
		stream.SyncHalf(uvSets[1][uv].v);
	}

	stream.Sync(nColors);
	vColors.resize(nColors);
	for (uint32_t c = 0; c < nColors; c++)
		stream.Sync(vColors[c]);

	stream.Sync(nNormals);
	normals.resize(nNormals);
	for (uint32_t n = 0; n < nNormals; n++)
		stream.SyncUDEC3(normals[n]);

	stream.Sync(nTangents);
	tangents.resize(nTangents);
	for (uint32_t t = 0; t < nTangents; t++) {
		stream.SyncUDEC3(tangents[t]);
		// need to calculate tangent basis and bitangents on read?
	}

	stream.Sync(nTotalWeights);
	if (nWeightsPerVert > 0)
		skinWeights.resize(nTotalWeights / nWeightsPerVert);

	for (auto& vw : skinWeights) {
		vw.resize(nWeightsPerVert);
		for (auto& bw : vw)
			stream.Sync(bw);
	}

	stream.Sync(nLODS);
	lods.resize(nLODS);
	for (auto& lod : lods) {
		uint32_t nLodTriIndices = static_cast<uint32_t>(lod.size() * 3);
		stream.Sync(nLodTriIndices);

		lod.resize(nLodTriIndices / 3);
		for (auto& lodTri : lod)
			stream.Sync(lodTri);
	}

	stream.Sync(nMeshlets);
	meshletList.resize(nMeshlets);
	for (auto& meshlet : meshletList) {
		stream.Sync(meshlet.vertCount);
		stream.Sync(meshlet.vertOffset);
		stream.Sync(meshlet.primCount);
		stream.Sync(meshlet.primOffset);
	}

	stream.Sync(nCullData);
	cullDataList.resize(nCullData);
	for (auto& cullData : cullDataList) {
		stream.Sync(cullData.center);
		stream.Sync(cullData.expand);
	}
}

void BSGeometryMesh::Sync(NiStreamReversible& stream) {
	stream.Sync(triSize);
	stream.Sync(numVerts);
	stream.Sync(flags);
	meshName.Sync(stream, 4);
}

void BSGeometry::Sync(NiStreamReversible& stream) {
	stream.Sync(bounds);

	for (float& i : boundMinMax)
		stream.Sync(i);

	skinInstanceRef.Sync(stream);
	shaderPropertyRef.Sync(stream);
	alphaPropertyRef.Sync(stream);

	if (stream.GetMode() == NiStreamReversible::Mode::Reading)
		meshes.clear();

	size_t meshCount = meshes.size();
	for (uint32_t i = 0; i < 4; i++) {
		uint8_t testByte = i < meshCount;
		stream.Sync(testByte);
		if (testByte) {
			if (stream.GetMode() == NiStreamReversible::Mode::Reading) {
				BSGeometryMesh mesh{};
				meshes.push_back(mesh);
			}
			meshes[i].Sync(stream);
		}
	}
}

void BSGeometry::GetChildRefs(std::set<NiRef*>& refs) {
	NiAVObject::GetChildRefs(refs);

	refs.insert(&skinInstanceRef);
	refs.insert(&shaderPropertyRef);
	refs.insert(&alphaPropertyRef);
}

void BSGeometry::GetChildIndices(std::vector<uint32_t>& indices) {
	NiAVObject::GetChildIndices(indices);

	indices.push_back(skinInstanceRef.index);
	indices.push_back(shaderPropertyRef.index);
	indices.push_back(alphaPropertyRef.index);
}


NiGeometryData* BSGeometry::GetGeomData() const {
	if (meshes.size() > selectedMesh) {
		// Breaking const correctness here to cast to the desired level of the class heirarchy.
		//   Perhaps NiShape GetGeomData should return a const* or it shouldn't be a const function? 
		return dynamic_cast<NiGeometryData*>(const_cast<BSGeometryMeshData*>(&meshes[selectedMesh].meshData));
	}
	return nullptr;
}


bool BSGeometry::GetTriangles(std::vector<Triangle>& tris) const {
	if (meshes.size() > selectedMesh) {
		tris = meshes[selectedMesh].meshData.tris;
		return true;
	}

	return false;
}

void BSGeometry::SetTriangles(const std::vector<Triangle>& tris) {
	if (meshes.size() > selectedMesh) {
		meshes[selectedMesh].meshData.tris = tris;
	}
}


void NiGeometry::Sync(NiStreamReversible& stream) {
	dataRef.Sync(stream);
	skinInstanceRef.Sync(stream);

	if (stream.GetVersion().File() >= V20_2_0_5) {
		uint32_t numMaterials = materialNames.Sync(stream);
		materialExtraData.SyncData(stream, numMaterials);

		stream.Sync(activeMaterial);
	}
	else {
		stream.Sync(shader);

		if (shader) {
			shaderName.Sync(stream);
			stream.Sync(implementation);
		}
	}

	if (stream.GetVersion().File() >= V20_2_0_7)
		stream.Sync(defaultMatNeedsUpdateFlag);

	if (stream.GetVersion().Stream() > 34) {
		shaderPropertyRef.Sync(stream);
		alphaPropertyRef.Sync(stream);
	}
}

void NiGeometry::GetStringRefs(std::vector<NiStringRef*>& refs) {
	NiAVObject::GetStringRefs(refs);

	for (auto& mn : materialNames)
		refs.emplace_back(&mn);
}

void NiGeometry::GetChildRefs(std::set<NiRef*>& refs) {
	NiAVObject::GetChildRefs(refs);

	refs.insert(&dataRef);
	refs.insert(&skinInstanceRef);
	refs.insert(&shaderPropertyRef);
	refs.insert(&alphaPropertyRef);
}

void NiGeometry::GetChildIndices(std::vector<uint32_t>& indices) {
	NiAVObject::GetChildIndices(indices);

	indices.push_back(dataRef.index);
	indices.push_back(skinInstanceRef.index);
	indices.push_back(shaderPropertyRef.index);
	indices.push_back(alphaPropertyRef.index);
}

bool NiGeometry::IsSkinned() const {
	return !skinInstanceRef.IsEmpty();
}


void NiTriBasedGeomData::Sync(NiStreamReversible& stream) {
	stream.Sync(numTriangles);
}

void NiTriBasedGeomData::Create(NiVersion& version,
								const std::vector<Vector3>* verts,
								const std::vector<Triangle>* inTris,
								const std::vector<Vector2>* uvs,
								const std::vector<Vector3>* norms) {
	NiGeometryData::Create(version, verts, inTris, uvs, norms);

	if (inTris) {
		constexpr uint16_t maxIndex = std::numeric_limits<uint16_t>::max();
		size_t triCount = inTris ? inTris->size() : 0;

		if (numVertices == 0)
			numTriangles = 0;
		else if (triCount > static_cast<size_t>(maxIndex))
			numTriangles = maxIndex;
		else
			numTriangles = uint16_t(triCount);
	}
}


void NiTriShapeData::Sync(NiStreamReversible& stream) {
	stream.Sync(numTrianglePoints);
	stream.Sync(hasTriangles);

	if (hasTriangles) {
		triangles.resize(numTriangles);
		for (uint32_t i = 0; i < numTriangles; i++)
			stream.Sync(triangles[i]);
	}

	stream.Sync(numMatchGroups);
	matchGroups.resize(numMatchGroups);

	for (uint32_t i = 0; i < numMatchGroups; i++) {
		auto& mg = matchGroups[i];

		stream.Sync(mg.count);
		mg.matches.resize(mg.count);

		for (uint32_t j = 0; j < mg.count; j++)
			stream.Sync(mg.matches[j]);
	}

	// Not supported yet, so clear it again after reading
	// (match groups set through SetMatchGroups stay in place when the block is written)
	if (stream.GetMode() == NiStreamReversible::Mode::Reading) {
		matchGroups.clear();
		numMatchGroups = 0;
	}
}

void NiTriShapeData::Create(NiVersion& version,
							const std::vector<Vector3>* verts,
							const std::vector<Triangle>* inTris,
							const std::vector<Vector2>* uvs,
							const std::vector<Vector3>* norms) {
	NiTriBasedGeomData::Create(version, verts, inTris, uvs, norms);

	if (numTriangles > 0) {
		numTrianglePoints = numTriangles * 3;
		hasTriangles = true;
	}
	else {
		numTrianglePoints = 0;
		hasTriangles = false;
	}

	if (inTris) {
		triangles.resize(numTriangles);
		for (uint16_t t = 0; t < numTriangles; t++)
			triangles[t] = (*inTris)[t];
	}

	numMatchGroups = 0;

	// Calculate again, now with triangles
	CalcTangentSpace();
}

void NiTriShapeData::notifyVerticesDelete(const std::vector<uint16_t>& vertIndices) {
	std::vector<int> indexCollapse = GenerateIndexCollapseMap(vertIndices, vertices.size());
	ApplyMapToTriangles(triangles, indexCollapse);
	numTriangles = static_cast<uint16_t>(triangles.size());
	numTrianglePoints = 3 * numTriangles;

	NiTriBasedGeomData::notifyVerticesDelete(vertIndices);
}

std::vector<MatchGroup> NiTriShapeData::GetMatchGroups() const {
	return matchGroups;
}

void NiTriShapeData::SetMatchGroups(const std::vector<MatchGroup>& mg) {
	matchGroups = mg;
	numMatchGroups = static_cast<uint16_t>(matchGroups.size());
}

uint32_t NiTriShapeData::GetNumTriangles() const {
	return numTriangles;
}

bool NiTriShapeData::GetTriangles(std::vector<Triangle>& tris) const {
	tris = triangles;
	return hasTriangles;
}

void NiTriShapeData::SetTriangles(const std::vector<Triangle>& tris) {
	hasTriangles = true;
	triangles = tris;
	numTriangles = static_cast<uint16_t>(triangles.size());
	numTrianglePoints = numTriangles * 3;
}

void NiTriShapeData::RecalcNormals(const bool smooth,
								   const float smoothThresh,
								   std::unordered_set<uint32_t>* lockedIndices) {
	if (!HasNormals())
		return;

	NiTriBasedGeomData::RecalcNormals();

	CalculateNormals(vertices, triangles, normals, smooth, smoothThresh, lockedIndices);
}

void NiTriShapeData::CalcTangentSpace() {
	if (!HasNormals() || !HasUVs())
		return;

	NiTriBasedGeomData::CalcTangentSpace();

	std::vector<Vector3> tan1;
	std::vector<Vector3> tan2;
	tan1.resize(numVertices);
	tan2.resize(numVertices);

	for (uint32_t i = 0; i < numTriangles; i++) {
		int i1 = triangles[i].p1;
		int i2 = triangles[i].p2;
		int i3 = triangles[i].p3;

		if (i1 >= numVertices || i2 >= numVertices || i3 >= numVertices)
			continue;

		Vector3 v1 = vertices[i1];
		Vector3 v2 = vertices[i2];
		Vector3 v3 = vertices[i3];

		Vector2 w1 = uvSets[0][i1];
		Vector2 w2 = uvSets[0][i2];
		Vector2 w3 = uvSets[0][i3];

		float x1 = v2.x - v1.x;
		float x2 = v3.x - v1.x;
		float y1 = v2.y - v1.y;
		float y2 = v3.y - v1.y;
		float z1 = v2.z - v1.z;
		float z2 = v3.z - v1.z;

		float s1 = w2.u - w1.u;
		float s2 = w3.u - w1.u;
		float t1 = w2.v - w1.v;
		float t2 = w3.v - w1.v;

		float r = (s1 * t2 - s2 * t1);
		r = (r >= 0.0f ? +1.0f : -1.0f);

		Vector3 sdir = Vector3((t2 * x1 - t1 * x2) * r, (t2 * y1 - t1 * y2) * r, (t2 * z1 - t1 * z2) * r);
		Vector3 tdir = Vector3((s1 * x2 - s2 * x1) * r, (s1 * y2 - s2 * y1) * r, (s1 * z2 - s2 * z1) * r);

		sdir.Normalize();
		tdir.Normalize();

		tan1[i1] += sdir;
		tan1[i2] += sdir;
		tan1[i3] += sdir;

		tan2[i1] += tdir;
		tan2[i2] += tdir;
		tan2[i3] += tdir;
	}

	for (uint16_t i = 0; i < numVertices; i++) {
		bitangents[i] = tan1[i];
		tangents[i] = tan2[i];

		if (tangents[i].IsZero() || bitangents[i].IsZero()) {
			tangents[i].x = normals[i].y;
			tangents[i].y = normals[i].z;
			tangents[i].z = normals[i].x;
			bitangents[i] = normals[i].cross(tangents[i]);
		}
		else {
			tangents[i].Normalize();
			tangents[i] = (tangents[i] - normals[i] * normals[i].dot(tangents[i]));
			tangents[i].Normalize();

			bitangents[i].Normalize();

			bitangents[i] = (bitangents[i] - normals[i] * normals[i].dot(bitangents[i]));
			bitangents[i] = (bitangents[i] - tangents[i] * tangents[i].dot(bitangents[i]));

			bitangents[i].Normalize();
		}
	}
}


NiGeometryData* NiTriShape::GetGeomData() const {
	return shapeData;
};

void NiTriShape::SetGeomData(NiGeometryData* geomDataPtr) {
	// Also clears the cached pointer when the data block is gone or of another type
	shapeData = dynamic_cast<NiTriShapeData*>(geomDataPtr);
}


void StripsInfo::Sync(NiStreamReversible& stream) {
	stripLengths.Sync(stream);

	if (stream.GetVersion().File() >= NiFileVersion::V10_0_1_3)
		stream.Sync(hasPoints);
	else
		hasPoints = true;

	if (hasPoints) {
		points.resize(stripLengths.size());
		for (uint16_t i = 0; i < stripLengths.size(); i++) {
			points[i].resize(stripLengths[i]);
			for (uint16_t j = 0; j < stripLengths[i]; j++)
				stream.Sync(points[i][j]);
		}
	}
}


void NiTriStripsData::Sync(NiStreamReversible& stream) {
	stripsInfo.Sync(stream);
}

void NiTriStripsData::notifyVerticesDelete(const std::vector<uint16_t>& vertIndices) {
	std::vector<int> indexCollapse = GenerateIndexCollapseMap(vertIndices, vertices.size());

	NiTriBasedGeomData::notifyVerticesDelete(vertIndices);

	// This is not a healthy way to delete strip data. Probably need to restrip the shape.
	for (uint16_t i = 0; i < stripsInfo.stripLengths.size(); i++) {
		for (uint16_t j = 0; j < stripsInfo.stripLengths[i]; j++) {
			if (indexCollapse[stripsInfo.points[i][j]] == -1) {
				stripsInfo.points[i].erase(stripsInfo.points[i].begin() + j);
				stripsInfo.stripLengths[i]--;
				--j;
			}
			else
				stripsInfo.points[i][j] = static_cast<uint16_t>(indexCollapse[stripsInfo.points[i][j]]);
		}
	}

	numTriangles = 0;
	for (auto len : stripsInfo.stripLengths)
		if (len - 2 > 0)
			numTriangles += len - 2;
}

uint32_t NiTriStripsData::GetNumTriangles() const {
	return static_cast<uint32_t>(StripsToTris().size());
}

bool NiTriStripsData::GetTriangles(std::vector<Triangle>& tris) const {
	tris = StripsToTris();
	return stripsInfo.hasPoints;
}

void NiTriStripsData::SetTriangles(const std::vector<Triangle>& /*tris*/) {
	// Not implemented, stripify here
}

std::vector<Triangle> NiTriStripsData::StripsToTris() const {
	return GenerateTrianglesFromStrips(stripsInfo.points);
}

void NiTriStripsData::RecalcNormals(const bool smooth,
									const float smoothThresh,
									std::unordered_set<uint32_t>* lockedIndices) {
	if (!HasNormals())
		return;

	NiTriBasedGeomData::RecalcNormals();

	std::vector<Triangle> tris = StripsToTris();

	CalculateNormals(vertices, tris, normals, smooth, smoothThresh, lockedIndices);
}

void NiTriStripsData::CalcTangentSpace() {
	if (!HasNormals() || !HasUVs())
		return;

	NiTriBasedGeomData::CalcTangentSpace();

	std::vector<Vector3> tan1;
	std::vector<Vector3> tan2;
	tan1.resize(numVertices);
	tan2.resize(numVertices);

	std::vector<Triangle> tris = StripsToTris();

	for (auto& tri : tris) {
		int i1 = tri.p1;
		int i2 = tri.p2;
		int i3 = tri.p3;

		if (i1 >= numVertices || i2 >= numVertices || i3 >= numVertices)
			continue;

		Vector3 v1 = vertices[i1];
		Vector3 v2 = vertices[i2];
		Vector3 v3 = vertices[i3];

		Vector2 w1 = uvSets[0][i1];
		Vector2 w2 = uvSets[0][i2];
		Vector2 w3 = uvSets[0][i3];

		float x1 = v2.x - v1.x;
		float x2 = v3.x - v1.x;
		float y1 = v2.y - v1.y;
		float y2 = v3.y - v1.y;
		float z1 = v2.z - v1.z;
		float z2 = v3.z - v1.z;

		float s1 = w2.u - w1.u;
		float s2 = w3.u - w1.u;
		float t1 = w2.v - w1.v;
		float t2 = w3.v - w1.v;

		float r = (s1 * t2 - s2 * t1);
		r = (r >= 0.0f ? +1.0f : -1.0f);

		Vector3 sdir = Vector3((t2 * x1 - t1 * x2) * r, (t2 * y1 - t1 * y2) * r, (t2 * z1 - t1 * z2) * r);
		Vector3 tdir = Vector3((s1 * x2 - s2 * x1) * r, (s1 * y2 - s2 * y1) * r, (s1 * z2 - s2 * z1) * r);

		sdir.Normalize();
		tdir.Normalize();

		tan1[i1] += sdir;
		tan1[i2] += sdir;
		tan1[i3] += sdir;

		tan2[i1] += tdir;
		tan2[i2] += tdir;
		tan2[i3] += tdir;
	}

	for (uint16_t i = 0; i < numVertices; i++) {
		bitangents[i] = tan1[i];
		tangents[i] = tan2[i];

		if (tangents[i].IsZero() || bitangents[i].IsZero()) {
			tangents[i].x = normals[i].y;
			tangents[i].y = normals[i].z;
			tangents[i].z = normals[i].x;
			bitangents[i] = normals[i].cross(tangents[i]);
		}
		else {
			tangents[i].Normalize();
			tangents[i] = (tangents[i] - normals[i] * normals[i].dot(tangents[i]));
			tangents[i].Normalize();

			bitangents[i].Normalize();

			bitangents[i] = (bitangents[i] - normals[i] * normals[i].dot(bitangents[i]));
			bitangents[i] = (bitangents[i] - tangents[i] * tangents[i].dot(bitangents[i]));

			bitangents[i].Normalize();
		}
	}
}


NiGeometryData* NiTriStrips::GetGeomData() const {
	return stripsData;
};

void NiTriStrips::SetGeomData(NiGeometryData* geomDataPtr) {
	// Also clears the cached pointer when the data block is gone or of another type
	stripsData = dynamic_cast<NiTriStripsData*>(geomDataPtr);
}


void NiLinesData::Sync(NiStreamReversible& stream) {
	lineFlags.resize(numVertices);
	for (uint16_t i = 0; i < numVertices; i++)
		stream.Sync(lineFlags[i]);
}

void NiLinesData::notifyVerticesDelete(const std::vector<uint16_t>& vertIndices) {
	NiGeometryData::notifyVerticesDelete(vertIndices);

	EraseVectorIndices(lineFlags, vertIndices);
}


NiGeometryData* NiLines::GetGeomData() const {
	return linesData;
}

void NiLines::SetGeomData(NiGeometryData* geomDataPtr) {
	// Also clears the cached pointer when the data block is gone or of another type
	linesData = dynamic_cast<NiLinesData*>(geomDataPtr);
}


void NiScreenElementsData::Sync(NiStreamReversible& stream) {
	stream.Sync(maxPolygons);
	polygons.resize(maxPolygons);
	for (uint32_t i = 0; i < maxPolygons; i++)
		stream.Sync(polygons[i]);

	polygonIndices.resize(maxPolygons);
	for (uint32_t i = 0; i < maxPolygons; i++)
		stream.Sync(polygonIndices[i]);

	stream.Sync(polygonGrowBy);
	stream.Sync(numPolygons);
	stream.Sync(maxVertices);
	stream.Sync(verticesGrowBy);
	stream.Sync(maxIndices);
	stream.Sync(indicesGrowBy);
}

void NiScreenElementsData::notifyVerticesDelete(const std::vector<uint16_t>& vertIndices) {
	NiTriShapeData::notifyVerticesDelete(vertIndices);

	// Clearing as workaround
	maxPolygons = 0;
	polygons.clear();
	polygonIndices.clear();
	numPolygons = 0;
	maxVertices = 0;
	maxIndices = 0;
}


NiGeometryData* NiScreenElements::GetGeomData() const {
	return elemData;
}

void NiScreenElements::SetGeomData(NiGeometryData* geomDataPtr) {
	// Also clears the cached pointer when the data block is gone or of another type
	elemData = dynamic_cast<NiScreenElementsData*>(geomDataPtr);
}


void BSLODTriShape::Sync(NiStreamReversible& stream) {
	stream.Sync(level0);
	stream.Sync(level1);
	stream.Sync(level2);
}

NiGeometryData* BSLODTriShape::GetGeomData() const {
	return shapeData;
}

void BSLODTriShape::SetGeomData(NiGeometryData* geomDataPtr) {
	// Also clears the cached pointer when the data block is gone or of another type
	shapeData = dynamic_cast<NiTriShapeData*>(geomDataPtr);
}


void BSGeometrySegmentData::Sync(NiStreamReversible& stream) {
	stream.Sync(flags);
	stream.Sync(index);
	stream.Sync(numTris);
}


void BSSegmentedTriShape::Sync(NiStreamReversible& stream) {
	stream.Sync(numSegments);
	segments.resize(numSegments);

	for (auto& segment : segments)
		segment.Sync(stream);
}

std::vector<BSGeometrySegmentData> BSSegmentedTriShape::GetSegments() const {
	return segments;
}

void BSSegmentedTriShape::SetSegments(const std::vector<BSGeometrySegmentData>& sd) {
	segments = sd;
	numSegments = static_cast<uint32_t>(segments.size());
}
