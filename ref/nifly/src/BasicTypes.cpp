/*
nifly
C++ NIF library for the Gamebryo/NetImmerse File Format
See the included GPLv3 LICENSE file
*/

#include "BasicTypes.hpp"
#include "NifUtil.hpp"

#include <array>
#include <regex>

using namespace nifly;

#ifdef NIFLY_VERIF
nifly::verif::Hooks* nifly::verif::g_hooks = nullptr;

__attribute__((noinline)) void nifly::verif::Announce(int kind, size_t width) {
	if (width != 0 && g_hooks && g_hooks->announce) {
		auto a = reinterpret_cast<uintptr_t>(__builtin_return_address(0));
		auto b = reinterpret_cast<uintptr_t>(__builtin_return_address(1));
		g_hooks->announce(g_hooks->ctx, kind, width, reinterpret_cast<const void*>(a * 1000003u ^ b));
	}
}
#endif

static const std::string NIF_GAMEBRYO = "Gamebryo File Format";
static const std::string NIF_NETIMMERSE = "NetImmerse File Format";
static const std::string NIF_NDS = "NDSNIF....@....@....";
static const std::string NIF_VERSTRING = ", Version ";

NiVersion::NiVersion(NiFileVersion _file, uint32_t _user, uint32_t _stream)
	: user(_user)
	, stream(_stream) {
	SetFile(_file);
}

std::string NiVersion::GetVersionInfo() const {
	return vstr + "\nUser Version: " + std::to_string(user) + "\nStream Version: " + std::to_string(stream);
}

void NiVersion::SetFile(NiFileVersion fileVer) {
	std::vector<uint8_t> verArr = ToArray(fileVer);
	std::string verNum;

	if (fileVer > V3_1) {
		verNum = std::to_string(verArr[0]) + '.' + std::to_string(verArr[1]) + '.' + std::to_string(verArr[2])
				 + '.' + std::to_string(verArr[3]);
	}
	else {
		verNum = std::to_string(verArr[0]) + '.' + std::to_string(verArr[1]);
	}

	if (nds != 0)
		vstr = NIF_NDS;
	else if (fileVer < V10_0_0_0)
		vstr = NIF_NETIMMERSE;
	else
		vstr = NIF_GAMEBRYO;

	vstr += NIF_VERSTRING;
	vstr += verNum;

	file = fileVer;
}


void NiString::Read(NiIStream& stream, const int szSize) {
	std::unique_ptr<char[]> buf;

	if (szSize == 1) {
		uint8_t smSize = 0;
#ifdef NIFLY_VERIF
		NIFLY_VERIF_ANNOUNCE(verif::K_STRLEN, 1);
#endif
		stream >> smSize;
#ifdef NIFLY_VERIF
		NIFLY_VERIF_ANNOUNCE(verif::K_STRDATA, smSize);
#endif

		buf = std::make_unique<char[]>(smSize + 1);
		stream.read(buf.get(), smSize);
		buf[smSize] = 0;
	}
	else if (szSize == 2) {
		uint16_t medSize = 0;
#ifdef NIFLY_VERIF
		NIFLY_VERIF_ANNOUNCE(verif::K_STRLEN, 2);
#endif
		stream >> medSize;
#ifdef NIFLY_VERIF
		NIFLY_VERIF_ANNOUNCE(verif::K_STRDATA, medSize);
#endif

		buf = std::make_unique<char[]>(medSize + 1);
		stream.read(buf.get(), medSize);
		buf[medSize] = 0;
	}
	else if (szSize == 4) {
		uint32_t bigSize = 0;
#ifdef NIFLY_VERIF
		NIFLY_VERIF_ANNOUNCE(verif::K_STRLEN, 4);
#endif
		stream >> bigSize;
#ifdef NIFLY_VERIF
		NIFLY_VERIF_ANNOUNCE(verif::K_STRDATA, bigSize);
#endif

		buf = std::make_unique<char[]>(bigSize + 1);
		stream.read(buf.get(), bigSize);
		buf[bigSize] = 0;
	}
	else
		return;

	str = buf.get();
}

void NiString::Write(NiOStream& stream, const int szSize) {
	if (szSize == 1) {
		// The length byte also counts the terminator of a null-terminated string
		const size_t maxLength = nullOutput ? 254 : 255;
		if (str.length() > maxLength)
			str.resize(maxLength);

		auto sz = uint8_t(str.length());

		if (nullOutput)
			sz += 1;

		stream << sz;
	}
	else if (szSize == 2) {
		auto sz = uint16_t(str.length());
		str.resize(sz);

		if (nullOutput)
			sz += 1;

		stream << sz;
	}
	else if (szSize == 4) {
		auto sz = uint32_t(str.length());
		str.resize(sz);

		if (nullOutput)
			sz += 1;

		stream << sz;
	}

	stream.write(str.c_str(), str.length());
	if (nullOutput)
		stream << uint8_t(0);
}


void NiStringRef::Read(NiIStream& stream) {
#ifdef NIFLY_VERIF
	if (verif::g_hooks && verif::g_hooks->on_strref)
		verif::g_hooks->on_strref(verif::g_hooks->ctx, this, false);
#endif
	if (stream.GetVersion().File() < V20_1_0_3) {
		std::array<char, 2048 + 1> buf{};

		uint32_t sz = 0;
#ifdef NIFLY_VERIF
		NIFLY_VERIF_ANNOUNCE(verif::K_STRLEN, 4);
#endif
		stream >> sz;
#ifdef NIFLY_VERIF
		if (sz < buf.size())
			NIFLY_VERIF_ANNOUNCE(verif::K_STRDATA, sz);
#endif

		if (sz < buf.size())
			stream.read(buf.data(), sz);
		else
			sz = static_cast<uint32_t>(buf.size() - 1);

		buf[sz] = 0;
		str = buf.data();
	}
#ifdef NIFLY_VERIF
	else {
		NIFLY_VERIF_ANNOUNCE(verif::K_STRIDX, 4);
		stream >> index;
	}
#else
	else
		stream >> index;
#endif
}

void NiStringRef::Write(NiOStream& stream) {
#ifdef NIFLY_VERIF
	if (verif::g_hooks && verif::g_hooks->on_strref)
		verif::g_hooks->on_strref(verif::g_hooks->ctx, this, true);
#endif
	if (stream.GetVersion().File() < V20_1_0_3) {
		auto sz = uint32_t(str.length());
		str.resize(sz);

#ifdef NIFLY_VERIF
		NIFLY_VERIF_ANNOUNCE(verif::K_STRLEN, 4);
#endif
		stream << sz;
#ifdef NIFLY_VERIF
		NIFLY_VERIF_ANNOUNCE(verif::K_STRDATA, str.length());
#endif
		stream.write(str.c_str(), str.length());
	}
#ifdef NIFLY_VERIF
	else {
		NIFLY_VERIF_ANNOUNCE(verif::K_STRIDX, 4);
		stream << index;
	}
#else
	else
		stream << index;
#endif
}


void NiHeader::Clear() {
	numBlockTypes = 0;
	numStrings = 0;
	numBlocks = 0;
	blocks = nullptr;
	blockTypes.clear();
	blockTypeIndices.clear();
	blockSizes.clear();
	strings.clear();
}

std::string NiHeader::GetCreatorInfo() const {
	return creator.get();
}

void NiHeader::SetCreatorInfo(const std::string& creatorInfo) {
	creator.get() = creatorInfo;
}

std::string NiHeader::GetExportInfo() const {
	std::string exportInfo = exportInfo1.get();

	if (exportInfo2.length() > 0) {
		exportInfo.append("\n");
		exportInfo.append(exportInfo2.get());
	}

	if (exportInfo3.length() > 0) {
		exportInfo.append("\n");
		exportInfo.append(exportInfo3.get());
	}

	return exportInfo;
}

void NiHeader::SetExportInfo(const std::string& exportInfo) {
	exportInfo1.clear();
	exportInfo2.clear();
	exportInfo3.clear();

	std::vector<NiString*> exportStrings(3);
	exportStrings[0] = &exportInfo1;
	exportStrings[1] = &exportInfo2;
	exportStrings[2] = &exportInfo3;

	auto it = exportStrings.begin();
	for (size_t i = 0; i < exportInfo.length() && it < exportStrings.end(); i += 254, ++it) {
		if (i + 254 <= exportInfo.length())
			(*it)->get() = exportInfo.substr(i, 254);
		else
			(*it)->get() = exportInfo.substr(i, exportInfo.length() - i);
	}
}

uint32_t NiHeader::GetBlockID(NiObject* block) const {
	auto it = find_if(*blocks, [&block](const auto& ptr) { return ptr.get() == block; });

	if (it != blocks->end())
		return static_cast<uint32_t>(std::distance(blocks->begin(), it));

	return NIF_NPOS;
}

void NiHeader::DeleteBlock(const uint32_t blockId) {
	if (blockId == NIF_NPOS)
		return;

	uint16_t blockTypeId = blockTypeIndices[blockId];
	int blockTypeRefCount = 0;
	for (uint16_t blockTypeIndice : blockTypeIndices)
		if (blockTypeIndice == blockTypeId)
			blockTypeRefCount++;

	if (blockTypeRefCount < 2) {
		blockTypes.erase(blockTypes.begin() + blockTypeId);
		numBlockTypes--;
		for (uint16_t& blockTypeIndice : blockTypeIndices)
			if (blockTypeIndice > blockTypeId)
				blockTypeIndice--;
	}

	blockTypeIndices.erase(blockTypeIndices.begin() + blockId);

	if (version.File() >= V20_2_0_5)
		blockSizes.erase(blockSizes.begin() + blockId);

	blocks->erase(blocks->begin() + blockId);
	numBlocks--;

	// Next tell all the blocks that the deletion happened
	for (auto& b : (*blocks))
		BlockDeleted(b.get(), blockId);
}

void NiHeader::DeleteBlock(const NiRef& blockRef) {
	DeleteBlock(blockRef.index);
}

void NiHeader::DeleteBlockByType(const std::string& blockTypeStr, const bool orphanedOnly) {
	uint16_t blockTypeId = 0;
	for (blockTypeId = 0; blockTypeId < numBlockTypes; blockTypeId++)
		if (blockTypes[blockTypeId].get() == blockTypeStr)
			break;

	if (blockTypeId == numBlockTypes)
		return;

	std::vector<int> indices;
	for (uint32_t i = 0; i < numBlocks; i++)
		if (blockTypeIndices[i] == blockTypeId)
			indices.push_back(i);

	for (uint32_t j = static_cast<uint32_t>(indices.size()) - 1; j != NIF_NPOS; j--)
		if (!orphanedOnly || !IsBlockReferenced(indices[j]))
			DeleteBlock(indices[j]);
}

uint32_t NiHeader::AddBlock(std::unique_ptr<NiObject> newBlock) {
	uint16_t btID = AddOrFindBlockTypeId(newBlock->GetBlockName());
	blockTypeIndices.push_back(btID);

	if (version.File() >= V20_2_0_5)
		blockSizes.push_back(0);

	blocks->emplace_back(std::move(newBlock));
	numBlocks++;
	return numBlocks - 1;
}

uint32_t NiHeader::ReplaceBlock(const uint32_t oldBlockId, std::unique_ptr<NiObject> newBlock) {
	if (oldBlockId == NIF_NPOS)
		return NIF_NPOS;

	uint16_t blockTypeId = blockTypeIndices[oldBlockId];
	int blockTypeRefCount = 0;
	for (uint16_t blockTypeIndice : blockTypeIndices)
		if (blockTypeIndice == blockTypeId)
			blockTypeRefCount++;

	if (blockTypeRefCount < 2) {
		blockTypes.erase(blockTypes.begin() + blockTypeId);
		numBlockTypes--;
		for (uint16_t& blockTypeIndice : blockTypeIndices)
			if (blockTypeIndice > blockTypeId)
				blockTypeIndice--;
	}

	uint16_t btID = AddOrFindBlockTypeId(newBlock->GetBlockName());
	blockTypeIndices[oldBlockId] = btID;

	if (version.File() >= V20_2_0_5)
		blockSizes[oldBlockId] = 0;

	(*blocks)[oldBlockId].swap(newBlock);
	return oldBlockId;
}

void NiHeader::SetBlockOrder(std::vector<uint32_t>& newOrder) {
	if (newOrder.size() != numBlocks)
		return;

	std::vector<uint16_t> newBlockTypeIndices(blockTypeIndices.size());
	std::vector<std::unique_ptr<NiObject>> newBlocks(blocks->size());

	for (uint32_t i = 0; i < numBlocks; i++) {
		newBlockTypeIndices[newOrder[i]] = blockTypeIndices[i];
		newBlocks[newOrder[i]] = std::move(blocks->at(i));
	}

	if (version.File() >= V20_2_0_5) {
		std::vector<uint32_t> newBlockSizes(blockSizes.size());

		for (uint32_t i = 0; i < numBlocks; i++)
			newBlockSizes[newOrder[i]] = blockSizes[i];

		blockSizes = std::move(newBlockSizes);
	}

	blockTypeIndices = std::move(newBlockTypeIndices);
	(*blocks) = std::move(newBlocks);

	for (auto& b : (*blocks)) {
		std::set<NiRef*> refs;
		b->GetChildRefs(refs);

		for (auto& r : refs) {
			if (!r->IsEmpty() && r->index < newOrder.size())
				r->index = newOrder[r->index];
		}

		std::set<NiRef*> ptrs;
		b->GetPtrs(ptrs);

		for (auto& p : ptrs) {
			if (!p->IsEmpty() && p->index < newOrder.size())
				p->index = newOrder[p->index];
		}
	}
}

bool NiHeader::IsBlockReferenced(const uint32_t blockId, bool includePtrs) {
	if (blockId == NIF_NPOS)
		return false;

	for (auto& block : (*blocks)) {
		std::set<NiRef*> refs;
		block->GetChildRefs(refs);

		if (includePtrs)
			block->GetPtrs(refs);

		for (auto& ref : refs)
			if (ref->index == blockId)
				return true;
	}

	return false;
}

int NiHeader::GetBlockRefCount(const uint32_t blockId, bool includePtrs) {
	if (blockId == NIF_NPOS)
		return 0;

	int refCount = 0;

	for (auto& block : (*blocks)) {
		std::set<NiRef*> refs;
		block->GetChildRefs(refs);

		if (includePtrs)
			block->GetPtrs(refs);

		for (auto& ref : refs)
			if (ref->index == blockId)
				refCount++;
	}

	return refCount;
}

uint16_t NiHeader::AddOrFindBlockTypeId(const std::string& blockTypeName) {
	NiString niStr;
	auto typeId = static_cast<uint16_t>(blockTypes.size());
	for (uint16_t i = 0; i < typeId; i++) {
		if (blockTypes[i].get() == blockTypeName) {
			typeId = i;
			break;
		}
	}

	// Shader block type not found, add it
	if (typeId == blockTypes.size()) {
		niStr.get() = blockTypeName;
		blockTypes.push_back(niStr);
		numBlockTypes++;
	}
	return typeId;
}

std::string NiHeader::GetBlockTypeStringById(const uint32_t blockId) const {
	if (blockId != NIF_NPOS && blockId < numBlocks) {
		uint16_t typeIndex = blockTypeIndices[blockId];
		if (typeIndex < numBlockTypes)
			return blockTypes[typeIndex].get();
	}

	return std::string();
}

uint16_t NiHeader::GetBlockTypeIndex(const uint32_t blockId) const {
	if (blockId != NIF_NPOS && blockId < numBlocks)
		return blockTypeIndices[blockId];

	return 0xFFFF;
}

uint32_t NiHeader::GetBlockSize(const uint32_t blockId) const {
	if (blockId < numBlocks && blockSizes.size() > blockId)
		return blockSizes[blockId];

	return NIF_NPOS;
}

std::streampos NiHeader::GetBlockSizeStreamPos() const {
	return blockSizePos;
}

void NiHeader::ResetBlockSizeStreamPos() {
	blockSizePos = std::streampos();
}

uint32_t NiHeader::GetStringCount() const {
	return static_cast<uint32_t>(strings.size());
}

uint32_t NiHeader::FindStringId(const std::string& str) const {
	for (uint32_t i = 0; i < numStrings; i++)
		if (strings[i].get() == str)
			return i;

	return NIF_NPOS;
}

uint32_t NiHeader::AddOrFindStringId(const std::string& str, const bool addEmpty) {
	for (uint32_t i = 0; i < numStrings; i++)
		if (strings[i].get() == str)
			return i;

	if (!addEmpty && str.empty())
		return NIF_NPOS;

	constexpr auto maxStringCount = std::numeric_limits<uint32_t>::max();
	if (strings.size() >= static_cast<size_t>(maxStringCount))
		return NIF_NPOS;

	NiString niStr(str);
	strings.push_back(std::move(niStr));
	numStrings++;

	return numStrings - 1;
}

std::string NiHeader::GetStringById(const uint32_t id) const {
	if (id != NIF_NPOS && id < numStrings)
		return strings[id].get();

	return std::string();
}

void NiHeader::SetStringById(const uint32_t id, const std::string& str) {
	if (id != NIF_NPOS && id < numStrings)
		strings[id].get() = str;
}

void NiHeader::ClearStrings() {
	strings.clear();
	numStrings = 0;
	maxStringLen = 0;
}

void NiHeader::UpdateMaxStringLength() {
	maxStringLen = 0;
	for (auto& s : strings) {
		auto len = static_cast<uint32_t>(s.length());
		if (maxStringLen < len)
			maxStringLen = len;
	}
}

void NiHeader::FillStringRefs() {
	if (version.File() < V20_1_0_1)
		return;

	for (auto& b : (*blocks)) {
		std::vector<NiStringRef*> stringRefs;
		b->GetStringRefs(stringRefs);

		for (auto& r : stringRefs) {
			uint32_t stringId = r->GetIndex();

			// Check if string index is overflowing
			if (stringId != NIF_NPOS && stringId >= numStrings) {
				stringId -= numStrings;
				r->SetIndex(stringId);
			}

			std::string str = GetStringById(stringId);
			r->get() = str;
		}
	}
}

void NiHeader::UpdateHeaderStrings(const bool hasUnknown) {
	if (!hasUnknown)
		ClearStrings();

	if (version.File() < V20_1_0_1)
		return;

	for (auto& b : (*blocks)) {
		std::vector<NiStringRef*> stringRefs;
		b->GetStringRefs(stringRefs);

		for (auto& r : stringRefs) {
			bool addEmpty = (r->GetIndex() != NIF_NPOS);
			int stringId = AddOrFindStringId(r->get(), addEmpty);
			r->SetIndex(stringId);
		}
	}

	UpdateMaxStringLength();
}

void NiHeader::BlockDeleted(NiObject* o, const uint32_t blockId) {
	std::set<NiRef*> refs;
	o->GetChildRefs(refs);
	o->GetPtrs(refs);

	for (auto& r : refs) {
		if (!r->IsEmpty()) {
			if (r->index == blockId)
				r->Clear();
			else if (r->index > blockId)
				r->index--;
		}
	}
}

void NiHeader::Get(NiIStream& stream) {
	std::array<char, 128> ver{};
	stream.getline(ver.data(), ver.size());

	bool isNetImmerse = std::strstr(ver.data(), NIF_NETIMMERSE.c_str()) != nullptr;
	bool isGamebryo = std::strstr(ver.data(), NIF_GAMEBRYO.c_str()) != nullptr;
	bool isNDS = std::strstr(ver.data(), NIF_NDS.c_str()) != nullptr;

	if (!isNetImmerse && !isGamebryo && !isNDS)
		return;

	NiFileVersion vfile = UNKNOWN;
	uint32_t vuser = 0;
	uint32_t vstream = 0;

	auto verStrPtr = std::strstr(ver.data(), NIF_VERSTRING.c_str());
	if (verStrPtr) {
		std::string verStr = verStrPtr + 10;
		std::regex reg("25[0-5]|2[0-4][0-9]|1[0-9][0-9]|[1-9]?[0-9]");
		std::smatch matches;

		std::array<uint8_t, 4> v{};
		int m = 0;
		while (std::regex_search(verStr, matches, reg) && m < 4) {
			v[m] = static_cast<uint8_t>(std::stoi(matches[0]));
			verStr = matches.suffix();
			m++;
		}

		vfile = NiVersion::ToFile(v[0], v[1], v[2], v[3]);
	}

	if (vfile > V3_1 && !isNDS) {
		stream >> vfile;
	}
	else if (isNDS) {
		uint32_t versionNDS = 0;
		stream >> versionNDS;
		version.SetNDS(versionNDS);
	}
	else {
		const int len = 128;

		copyright1.resize(len);
		stream.getline(copyright1.data(), copyright1.size());

		copyright2.resize(len);
		stream.getline(copyright2.data(), copyright2.size());

		copyright3.resize(len);
		stream.getline(copyright3.data(), copyright3.size());
	}

	version.SetFile(vfile);

	if (version.File() >= NiVersion::ToFile(20, 0, 0, 3))
		stream >> endian;
	else
		endian = ENDIAN_LITTLE;

	if (version.File() >= NiVersion::ToFile(10, 0, 1, 8)) {
		stream >> vuser;
		version.SetUser(vuser);
	}

	stream >> numBlocks;

	if (version.IsBethesda()) {
		stream >> vstream;
		version.SetStream(vstream);

		creator.Read(stream, 1);

		if (version.Stream() > 130)
			stream >> unkInt1;

		exportInfo1.Read(stream, 1);
		exportInfo2.Read(stream, 1);

		if (version.Stream() == 130)
			exportInfo3.Read(stream, 1);
	}
	else if (version.File() >= V30_0_0_2) {
		stream >> embedDataSize;
		embedData.resize(embedDataSize);
		for (uint32_t i = 0; i < embedDataSize; i++)
			stream >> embedData[i];
	}

	if (version.File() >= V5_0_0_1) {
		stream >> numBlockTypes;
		blockTypes.resize(numBlockTypes);
		for (uint32_t i = 0; i < numBlockTypes; i++)
			blockTypes[i].Read(stream, 4);

		blockTypeIndices.resize(numBlocks);
		for (uint32_t i = 0; i < numBlocks; i++)
			stream >> blockTypeIndices[i];
	}

	if (version.File() >= V20_2_0_5) {
		blockSizes.resize(numBlocks);
		for (uint32_t i = 0; i < numBlocks; i++)
			stream >> blockSizes[i];
	}

	if (version.File() >= V20_1_0_1) {
		stream >> numStrings;
		stream >> maxStringLen;

		strings.resize(numStrings);
		for (uint32_t i = 0; i < numStrings; i++)
			strings[i].Read(stream, 4);
	}

	if (version.File() >= NiVersion::ToFile(5, 0, 0, 6)) {
		stream >> numGroups;
		groupSizes.resize(numGroups);
		for (uint32_t i = 0; i < numGroups; i++)
			stream >> groupSizes[i];
	}

	valid = true;
}

void NiHeader::Put(NiOStream& stream) {
	std::string ver = version.String();
	stream.write(ver.data(), ver.size());

	// Newline to end header string
	stream << uint8_t(0x0A);

	bool isNDS = version.NDS() != 0;
	if (version.File() > V3_1 && !isNDS) {
		stream << version.File();
	}
	else if (isNDS) {
		stream << version.NDS();
	}
	else {
		stream.writeline(copyright1.data(), copyright1.size());
		stream.writeline(copyright2.data(), copyright2.size());
		stream.writeline(copyright3.data(), copyright3.size());
	}

	if (version.File() >= NiVersion::ToFile(20, 0, 0, 3))
		stream << endian;

	if (version.File() >= NiVersion::ToFile(10, 0, 1, 8))
		stream << version.User();

	stream << numBlocks;

	if (version.IsBethesda()) {
		stream << version.Stream();

		creator.SetNullOutput();
		creator.Write(stream, 1);

		if (version.Stream() > 130)
			stream << unkInt1;

		exportInfo1.SetNullOutput();
		exportInfo1.Write(stream, 1);

		exportInfo2.SetNullOutput();
		exportInfo2.Write(stream, 1);

		if (version.Stream() == 130) {
			exportInfo3.SetNullOutput();
			exportInfo3.Write(stream, 1);
		}
	}
	else if (version.File() >= V30_0_0_2) {
		stream << embedDataSize;
		for (uint32_t i = 0; i < embedDataSize; i++)
			stream << embedData[i];
	}

	if (version.File() >= V5_0_0_1) {
		stream << numBlockTypes;
		for (uint16_t i = 0; i < numBlockTypes; i++)
			blockTypes[i].Write(stream, 4);

		for (uint32_t i = 0; i < numBlocks; i++)
			stream << blockTypeIndices[i];
	}

	if (version.File() >= V20_2_0_5) {
		blockSizePos = stream.tellp();
		for (uint32_t i = 0; i < numBlocks; i++)
			stream << blockSizes[i];
	}

	if (version.File() >= V20_1_0_1) {
		stream << numStrings;
		stream << maxStringLen;
		for (uint32_t i = 0; i < numStrings; i++)
			strings[i].Write(stream, 4);
	}

	if (version.File() >= NiVersion::ToFile(5, 0, 0, 6)) {
		stream << numGroups;
		for (uint32_t i = 0; i < numGroups; i++)
			stream << groupSizes[i];
	}
}


NiUnknown::NiUnknown(NiIStream& stream, const uint32_t size) {
	data.resize(size);

	blockSize = size;
	Get(stream);
}

NiUnknown::NiUnknown(const uint32_t size) {
	data.resize(size);

	blockSize = size;
}

void NiUnknown::Sync(NiStreamReversible& stream) {
	if (data.empty())
		return;

	stream.Sync(&data[0], blockSize);
}
