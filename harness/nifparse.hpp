// Independent NIF header/footer codec.  Shares no code with nifly: written from the file format
// description (niftools nif.xml) for the version range nifly accepts.  Used to split written
// files into blocks, to relabel block types (C03), to validate header tables (C07) and to
// canonicalise string-table numbering (C02).
#pragma once
#include <algorithm>
#include <cstdint>
#include <cstring>
#include <string>
#include <vector>

namespace np {

inline uint32_t mkver(unsigned a, unsigned b, unsigned c, unsigned d) { return (a << 24) | (b << 16) | (c << 8) | d; }

struct Header {
	bool ok = false;
	std::string err;
	std::string verline; // without '\n'
	uint32_t version = 0, user = 0, stream = 0, nblocks = 0, unk = 0;
	uint8_t endian = 1;
	bool has_endian = false, has_user = false, has_bs = false, has_unk = false, has_exp3 = false;
	std::string creator, exp1, exp2, exp3; // raw bytes incl. trailing NUL as stored
	bool has_types = false, has_sizes = false, has_strings = false, has_groups = false;
	std::vector<std::string> types;
	std::vector<uint16_t> typeidx;
	std::vector<uint32_t> sizes;
	uint32_t maxstrlen = 0;
	std::vector<std::string> strings;
	std::vector<uint32_t> groups;
	// layout
	size_t off_sizes = 0, off_strings = 0, end_strings = 0, hdr_end = 0, file_size = 0;
	std::vector<size_t> block_off; // start of each block (only when has_sizes)
	size_t blocks_end = 0;		   // hdr_end + sum(sizes) (only when has_sizes)

	bool bethesda() const {
		if (version == mkver(20, 2, 0, 7) || version == mkver(20, 0, 0, 5)) return true;
		return version >= mkver(10, 0, 1, 2) && version <= mkver(20, 0, 0, 4) && user <= 11;
	}
	std::string type_of(size_t i) const {
		if (i < typeidx.size() && typeidx[i] < types.size()) return types[typeidx[i]];
		return "";
	}
};

struct Rd {
	const std::string& s;
	size_t i = 0;
	bool bad = false;
	explicit Rd(const std::string& str) : s(str) {}
	template<class T> T get() {
		T v{};
		if (i + sizeof(T) > s.size()) { bad = true; i = s.size(); return v; }
		memcpy(&v, s.data() + i, sizeof(T));
		i += sizeof(T);
		return v;
	}
	std::string bytes(size_t n) {
		if (i + n > s.size()) { bad = true; i = s.size(); return ""; }
		std::string r = s.substr(i, n);
		i += n;
		return r;
	}
};

inline Header parse(const std::string& f) {
	Header h;
	h.file_size = f.size();
	size_t nl = f.find('\n');
	if (nl == std::string::npos || nl > 120) { h.err = "no version line"; return h; }
	h.verline = f.substr(0, nl);
	if (h.verline.find("Gamebryo File Format, Version ") != 0 && h.verline.find("NetImmerse File Format, Version ") != 0) {
		h.err = "bad version line";
		return h;
	}
	Rd r(f);
	r.i = nl + 1;
	h.version = r.get<uint32_t>();
	{ // the text version must agree with the binary one
		unsigned a = 0, b = 0, c = 0, d = 0;
		const char* p = strstr(h.verline.c_str(), "Version ");
		if (!p || sscanf(p + 8, "%u.%u.%u.%u", &a, &b, &c, &d) != 4 || mkver(a, b, c, d) != h.version) { h.err = "version text/binary mismatch"; return h; }
	}
	if (h.version >= mkver(20, 0, 0, 3)) { h.endian = r.get<uint8_t>(); h.has_endian = true; }
	if (h.version >= mkver(10, 0, 1, 8)) { h.user = r.get<uint32_t>(); h.has_user = true; }
	h.nblocks = r.get<uint32_t>();
	if (h.bethesda()) {
		h.has_bs = true;
		h.stream = r.get<uint32_t>();
		auto sstr = [&]() { uint8_t n = r.get<uint8_t>(); return r.bytes(n); };
		h.creator = sstr();
		if (h.stream > 130) { h.unk = r.get<uint32_t>(); h.has_unk = true; }
		h.exp1 = sstr();
		h.exp2 = sstr();
		if (h.stream == 130) { h.exp3 = sstr(); h.has_exp3 = true; }
	}
	if (r.bad) { h.err = "truncated in preamble"; return h; }
	if (h.nblocks > 10000000) { h.err = "absurd block count"; return h; }
	if (h.version >= mkver(5, 0, 0, 1)) {
		h.has_types = true;
		uint16_t nt = r.get<uint16_t>();
		for (unsigned i = 0; i < nt && !r.bad; i++) {
			uint32_t n = r.get<uint32_t>();
			if (n > 4096) { h.err = "absurd type name length"; return h; }
			h.types.push_back(r.bytes(n));
		}
		for (uint32_t i = 0; i < h.nblocks && !r.bad; i++) h.typeidx.push_back(r.get<uint16_t>());
	}
	if (h.version >= mkver(20, 2, 0, 5)) {
		h.has_sizes = true;
		h.off_sizes = r.i;
		for (uint32_t i = 0; i < h.nblocks && !r.bad; i++) h.sizes.push_back(r.get<uint32_t>());
	}
	if (h.version >= mkver(20, 1, 0, 1)) {
		h.has_strings = true;
		h.off_strings = r.i;
		uint32_t ns = r.get<uint32_t>();
		h.maxstrlen = r.get<uint32_t>();
		if (ns > 10000000) { h.err = "absurd string count"; return h; }
		for (uint32_t i = 0; i < ns && !r.bad; i++) {
			uint32_t n = r.get<uint32_t>();
			if (n > (1u << 24)) { h.err = "absurd string length"; return h; }
			h.strings.push_back(r.bytes(n));
		}
		h.end_strings = r.i;
	}
	if (h.version >= mkver(5, 0, 0, 6)) {
		h.has_groups = true;
		uint32_t ng = r.get<uint32_t>();
		if (ng > 100000) { h.err = "absurd group count"; return h; }
		for (uint32_t i = 0; i < ng && !r.bad; i++) h.groups.push_back(r.get<uint32_t>());
	}
	if (r.bad) { h.err = "truncated in header tables"; return h; }
	h.hdr_end = r.i;
	if (h.has_sizes) {
		size_t off = h.hdr_end;
		for (uint32_t i = 0; i < h.nblocks; i++) {
			h.block_off.push_back(off);
			off += h.sizes[i];
		}
		h.blocks_end = off;
	}
	h.ok = true;
	return h;
}

struct Wr {
	std::string s;
	template<class T> void put(T v) { s.append((const char*) &v, sizeof(T)); }
	void bytes(const std::string& b) { s += b; }
};

// Re-emit a header (after modifying types / strings / sizes ...).
inline std::string emit_header(const Header& h) {
	Wr w;
	w.bytes(h.verline);
	w.put<uint8_t>('\n');
	w.put<uint32_t>(h.version);
	if (h.has_endian) w.put<uint8_t>(h.endian);
	if (h.has_user) w.put<uint32_t>(h.user);
	w.put<uint32_t>(h.nblocks);
	if (h.has_bs) {
		w.put<uint32_t>(h.stream);
		auto sstr = [&](const std::string& s) { w.put<uint8_t>((uint8_t) s.size()); w.bytes(s); };
		sstr(h.creator);
		if (h.has_unk) w.put<uint32_t>(h.unk);
		sstr(h.exp1);
		sstr(h.exp2);
		if (h.has_exp3) sstr(h.exp3);
	}
	if (h.has_types) {
		w.put<uint16_t>((uint16_t) h.types.size());
		for (auto& t : h.types) { w.put<uint32_t>((uint32_t) t.size()); w.bytes(t); }
		for (auto i : h.typeidx) w.put<uint16_t>(i);
	}
	if (h.has_sizes) for (auto v : h.sizes) w.put<uint32_t>(v);
	if (h.has_strings) {
		w.put<uint32_t>((uint32_t) h.strings.size());
		w.put<uint32_t>(h.maxstrlen);
		for (auto& t : h.strings) { w.put<uint32_t>((uint32_t) t.size()); w.bytes(t); }
	}
	if (h.has_groups) {
		w.put<uint32_t>((uint32_t) h.groups.size());
		for (auto v : h.groups) w.put<uint32_t>(v);
	}
	return w.s;
}

// payload bytes of block i (needs the size table)
inline std::string block_bytes(const std::string& f, const Header& h, size_t i) {
	if (!h.has_sizes || i >= h.block_off.size()) return "";
	if (h.block_off[i] + h.sizes[i] > f.size()) return "";
	return f.substr(h.block_off[i], h.sizes[i]);
}

// The 8-byte footer nifly writes: uint32 1, uint32 0 (one root: block 0).
inline bool footer_ok(const std::string& f, size_t at) {
	if (at + 8 != f.size()) return false;
	uint32_t a, b;
	memcpy(&a, f.data() + at, 4);
	memcpy(&b, f.data() + at + 4, 4);
	return a == 1 && b == 0;
}

} // namespace np
