// C10: skin partitions always cover the shape's triangles exactly once.
// E2 search over histories of the partition API on small skinned meshes (OB, FO3, SK, SSE);
// every history is replayed on a fresh model and the invariants of the statement are
// evaluated after its last operation.  See DESIGN.md "C10".
#include "meshkit.hpp"
#include "partrows.hpp"

using namespace nifly;
using namespace mk;
using vf::J;
using vf::Stats;

static vf::Args A;

// ---------- configurations ----------
enum Pattern { W_NONE, W_ONE, W_TWO, W_FOUR, W_FIVE, W_MIXED, W_MANY20, W_MANY84, W_COUNT };
static const char* pattern_name(Pattern p) {
	static const char* n[] = {"none", "one", "two", "four", "five", "mixed", "many20", "many84"};
	return n[p];
}
struct Config {
	Game game = G_SK;
	Pattern pat = W_NONE;
	int T = 1;
	int depth = 2;
	std::string id() const { return vf::strf("%s/%s/T%d", game_name(game), pattern_name(pat), T); }
};

static VW pattern_weights(int kind, int v, int nb) {
	switch (kind) {
		case 1: return {{v % nb, 1.0f}};
		case 2: return {{v % nb, 0.5f}, {(v + 1) % nb, 0.5f}};
		case 3: return {{v % nb, 0.4f}, {(v + 1) % nb, 0.3f}, {(v + 2) % nb, 0.2f}, {(v + 3) % nb, 0.1f}};
		case 4: return {{v % nb, 0.3f}, {(v + 1) % nb, 0.25f}, {(v + 2) % nb, 0.2f}, {(v + 3) % nb, 0.15f}, {(v + 4) % nb, 0.1f}};
		default: return {};
	}
}

struct Setup { Spec spec; Mesh mesh; Weights w; };
static Setup setup_for(const Config& c) {
	Setup s;
	s.spec.kind = c.game == G_SSE ? K_BSTRI : K_TRISHAPE;
	s.spec.game = c.game;
	s.spec.skinned = true;
	s.spec.raw_vert_weights = A.geti("rawfive", 0) != 0;
	if (c.pat == W_MANY84) {
		// 8 disjoint triangles over 24 vertices, 84 bones: triangles 0-5 bring 12 bones each (72), triangle 6 brings
		// 8 more (exactly 80, the SSE limit), triangle 7 one more (81): a rebuild must split before it
		s.mesh = make_mesh(24);
		for (int i = 0; i < 8; i++) s.mesh.tris.push_back(Triangle((uint16_t) (3 * i), (uint16_t) (3 * i + 1), (uint16_t) (3 * i + 2)));
		s.spec.nbones = 84;
		s.w.resize(24);
		for (int v = 0; v < 20; v++) for (int k = 0; k < 4; k++) s.w[v].push_back({4 * v + k, 0.25f});
		for (int k = 0; k < 4; k++) s.w[20].push_back({76 + k, 0.25f});
		s.w[21] = {{80, 1.0f}};
		s.w[22] = {{0, 1.0f}};
		s.w[23] = {{1, 1.0f}};
	}
	else if (c.pat == W_MANY20) {
		// triangles bring 12, 4, 2 (exactly 18, the OB/FO3 limit) and 1 more bone (19)
		s.mesh = make_mesh(6);
		for (int i = 0; i < 4; i++) s.mesh.tris.push_back(tri_pool6()[i]);
		s.spec.nbones = 20;
		s.w.resize(6);
		for (int v = 0; v < 4; v++) for (int k = 0; k < 4; k++) s.w[v].push_back({4 * v + k, 0.25f});
		s.w[4] = {{16, 0.5f}, {17, 0.5f}};
		s.w[5] = {{18, 1.0f}};
	}
	else {
		s.mesh = make_mesh(6);
		for (int i = 0; i < c.T; i++) s.mesh.tris.push_back(tri_pool6()[i]);
		s.spec.nbones = 5;
		s.w.resize(6);
		for (int v = 0; v < 6; v++) s.w[v] = pattern_weights(c.pat == W_MIXED ? v % 5 : (int) c.pat, v, 5);
	}
	return s;
}

// ---------- operations ----------
enum OpK { O_SP, O_USP, O_GSP, O_SDP, O_DP, O_REP, O_SL, O_ST, O_STA };
static const char* op_name(OpK k) {
	static const char* n[] = {"SetShapePartitions", "UpdateSkinPartitions", "GetShapePartitions", "SetDefaultPartition", "DeletePartitions", "RemoveEmptyPartitions", "Save+Load", "SetTriangles(drop last)", "SetTriangles(append one)"};
	return n[k];
}
struct Op {
	OpK k = O_USP;
	int n = 0;			// SP: number of PartitionInfo entries
	std::vector<int> a; // SP: triParts, DP: partition indices
	bool full = false;	// drawn from the full assignment alphabet
};
static J op_json(const Op& o) {
	J j = J::arr();
	j.push(op_name(o.k));
	if (o.k == O_SP) { j.push(o.n); j.push(ints_json(o.a)); }
	if (o.k == O_DP) j.push(ints_json(o.a));
	return j;
}
static bool op_from_json(const J& j, Op& o) {
	std::string n = j[0].str();
	bool ok = false;
	for (int k = 0; k <= O_STA; k++) if (n == op_name((OpK) k)) { o.k = (OpK) k; ok = true; }
	if (!ok) return false;
	if (o.k == O_SP) { o.n = (int) j[1].i64(); for (auto& x : j[2].a) o.a.push_back((int) x.i64()); }
	if (o.k == O_DP) for (auto& x : j[1].a) o.a.push_back((int) x.i64());
	return true;
}
using Hist = std::vector<Op>;
static J case_json(const Config& c, const Hist& h) {
	J ops = J::arr();
	for (auto& o : h) ops.push(op_json(o));
	return J::obj().set("game", game_name(c.game)).set("pattern", pattern_name(c.pat)).set("T", c.T).set("ops", ops);
}

// the reduced assignment set that may appear at any position of a history
static std::vector<Op> reduced_sp(int T) {
	std::vector<Op> r(4);
	for (auto& o : r) { o.k = O_SP; o.a.resize(T); }
	r[0].n = 1; for (int i = 0; i < T; i++) r[0].a[i] = 0;
	r[1].n = 0; for (int i = 0; i < T; i++) r[1].a[i] = -1;
	r[2].n = 2; for (int i = 0; i < T; i++) r[2].a[i] = i & 1;
	r[3].n = 1; for (int i = 0; i < T; i++) r[3].a[i] = 2;
	return r;
}
static bool same_sp(const Op& x, const Op& y) { return x.n == y.n && x.a == y.a; }
// the full assignment alphabet (at most one such operation per history)
static std::vector<Op> full_sp(const Config& c, int T) {
	std::vector<Op> out;
	bool many = c.pat == W_MANY20 || c.pat == W_MANY84;
	int base = many ? 2 : 4, lo = many ? 0 : -1;
	auto red = reduced_sp(T);
	uint64_t total = 1;
	for (int i = 0; i < T; i++) total *= base;
	for (int n = 0; n <= 2; n++)
		for (uint64_t code = 0; code < total; code++) {
			Op o;
			o.k = O_SP; o.n = n; o.full = true; o.a.resize(T);
			uint64_t x = code;
			for (int i = 0; i < T; i++) { o.a[i] = lo + (int) (x % base); x /= base; }
			bool dup = false;
			for (auto& r : red) if (same_sp(r, o)) dup = true;
			if (!dup) out.push_back(o);
		}
	return out;
}
static std::vector<Op> small_alphabet(int T, int P) {
	std::vector<Op> out;
	for (OpK k : {O_USP, O_GSP, O_SDP, O_REP, O_SL}) { Op o; o.k = k; out.push_back(o); }
	if (T >= 2) { Op o; o.k = O_ST; out.push_back(o); } // the shape loses its last triangle: cached assignments of the old size must not survive
	if (P >= 1) { Op o; o.k = O_STA; out.push_back(o); } // the shape gains a triangle that lies in no partition yet: the next rebuild has to place it
	auto dp = [&](uint32_t mask) {
		Op o;
		o.k = O_DP;
		for (int i = 0; i < P; i++) if (mask >> i & 1) o.a.push_back(i);
		out.push_back(o);
	};
	if (P <= 4) for (uint32_t m = 1; m < (1u << P); m++) dp(m);
	else {
		uint32_t all = (1u << P) - 1;
		for (int i = 0; i < P; i++) dp(1u << i);
		for (int i = 0; i < P; i++) dp(all & ~(1u << i));
		dp(all);
	}
	for (auto& o : reduced_sp(T)) out.push_back(o);
	return out;
}

// ---------- model ----------
struct Model {
	std::unique_ptr<NifFile> nif;
	NiShape* shape = nullptr;
	int nbones = 0;
	bool orphaned = false;	 // a non-empty partition was deleted and nothing reassigned its triangles since
	bool vmap_exact = true;	 // the last operation that shaped the partitions was not SetDefaultPartition
	bool stale = false;		 // SetTriangles changed the triangle list and nothing has rebuilt or reassigned the partitions since
	// results of the last GetShapePartitions
	bool gsp_ok = false;
	NiVector<BSDismemberSkinInstance::PartitionInfo> gsp_info;
	std::vector<int> gsp_parts;
	// body part (dismember partID) of every triangle just before the last UpdateSkinPartitions
	bool bp_valid = false;
	std::map<uint64_t, int> bp_before;
};

static bool build_model(const Config& c, Model& m, std::string& err) {
	Setup s = setup_for(c);
	m.nif = std::make_unique<NifFile>();
	m.shape = build_shape(*m.nif, s.spec, s.mesh, &s.w, &err);
	m.nbones = s.spec.nbones;
	return m.shape != nullptr;
}

struct Ctx {
	const Config* cfg;
	const Hist* hist;
	Stats* st;
	J cj;
	std::set<std::string> said;
	void V(const std::string& what, const std::string& msg) {
		if (!said.insert(what).second) return;
		std::string g = game_name(cfg->game);
		st->violation(g + ":" + what, cfg->id() + ": " + msg, cj);
	}
};

static int partition_count(Model& m) {
	SkinBlocks sk = skin_blocks(*m.nif, m.shape);
	return sk.part ? (int) sk.part->partitions.size() : 0;
}

// returns false when the history cannot continue (save or load failed)
static bool apply_op(Model& m, const Op& o, Ctx& cx) {
	NifFile& nif = *m.nif;
	switch (o.k) {
		case O_SP: {
			NiVector<BSDismemberSkinInstance::PartitionInfo> info;
			for (int i = 0; i < o.n; i++) {
				BSDismemberSkinInstance::PartitionInfo pi;
				pi.flags = PF_EDITOR_VISIBLE;
				pi.partID = (uint16_t) (32 + i);
				info.push_back(pi);
			}
			// one entry per triangle the shape has now (an SSE shape reloaded after its partitions were deleted has fewer)
			std::vector<int> tp = o.a;
			tp.resize(m.shape->GetNumTriangles(), 0);
			nif.SetShapePartitions(m.shape, info, tp);
			m.orphaned = false;
			m.vmap_exact = true;
			m.stale = false;
			break;
		}
		case O_USP:
			nif.UpdateSkinPartitions(m.shape);
			m.vmap_exact = true;
			m.stale = false;
			break;
		case O_GSP:
			m.gsp_info.clear();
			m.gsp_parts.clear();
			m.gsp_ok = nif.GetShapePartitions(m.shape, m.gsp_info, m.gsp_parts);
			break;
		case O_SDP:
			nif.SetDefaultPartition(m.shape);
			m.orphaned = false;
			m.vmap_exact = false;
			m.stale = false;
			break;
		case O_DP: {
			SkinBlocks sk = skin_blocks(nif, m.shape);
			if (sk.part)
				for (int i : o.a)
					if (i >= 0 && (size_t) i < sk.part->partitions.size() && !eff_true_tris(*sk.part, sk.part->partitions[i]).empty()) m.orphaned = true;
			std::vector<uint32_t> inds(o.a.begin(), o.a.end());
			nif.DeletePartitions(m.shape, inds);
			break;
		}
		case O_REP:
			nif.RemoveEmptyPartitions(m.shape);
			break;
		case O_STA: {
			std::vector<Triangle> t;
			m.shape->GetTriangles(t);
			for (auto& cand : tri_pool6()) {
				bool present = false;
				for (auto& x : t) if (tri_key(x) == tri_key(cand)) present = true;
				if (present || cand.p1 >= m.shape->GetNumVertices() || cand.p2 >= m.shape->GetNumVertices() || cand.p3 >= m.shape->GetNumVertices()) continue;
				t.push_back(cand);
				m.shape->SetTriangles(t);
				m.stale = true;
				break;
			}
			break;
		}
		case O_ST: {
			std::vector<Triangle> t;
			m.shape->GetTriangles(t);
			if (t.size() >= 2) { t.pop_back(); m.shape->SetTriangles(t); m.stale = true; }
			break;
		}
		case O_SL: {
			std::string bytes = save_raw(nif);
			if (bytes.empty()) { cx.V("save-fails", "Save returns an error"); return false; }
			auto r = std::make_unique<NifFile>();
			int rc = load(*r, bytes);
			if (rc != 0) { cx.V("reload-fails", vf::strf("Load of the saved model returns %d", rc)); return false; }
			m.nif = std::move(r);
			auto shapes = m.nif->GetShapes();
			if (shapes.empty()) { cx.V("reload-fails", "shape missing after reload"); return false; }
			m.shape = shapes[0];
			if (m.nif->GetHeader().GetVersion().IsSSE()) { m.orphaned = false; m.stale = false; } // SSE keeps triangles only inside partitions: orphans are gone, the list is the partitions' again
			break;
		}
	}
	return true;
}

static uint16_t bone_limit(Game g) { return g == G_OB || g == G_FO3 ? 18 : g == G_SSE ? 80 : 65535; }

// is every shape triangle in exactly one partition and nothing else in any partition?
static bool cover_holds(Model& m) {
	SkinBlocks sk = skin_blocks(*m.nif, m.shape);
	if (!sk.part) return false;
	std::vector<Triangle> shapeTris;
	m.shape->GetTriangles(shapeTris);
	std::map<uint64_t, int> cnt;
	for (auto& t : shapeTris) cnt[tri_key(t)] = 0;
	for (auto& p : sk.part->partitions)
		for (auto& t : eff_true_tris(*sk.part, p)) {
			auto it = cnt.find(tri_key(t));
			if (it == cnt.end()) return false;
			it->second++;
		}
	for (auto& kv : cnt) if (kv.second != 1) return false;
	return true;
}

// body part of every triangle, through the partition it lies in; false when the dismember list is not aligned with the
// partitions or a triangle lies in two partitions (then "the body part of a triangle" is not defined)
static bool body_parts(Model& m, std::map<uint64_t, int>& out) {
	out.clear();
	SkinBlocks sk = skin_blocks(*m.nif, m.shape);
	if (!sk.part || !sk.bsd || sk.bsd->partitions.size() != sk.part->partitions.size()) return false;
	for (size_t pi = 0; pi < sk.part->partitions.size(); pi++) {
		bool bad = false;
		for (auto& t : eff_true_tris(*sk.part, sk.part->partitions[pi], &bad))
			if (!out.emplace(tri_key(t), (int) sk.bsd->partitions[pi].partID).second) return false;
		if (bad) return false;
	}
	return true;
}

// cover_before: the cover invariant held before the last operation.  SetShapePartitions,
// UpdateSkinPartitions and SetDefaultPartition must establish it; the other operations must keep it.
static void check_state(Model& m, const Op& last, Ctx& cx, bool cover_before) {
	NifFile& nif = *m.nif;
	const Config& c = *cx.cfg;
	std::string after = std::string(":after-") + op_name(last.k);
	std::string orph = m.orphaned ? ":orphaned-by-DeletePartitions" : "";
	SkinBlocks sk = skin_blocks(nif, m.shape);
	if (!sk.part || !sk.inst) { cx.V("skin-blocks-missing" + after, "skin instance or partition block no longer reachable"); return; }
	// after SetTriangles the partitions still describe the old list: nothing is demanded of them until an operation
	// that rebuilds or reassigns (the state is still executed, saved and continued from)
	if (m.stale) { if (cx.st) cx.st->add("states_with_partitions_stale_after_SetTriangles"); return; }
	NiSkinPartition& sp = *sk.part;
	std::vector<Triangle> shapeTris;
	m.shape->GetTriangles(shapeTris);
	const size_t T = shapeTris.size();
	std::map<uint64_t, int> triIndex;
	for (size_t i = 0; i < T; i++) triIndex[tri_key(shapeTris[i])] = (int) i;
	uint32_t nv = m.shape->GetNumVertices();

	if (sp.numPartitions != sp.partitions.size()) cx.V("partition-counter" + after, vf::strf("numPartitions %u but %zu partitions", sp.numPartitions, sp.partitions.size()));
	if (sk.bsd && sk.bsd->partitions.size() != sp.partitions.size())
		cx.V("dismember-alignment" + after, vf::strf("BSDismemberSkinInstance lists %u partitions, NiSkinPartition holds %zu", (unsigned) sk.bsd->partitions.size(), sp.partitions.size()));

	// cover
	const bool establishes = last.k == O_SP || last.k == O_USP || last.k == O_SDP;
	const bool demand_cover = establishes || cover_before;
	std::vector<int> count(T, 0), owner(T, -1);
	std::vector<std::vector<Triangle>> eff(sp.partitions.size());
	for (size_t pi = 0; pi < sp.partitions.size(); pi++) {
		bool bad = false;
		eff[pi] = eff_true_tris(sp, sp.partitions[pi], &bad);
		if (bad) cx.V("mapped-triangle-index" + after, vf::strf("partition %zu: mapped triangle index outside its vertex map", pi));
		for (auto& t : eff[pi]) {
			auto it = triIndex.find(tri_key(t));
			if (it == triIndex.end()) { if (demand_cover) cx.V("partition-cover:foreign" + after, vf::strf("partition %zu holds (%u,%u,%u) which is not a triangle of the shape", pi, t.p1, t.p2, t.p3)); continue; }
			count[it->second]++;
			owner[it->second] = (int) pi;
		}
	}
	for (size_t i = 0; i < T; i++) {
		if (count[i] > 1 && demand_cover) cx.V("partition-cover:duplicate" + after, vf::strf("triangle %zu (%u,%u,%u) lies in %d partitions", i, shapeTris[i].p1, shapeTris[i].p2, shapeTris[i].p3, count[i]));
		if (count[i] == 0) {
			if (!m.orphaned) { if (demand_cover) cx.V("partition-cover:uncovered" + after, vf::strf("triangle %zu (%u,%u,%u) lies in no partition (%zu partitions)", i, shapeTris[i].p1, shapeTris[i].p2, shapeTris[i].p3, sp.partitions.size())); }
			else if (last.k == O_USP) cx.V("partition-cover:uncovered" + after + orph, vf::strf("rebuild leaves triangle %zu (%u,%u,%u) in no partition (its partition was deleted earlier)", i, shapeTris[i].p1, shapeTris[i].p2, shapeTris[i].p3));
		}
	}
	// triParts
	if (!sp.triParts.empty()) {
		if (sp.triParts.size() != T) cx.V("triparts-size" + after, vf::strf("triParts holds %zu entries for %zu triangles", sp.triParts.size(), T));
		else
			for (size_t i = 0; i < T; i++) {
				if (count[i] == 1 && sp.triParts[i] != owner[i]) { cx.V("triparts" + after, vf::strf("triParts[%zu] = %d but the triangle lies in partition %d", i, sp.triParts[i], owner[i])); break; }
				// A triangle in no partition is reported as 0 instead of the documented -1 (the generated list is
				// zero-filled).  The property does not state how an unassigned triangle is reported, so this is only counted.
				if (count[i] == 0 && sp.triParts[i] != -1) { if (cx.st) cx.st->add("obs_unassigned_triangle_reported_as_partition_0"); break; }
			}
	}
	if (last.k == O_GSP) {
		if (!m.gsp_ok) cx.V("getshapepartitions-fails", "GetShapePartitions returns false on a skinned shape");
		else {
			if (m.gsp_parts != sp.triParts) cx.V("getshapepartitions-result", "returned triParts differ from the partition block's triParts");
			if (m.gsp_info.size() < sp.partitions.size()) cx.V("getshapepartitions-info", vf::strf("%u PartitionInfo entries for %zu partitions", (unsigned) m.gsp_info.size(), sp.partitions.size()));
		}
	}
	if (last.k == O_USP && m.bp_valid) {
		// a rebuild may split partitions, it never moves a triangle to another body part: entry i of the dismember
		// list must still describe partition i
		std::map<uint64_t, int> now;
		if (body_parts(m, now))
			for (auto& kv : m.bp_before) {
				auto it = now.find(kv.first);
				if (it != now.end() && it->second != kv.second) {
					cx.V("dismember-bodypart-changed" + after, vf::strf("a triangle of body part %d lies in a partition labelled %d after the rebuild", kv.second, it->second));
					break;
				}
			}
		if (cx.st) cx.st->add("bodypart_maps_compared");
	}
	if (last.k != O_USP && last.k != O_SL) return;

	if (last.k == O_USP && sk.data) {
		// the rebuild derives every row from NiSkinData
		partrows::Result pr = partrows::check(*sk.data, sp, 1e-4f);
		if (cx.st) { cx.st->add("partition_rows_compared_with_skindata", pr.rows_compared); cx.st->add("partition_rows_not_comparable", pr.rows_skipped); }
		if (!pr.msg.empty()) cx.V("partition-row-differs-from-skindata" + after, pr.msg);
	}

	// prepared facts
	const uint16_t limit = bone_limit(c.game);
	size_t nbones = sk.inst->boneRefs.GetSize();
	for (size_t pi = 0; pi < sp.partitions.size(); pi++) {
		auto& p = sp.partitions[pi];
		std::set<uint16_t> used;
		for (auto& t : eff[pi]) { used.insert(t.p1); used.insert(t.p2); used.insert(t.p3); }
		if (p.numTriangles != eff[pi].size() && (p.hasFaces || !eff[pi].empty())) cx.V("partition-triangle-counter" + after, vf::strf("partition %zu: numTriangles %u but %zu triangles", pi, p.numTriangles, eff[pi].size()));
		if (p.numVertices != p.vertexMap.size()) cx.V("partition-vertex-counter" + after, vf::strf("partition %zu: numVertices %u but vertex map holds %zu", pi, p.numVertices, p.vertexMap.size()));
		std::set<uint16_t> vm(p.vertexMap.begin(), p.vertexMap.end());
		if (vm.size() != p.vertexMap.size()) cx.V("vertex-map:duplicate" + after, vf::strf("partition %zu lists a vertex twice", pi));
		for (auto v : used) if (!vm.count(v)) { cx.V("vertex-map:missing" + after, vf::strf("partition %zu uses vertex %u which its vertex map does not list", pi, v)); break; }
		if (m.vmap_exact)
			for (auto v : vm) if (!used.count(v)) { cx.V("vertex-map:unused" + after, vf::strf("partition %zu lists vertex %u which none of its triangles use", pi, v)); break; }
		for (auto v : vm) if (v >= nv) { cx.V("vertex-map:index" + after, vf::strf("partition %zu lists vertex %u of %u", pi, v, nv)); break; }
		// mapped <-> true triangles
		if (!eff[pi].empty() && p.triangles.empty() && p.numStrips == 0) cx.V("mapped-triangles-missing" + after, vf::strf("partition %zu has %zu triangles but no triangle list", pi, eff[pi].size()));
		if (!p.trueTriangles.empty() && !p.triangles.empty()) {
			std::vector<uint64_t> a, b;
			bool bad = false;
			for (auto& t : p.trueTriangles) a.push_back(tri_key(t));
			for (auto& t : p.triangles) {
				if (sp.bMappedIndices) {
					if (t.p1 >= p.vertexMap.size() || t.p2 >= p.vertexMap.size() || t.p3 >= p.vertexMap.size()) { bad = true; continue; }
					b.push_back(tri_key(Triangle(p.vertexMap[t.p1], p.vertexMap[t.p2], p.vertexMap[t.p3])));
				}
				else b.push_back(tri_key(t));
			}
			std::sort(a.begin(), a.end());
			std::sort(b.begin(), b.end());
			if (bad || a != b) cx.V("mapped-triangles" + after, vf::strf("partition %zu: mapped triangles do not translate back to its true triangles", pi));
		}
		// bones
		if (p.numBones != p.bones.size()) cx.V("partition-bone-counter" + after, vf::strf("partition %zu: numBones %u but %zu bones", pi, p.numBones, p.bones.size()));
		if (p.bones.size() > limit) cx.V("bone-limit" + after, vf::strf("partition %zu uses %zu bones, the game allows %u", pi, p.bones.size(), limit));
		for (auto b : p.bones) if (b >= nbones) { cx.V("partition-bone-index" + after, vf::strf("partition %zu refers to bone %u of %zu", pi, b, nbones)); break; }
		// weights
		if (last.k == O_USP && !eff[pi].empty() && (!p.hasVertexWeights || !p.hasBoneIndices)) cx.V("weights-missing" + after, vf::strf("partition %zu rebuilt without weights", pi));
		if (p.hasVertexWeights && p.vertexWeights.size() != p.vertexMap.size()) cx.V("weights-count" + after, vf::strf("partition %zu: %zu weight rows for %zu vertices", pi, p.vertexWeights.size(), p.vertexMap.size()));
		if (p.hasBoneIndices && p.boneIndices.size() != p.vertexMap.size()) cx.V("boneindices-count" + after, vf::strf("partition %zu: %zu bone index rows for %zu vertices", pi, p.boneIndices.size(), p.vertexMap.size()));
		if (p.hasVertexWeights)
			for (size_t i = 0; i < p.vertexWeights.size(); i++) {
				const float* w = &p.vertexWeights[i].w1;
				float sum = 0;
				bool neg = false, nan = false;
				for (int k = 0; k < 4; k++) { sum += w[k]; if (w[k] < 0) neg = true; if (w[k] != w[k]) nan = true; }
				bool allzero = w[0] == 0 && w[1] == 0 && w[2] == 0 && w[3] == 0;
				if (neg || nan) { cx.V("weights-negative" + after, vf::strf("partition %zu row %zu: weight %g,%g,%g,%g", pi, i, w[0], w[1], w[2], w[3])); break; }
				if (!allzero && std::fabs(sum - 1.0f) > 1e-4f) { cx.V("weights-sum" + after, vf::strf("partition %zu row %zu: weights %g,%g,%g,%g sum to %g", pi, i, w[0], w[1], w[2], w[3], sum)); break; }
				if (p.hasBoneIndices && i < p.boneIndices.size()) {
					const uint8_t* bi = &p.boneIndices[i].i1;
					bool bad = false;
					for (int k = 0; k < 4; k++) if (w[k] > 0 && bi[k] >= p.bones.size()) bad = true;
					if (bad) { cx.V("bone-slot" + after, vf::strf("partition %zu row %zu: weighted slot refers to bone slot outside its %zu bones", pi, i, p.bones.size())); break; }
				}
			}
	}
	if (auto bs = dynamic_cast<BSTriShape*>(m.shape)) {
		for (size_t i = 0; i < bs->vertData.size(); i++) {
			auto& v = bs->vertData[i];
			float sum = 0;
			bool neg = false, allzero = true, badbone = false;
			for (int k = 0; k < 4; k++) {
				sum += v.weights[k];
				if (v.weights[k] < 0 || v.weights[k] != v.weights[k]) neg = true;
				if (v.weights[k] != 0) allzero = false;
				if (v.weights[k] > 0 && v.weightBones[k] >= nbones) badbone = true;
			}
			if (neg) { cx.V("vertdata-weights-negative" + after, vf::strf("vertex %zu: weights %g,%g,%g,%g", i, v.weights[0], v.weights[1], v.weights[2], v.weights[3])); break; }
			if (!allzero && std::fabs(sum - 1.0f) > 2e-3f) { cx.V("vertdata-weights-sum" + after, vf::strf("vertex %zu: weights sum to %g", i, sum)); break; }
			if (badbone) { cx.V("vertdata-bone-index" + after, vf::strf("vertex %zu refers to a bone beyond the %zu bones", i, nbones)); break; }
		}
	}
}

// ---------- search ----------
struct Search {
	const Config* cfg;
	Stats* st;
	std::set<std::string> skip;
	std::vector<Op> full;
	long nodes = 0;
	bool stop = false;
};

// replay h on a fresh model, check the last operation, return the number of partitions (-1: cannot continue)
static int visit_node(Search& S, const Hist& h, bool replay_all = false) {
	Ctx cx;
	cx.cfg = S.cfg;
	cx.hist = &h;
	cx.st = S.st;
	cx.cj = case_json(*S.cfg, h);
	std::string dump = cx.cj.dump();
	if (!S.skip.empty() && S.skip.count(dump)) { S.st->add("cases_skipped_after_crash"); return -1; }
	vf::set_inflight(dump);
	Model m;
	std::string err;
	if (!build_model(*S.cfg, m, err)) { S.st->violation("harness:build:" + S.cfg->id(), "cannot build model: " + err, cx.cj); return -1; }
	bool cover_before = true;
	for (size_t i = 0; i < h.size(); i++) {
		bool lastop = i + 1 == h.size();
		if (lastop || replay_all) cover_before = cover_holds(m) || m.orphaned;
		m.bp_valid = (lastop || replay_all) && h[i].k == O_USP && body_parts(m, m.bp_before);
		if (!apply_op(m, h[i], cx)) return -1;
		if (replay_all && !lastop) check_state(m, h[i], cx, cover_before);
	}
	check_state(m, h.back(), cx, cover_before);
	S.st->add("transitions");
	S.st->add(std::string("op_") + op_name(h.back().k));
	S.st->max("max_depth", (long long) h.size());
	uint64_t hs = canon_hash(*m.nif, m.shape);
	S.st->distinct("states", S.cfg->id() + ":" + vf::hex64(hs).substr(0, 13));
	int P = partition_count(m);
	SkinBlocks sk = skin_blocks(*m.nif, m.shape);
	std::string sizes;
	if (sk.part) for (auto& p : sk.part->partitions) sizes += std::to_string(p.numTriangles) + ".";
	S.st->distinct("outcomes", vf::strf("%s P%d %s", op_name(h.back().k), P, sizes.c_str()));
	if (S.st->samples.empty() && h.size() >= 2) S.st->sample(cx.cj);
	return P;
}

static void dfs(Search& S, Hist& h, bool usedFull) {
	if (S.stop) return;
	if ((++S.nodes & 127) == 0 && vf::deadline_passed()) { S.stop = true; return; }
	int P = visit_node(S, h);
	if (P < 0 || (int) h.size() >= S.cfg->depth) return;
	for (auto& o : small_alphabet(S.cfg->T, P)) {
		h.push_back(o);
		dfs(S, h, usedFull);
		h.pop_back();
		if (S.stop) return;
	}
	if (!usedFull)
		for (auto& o : S.full) {
			h.push_back(o);
			dfs(S, h, true);
			h.pop_back();
			if (S.stop) return;
		}
}

struct Unit { size_t cfg; std::vector<Op> first; };

int main(int argc, char** argv) {
	A = vf::parse_args(argc, argv);
	Stats top;
	if (!A.replay.empty()) {
		J c = J::parse(vf::read_file(A.replay))["case"];
		Config cfg;
		if (!game_from(c["game"].str(), cfg.game)) vf::fatal("replay: unknown game");
		bool ok = false;
		for (int p = 0; p < W_COUNT; p++) if (c["pattern"].str() == pattern_name((Pattern) p)) { cfg.pat = (Pattern) p; ok = true; }
		if (!ok) vf::fatal("replay: unknown pattern");
		cfg.T = (int) c["T"].i64();
		Hist h;
		for (auto& oj : c["ops"].a) { Op o; if (!op_from_json(oj, o)) vf::fatal("replay: unknown operation"); h.push_back(o); }
		if (h.empty()) vf::fatal("replay: empty history");
		cfg.depth = (int) h.size();
		Search S;
		S.cfg = &cfg;
		S.st = &top;
		visit_node(S, h, true);
		vf::finish(top);
		return 0;
	}
	const bool thorough = A.thorough();
	const int tmax = (int) A.geti("tmax", thorough ? 5 : 4);
	const int deep_t = (int) A.geti("deept", thorough ? 3 : 0); // depth 3 for T <= deep_t
	std::vector<Config> cfgs;
	for (Game g : {G_OB, G_FO3, G_SK, G_SSE}) {
		if (A.has("game") && A.get("game") != game_name(g)) continue;
		for (int p = W_NONE; p <= W_MIXED; p++)
			for (int T = 1; T <= tmax; T++) {
				Config c;
				c.game = g; c.pat = (Pattern) p; c.T = T; c.depth = T <= deep_t ? 3 : 2;
				cfgs.push_back(c);
			}
		Config c;
		c.game = g; c.pat = W_MANY20; c.T = 4; c.depth = thorough ? 3 : 2;
		cfgs.push_back(c);
		c.pat = W_MANY84; c.T = 8; c.depth = 2;
		cfgs.push_back(c);
	}
	if (A.has("depth")) for (auto& c : cfgs) c.depth = (int) A.geti("depth", 2);

	// units: chunks of first operations of one configuration
	std::vector<Unit> units;
	std::vector<std::vector<Op>> fulls(cfgs.size());
	for (size_t ci = 0; ci < cfgs.size(); ci++) {
		Model m;
		std::string err;
		if (!build_model(cfgs[ci], m, err)) vf::fatal("cannot build " + cfgs[ci].id() + ": " + err);
		int P0 = partition_count(m);
		fulls[ci] = full_sp(cfgs[ci], cfgs[ci].T);
		std::vector<Op> first = small_alphabet(cfgs[ci].T, P0);
		for (auto& o : fulls[ci]) first.push_back(o);
		size_t chunk = cfgs[ci].depth >= 3 ? 8 : 96;
		for (size_t lo = 0; lo < first.size(); lo += chunk) {
			Unit u;
			u.cfg = ci;
			u.first.assign(first.begin() + lo, first.begin() + std::min(first.size(), lo + chunk));
			units.push_back(u);
		}
	}
	// heavy configurations first
	std::stable_sort(units.begin(), units.end(), [&](const Unit& a, const Unit& b) {
		auto wt = [&](const Unit& u) { return (double) fulls[u.cfg].size() * (cfgs[u.cfg].depth >= 3 ? 400.0 / 12 : 1.0); };
		return wt(a) > wt(b);
	});

	vf::PoolCfg pc;
	pc.jobs = A.jobs;
	pc.rundir = A.rundir;
	pc.repo = A.repo;
	vf::run_pool(units.size(), pc,
		[&](size_t ui, const std::vector<std::string>& skips, long, Stats& st) {
			const Unit& u = units[ui];
			Search S;
			S.cfg = &cfgs[u.cfg];
			S.st = &st;
			S.skip.insert(skips.begin(), skips.end());
			S.full = fulls[u.cfg];
			for (auto& o : u.first) {
				Hist h{o};
				dfs(S, h, o.full);
				if (S.stop) break;
			}
			if (S.stop) st.capped("deadline reached inside a unit of " + S.cfg->id());
			st.add("units");
		},
		[&](size_t ui, const vf::CrashInfo& ci, const std::string& inflight, Stats& parent) -> std::string {
			const Config& c = cfgs[units[ui].cfg];
			J cj;
			std::string sig;
			try {
				cj = J::parse(inflight);
				for (auto& o : cj["ops"].a) sig += (sig.empty() ? "" : ">") + o[0].str();
			} catch (std::exception&) { cj = J::obj(); }
			parent.violation(std::string(game_name(c.game)) + ":crash:" + ci.key(),
							 c.id() + ": worker died (" + ci.cls + " in " + ci.frame + ") while replaying the valid calls " + sig, cj);
			parent.add("crashes");
			return inflight;
		}, top);

	top.set_info("rule",
		vf::strf("skinned meshes (6 vertices, first T of 5 pool triangles, T=1..%d; 5 bones) x games OB/FO3/SK/SSE x per-vertex weight patterns {none, one, two, four, five(truncated to 4), mixed}, "
				 "plus a 20-bone mesh (T=4, bone counts 12/16/18/19 along the triangles) and an 84-bone mesh (24 vertices, T=8, bone counts 72/80/81) per game; histories over "
				 "{UpdateSkinPartitions, GetShapePartitions, SetDefaultPartition, RemoveEmptyPartitions, Save+Load, DeletePartitions(S) for every non-empty subset S of the current partitions "
				 "(more than 4 partitions: singletons, their complements, all), SetShapePartitions with 4 fixed assignments} of length <= depth, in which at most one operation "
				 "may instead be any SetShapePartitions(info size 0..2, triParts in {-1,0,1,2}^T) (many-bone meshes: {0,1}^T); depth 3 for T<=%d%s, depth 2 otherwise; "
				 "every history replayed on a fresh model and the statement's invariants evaluated after its last operation; states = distinct canonical states per configuration",
				 tmax, deep_t, thorough ? " and the 20-bone mesh" : ""));
	top.set_info("configurations", (long long) cfgs.size());
	top.set_info("tmax", tmax);
	vf::finish(top);
	return 0;
}
