// E1-driven checks: C01 (round-trip fixed point), C05 (reference enumeration).
// Units = (block type, version); each unit explores the typed-read decision tree of that
// block's reader within the deviation bound and evaluates the property's oracle on every
// execution.  See DESIGN.md 3.3 and the per-property sections.
#include "battery.hpp"
#include "canon.hpp"
#include "s1.hpp"
#include "sg.hpp"
#include "sp.hpp"

#include "Particles.hpp"

#include <dirent.h>

using namespace nifly;
using namespace e1;
using vf::J;
using vf::Stats;

static vf::Args A;
static std::vector<std::string> g_types;
static std::vector<VerCfg> g_vers;
static int g_bound = 1;
static bool g_wide = true;
static int g_file_level = 1; // 0: never, 1: all-defaults instance only, 2: every execution with <= g_file_dev deviations
static int g_file_dev = 1;
// set in fork-per-execution mode: called as soon as the reader has accepted the synthesised block
static std::function<void(const std::vector<Point>&)> g_after_get;
static int g_chain_bound = 0; // deviation bound for the varying member of a linked chain
// per-unit distinct counters (units are disjoint by type+version, so per-unit counts add up)
static std::unordered_set<uint64_t> g_unit_nontrivial, g_unit_outcomes, g_unit_file_outcomes;

static std::string game_of(const VerCfg& v) {
	std::string n = v.name;
	return n.substr(0, n.find('_'));
}

static J case_json(const std::string& type, const VerCfg& vc, const Script& s) {
	return J::obj().set("type", type).set("version", vc.name).set("wide", g_wide).set("script", script_json(s));
}

// ---------- C05 ----------
static bool g_carried = true; // C05: also check carried-over instances (--carried 0 switches it off)
static int g_carried_dev = 0;  // ... for first reads with at most this many deviations (quick 0, thorough 1)
static void oracle_c05(const std::string& type, const VerCfg& vc, const Script& s, Stats& st, Tape& tape, NiObject* obj, NiHeader& hdr) {
	std::set<NiRef*> refs;
	obj->GetChildRefs(refs);
	obj->GetPtrs(refs);
	std::vector<NiStringRef*> srefs;
	obj->GetStringRefs(srefs);
	std::set<uint32_t> refvals, strvals;
	for (auto r : refs) refvals.insert(r->index);
	for (auto r : srefs) strvals.insert(r->GetIndex());
	size_t nref = 0, nstr = 0;
	for (auto& rr : tape.refreads) {
		bool isref = rr.kind == K::K_REF;
		size_t ord = isref ? nref++ : nstr++;
		bool ok = isref ? refvals.count(rr.value) > 0 : strvals.count(rr.value) > 0;
		st.add(isref ? "ref_reads_checked" : "stridx_reads_checked");
		if (!ok) {
			std::string key = type + ":" + (isref ? "REF" : "STR") + "#" + std::to_string(ord) + ":read";
			st.violation(key,
						 vf::strf("%s (%s): %s read #%zu at tape offset %u (tag %u) is not reported by GetChildRefs/GetPtrs/GetStringRefs",
								  type.c_str(), vc.name, isref ? "block reference" : "string index", ord, rr.off, rr.value),
						 case_json(type, vc, s));
		}
	}
	if (!tape.refreads.empty()) st.add("executions_with_refs");
	// write side: every NiRef / NiStringRef object passing through Sync during Put must be enumerated
	std::set<void*> refptrs(refs.begin(), refs.end());
	std::set<void*> strptrs(srefs.begin(), srefs.end());
	size_t wref = 0, wstr = 0;
	// Inline strings (before 20.1.0.3) are not string-table references: only index mode is checked.
	const bool index_mode = hdr.GetVersion().File() >= V20_1_0_3;
	std::vector<std::pair<bool, size_t>> missing;
	std::vector<std::pair<void*, size_t>> seen_refs, seen_strs;
	g_ctx.on_ref = [&](void* p, bool w) {
		if (!w) return;
		seen_refs.push_back({p, wref});
		wref++;
	};
	g_ctx.on_strref = [&](void* p, bool w) {
		if (!w || !index_mode) return;
		seen_strs.push_back({p, wstr});
		wstr++;
	};
	std::ostringstream os(std::ios::binary);
	NiOStream out(&os, &hdr);
	obj->Put(out);
	g_ctx.on_ref = nullptr;
	g_ctx.on_strref = nullptr;
	// Put may legitimately resize a reference container (fixed-size entity lists are forced to their
	// wire size on write), so an object is accepted when it is enumerated before *or* after the write.
	{
		std::set<NiRef*> refs2;
		obj->GetChildRefs(refs2);
		obj->GetPtrs(refs2);
		std::vector<NiStringRef*> srefs2;
		obj->GetStringRefs(srefs2);
		refptrs.insert(refs2.begin(), refs2.end());
		strptrs.insert(srefs2.begin(), srefs2.end());
	}
	for (auto& e : seen_refs) if (!refptrs.count(e.first)) missing.push_back({true, e.second});
	for (auto& e : seen_strs) if (!strptrs.count(e.first)) missing.push_back({false, e.second});
	st.add("ref_writes_checked", (long long) wref);
	st.add("strref_writes_checked", (long long) wstr);
	for (auto& m : missing) {
		std::string key = type + ":" + (m.first ? "REF" : "STR") + "#" + std::to_string(m.second) + ":write";
		st.violation(key,
					 vf::strf("%s (%s): %s object #%zu written by Put is not reported by the block's enumerators", type.c_str(), vc.name,
							  m.first ? "NiRef" : "NiStringRef", m.second),
					 case_json(type, vc, s));
	}
	g_unit_outcomes.insert(vf::fnv(vf::strf("%zu/%zu/%zu/%zu", refs.size(), srefs.size(), wref, wstr)));
}

// C05, carried-over instances: an object read under version A whose members are then read again under version B
// (what a model converted or assembled across versions holds: the member groups of both versions populated at
// once, a state no single file produces).  Under both versions every NiRef / NiStringRef object that Put passes
// through Sync must be reported by the enumerators.
static void c05_write_side(const std::string& type, const char* a_name, const char* b_name, const char* under, NiObject* obj, NiHeader& hdr, Stats& st, const Script& sa) {
	std::set<NiRef*> refs;
	obj->GetChildRefs(refs);
	obj->GetPtrs(refs);
	std::vector<NiStringRef*> srefs;
	obj->GetStringRefs(srefs);
	std::set<void*> refptrs(refs.begin(), refs.end()), strptrs(srefs.begin(), srefs.end());
	const bool index_mode = hdr.GetVersion().File() >= V20_1_0_3;
	std::vector<void*> seen_refs, seen_strs;
	g_ctx.on_ref = [&](void* p, bool w) { if (w) seen_refs.push_back(p); };
	g_ctx.on_strref = [&](void* p, bool w) { if (w && index_mode) seen_strs.push_back(p); };
	std::ostringstream os(std::ios::binary);
	NiOStream out(&os, &hdr);
	try { obj->Put(out); } catch (std::exception&) { st.add("carried_put_exception"); }
	g_ctx.on_ref = nullptr;
	g_ctx.on_strref = nullptr;
	{
		std::set<NiRef*> refs2;
		obj->GetChildRefs(refs2);
		obj->GetPtrs(refs2);
		std::vector<NiStringRef*> srefs2;
		obj->GetStringRefs(srefs2);
		refptrs.insert(refs2.begin(), refs2.end());
		strptrs.insert(srefs2.begin(), srefs2.end());
	}
	st.add("carried_ref_writes_checked", (long long) seen_refs.size());
	st.add("carried_strref_writes_checked", (long long) seen_strs.size());
	auto report = [&](bool isref, size_t ord) {
		std::string key = type + ":" + (isref ? "REF" : "STR") + ":carried-write";
		st.violation(key,
					 vf::strf("%s read under %s and then under %s: %s object #%zu written by Put under %s is not reported by the block's enumerators", type.c_str(), a_name,
							  b_name, isref ? "NiRef" : "NiStringRef", ord, under),
					 J::obj().set("type", type).set("carried_from", a_name).set("carried_to", b_name).set("put_under", under).set("wide", g_wide).set("script", script_json(sa)));
	};
	for (size_t i = 0; i < seen_refs.size(); i++) if (!refptrs.count(seen_refs[i])) { report(true, i); break; }
	for (size_t i = 0; i < seen_strs.size(); i++) if (!strptrs.count(seen_strs[i])) { report(false, i); break; }
	g_unit_outcomes.insert(vf::fnv(vf::strf("carried/%zu/%zu/%zu/%zu", refs.size(), srefs.size(), seen_refs.size(), seen_strs.size())));
}

// `sa` = the deviations of the first read (under A); the second read (under B) takes the default answers
static void c05_carried(const std::string& type, const VerCfg& va, const Script& sa, Stats& st) {
	static const Script none;
	for (auto& vb : all_versions()) {
		if (&vb == &va || std::string(vb.name) == va.name) continue;
		if (vf::deadline_passed()) return;
		vf::set_inflight(J::obj().set("type", type).set("carried_from", va.name).set("carried_to", vb.name).set("wide", g_wide).set("script", script_json(sa)).dump());
		NiHeader ha, hb;
		ha.SetVersion(va.ver());
		seed_strings(ha);
		hb.SetVersion(vb.ver());
		seed_strings(hb);
		std::unique_ptr<NiObject> obj;
		try {
			Tape ta;
			ta.script = &sa;
			ta.wide = g_wide;
			ta.tag_refs = true; // non-empty references: empty ones are dropped from arrays on write
			obj = load_block(type, ha, ta);
			if (!obj) return;
			Tape tb;
			tb.script = &none;
			tb.wide = g_wide;
			tb.tag_refs = true;
			std::istream is(&tb);
			is.exceptions(std::ios::badbit);
			NiIStream sb(&is, &hb);
			TapeScope scope(&tb);
			obj->Get(sb);
		} catch (TapeCap&) {
			st.add("carried_capped");
			continue;
		} catch (TapeDiverged&) {
			st.add("carried_rejected");
			continue;
		} catch (std::exception&) {
			st.add("carried_rejected");
			continue;
		}
		st.add("carried_instances");
		c05_write_side(type, va.name, vb.name, vb.name, obj.get(), hb, st, sa);
		c05_write_side(type, va.name, vb.name, va.name, obj.get(), ha, st, sa);
	}
}

// ---------- C01 ----------
static std::string first_diff(const std::string& a, const std::string& b) {
	size_t n = std::min(a.size(), b.size()), i = 0;
	while (i < n && a[i] == b[i]) i++;
	return vf::strf("lengths %zu vs %zu, first difference at offset %zu", a.size(), b.size(), i);
}

static void oracle_c01_block(const std::string& type, const VerCfg& vc, const Script& s, Stats& st, Tape& tape, NiObject* obj, NiHeader& hdr) {
	auto f = NiFactoryRegister::Get().GetFactoryByName(type);
	std::ostringstream o1(std::ios::binary);
	{
		NiOStream out(&o1, &hdr);
		obj->Put(out);
	}
	std::string b1 = o1.str();
	std::istringstream i2(b1, std::ios::binary);
	NiIStream in2(&i2, &hdr);
	std::unique_ptr<NiObject> obj2;
	try {
		obj2 = f->Load(in2);
	} catch (std::exception& e) {
		st.add("reread_exception");
		return;
	}
	std::string game = game_of(vc);
	if (i2.fail()) {
		st.violation(type + ":" + game + ":reread-overrun",
					 vf::strf("%s (%s): reading back the %zu bytes the block wrote runs past their end", type.c_str(), vc.name, b1.size()),
					 case_json(type, vc, s));
		return;
	}
	size_t consumed = (size_t) i2.tellg();
	if (consumed != b1.size()) {
		st.violation(type + ":" + game + ":reread-short",
					 vf::strf("%s (%s): block wrote %zu bytes but its reader consumes %zu of them", type.c_str(), vc.name, b1.size(), consumed),
					 case_json(type, vc, s));
		return;
	}
	std::ostringstream o2(std::ios::binary);
	{
		NiOStream out(&o2, &hdr);
		obj2->Put(out);
	}
	std::string b2 = o2.str();
	if (b1 != b2) {
		st.violation(type + ":" + game + ":rewrite-differs",
					 vf::strf("%s (%s): write(read(B1)) != B1 (%s)", type.c_str(), vc.name, first_diff(b1, b2).c_str()), case_json(type, vc, s));
	}
	g_unit_outcomes.insert(vf::fnv(vf::strf("%zu/%zu", tape.bytes.size(), b1.size())));
}

// F must be the library's raw output for some accepted input: it must load, the reader must stop
// exactly at the footer, and writing it again must reproduce F byte for byte; the default save must
// converge within two rounds.  keybase identifies the corpus entry class (type:game or file:name).
static void c01_file_checks(const std::string& F, const std::string& keybase, const std::string& what, const J& cj, Stats& st) {
	st.add("files_checked");
	NifFile a;
	long long consumed = 0;
	int rc = s1::load(a, F, &consumed);
	if (rc != 0) {
		st.violation(keybase + ":file-reload-fails", vf::strf("%s: Load of the library's own raw output returns %d", what.c_str(), rc), cj);
		return;
	}
	if (consumed != (long long) F.size() - 8) {
		st.violation(keybase + ":file-reread-extent",
					 vf::strf("%s: reloading raw output of %zu bytes stops at %lld instead of %zu (footer start)", what.c_str(), F.size(), consumed, F.size() - 8), cj);
		return;
	}
	std::string S1 = s1::save(a, true);
	if (S1 != F) {
		st.violation(keybase + ":file-raw-not-fixed-point", vf::strf("%s: raw save of reloaded raw save differs (%s)", what.c_str(), first_diff(F, S1).c_str()), cj);
		return;
	}
	// default option: D1 = Save(Load(F)), D2 = Save(Load(D1)), D3 = Save(Load(D2)); D2 == D3
	NifFile d0;
	if (s1::load(d0, F) != 0) return;
	std::string D1 = s1::save(d0, false);
	NifFile d1;
	if (s1::load(d1, D1) != 0) {
		st.violation(keybase + ":file-default-reload-fails", vf::strf("%s: Load of default-save output fails", what.c_str()), cj);
		return;
	}
	std::string D2 = s1::save(d1, false);
	NifFile d2;
	if (s1::load(d2, D2) != 0) {
		st.violation(keybase + ":file-default-reload-fails", vf::strf("%s: Load of 2nd default-save output fails", what.c_str()), cj);
		return;
	}
	std::string D3 = s1::save(d2, false);
	if (D2 != D3)
		st.violation(keybase + ":file-default-not-converged",
					 vf::strf("%s: default save has not converged after two rounds (%s)", what.c_str(), first_diff(D2, D3).c_str()), cj);
	g_unit_file_outcomes.insert(vf::fnv(vf::strf("%zu/%zu", S1.size(), D2.size())));
}

static void oracle_c01_file(const std::string& type, const VerCfg& vc, const Script& s, Stats& st) {
	s1::Built b = s1::build_s1(type, vc, s, g_wide);
	if (!b.ok) { st.add("file_not_built"); return; }
	c01_file_checks(b.file, type + ":" + game_of(vc), vf::strf("%s (%s)", type.c_str(), vc.name), case_json(type, vc, s), st);
}

// ---------- C02 ----------
static std::vector<std::string> g_hists;

static std::vector<std::string> all_histories(int maxlen) {
	std::vector<std::string> r, cur = {""};
	for (int l = 1; l <= maxlen; l++) {
		std::vector<std::string> nxt;
		for (auto& h : cur) for (char c : {'R', 'D', 'Q'}) nxt.push_back(h + c);
		for (auto& h : nxt) r.push_back(h);
		cur = nxt;
	}
	// the two one-sided option sets (O = optimize only, S = sort only): every history of length <= 2 that uses one
	if (maxlen >= 2) {
		const char L[5] = {'R', 'D', 'O', 'S', 'Q'};
		for (char a : {'O', 'S'}) r.push_back(std::string(1, a));
		for (char a : L) for (char b : L) if (a == 'O' || a == 'S' || b == 'O' || b == 'S') r.push_back(std::string(1, a) + b);
	}
	return r;
}

// block level: writing the same object twice must give the same bytes
static void oracle_c02_block(const std::string& type, const VerCfg& vc, const Script& s, Stats& st, NiObject* obj, NiHeader& hdr) {
	std::string b[3];
	for (int k = 0; k < 3; k++) {
		std::ostringstream o(std::ios::binary);
		NiOStream out(&o, &hdr);
		obj->Put(out);
		b[k] = o.str();
	}
	st.add("block_resaves_checked");
	if (b[0] != b[1] || b[1] != b[2])
		st.violation(type + ":" + game_of(vc) + ":put-twice-differs",
					 vf::strf("%s (%s): writing the same object again gives different bytes (1st vs 2nd: %s; 2nd vs 3rd: %s)", type.c_str(), vc.name,
							  first_diff(b[0], b[1]).c_str(), first_diff(b[1], b[2]).c_str()),
					 case_json(type, vc, s));
	g_unit_outcomes.insert(vf::fnv(b[0]));
	// an EDITED object: state that only an API setter can put into the block (the reader never does).  Match groups of
	// a NiTriShapeData are dropped when a file is read, so writing them repeatedly is reachable only through the setter.
	if (auto tsd = dynamic_cast<NiTriShapeData*>(obj)) {
		MatchGroup mg;
		mg.count = 2;
		mg.matches = {0, 1};
		tsd->SetMatchGroups({mg, mg});
		std::string e[3];
		for (int k = 0; k < 3; k++) {
			std::ostringstream o(std::ios::binary);
			NiOStream out(&o, &hdr);
			obj->Put(out);
			e[k] = o.str();
		}
		st.add("edited_block_resaves_checked");
		if (e[0] != e[1] || e[1] != e[2])
			st.violation(type + ":" + game_of(vc) + ":edited:put-twice-differs",
						 vf::strf("%s (%s) after SetMatchGroups: writing the same object again gives different bytes (1st vs 2nd: %s; 2nd vs 3rd: %s)", type.c_str(), vc.name,
								  first_diff(e[0], e[1]).c_str(), first_diff(e[1], e[2]).c_str()),
						 case_json(type, vc, s).set("edit", "SetMatchGroups"));
	}
}

// file level: every history over {R = raw save, D = default save, Q = query battery} against the
// reference function on histories (DESIGN C02): the k-th save must equal Save(default)(Load(F)) if a
// default save occurred at or before k, else Save(raw)(Load(F)) -- both from twin objects, compared
// after canonical string-table renumbering; the logical snapshot must survive every save.
// Save letters: R = raw (optimize off, sort off), D = default (both on), O = optimize only, S = sort only.  The model
// remembers what a save did to it (pruned blocks stay pruned, sorted blocks stay sorted), so the k-th save must equal
// the first save of a fresh twin under the options accumulated so far: optimize = some save so far optimised, sort =
// some save so far sorted.  One exception is left open: sorting BEFORE the first pruning (S ... O) - the order of the
// survivors is then not required to be the order a sort after pruning would give; only repeatability is demanded there.
// all_options = false (thorough tier, synthesised single-block files): of the histories that use a one-sided option set
// only OO, SS and OS run; pruning and sorting have nothing to distinguish on a two-block file
// edit (optional): an API edit applied to every freshly loaded object - the model under test and its twins alike -
// before the history starts ("saving a loaded OR EDITED model ...")
static void c02_file_checks(const std::string& F, const std::string& keybase, const std::string& what, J cj, Stats& st, bool all_options = true,
							const std::function<void(NifFile&)>& edit = nullptr) {
	canon::Canon refs[2][2];
	bool have[2][2] = {{false, false}, {false, false}};
	auto ref_for = [&](bool p, bool t) -> const canon::Canon* {
		if (!have[p][t]) {
			NifFile twin;
			if (s1::load(twin, F) != 0) return nullptr;
			if (edit) edit(twin);
			refs[p][t] = canon::canonical(canon::save_with(twin, p, t));
			have[p][t] = true;
		}
		return &refs[p][t];
	};
	{
		NifFile traw;
		if (s1::load(traw, F) != 0) { st.add("file_not_accepted"); return; }
	}
	st.add("files_checked");
	bat::Opt full, freeo;
	full.index_free = false;
	// GetShapePartitions is not read-only (it triangulates partition strips and fills caches), so it
	// cannot serve as a "read-only query" between saves
	full.lazy_getters = freeo.lazy_getters = false;
	freeo.index_free = true;
	freeo.bounds = false;
	freeo.reachable_only = true;
	for (auto& h : g_hists) {
		if (vf::deadline_passed()) { st.capped("deadline inside C02 histories"); return; }
		if (!all_options && h != "OO" && h != "SS" && h != "OS" && (h.find('O') != std::string::npos || h.find('S') != std::string::npos)) continue;
		NifFile x;
		if (s1::load(x, F) != 0) return;
		if (edit) edit(x);
		st.add("histories");
		std::string base_full = bat::model_text(x, full), base_free = bat::model_text(x, freeo);
		bool P = false, T = false, sortedBeforePruned = false;
		canon::Canon lastSave;
		bool haveLast = false;
		J cjh = cj;
		cjh.set("history", h);
		for (size_t k = 0; k < h.size(); k++) {
			char op = h[k];
			bool firstDefault = false; // this save pruned or sorted for the first time
			if (op == 'R' || op == 'D' || op == 'O' || op == 'S') {
				const bool p = op == 'D' || op == 'O', t = op == 'D' || op == 'S';
				if ((p && !P) || (t && !T)) firstDefault = true;
				if (p && !P && T) sortedBeforePruned = true;
				const bool changed = (p && !P) || (t && !T);
				P = P || p;
				T = T || t;
				canon::Canon got = canon::canonical(canon::save_with(x, p, t));
				st.add("saves_compared");
				const char* opname = op == 'R' ? "raw" : op == 'D' ? "default" : op == 'O' ? "optimize only" : "sort only";
				const canon::Canon* ref = sortedBeforePruned ? (haveLast && !changed ? &lastSave : nullptr) : ref_for(P, T);
				if (ref) {
					std::string d = canon::diff(*ref, got);
					if (!d.empty()) {
						st.violation(keybase + ":resave-differs:" + canon::first_block_type_differing(*ref, got),
									 vf::strf("%s: history %s, save #%zu (%s) differs from %s: %s", what.c_str(), h.c_str(), k + 1, opname,
											  sortedBeforePruned ? "the previous save of the same model" : "the first save of a fresh twin under the accumulated options", d.c_str()),
									 cjh);
						break;
					}
				}
				lastSave = got;
				haveLast = true;
			}
			std::string now_full = bat::model_text(x, full);
			st.add("snapshots_compared");
			if (firstDefault) {
				std::string now_free = bat::model_text(x, freeo);
				if (now_free != base_free) {
					if (getenv("VERIF_DEBUG")) {
						size_t k2 = 0;
						while (k2 < now_free.size() && k2 < base_free.size() && now_free[k2] == base_free[k2]) k2++;
						size_t from = k2 > 300 ? k2 - 300 : 0;
						fprintf(stderr, "--- before:\n%s\n--- after:\n%s\n", base_free.substr(from, 600).c_str(), now_free.substr(from, 600).c_str());
					}
					st.violation(keybase + ":snapshot-changed-by-default-save",
								 vf::strf("%s: history %s: index-free query results of the reachable model differ after the first default save (op #%zu)", what.c_str(),
										  h.c_str(), k + 1),
								 cjh);
					break;
				}
				base_full = now_full;
				base_free = now_free;
			}
			else if (now_full != base_full) {
				if (getenv("VERIF_DEBUG")) {
					size_t k2 = 0;
					while (k2 < now_full.size() && k2 < base_full.size() && now_full[k2] == base_full[k2]) k2++;
					size_t from = k2 > 300 ? k2 - 300 : 0;
					fprintf(stderr, "--- before:\n%s\n--- after:\n%s\n", base_full.substr(from, 500).c_str(), now_full.substr(from, 500).c_str());
				}
				st.violation(keybase + ":snapshot-changed",
							 vf::strf("%s: history %s: query results differ after op #%zu (%c): %s", what.c_str(), h.c_str(), k + 1, op,
									  first_diff(base_full, now_full).c_str()),
							 cjh);
				break;
			}
		}
		g_unit_file_outcomes.insert(vf::fnv(base_full, vf::fnv(h)));
	}
}

static void oracle_c02_file(const std::string& type, const VerCfg& vc, const Script& s, Stats& st) {
	s1::Built b = s1::build_s1(type, vc, s, g_wide);
	if (!b.ok) { st.add("file_not_built"); return; }
	c02_file_checks(b.file, type + ":" + game_of(vc), vf::strf("%s (%s)", type.c_str(), vc.name), case_json(type, vc, s), st, false);
}

// ---------- C07 ----------
// Header tables of a written file, checked by the independent parser (nifparse.hpp) plus a
// block-by-block re-read: bytes consumed by each type's *reader* must equal the size the
// *writer-side counter* put into the header.
static void c07_check_saved(const canon::Saved& sv, bool has_unknown, const std::string& keybase, const std::string& what, const J& cj, Stats& st) {
	st.add("saved_files_checked");
	const std::string& F = sv.bytes;
	np::Header h = np::parse(F);
	if (!h.ok) {
		st.violation(keybase + ":header-unparsable", what + ": independent parser rejects the written header: " + h.err, cj);
		return;
	}
	if (h.has_types) {
		if (h.typeidx.size() != h.nblocks) { st.violation(keybase + ":type-index-count", what + ": type index table length != block count", cj); return; }
		for (size_t i = 0; i < h.typeidx.size(); i++)
			if (h.typeidx[i] >= h.types.size()) {
				st.violation(keybase + ":type-index-out-of-range", vf::strf("%s: block %zu has type index %u but the table holds %zu names", what.c_str(), i, h.typeidx[i], h.types.size()), cj);
				return;
			}
	}
	if (h.has_sizes) {
		if (h.blocks_end + 8 != F.size() || !np::footer_ok(F, h.blocks_end)) {
			st.violation(keybase + ":size-table-walk",
						 vf::strf("%s: header end %zu + sum of block sizes = %zu, +8 footer != file length %zu (or footer bytes wrong)", what.c_str(), h.hdr_end, h.blocks_end, F.size()), cj);
			return;
		}
	}
	// re-read block by block with the library's readers
	{
		NiHeader hdr;
		NiVersion v((NiFileVersion) h.version, h.user, h.stream);
		hdr.SetVersion(v);
		for (auto& sname : h.strings) hdr.AddOrFindStringId(sname, true);
		std::istringstream is(F, std::ios::binary);
		is.seekg((std::streamoff) h.hdr_end);
		NiIStream in(&is, &hdr);
		auto& reg = NiFactoryRegister::Get();
		for (uint32_t i = 0; i < h.nblocks; i++) {
			std::string tn = h.type_of(i);
			auto f = reg.GetFactoryByName(tn);
			long long before = (long long) is.tellg();
			if (!f) {
				if (!h.has_sizes) break;
				is.seekg((std::streamoff) (h.block_off[i] + h.sizes[i]));
				continue;
			}
			std::unique_ptr<NiObject> b;
			try { b = f->Load(in); } catch (std::exception&) { st.add("reread_exception"); return; }
			if (is.fail()) {
				st.violation(keybase + ":block-reread-overrun:" + tn, vf::strf("%s: re-reading block %u (%s) runs past the end of the file", what.c_str(), i, tn.c_str()), cj);
				return;
			}
			long long used = (long long) is.tellg() - before;
			st.add("block_sizes_checked");
			if (h.has_sizes && used != (long long) h.sizes[i]) {
				st.violation(keybase + ":block-size-mismatch:" + tn,
							 vf::strf("%s: header says block %u (%s) has %u bytes, its reader consumes %lld", what.c_str(), i, tn.c_str(), h.sizes[i], used), cj);
				return;
			}
		}
		if (!h.has_sizes) {
			long long pos = (long long) is.tellg();
			if (pos < 0 || !np::footer_ok(F, (size_t) pos)) {
				st.violation(keybase + ":footer-walk", vf::strf("%s: after re-reading all %u blocks the reader is at %lld, not at an 8-byte footer ending the %zu byte file", what.c_str(), h.nblocks, pos, F.size()), cj);
				return;
			}
		}
	}
	if (h.has_strings) {
		uint32_t mx = 0;
		for (auto& t : h.strings) mx = std::max<uint32_t>(mx, (uint32_t) t.size());
		if (mx != h.maxstrlen)
			st.violation(keybase + ":max-string-length", vf::strf("%s: header maxStringLen %u but the longest string has %u bytes", what.c_str(), h.maxstrlen, mx), cj);
		if (!has_unknown) {
			std::vector<std::string> sorted = h.strings;
			std::sort(sorted.begin(), sorted.end());
			if (std::adjacent_find(sorted.begin(), sorted.end()) != sorted.end())
				st.violation(keybase + ":duplicate-string", what + ": string table holds a string twice", cj);
		}
		for (auto off : sv.stridx) {
			if (off < h.hdr_end || off + 4 > F.size()) continue;
			uint32_t idx;
			memcpy(&idx, F.data() + off, 4);
			st.add("string_indices_checked");
			if (idx != NIF_NPOS && idx >= h.strings.size()) {
				st.violation(keybase + ":string-index-out-of-range", vf::strf("%s: string index %u at offset %llu but the table holds %zu strings", what.c_str(), idx, (unsigned long long) off, h.strings.size()), cj);
				break;
			}
		}
	}
}

// every edit of the menu, applied to a fresh load of F, then saved raw and default
static const char* C07_EDITS[] = {"none", "delete-block", "add-node", "add-shape", "delete-vertex", "rename", "add-extra-data", "set-texture", "convert", "clone-shape", "key-interpolation", "replace-block-same-type", "header-info", "recreate", "object-reused"};

// every animation key group of a block: switch the interpolation type and add a key through the API
template<class G>
static void retime(G& g, bool& any) {
	if (g.GetNumKeys() == 0 && g.GetInterpolationType() == NO_INTERP) g.SetInterpolationType(LINEAR_KEY);
	NiKeyType t = g.GetInterpolationType() == QUADRATIC_KEY ? TBC_KEY : QUADRATIC_KEY;
	g.SetInterpolationType(t);
	auto k = g.GetNumKeys() > 0 ? g.GetKey(0) : decltype(g.GetKey(0))();
	k.time += 1.0f;
	g.AddKey(k);
	any = true;
}
static bool retime_block(NiObject* o) {
	bool any = false;
	if (auto d = dynamic_cast<NiKeyframeData*>(o)) { retime(d->xRotations, any); retime(d->yRotations, any); retime(d->zRotations, any); retime(d->translations, any); retime(d->scales, any); }
	if (auto d = dynamic_cast<NiPosData*>(o)) retime(d->data, any);
	if (auto d = dynamic_cast<NiBoolData*>(o)) retime(d->data, any);
	if (auto d = dynamic_cast<NiFloatData*>(o)) retime(d->data, any);
	if (auto d = dynamic_cast<NiUVData*>(o)) { retime(d->uTrans, any); retime(d->vTrans, any); retime(d->uScale, any); retime(d->vScale, any); }
	if (auto d = dynamic_cast<NiPSysEmitterCtlrData*>(o)) retime(d->floatKeys, any);
	if (auto d = dynamic_cast<NiColorData*>(o)) retime(d->data, any);
	return any;
}

static void c07_file_checks(const std::string& F, const std::string& keybase, const std::string& what, const J& cj, Stats& st, bool with_edits) {
	for (const char* edit : C07_EDITS) {
		std::string e = edit;
		if (!with_edits && e != "none") break;
		size_t variants = 1;
		for (size_t var = 0; var < variants; var++) {
			for (int raw = 1; raw >= 0; raw--) {
				if (vf::deadline_passed()) { st.capped("deadline inside C07 edits"); return; }
				NifFile x;
				if (s1::load(x, F) != 0) {
					// F was written by the library itself (s1 / chain / scene-graph builder, or is a sample file)
					np::Header hf = np::parse(F);
					st.violation(keybase + ":written-file-does-not-load", what + ": the library does not load the file it wrote; independent header parser: " + (hf.ok ? std::string("accepts it") : "rejects it (" + hf.err + ")"), cj);
					return;
				}
				auto& hdr = x.GetHeader();
				auto shapes = x.GetShapes();
				bool applied = true;
				if (e == "delete-block") {
					variants = std::min<size_t>(hdr.GetNumBlocks(), 40);
					uint32_t id = (uint32_t) var;
					// keep the root; geometry data blocks are only deleted together with their shape (shapes
					// cache a raw pointer to them -- deleting one alone is C06's subject, not a header matter)
					if (hdr.GetNumBlocks() <= 1 || id == 0 || hdr.GetBlock<NiGeometryData>(id)) applied = false;
					else hdr.DeleteBlock(id);
				}
				else if (e == "add-node") x.AddNode("VerifNode", MatTransform());
				else if (e == "add-shape") {
					std::vector<Vector3> v = {{0, 0, 0}, {1, 0, 0}, {0, 1, 0}, {0, 0, 1}};
					std::vector<Triangle> t = {{0, 1, 2}, {0, 2, 3}};
					std::vector<Vector2> uv = {{0, 0}, {1, 0}, {0, 1}, {1, 1}};
					if (!x.CreateShapeFromData("VerifShape", &v, &t, &uv)) applied = false;
				}
				else if (e == "delete-vertex") {
					variants = std::max<size_t>(1, std::min<size_t>(shapes.size(), 6));
					if (var < shapes.size() && shapes[var]->GetNumVertices() > 1) x.DeleteVertsForShape(shapes[var], {0});
					else applied = false;
				}
				else if (e == "rename") {
					if (!shapes.empty()) NifFile::RenameShape(shapes[0], "A much longer shape name than before, to move maxStringLen");
					else if (auto r = x.GetRootNode()) r->name.get() = "renamed root with a long name";
					else applied = false;
				}
				else if (e == "add-extra-data") {
					auto r = x.GetRootNode();
					if (r) { auto ed = std::make_unique<NiStringExtraData>(); ed->name.get() = "VerifED"; ed->stringData.get() = "payload"; x.AssignExtraData(r, std::move(ed)); }
					else applied = false;
				}
				else if (e == "set-texture") {
					if (!shapes.empty()) { std::string tex = "textures\\verif\\x_d.dds"; x.SetTextureSlot(shapes[0], tex, 0); }
					else applied = false;
				}
				else if (e == "convert") {
					auto& v = hdr.GetVersion();
					OptOptions oo;
					if (v.IsSK()) oo.targetVersion = NiVersion::getSSE();
					else if (v.IsSSE()) oo.targetVersion = NiVersion::getSK();
					else applied = false;
					if (applied) x.OptimizeFor(oo);
				}
				else if (e == "clone-shape") {
					if (!shapes.empty()) x.CloneShape(shapes[0], "VerifClone");
					else applied = false;
				}
				else if (e == "key-interpolation") {
					bool any = false;
					for (uint32_t i = 0; i < hdr.GetNumBlocks(); i++) if (auto o = hdr.GetBlock<NiObject>(i)) any = retime_block(o) || any;
					if (!any) applied = false;
				}
				else if (e == "replace-block-same-type") {
					// replace block #var by a copy of itself (ReplaceBlock with a fresh block of the same type)
					variants = std::min<size_t>(hdr.GetNumBlocks(), 40);
					uint32_t id = (uint32_t) var;
					auto o = hdr.GetBlock<NiObject>(id);
					if (!o || dynamic_cast<NiGeometryData*>(o) || dynamic_cast<NiShape*>(o)) applied = false; // shapes / geometry data are linked through cached pointers
					else hdr.ReplaceBlock(id, o->Clone());
				}
				else if (e == "object-reused") {
					// the object first holds and SAVES another model (one with a block size table, one without), then loads F:
					// nothing of the earlier save may leak into the next one
					variants = 2;
					x.Create(var == 0 ? NiVersion::getSSE() : NiVersion::getOB());
					x.AddNode("Earlier", MatTransform());
					(void) s1::save(x, true);
					if (s1::load(x, F) != 0) applied = false;
				}
				else if (e == "recreate") {
					// the object that held the loaded file is reused for a new model (Create), which gets a node and a shape
					NiVersion v = hdr.GetVersion();
					x.Create(v);
					x.AddNode("Recreated", MatTransform());
					std::vector<Vector3> vv = {Vector3(0, 0, 0), Vector3(1, 0, 0), Vector3(0, 1, 0)};
					std::vector<Triangle> tt = {Triangle(0, 1, 2)};
					std::vector<Vector2> uu = {Vector2(0, 0), Vector2(1, 0), Vector2(0, 1)};
					x.CreateShapeFromData("RecreatedShape", &vv, &tt, &uu, nullptr);
				}
				else if (e == "header-info") {
					// the header's free-text fields through their setters: export info of every length around the points where
					// the setter splits it into its three length-prefixed strings (1-byte lengths), and a creator string
					static const size_t LENS[] = {0, 1, 253, 254, 255, 256, 507, 508, 509, 510, 761, 762, 763, 764, 1000};
					variants = sizeof LENS / sizeof LENS[0];
					std::string info;
					for (size_t i = 0; i < LENS[var]; i++) info += (char) ('a' + i % 26);
					hdr.SetExportInfo(info);
					// creator string: lengths around what its 1-byte length prefix (which also counts the terminator) can hold
					static const size_t CLENS[] = {0, 5, 253, 254, 255, 256, 300, 511};
					std::string creator;
					for (size_t i = 0; i < CLENS[var % 8]; i++) creator += (char) ('A' + i % 26);
					hdr.SetCreatorInfo(creator);
				}
				if (!applied) break;
				vf::set_inflight(J(cj).set("edit", e).set("variant", (long long) var).set("raw", raw == 1).dump());
				st.add(std::string("edit_") + edit);
				canon::Saved sv = canon::save(x, raw == 1);
				J cje = cj;
				cje.set("edit", e).set("variant", (long long) var).set("raw", raw == 1);
				c07_check_saved(sv, x.HasUnknown(), keybase + ":" + (e == "none" ? std::string("roundtrip") : "after-" + e), vf::strf("%s, edit %s#%zu, %s save", what.c_str(), edit, var, raw ? "raw" : "default"), cje, st);
				g_unit_file_outcomes.insert(vf::fnv(sv.bytes));
			}
		}
	}
}

static void oracle_c07_file(const std::string& type, const VerCfg& vc, const Script& s, Stats& st) {
	s1::Built b = s1::build_s1(type, vc, s, g_wide);
	if (!b.ok) { st.add("file_not_built"); return; }
	st.add("files_checked");
	c07_file_checks(b.file, type + ":" + game_of(vc), vf::strf("%s (%s)", type.c_str(), vc.name), case_json(type, vc, s), st, s.empty());
}

static void oracle_copy_bytes(const std::string& F, const std::string& keybase, const std::string& what, const J& cj0, Stats& st);

// ---------- linked chains (corpus SP) ----------
static J chain_json(const sp::Chain& ch, const VerCfg& vc, size_t vary, const Script& s) {
	return J::obj().set("chain", ch.name).set("version", vc.name).set("vary", (long long) vary).set("member", ch.types[vary]).set("wide", g_wide).set("script", script_json(s));
}

static std::vector<Point> run_chain(const sp::Chain& ch, const VerCfg& vc, size_t vary, const Script& s, Stats& st) {
	J cj = chain_json(ch, vc, vary, s);
	vf::set_inflight(cj.dump());
	sp::Built b = sp::build(ch, vc, vary, s, g_wide);
	if (g_after_get) g_after_get(b.points);
	if (b.capped) { st.add("capped_executions"); return b.points; }
	if (!b.ok) { st.add("file_not_built"); return b.points; }
	st.add("evaluations");
	st.add("chain_files");
	if (!s.empty() || b.populated) g_unit_nontrivial.insert(b.tape_hash);
	if (st.samples.empty() && s.size() == 1) st.sample(J(cj).set("file_bytes", (long long) b.file.size()));
	std::string keybase = std::string("chain:") + ch.name + ":" + ch.types[vary] + ":" + game_of(vc);
	std::string what = vf::strf("chain %s (%s), member %s varied", ch.name, vc.name, ch.types[vary]);
	if (A.prop == "C01") c01_file_checks(b.file, keybase, what, cj, st);
	else if (A.prop == "C02") c02_file_checks(b.file, keybase, what, cj, st);
	else if (A.prop == "C07") { st.add("files_checked"); c07_file_checks(b.file, keybase, what, cj, st, s.empty()); }
	else if (A.prop == "C11") oracle_copy_bytes(b.file, keybase, what, cj, st);
	return b.points;
}

// ---------- scene graphs from the construction grammar (corpus SG) ----------
static void run_sg(const sg::Spec& sp_, Stats& st) {
	J cj = J::obj().set("sg", sg::spec_json(sp_));
	vf::set_inflight(cj.dump());
	NifFile n;
	if (!sg::build(sp_, n)) { st.add("file_not_built"); return; }
	std::string F = s1::save(n, true);
	if (F.empty()) { st.add("file_not_built"); return; }
	st.add("evaluations");
	st.add("sg_files");
	g_unit_nontrivial.insert(vf::fnv(F));
	std::string keybase = "sg:" + sp_.ver + ":" + sg::ATTACH[sp_.attach];
	std::string what = "scene graph " + sg::spec_str(sp_);
	if (A.prop == "C01") c01_file_checks(F, keybase, what, cj, st);
	else if (A.prop == "C02") {
		c02_file_checks(F, keybase, what, cj, st);
		// the same histories on the model as BUILT through the API (never loaded): its values have not been through
		// the file format yet, so a save that writes rounded or normalised values back into the model shows here
		bat::Opt full;
		full.index_free = true; // the first save of an Oblivion model adds the derived tangent-space block: the block list is not logical content
		full.derived_blocks = false;
		full.lazy_getters = false;
		for (const char* h : {"R", "RR", "D", "DR"}) {
			NifFile m;
			if (!sg::build(sp_, m)) break;
			std::string before = bat::model_text(m, full);
			bool seenDefault = false;
			for (const char* op = h; *op; op++) {
				bool firstDefault = *op == 'D' && !seenDefault;
				if (*op == 'D') seenDefault = true;
				s1::save(m, *op == 'R');
				st.add("saves_of_api_built_models");
				std::string after = bat::model_text(m, full);
				if (firstDefault) { before = after; continue; } // pruning / sorting / bounds: compared from here on
				if (after != before) {
					st.violation(keybase + ":api-built-model-changed-by-save",
								 vf::strf("%s: history %s on the model as built through the API: query results differ after save #%d: %s", what.c_str(), h, (int) (op - h) + 1,
										  first_diff(before, after).c_str()),
								 J(cj).set("history", h).set("api_built", true));
					break;
				}
			}
		}
	}
	else if (A.prop == "C07") { st.add("files_checked"); c07_file_checks(F, keybase, what, cj, st, false); }
}

// ---------- sample files (corpus R) ----------
static std::vector<std::string> g_rfiles;

static void list_rfiles() {
	for (const char* sub : {"/tests/input", "/tests/expected"}) {
		std::string dir = A.repo + sub;
		DIR* d = opendir(dir.c_str());
		if (!d) continue;
		std::vector<std::string> names;
		while (auto e = readdir(d)) {
			std::string n = e->d_name;
			if (n.size() > 4 && n.substr(n.size() - 4) == ".nif") names.push_back(n);
		}
		closedir(d);
		std::sort(names.begin(), names.end());
		for (auto& n : names) g_rfiles.push_back(std::string(sub + 7) + "/" + n); // "input/x.nif", "expected/x.nif"
	}
}

static void run_rfile(const std::string& rel, Stats& st) {
	J cj = J::obj().set("file", rel);
	vf::set_inflight(cj.dump());
	std::string F0 = vf::read_file(A.repo + "/tests/" + rel);
	std::string keybase = "file:" + rel;
	NifFile a;
	if (s1::load(a, F0) != 0) { st.add("file_not_accepted"); return; }
	std::string F = s1::save(a, true); // normal form
	st.add("evaluations");
	g_unit_nontrivial.insert(vf::fnv(F0));
	if (st.samples.size() < 2) st.sample(cj.set("bytes", (long long) F0.size()));
	if (A.prop == "C01") c01_file_checks(F, keybase, rel, cj, st);
	else if (A.prop == "C02") {
		c02_file_checks(F0, keybase, rel, cj, st);
		// the same histories on an EDITED model: every shape gets vertex colours through the API (on a skinned SSE shape the
		// vertex format of the shape then differs from the one its skin partition still carries, until a save carries it over)
		auto colours = [](NifFile& n) {
			for (auto sh : n.GetShapes()) {
				uint16_t nv = sh->GetNumVertices();
				if (nv == 0) continue;
				std::vector<Color4> c;
				for (uint16_t i = 0; i < nv; i++) c.push_back(Color4(0.25f * (float) (i % 4), 0.5f, 1.0f - 0.125f * (float) (i % 8), 0.75f));
				n.SetColorsForShape(sh, c);
			}
		};
		if (F0.size() <= (size_t) 400000) {
			st.add("edited_sample_files");
			c02_file_checks(F0, keybase + ":edited-colours", rel + " with vertex colours set on every shape", J(cj).set("edit", "SetColorsForShape"), st, true, colours);
		}
	}
	else if (A.prop == "C07") {
		st.add("files_checked");
		c07_file_checks(F0, keybase, rel, cj, st, true);
	}
}

// ---------- C11 / C14 rider: copying a block (Clone) and copying a model yields the same bytes ----------
// Every registered block type has a hand-written or generated copy constructor; C11 (model copy) and C14 (shape
// cloning copies child blocks) both rest on "a copied block writes what the original writes".  The sample files
// contain 86 of the 304 types; this rider covers all of them, for every decision path within the bound.
static void oracle_clone_block(const std::string& type, const VerCfg& vc, const Script& s, Stats& st, NiObject* obj, NiHeader& hdr) {
	auto put = [&](NiObject* o) {
		std::ostringstream os(std::ios::binary);
		NiOStream out(&os, &hdr);
		o->Put(out);
		return os.str();
	};
	std::unique_ptr<NiObject> c1 = obj->Clone();	  // clone BEFORE the original is written (writing may normalise the original)
	std::string a = put(c1.get());
	std::string b = put(obj);
	std::unique_ptr<NiObject> c2 = obj->Clone();
	std::unique_ptr<NiObject> c3 = c2->Clone();		  // clone of a clone
	std::string c = put(c3.get());
	st.add("block_clones_checked");
	J cj = case_json(type, vc, s).set("runner", "e1_main.cpp");
	// a clone is an object of the same class (the bytes alone cannot tell two classes with the same layout apart)
	if (typeid(*c1) != typeid(*obj) || std::string(c1->GetBlockName()) != obj->GetBlockName() || typeid(*c3) != typeid(*obj))
		st.violation(type + ":" + game_of(vc) + ":clone-is-another-class", vf::strf("%s (%s): Clone() of a %s yields a %s", type.c_str(), vc.name, obj->GetBlockName(), c1->GetBlockName()), cj);
	if (a != b)
		st.violation(type + ":" + game_of(vc) + ":clone-bytes-differ", vf::strf("%s (%s): a clone of the block writes different bytes than the block itself (%s)", type.c_str(), vc.name, first_diff(b, a).c_str()), cj);
	else if (c != b)
		st.violation(type + ":" + game_of(vc) + ":clone-of-clone-bytes-differ", vf::strf("%s (%s): a clone of a clone writes different bytes (%s)", type.c_str(), vc.name, first_diff(b, c).c_str()), cj);
	g_unit_outcomes.insert(vf::fnv(b));
}

// copy oracle on the bytes of one file (an E1 single-block file or a linked chain); keybase = "<type>:<game>" or "chain:..."
static void oracle_copy_bytes(const std::string& F, const std::string& keybase, const std::string& what, const J& cj0, Stats& st);
static void oracle_copy_file(const std::string& type, const VerCfg& vc, const Script& s, Stats& st) {
	s1::Built b = s1::build_s1(type, vc, s, g_wide);
	if (!b.ok) { st.add("file_not_built"); return; }
	oracle_copy_bytes(b.file, type + ":" + game_of(vc), vf::strf("%s (%s)", type.c_str(), vc.name), case_json(type, vc, s), st);
}
static void oracle_copy_bytes(const std::string& F, const std::string& keybase, const std::string& what, const J& cj0, Stats& st) {
	NifFile src, twin;
	if (s1::load(src, F) != 0 || s1::load(twin, F) != 0) { st.add("file_not_accepted"); return; }
	st.add("files_checked");
	J cj = J(cj0).set("runner", "e1_main.cpp");
	std::string ref = s1::save(twin, true);
	{
		// the copy stands alone: the source is destroyed BEFORE the copy is saved (a copy that still reaches into the
		// source's blocks then touches freed memory, which the sanitizer reports)
		std::unique_ptr<NifFile> s2(new NifFile());
		if (s1::load(*s2, F) == 0) {
			NifFile alone(*s2);
			s2.reset();
			std::string gotAlone = s1::save(alone, true);
			if (gotAlone != ref) st.violation(keybase + ":model-copy-bytes-differ", what + ": a copy saved after its source was destroyed differs from the source's save (" + first_diff(ref, gotAlone) + ")", cj);
			// and a default save (bounds are recomputed through the shapes' cached geometry) against a twin's default save
			NifFile twinD;
			if (s1::load(twinD, F) == 0) {
				std::string refD = s1::save(twinD, false), gotD = s1::save(alone, false);
				if (gotD != refD) st.violation(keybase + ":model-copy-bytes-differ", what + ": a default save of a copy whose source was destroyed differs from a twin's default save (" + first_diff(refD, gotD) + ")", cj);
			}
		}
	}
	{
		NifFile copy(src);
		{
			// block by block the copy holds objects of the same classes
			auto &hs = src.GetHeader(), &hc = copy.GetHeader();
			for (uint32_t i = 0; i < hs.GetNumBlocks() && i < hc.GetNumBlocks(); i++) {
				auto a0 = hs.GetBlock<NiObject>(i), c0 = hc.GetBlock<NiObject>(i);
				if (a0 && c0 && typeid(*a0) != typeid(*c0)) {
					st.violation(keybase + ":model-copy-block-is-another-class", vf::strf("%s: block %u of the copy is a %s, the source's is a %s", what.c_str(), i, c0->GetBlockName(), a0->GetBlockName()), cj);
					break;
				}
			}
		}
		std::string got = s1::save(copy, true);
		if (got != ref) st.violation(keybase + ":model-copy-bytes-differ", vf::strf("%s: a copy-constructed model saves differently from its source (%s)", what.c_str(), first_diff(ref, got).c_str()), cj);
		NifFile assigned;
		assigned = src;
		std::string got2 = s1::save(assigned, true);
		if (got2 != ref) st.violation(keybase + ":model-copy-bytes-differ", vf::strf("%s: an assigned model saves differently from its source (%s)", what.c_str(), first_diff(ref, got2).c_str()), cj);
	}
	// the source is untouched by copying and by the copies' destruction
	std::string after = s1::save(src, true);
	if (after != ref) st.violation(keybase + ":source-changed-by-copy", vf::strf("%s: the source saves differently after it was copied (%s)", what.c_str(), first_diff(ref, after).c_str()), cj);
	g_unit_file_outcomes.insert(vf::fnv(ref));
}

// ---------- one execution ----------

static std::vector<Point> run_one(const std::string& type, const VerCfg& vc, const Script& s, Stats& st, bool replay = false) {
	vf::set_inflight(case_json(type, vc, s).dump());
	Tape tape;
	tape.script = &s;
	tape.wide = g_wide;
	tape.tag_refs = (A.prop == "C05");
	NiHeader hdr;
	hdr.SetVersion(vc.ver());
	seed_strings(hdr);
	std::unique_ptr<NiObject> obj;
	try {
		obj = load_block(type, hdr, tape);
	} catch (TapeCap&) {
		st.add("capped_executions");
		return tape.points;
	} catch (TapeDiverged&) {
		if (replay) vf::fatal("replay diverged: the script does not fit this tree's decision points");
		vf::fatal("internal: script diverged for " + case_json(type, vc, s).dump());
	} catch (std::exception& e) {
		st.add("rejected_by_exception");
		return tape.points;
	}
	if (g_after_get) g_after_get(tape.points);
	st.add("evaluations");
	st.max("tape_bytes", (long long) tape.bytes.size());
	st.max("choice_points", (long long) tape.points.size());
	if (!s.empty() || tape.populated) g_unit_nontrivial.insert(vf::fnv(tape.bytes));
	if (st.samples.empty() && s.size() == (size_t) g_bound)
		st.sample(case_json(type, vc, s).set("tape_bytes", (long long) tape.bytes.size()).set("tape_head", vf::hexbytes(tape.bytes, 24)));
	if (A.prop == "C05") {
		oracle_c05(type, vc, s, st, tape, obj.get(), hdr);
		if ((int) s.size() <= g_carried_dev && g_carried) c05_carried(type, vc, s, st);
	}
	else if (A.prop == "C01") {
		oracle_c01_block(type, vc, s, st, tape, obj.get(), hdr);
		obj.reset();
		if (g_file_level == 2 ? (int) s.size() <= g_file_dev : (g_file_level == 1 && s.empty())) oracle_c01_file(type, vc, s, st);
	}
	else if (A.prop == "C02") {
		oracle_c02_block(type, vc, s, st, obj.get(), hdr);
		obj.reset();
		if (g_file_level == 2 ? (int) s.size() <= g_file_dev : (g_file_level == 1 && s.empty())) oracle_c02_file(type, vc, s, st);
	}
	else if (A.prop == "C07") {
		obj.reset();
		if ((int) s.size() <= g_file_dev) oracle_c07_file(type, vc, s, st);
	}
	else if (A.prop == "C11" || A.prop == "C14") {
		oracle_clone_block(type, vc, s, st, obj.get(), hdr);
		obj.reset();
		if (A.prop == "C11" && (g_file_level == 2 ? (int) s.size() <= g_file_dev : (g_file_level == 1 && s.empty()))) oracle_copy_file(type, vc, s, st);
	}
	return tape.points;
}

// Fork-per-execution mode for units in which a synthesised input has already killed a worker
// (sanitizer fault inside the reader = "input not accepted", DESIGN section 5 e).  The child runs
// the execution and its oracle, then sends the choice points and its protocol lines back.
static std::vector<Point> run_isolated_generic(const std::function<std::vector<Point>(Stats&)>& body, Stats& st, const std::string& keybase, const J& cj) {
	int fd[2];
	if (pipe(fd) != 0) vf::fatal("pipe failed");
	fflush(stdout);
	pid_t pid = fork();
	if (pid < 0) vf::fatal("fork failed");
	if (pid == 0) {
		close(fd[0]);
		Stats cs;
		g_unit_nontrivial.clear();
		g_unit_outcomes.clear();
		g_unit_file_outcomes.clear();
		FILE* f = fdopen(fd[1], "w");
		bool sent = false;
		g_after_get = [&](const std::vector<Point>& pts) {
			uint32_t n = (uint32_t) pts.size();
			fwrite(&n, 4, 1, f);
			if (n) fwrite(pts.data(), sizeof(Point), n, f);
			fflush(f);
			sent = true;
		};
		std::vector<Point> pts = body(cs);
		if (!sent) g_after_get(pts); // capped / rejected by exception: still report the points seen
		cs.add("distinct_nontrivial", (long long) g_unit_nontrivial.size());
		cs.add("distinct_outcomes", (long long) g_unit_outcomes.size());
		cs.add("distinct_file_outcomes", (long long) g_unit_file_outcomes.size());
		fputc('\n', f); // end-of-points marker precedes the protocol lines
		cs.flush(f);
		fputs("END\n", f);
		fclose(f);
		_exit(0);
	}
	close(fd[1]);
	std::string buf;
	char tmp[65536];
	ssize_t r;
	while ((r = read(fd[0], tmp, sizeof tmp)) > 0) buf.append(tmp, (size_t) r);
	close(fd[0]);
	int status = 0;
	waitpid(pid, &status, 0);
	std::vector<Point> pts;
	bool clean = WIFEXITED(status) && WEXITSTATUS(status) == 0;
	bool got_points = false;
	if (buf.size() >= 4) {
		uint32_t n;
		memcpy(&n, buf.data(), 4);
		size_t off = 4 + (size_t) n * sizeof(Point);
		if (buf.size() >= off) {
			got_points = true;
			pts.resize(n);
			if (n) memcpy(pts.data(), buf.data() + 4, (size_t) n * sizeof(Point));
			if (clean && buf.size() > off + 1) {
				std::string text = buf.substr(off + 1);
				if (text.size() >= 4 && text.compare(text.size() - 4, 4, "END\n") == 0) st.raw.append(text, 0, text.size() - 4);
			}
		}
	}
	if (!clean) {
		vf::CrashInfo ci = vf::read_crash(A.rundir, pid, status, A.repo);
		if (got_points) {
			// the reader accepted the block; the fault happened while writing it back or re-reading the library's own output
			st.add("faults_after_accept");
			// (C11/C14 rider: the fault happened while cloning / copying the accepted input, saving the copy or destroying either side)
			if (A.prop == "C01" || A.prop == "C11" || A.prop == "C14")
				st.violation(keybase + ":fault-after-accept:" + ci.key(),
							 vf::strf("%s: the input was accepted, then %s faulted: %s in %s", keybase.c_str(),
									  A.prop == "C01" ? "writing it back or reloading the written file" : "cloning / copying it, saving the copy or destroying either side", ci.cls.c_str(), ci.frame.c_str()),
							 cj);
		}
		else {
			st.add("rejected_by_fault");
			st.distinct("fault_sites", ci.key());
		}
	}
	st.add("isolated_executions");
	return pts;
}

static std::vector<Point> run_one_isolated(const std::string& type, const VerCfg& vc, const Script& s, Stats& st) {
	return run_isolated_generic([&](Stats& cs) { return run_one(type, vc, s, cs); }, st, type + ":" + game_of(vc), case_json(type, vc, s));
}

static const VerCfg* find_ver(const std::string& n) {
	for (auto& v : all_versions()) if (n == v.name) return &v;
	return nullptr;
}

int main(int argc, char** argv) {
	A = vf::parse_args(argc, argv);
	install_hooks();
	Stats top;
	g_types = all_type_names();
	bool thorough = A.thorough();
	g_vers = all_versions();
	g_bound = (int) A.geti("bound", thorough ? 2 : 1);
	g_wide = A.geti("wide", 1) != 0;
	g_file_level = (int) A.geti("filelevel", thorough ? 2 : 1);
	g_file_dev = (int) A.geti("filedev", 1);
	g_carried = A.geti("carried", 1) != 0;
	g_carried_dev = (int) A.geti("carrieddev", thorough ? 1 : 0);
	// deviation bound inside the linked chains (one member varies): C01 1 / 2, C07 1 / 1, others 0 / 1 (measured cost:
	// C02 runs every history on every chain file)
	{
		int cb = thorough ? 1 : 0;
		if (A.prop == "C01") cb = thorough ? 2 : 1;
		if (A.prop == "C07") cb = 1;
		g_chain_bound = (int) A.geti("chainbound", cb);
	}
	if (A.prop == "C07") {
		g_bound = (int) A.geti("bound", thorough ? 2 : 1);
		g_file_dev = (int) A.geti("filedev", thorough ? 1 : 0);
	}
	if (A.prop == "C02") {
		if (thorough) g_hists = all_histories(3);
		else g_hists = {"RRR", "DDD", "RD", "DR", "QRQ", "OO", "SS", "OS"};
		if (A.has("hist")) g_hists = {A.get("hist")};
		g_bound = (int) A.geti("bound", 1); // block level: deviation <= 1 wide; thorough raises the file level instead
		if (thorough && !A.has("bound")) g_bound = 2;
	}
	if (A.has("type")) g_types = {A.get("type")};
	if (A.has("version")) { auto v = find_ver(A.get("version")); if (!v) vf::fatal("unknown version"); g_vers = {*v}; }

	if (!A.replay.empty()) {
		J r = J::parse(vf::read_file(A.replay));
		const J& c = r["case"];
		g_hists = all_histories(3);
		if (c.has("history")) g_hists = {c["history"].str()};
		if (c.has("sg")) {
			run_sg(sg::spec_from(c["sg"]), top);
			vf::finish(top);
			return 0;
		}
		if (c.has("chain")) {
			g_wide = c["wide"].t == J::BOOL ? c["wide"].b : true;
			for (auto& ch : sp::chains())
				if (c["chain"].str() == ch.name) {
					auto cv = sp::find_ver(c["version"].str());
					if (!cv) vf::fatal("replay: unknown version");
					run_chain(ch, *cv, (size_t) c["vary"].i64(), script_from_json(c["script"]), top);
				}
			vf::finish(top);
			return 0;
		}
		if (c.has("file")) {
			run_rfile(c["file"].str(), top);
			vf::finish(top);
			return 0;
		}
		if (c.has("carried_from")) {
			auto va = find_ver(c["carried_from"].str());
			if (!va) vf::fatal("replay: unknown version " + c["carried_from"].str());
			g_wide = c["wide"].t == J::BOOL ? c["wide"].b : true;
			c05_carried(c["type"].str(), *va, c.has("script") ? script_from_json(c["script"]) : Script(), top);
			vf::finish(top);
			return 0;
		}
		auto v = find_ver(c["version"].str());
		if (!v) vf::fatal("replay: unknown version " + c["version"].str());
		g_wide = c["wide"].t == J::BOOL ? c["wide"].b : true;
		g_file_level = 2;
		g_file_dev = 99;
		Script s = script_from_json(c["script"]);
		run_one(c["type"].str(), *v, s, top, true);
		vf::finish(top);
		return 0;
	}

	struct Unit { size_t t, v; long rfile; long chain = -1; const VerCfg* cv = nullptr; size_t vary = 0; long sg = -1; };
	std::vector<Unit> units;
	std::vector<sg::Spec> sgspecs;
	if ((A.prop == "C01" || A.prop == "C02" || A.prop == "C07") && !A.has("type") && A.geti("sg", 1)) {
		sgspecs = sg::all_specs(thorough);
		// 16 specs per unit
		for (size_t i = 0; i < sgspecs.size(); i += 16) { Unit u{0, 0, -1}; u.sg = (long) i; units.push_back(u); }
	}
	const bool file_props = A.prop == "C01" || A.prop == "C02" || A.prop == "C07" || (A.prop == "C11" && A.geti("chains", 0) != 0);
	if (file_props && !A.has("type") && A.geti("chains", 1)) {
		for (size_t c = 0; c < sp::chains().size(); c++)
			for (auto vn : sp::chains()[c].versions) {
				const VerCfg* cv = sp::find_ver(vn);
				if (!cv) vf::fatal(std::string("chain version unknown: ") + vn);
				for (size_t m = 0; m < sp::chains()[c].types.size(); m++) { Unit u{0, 0, -1}; u.chain = (long) c; u.cv = cv; u.vary = m; units.push_back(u); }
			}
	}
	// sample files first (the big ones take longest)
	if ((A.prop == "C01" || A.prop == "C02" || A.prop == "C07") && !A.has("type") && A.geti("rfiles", 1)) {
		list_rfiles();
		for (size_t i = 0; i < g_rfiles.size(); i++) units.push_back({0, 0, (long) i});
	}
	if (A.geti("e1", 1))
		for (size_t t = 0; t < g_types.size(); t++)
			for (size_t v = 0; v < g_vers.size(); v++) units.push_back({t, v, -1});

	vf::PoolCfg pc;
	pc.jobs = A.jobs;
	pc.rundir = A.rundir;
	pc.repo = A.repo;
	auto unit_fn = [&](size_t u, const std::vector<std::string>& skips, long, Stats& st) {
		if (units[u].sg >= 0) {
			g_unit_nontrivial.clear();
			g_unit_outcomes.clear();
			g_unit_file_outcomes.clear();
			for (size_t i = (size_t) units[u].sg; i < std::min(sgspecs.size(), (size_t) units[u].sg + 16); i++) {
				if (vf::deadline_passed()) { st.capped("deadline inside scene-graph unit"); break; }
				run_sg(sgspecs[i], st);
			}
			st.add("sg_units");
			st.add("distinct_nontrivial", (long long) g_unit_nontrivial.size());
			st.add("distinct_file_outcomes", (long long) g_unit_file_outcomes.size());
			return;
		}
		if (units[u].chain >= 0) {
			const sp::Chain& ch = sp::chains()[(size_t) units[u].chain];
			ExploreCfg cfg;
			cfg.bound = g_chain_bound;
			cfg.wide = g_wide;
			const bool isolated = !skips.empty();
			g_unit_nontrivial.clear();
			g_unit_outcomes.clear();
			g_unit_file_outcomes.clear();
			bool complete = explore(cfg, [&](const Script& s) {
				if (!isolated) return run_chain(ch, *units[u].cv, units[u].vary, s, st);
				return run_isolated_generic([&](Stats& cs) { return run_chain(ch, *units[u].cv, units[u].vary, s, cs); }, st,
											std::string("chain:") + ch.name + ":" + ch.types[units[u].vary] + ":" + game_of(*units[u].cv), chain_json(ch, *units[u].cv, units[u].vary, s));
			});
			if (!complete) st.capped(std::string("deadline inside chain ") + ch.name);
			st.add("chain_units");
			st.add("distinct_nontrivial", (long long) g_unit_nontrivial.size());
			st.add("distinct_file_outcomes", (long long) g_unit_file_outcomes.size());
			return;
		}
		if (units[u].rfile >= 0) {
			g_unit_nontrivial.clear();
			g_unit_outcomes.clear();
			g_unit_file_outcomes.clear();
			run_rfile(g_rfiles[(size_t) units[u].rfile], st);
			st.add("sample_file_units");
			st.add("distinct_nontrivial", (long long) g_unit_nontrivial.size());
			st.add("distinct_file_outcomes", (long long) g_unit_file_outcomes.size());
			return;
		}
		const std::string& type = g_types[units[u].t];
		const VerCfg& vc = g_vers[units[u].v];
		ExploreCfg cfg;
		cfg.bound = g_bound;
		cfg.wide = g_wide;
		const bool isolated = !skips.empty(); // this unit killed a worker before: fork per execution
		g_unit_nontrivial.clear();
		g_unit_outcomes.clear();
		g_unit_file_outcomes.clear();
		bool complete = explore(cfg, [&](const Script& s) { return isolated ? run_one_isolated(type, vc, s, st) : run_one(type, vc, s, st); });
		if (!complete) st.capped("deadline reached inside unit " + type + "/" + vc.name);
		st.add("units");
		st.add("distinct_nontrivial", (long long) g_unit_nontrivial.size());
		st.add("distinct_outcomes", (long long) g_unit_outcomes.size());
		st.add("distinct_file_outcomes", (long long) g_unit_file_outcomes.size());
	};
	auto crash_fn = [&](size_t u, const vf::CrashInfo& ci, const std::string& inflight, Stats& parent) -> std::string {
		if (units[u].sg >= 0) {
			J cj;
			try { cj = J::parse(inflight); } catch (std::exception&) {}
			parent.violation("sg:crash:" + ci.key(), "worker died (" + ci.cls + " in " + ci.frame + ") on an API-built scene graph " + inflight.substr(0, 300), cj);
			return "";
		}
		if (units[u].chain >= 0) {
			parent.distinct("fault_sites", ci.key());
			parent.add("units_isolated");
			return "ISOLATE";
		}
		if (units[u].rfile >= 0) {
			// a sample file is a valid input: a fault while loading / saving it is a defect, not a rejection
			J cj = J::obj().set("file", g_rfiles[(size_t) units[u].rfile]);
			try { cj = J::parse(inflight); } catch (std::exception&) {}
			parent.violation("file:" + g_rfiles[(size_t) units[u].rfile] + ":crash:" + ci.key(), "worker died (" + ci.cls + " in " + ci.frame + ") on a sample file", cj);
			return "";
		}
		// a sanitizer fault while reading a synthesised block = input not accepted (DESIGN section 5, e)
		parent.distinct("fault_sites", ci.key());
		if (parent.cnt["units_isolated"] < 8) parent.note("unit re-run with one forked child per execution after " + ci.key() + " on " + inflight.substr(0, 300));
		parent.add("units_isolated");
		return "ISOLATE";
	};
	vf::run_pool(units.size(), pc, unit_fn, crash_fn, top);

	top.set_info("rule",
				 vf::strf("stateless DFS over the answers given to typed stream reads of one block (%zu types x %zu version configs), "
						  "deviation bound %d from the all-defaults answer, %s alphabets, branching only at the first occurrence of a call site; "
						  "distinct_nontrivial = distinct tapes (by hash of type+version+bytes) with >=1 deviation or >=1 populated array",
						  g_types.size(), g_vers.size(), g_bound, g_wide ? "wide" : "narrow"));
	top.set_info("deviation_bound", g_bound);
	if (A.prop == "C02") top.set_info("histories", J::arr_of(g_hists));
	top.set_info("sample_files", (long long) g_rfiles.size());
	top.set_info("types", (long long) g_types.size());
	top.set_info("version_configs", (long long) g_vers.size());
	vf::finish(top);
	return 0;
}
