// C15: corrupted block references never crash loading, querying, copying or saving.
// Fault enumeration: every reference field of every corpus file (offsets from the write-side
// reference hook) x corruption kinds, then 2 and 3 simultaneous corruptions on small files; each
// placement runs Load -> query battery -> copy -> Save(default) -> Load(output) -> destroy in a
// sanitised worker with a watchdog.
#include "e3.hpp"

using namespace nifly;
using namespace e3;

static vf::Args A;
static int g_watchdog = 5;

struct Patch { uint32_t off, val; };
using Placement = std::vector<Patch>;

struct Plan {
	std::string bytes;				  // raw-saved normal form of the entry
	std::vector<uint32_t> ref_off;	  // offsets of reference fields
	std::vector<uint32_t> ref_block;  // owning block of each field
	std::vector<uint32_t> ref_orig;	  // original value
	uint32_t nblocks = 0;
	std::vector<std::vector<uint32_t>> kinds;		  // full value set per field
	std::vector<std::vector<uint32_t>> reduced_kinds; // {NPOS, own, root}
	std::vector<std::string> types;
};

static std::vector<size_t> block_starts(const std::string& F, const np::Header& h) {
	std::vector<size_t> r;
	if (h.has_sizes) { r = h.block_off; r.push_back(h.blocks_end); return r; }
	NiHeader hdr;
	hdr.SetVersion(NiVersion((NiFileVersion) h.version, h.user, h.stream));
	std::istringstream is(F, std::ios::binary);
	is.seekg((std::streamoff) h.hdr_end);
	NiIStream in(&is, &hdr);
	for (uint32_t i = 0; i < h.nblocks; i++) {
		auto f = NiFactoryRegister::Get().GetFactoryByName(h.type_of(i));
		if (!f) break;
		r.push_back((size_t) is.tellg());
		auto b = f->Load(in);
		if (is.fail()) break;
	}
	r.push_back((size_t) is.tellg());
	return r;
}

static bool make_plan(const Entry& e, Plan& p) {
	std::string b0 = entry_bytes(e, A.repo);
	if (b0.empty()) return false;
	NifFile n;
	if (s1::load(n, b0) != 0) return false;
	canon::Saved sv = canon::save(n, true);
	p.bytes = sv.bytes;
	np::Header h = np::parse(p.bytes);
	if (!h.ok) return false;
	p.nblocks = h.nblocks;
	for (uint32_t i = 0; i < h.nblocks; i++) p.types.push_back(h.type_of(i));
	std::vector<size_t> starts = block_starts(p.bytes, h);
	// parent map from a clean load of the normal form
	NifFile m;
	if (s1::load(m, p.bytes) != 0) return false;
	std::vector<uint32_t> parent(h.nblocks, NIF_NPOS);
	for (uint32_t i = 0; i < h.nblocks; i++) {
		auto blk = m.GetHeader().GetBlock<NiObject>(i);
		if (!blk) continue;
		std::set<NiRef*> refs;
		blk->GetChildRefs(refs);
		for (auto r : refs)
			if (!r->IsEmpty() && r->index < h.nblocks && parent[r->index] == NIF_NPOS && r->index != i) parent[r->index] = i;
	}
	for (auto off : sv.refs) {
		if (off < h.hdr_end || off + 4 > p.bytes.size()) continue;
		size_t blk = (size_t) (std::upper_bound(starts.begin(), starts.end(), (size_t) off) - starts.begin());
		if (blk == 0 || blk > h.nblocks) continue;
		blk--;
		uint32_t orig;
		memcpy(&orig, p.bytes.data() + off, 4);
		p.ref_off.push_back((uint32_t) off);
		p.ref_block.push_back((uint32_t) blk);
		p.ref_orig.push_back(orig);
		std::vector<uint32_t> vals = {NIF_NPOS, h.nblocks, h.nblocks + 1, 0x7FFFFFFFu, (uint32_t) blk};
		// ancestors on the parent chain
		uint32_t a = parent[blk];
		for (int depth = 0; depth < 8 && a != NIF_NPOS; depth++) { vals.push_back(a); a = parent[a]; if (a == (uint32_t) blk) break; }
		if (h.nblocks <= 16) for (uint32_t v = 0; v < h.nblocks; v++) vals.push_back(v);
		else {
			vals.push_back(0);
			vals.push_back(h.nblocks - 1);
			if (orig != NIF_NPOS) { vals.push_back(orig + 1); if (orig > 0) vals.push_back(orig - 1); }
			std::set<std::string> seen;
			for (uint32_t v = 0; v < h.nblocks; v++) if (seen.insert(p.types[v]).second) vals.push_back(v); // one block of every type (wrong-type targets)
			// siblings: other blocks of the type the field points to now (right type, other object: tables of another size)
			if (orig < h.nblocks) {
				int sib = 0;
				for (uint32_t v = 0; v < h.nblocks && sib < 4; v++) if (v != orig && p.types[v] == p.types[orig]) { vals.push_back(v); sib++; }
			}
		}
		std::vector<uint32_t> uniq;
		std::set<uint32_t> s;
		for (auto v : vals) if (v != orig && s.insert(v).second) uniq.push_back(v);
		p.kinds.push_back(uniq);
		std::vector<uint32_t> red;
		for (uint32_t v : {NIF_NPOS, (uint32_t) blk, 0u}) if (v != orig && std::find(red.begin(), red.end(), v) == red.end()) red.push_back(v);
		p.reduced_kinds.push_back(red);
	}
	return true;
}

static std::string patched(const Plan& p, const Placement& pl) {
	std::string b = p.bytes;
	for (auto& x : pl) memcpy(&b[x.off], &x.val, 4);
	return b;
}

// enumerate placements in a fixed order: singles, then pairs, then triples (bounded by tier / file size)
template<class F>
static void for_each_placement(const Plan& p, int max_simul, bool small_all_pairs, F&& fn) {
	size_t n = p.ref_off.size();
	for (size_t i = 0; i < n; i++)
		for (auto v : p.kinds[i]) if (!fn(Placement{{p.ref_off[i], v}})) return;
	if (max_simul < 2) return;
	if (p.nblocks <= 8 && small_all_pairs) {
		for (size_t i = 0; i < n; i++)
			for (size_t j = i + 1; j < n; j++)
				for (auto v : p.kinds[i])
					for (auto w : p.kinds[j]) if (!fn(Placement{{p.ref_off[i], v}, {p.ref_off[j], w}})) return;
		if (max_simul >= 3)
			for (size_t i = 0; i < n; i++)
				for (size_t j = i + 1; j < n; j++)
					for (size_t k = j + 1; k < n; k++)
						for (auto v : p.reduced_kinds[i])
							for (auto w : p.reduced_kinds[j])
								for (auto x : p.reduced_kinds[k]) if (!fn(Placement{{p.ref_off[i], v}, {p.ref_off[j], w}, {p.ref_off[k], x}})) return;
	}
	else {
		// larger files: pairs of fields of the same block, reduced kinds
		for (size_t i = 0; i < n; i++)
			for (size_t j = i + 1; j < n && p.ref_block[j] == p.ref_block[i]; j++)
				for (auto v : p.reduced_kinds[i])
					for (auto w : p.reduced_kinds[j]) if (!fn(Placement{{p.ref_off[i], v}, {p.ref_off[j], w}})) return;
	}
}

static J case_of(const Entry& e, const Placement& pl) {
	J a = J::arr();
	for (auto& x : pl) a.push(J::arr().push((long long) x.off).push((long long) x.val));
	return J::obj().set("entry", e.label).set("patches", a);
}
static Placement placement_from(const J& c) {
	Placement pl;
	for (auto& x : c["patches"].a) pl.push_back({(uint32_t) x[0].i64(), (uint32_t) x[1].i64()});
	return pl;
}
static bool find_entry(const std::string& label, Entry& e) {
	if (label.rfind("file:", 0) == 0) { e.label = label; e.keyname = label.substr(5); e.sample = true; return true; }
	size_t at = label.find('@');
	if (at == std::string::npos) return false;
	e.label = e.keyname = label;
	e.type = label.substr(0, at);
	e.version = label.substr(at + 1);
	return true;
}
static std::string describe(const Plan& p, const Placement& pl) {
	std::string d;
	for (auto& x : pl) {
		size_t i = (size_t) (std::find(p.ref_off.begin(), p.ref_off.end(), x.off) - p.ref_off.begin());
		if (i < p.ref_off.size())
			d += vf::strf("[block %u (%s) ref@%u: %d -> %d] ", p.ref_block[i], p.types[p.ref_block[i]].c_str(), x.off, (int) p.ref_orig[i], (int) x.val);
	}
	return d;
}

int main(int argc, char** argv) {
	A = vf::parse_args(argc, argv);
	e1::install_hooks();
	arm_watchdog();
	Stats top;
	bool thorough = A.thorough();
	g_watchdog = (int) A.geti("watchdog", thorough ? 10 : 3);
	int max_simul = (int) A.geti("simul", thorough ? 3 : 1);

	if (!A.replay.empty()) {
		J c = J::parse(vf::read_file(A.replay))["case"];
		Entry e;
		if (!find_entry(c["entry"].str(), e)) vf::fatal("replay: bad entry");
		Plan p;
		if (!make_plan(e, p)) vf::fatal("replay: cannot build entry");
		Placement pl = placement_from(c);
		std::string bytes = patched(p, pl);
		vf::CrashInfo ci = vf::run_isolated(A.rundir, A.repo, g_watchdog * 4, [&]() { return workload_corrupted(bytes); });
		std::string step0 = vf::g_last_step;
		top.add("evaluations");
		if (WIFEXITED(ci.status) && WEXITSTATUS(ci.status) == 3 && ci.cls.rfind("exit-", 0) == 0)
			top.violation("saved-output-does-not-load", e.keyname + " " + describe(p, pl) + ": the file saved from the damaged model does not load", c);
		else if (!ci.cls.empty()) top.violation(crash_key(ci, A.repo, step0), e.keyname + " " + describe(p, pl) + ": " + ci.cls, c);
		vf::finish(top);
		return 0;
	}

	std::vector<Entry> ents = corpus(A.repo, thorough, (size_t) 1 << 30, A.geti("s1", 1) != 0);
	if (A.has("entry")) { Entry e; if (!find_entry(A.get("entry"), e)) vf::fatal("bad --entry"); ents = {e}; }
	size_t max_blocks = (size_t) A.geti("maxblocks", thorough ? 1000000 : 40);

	vf::PoolCfg pc;
	pc.jobs = A.jobs;
	pc.rundir = A.rundir;
	pc.repo = A.repo;
	pc.max_restarts_per_unit = 100000;
	vf::run_pool(ents.size(), pc,
		[&](size_t u, const std::vector<std::string>& skips, long resume, Stats& st) {
			const Entry& e = ents[u];
			Plan p;
			if (!make_plan(e, p)) { st.add("entries_not_built"); return; }
			if (p.nblocks > max_blocks) { if (skips.empty()) st.add("entries_skipped_too_large_for_tier"); return; }
			size_t start = skips.empty() ? 0 : (size_t) resume + 1, k = 0, done = 0;
			if (skips.empty()) {
				st.add("entries");
				st.add("reference_fields", (long long) p.ref_off.size());
			}
			std::set<uint64_t> outcomes;
			bool complete = true;
			for_each_placement(p, max_simul, true, [&](const Placement& pl) {
				if (k++ < start) return true;
				if (vf::deadline_passed()) { complete = false; return false; }
				if (u % 53 == 0 && k == 3 && skips.empty()) st.sample(case_of(e, pl).set("what", describe(p, pl)));
				vf::set_inflight(case_of(e, pl).dump());
				vf::set_progress((long) (k - 1));
				std::string bytes = patched(p, pl);
				vf::watch_start(g_watchdog);
				int rc = workload_corrupted(bytes);
				vf::watch_stop();
				done++;
				st.add("evaluations");
				st.add(pl.size() == 1 ? "single_faults" : pl.size() == 2 ? "double_faults" : "triple_faults");
				outcomes.insert((uint64_t) rc);
				if (rc == 3) st.violation("saved-output-does-not-load", e.keyname + " " + describe(p, pl) + ": the file saved from the damaged model does not load", case_of(e, pl));
				return true;
			});
			if (!complete) st.capped("deadline inside " + e.label);
			st.add("distinct_nontrivial", (long long) done);
			st.add("distinct_outcomes", (long long) outcomes.size());
		},
		[&](size_t u, const vf::CrashInfo& ci, const std::string& inflight, Stats& parent) -> std::string {
			J c;
			try { c = J::parse(inflight); } catch (std::exception&) { parent.add("worker_deaths_unattributed"); return ""; }
			const Entry& e = ents[u];
			Plan p;
			if (!make_plan(e, p)) return "";
			Placement pl = placement_from(c);
			std::string bytes = patched(p, pl);
			std::string step0 = vf::g_last_step;
			parent.add("evaluations");
			parent.add("distinct_nontrivial");
			// replay before report: the first occurrences of every key are run again alone with a longer
			// limit; later occurrences of an already confirmed key are taken as seen
			std::string key0 = crash_key(ci, A.repo, step0);
			static std::map<std::string, int> confirmed;
			if (confirmed[key0] >= 2) {
				parent.add("faulting_placements");
				parent.violation(key0, e.keyname + " " + describe(p, pl) + ": " + ci.cls, c);
				return "skip";
			}
			vf::CrashInfo again = vf::run_isolated(A.rundir, A.repo, g_watchdog * 4, [&]() { return workload_corrupted(bytes); });
			if (!again.cls.empty()) confirmed[key0]++;
			if (again.cls.empty() || (WIFEXITED(again.status) && WEXITSTATUS(again.status) == 3)) {
				parent.add("faults_not_reproduced");
				parent.note("not reproduced alone: " + crash_key(ci, A.repo, step0) + " on " + inflight.substr(0, 300));
				return "skip";
			}
			parent.add("faulting_placements");
			parent.add("faults_confirmed_by_solo_replay");
			parent.violation(crash_key(again, A.repo, vf::g_last_step), e.keyname + " " + describe(p, pl) + ": " + again.cls, c);
			return "skip";
		},
		top);
	top.set_info("rule", vf::strf("fault placements = every 4-byte block reference field written by a raw save of the entry (offsets from the reference hook) x values "
								  "{empty, block count, count+1, 0x7FFFFFFF, own index, each ancestor, every in-range index (<= 16 blocks) or first/last/+-1/one block "
								  "per type/up to 4 other blocks of the type pointed to}; up to %d simultaneous faults (all pairs and reduced triples on files <= 8 blocks, same-block pairs otherwise); a placement "
								  "is non-trivial when the patched value differs from the original (always, by construction); each runs Load, query battery, copy, "
								  "default Save, reload under ASan+UBSan with a %d s watchdog",
								  max_simul, g_watchdog));
	vf::finish(top);
	return 0;
}
