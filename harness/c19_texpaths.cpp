// C19: texture path clean-up (NifFile::TrimTexturePaths, run by Load through PrepareData) is
// canonical and idempotent.  Exhaustive enumeration of token strings x versions x terrain flag x
// slot kinds plus an enumerated long-path family.  See DESIGN.md "### C19".
//
// Unit kinds (all deterministic, no sampling):
//   T  a chunk of token strings in length-lexicographic order, stored in the slots of ONE texture
//      set (lighting shader), all 12 (version, terrain) configurations
//   K  a chunk of the shorter token strings, stored in the five BSEffectShaderProperty strings and
//      in the ten NiTexturingProperty -> NiSourceTexture slots, all 12 configurations
//   L  a chunk of the long-path family (byte repetitions, two-token alternations)
// For every model: Save(raw) before any clean-up, TrimTexturePaths twice, Load of the saved bytes.
#include "s1.hpp"

#include <algorithm>
#include <typeinfo>

using namespace nifly;
using vf::J;
using vf::Stats;

static vf::Args A;

// ---------------------------------------------------------------- configuration space
struct Ver {
	const char* name;
	NiFileVersion file;
	uint32_t user, stream;
	bool needs_prefix; // "the games that need it": every game except Oblivion and the special 10.0.1.0 range
	NiVersion ver() const { return NiVersion(file, user, stream); }
	bool shader_ref() const { return user == 12; } // CreateShapeFromData: SK/SSE/FO4 link the shader through ShaderPropertyRef
};
static const Ver VERS[] = {
	{"OB", V20_0_0_5, 11, 11, false},	  // NiVersion::getOB()
	{"SPECIAL", V10_0_1_0, 0, 0, false},  // IsSpecial()
	{"FO3", V20_2_0_7, 11, 34, true},	  // getFO3()
	{"SK", V20_2_0_7, 12, 83, true},	  // getSK()
	{"SSE", V20_2_0_7, 12, 100, true},	  // getSSE()
	{"FO4", V20_2_0_7, 12, 130, true},	  // getFO4()
};
static const int NVER = 6;

enum Group { G_TEXSET = 0, G_EFFECT = 1, G_TEXPROP = 2 };
static const char* GROUP_NAME[] = {"texture-set", "effect-shader", "source-texture"};
static const char* EFFECT_SLOT[] = {"effect-source", "effect-normal", "effect-greyscale", "effect-envmap", "effect-envmask"}; // GetTexturePathRefs order
static const char* TEXPROP_SLOT[] = {"source-texture-base", "source-texture-dark", "source-texture-detail", "source-texture-gloss", "source-texture-glow",
									 "source-texture-bump", "source-texture-decal0", "source-texture-decal1", "source-texture-decal2", "source-texture-decal3"};
static int nslots(int g) { return g == G_TEXSET ? 1 : g == G_EFFECT ? 5 : 10; }
static const char* slot_name(int g, int s) { return g == G_TEXSET ? GROUP_NAME[0] : g == G_EFFECT ? EFFECT_SLOT[s] : TEXPROP_SLOT[s]; }

// which slots survive Save -> Load for a version (the "after loading" half of the property can only be
// observed where the block is serialised): texture set: always; effect shader: a Skyrim+ block, stream < 130
// stores source and greyscale only; NiTexturingProperty hangs off propertyRefs, stored for stream <= 34.
static std::vector<int> load_slots(const Ver& v, int g) {
	if (g == G_TEXSET) return {0};
	if (g == G_EFFECT) {
		if (v.user != 12) return {};
		if (v.stream >= 130) return {0, 1, 2, 3, 4};
		return {0, 2};
	}
	if (v.user == 12) return {};
	return {0, 1, 2, 3, 4, 5, 6, 7, 8, 9};
}

// ---------------------------------------------------------------- path enumeration
static const std::vector<std::string> TOKENS = {"\\", "/", " ", "\t\n", ".", "a", "textures", "TEXTURES", "data", "c:"};
// alphabet used for the longest length in the thorough tier when the full one does not fit the budget
static std::vector<int> g_last_alpha; // indices into TOKENS; empty = full
static int g_maxlen = 5, g_kindlen = 3;

struct TokenSpace {
	int maxlen;
	std::vector<int> alpha_last; // alphabet for length == maxlen (may be reduced), full alphabet below
	bool reduced_last = false;
	std::vector<uint64_t> off;	 // off[k] = first global index of length k; off[maxlen+1] = total
	void init(int ml, const std::vector<int>& last) {
		maxlen = ml;
		alpha_last = last;
		reduced_last = !last.empty() && last.size() != TOKENS.size();
		off.assign(ml + 2, 0);
		for (int k = 0; k <= ml; k++) off[k + 1] = off[k] + count_len(k);
	}
	uint64_t base(int k) const { return (reduced_last && k == maxlen) ? alpha_last.size() : TOKENS.size(); }
	uint64_t count_len(int k) const {
		uint64_t n = 1;
		for (int i = 0; i < k; i++) n *= base(k);
		return n;
	}
	uint64_t total() const { return off[maxlen + 1]; }
	std::string at(uint64_t g) const {
		int k = 0;
		while (g >= off[k + 1]) k++;
		uint64_t r = g - off[k], b = base(k);
		std::vector<int> d(k);
		for (int i = k - 1; i >= 0; i--) { d[i] = (int) (r % b); r /= b; }
		std::string s;
		for (int i = 0; i < k; i++) s += TOKENS[(reduced_last && k == maxlen) ? alpha_last[d[i]] : d[i]];
		return s;
	}
};
static TokenSpace TS, KS; // texture-set space, slot-kind space (shorter)

static std::vector<std::string> long_family(bool all_reps) {
	std::vector<std::string> v;
	const int reps_all[] = {1, 64, 1024, 4096};
	for (int r = 0; r < (all_reps ? 4 : 2); r++)
		for (int b = 1; b <= 255; b++) v.push_back(std::string((size_t) reps_all[r], (char) b));
	if (all_reps) {
		const char alt[] = {'\\', 'a', '/'};
		for (char x : alt)
			for (char y : alt) {
				if (x == y) continue;
				std::string s;
				for (int i = 0; i < 4096; i++) s += (i % 2 == 0) ? x : y;
				v.push_back(s);
			}
	}
	return v;
}

// ---------------------------------------------------------------- oracle (from the property statement)
static bool is_ws(char c) { return c == ' ' || c == '\t' || c == '\n' || c == '\v' || c == '\f' || c == '\r'; }
static bool blank(const std::string& s) {
	for (char c : s) if (!is_ws(c)) return false;
	return true;
}
static char lower(char c) { return (c >= 'A' && c <= 'Z') ? (char) (c - 'A' + 'a') : c; }
static bool istarts(const std::string& s, const char* pre) {
	size_t n = strlen(pre);
	if (s.size() < n) return false;
	for (size_t i = 0; i < n; i++) if (lower(s[i]) != pre[i]) return false;
	return true;
}
static size_t ifind(const std::string& s, const char* needle, size_t from) {
	size_t n = strlen(needle);
	for (size_t i = from; i + n <= s.size(); i++) {
		size_t j = 0;
		while (j < n && lower(s[i + j]) == needle[j]) j++;
		if (j == n) return i;
	}
	return std::string::npos;
}
// "relative" in the weakest sense: relative under both the Windows and the POSIX reading
// (no leading separator, no drive prefix).  Drive-prefixed paths are never required to carry a prefix.
static bool weak_relative(const std::string& s) {
	if (s.empty()) return false;
	if (s[0] == '\\' || s[0] == '/') return false;
	if (s.size() >= 2 && s[1] == ':' && ((s[0] >= 'a' && s[0] <= 'z') || (s[0] >= 'A' && s[0] <= 'Z'))) return false;
	return true;
}

// classes of canonical-form failures of output q for input p; empty = canonical
static std::vector<std::string> classify(const std::string& p, const std::string& q, const Ver& v, bool terrain) {
	std::vector<std::string> c;
	if (blank(p)) {
		if (!q.empty()) c.push_back("blank-not-empty");
		return c;
	}
	if (q.empty()) return c;
	if (is_ws(q.front()) || is_ws(q.back())) c.push_back("surrounding-whitespace");
	if (q.find('/') != std::string::npos) c.push_back("forward-slash");
	if (q.find("\\\\") != std::string::npos) c.push_back("double-backslash");
	if (q[0] == '\\') c.push_back("leading-backslash");
	// the part after the terrain prefix
	bool has_data = terrain && istarts(q, "data\\");
	std::string r = has_data ? q.substr(5) : q;
	// nothing before the textures folder: unless the path starts with the folder, no "\textures\" inside it
	if (!istarts(r, "textures\\") && ifind(r, "\\textures\\", 1) != std::string::npos) c.push_back("prefix-before-textures");
	if (v.needs_prefix && weak_relative(q) && !r.empty() && !istarts(r, "textures\\")) c.push_back("missing-textures-prefix");
	if (terrain && weak_relative(q) && !has_data) c.push_back("missing-data-prefix");
	return c;
}

// ---------------------------------------------------------------- model construction
static const std::vector<Vector3> VERTS = {Vector3(0, 0, 0), Vector3(1, 0, 0), Vector3(0, 1, 0)};
static const std::vector<Triangle> TRIS = {Triangle(0, 1, 2)};
static const std::vector<Vector2> UVS = {Vector2(0, 0), Vector2(1, 0), Vector2(0, 1)};

static void build_model(NifFile& nif, const Ver& v, int g, const std::vector<std::string>& paths) {
	nif.Create(v.ver());
	auto& hdr = nif.GetHeader();
	if (g == G_TEXSET) {
		NiShape* shape = nif.CreateShapeFromData("s", &VERTS, &TRIS, &UVS);
		if (!shape) vf::fatal("CreateShapeFromData returned null");
		NiShader* shader = nif.GetShader(shape);
		auto ts = shader ? hdr.GetBlock(shader->TextureSetRef()) : nullptr;
		if (!ts) vf::fatal("no texture set on the created shape");
		ts->textures.resize((uint32_t) paths.size());
		for (size_t i = 0; i < paths.size(); i++) ts->textures[i].get() = paths[i];
		return;
	}
	for (size_t i = 0; i < paths.size(); i++) {
		NiShape* shape = nif.CreateShapeFromData("s" + std::to_string(i), &VERTS, &TRIS, &UVS);
		if (!shape) vf::fatal("CreateShapeFromData returned null");
		nif.DeleteShader(shape); // drop the lighting shader + texture set the factory attached
		if (g == G_EFFECT) {
			auto sh = std::make_unique<BSEffectShaderProperty>();
			sh->sourceTexture.get() = paths[i];
			sh->normalTexture.get() = paths[i];
			sh->greyscaleTexture.get() = paths[i];
			sh->envMapTexture.get() = paths[i];
			sh->envMaskTexture.get() = paths[i];
			uint32_t id = hdr.AddBlock(std::move(sh));
			if (v.shader_ref()) shape->ShaderPropertyRef()->index = id;
			else shape->propertyRefs.AddBlockRef(id);
		}
		else {
			auto tp = std::make_unique<NiTexturingProperty>();
			tp->textureCount = v.file >= V20_2_0_5 ? 12 : 10; // enough for all four decal slots to be written
			bool* has[10] = {&tp->hasBaseTex, &tp->hasDarkTex, &tp->hasDetailTex, &tp->hasGlossTex, &tp->hasGlowTex,
							 &tp->hasBumpTex, &tp->hasDecalTex0, &tp->hasDecalTex1, &tp->hasDecalTex2, &tp->hasDecalTex3};
			TexDesc* desc[10] = {&tp->baseTex, &tp->darkTex, &tp->detailTex, &tp->glossTex, &tp->glowTex,
								 &tp->bumpTex, &tp->decalTex0, &tp->decalTex1, &tp->decalTex2, &tp->decalTex3};
			for (int s = 0; s < 10; s++) {
				auto src = std::make_unique<NiSourceTexture>();
				src->fileName.get() = paths[i];
				*has[s] = true;
				desc[s]->sourceRef.index = hdr.AddBlock(std::move(src));
			}
			uint32_t id = hdr.AddBlock(std::move(tp));
			shape->propertyRefs.AddBlockRef(id);
		}
	}
}

// read all paths back through the public accessor; result[i][slot]
static bool read_model(const NifFile& nif, int g, size_t npaths, std::vector<std::vector<std::string>>& out, std::string& why) {
	auto shapes = nif.GetShapes();
	out.assign(npaths, std::vector<std::string>());
	if (g == G_TEXSET) {
		if (shapes.size() != 1) { why = "shape count " + std::to_string(shapes.size()); return false; }
		auto refs = nif.GetTexturePathRefs(shapes[0]);
		if (refs.size() != npaths) { why = "texture-set slots " + std::to_string(refs.size()) + " != " + std::to_string(npaths); return false; }
		for (size_t i = 0; i < npaths; i++) out[i].push_back(refs[i].get());
		return true;
	}
	if (shapes.size() != npaths) { why = "shape count " + std::to_string(shapes.size()) + " != " + std::to_string(npaths); return false; }
	for (size_t i = 0; i < npaths; i++) {
		auto refs = nif.GetTexturePathRefs(shapes[i]);
		if ((int) refs.size() != nslots(g)) { why = "slot count " + std::to_string(refs.size()) + " on shape " + std::to_string(i); return false; }
		for (auto& r : refs) out[i].push_back(r.get());
	}
	return true;
}

struct Batch {
	std::vector<std::vector<std::string>> q1, q2, ql;
	bool have_load = false;
	std::vector<int> lslots;
	bool threw = false;
	std::string what, phase;
};

// runs the real implementation on one model; false = exception escaped (b.threw)
static bool run_batch(const Ver& v, bool terrain, int g, const std::vector<std::string>& paths, Batch& b) {
	b = Batch();
	b.lslots = load_slots(v, g);
	std::string why;
	b.phase = "build";
	try {
		NifFile nif;
		build_model(nif, v, g, paths);
		std::string bytes;
		if (!b.lslots.empty()) {
			b.phase = "save";
			bytes = s1::save(nif, true); // Save does not clean paths: the file carries p verbatim
			if (bytes.empty()) vf::fatal(std::string("Save(raw) failed for ") + v.name + "/" + GROUP_NAME[g]);
		}
		nif.isTerrain = terrain;
		b.phase = "trim";
		nif.TrimTexturePaths();
		if (!read_model(nif, g, paths.size(), b.q1, why)) vf::fatal("model read-back: " + why);
		b.phase = "trim-again";
		nif.TrimTexturePaths();
		if (!read_model(nif, g, paths.size(), b.q2, why)) vf::fatal("model read-back: " + why);
		if (!b.lslots.empty()) {
			b.phase = "load";
			NifFile l;
			int rc = s1::load(l, bytes, nullptr, terrain);
			if (rc != 0) vf::fatal(std::string("Load of the raw save fails rc=") + std::to_string(rc) + " for " + v.name + "/" + GROUP_NAME[g]);
			if (!read_model(l, g, paths.size(), b.ql, why)) vf::fatal(std::string("loaded model read-back (") + v.name + "/" + GROUP_NAME[g] + "): " + why);
			b.have_load = true;
		}
	} catch (std::exception& e) {
		b.threw = true;
		b.what = std::string(typeid(e).name()) + ": " + e.what();
		return false;
	}
	return true;
}

// ---------------------------------------------------------------- per-unit bookkeeping
struct Found {
	size_t plen = 0;
	std::string msg;
	J cas;
	long long count = 0;
};
struct UnitCtx {
	Stats* st = nullptr;
	std::map<std::string, Found> found;			// key -> shortest case in this unit
	std::set<std::string> nontrivial;			// paths (by value) the clean-up changed in some configuration
	std::unordered_set<uint64_t> outputs;		// hashes of distinct cleaned outputs
	bool count_nontrivial = true;
	int samples = 0;
	long long dumped = 0;
};

static std::string esc(const std::string& s, size_t maxn = 60) {
	std::string o;
	J::esc(o, s.size() > maxn ? s.substr(0, maxn) : s);
	if (s.size() > maxn) o += vf::strf("...(%zu bytes)", s.size());
	return o;
}

static J case_json(const std::string& p, const Ver& v, bool terrain, int g, int slot) {
	J bytes = J::arr();
	bool compress = p.size() > 64;
	if (!compress) for (unsigned char c : p) bytes.push(J((int) c));
	J c = J::obj();
	if (!compress) c.set("path", bytes);
	else {
		// long-path family: period + repeat count (the strings are periodic by construction)
		size_t per = 1;
		while (per < p.size()) {
			bool ok = true;
			for (size_t i = per; i < p.size() && ok; i++) ok = p[i] == p[i - per];
			if (ok) break;
			per++;
		}
		J u = J::arr();
		for (size_t i = 0; i < per && i < p.size(); i++) u.push(J((int) (unsigned char) p[i]));
		c.set("path_period", u).set("path_length", (long long) p.size());
	}
	c.set("path_text", p.size() > 80 ? p.substr(0, 80) + vf::strf("...(%zu bytes)", p.size()) : p).set("version", v.name).set("terrain", terrain).set("kind", GROUP_NAME[g]).set("slot", slot_name(g, slot));
	return c;
}

static void report(UnitCtx& u, const std::string& key, const std::string& msg, const std::string& p, const Ver& v, bool terrain, int g, int slot) {
	u.st->add("fail_" + key);
	if (A.has("dumpkey") && A.get("dumpkey") == key && u.dumped++ < A.geti("dumpmax", 40)) u.st->note("dump " + key + ": " + msg); // debugging aid
	Found& f = u.found[key];
	// representative of the class: prefer a configuration in which the slot kind is serialised for the version
	// (an effect shader in an Oblivion model exists only in memory), then the shortest path
	size_t rank = p.size() + (load_slots(v, g).empty() ? (1u << 20) : 0);
	if (f.count++ == 0 || rank < f.plen) {
		f.plen = rank;
		f.msg = msg;
		f.cas = case_json(p, v, terrain, g, slot);
	}
}

static std::string join(const std::vector<std::string>& v) {
	std::string s;
	for (auto& e : v) { if (!s.empty()) s += "+"; s += e; }
	return s.empty() ? "canonical" : s;
}
static bool has(const std::vector<std::string>& v, const std::string& x) { return std::find(v.begin(), v.end(), x) != v.end(); }

// judge one (path, version, terrain, slot kind) case.  ref = the texture-set result for the same path and
// configuration (used only to decide whether a failure is specific to the slot kind).
struct RefRes { bool have = false; std::string q1, q2, ql; bool have_load = false; };

static void judge(UnitCtx& u, const std::string& p, const Ver& v, bool terrain, int g, const std::vector<std::string>& q1s,
				  const std::vector<std::string>& q2s, const std::vector<std::string>* qls, const std::vector<int>& lslots, const RefRes& ref) {
	Stats& st = *u.st;
	int ns = nslots(g);
	bool uniform = true; // all slots of the group behave alike -> the group name is the qualifier
	for (int s = 1; s < ns; s++) if (q1s[s] != q1s[0] || q2s[s] != q2s[0]) uniform = false;
	std::vector<std::string> refc;
	if (ref.have) refc = classify(p, ref.q1, v, terrain);
	for (int s = 0; s < ns; s++) {
		const std::string& q1 = q1s[s];
		const std::string& q2 = q2s[s];
		st.add("evaluations");
		std::string qual = g == G_TEXSET ? "" : std::string(uniform ? GROUP_NAME[g] : slot_name(g, s)) + ":";
		auto cls = classify(p, q1, v, terrain);
		std::string ctx = vf::strf("%s%s %s: ", v.name, terrain ? "+terrain" : "", slot_name(g, s));
		if (q1 != p) { if (u.count_nontrivial) u.nontrivial.insert(p); st.add("changed_by_cleanup"); }
		u.outputs.insert(vf::fnv(q1));
		st.distinct("outcomes", join(cls) + (q1 != p ? "/changed" : "/unchanged") + (q2 != q1 ? "/second-pass-changes" : ""));
		if (classify(p, p, v, terrain).empty() && !blank(p)) {
			st.add("inputs_already_canonical");
			if (q1 != p) st.add("inputs_already_canonical_changed"); // informational: the weak predicate does not define "clean" completely
			// ... but it does for paths that already carry the prefix the game needs: "cleaning an already clean path changes nothing"
			const bool has_data = terrain && p.compare(0, 5, "Data\\") == 0; // exactly as the clean-up itself spells the terrain prefix
			const std::string rest = has_data ? p.substr(5) : p;
			if (q1 != p && istarts(rest, "textures\\") && (!terrain || has_data))
				report(u, "clean-input-changed", ctx + "the already clean path " + esc(p) + " is changed to " + esc(q1), p, v, terrain, g, s);
		}
		// (1) canonical form
		if (!cls.empty()) {
			bool untouched = g != G_TEXSET && ref.have && q1 == p && ref.q1 != p;
			if (untouched)
				report(u, qual + "not-cleaned", ctx + "TrimTexturePaths leaves " + esc(p) + " untouched in this slot (a texture-set slot gets " + esc(ref.q1) + "); not canonical: " + join(cls),
					   p, v, terrain, g, s);
			else
				for (auto& c : cls) {
					std::string key = (g != G_TEXSET && ref.have && !has(refc, c)) ? qual + c : c;
					report(u, key, ctx + "clean-up of " + esc(p) + " gives " + esc(q1) + " which is not canonical (" + c + ")", p, v, terrain, g, s);
				}
		}
		// (2) idempotence
		if (q2 != q1) {
			std::string cause = cls.empty() ? "clean-path-changes" : "after-" + cls[0];
			std::string key = "idempotence:" + cause;
			if (g != G_TEXSET && ref.have && ref.q2 == ref.q1) key = qual + key;
			report(u, key, ctx + "Trim(" + esc(p) + ") = " + esc(q1) + " but Trim(Trim(p)) = " + esc(q2), p, v, terrain, g, s);
		}
		// (3) after loading
		if (qls && std::find(lslots.begin(), lslots.end(), s) != lslots.end()) {
			st.add("load_comparisons");
			const std::string& ql = (*qls)[s];
			if (ql != q1) {
				std::string key = "load-differs-from-trim";
				if (g != G_TEXSET && ref.have && ref.have_load && ref.ql == ref.q1) key = qual + key;
				report(u, key, ctx + "a file carrying " + esc(p) + " loads as " + esc(ql) + " but the explicit clean-up gives " + esc(q1), p, v, terrain, g, s);
			}
		}
		// a thin deterministic slice of the cases as literal samples: every path is eligible in exactly one configuration
		uint64_t ph = vf::fnv(p);
		if (u.samples < 2 && q1 != p && p.size() >= 3 && p.size() <= 64 && ph % 12 == (uint64_t) ((&v - VERS) * 2 + (terrain ? 1 : 0)) && (ph / 12) % 40 == 0) {
			u.samples++;
			st.sample(case_json(p, v, terrain, g, s).set("cleaned", q1.substr(0, 80)).set("cleaned_twice", q2.substr(0, 80)));
		}
	}
}

// ---------------------------------------------------------------- evaluation of a chunk
static const unsigned WATCHDOG_S = 20;

static std::string case_id(uint64_t pathid, int vi, bool terrain, int g) { return vf::strf("%llu/%d/%d/%d", (unsigned long long) pathid, vi, (int) terrain, g); }

static J inflight_json(bool batch, size_t unit, const std::string& id, const std::string* p, const Ver& v, bool terrain, int g) {
	J j = p ? case_json(*p, v, terrain, g, 0) : J::obj().set("version", v.name).set("terrain", terrain).set("kind", GROUP_NAME[g]);
	j.set("batch", batch).set("unit", (long long) unit).set("id", id);
	return j;
}

// self-test of the crash / hang attribution path (never active in a registered run):
// "--faultinject <pathid>/<ver>/<terrain>/<group> [--faultkind hang]" makes that one case die
static void self_test_fault(const std::string& id, bool single) {
	if (!A.has("faultinject") || A.get("faultinject") != id) return;
	if (single && A.get("faultkind") == "hang") for (;;) sleep(1);
	abort();
}

// one path in its own model (pinpointing mode and replay)
static void eval_single(UnitCtx& u, size_t unit, uint64_t pathid, const std::string& p, int vi, bool terrain, int g, const std::set<std::string>& skip) {
	const Ver& v = VERS[vi];
	std::string id = case_id(pathid, vi, terrain, g);
	if (skip.count(id)) { u.st->add("cases_skipped_after_crash"); return; }
	vf::set_inflight(inflight_json(false, unit, id, &p, v, terrain, g).dump());
	alarm(WATCHDOG_S);
	self_test_fault(id, true);
	Batch b, rb;
	RefRes ref;
	bool ok = run_batch(v, terrain, g, {p}, b);
	if (ok && g != G_TEXSET && run_batch(v, terrain, G_TEXSET, {p}, rb)) {
		ref.have = true;
		ref.q1 = rb.q1[0][0];
		ref.q2 = rb.q2[0][0];
		ref.have_load = rb.have_load;
		if (rb.have_load) ref.ql = rb.ql[0][0];
	}
	alarm(0);
	if (!ok) {
		u.st->add("evaluations", nslots(g));
		report(u, "exception", vf::strf("%s%s %s: clean-up of %s throws during %s: %s", v.name, terrain ? "+terrain" : "", GROUP_NAME[g], esc(p).c_str(),
										 b.phase.c_str(), b.what.c_str()), p, v, terrain, g, 0);
		return;
	}
	judge(u, p, v, terrain, g, b.q1[0], b.q2[0], b.have_load ? &b.ql[0] : nullptr, b.lslots, ref);
}

// all paths of the chunk in one model per (version, terrain, group)
static bool eval_chunk(UnitCtx& u, size_t unit, const std::vector<uint64_t>& ids, const std::vector<std::string>& paths, const std::vector<int>& groups,
					   bool single, const std::set<std::string>& skip) {
	for (int vi = 0; vi < NVER; vi++)
		for (int t = 0; t < 2; t++) {
			if (vf::deadline_passed()) return false;
			const Ver& v = VERS[vi];
			bool terrain = t == 1;
			if (single) {
				for (int g : groups)
					for (size_t i = 0; i < paths.size(); i++) eval_single(u, unit, ids[i], paths[i], vi, terrain, g, skip);
				continue;
			}
			// the texture-set model always runs first: it is either the group under test or the
			// reference that tells whether a failure is specific to another slot kind
			Batch rb;
			bool have_rb = false;
			{
				vf::set_inflight(inflight_json(true, unit, "", nullptr, v, terrain, G_TEXSET).dump());
				alarm(WATCHDOG_S);
				if (A.has("faultinject")) for (size_t i = 0; i < paths.size(); i++) self_test_fault(case_id(ids[i], vi, terrain, G_TEXSET), false);
				have_rb = run_batch(v, terrain, G_TEXSET, paths, rb);
				alarm(0);
			}
			for (int g : groups) {
				Batch own;
				Batch* b = &rb;
				bool ok = have_rb;
				if (g != G_TEXSET) {
					vf::set_inflight(inflight_json(true, unit, "", nullptr, v, terrain, g).dump());
					alarm(WATCHDOG_S);
					ok = run_batch(v, terrain, g, paths, own);
					alarm(0);
					b = &own;
				}
				if (!ok) {
					// an exception escaped somewhere in the batch: find the path
					u.st->add("batches_rerun_singly");
					for (size_t i = 0; i < paths.size(); i++) eval_single(u, unit, ids[i], paths[i], vi, terrain, g, skip);
					continue;
				}
				for (size_t i = 0; i < paths.size(); i++) {
					RefRes ref;
					if (g != G_TEXSET && have_rb) {
						ref.have = true;
						ref.q1 = rb.q1[i][0];
						ref.q2 = rb.q2[i][0];
						ref.have_load = rb.have_load;
						if (rb.have_load) ref.ql = rb.ql[i][0];
					}
					judge(u, paths[i], v, terrain, g, b->q1[i], b->q2[i], b->have_load ? &b->ql[i] : nullptr, b->lslots, ref);
				}
			}
		}
	return true;
}

// ---------------------------------------------------------------- units
struct Unit {
	char kind;		// 'T' texture-set chunk of TS, 'K' effect + source-texture chunk of KS, 'L' long-path family chunk
	uint64_t a, b;	// index range
	bool all_groups; // 'L': also effect + source-texture slots (short members only)
};
static std::vector<std::string> LF;
static const uint64_t LONG_ID0 = 1000000000000ull;

static void unit_paths(const Unit& un, std::vector<uint64_t>& ids, std::vector<std::string>& paths) {
	for (uint64_t i = un.a; i < un.b; i++) {
		if (un.kind == 'T') { ids.push_back(i); paths.push_back(TS.at(i)); }
		else if (un.kind == 'K') { ids.push_back(i); paths.push_back(KS.at(i)); }
		else { ids.push_back(LONG_ID0 + i); paths.push_back(LF[i]); }
	}
}

static void flush_unit(UnitCtx& u, Stats& st, size_t unit, bool complete) {
	for (auto& kv : u.found)
		st.violation(kv.first, kv.second.msg + vf::strf(" [%lld failing cases of this class in the work unit]", kv.second.count), kv.second.cas);
	if (!complete) return;
	st.add("distinct_nontrivial", (long long) u.nontrivial.size());
	// distinct outputs are merged by value (hash) in the parent
	std::string path = A.rundir + "/c19out." + std::to_string(unit) + ".bin";
	FILE* f = fopen(path.c_str(), "wb");
	if (f) {
		std::vector<uint64_t> v(u.outputs.begin(), u.outputs.end());
		std::sort(v.begin(), v.end());
		if (!v.empty()) fwrite(v.data(), sizeof(uint64_t), v.size(), f);
		fclose(f);
	}
}

static const Ver* find_ver(const std::string& n, int* idx) {
	for (int i = 0; i < NVER; i++) if (n == VERS[i].name) { *idx = i; return &VERS[i]; }
	return nullptr;
}

int main(int argc, char** argv) {
	A = vf::parse_args(argc, argv);
	Stats top;
	const bool thorough = A.thorough();
	g_maxlen = (int) A.geti("maxlen", thorough ? 6 : 4);
	g_kindlen = (int) A.geti("kindlen", thorough ? 4 : 3);
	if (g_kindlen > g_maxlen) g_kindlen = g_maxlen;
	const uint64_t chunk = (uint64_t) A.geti("chunk", 500);
	const uint64_t kchunk = (uint64_t) A.geti("kchunk", 20);
	// optional reduced alphabet for the longest length: "--lastalpha 0,1,2,5,6" (token indices)
	if (A.has("lastalpha")) {
		std::string s = A.get("lastalpha");
		size_t i = 0;
		while (i < s.size()) {
			size_t j = s.find(',', i);
			if (j == std::string::npos) j = s.size();
			g_last_alpha.push_back(atoi(s.substr(i, j - i).c_str()));
			i = j + 1;
		}
	}
	TS.init(g_maxlen, g_last_alpha);
	KS.init(g_kindlen, g_kindlen == g_maxlen ? g_last_alpha : std::vector<int>());
	LF = long_family(true);
	// structured family "whatever precedes the textures folder goes": X + "\textures\" + Y for every token string X of
	// length 1..3 and Y in {"", "a", "a\\textures\\a"}; appended to the long family (texture-set slots, all configurations)
	const size_t prefix_family_begin = LF.size();
	{
		TokenSpace PS;
		PS.init(3, {});
		for (uint64_t g = 1; g < PS.total(); g++)
			for (const char* y : {"", "a", "a\\textures\\a"}) LF.push_back(PS.at(g) + "\\textures\\" + y); // the last one: the folder name occurs twice
	}
	const bool with_long = A.geti("long", 1) != 0;

	vf::PoolCfg pc;
	pc.jobs = A.jobs;
	pc.rundir = A.rundir;
	pc.repo = A.repo;

	auto crash_fn = [&](size_t, const vf::CrashInfo& ci, const std::string& inflight, Stats& parent) -> std::string {
		J j;
		try { j = J::parse(inflight); } catch (std::exception&) { j = J(); }
		if (j.t != J::OBJ) {
			parent.violation("crash:" + ci.key(), "worker died outside a described case: " + ci.cls + " in " + ci.frame, J::obj());
			return "";
		}
		if (j["batch"].b) { parent.add("units_restarted_singly"); return "single"; }
		J c = J::obj();
		for (auto& kv : j.o) if (kv.first != "batch" && kv.first != "unit" && kv.first != "id") c.set(kv.first, kv.second);
		std::string what = std::string(j["version"].str()) + (j["terrain"].b ? "+terrain " : " ") + j["kind"].str() + ": clean-up of " + j["path_text"].str();
		if (ci.cls == "timeout") parent.violation("hang", what + vf::strf(" does not finish within %u s", WATCHDOG_S), c);
		else parent.violation("crash:" + ci.key(), what + " kills the process: " + ci.cls + " in " + ci.frame, c);
		return "skip:" + j["id"].str();
	};

	// ---- replay: one case, same code path (inside the pool so that a crash is attributed)
	if (!A.replay.empty()) {
		J c = J::parse(vf::read_file(A.replay))["case"];
		int vi = 0;
		if (!find_ver(c["version"].str(), &vi)) vf::fatal("replay: unknown version " + c["version"].str());
		int g = -1;
		for (int i = 0; i < 3; i++) if (c["kind"].str() == GROUP_NAME[i]) g = i;
		if (g < 0) vf::fatal("replay: unknown slot kind " + c["kind"].str());
		std::string p;
		if (c.has("path")) for (auto& e : c["path"].a) p += (char) e.i64();
		else if (c.has("path_period")) {
			std::string per;
			for (auto& e : c["path_period"].a) per += (char) e.i64();
			size_t n = (size_t) c["path_length"].i64();
			if (per.empty() || n > (1u << 20)) vf::fatal("replay: bad periodic path");
			for (size_t i = 0; i < n; i++) p += per[i % per.size()];
		}
		else vf::fatal("replay: case has no path");
		bool terrain = c["terrain"].b;
		vf::run_pool(1, pc,
			[&](size_t u, const std::vector<std::string>& skips, long, Stats& st) {
				std::set<std::string> skip;
				for (auto& s : skips) if (s.rfind("skip:", 0) == 0) skip.insert(s.substr(5));
				UnitCtx ctx;
				ctx.st = &st;
				eval_single(ctx, u, 0, p, vi, terrain, g, skip);
				flush_unit(ctx, st, u, false);
			}, crash_fn, top);
		vf::finish(top);
		return 0;
	}

	// ---- units: the few heavy ones first
	std::vector<Unit> units;
	if (with_long) {
		// members longer than 64 bytes: texture-set slots only, small batches (regex time grows with the length)
		for (uint64_t a = 510; a < prefix_family_begin; a += 6) units.push_back({'L', a, std::min<uint64_t>(a + 6, prefix_family_begin), false});
		for (uint64_t a = prefix_family_begin; a < LF.size(); a += 60) units.push_back({'L', a, std::min<uint64_t>(a + 60, LF.size()), false});
		for (uint64_t a = 0; a < 510; a += 15) units.push_back({'L', a, std::min<uint64_t>(a + 15, 510), true});
	}
	for (uint64_t a = 0; a < KS.total(); a += kchunk) units.push_back({'K', a, std::min(a + kchunk, KS.total()), true});
	// shortest strings first: if the deadline cuts the run, what is lost is the tail of the longest strings
	for (uint64_t a = 0; a < TS.total(); a += chunk) units.push_back({'T', a, std::min(a + chunk, TS.total()), false});

	auto unit_fn = [&](size_t u, const std::vector<std::string>& skips, long, Stats& st) {
		const Unit& un = units[u];
		bool single = false;
		std::set<std::string> skip;
		for (auto& s : skips) {
			if (s == "single") single = true;
			else if (s.rfind("skip:", 0) == 0) skip.insert(s.substr(5));
		}
		std::vector<uint64_t> ids;
		std::vector<std::string> paths;
		unit_paths(un, ids, paths);
		UnitCtx ctx;
		ctx.st = &st;
		ctx.count_nontrivial = un.kind != 'K'; // K strings are a subset of the T strings
		std::vector<int> groups;
		if (un.kind == 'T') groups = {G_TEXSET};
		else if (un.kind == 'K') groups = {G_EFFECT, G_TEXPROP};
		else if (un.all_groups) groups = {G_TEXSET, G_EFFECT, G_TEXPROP};
		else groups = {G_TEXSET};
		double t_unit = vf::now();
		bool complete = eval_chunk(ctx, u, ids, paths, groups, single, skip);
		st.max(std::string("unit_ms_") + un.kind, (long long) ((vf::now() - t_unit) * 1000)); // evidence only, never used in a decision
		if (A.has("unittimes")) st.note(vf::strf("unit %c [%llu,%llu) %lld ms", un.kind, (unsigned long long) un.a, (unsigned long long) un.b, (long long) ((vf::now() - t_unit) * 1000)));
		if (un.kind == 'L') // one-byte members that are also one-token strings are counted in their T unit
			for (auto& t : TOKENS) if (t.size() == 1) ctx.nontrivial.erase(t);
		if (!complete) st.capped("deadline reached inside a work unit");
		st.add("units");
		st.add(std::string("paths_") + (un.kind == 'T' ? "texture_set_units" : un.kind == 'K' ? "slot_kind_units" : "long_family_units"), (long long) paths.size());
		for (auto& p : paths) st.max("path_bytes", (long long) p.size());
		flush_unit(ctx, st, u, complete);
	};
	vf::run_pool(units.size(), pc, unit_fn, crash_fn, top);

	// distinct cleaned outputs, by value, over all units
	{
		std::vector<uint64_t> all;
		for (size_t u = 0; u < units.size(); u++) {
			std::string path = A.rundir + "/c19out." + std::to_string(u) + ".bin";
			std::string d = vf::read_file(path);
			unlink(path.c_str());
			size_t n = d.size() / sizeof(uint64_t), at = all.size();
			all.resize(at + n);
			if (n) memcpy(&all[at], d.data(), n * sizeof(uint64_t));
		}
		std::sort(all.begin(), all.end());
		all.erase(std::unique(all.begin(), all.end()), all.end());
		top.add("distinct_outputs", (long long) all.size());
	}

	std::string alpha;
	for (auto& t : TOKENS) { std::string e; J::esc(e, t); alpha += (alpha.empty() ? "" : " ") + e; }
	std::string last = "";
	if (TS.reduced_last) {
		last = vf::strf("; strings of exactly %d tokens use the reduced alphabet {", g_maxlen);
		for (int i : g_last_alpha) { std::string e; J::esc(e, TOKENS[i]); last += e + " "; }
		last += "} (the full alphabet does not fit the time budget)";
	}
	top.set_info("rule",
		vf::strf("every string that is a sequence of <= %d tokens from {%s}%s (%llu strings, length-lexicographic order) in a texture-set slot of the lighting "
				 "shader CreateShapeFromData attaches; every such string of <= %d tokens (%llu strings) in each of the 5 BSEffectShaderProperty strings and in each of "
				 "the 10 NiTexturingProperty->NiSourceTexture slots; long-path family: every byte 1..255 repeated 1, 64, 1024, 4096 times and the 6 alternations of two "
				 "different tokens from {\\ a /} with 4096 tokens, plus X + \\textures\\ + Y for every token string X of length 1..3 and Y in {empty, a} (%zu strings; members > 64 bytes and "
				 "the X-textures-Y members only in texture-set slots); each x versions {OB 20.0.0.5, special "
				 "10.0.1.0/0, FO3, SK, SSE, FO4} x terrain {false,true}. Per model: Save(raw) before clean-up, TrimTexturePaths twice, Load of the saved bytes with the "
				 "same terrain flag (only for slot kinds the version serialises). evaluation = one (path, version, terrain, slot) case; distinct_nontrivial = distinct "
				 "path strings (by value) that the clean-up changes in at least one configuration; distinct_outputs = distinct cleaned strings by value",
				 g_maxlen, alpha.c_str(), last.c_str(), (unsigned long long) TS.total(), g_kindlen, (unsigned long long) KS.total(), with_long ? LF.size() : (size_t) 0));
	top.set_info("token_strings", (long long) TS.total());
	top.set_info("slot_kind_token_strings", (long long) KS.total());
	top.set_info("long_paths", (long long) (with_long ? LF.size() : 0));
	top.set_info("configurations", "6 versions x 2 terrain flags x (1 texture-set + 5 effect-shader + 10 source-texture slots)");
	top.set_info("watchdog_s", (long long) WATCHDOG_S);
	top.note("oracle readings (weakest where the statement is open): whitespace = the six C-locale characters, checked on the whole path only; 'relative' = no leading "
			 "separator and no drive prefix (drive-prefixed paths are never required to carry a prefix); the 'Data\\' prefix is stripped before the textures-folder "
			 "checks; 'textures\\' / 'Data\\' compare case-insensitively; a path that starts with 'textures\\' may contain further '\\textures\\' components");
	top.note("the 'after loading' comparison is made only where the slot is serialised: texture sets for all six versions; effect-shader strings for SK/SSE (source, "
			 "greyscale) and FO4 (all five); NiSourceTexture slots for OB, special and FO3");
	vf::finish(top);
	return 0;
}
