// Partition rows against NiSkinData: after UpdateSkinPartitions every row (vertex v of a partition) carries the
// (at most) four largest NiSkinData weights of v, renormalised, each tagged with a partition-local slot whose
// global bone (bones[slot]) is the bone that weights v.  Used by C10 (after a rebuild) and C12 (after a conversion,
// which always ends in a rebuild).  Returns "" when every comparable row agrees; otherwise a description of the first
// disagreement.  Rows are not comparable when NiSkinData carries no vertex weights, when a bone lists the vertex
// twice, or when the choice of the four largest is ambiguous (a tie across the cut).
#pragma once
#include "NifFile.hpp"
#include <algorithm>
#include <cmath>
#include <set>
#include <vector>
#include <map>
#include <string>

namespace partrows {

struct Result {
	std::string msg;
	long rows_compared = 0, rows_skipped = 0;
};

inline Result check(nifly::NiSkinData& sd, nifly::NiSkinPartition& sp, float tol) {
	using namespace nifly;
	Result r;
	if (!sd.hasVertWeights) return r;
	std::map<uint16_t, std::map<int, float>> model;
	std::set<uint16_t> dup;
	for (size_t b = 0; b < sd.bones.size(); b++)
		for (auto& vw : sd.bones[b].vertexWeights) {
			auto& m = model[vw.index];
			if (m.count((int) b)) dup.insert(vw.index);
			m[(int) b] = vw.weight;
		}
	char buf[512];
	for (size_t pi = 0; pi < sp.partitions.size(); pi++) {
		auto& p = sp.partitions[pi];
		if (!p.hasVertexWeights || !p.hasBoneIndices || !p.hasVertexMap) continue;
		for (size_t i = 0; i < p.vertexMap.size() && i < p.vertexWeights.size() && i < p.boneIndices.size(); i++) {
			uint16_t v = p.vertexMap[i];
			if (dup.count(v)) { r.rows_skipped++; continue; }
			// model: positive weights of v, sorted descending
			std::vector<std::pair<float, int>> mw;
			auto it = model.find(v);
			if (it != model.end())
				for (auto& kv : it->second) if (kv.second > 0) mw.push_back({kv.second, kv.first});
			bool nonpos = it != model.end() && mw.size() != it->second.size(); // zero/negative entries make the sort order a matter of taste
			if (nonpos) { r.rows_skipped++; continue; }
			std::sort(mw.begin(), mw.end(), [](auto& a, auto& b) { return a.first > b.first; });
			if (mw.size() > 4) {
				if (mw[3].first == mw[4].first) { r.rows_skipped++; continue; } // tie across the cut
				mw.resize(4);
			}
			float tot = 0;
			for (auto& e : mw) tot += e.first;
			std::map<int, float> want, got;
			for (auto& e : mw) want[e.second] = tot != 0 ? e.first / tot : e.first;
			const float* w = &p.vertexWeights[i].w1;
			const uint8_t* bi = &p.boneIndices[i].i1;
			bool unresolved = false;
			for (int k = 0; k < 4; k++) {
				if (!(w[k] > 0)) continue;
				if (bi[k] >= p.bones.size()) { unresolved = true; break; }
				got[p.bones[bi[k]]] += w[k];
			}
			if (unresolved) { r.rows_skipped++; continue; } // reported by the slot check
			r.rows_compared++;
			bool same = want.size() == got.size();
			if (same)
				for (auto& kv : want) {
					auto g = got.find(kv.first);
					if (g == got.end() || std::fabs(g->second - kv.second) > tol) { same = false; break; }
				}
			if (!same && r.msg.empty()) {
				std::string a, b;
				for (auto& kv : got) { snprintf(buf, sizeof buf, " bone%d:%g", kv.first, kv.second); a += buf; }
				for (auto& kv : want) { snprintf(buf, sizeof buf, " bone%d:%g", kv.first, kv.second); b += buf; }
				snprintf(buf, sizeof buf, "partition %zu row %zu skins vertex %u to {%s } but NiSkinData weights it to {%s }", pi, i, v, a.c_str(), b.c_str());
				r.msg = buf;
			}
		}
	}
	return r;
}

} // namespace partrows
