// C04: the default save only permutes blocks and prunes unreferenced ones.
// Corpus: scene graphs from the SG grammar and the sample files, each presented to the library in
// many block orders (all n! for n <= 6, a fixed family otherwise; permutation done by the independent
// codec).  Operations: PrettySortBlocks, Optimize, Save(default), SetShapeOrder(o) for every
// sequence o over the shape names plus one absent name.  Oracle: identity graph before/after
// (object identity <-> index), masked payload compare against a raw save of a twin.
#include "e3.hpp"
#include "sg.hpp"

using namespace nifly;
using vf::J;
using vf::Stats;

static vf::Args A;

struct Entry {
	bool sample = false;
	std::string file; // sample: relative path
	sg::Spec spec;
	std::string label() const { return sample ? "file:" + file : "sg:" + sg::spec_str(spec); }
	J json() const { return sample ? J::obj().set("file", file) : J::obj().set("sg", sg::spec_json(spec)); }
};

static bool entry_saved(const Entry& e, canon::Saved& sv) {
	NifFile n;
	if (e.sample) {
		if (s1::load(n, vf::read_file(A.repo + "/tests/" + e.file)) != 0) return false;
	}
	else if (!sg::build(e.spec, n)) return false;
	sv = canon::save(n, true);
	return !sv.bytes.empty();
}

static std::vector<std::vector<uint32_t>> perms_for(size_t n, bool thorough) {
	std::vector<std::vector<uint32_t>> r;
	std::vector<uint32_t> id(n);
	for (size_t i = 0; i < n; i++) id[i] = (uint32_t) i;
	if (n <= (size_t) A.geti("allperms", thorough ? 6 : 5)) {
		std::vector<uint32_t> p = id;
		do r.push_back(p); while (std::next_permutation(p.begin(), p.end()));
		return r;
	}
	r.push_back(id);
	std::vector<uint32_t> p(n);
	for (size_t i = 0; i < n; i++) p[i] = (uint32_t) (n - 1 - i); // reverse
	r.push_back(p);
	for (size_t i = 0; i < n; i++) p[i] = (uint32_t) ((i + 1) % n); // rotate: root at index 1
	r.push_back(p);
	p = id;
	std::swap(p[0], p[n - 1]); // root last
	r.push_back(p);
	if (thorough) {
		for (size_t i = 0; i < n; i++) p[i] = (uint32_t) ((i + n - 1) % n);
		r.push_back(p);
		p = id;
		for (size_t i = 0; i + 1 < n; i += 2) std::swap(p[i], p[i + 1]); // adjacent swaps
		r.push_back(p);
		for (size_t i = 0; i < n; i++) p[i] = (uint32_t) ((i * 7 + 3) % n); // a scrambling stride (bijective only when gcd(7,n)=1)
		std::set<uint32_t> s(p.begin(), p.end());
		if (s.size() == n) r.push_back(p);
	}
	return r;
}

// ---- identity graph ----
struct Ident {
	std::vector<NiObject*> objs;									   // index -> object
	std::map<NiObject*, uint32_t> index;							   // object -> index
	std::vector<std::multiset<NiObject*>> targets;					   // non-empty refs+ptrs of each block, as objects
	std::vector<std::multiset<NiObject*>> children;					   // NiNode::childRefs targets
	std::vector<bool> is_node;
	std::set<NiObject*> reachable;									   // from the root through child refs
	std::vector<std::string> types;
	int parentless_nodes = 0;
	NiObject* the_parentless = nullptr;
};

static Ident identify(NifFile& n) {
	Ident g;
	auto& hdr = n.GetHeader();
	uint32_t nb = hdr.GetNumBlocks();
	for (uint32_t i = 0; i < nb; i++) {
		NiObject* o = hdr.GetBlock<NiObject>(i);
		g.objs.push_back(o);
		g.index[o] = i;
	}
	g.targets.resize(nb);
	g.children.resize(nb);
	g.is_node.resize(nb);
	std::set<NiObject*> has_node_parent;
	for (uint32_t i = 0; i < nb; i++) {
		NiObject* o = g.objs[i];
		g.types.push_back(o->GetBlockName());
		std::set<NiRef*> refs;
		o->GetChildRefs(refs);
		o->GetPtrs(refs);
		for (auto r : refs) if (!r->IsEmpty() && r->index < nb) g.targets[i].insert(g.objs[r->index]);
		if (auto node = dynamic_cast<NiNode*>(o)) {
			g.is_node[i] = true;
			for (auto& c : node->childRefs) if (!c.IsEmpty() && c.index < nb) { g.children[i].insert(g.objs[c.index]); if (dynamic_cast<NiNode*>(g.objs[c.index])) has_node_parent.insert(g.objs[c.index]); }
		}
	}
	for (uint32_t i = 0; i < nb; i++)
		if (g.is_node[i] && !has_node_parent.count(g.objs[i])) { g.parentless_nodes++; g.the_parentless = g.objs[i]; }
	// reachability from the root through child references
	if (auto root = n.GetRootNode()) {
		std::vector<NiObject*> stack = {root};
		while (!stack.empty()) {
			NiObject* o = stack.back();
			stack.pop_back();
			if (!g.reachable.insert(o).second) continue;
			std::set<NiRef*> refs;
			o->GetChildRefs(refs);
			for (auto r : refs) if (!r->IsEmpty() && r->index < nb) stack.push_back(g.objs[r->index]);
		}
	}
	return g;
}

enum OpK { OP_SORT, OP_OPTIMIZE, OP_SAVE, OP_SHAPEORDER };
static const char* OPN[] = {"PrettySortBlocks", "Optimize", "SaveDefault", "SetShapeOrder"};

static void apply_op(NifFile& n, int op, const std::vector<std::string>& order, canon::Saved* out) {
	switch (op) {
		case OP_SORT: n.PrettySortBlocks(); break;
		case OP_OPTIMIZE: n.Optimize(); break;
		case OP_SAVE: { canon::Saved s = canon::save(n, false); if (out) *out = s; break; }
		case OP_SHAPEORDER: n.SetShapeOrder(order); break;
	}
}

// compare identity graphs; returns "" or "class: text"
static std::string compare(const Ident& a, const Ident& b, int op) {
	std::map<NiObject*, int> count;
	for (auto o : b.objs) count[o]++;
	for (auto o : a.reachable) {
		if (count[o] == 0) return "reachable-block-lost: a " + a.types[a.index.at(o)] + " reachable from the root is gone";
		if (count[o] > 1) return "block-duplicated: a block occupies two slots";
	}
	for (auto& kv : count) {
		if (kv.second > 1) return "block-duplicated: a block occupies two slots";
		if (!a.index.count(kv.first)) { /* a block created by the operation (e.g. tangent extra data): allowed */ }
	}
	for (size_t i = 0; i < a.objs.size(); i++) {
		NiObject* o = a.objs[i];
		auto it = b.index.find(o);
		if (it == b.index.end()) {
			// vanished: nobody who survives may have referenced it
			for (size_t k = 0; k < a.objs.size(); k++)
				if (b.index.count(a.objs[k]) && a.targets[k].count(o))
					return "referenced-block-pruned: a " + a.types[i] + " vanished although a surviving " + a.types[k] + " references it";
			continue;
		}
		size_t j = it->second;
		// references designate the same objects (vanished targets can only have been unreferenced, see above)
		if (a.targets[i] != b.targets[j]) {
			// an operation may add references to blocks it creates itself; everything that existed before must still be there
			std::multiset<NiObject*> bt;
			for (auto t : b.targets[j]) if (a.index.count(t)) bt.insert(t);
			if (a.targets[i] != bt) return "reference-rewired: references of a " + a.types[i] + " designate different blocks than before";
		}
		if (a.is_node[i]) {
			std::set<NiObject*> sa(a.children[i].begin(), a.children[i].end()), sb(b.children[j].begin(), b.children[j].end());
			if (sa != sb) return "child-set-changed: children of node " + a.types[i] + " differ";
			for (auto c : sb) if (b.children[j].count(c) > a.children[i].count(c)) return "child-multiplicity-grew: a child of a " + a.types[i] + " is listed more often than before";
		}
	}
	if ((op == OP_SORT || op == OP_SAVE) && a.parentless_nodes == 1 && b.index.count(a.the_parentless) && b.index.at(a.the_parentless) != 0)
		return vf::strf("root-not-first: the only parentless node ends up at index %u", b.index.at(a.the_parentless));
	return "";
}

// masked payload compare of raw-save A (twin, bounds updated) against default-save B under the renumbering old->new
static std::string masked_compare(const canon::Saved& A_, const canon::Saved& B_, const Ident& before, const Ident& after) {
	np::Header ha = np::parse(A_.bytes), hb = np::parse(B_.bytes);
	if (!ha.ok || !hb.ok) return "unparsable: raw or default output does not parse";
	std::vector<size_t> sa = sg::block_starts(A_.bytes, ha), sb = sg::block_starts(B_.bytes, hb);
	if (sa.size() != (size_t) ha.nblocks + 1 || sb.size() != (size_t) hb.nblocks + 1) return "";
	if (ha.nblocks != before.objs.size() || hb.nblocks != after.objs.size()) return ""; // an operation added blocks (OB tangents): not comparable slot by slot
	auto fields = [&](const canon::Saved& S, const np::Header& h, size_t from, size_t to, std::string& plain, std::vector<uint32_t>& refs) {
		// split a payload into non-reference bytes (string indices resolved) and the list of reference values
		size_t pos = from;
		std::vector<std::pair<uint64_t, int>> marks;
		for (auto it = std::lower_bound(S.refs.begin(), S.refs.end(), (uint64_t) from); it != S.refs.end() && *it + 4 <= to; ++it) marks.push_back({*it, 0});
		for (auto it = std::lower_bound(S.stridx.begin(), S.stridx.end(), (uint64_t) from); it != S.stridx.end() && *it + 4 <= to; ++it) marks.push_back({*it, 1});
		std::sort(marks.begin(), marks.end());
		for (auto& m : marks) {
			if (m.first < pos) continue;
			plain += S.bytes.substr(pos, m.first - pos);
			uint32_t v;
			memcpy(&v, S.bytes.data() + m.first, 4);
			if (m.second == 0) { refs.push_back(v); plain += "<R>"; }
			else plain += v == 0xFFFFFFFFu ? std::string("<S:NPOS>") : (v < h.strings.size() ? "<S:" + h.strings[v] + ">" : std::string("<S:OOR>"));
			pos = m.first + 4;
		}
		plain += S.bytes.substr(pos, to - pos);
	};
	for (size_t i = 0; i < before.objs.size(); i++) {
		auto it = after.index.find(before.objs[i]);
		if (it == after.index.end()) continue;
		size_t j = it->second;
		std::string pa, pb;
		std::vector<uint32_t> ra, rb;
		fields(A_, ha, sa[i], sa[i + 1], pa, ra);
		fields(B_, hb, sb[j], sb[j + 1], pb, rb);
		if (pa != pb) {
			size_t k = 0;
			while (k < pa.size() && k < pb.size() && pa[k] == pb[k]) k++;
			return "payload-changed:" + before.types[i] + vf::strf(": a field value of surviving block %zu -> %zu differs (lengths %zu / %zu, first difference at masked offset %zu)", i, j, pa.size(), pb.size(), k);
		}
		// references under the renumbering
		std::vector<long long> ma, mb;
		for (auto v : ra) {
			if (v == 0xFFFFFFFFu || v >= before.objs.size()) { ma.push_back(-1); continue; }
			auto t = after.index.find(before.objs[v]);
			ma.push_back(t == after.index.end() ? -2 : (long long) t->second);
		}
		for (auto v : rb) mb.push_back(v == 0xFFFFFFFFu ? -1 : (long long) v);
		if (before.is_node[i]) { std::sort(ma.begin(), ma.end()); std::sort(mb.begin(), mb.end()); }
		if (ma != mb) return "written-references-differ:" + before.types[i] + vf::strf(": block %zu -> %zu", i, j);
	}
	return "";
}

static std::vector<std::vector<std::string>> shape_orders(NifFile& n) {
	std::vector<std::string> names;
	for (auto& s : n.GetShapeNames()) if (std::find(names.begin(), names.end(), s) == names.end()) names.push_back(s);
	size_t k = n.GetShapes().size();
	std::vector<std::vector<std::string>> r;
	if (k == 0 || k > 3) {
		if (k > 3) { // larger models: identity, reverse, one duplicate, one missing
			std::vector<std::string> all = n.GetShapeNames(), rev(all.rbegin(), all.rend()), dup = all, miss = all;
			dup[0] = dup[1];
			miss[0] = "NoSuchShape";
			r = {all, rev, dup, miss};
		}
		return r;
	}
	names.push_back("NoSuchShape");
	std::vector<size_t> idx(k, 0);
	for (;;) {
		std::vector<std::string> o;
		for (auto i : idx) o.push_back(names[i]);
		r.push_back(o);
		size_t p = 0;
		while (p < k && ++idx[p] == names.size()) idx[p++] = 0;
		if (p == k) break;
	}
	return r;
}

static void run_case(const Entry& e, const canon::Saved& sv, const std::vector<uint32_t>& perm, size_t permno, Stats& st, std::set<uint64_t>& outcomes) {
	std::string P = sg::permute(sv, perm);
	if (P.empty()) { st.add("permute_failed"); return; }
	std::vector<std::vector<std::string>> orders;
	{
		NifFile probe;
		if (s1::load(probe, P) != 0) { st.violation("permuted-file-rejected", e.label() + ": Load rejects the block-permuted file", e.json().set("perm", J::arr_of(perm))); return; }
		orders = shape_orders(probe);
	}
	for (int op = 0; op < 4; op++) {
		size_t nvar = op == OP_SHAPEORDER ? orders.size() : 1;
		for (size_t var = 0; var < nvar; var++) {
			if (vf::deadline_passed()) { st.capped("deadline inside " + e.label()); return; }
			std::vector<std::string> order = op == OP_SHAPEORDER ? orders[var] : std::vector<std::string>();
			J cj = e.json().set("perm", J::arr_of(perm)).set("op", OPN[op]).set("order", J::arr_of(order));
			vf::set_inflight(cj.dump());
			NifFile x;
			if (s1::load(x, P) != 0) return;
			Ident before = identify(x);
			canon::Saved B;
			apply_op(x, op, order, &B);
			Ident after = identify(x);
			st.add("evaluations");
			st.add(std::string("op_") + OPN[op]);
			std::string what = e.label() + vf::strf(" perm#%zu %s", permno, OPN[op]);
			if (op == OP_SHAPEORDER) { what += "("; for (auto& o : order) what += o + ","; what += ")"; }
			std::string err = compare(before, after, op);
			if (!err.empty()) { st.violation(std::string(OPN[op]) + ":" + err.substr(0, err.find(':')), what + ": " + err, cj); continue; }
			// moved anything? (non-vacuity counter)
			bool moved = false;
			for (size_t i = 0; i < before.objs.size(); i++) { auto it = after.index.find(before.objs[i]); if (it == after.index.end() || it->second != i) moved = true; }
			if (moved) st.add("cases_where_blocks_moved_or_vanished");
			// second application: identity permutation, nothing changes
			{
				canon::Saved B2;
				apply_op(x, op, order, &B2);
				Ident again = identify(x);
				bool same = again.objs == after.objs;
				if (!same) { st.violation(std::string(OPN[op]) + ":not-idempotent", what + ": applying the operation a second time moves blocks again", cj); continue; }
				if (op == OP_SAVE) {
					// the written blocks must be the same (the header string table is C02's subject: the first default
					// save still lists strings of blocks it prunes, because the table is rebuilt before pruning)
					canon::Canon c1 = canon::canonical(B), c2 = canon::canonical(B2);
					if (!c1.seg.empty()) c1.seg[0].clear();
					if (!c2.seg.empty()) c2.seg[0].clear();
					std::string d = canon::diff(c1, c2);
					if (!d.empty()) { st.violation(std::string(OPN[op]) + ":second-save-differs", what + ": " + d, cj); continue; }
				}
			}
			if (op == OP_SAVE) {
				NifFile twin;
				if (s1::load(twin, P) != 0) continue;
				for (auto s : twin.GetShapes()) s->UpdateBounds();
				canon::Saved Araw = canon::save(twin, true);
				// identities of the twin are different objects: re-identify through a fresh load pair is not possible, so
				// use index correspondence: twin and x were loaded from the same bytes, block i of one is block i of the other
				std::string m = masked_compare(Araw, B, before, after);
				st.add("masked_payload_compares");
				if (!m.empty()) { st.violation(std::string(OPN[op]) + ":" + m.substr(0, m.find(": ")), what + ": " + m, cj); continue; }
			}
			uint64_t hsh = 1469598103934665603ull;
			for (auto o : after.objs) { uint32_t was = before.index.count(o) ? before.index.at(o) : 0xFFFFu; hsh = vf::fnv(&was, 4, hsh); }
			outcomes.insert(hsh);
		}
	}
}

int main(int argc, char** argv) {
	A = vf::parse_args(argc, argv);
	e1::install_hooks();
	Stats top;
	bool thorough = A.thorough();
	std::vector<Entry> ents;
	if (A.geti("samples", 1))
		for (auto& f : e3::sample_files(A.repo)) { Entry e; e.sample = true; e.file = f; ents.push_back(e); }
	if (A.geti("sg", 1))
		for (auto& s : sg::all_specs(thorough)) { Entry e; e.spec = s; ents.push_back(e); }

	if (!A.replay.empty()) {
		J c = J::parse(vf::read_file(A.replay))["case"];
		Entry e;
		if (c.has("file")) { e.sample = true; e.file = c["file"].str(); }
		else e.spec = sg::spec_from(c["sg"]);
		canon::Saved sv;
		if (!entry_saved(e, sv)) vf::fatal("replay: cannot build entry");
		std::vector<uint32_t> perm;
		for (auto& v : c["perm"].a) perm.push_back((uint32_t) v.i64());
		std::set<uint64_t> outcomes;
		run_case(e, sv, perm, 0, top, outcomes);
		vf::finish(top);
		return 0;
	}

	vf::PoolCfg pc;
	pc.jobs = A.jobs;
	pc.rundir = A.rundir;
	pc.repo = A.repo;
	vf::run_pool(ents.size(), pc,
		[&](size_t u, const std::vector<std::string>&, long, Stats& st) {
			const Entry& e = ents[u];
			canon::Saved sv;
			if (!entry_saved(e, sv)) { st.add("entries_not_built"); return; }
			np::Header h = np::parse(sv.bytes);
			if (!h.ok) { st.add("entries_not_built"); return; }
			st.add("entries");
			st.max("blocks_in_entry", h.nblocks);
			auto perms = perms_for(h.nblocks, thorough);
			std::set<uint64_t> outcomes;
			size_t k = 0;
			for (auto& p : perms) {
				if (vf::deadline_passed()) { st.capped("deadline inside " + e.label()); break; }
				run_case(e, sv, p, k++, st, outcomes);
			}
			st.add("block_orders", (long long) k);
			st.add("distinct_nontrivial", (long long) k);
			st.add("distinct_outcomes", (long long) outcomes.size());
			if (u % 37 == 0) st.sample(e.json().set("blocks", (long long) h.nblocks).set("block_orders_tried", (long long) k));
		},
		[&](size_t u, const vf::CrashInfo& ci, const std::string& inflight, Stats& parent) -> std::string {
			J cj;
			try { cj = J::parse(inflight); } catch (std::exception&) {}
			std::string op = cj.has("op") ? cj["op"].str() : "?";
			parent.violation(op + ":crash:" + ci.key(), "worker died (" + ci.cls + " in " + ci.frame + ") on " + ents[u].label() + " " + inflight.substr(0, 300), cj);
			return "";
		},
		top);
	top.set_info("rule", "entries = sample files + scene graphs from the SG grammar (5 versions x node trees x shape placements x 8 attachments x duplicate names); each "
						 "entry is presented in every block order (all n! for small n, else identity/reverse/rotations/swaps) produced by the independent codec; operations "
						 "PrettySortBlocks, Optimize, Save(default), SetShapeOrder(every sequence over shape names + one absent name); each applied twice; "
						 "distinct_nontrivial = (entry, block order) pairs; evaluations = (entry, order, operation) cases");
	vf::finish(top);
	return 0;
}
