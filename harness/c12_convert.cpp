// C12 — LE <-> SE conversion (NifFile::OptimizeFor) preserves geometry and skinning and yields a
// valid file.  Complete feature product of small API-built models (c12_models.hpp) plus the LE/SE
// sample files, times all combinations of the five boolean options (headParts only where every
// shape may legitimately be a dynamic head part), both directions, there and back.
// See DESIGN.md "### C12", "### C10" (partition invariants) and section 5 (k).
#include "c12_models.hpp"
#include "partrows.hpp"

#include <cmath>
#include <dirent.h>

using namespace nifly;
using namespace c12;
using vf::J;
using vf::Stats;

static vf::Args A;
static bool g_verbose = false;
static std::function<void(Stats&)> g_checkpoint; // flushes what a scenario has established so far

// ---- isolation: a worker runs its scenarios in a forked child of its own and learns through this
// private shared page which scenario was in flight when the child died
struct IsoSlot {
	std::atomic<long> progress;
	char inflight[16384];
};
static IsoSlot* g_iso = nullptr;
static void iso_init() {
	if (g_iso) return;
	void* p = mmap(nullptr, sizeof(IsoSlot), PROT_READ | PROT_WRITE, MAP_SHARED | MAP_ANONYMOUS, -1, 0);
	if (p == MAP_FAILED) vf::fatal("mmap failed");
	g_iso = new (p) IsoSlot();
	g_iso->progress = 0;
	g_iso->inflight[0] = 0;
}
static void note_inflight(const std::string& s) {
	if (g_iso) {
		size_t n = std::min(s.size(), sizeof(g_iso->inflight) - 1);
		memcpy(g_iso->inflight, s.data(), n);
		g_iso->inflight[n] = 0;
	}
	vf::set_inflight(s);
}
static void note_progress(long p) {
	if (g_iso) g_iso->progress = p;
	vf::set_progress(p);
}
static vf::CrashInfo fork_run(const std::function<int()>& body) {
	fflush(stdout);
	pid_t pid = fork();
	if (pid < 0) vf::fatal("fork failed");
	if (pid == 0) {
		int rc = body();
		fflush(stdout);
		_exit(rc);
	}
	int status = 0;
	while (waitpid(pid, &status, 0) < 0 && errno == EINTR) {}
	if (WIFEXITED(status) && WEXITSTATUS(status) == 0) return vf::CrashInfo();
	return vf::read_crash(A.rundir, pid, status, A.repo);
}

// ---------------------------------------------------------------- options
struct Opts {
	bool headParts = false, removeParallax = false, calcBounds = false, fixBSXFlags = false, fixShaderFlags = false;
	static Opts from_index(int o) {
		Opts x;
		x.headParts = o & 1;
		x.removeParallax = o & 2;
		x.calcBounds = o & 4;
		x.fixBSXFlags = o & 8;
		x.fixShaderFlags = o & 16;
		return x;
	}
	int index() const { return (headParts ? 1 : 0) | (removeParallax ? 2 : 0) | (calcBounds ? 4 : 0) | (fixBSXFlags ? 8 : 0) | (fixShaderFlags ? 16 : 0); }
	J json() const {
		J j = J::obj();
		if (headParts) j.set("headParts", true);
		if (removeParallax) j.set("removeParallax", true);
		if (calcBounds) j.set("calcBounds", true);
		if (fixBSXFlags) j.set("fixBSXFlags", true);
		if (fixShaderFlags) j.set("fixShaderFlags", true);
		return j;
	}
	static Opts from(const J& j) {
		Opts x;
		x.headParts = j["headParts"].b;
		x.removeParallax = j["removeParallax"].b;
		x.calcBounds = j["calcBounds"].b;
		x.fixBSXFlags = j["fixBSXFlags"].b;
		x.fixShaderFlags = j["fixShaderFlags"].b;
		return x;
	}
	OptOptions lib(const NiVersion& target) const {
		OptOptions o;
		o.targetVersion = target;
		o.headParts = headParts;
		o.removeParallax = removeParallax;
		o.calcBounds = calcBounds;
		o.fixBSXFlags = fixBSXFlags;
		o.fixShaderFlags = fixShaderFlags;
		return o;
	}
};

// quick tier: the 8 option sets in which calcBounds = fixBSXFlags = fixShaderFlags (all on or all off)
static bool quick_option(int o) {
	int rest = o >> 2;
	return rest == 0 || rest == 7;
}

// ---------------------------------------------------------------- snapshots
typedef std::map<int, float> WMap;
typedef std::array<uint16_t, 3> Tri3;

static Tri3 canon(const Triangle& t) {
	Tri3 a{t.p1, t.p2, t.p3};
	if (a[1] <= a[0] && a[1] <= a[2]) a = Tri3{a[1], a[2], a[0]};
	else if (a[2] <= a[0] && a[2] <= a[1]) a = Tri3{a[2], a[0], a[1]};
	return a;
}

struct ShapeSnap {
	std::string name, type, parentPath, xform;
	int parentIdx = -1;
	uint32_t flags = 0;
	bool convertible = false; // LE: has NiGeometryData; SE: is a BSTriShape
	bool dynamic = false, segmented = false;
	std::vector<Vector3> pos;
	std::vector<Tri3> tris; // canonical rotation, sorted
	bool hasUV = false, hasCol = false, hasNormals = false;
	std::vector<Vector2> uv;
	std::vector<Color4> col;
	bool hasSkinInst = false, hasSkin = false; // hasSkin: NiSkinInstance + NiSkinData + NiSkinPartition all resolve
	std::vector<std::string> bones;
	std::vector<WMap> wA, wB; // per vertex: NiSkinData / (SE vertex data | LE partition data)
	bool presentA = false, presentB = false;
	int partsWithoutBones = 0;
	bool hasShader = false, isBSLSP = false, isBSShader = false;
	std::string shType, shName, shMasked;
	uint32_t shKind = 0, f1 = 0, f2 = 0;
	bool hasTex = false;
	std::vector<std::string> tex;
	bool hasSegs = false;
	std::vector<std::array<uint32_t, 3>> segs;
	std::vector<std::string> partProblems; // C10 invariants, only filled on request
	long partRowsCompared = 0;
	std::string partDetail;
};

struct ModelSnap {
	uint32_t stream = 0;
	std::vector<ShapeSnap> shapes; // canonical traversal order
	std::vector<std::string> nodes; // sorted records
	bool hasBsx = false;
	uint32_t bsx = 0;
	bool anyExtEmit = false;
	int looseShapes = 0;
	int totalShapes = 0;
};

static std::string bytes_of(const void* p, size_t n) {
	return vf::hexbytes(std::string((const char*) p, n), n);
}
static std::string xform_str(const MatTransform& t) {
	return bytes_of(&t.translation, sizeof(t.translation)) + "/" + bytes_of(&t.rotation, sizeof(t.rotation)) + "/" + bytes_of(&t.scale, sizeof(t.scale));
}

// masked payload of a shader block: references neutralised, string indices zeroed, the fields the
// conversion is documented to touch (flags, lighting shader type) zeroed and compared separately
static std::string shader_masked(NiShader* sh) {
	std::unique_ptr<NiObject> c = sh->Clone();
	std::set<NiRef*> refs;
	c->GetChildRefs(refs);
	std::set<NiPtr*> ptrs;
	c->GetPtrs(ptrs);
	for (auto r : refs) r->index = 0;
	for (auto r : ptrs) r->index = 0;
	std::vector<NiStringRef*> srefs;
	c->GetStringRefs(srefs);
	for (auto s : srefs) s->SetIndex(0);
	if (auto bs = dynamic_cast<BSShaderProperty*>(c.get())) {
		bs->shaderFlags1 = 0;
		bs->shaderFlags2 = 0;
	}
	if (auto l = dynamic_cast<BSLightingShaderProperty*>(c.get())) l->bslspShaderType = 0;
	NiHeader h;
	h.SetVersion(NiVersion::getSK());
	std::ostringstream os(std::ios::binary);
	NiOStream out(&os, &h);
	c->Put(out);
	std::string b = os.str();
	return vf::hex64(vf::fnv(b)) + ":" + std::to_string(b.size());
}

static bool wmap_present(const std::vector<WMap>& w) {
	for (auto& m : w)
		for (auto& e : m)
			if (e.second > 0.0f) return true;
	return false;
}

static void check_partitions(NifFile& nif, NiShape* s, ShapeSnap& o);

static void snap_shape(NifFile& nif, NiShape* s, ShapeSnap& o, bool withParts) {
	auto& hdr = nif.GetHeader();
	o.name = s->name.get();
	o.type = s->GetBlockName();
	o.xform = xform_str(s->GetTransformToParent());
	o.flags = s->flags;
	auto bs = dynamic_cast<BSTriShape*>(s);
	o.dynamic = dynamic_cast<BSDynamicTriShape*>(s) != nullptr;
	o.segmented = dynamic_cast<BSSubIndexTriShape*>(s) != nullptr || dynamic_cast<BSSegmentedTriShape*>(s) != nullptr;
	std::vector<Triangle> tris;
	if (bs) {
		o.convertible = true;
		uint16_t n = bs->GetNumVertices();
		for (uint16_t i = 0; i < n && i < bs->vertData.size(); i++) o.pos.push_back(bs->vertData[i].vert);
		bs->GetTriangles(tris);
		o.hasUV = bs->HasUVs();
		if (o.hasUV)
			for (uint16_t i = 0; i < n && i < bs->vertData.size(); i++) o.uv.push_back(bs->vertData[i].uv);
		o.hasCol = bs->HasVertexColors();
		if (o.hasCol)
			for (uint16_t i = 0; i < n && i < bs->vertData.size(); i++) {
				auto& c = bs->vertData[i].colorData;
				o.col.push_back(Color4(c[0] / 255.0f, c[1] / 255.0f, c[2] / 255.0f, c[3] / 255.0f));
			}
		o.hasNormals = bs->HasNormals();
		if (auto sits = dynamic_cast<BSSubIndexTriShape*>(s)) {
			o.hasSegs = true;
			for (auto& g : sits->GetSegments()) o.segs.push_back({g.flags, g.index, g.numTris});
		}
	}
	else {
		auto gd = hdr.GetBlock<NiGeometryData>(s->DataRef());
		if (gd) {
			o.convertible = true;
			o.pos = gd->vertices;
			gd->GetTriangles(tris);
			o.hasUV = !gd->uvSets.empty();
			if (o.hasUV) o.uv = gd->uvSets[0];
			o.hasCol = gd->HasVertexColors() && !gd->vertexColors.empty();
			if (o.hasCol) o.col = gd->vertexColors;
			o.hasNormals = gd->HasNormals();
		}
		if (auto seg = dynamic_cast<BSSegmentedTriShape*>(s)) {
			o.hasSegs = true;
			for (auto& g : seg->GetSegments()) o.segs.push_back({g.flags, g.index, g.numTris});
		}
	}
	for (auto& t : tris) o.tris.push_back(canon(t));
	std::sort(o.tris.begin(), o.tris.end());

	// skin
	auto skinRef = s->SkinInstanceRef();
	o.hasSkinInst = skinRef && !skinRef->IsEmpty();
	auto skinInst = skinRef ? hdr.GetBlock<NiSkinInstance>(skinRef) : nullptr;
	if (skinInst) {
		nif.GetShapeBoneList(s, o.bones);
		auto skinData = hdr.GetBlock(skinInst->dataRef);
		auto skinPart = hdr.GetBlock(skinInst->skinPartitionRef);
		o.hasSkin = skinData && skinPart;
		size_t nv = o.pos.size();
		o.wA.assign(nv, WMap());
		o.wB.assign(nv, WMap());
		if (skinData) {
			for (size_t b = 0; b < skinData->bones.size(); b++)
				for (auto& sw : skinData->bones[b].vertexWeights)
					if (sw.index < nv && sw.weight != 0.0f) o.wA[sw.index][(int) b] += sw.weight;
		}
		if (bs) {
			if (bs->IsSkinned())
				for (size_t v = 0; v < nv && v < bs->vertData.size(); v++)
					for (int k = 0; k < 4; k++)
						if (bs->vertData[v].weights[k] != 0.0f) o.wB[v][bs->vertData[v].weightBones[k]] += bs->vertData[v].weights[k];
		}
		else if (skinPart) {
			std::vector<bool> seen(nv, false);
			for (auto& p : skinPart->partitions) {
				if (!p.hasVertexWeights) continue;
				for (size_t i = 0; i < p.vertexMap.size() && i < p.vertexWeights.size(); i++) {
					uint16_t v = p.vertexMap[i];
					if (v >= nv || seen[v]) continue;
					seen[v] = true;
					const float* w = &p.vertexWeights[i].w1;
					for (int k = 0; k < 4; k++) {
						if (w[k] == 0.0f) continue;
						int bone = -1000 - k; // weight without a resolvable bone
						if (p.hasBoneIndices && i < p.boneIndices.size()) {
							const uint8_t* bi = &p.boneIndices[i].i1;
							if (bi[k] < p.bones.size()) bone = p.bones[bi[k]];
						}
						o.wB[v][bone] += w[k];
					}
				}
			}
		}
		o.presentA = wmap_present(o.wA);
		o.presentB = wmap_present(o.wB);
		if (skinPart)
			for (auto& p : skinPart->partitions)
				if (p.numBones == 0 || p.bones.empty()) o.partsWithoutBones++;
	}

	// shader
	NiShader* sh = nif.GetShader(s);
	if (sh) {
		o.hasShader = true;
		o.shType = sh->GetBlockName();
		o.shName = sh->name.get();
		o.shMasked = shader_masked(sh);
		if (auto b = dynamic_cast<BSShaderProperty*>(sh)) {
			o.isBSShader = true;
			o.f1 = b->shaderFlags1;
			o.f2 = b->shaderFlags2;
		}
		if (auto l = dynamic_cast<BSLightingShaderProperty*>(sh)) {
			o.isBSLSP = true;
			o.shKind = l->bslspShaderType;
		}
		auto tsr = sh->TextureSetRef();
		auto ts = tsr ? hdr.GetBlock(tsr) : nullptr;
		if (ts) {
			o.hasTex = true;
			for (uint32_t i = 0; i < ts->textures.size(); i++) o.tex.push_back(ts->textures[i].get());
		}
	}
	if (withParts) check_partitions(nif, s, o);
}

static void snap_model(NifFile& nif, ModelSnap& m, bool withParts) {
	auto& hdr = nif.GetHeader();
	m.stream = hdr.GetVersion().Stream();
	NiNode* root = nif.GetRootNode();
	std::set<NiObject*> visited;
	int nodeCounter = 0;
	std::set<NiShape*> reached;
	std::function<void(NiNode*, const std::string&)> visit = [&](NiNode* node, const std::string& path) {
		if (!node || visited.count(node)) return;
		visited.insert(node);
		int myIdx = nodeCounter++;
		std::string me = path + "/" + node->name.get();
		m.nodes.push_back(me + "|" + node->GetBlockName() + "|" + xform_str(node->GetTransformToParent()) + "|" + std::to_string(node->flags));
		std::vector<NiNode*> kids;
		for (auto& c : node->childRefs) {
			if (c.IsEmpty()) continue;
			if (auto sh = hdr.GetBlock<NiShape>(c)) {
				if (reached.count(sh)) continue;
				reached.insert(sh);
				ShapeSnap s;
				s.parentPath = me;
				s.parentIdx = myIdx;
				snap_shape(nif, sh, s, withParts);
				m.shapes.push_back(std::move(s));
			}
			else if (auto n = hdr.GetBlock<NiNode>(c))
				kids.push_back(n);
		}
		for (auto k : kids) visit(k, me);
	};
	visit(root, "");
	std::sort(m.nodes.begin(), m.nodes.end());
	auto all = nif.GetShapes();
	m.totalShapes = (int) all.size();
	for (auto s : all)
		if (!reached.count(s)) m.looseShapes++;
	if (auto bsx = nif.FindBlockByName<BSXFlags>("BSX")) {
		m.hasBsx = true;
		m.bsx = bsx->integerData;
	}
	for (uint32_t i = 0; i < hdr.GetNumBlocks(); i++)
		if (auto b = hdr.GetBlock<BSShaderProperty>(i))
			if (b->shaderFlags1 & SLSF1_EXTERNAL_EMITTANCE) m.anyExtEmit = true;
}

// ---------------------------------------------------------------- C10 partition invariants
static void check_partitions(NifFile& nif, NiShape* s, ShapeSnap& o) {
	auto& hdr = nif.GetHeader();
	auto skinRef = s->SkinInstanceRef();
	auto skinInst = skinRef ? hdr.GetBlock<NiSkinInstance>(skinRef) : nullptr;
	if (!skinInst) return;
	auto skinPart = hdr.GetBlock(skinInst->skinPartitionRef);
	if (!skinPart) return;
	auto add = [&](const std::string& kind, const std::string& detail) {
		if (std::find(o.partProblems.begin(), o.partProblems.end(), kind) == o.partProblems.end()) {
			o.partProblems.push_back(kind);
			if (o.partDetail.size() < 400) o.partDetail += kind + ": " + detail + "; ";
		}
	};
	bool sse = hdr.GetVersion().IsSSE();
	size_t nbones = skinInst->boneRefs.GetSize();
	std::map<Tri3, int> shapeTris, covered;
	for (auto& t : o.tris) shapeTris[t]++;
	size_t pi = 0;
	for (auto& p : skinPart->partitions) {
		std::vector<Triangle> mapped = p.triangles;
		if (p.numStrips > 0) mapped = GenerateTrianglesFromStrips(p.strips);
		std::vector<Tri3> trueT;
		if (skinPart->bMappedIndices) {
			for (auto& t : mapped) {
				if (t.p1 >= p.vertexMap.size() || t.p2 >= p.vertexMap.size() || t.p3 >= p.vertexMap.size()) {
					add("mapped-index-out-of-range", vf::strf("partition %zu", pi));
					continue;
				}
				trueT.push_back(canon(Triangle(p.vertexMap[t.p1], p.vertexMap[t.p2], p.vertexMap[t.p3])));
			}
		}
		else {
			for (auto& t : (p.trueTriangles.empty() ? p.triangles : p.trueTriangles)) trueT.push_back(canon(t));
			if (!p.triangles.empty() && !p.trueTriangles.empty()) {
				std::vector<Tri3> a, b;
				for (auto& t : p.triangles) a.push_back(canon(t));
				for (auto& t : p.trueTriangles) b.push_back(canon(t));
				std::sort(a.begin(), a.end());
				std::sort(b.begin(), b.end());
				if (a != b) add("triangles-do-not-translate-back", vf::strf("partition %zu: triangles and trueTriangles differ", pi));
			}
		}
		if (p.numStrips == 0 && p.numTriangles != mapped.size() && skinPart->bMappedIndices)
			add("count-mismatch", vf::strf("partition %zu numTriangles %u vs %zu", pi, p.numTriangles, mapped.size()));
		std::set<uint16_t> used, vm(p.vertexMap.begin(), p.vertexMap.end());
		for (auto& t : trueT) {
			covered[t]++;
			used.insert(t[0]);
			used.insert(t[1]);
			used.insert(t[2]);
		}
		if (vm.size() != p.vertexMap.size()) add("vertex-map-duplicates", vf::strf("partition %zu", pi));
		if (vm != used) add("vertex-map-not-used-vertices", vf::strf("partition %zu: map has %zu entries, triangles use %zu vertices", pi, vm.size(), used.size()));
		if (p.numVertices != p.vertexMap.size()) add("count-mismatch", vf::strf("partition %zu numVertices %u vs map %zu", pi, p.numVertices, p.vertexMap.size()));
		if (sse && p.numBones > 80) add("bone-limit", vf::strf("partition %zu has %u bones", pi, p.numBones));
		if (p.numBones != p.bones.size()) add("count-mismatch", vf::strf("partition %zu numBones %u vs %zu", pi, p.numBones, p.bones.size()));
		for (auto b : p.bones)
			if (b >= nbones) add("partition-bone-out-of-range", vf::strf("partition %zu bone %u of %zu", pi, b, nbones));
		if (p.hasVertexWeights) {
			if (p.vertexWeights.size() != p.vertexMap.size()) add("count-mismatch", vf::strf("partition %zu weights %zu vs map %zu", pi, p.vertexWeights.size(), p.vertexMap.size()));
			for (size_t i = 0; i < p.vertexWeights.size(); i++) {
				const float* w = &p.vertexWeights[i].w1;
				float sum = 0;
				bool neg = false;
				for (int k = 0; k < 4; k++) {
					sum += w[k];
					if (w[k] < 0.0f || std::isnan(w[k])) neg = true;
					if (w[k] > 0.0f && p.hasBoneIndices && i < p.boneIndices.size()) {
						const uint8_t* bi = &p.boneIndices[i].i1;
						if (bi[k] >= p.numBones) add("bone-slot-out-of-range", vf::strf("partition %zu vertex %zu slot %d -> %u of %u", pi, i, k, bi[k], p.numBones));
					}
				}
				if (neg) add("partition-weight-negative", vf::strf("partition %zu vertex %zu", pi, i));
				if (!(sum == 0.0f || std::fabs(sum - 1.0f) <= 1e-4f)) add("partition-weights-not-normalised", vf::strf("partition %zu vertex %zu sum %g", pi, i, sum));
			}
		}
		if (p.hasBoneIndices && p.boneIndices.size() != p.vertexMap.size())
			add("count-mismatch", vf::strf("partition %zu boneIndices %zu vs map %zu", pi, p.boneIndices.size(), p.vertexMap.size()));
		pi++;
	}
	for (auto& e : shapeTris) {
		int c = covered.count(e.first) ? covered[e.first] : 0;
		if (c != e.second) {
			add("triangle-coverage", vf::strf("triangle (%u,%u,%u) occurs %d time(s) in the shape but %d time(s) in the partitions", e.first[0], e.first[1], e.first[2], e.second, c));
			break;
		}
	}
	for (auto& e : covered)
		if (!shapeTris.count(e.first)) {
			add("triangle-coverage", vf::strf("partition triangle (%u,%u,%u) is not a shape triangle", e.first[0], e.first[1], e.first[2]));
			break;
		}
	if (auto bsd = dynamic_cast<BSDismemberSkinInstance*>(skinInst))
		if (bsd->partitions.size() != skinPart->partitions.size())
			add("dismember-list-misaligned", vf::strf("%u dismember entries for %zu partitions", (unsigned) bsd->partitions.size(), skinPart->partitions.size()));
	if (skinPart->numPartitions != skinPart->partitions.size()) add("count-mismatch", "numPartitions");
	// every conversion ends in UpdateSkinPartitions, which derives each partition row from NiSkinData
	if (auto sd = hdr.GetBlock(skinInst->dataRef)) {
		partrows::Result pr = partrows::check(*sd, *skinPart, 2e-3f);
		o.partRowsCompared += pr.rows_compared;
		if (!pr.msg.empty()) add("partition-row-differs-from-skindata", pr.msg);
	}
	if (auto bs = dynamic_cast<BSTriShape*>(s)) {
		if (bs->IsSkinned())
			for (size_t v = 0; v < bs->vertData.size(); v++) {
				float sum = 0;
				bool neg = false;
				for (int k = 0; k < 4; k++) {
					float w = bs->vertData[v].weights[k];
					sum += w;
					if (w < 0.0f || std::isnan(w)) neg = true;
					if (w > 0.0f && bs->vertData[v].weightBones[k] >= nbones)
						add("vertex-bone-out-of-range", vf::strf("vertex %zu slot %d -> bone %u of %zu", v, k, bs->vertData[v].weightBones[k], nbones));
				}
				if (neg) add("vertex-weight-negative", vf::strf("vertex %zu", v));
				if (!(sum == 0.0f || std::fabs(sum - 1.0f) <= 2.5e-3f)) add("vertex-weights-not-normalised", vf::strf("vertex %zu sum %g", v, sum));
			}
	}
}

// ---------------------------------------------------------------- comparison
static float half_ulp(float x) {
	x = std::fabs(x);
	if (x < 6.103515625e-05f) return 5.9604644775390625e-08f;
	int e = 0;
	std::frexp(x, &e); // x = m * 2^e, m in [0.5,1)
	return std::ldexp(1.0f, e - 1 - 10);
}
static bool half_close(float a, float b) {
	if (a == b) return true;
	if (std::isnan(a) || std::isnan(b)) return false;
	return std::fabs(a - b) <= half_ulp(std::max(std::fabs(a), std::fabs(b)));
}
static const float kWeightTol = 1e-3f; // half-float rounding of four weights <= 1 plus renormalisation
static const float kColTol = 1.0f / 255.0f + 1e-6f;

static std::vector<WMap> top4(const std::vector<WMap>& w) {
	std::vector<WMap> out;
	for (auto& m : w) {
		std::vector<std::pair<int, float>> v(m.begin(), m.end());
		auto t = top4_renorm(v);
		WMap r;
		for (auto& e : t) r[e.first] += e.second;
		out.push_back(r);
	}
	return out;
}
// true when a vertex's fifth-largest weight ties with the fourth (selection ambiguous)
static bool top4_ambiguous(const std::vector<WMap>& w) {
	for (auto& m : w) {
		if (m.size() <= 4) continue;
		std::vector<float> v;
		for (auto& e : m) v.push_back(e.second);
		std::sort(v.begin(), v.end(), std::greater<float>());
		if (v[3] == v[4]) return true;
	}
	return false;
}
static bool wmaps_eq(const std::vector<WMap>& a, const std::vector<WMap>& b, std::string* where) {
	if (a.size() != b.size()) {
		if (where) *where = vf::strf("vertex counts %zu vs %zu", a.size(), b.size());
		return false;
	}
	for (size_t v = 0; v < a.size(); v++) {
		std::set<int> bones;
		for (auto& e : a[v]) bones.insert(e.first);
		for (auto& e : b[v]) bones.insert(e.first);
		for (int bn : bones) {
			float x = a[v].count(bn) ? a[v].at(bn) : 0.0f, y = b[v].count(bn) ? b[v].at(bn) : 0.0f;
			if (std::fabs(x - y) > kWeightTol) {
				if (where) *where = vf::strf("vertex %zu bone %d: %g vs %g", v, bn, x, y);
				return false;
			}
		}
	}
	return true;
}

struct Problem {
	std::string key, msg;
};
typedef std::vector<Problem> Problems;
static void addp(Problems& ps, const std::string& key, const std::string& msg) {
	for (auto& p : ps)
		if (p.key == key) return;
	ps.push_back({key, msg});
}

// geometry part shared by the per-conversion and the there-and-back oracle
static void compare_geometry(const ShapeSnap& b, const ShapeSnap& a, const std::string& who, Problems& ps) {
	if (b.pos.size() != a.pos.size() || (b.pos.size() && memcmp(b.pos.data(), a.pos.data(), b.pos.size() * sizeof(Vector3)) != 0)) {
		size_t i = 0;
		while (i < b.pos.size() && i < a.pos.size() && memcmp(&b.pos[i], &a.pos[i], sizeof(Vector3)) == 0) i++;
		std::string d = i < b.pos.size() && i < a.pos.size()
							? vf::strf("vertex %zu (%.9g,%.9g,%.9g) -> (%.9g,%.9g,%.9g)", i, b.pos[i].x, b.pos[i].y, b.pos[i].z, a.pos[i].x, a.pos[i].y, a.pos[i].z)
							: vf::strf("%zu -> %zu vertices", b.pos.size(), a.pos.size());
		addp(ps, "positions-changed", who + ": vertex positions not bit-exact: " + d);
	}
	std::set<Tri3> sb(b.tris.begin(), b.tris.end()), sa(a.tris.begin(), a.tris.end());
	if (sb != sa) addp(ps, "triangles-changed", who + vf::strf(": triangle set differs (%zu -> %zu distinct triangles)", sb.size(), sa.size()));
	if (b.hasUV) {
		if (!a.hasUV || a.uv.size() != b.uv.size()) addp(ps, "uvs-lost", who + ": texture coordinates missing after conversion");
		else
			for (size_t i = 0; i < b.uv.size(); i++)
				if (!half_close(b.uv[i].u, a.uv[i].u) || !half_close(b.uv[i].v, a.uv[i].v)) {
					addp(ps, "uvs-changed", who + vf::strf(": uv %zu (%.9g,%.9g) -> (%.9g,%.9g) beyond half-float rounding", i, b.uv[i].u, b.uv[i].v, a.uv[i].u, a.uv[i].v));
					break;
				}
	}
	auto all_white = [](const std::vector<Color4>& c) {
		for (auto& x : c)
			if (x.r != 1.0f || x.g != 1.0f || x.b != 1.0f || x.a != 1.0f) return false;
		return true;
	};
	if (b.hasCol && !a.hasCol) {
		// absent colours mean white: dropping an all-white set is value-preserving
		if (!all_white(b.col)) addp(ps, "colours-lost", who + ": non-white vertex colours dropped");
	}
	else if (!b.hasCol && a.hasCol) {
		if (!all_white(a.col)) addp(ps, "colours-invented", who + ": vertex colours appear that are not white");
	}
	else if (b.hasCol && a.hasCol) {
		if (a.col.size() != b.col.size()) addp(ps, "colours-changed", who + ": colour count differs");
		else
			for (size_t i = 0; i < b.col.size(); i++) {
				auto cl = [](float f) { return std::max(0.0f, std::min(1.0f, f)); };
				if (std::fabs(cl(b.col[i].r) - a.col[i].r) > kColTol || std::fabs(cl(b.col[i].g) - a.col[i].g) > kColTol
					|| std::fabs(cl(b.col[i].b) - a.col[i].b) > kColTol || std::fabs(cl(b.col[i].a) - a.col[i].a) > kColTol) {
					addp(ps, "colours-changed", who + vf::strf(": colour %zu (%g,%g,%g,%g) -> (%g,%g,%g,%g) beyond 1/255", i, b.col[i].r, b.col[i].g, b.col[i].b, b.col[i].a, a.col[i].r, a.col[i].g, a.col[i].b, a.col[i].a));
					break;
				}
			}
	}
}

struct ConvStats {
	int sourceInconsistent = 0, onlyA = 0, onlyB = 0, bothDisagree = 0, bothAgree = 0;
	int rebuilt = 0, segmentsChanged = 0, segmentsKept = 0, ambiguousTop4 = 0, renamed = 0;
};

// per-conversion oracle: b = before, a = after; toSSE = direction of this conversion
static void compare_conversion(const ModelSnap& B, const ModelSnap& Am, bool toSSE, const Opts& opt, Problems& ps, ConvStats& cs) {
	if (B.shapes.size() != Am.shapes.size()) {
		addp(ps, "shape-count-changed", vf::strf("%zu reachable shapes before, %zu after", B.shapes.size(), Am.shapes.size()));
		return;
	}
	if (B.nodes != Am.nodes) {
		std::string d;
		for (size_t i = 0; i < std::max(B.nodes.size(), Am.nodes.size()); i++) {
			std::string x = i < B.nodes.size() ? B.nodes[i] : "-", y = i < Am.nodes.size() ? Am.nodes[i] : "-";
			if (x != y) { d = x.substr(0, x.find('|')) + " vs " + y.substr(0, y.find('|')); break; }
		}
		addp(ps, "node-hierarchy-changed", "node names/parents/transforms/flags differ: " + d);
	}
	for (size_t i = 0; i < B.shapes.size(); i++) {
		const ShapeSnap& b = B.shapes[i];
		const ShapeSnap& a = Am.shapes[i];
		std::string who = "shape '" + b.name + "' (" + b.type + " -> " + a.type + ")";
		if (!b.convertible) continue;
		bool isTarget = toSSE ? (a.type == "BSTriShape" || a.type == "BSDynamicTriShape" || a.type == "BSSubIndexTriShape")
							  : (a.type == "NiTriShape" || a.type == "BSSegmentedTriShape");
		if (!isTarget) addp(ps, "shape-not-converted", who + ": block type is not a target-version shape type");
		else if (a.type != b.type) cs.rebuilt++;
		if (a.name != b.name) {
			cs.renamed++;
			if (a.name.compare(0, b.name.size() + 1, b.name + "_") != 0) addp(ps, "shape-renamed", who + ": new name '" + a.name + "' is not derived from the old one");
		}
		if (a.parentPath != b.parentPath || a.xform != b.xform || a.flags != b.flags)
			addp(ps, "shape-node-attributes-changed", who + ": parent, transform or flags differ");
		compare_geometry(b, a, who, ps);
		if (b.hasSegs) {
			if (a.hasSegs && a.segs == b.segs) cs.segmentsKept++;
			else cs.segmentsChanged++;
		}
		// --- skin
		if (b.hasSkin) {
			if (!a.hasSkin) addp(ps, "skin-lost", who + ": skin instance / data / partition no longer resolve");
			else {
				if (a.bones != b.bones) addp(ps, "bone-list-changed", who + vf::strf(": %zu bones before, %zu after or different names/order", b.bones.size(), a.bones.size()));
				std::string where;
				bool amb = top4_ambiguous(b.wA);
				if (amb) cs.ambiguousTop4++;
				std::vector<WMap> refA = top4(b.wA);
				bool consistent = b.presentA && b.presentB && (amb || wmaps_eq(b.wB, refA, nullptr));
				// an input whose two weight sources do not tell the same story (they differ, or only one of
				// them carries weights) is only checked for the source that survives the conversion
				if (b.presentA && b.presentB) (consistent ? cs.bothAgree : cs.bothDisagree)++;
				else if (b.presentA) cs.onlyA++;
				else if (b.presentB) cs.onlyB++;
				if ((b.presentA || b.presentB) && !consistent) cs.sourceInconsistent++;
				bool primaryFailed = false;
				if (toSSE) {
					if (b.presentA && !wmaps_eq(a.wA, b.wA, &where)) {
						addp(ps, a.presentA ? "weights-changed:NiSkinData" : "weights-lost:NiSkinData", who + ": NiSkinData weights differ: " + where);
						primaryFailed = true;
					}
					if (b.presentB) {
						if (!wmaps_eq(a.wB, b.wB, &where))
							addp(ps, a.presentB ? "weights-changed:vertex-data" : "weights-lost:vertex-data", who + ": SE vertex weights differ from the LE partition weights: " + where);
					}
					else if (b.presentA && !amb) {
						if (!wmaps_eq(a.wB, refA, &where))
							addp(ps, a.presentB ? "weights-changed:vertex-data" : "weights-lost:skindata-only-weights",
								 who + ": SE vertex weights differ from the four largest NiSkinData weights renormalised: " + where);
					}
				}
				else {
					if (b.presentA) {
						if (!wmaps_eq(a.wA, b.wA, &where)) {
							addp(ps, a.presentA ? "weights-changed:NiSkinData" : "weights-lost:NiSkinData", who + ": NiSkinData weights differ: " + where);
							primaryFailed = true;
						}
					}
					else if (b.presentB) {
						if (!wmaps_eq(a.wA, b.wB, &where)) {
							addp(ps, a.presentA ? "weights-changed:NiSkinData-from-vertex-data" : "weights-lost:partition-only-weights",
								 who + ": the weights of the SE vertex data are not carried into NiSkinData: " + where);
							primaryFailed = true;
						}
					}
					if (!primaryFailed && !amb && (consistent || b.presentA != b.presentB)) {
						std::vector<WMap> ref = b.presentA ? refA : b.wB;
						if (!wmaps_eq(a.wB, ref, &where))
							addp(ps, a.presentB ? "weights-changed:partitions" : "weights-lost:partitions", who + ": LE partition weights differ from the four largest weights renormalised: " + where);
					}
				}
			}
		}
		else if (b.hasSkinInst != a.hasSkinInst)
			addp(ps, "skin-reference-changed", who + ": skin instance reference appeared or vanished");
		// --- shader
		if (b.hasShader != a.hasShader) addp(ps, "shader-lost", who + ": shader reference changed");
		else if (b.hasShader) {
			if (a.shType != b.shType || a.shName != b.shName || a.shMasked != b.shMasked)
				addp(ps, "shader-changed:content", who + ": shader block type/name/payload differ (" + b.shType + " " + b.shMasked + " -> " + a.shType + " " + a.shMasked + ")");
			uint32_t e1 = b.f1, e2 = b.f2, ek = b.shKind;
			std::vector<std::string> et = b.tex;
			if (b.isBSLSP) {
				if (opt.removeParallax && ek == BSLSP_PARALLAX) {
					ek = BSLSP_DEFAULT;
					e1 &= ~(1u << 11);
					if (et.size() >= 4) et[3].clear();
				}
				if (!toSSE && opt.headParts) e2 &= ~(uint32_t) SLSF2_PACKED_TANGENT;
				if (opt.fixShaderFlags) {
					if (ek != BSLSP_ENVMAP) e1 &= ~(uint32_t) SLSF1_ENVIRONMENT_MAPPING;
					else e1 |= SLSF1_ENVIRONMENT_MAPPING;
				}
			}
			uint32_t m1 = 0, m2 = 0; // bits that may additionally have been cleared
			if (b.isBSShader && opt.removeParallax && !a.hasCol) {
				m1 = 1u << 3; // vertex alpha
				m2 = 1u << 5; // vertex colours
			}
			bool f1ok = a.f1 == e1 || a.f1 == (e1 & ~m1), f2ok = a.f2 == e2 || a.f2 == (e2 & ~m2);
			if (!f1ok || !f2ok)
				addp(ps, "shader-changed:flags", who + vf::strf(": shader flags %08x/%08x -> %08x/%08x, documented option effects give %08x/%08x", b.f1, b.f2, a.f1, a.f2, e1, e2));
			if (a.shKind != ek) addp(ps, "shader-changed:type", who + vf::strf(": lighting shader type %u -> %u (expected %u)", b.shKind, a.shKind, ek));
			if (b.hasTex != a.hasTex || a.tex != et) addp(ps, "shader-changed:textures", who + ": texture paths differ beyond the documented parallax removal");
		}
	}
	// sibling names
	// (the key says whether a rename produced the clash and how deep the parent sits, so that
	// different causes do not share a key)
	std::map<std::pair<int, std::string>, std::vector<size_t>> names;
	for (size_t i = 0; i < Am.shapes.size(); i++) names[{Am.shapes[i].parentIdx, Am.shapes[i].name}].push_back(i);
	for (auto& e : names) {
		if (e.second.size() < 2) continue;
		const ShapeSnap& a = Am.shapes[e.second[0]];
		bool renamed = false;
		for (size_t i : e.second)
			if (Am.shapes[i].name != B.shapes[i].name) renamed = true;
		int depth = (int) std::count(a.parentPath.begin(), a.parentPath.end(), '/') - 1;
		addp(ps, vf::strf("duplicate-sibling-names:%s:parent-depth=%s", renamed ? "renamed-onto-taken-name" : "left-unrenamed", depth >= 2 ? "2+" : depth == 1 ? "1" : "0"),
			 vf::strf("%zu shapes under '%s' are all called '%s' after the conversion", e.second.size(), a.parentPath.c_str(), a.name.c_str()));
	}
	// BSX flags
	if (B.hasBsx != Am.hasBsx) addp(ps, "bsx-flags-changed", "BSX flags block appeared or vanished");
	else if (B.hasBsx) {
		uint32_t e = B.bsx;
		if (opt.fixBSXFlags) e = Am.anyExtEmit ? (e | BSX_EXTERNAL_EMITTANCE) : (e & ~(uint32_t) BSX_EXTERNAL_EMITTANCE);
		if (Am.bsx != e) addp(ps, "bsx-flags-changed", vf::strf("BSX flags %u -> %u, expected %u", B.bsx, Am.bsx, e));
	}
}

static void compare_roundtrip(const ModelSnap& B, const ModelSnap& Am, Problems& ps) {
	if (B.shapes.size() != Am.shapes.size()) {
		addp(ps, "shape-count-changed", vf::strf("%zu reachable shapes before, %zu after the round trip", B.shapes.size(), Am.shapes.size()));
		return;
	}
	for (size_t i = 0; i < B.shapes.size(); i++) {
		if (!B.shapes[i].convertible) continue;
		compare_geometry(B.shapes[i], Am.shapes[i], "shape '" + B.shapes[i].name + "'", ps);
	}
}

// ---------------------------------------------------------------- head part eligibility
// headParts = true is only legitimate when every shape the conversion would turn into a dynamic
// shape is a head part candidate: LE -> SE: skinned (skin instance, data and partition present) or
// segmented (the option is ignored for those); SE -> LE: every shape already is a BSDynamicTriShape.
static bool headparts_eligible(const ModelSnap& m) {
	if (m.shapes.empty() || m.looseShapes > 0) return false;
	for (auto& s : m.shapes) {
		if (!s.convertible) return false;
		if (m.stream == 83) {
			if (!(s.hasSkin || s.type == "BSSegmentedTriShape")) return false;
		}
		else {
			if (!s.dynamic) return false;
		}
	}
	return true;
}

// ---------------------------------------------------------------- sources
struct Source {
	bool isFile = false;
	std::string file; // relative to the repo's tests directory
	Recipe r;
	std::string id() const { return isFile ? "file:" + file : r.id(); }
	J json() const { return isFile ? J::obj().set("file", file) : J::obj().set("model", r.json()); }
	std::string feature() const { return isFile ? "file=" + file.substr(file.find('/') + 1) : std::string("skin=") + skin_name(r.skin); }
};

static int g_found_leg = 1;
static J scenario_json(const Source& s, const Opts& o, int leg) {
	J j = s.json();
	j.set("opts", o.json());
	if (leg) j.set("leg", leg);
	// replay cases of violations seen in the second conversion carry a marker: the shortest case is
	// kept as the minimal one, which then prefers a reproduction that needs a single conversion
	else if (g_found_leg == 2) j.set("seen_in_second_conversion", true);
	return j;
}

static const char* dir_name(bool toSSE) { return toSSE ? "LE->SE" : "SE->LE"; }

// what the model handed to a conversion looks like, as far as skinning goes (part of fault keys, so
// that the key names the input class and not the recipe it was derived from)
static std::string skin_state(const ModelSnap& m) {
	std::set<std::string> d;
	for (auto& s : m.shapes) {
		if (!s.hasSkinInst) { d.insert("unskinned"); continue; }
		std::string x = s.presentA && s.presentB ? "both-weight-sources" : s.presentA ? "skindata-only-weights" : s.presentB ? "partition-only-weights" : "no-weights";
		if (s.partsWithoutBones) x += ",no-partition-bones";
		d.insert(x);
	}
	std::string out;
	for (auto& x : d) out += (out.empty() ? "" : "+") + x;
	return out.empty() ? "no-shapes" : out;
}

struct UnitAcc {
	std::set<std::string> nontrivial;
};

static void report(Stats& st, const std::string& prefix, const Problems& ps, const std::set<std::string>* already, const std::string& suffix,
				   const Source& src, const Opts& o, std::set<std::string>* seen) {
	for (auto& p : ps) {
		if (already && already->count(p.key)) continue;
		std::string key = prefix + ":" + p.key + suffix;
		if (seen) seen->insert(p.key);
		if (g_verbose) fprintf(stderr, "  VIOL %s | %s | %s\n", key.c_str(), src.id().c_str(), p.msg.c_str());
		st.violation(key, p.msg + " [" + src.id() + " opts " + o.json().dump() + "]", scenario_json(src, o, 0));
	}
}

// returns false when the scenario was not generated (headParts on an ineligible model)
static bool run_scenario(const Source& src, const std::string& bytes, const Opts& o, Stats& st, UnitAcc& acc, bool sample) {
	note_inflight(scenario_json(src, o, 1).dump());
	g_found_leg = 1;
	NifFile N;
	if (load_bytes(N, bytes) != 0) {
		st.add("input_load_failed");
		return false;
	}
	ModelSnap S0;
	snap_model(N, S0, false);
	bool toSSE = S0.stream == 83;
	if (S0.stream != 83 && S0.stream != 100) {
		st.add("input_not_le_or_se");
		return false;
	}
	if (o.headParts && !headparts_eligible(S0)) {
		st.add("skipped_headparts_not_eligible");
		return false;
	}
	const std::string d1 = dir_name(toSSE), d2 = dir_name(!toSSE);
	const std::string rt = toSSE ? "LE->SE->LE" : "SE->LE->SE";
	st.add("scenarios");
	st.add(std::string("dir.") + d1);
	if (!src.isFile) {
		st.add(std::string("feat.skin.") + skin_name(src.r.skin));
		st.add(std::string("feat.kind.") + kind_name(src.r.kind));
		st.add(std::string("feat.colours.") + col_name(src.r.col));
		st.add(std::string("feat.msn.") + (src.r.msn ? "on" : "off"));
		st.add(std::string("feat.clash.") + clash_name(src.r.clash));
		st.add(std::string("feat.shader.") + (src.r.shader ? "parallax+env+emit" : "plain"));
		st.add(vf::strf("feat.mesh.%d", src.r.mesh));
	}
	else
		st.add("feat.sample_file");
	st.add(vf::strf("opt.headParts.%d", (int) o.headParts));
	st.add(vf::strf("opt.removeParallax.%d", (int) o.removeParallax));
	st.add(vf::strf("opt.calcBounds.%d", (int) o.calcBounds));
	st.add(vf::strf("opt.fixBSXFlags.%d", (int) o.fixBSXFlags));
	st.add(vf::strf("opt.fixShaderFlags.%d", (int) o.fixShaderFlags));
	if (S0.looseShapes) st.add("models_with_unreachable_shapes");

	// ---- leg 1
	note_inflight(scenario_json(src, o, 1).set("in", skin_state(S0)).dump());
	OptOptions lo = o.lib(toSSE ? NiVersion::getSSE() : NiVersion::getSK());
	st.add("evaluations"); // counted before the call: a conversion that faults has been executed, too
	if (g_checkpoint) g_checkpoint(st);
	OptResult res = N.OptimizeFor(lo);
	if (res.versionMismatch) {
		st.add("version_mismatch");
		return true;
	}
	ModelSnap S1;
	snap_model(N, S1, false);
	Problems p1;
	ConvStats cs;
	compare_conversion(S0, S1, toSSE, o, p1, cs);
	std::set<std::string> seen1;
	report(st, d1, p1, nullptr, "", src, o, &seen1);
	st.add("source_inconsistent", cs.sourceInconsistent);
	st.add("weights.both_sources_agree", cs.bothAgree);
	st.add("weights.both_sources_disagree", cs.bothDisagree);
	st.add("weights.only_NiSkinData", cs.onlyA);
	st.add("weights.only_vertex_or_partition_data", cs.onlyB);
	st.add("shapes_rebuilt", cs.rebuilt);
	st.add("shapes_renamed", cs.renamed);
	st.add("segments_kept", cs.segmentsKept);
	st.add("segments_changed", cs.segmentsChanged);
	st.add("top4_ambiguous_shapes", cs.ambiguousTop4);
	if (cs.rebuilt > 0 && acc.nontrivial.insert(src.id() + "#" + std::to_string(o.index())).second) st.add("distinct_nontrivial");
	if (res.dupesRenamed) st.add("result.dupesRenamed");
	if (!res.shapesVColorsRemoved.empty()) st.add("result.vcolorsRemoved");
	if (!res.shapesNormalsRemoved.empty()) st.add("result.normalsRemoved");
	if (!res.shapesPartTriangulated.empty()) st.add("result.partTriangulated");
	if (!res.shapesTangentsAdded.empty()) st.add("result.tangentsAdded");
	if (!res.shapesParallaxRemoved.empty()) st.add("result.parallaxRemoved");

	bool bad = !p1.empty();
	int rc = 0;
	std::string bytes1 = save_bytes(N, &rc);
	if (rc != 0 || bytes1.empty()) {
		st.violation(d1 + ":save-failed", "Save of the converted model returns " + std::to_string(rc) + " [" + src.id() + "]", scenario_json(src, o, 0));
		return true;
	}
	NifFile R;
	rc = load_bytes(R, bytes1);
	if (rc != 0) {
		st.violation(d1 + ":reload-failed", "Load of the saved converted model returns " + std::to_string(rc) + " [" + src.id() + "]", scenario_json(src, o, 0));
		return true;
	}
	ModelSnap S2;
	snap_model(R, S2, true);
	if (S2.stream != (toSSE ? 100u : 83u)) {
		st.violation(d1 + ":reload-wrong-version", vf::strf("reloaded file has stream version %u", S2.stream) + " [" + src.id() + "]", scenario_json(src, o, 0));
		bad = true;
	}
	Problems p2;
	ConvStats cs2;
	compare_conversion(S0, S2, toSSE, o, p2, cs2);
	report(st, d1, p2, &seen1, "@reload", src, o, nullptr);
	for (auto& p : p2)
		if (!seen1.count(p.key)) bad = true;
	for (auto& s : S2.shapes) st.add("partition_rows_compared_with_skindata", s.partRowsCompared);
	for (auto& s : S2.shapes)
		for (auto& k : s.partProblems) {
			bad = true;
			st.violation(d1 + ":partition-invariant:" + k, "reloaded converted shape '" + s.name + "': " + s.partDetail + " [" + src.id() + " opts " + o.json().dump() + "]",
						 scenario_json(src, o, 0));
		}
	st.distinct("outcomes", vf::strf("%s/%d/%zu/%d%d%d%d%d%d/%zu", d1.c_str(), cs.rebuilt, S1.shapes.size(), (int) res.dupesRenamed, !res.shapesVColorsRemoved.empty(),
									 !res.shapesNormalsRemoved.empty(), !res.shapesPartTriangulated.empty(), !res.shapesTangentsAdded.empty(),
									 !res.shapesParallaxRemoved.empty(), bytes1.size()));
	// ---- leg 2: back again, from the reloaded file.  After a leg-1 violation the second conversion
	// is still executed (a sanitizer fault on the library's own output is a finding of its own) but
	// its result is not compared, so that one defect is not reported twice.
	if (g_checkpoint) g_checkpoint(st);
	g_found_leg = 2;
	note_inflight(scenario_json(src, o, 2).set("in", skin_state(S2)).dump());
	if (o.headParts && !headparts_eligible(S2)) {
		st.add("leg2_skipped_headparts_not_eligible");
		return true;
	}
	OptOptions lo2 = o.lib(toSSE ? NiVersion::getSK() : NiVersion::getSSE());
	st.add("evaluations");
	if (g_checkpoint) g_checkpoint(st);
	OptResult res2 = R.OptimizeFor(lo2);
	if (bad) {
		st.add("leg2_fault_watch_only_after_leg1_violation");
		int rc2 = 0;
		std::string b2 = save_bytes(R, &rc2);
		NifFile T2;
		if (rc2 == 0 && !b2.empty()) load_bytes(T2, b2);
		return true;
	}
	st.add("there_and_back");
	if (res2.versionMismatch) {
		st.add("version_mismatch");
		return true;
	}
	ModelSnap S3;
	snap_model(R, S3, false);
	Problems p3, r3;
	ConvStats cs3;
	compare_conversion(S2, S3, !toSSE, o, p3, cs3);
	std::set<std::string> seen3, seenr;
	report(st, d2, p3, nullptr, "", src, o, &seen3);
	compare_roundtrip(S0, S3, r3);
	report(st, rt + ":roundtrip", r3, nullptr, "", src, o, &seenr);
	std::string bytes2 = save_bytes(R, &rc);
	if (rc != 0 || bytes2.empty()) {
		st.violation(d2 + ":save-failed", "Save of the back-converted model returns " + std::to_string(rc) + " [" + src.id() + "]", scenario_json(src, o, 0));
		return true;
	}
	NifFile T;
	rc = load_bytes(T, bytes2);
	if (rc != 0) {
		st.violation(d2 + ":reload-failed", "Load of the saved back-converted model returns " + std::to_string(rc) + " [" + src.id() + "]", scenario_json(src, o, 0));
		return true;
	}
	ModelSnap S4;
	snap_model(T, S4, true);
	if (S4.stream != S0.stream)
		st.violation(d2 + ":reload-wrong-version", vf::strf("reloaded file has stream version %u", S4.stream) + " [" + src.id() + "]", scenario_json(src, o, 0));
	Problems p4, r4;
	ConvStats cs4;
	compare_conversion(S2, S4, !toSSE, o, p4, cs4);
	report(st, d2, p4, &seen3, "@reload", src, o, nullptr);
	compare_roundtrip(S0, S4, r4);
	report(st, rt + ":roundtrip", r4, &seenr, "@reload", src, o, nullptr);
	for (auto& s : S4.shapes)
		for (auto& k : s.partProblems)
			st.violation(d2 + ":partition-invariant:" + k, "reloaded back-converted shape '" + s.name + "': " + s.partDetail + " [" + src.id() + " opts " + o.json().dump() + "]",
						 scenario_json(src, o, 0));
	st.distinct("outcomes", vf::strf("%s/%d/%zu/%zu", rt.c_str(), cs3.rebuilt, S3.shapes.size(), bytes2.size()));
	if (sample)
		st.sample(J(src.json())
					  .set("opts", o.json())
					  .set("direction", rt)
					  .set("input_bytes", (long long) bytes.size())
					  .set("converted_bytes", (long long) bytes1.size())
					  .set("back_converted_bytes", (long long) bytes2.size())
					  .set("shapes_rebuilt", cs.rebuilt)
					  .set("dupes_renamed", res.dupesRenamed));
	return true;
}


// ---------------------------------------------------------------- enumeration
// A task is one scenario (source, option set).  A unit is a run of consecutive tasks handed to one
// worker.  The worker executes a unit inside a forked child of its own; when that child dies the
// fault is attributed to the scenario in flight, reported, and a fresh child continues with the
// task after it, so that one faulting scenario costs one fork and nothing else is lost or repeated.
struct Task {
	size_t src;
	int opt;
};
static std::vector<Source> g_sources;
static std::vector<Task> g_tasks;
struct Unit {
	size_t begin, end; // task range
};
static std::vector<Unit> g_units;

static bool file_version(const std::string& bytes, uint32_t& stream) {
	size_t nl = bytes.find('\n');
	if (nl == std::string::npos || bytes.size() < nl + 18) return false;
	uint32_t ver, user;
	memcpy(&ver, bytes.data() + nl + 1, 4);
	memcpy(&user, bytes.data() + nl + 6, 4);
	memcpy(&stream, bytes.data() + nl + 14, 4);
	return ver == 0x14020007 && user == 12;
}

static std::vector<std::string> list_nifs(const std::string& dir) {
	std::vector<std::string> out;
	DIR* d = opendir(dir.c_str());
	if (!d) return out;
	while (auto e = readdir(d)) {
		std::string n = e->d_name;
		if (n.size() > 4 && n.substr(n.size() - 4) == ".nif") out.push_back(n);
	}
	closedir(d);
	std::sort(out.begin(), out.end());
	return out;
}

static void enumerate(bool thorough, Stats& top) {
	// sample files: LE (83) and SE (100), identical contents listed once
	std::set<uint64_t> seen;
	size_t nfiles = 0;
	for (const char* sub : {"input", "expected"}) {
		for (auto& n : list_nifs(A.repo + "/tests/" + sub)) {
			std::string bytes = vf::read_file(A.repo + "/tests/" + sub + "/" + n);
			uint32_t stream = 0;
			if (!file_version(bytes, stream) || (stream != 83 && stream != 100)) continue;
			if (!seen.insert(vf::fnv(bytes)).second) continue;
			if (!thorough && bytes.size() > 65536) continue; // quick: the samples up to 64 KiB
			Source s;
			s.isFile = true;
			s.file = std::string(sub) + "/" + n;
			g_sources.push_back(s);
			nfiles++;
		}
	}
	top.set_info("sample_files", (long long) nfiles);
	size_t nmodels = 0;
	std::vector<int> clashes = thorough ? std::vector<int>{0, 1, 2, 3, 4} : std::vector<int>{0, 1, 2, 4};
	std::vector<int> meshes = thorough ? std::vector<int>{0, 1, 2, 3, 4} : std::vector<int>{0, 2, 3, 4};
	for (int ver = 0; ver < 2; ver++)
		for (int skin = 0; skin < 5; skin++)
			for (int kind = 0; kind < 4; kind++)
				for (int col = 0; col < 3; col++)
					for (int msn = 0; msn < 2; msn++)
						for (int clash : clashes)
							for (int shader = 0; shader < 2; shader++)
								for (int mesh : meshes) {
									// the 85-bone mesh only in the plain variants (its point is the bone-limit split)
									if (mesh == 3 && (kind != 0 || col != 0 || msn != 0 || clash != 0 || shader != 0 || skin == 0)) continue;
									// the mesh with a triangle outside every partition: skinned LE triangle-list models, plain variants
									if (mesh == 4 && (ver != 0 || kind != 0 || col != 0 || msn != 0 || clash != 0 || shader != 0 || skin == 0)) continue;
									Recipe r;
									r.ver = ver;
									r.skin = skin;
									r.kind = kind;
									r.col = col;
									r.msn = msn;
									r.clash = clash;
									r.shader = shader;
									r.mesh = mesh;
									if (!r.valid()) continue;
									Source s;
									s.r = r;
									g_sources.push_back(s);
									nmodels++;
								}
	top.set_info("built_models", (long long) nmodels);
}

static void make_units(bool thorough, const std::string& only) {
	const size_t modelsPerUnit = 6;
	size_t inUnit = 0;
	size_t ubegin = 0;
	auto close = [&]() {
		if (g_tasks.size() > ubegin) g_units.push_back({ubegin, g_tasks.size()});
		ubegin = g_tasks.size();
		inUnit = 0;
	};
	for (size_t i = 0; i < g_sources.size(); i++) {
		if (!only.empty() && g_sources[i].id().find(only) == std::string::npos) continue;
		for (int o = 0; o < 32; o++) {
			if (!thorough && !quick_option(o)) continue;
			g_tasks.push_back({i, o});
			if (g_sources[i].isFile) close(); // sample files: one scenario per unit (they are the expensive ones)
		}
		if (!g_sources[i].isFile && ++inUnit >= modelsPerUnit) close();
	}
	close();
}

static std::string source_bytes(const Source& s, Stats& st) {
	if (s.isFile) return vf::read_file(A.repo + "/tests/" + s.file);
	Built b = build(s.r);
	if (!b.ok) {
		st.add("models_not_constructible");
		st.note("model not constructible: " + s.r.id() + ": " + b.why);
		return std::string();
	}
	return b.bytes;
}

// parse protocol lines written by a child back into a Stats object
static void merge_lines(Stats& st, const std::string& text) {
	std::istringstream is(text);
	std::string line;
	while (std::getline(is, line)) {
		if (line.empty()) continue;
		std::vector<std::string> p;
		size_t a = 0;
		for (;;) {
			size_t b = line.find('\t', a);
			if (b == std::string::npos) { p.push_back(line.substr(a)); break; }
			p.push_back(line.substr(a, b - a));
			a = b + 1;
		}
		try {
			if (p[0] == "C" && p.size() >= 3) st.add(p[1], atoll(p[2].c_str()));
			else if (p[0] == "M" && p.size() >= 3) st.max(p[1], atoll(p[2].c_str()));
			else if (p[0] == "S" && p.size() >= 3) st.distinct(p[1], p[2]);
			else if (p[0] == "E" && p.size() >= 2) st.sample(J::parse(p[1]));
			else if (p[0] == "V" && p.size() >= 4) st.violation(p[1], p[2], J::parse(p[3]));
			else if (p[0] == "N" && p.size() >= 2) {
				if (p[1].compare(0, 5, "cap: ") == 0) st.capped(p[1].substr(5));
				else st.note(p[1]);
			}
			else if (p[0] == "X") st.exhaustive = false;
		} catch (std::exception&) {
			st.add("unparsable_child_lines");
		}
	}
}

// ---- fault attribution without the in-process symbolizer
// Symbolising every report inside the dying process costs ~0.2-1 s per fault (llvm-symbolizer loads
// the debug info of the whole harness each time), which dominates the run as soon as a whole
// feature class faults.  The harness therefore re-executes itself once with symbolize=0 added to
// the sanitizer options and resolves the frames of a report itself, once per distinct fault site.
static void reexec_without_inprocess_symbolizer(char** argv) {
	if (getenv("C12_NOSYM")) return;
	setenv("C12_NOSYM", "1", 1);
	for (const char* name : {"ASAN_OPTIONS", "UBSAN_OPTIONS"}) {
		const char* cur = getenv(name);
		std::string v = cur ? cur : "";
		v += std::string(v.empty() ? "" : ":") + "symbolize=0";
		setenv(name, v.c_str(), 1);
	}
	execv("/proc/self/exe", argv);
	// exec failed: carry on with the slow path
}

static std::map<std::string, std::string> g_frame_cache, g_frame_loc;

static void resolve_frame(vf::CrashInfo& ci) {
	if (!ci.frame.empty() || ci.text.empty()) return;
	// frames look like "    #3 0x55d0c8a3f0b5  (/path/to/exe+0x42c0b5)"
	std::vector<std::pair<std::string, unsigned long long>> frames;
	std::istringstream is(ci.text);
	std::string line;
	while (std::getline(is, line) && frames.size() < 16) {
		size_t h = line.find("    #");
		if (h != 0) continue;
		size_t lp = line.find('('), plus = line.find("+0x", lp == std::string::npos ? 0 : lp), rp = line.find(')', plus == std::string::npos ? 0 : plus);
		if (lp == std::string::npos || plus == std::string::npos || rp == std::string::npos) continue;
		std::string mod = line.substr(lp + 1, plus - lp - 1);
		unsigned long long off = strtoull(line.substr(plus + 1, rp - plus - 1).c_str(), nullptr, 16);
		frames.push_back({mod, off});
	}
	if (frames.empty()) return;
	std::string mod0 = frames[0].first, ck;
	for (auto& f : frames) ck += f.first == mod0 ? vf::strf("%llx,", f.second) : std::string("x,");
	auto it = g_frame_cache.find(ck);
	if (it != g_frame_cache.end()) {
		ci.frame = it->second;
		return;
	}
	const char* sym = getenv("ASAN_SYMBOLIZER_PATH");
	std::string cmd = std::string(sym && *sym ? sym : "llvm-symbolizer") + " --demangle --inlines --functions=linkage --obj=" + mod0;
	size_t n = 0;
	for (auto& f : frames) {
		if (f.first != mod0) break;
		cmd += vf::strf(" 0x%llx", f.second ? f.second - 1 : 0); // return addresses: step back into the call
		n++;
	}
	cmd += " 2>/dev/null";
	std::string out;
	if (FILE* p = popen(cmd.c_str(), "r")) {
		char buf[4096];
		size_t r;
		while ((r = fread(buf, 1, sizeof buf, p)) > 0) out.append(buf, r);
		pclose(p);
	}
	if (g_verbose) fprintf(stderr, "SYMBOLIZE %s\n%s\n", cmd.c_str(), out.c_str());
	// output: per address a sequence of "function\nfile:line:col" pairs, blank line between addresses
	std::istringstream os(out);
	std::string fn, loc, found;
	while (found.empty() && std::getline(os, fn)) {
		if (fn.empty()) continue;
		if (!std::getline(os, loc)) break;
		bool in_repo = loc.find(A.repo + "/src/") != std::string::npos || loc.find(A.repo + "/include/") != std::string::npos;
		if (in_repo) {
			found = vf::sanitize_fn(fn);
			g_frame_loc[found] = loc;
		}
	}
	g_frame_cache[ck] = found;
	ci.frame = found;
}

static std::string crash_violation(vf::CrashInfo ci, const std::string& inflight, Stats& parent) {
	resolve_frame(ci);
	J j;
	try {
		j = J::parse(inflight);
	} catch (std::exception& e) {
		if (g_verbose) fprintf(stderr, "unparsable in-flight description (%s): [%s]\n", e.what(), inflight.c_str());
		parent.violation("crash:" + ci.key(), "process died outside a described scenario: " + ci.cls + " in " + ci.frame, J::obj());
		return "";
	}
	if (j.has("stage")) {
		// died while building the input through the API: not a conversion
		parent.add("model_build_crashed");
		parent.note("crash while building " + inflight + ": " + ci.key());
		return "";
	}
	Source s;
	if (j.has("file")) {
		s.isFile = true;
		s.file = j["file"].str();
	}
	else
		s.r = Recipe::from(j["model"]);
	Opts o = Opts::from(j["opts"]);
	int leg = (int) j["leg"].i64();
	bool toSSE1 = s.r.ver == V_LE;
	if (s.isFile) {
		uint32_t stream = 0;
		std::string b = vf::read_file(A.repo + "/tests/" + s.file);
		file_version(b, stream);
		toSSE1 = stream == 83;
	}
	bool toSSE = leg == 2 ? !toSSE1 : toSSE1;
	std::string frame = ci.frame.empty() ? "?" : ci.frame;
	if (frame.compare(0, 7, "nifly::") == 0) frame = frame.substr(7);
	std::string state = j.has("in") ? j["in"].str() : s.feature();
	std::string key = std::string(dir_name(toSSE)) + ":crash:in=" + state + ":" + ci.cls + "@" + frame;
	g_found_leg = leg == 2 ? 2 : 1;
	std::string head = ci.text.substr(0, ci.text.find("    #"));
	if (head.size() > 400) head.resize(400);
	std::string loc = g_frame_loc.count(ci.frame) ? g_frame_loc[ci.frame] : "";
	if (loc.size() > 4 && loc.compare(loc.size() - 4, 4, ":0:0") == 0) loc.resize(loc.size() - 4); // no line information for sanitizer check code
	parent.violation(key,
					 vf::strf("%s in %s (%s) while converting %s (leg %d of %s, options %s); report: %s", ci.cls.c_str(), ci.frame.c_str(), loc.c_str(), s.id().c_str(),
							  leg, toSSE1 ? "LE->SE->LE" : "SE->LE->SE", o.json().dump().c_str(), head.c_str()),
					 scenario_json(s, o, 0));
	parent.add("scenarios_faulted");
	parent.distinct("fault_sites", std::string(dir_name(toSSE)) + ":" + ci.key());
	return key;
}

// executes tasks [begin,end) of the task list; isolation as described above
static void run_tasks(const std::vector<Task>& tasks, const std::vector<Source>& sources, size_t begin, size_t end, Stats& st) {
	st.max_viols_per_key = 1;
	std::string tmp = A.rundir + "/c12." + std::to_string(getpid()) + ".part";
	size_t pos = begin;
	int guard = 0;
	while (pos < end) {
		if (vf::deadline_passed()) {
			st.capped(vf::strf("deadline reached, %zu scenarios of a unit not run", end - pos));
			st.add("scenarios_not_run_deadline", (long long) (end - pos));
			break;
		}
		unlink(tmp.c_str());
		iso_init();
		note_progress((long) pos);
		note_inflight("");
		vf::CrashInfo ci = fork_run([&]() -> int {
			FILE* f = fopen(tmp.c_str(), "w");
			if (!f) return 5;
			UnitAcc acc;
			g_checkpoint = [f](Stats& x) { x.flush(f); };
			size_t cachedSrc = (size_t) -1;
			std::string bytes;
			for (size_t t = pos; t < end; t++) {
				Stats s;
				s.max_viols_per_key = 1;
				if (vf::deadline_passed()) {
					s.capped(vf::strf("deadline reached, %zu scenarios of a unit not run", end - t));
					s.add("scenarios_not_run_deadline", (long long) (end - t));
					s.flush(f);
					break;
				}
				note_progress((long) t);
				const Source& src = sources[tasks[t].src];
				if (cachedSrc != tasks[t].src) {
					note_inflight(J(src.json()).set("stage", "build").dump());
					bytes = source_bytes(src, s);
					cachedSrc = tasks[t].src;
				}
				alarm(300); // a conversion that does not return is a fault as well (class "timeout")
				if (!bytes.empty()) run_scenario(src, bytes, Opts::from_index(tasks[t].opt), s, acc, t % 211 == 0);
				alarm(0);
				s.flush(f);
			}
			fclose(f);
			return 0;
		});
		merge_lines(st, vf::read_file(tmp));
		unlink(tmp.c_str());
		if (ci.cls.empty()) break;
		// the child died: attribute, then continue after the scenario that was in flight
		long at = g_iso->progress.load();
		g_iso->inflight[sizeof(g_iso->inflight) - 1] = 0;
		std::string inflight = g_iso->inflight;
		crash_violation(ci, inflight, st);
		if ((size_t) at < pos || (size_t) at >= end || ++guard > 100000) {
			st.capped("cannot resume a unit after a fault");
			break;
		}
		pos = (size_t) at + 1;
	}
	st.add("units");
}

int main(int argc, char** argv) {
	reexec_without_inprocess_symbolizer(argv);
	A = vf::parse_args(argc, argv);
	g_verbose = A.has("verbose");
	Stats top;
	bool thorough = A.thorough();
	vf::PoolCfg pc;
	pc.jobs = A.jobs;
	pc.rundir = A.rundir;
	pc.repo = A.repo;
	auto pool_crash = [&](size_t, const vf::CrashInfo& ci, const std::string& inflight, Stats& parent) -> std::string {
		// a worker itself died (outside the isolated children): report, do not retry
		crash_violation(ci, inflight, parent);
		parent.add("worker_deaths");
		parent.capped("a worker process died outside an isolated scenario");
		return "";
	};

	if (!A.replay.empty()) {
		J c = J::parse(vf::read_file(A.replay))["case"];
		Source s;
		if (c.has("file")) {
			s.isFile = true;
			s.file = c["file"].str();
		}
		else
			s.r = Recipe::from(c["model"]);
		if (!s.isFile && !s.r.valid()) vf::fatal("replay: recipe is not valid");
		Opts o = Opts::from(c["opts"]);
		std::vector<Source> srcs{s};
		std::vector<Task> tasks{{0, o.index()}};
		vf::run_pool(
			1, pc, [&](size_t, const std::vector<std::string>&, long, Stats& st) { run_tasks(tasks, srcs, 0, 1, st); }, pool_crash, top);
		vf::finish(top);
		return 0;
	}

	enumerate(thorough, top);
	make_units(thorough, A.get("only"));
	vf::run_pool(
		g_units.size(), pc, [&](size_t u, const std::vector<std::string>&, long, Stats& st) { run_tasks(g_tasks, g_sources, g_units[u].begin, g_units[u].end, st); },
		pool_crash, top);

	top.set_info("rule",
				 vf::strf("complete product, no sampling: %s sample files with stream version 83/100 (identical contents once) and API-built models over "
						  "{LE,SE} x skin{unskinned, both sources, NiSkinData-only, partition/vertex-data-only, partitions without bones} x "
						  "kind{triangles, strips(LE), segments, dynamic(SE, skinned)} x colours{none, all-white, mixed} x model-space-normals{off,on} x "
						  "name clash{%s} x shader{plain, parallax+stale env flag+external emittance with BSX} x mesh{%s}, each times %s option sets "
						  "(headParts only when every shape is head-part eligible); every scenario converts, saves, reloads, converts back, saves, reloads. "
						  "evaluations = OptimizeFor calls; distinct_nontrivial = distinct (model, direction, option set) whose first conversion replaced at "
						  "least one shape block by a shape of the target version",
						  thorough ? "all" : "<= 64 KiB", thorough ? "none, pair, pair+taken suffix, pair under child, pair under grandchild" : "none, pair, pair+taken suffix, pair under grandchild",
						  thorough ? "4v/2t, 5v/3t/5 bones, 6v/4t/2 partitions" : "4v/2t, 6v/4t/2 partitions",
						  thorough ? "all 32" : "8 (calcBounds = fixBSXFlags = fixShaderFlags)"));
	top.note("headParts = true is generated only for models in which every reachable shape may legitimately be a dynamic head part "
			 "(LE: skinned with skin data and partition, or segmented; SE: BSDynamicTriShape); the option is documented as 'use ONLY for head parts'");
	top.note("dropping an all-white vertex colour set (and adding an all-white one) counts as colour-preserving: absent colours mean white");
	top.note("shader comparison: masked payload (references, string indices, flags, lighting type neutralised) must be identical; flags, type and texture "
			 "paths must equal the input after applying the documented effects of removeParallax, fixShaderFlags and headParts (SE->LE clears the packed-tangent flag)");
	top.note("weights are compared source by source with tolerance 1e-3 (half-float rounding plus renormalisation); an input whose sources disagree or "
			 "where only one source carries weights is counted in source_inconsistent and checked only for the source that survives");
	top.note("sanitizer reports are symbolised by the harness (it re-executes itself once with symbolize=0), one symbolizer call per distinct fault site");
	top.set_info("option_sets", thorough ? 32 : 8);
	top.set_info("scenarios_enumerated", (long long) g_tasks.size());
	top.set_info("units_total", (long long) g_units.size());
	vf::finish(top);
	return 0;
}
