// SG corpus: scene graphs built through the public API from a small construction grammar, and
// block permutation of written files through the independent codec (so the library meets block
// orders it would never write itself).  See DESIGN.md 3.5.
#pragma once
#include "canon.hpp"

#include "Animation.hpp"
#include "ExtraData.hpp"
#include "bhk.hpp"

namespace sg {
using namespace nifly;

struct Spec {
	std::string ver;   // OB FO3 SK SSE FO4
	int tree = 0;	   // index into the list of node trees (0..9)
	int shapes = 0;	   // index into the list of shape placements (0..5)
	int attach = 0;	   // attachment menu (0..9)
	bool dupnames = false;
};

inline NiVersion version_of(const std::string& v) {
	if (v == "OB") return NiVersion::getOB();
	if (v == "FO3") return NiVersion::getFO3();
	if (v == "SK") return NiVersion::getSK();
	if (v == "FO4") return NiVersion::getFO4();
	return NiVersion::getSSE();
}

// node trees: parent index of each extra node (0 = root, k = k-th extra node, 1-based)
inline const std::vector<std::vector<int>>& trees() {
	static const std::vector<std::vector<int>> t = {{}, {0}, {0, 0}, {0, 1}, {0, 0, 0}, {0, 0, 1}, {0, 0, 2}, {0, 1, 0}, {0, 1, 1}, {0, 1, 2}};
	return t;
}
// shape placements: parent of each shape (0 = root, 1 = first extra node if it exists)
inline const std::vector<std::vector<int>>& shape_sets() {
	static const std::vector<std::vector<int>> s = {{}, {0}, {1}, {0, 0}, {0, 1}, {1, 1}, {0, 0, 0}};
	return s;
}
static const char* ATTACH[] = {"none", "extra-data", "collision", "constraint", "controller", "loose", "ordered-node", "alpha+shape-extra", "shared-collision", "empty-child-refs"};
constexpr int NATTACH = 10;

inline std::string spec_str(const Spec& s) {
	return s.ver + "/tree" + std::to_string(s.tree) + "/shapes" + std::to_string(s.shapes) + "/" + ATTACH[s.attach] + (s.dupnames ? "/dup" : "");
}
inline vf::J spec_json(const Spec& s) {
	return vf::J::obj().set("ver", s.ver).set("tree", s.tree).set("shapes", s.shapes).set("attach", s.attach).set("dupnames", s.dupnames);
}
inline Spec spec_from(const vf::J& j) {
	Spec s;
	s.ver = j["ver"].str();
	s.tree = (int) j["tree"].i64();
	s.shapes = (int) j["shapes"].i64();
	s.attach = (int) j["attach"].i64();
	s.dupnames = j["dupnames"].b;
	return s;
}

inline bool build(const Spec& sp, NifFile& nif) {
	nif.Create(version_of(sp.ver));
	auto& hdr = nif.GetHeader();
	auto root = nif.GetRootNode();
	std::vector<NiNode*> nodes = {root};
	const auto& tr = trees()[(size_t) sp.tree];
	for (size_t i = 0; i < tr.size(); i++) {
		MatTransform t;
		t.translation = Vector3(float(i + 1), 0.5f, -1.0f);
		nodes.push_back(nif.AddNode("Node" + std::to_string(i + 1), t, nodes[(size_t) tr[i]]));
	}
	if (sp.attach == 6) {
		// a BSOrderedNode that will parent the shapes (its child order must be preserved by sorting)
		auto on = std::make_unique<BSOrderedNode>();
		on->name.get() = "Ordered";
		uint32_t id = hdr.AddBlock(std::move(on));
		root->childRefs.AddBlockRef(id);
		nodes.push_back(hdr.GetBlock<NiNode>(id));
	}
	const auto& sh = shape_sets()[(size_t) sp.shapes];
	std::vector<NiShape*> shapes;
	for (size_t i = 0; i < sh.size(); i++) {
		// values that are not exactly representable in half precision (0.1, 1/3): formats that store halves must
		// round them in the file only, never in the model
		std::vector<Vector3> v = {{0.1f, 0, float(i)}, {1, 1.0f / 3.0f, float(i)}, {0, 1, float(i) + 0.3f}, {1, 1, float(i) + 0.5f}};
		std::vector<Triangle> t = {{0, 1, 2}, {1, 3, 2}};
		std::vector<Vector2> uv = {{0.1f, 0}, {1, 0.3f}, {1.0f / 3.0f, 1}, {1, 1}};
		std::vector<Vector3> nrm = {{0, 0, 1}, {0, 0, 1}, {0, 0, 1}, {0, 0, 1}};
		std::string name = sp.dupnames ? "Shape" : std::string("Shape") + char('A' + i);
		auto s = nif.CreateShapeFromData(name, &v, &t, &uv, &nrm);
		if (!s) return false;
		shapes.push_back(s);
		NiNode* parent = root;
		if (sp.attach == 6) parent = nodes.back();
		else if (sh[i] == 1 && nodes.size() > 1) parent = nodes[1];
		if (parent != root) nif.SetParentNode(s, parent);
	}
	switch (sp.attach) {
		case 1: {
			auto bsx = std::make_unique<BSXFlags>();
			bsx->name.get() = "BSX";
			bsx->integerData = 2;
			nif.AssignExtraData(root, std::move(bsx));
			auto ed = std::make_unique<NiStringExtraData>();
			ed->name.get() = "Prn";
			ed->stringData.get() = "SideWeapon";
			nif.AssignExtraData(nodes.back(), std::move(ed));
			break;
		}
		case 2:
		case 3: {
			auto mk_body = [&](NiAVObject* target) {
				auto box = std::make_unique<bhkBoxShape>();
				uint32_t boxId = hdr.AddBlock(std::move(box));
				auto body = std::make_unique<bhkRigidBody>();
				body->shapeRef.index = boxId;
				uint32_t bodyId = hdr.AddBlock(std::move(body));
				auto col = std::make_unique<bhkCollisionObject>();
				col->bodyRef.index = bodyId;
				col->targetRef.index = hdr.GetBlockID(target);
				uint32_t colId = hdr.AddBlock(std::move(col));
				target->collisionRef.index = colId;
				return bodyId;
			};
			uint32_t b1 = mk_body(root);
			if (sp.attach == 3) {
				uint32_t b2 = mk_body(nodes.back() != root ? (NiAVObject*) nodes.back() : (shapes.empty() ? (NiAVObject*) root : (NiAVObject*) shapes[0]));
				if (nodes.back() == root && shapes.empty()) b2 = b1;
				auto con = std::make_unique<bhkRagdollConstraint>();
				con->entityRefs.AddBlockRef(b1);
				con->entityRefs.AddBlockRef(b2);
				uint32_t conId = hdr.AddBlock(std::move(con));
				hdr.GetBlock<bhkRigidBody>(b1)->constraintRefs.AddBlockRef(conId);
			}
			break;
		}
		case 4: {
			auto data = std::make_unique<NiTransformData>();
			uint32_t dataId = hdr.AddBlock(std::move(data));
			auto interp = std::make_unique<NiTransformInterpolator>();
			interp->dataRef.index = dataId;
			uint32_t interpId = hdr.AddBlock(std::move(interp));
			auto tk = std::make_unique<NiTextKeyExtraData>();
			uint32_t tkId = hdr.AddBlock(std::move(tk));
			auto mtt = std::make_unique<NiMultiTargetTransformController>();
			mtt->targetRef.index = 0;
			mtt->targetRefs.AddBlockRef(hdr.GetBlockID(nodes.back()));
			uint32_t mttId = hdr.AddBlock(std::move(mtt));
			auto seq = std::make_unique<NiControllerSequence>();
			seq->name.get() = "Idle";
			seq->textKeyRef.index = tkId;
			ControllerLink cl;
			cl.interpolatorRef.index = interpId;
			cl.controllerRef.index = mttId;
			cl.nodeName.get() = nodes.back()->name.get();
			cl.ctrlType.get() = "NiTransformController";
			seq->controlledBlocks.push_back(cl);
			uint32_t seqId = hdr.AddBlock(std::move(seq));
			auto pal = std::make_unique<NiDefaultAVObjectPalette>();
			pal->sceneRef.index = 0;
			uint32_t palId = hdr.AddBlock(std::move(pal));
			auto mgr = std::make_unique<NiControllerManager>();
			mgr->targetRef.index = 0;
			mgr->controllerSequenceRefs.AddBlockRef(seqId);
			mgr->objectPaletteRef.index = palId;
			mgr->nextControllerRef.index = mttId;
			uint32_t mgrId = hdr.AddBlock(std::move(mgr));
			hdr.GetBlock<NiControllerSequence>(seqId)->managerRef.index = mgrId;
			root->controllerRef.index = mgrId;
			break;
		}
		case 5: {
			// a loose chain whose child sits at a LOWER index than its (unreferenced) parent, plus an independent loose block
			auto ed = std::make_unique<NiStringExtraData>();
			ed->name.get() = "LooseED";
			ed->stringData.get() = "x";
			uint32_t edId = hdr.AddBlock(std::move(ed));
			auto n = std::make_unique<NiNode>();
			n->name.get() = "LooseNode";
			n->extraDataRefs.AddBlockRef(edId);
			hdr.AddBlock(std::move(n));
			auto ed2 = std::make_unique<NiStringExtraData>();
			ed2->name.get() = "LooseED2";
			ed2->stringData.get() = "y";
			hdr.AddBlock(std::move(ed2));
			// a loose chain of three, deepest member first: each only becomes unreferenced once the block behind it is gone
			{
				uint32_t dataId = hdr.AddBlock(std::make_unique<NiTransformData>());
				auto interp = std::make_unique<NiTransformInterpolator>();
				interp->dataRef.index = dataId;
				uint32_t interpId = hdr.AddBlock(std::move(interp));
				auto ctl = std::make_unique<NiTransformController>();
				ctl->interpolatorRef.index = interpId;
				hdr.AddBlock(std::move(ctl));
			}
			break;
		}
		case 9: {
			// child lists that hold empty references: a node whose child references are ALL empty, and an empty reference
			// in front of the root's real children (files in the wild have both; writing drops empty references)
			auto n = std::make_unique<NiNode>();
			n->name.get() = "Hollow";
			n->childRefs.AddBlockRef(NIF_NPOS);
			n->childRefs.AddBlockRef(NIF_NPOS);
			uint32_t nid = hdr.AddBlock(std::move(n));
			root->childRefs.AddBlockRef(NIF_NPOS);
			root->childRefs.AddBlockRef(nid);
			auto leaf = std::make_unique<NiNode>();
			leaf->name.get() = "Leaf";
			root->childRefs.AddBlockRef(hdr.AddBlock(std::move(leaf)));
			break;
		}
		case 8: {
			// one collision object that two scene objects refer to (the sorter reaches it twice)
			auto box = std::make_unique<bhkBoxShape>();
			uint32_t boxId = hdr.AddBlock(std::move(box));
			auto body = std::make_unique<bhkRigidBody>();
			body->shapeRef.index = boxId;
			uint32_t bodyId = hdr.AddBlock(std::move(body));
			auto col = std::make_unique<bhkCollisionObject>();
			col->bodyRef.index = bodyId;
			col->targetRef.index = hdr.GetBlockID(root);
			uint32_t colId = hdr.AddBlock(std::move(col));
			root->collisionRef.index = colId;
			NiAVObject* second = nodes.back() != root ? (NiAVObject*) nodes.back() : (shapes.empty() ? nullptr : (NiAVObject*) shapes[0]);
			if (second) second->collisionRef.index = colId;
			break;
		}
		case 7: {
			for (auto s : shapes) {
				auto alpha = std::make_unique<NiAlphaProperty>();
				nif.AssignAlphaProperty(s, std::move(alpha));
				auto ed = std::make_unique<NiIntegerExtraData>();
				ed->name.get() = "Flags";
				ed->integerData = 7;
				nif.AssignExtraData(s, std::move(ed));
			}
			break;
		}
		default: break;
	}
	return true;
}

inline std::vector<Spec> all_specs(bool thorough) {
	std::vector<Spec> r;
	std::vector<std::string> vers = {"OB", "FO3", "SK", "SSE", "FO4"};
	for (auto& v : vers)
		for (int tree = 0; tree < (int) trees().size(); tree++) {
			if (!thorough && tree != 0 && tree != 1 && tree != 3 && tree != 5) continue;
			for (int sh = 0; sh < (int) shape_sets().size(); sh++) {
				if (!thorough && sh > 4) continue;
				for (int at = 0; at < NATTACH; at++) {
					if (at == 7 && sh == 0) continue; // nothing to attach to
					for (int dup = 0; dup < 2; dup++) {
						if (dup && shape_sets()[(size_t) sh].size() < 2) continue;
						r.push_back({v, tree, sh, at, dup != 0});
					}
				}
			}
		}
	return r;
}

// ---- block boundaries of a written file (size table, or a walk with the library's readers) ----
inline std::vector<size_t> block_starts(const std::string& F, const np::Header& h) {
	std::vector<size_t> r;
	if (h.has_sizes) { r = h.block_off; r.push_back(h.blocks_end); return r; }
	NiHeader hdr;
	hdr.SetVersion(NiVersion((NiFileVersion) h.version, h.user, h.stream));
	std::istringstream is(F, std::ios::binary);
	is.seekg((std::streamoff) h.hdr_end);
	NiIStream in(&is, &hdr);
	for (uint32_t i = 0; i < h.nblocks; i++) {
		auto f = NiFactoryRegister::Get().GetFactoryByName(h.type_of(i));
		if (!f) break;
		r.push_back((size_t) is.tellg());
		auto b = f->Load(in);
		if (is.fail()) break;
	}
	r.push_back((size_t) is.tellg());
	return r;
}

// Permute the blocks of a written file: block i moves to index perm[i]; every reference field
// (offsets from the write-side reference hook) is renumbered.  Pure byte surgery + header re-emit.
inline std::string permute(const canon::Saved& sv, const std::vector<uint32_t>& perm) {
	const std::string& F = sv.bytes;
	np::Header h = np::parse(F);
	if (!h.ok || perm.size() != h.nblocks) return "";
	std::vector<size_t> starts = block_starts(F, h);
	if (starts.size() != (size_t) h.nblocks + 1) return "";
	std::vector<std::string> payload(h.nblocks);
	for (uint32_t i = 0; i < h.nblocks; i++) {
		std::string p = F.substr(starts[i], starts[i + 1] - starts[i]);
		auto lo = std::lower_bound(sv.refs.begin(), sv.refs.end(), (uint64_t) starts[i]);
		for (auto it = lo; it != sv.refs.end() && *it + 4 <= starts[i + 1]; ++it) {
			uint32_t v;
			memcpy(&v, p.data() + (*it - starts[i]), 4);
			if (v != 0xFFFFFFFFu && v < h.nblocks) { v = perm[v]; memcpy(&p[*it - starts[i]], &v, 4); }
		}
		payload[perm[i]] = p;
	}
	np::Header h2 = h;
	for (uint32_t i = 0; i < h.nblocks; i++) {
		h2.typeidx[perm[i]] = h.typeidx[i];
		if (h.has_sizes) h2.sizes[perm[i]] = h.sizes[i];
	}
	std::string out = np::emit_header(h2);
	for (auto& p : payload) out += p;
	uint32_t one = 1, rootidx = perm[0];
	out.append((const char*) &one, 4);
	out.append((const char*) &rootidx, 4);
	return out;
}

} // namespace sg
