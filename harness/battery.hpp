// Query battery: a fixed list of read-only NifFile API calls rendered to canonical text.
// Used as (a) the logical snapshot compared before/after saves (C02) and (b) the workload run
// under ASan/UBSan on damaged inputs (C15, C16).  With index_free=true nothing that depends on
// block numbering is printed, so the text survives reordering and pruning.
#pragma once
#include "NifFile.hpp"
#include "bhk.hpp"

#include <cstdio>
#include <string>

namespace bat {
using namespace nifly;

// Coarse progress marker: which API entry point is running.  Fault-enumeration harnesses point
// this at vf::set_step so that a hang or stack exhaustion can be attributed to the entry point.
inline void (*g_step_hook)(const char*) = nullptr;
inline void step(const char* s) { if (g_step_hook) g_step_hook(s); }

inline std::string vf_hex(uint64_t v) { char b[20]; snprintf(b, sizeof b, "%016llx", (unsigned long long) v); return b; }

// Output sink: either canonical text (snapshots that get compared / shown) or a running hash only
// (fault-enumeration workloads, where only "did it survive" and a cheap outcome id matter).
struct Out {
	bool text = true;
	std::string s;
	uint64_t h = 1469598103934665603ull;
	void mix(const void* p, size_t n) {
		auto c = (const unsigned char*) p;
		for (size_t i = 0; i < n; i++) { h ^= c[i]; h *= 1099511628211ull; }
	}
	Out& operator+=(const std::string& t) { if (text) s += t; else mix(t.data(), t.size()); return *this; }
	Out& operator+=(const char* t) { if (text) s += t; else mix(t, strlen(t)); return *this; }
	Out& operator+=(char c) { if (text) s += c; else mix(&c, 1); return *this; }
};
inline void f32(Out& o, float f) {
	uint32_t u;
	memcpy(&u, &f, 4);
	if (!o.text) { o.mix(&u, 4); return; }
	char b[16];
	snprintf(b, sizeof b, "%08x ", u);
	o.s += b;
}
inline void v3(Out& o, const Vector3& v) { f32(o, v.x); f32(o, v.y); f32(o, v.z); }
inline void xf(Out& o, const MatTransform& t) {
	v3(o, t.translation);
	for (int r = 0; r < 3; r++) v3(o, t.rotation[r]);
	f32(o, t.scale);
}
inline void u(Out& o, unsigned long long v) {
	if (!o.text) { o.mix(&v, 8); return; }
	o.s += std::to_string(v);
	o.s += ' ';
}

struct Opt {
	bool index_free = true;
	bool bounds = true;		 // include bounding spheres
	bool heavy = true;		 // per-vertex arrays, weights
	bool reachable_only = false; // only nodes / shapes reachable from the root (what a pruning save keeps)
	bool hash_only = false;		 // do not render text, only hash what the queries return
	bool derived_blocks = true;	 // block tree and Oblivion binary tangent data (blocks a save derives from the shapes)
	bool lazy_getters = true;	 // include getters that fill caches / triangulate partition strips (GetShapePartitions)
	size_t max_items = 1u << 20;
};

inline Out shape_out(NifFile& nif, NiShape* shape, const Opt& opt) {
	Out o;
	o.text = !opt.hash_only;
	auto& hdr = nif.GetHeader();
	o += "shape '" + shape->name.get() + "' type=" + shape->GetBlockName() + "\n";
	o += " nv="; u(o, shape->GetNumVertices());
	o += "nt="; u(o, shape->GetNumTriangles());
	o += "flags="; u(o, (shape->HasVertices() ? 1 : 0) | (shape->HasUVs() ? 2 : 0) | (shape->HasNormals() ? 4 : 0) | (shape->HasTangents() ? 8 : 0)
						| (shape->HasVertexColors() ? 16 : 0) | (shape->IsSkinned() ? 32 : 0) | (shape->HasData() ? 64 : 0)
						| (shape->HasSkinInstance() ? 128 : 0) | (shape->HasShaderProperty() ? 256 : 0) | (shape->HasAlphaProperty() ? 512 : 0));
	o += "\n";
	step("geometry getters");
	if (opt.heavy) {
		std::vector<Vector3> verts;
		if (nif.GetVertsForShape(shape, verts)) { o += " verts:"; for (auto& v : verts) v3(o, v); o += "\n"; }
		if (auto p = nif.GetVertsForShape(shape)) { o += " vertsp="; u(o, p->size()); }
		if (auto p = nif.GetNormalsForShape(shape)) { o += " norms:"; for (auto& v : *p) v3(o, v); o += "\n"; }
		if (auto p = nif.GetTangentsForShape(shape)) { o += " tang:"; for (auto& v : *p) v3(o, v); o += "\n"; }
		if (auto p = nif.GetBitangentsForShape(shape)) { o += " bitang:"; for (auto& v : *p) v3(o, v); o += "\n"; }
		if (auto p = nif.GetUvsForShape(shape)) { o += " uvs:"; for (auto& v : *p) { f32(o, v.u); f32(o, v.v); } o += "\n"; }
		if (auto p = nif.GetColorsForShape(shape)) { o += " cols:"; for (auto& c : *p) { f32(o, c.r); f32(o, c.g); f32(o, c.b); f32(o, c.a); } o += "\n"; }
		if (auto p = nif.GetEyeDataForShape(shape)) { o += " eye:"; for (auto& v : *p) f32(o, v); o += "\n"; }
		std::vector<Vector2> uv2;
		nif.GetUvsForShape(shape, uv2);
		std::vector<Color4> c2;
		nif.GetColorsForShape(shape, c2);
		std::vector<Vector3> t2, b2;
		nif.GetTangentsForShape(shape, t2);
		nif.GetBitangentsForShape(shape, b2);
		std::vector<float> e2;
		NifFile::GetEyeDataForShape(shape, e2);
		o += " copies="; u(o, uv2.size()); u(o, c2.size()); u(o, t2.size()); u(o, b2.size()); u(o, e2.size()); o += "\n";
		std::vector<Triangle> tris;
		if (shape->GetTriangles(tris)) { o += " tris:"; for (auto& t : tris) { u(o, t.p1); u(o, t.p2); u(o, t.p3); } o += "\n"; }
	}
	step("GetBounds/GetParentNode");
	if (opt.bounds) { auto b = shape->GetBounds(); o += " bounds:"; v3(o, b.center); f32(o, b.radius); o += "\n"; }
	o += " xform:"; xf(o, shape->GetTransformToParent()); o += "\n";
	if (auto parent = nif.GetParentNode(shape)) o += " parent='" + parent->name.get() + "'\n";
	// shader
	step("GetShader");
	if (auto sh = nif.GetShader(shape)) {
		o += std::string(" shader ") + sh->GetBlockName() + " '" + sh->name.get() + "' type="; u(o, sh->GetShaderType());
		u(o, (sh->IsSkinTinted() ? 1 : 0) | (sh->IsFaceTinted() ? 2 : 0) | (sh->IsSkinned() ? 4 : 0) | (sh->IsDoubleSided() ? 8 : 0) | (sh->IsModelSpace() ? 16 : 0)
				  | (sh->IsEmissive() ? 32 : 0) | (sh->HasSpecular() ? 64 : 0) | (sh->HasVertexColors() ? 128 : 0) | (sh->HasVertexAlpha() ? 256 : 0)
				  | (sh->HasBacklight() ? 512 : 0) | (sh->HasRimlight() ? 1024 : 0) | (sh->HasSoftlight() ? 2048 : 0) | (sh->HasGlowmap() ? 4096 : 0)
				  | (sh->HasGreyscaleColor() ? 8192 : 0) | (sh->HasEnvironmentMapping() ? 16384 : 0) | (sh->HasTextureSet() ? 32768 : 0));
		f32(o, sh->GetUVOffset().u); f32(o, sh->GetUVScale().u); v3(o, sh->GetSpecularColor()); f32(o, sh->GetSpecularStrength());
		f32(o, sh->GetGlossiness()); f32(o, sh->GetEnvironmentMapScale()); f32(o, sh->GetEmissiveColor().r); f32(o, sh->GetEmissiveMultiple());
		f32(o, sh->GetAlpha()); f32(o, sh->GetBacklightPower()); f32(o, sh->GetRimlightPower()); f32(o, sh->GetSoftlight());
		f32(o, sh->GetSubsurfaceRolloff()); f32(o, sh->GetGrayscaleToPaletteScale()); f32(o, sh->GetFresnelPower());
		o += "wet='" + sh->GetWetMaterialName() + "'\n";
		if (auto bssp = dynamic_cast<BSShaderProperty*>(sh)) { o += "  sf="; u(o, bssp->shaderFlags1); u(o, bssp->shaderFlags2); o += "\n"; }
	}
	if (auto m = nif.GetMaterialProperty(shape)) o += std::string(" material '") + m->name.get() + "'\n";
	if (auto m = nif.GetStencilProperty(shape)) o += std::string(" stencil '") + m->name.get() + "'\n";
	if (auto m = nif.GetTexturingProperty(shape)) { o += std::string(" texprop '") + m->name.get() + "' n="; u(o, m->textureCount); o += "\n"; }
	step("texture getters");
	for (uint32_t slot = 0; slot < 10; slot++) {
		std::string tex;
		uint32_t k = nif.GetTextureSlot(shape, tex, slot);
		if (k || !tex.empty()) { o += " tex"; u(o, slot); u(o, k); o += "'" + tex + "'\n"; }
	}
	{ auto refs = nif.GetTexturePathRefs(shape); o += " texrefs="; u(o, refs.size()); for (auto& r : refs) o += "'" + r.get() + "' "; o += "\n"; }
	{ auto refs = nif.GetExternalGeometryPathRefs(shape); o += " extgeo="; u(o, refs.size()); o += "\n"; }
	if (auto a = nif.GetAlphaProperty(shape)) { o += " alpha="; u(o, a->flags); u(o, a->threshold); o += "\n"; }
	if (nif.GetGeometryData(shape)) o += " geomdata\n";
	o += " ssecompat="; u(o, nif.IsSSECompatible(shape)); o += "\n";
	{
		std::vector<Vector3> tg, bt;
		auto bin = nif.GetBinaryTangentData(shape, &tg, &bt);
		if (bin && opt.derived_blocks) { o += " bintangents="; u(o, tg.size()); u(o, bt.size()); o += "\n"; }
	}
	// skin
	step("GetShapeBoneList");
	std::vector<std::string> bones;
	nif.GetShapeBoneList(shape, bones);
	std::vector<int> boneIds;
	nif.GetShapeBoneIDList(shape, boneIds);
	o += " bones="; u(o, bones.size()); u(o, boneIds.size());
	for (auto& b : bones) o += "'" + b + "' ";
	if (!opt.index_free) for (auto i : boneIds) u(o, (unsigned) i);
	o += "\n";
	MatTransform t;
	step("GetShapeTransformGlobalToSkin");
	if (nif.GetShapeTransformGlobalToSkin(shape, t)) { o += " g2s:"; xf(o, t); o += "\n"; }
	step("CalcShapeTransformGlobalToSkin");
	if (nif.CalcShapeTransformGlobalToSkin(shape, t)) { o += " calc-g2s\n"; }
	step("per-bone getters");
	for (uint32_t bi = 0; bi < bones.size() && bi < opt.max_items; bi++) {
		if (nif.GetShapeTransformSkinToBone(shape, bi, t)) { o += " s2b"; u(o, bi); xf(o, t); o += "\n"; }
		MatTransform t2;
		if (nif.GetShapeTransformSkinToBone(shape, bones[bi], t2)) o += " s2bn\n";
		BoundingSphere bs;
		if (nif.GetShapeBoneBounds(shape, bi, bs)) { o += " bb:"; v3(o, bs.center); f32(o, bs.radius); o += "\n"; }
		if (opt.heavy) {
			std::unordered_map<uint16_t, float> w;
			uint32_t n = nif.GetShapeBoneWeights(shape, bi, w);
			std::vector<std::pair<uint16_t, float>> ws(w.begin(), w.end());
			std::sort(ws.begin(), ws.end());
			o += " w"; u(o, bi); u(o, n);
			for (auto& kv : ws) { u(o, kv.first); f32(o, kv.second); }
			o += "\n";
		}
		shape->GetBoneID(hdr, bones[bi]);
	}
	step("GetShapePartitions");
	{
		NiVector<BSDismemberSkinInstance::PartitionInfo> pinfo;
		std::vector<int> triParts;
		if (opt.lazy_getters && nif.GetShapePartitions(shape, pinfo, triParts)) {
			o += " partitions="; u(o, pinfo.size());
			for (uint32_t i = 0; i < pinfo.size(); i++) { u(o, pinfo[i].flags); u(o, pinfo[i].partID); }
			o += "triParts:"; for (auto p : triParts) u(o, (unsigned) (p + 1));
			o += "\n";
		}
	}
	step("GetShapeSegments");
	{
		NifSegmentationInfo inf;
		std::vector<int> triParts;
		if (NifFile::GetShapeSegments(shape, inf, triParts)) {
			o += " segments="; u(o, inf.segs.size()); o += "ssf='" + inf.ssfFile + "' ";
			for (auto& s : inf.segs) { u(o, (unsigned) s.partID); u(o, s.subs.size()); for (auto& ss : s.subs) { u(o, (unsigned) ss.partID); u(o, ss.userSlotID); u(o, ss.material); u(o, ss.extraData.size()); } }
			o += "triParts:"; for (auto p : triParts) u(o, (unsigned) (p + 1));
			o += "\n";
		}
	}
	return o;
}
inline std::string shape_text(NifFile& nif, NiShape* shape, const Opt& opt) {
	Out o = shape_out(nif, shape, opt);
	return o.text ? o.s : vf_hex(o.h);
}

inline std::string model_text(NifFile& nif, const Opt& opt = Opt()) {
	Out o;
	o.text = !opt.hash_only;
	auto& hdr = nif.GetHeader();
	step("header getters");
	o += "valid="; u(o, nif.IsValid()); o += "unknown="; u(o, nif.HasUnknown()); o += "terrain="; u(o, nif.IsTerrain());
	o += "ver='" + hdr.GetVersion().GetVersionInfo() + "'\n";
	o += "creator='" + hdr.GetCreatorInfo() + "' export='" + hdr.GetExportInfo() + "'\n";
	if (!opt.index_free) {
		o += "blocks="; u(o, hdr.GetNumBlocks()); o += "\n";
		for (uint32_t i = 0; i < hdr.GetNumBlocks(); i++) { o += hdr.GetBlockTypeStringById(i) + ":"; u(o, hdr.GetBlockTypeIndex(i)); }
		o += "\n";
		for (uint32_t i = 0; i < hdr.GetStringCount(); i++) hdr.GetStringById(i); // table numbering is not logical content
	}
	hdr.GetBlockTypeStringById(hdr.GetNumBlocks());
	hdr.GetBlockSize(hdr.GetNumBlocks());
	hdr.GetStringById(hdr.GetStringCount());
	hdr.FindStringId("Scene Root");
	o += "ssecompat="; u(o, nif.IsSSECompatible()); o += "trilimit="; u(o, nif.GetTriangleLimit() > 70000 ? 1 : 0); o += "\n";
	auto root = nif.GetRootNode();
	if (root) {
		o += "root='" + root->name.get() + "'";
		if (!opt.index_free) { o += " id="; u(o, nif.GetBlockID(root)); }
		o += "\n";
	}
	Vector3 rt;
	nif.GetRootTranslation(rt);
	o += "roottrans:"; v3(o, rt); o += "\n";
	std::set<NiObject*> reach;
	step("GetTree");
	if (opt.reachable_only) {
		std::vector<NiObject*> tree;
		nif.GetTree(tree);
		reach.insert(tree.begin(), tree.end());
	}
	// nodes
	auto nodes = nif.GetNodes();
	if (!opt.reachable_only) { o += "nodes="; u(o, nodes.size()); o += "\n"; }
	size_t k = 0;
	std::vector<std::string> parts; // in index-free mode per-node / per-shape texts are sorted: block order is not content
	for (auto n : nodes) {
		if (k++ >= opt.max_items) break;
		if (opt.reachable_only && !reach.count(n)) continue;
		Out o;
		o.text = !opt.hash_only;
		o += "node '" + n->name.get() + "' " + n->GetBlockName() + " ";
		xf(o, n->GetTransformToParent());
		if (auto p = nif.GetParentNode(n)) o += "parent='" + p->name.get() + "' ";
		MatTransform t;
		step("GetNodeTransformToParent");
		if (nif.GetNodeTransformToParent(n->name.get(), t)) o += "tp ";
		step("GetNodeTransformToGlobal");
		if (nif.GetNodeTransformToGlobal(n->name.get(), t)) { o += "tg:"; xf(o, t); }
		step("node getters");
		o += "candel="; u(o, NifFile::CanDeleteNode(n));
		o += "children="; u(o, nif.GetChildren<NiObject>(n, true).size()); u(o, nif.GetChildren<NiNode>(n).size()); u(o, nif.GetChildren<NiShape>(n).size());
		if (!opt.index_free) { o += "id="; u(o, nif.GetBlockID(n)); o += nif.GetNodeName(nif.GetBlockID(n)); }
		o += "\n";
		parts.push_back(o.text ? o.s : vf_hex(o.h));
	}
	if (opt.index_free) std::sort(parts.begin(), parts.end());
	for (auto& p : parts) o += p;
	parts.clear();
	// tree
	step("GetTree");
	{
		std::vector<NiObject*> tree;
		nif.GetTree(tree);
		if (opt.derived_blocks) { o += "tree="; u(o, tree.size()); }
		if (!opt.derived_blocks) {}
		else if (opt.index_free) {
			// order-free: multiset of type names
			std::vector<std::string> names;
			for (auto t : tree) names.push_back(t->GetBlockName());
			std::sort(names.begin(), names.end());
			for (auto& nme : names) o += nme + " ";
		}
		else for (auto t : tree) { o += t->GetBlockName(); o += ":"; u(o, nif.GetBlockID(t)); }
		o += "\n";
	}
	// shapes
	step("GetShapes");
	auto shapes = nif.GetShapes();
	auto names = nif.GetShapeNames();
	if (!opt.reachable_only) { o += "shapes="; u(o, shapes.size()); u(o, names.size()); o += "\n"; }
	for (auto s : shapes) {
		if (opt.reachable_only && !reach.count(s)) continue;
		parts.push_back(shape_text(nif, s, opt));
	}
	if (opt.index_free) std::sort(parts.begin(), parts.end());
	for (auto& p : parts) o += p;
	step("named lookups / enumerators");
	// named lookups
	if (auto b = nif.FindBlockByName<NiNode>("Scene Root")) o += "found scene root\n";
	if (auto b = nif.FindBlockByName<BSXFlags>("BSX")) { o += "bsx="; u(o, b->integerData); o += "\n"; }
	// per-block enumerations (every block answers its reference / string enumerations)
	size_t nrefs = 0, nptrs = 0, nstr = 0, nidx = 0;
	for (uint32_t i = 0; i < hdr.GetNumBlocks(); i++) {
		auto b = hdr.GetBlock<NiObject>(i);
		if (!b) continue;
		std::set<NiRef*> refs, ptrs;
		b->GetChildRefs(refs);
		b->GetPtrs(ptrs);
		std::vector<NiStringRef*> sr;
		b->GetStringRefs(sr);
		std::vector<uint32_t> idx;
		b->GetChildIndices(idx);
		nrefs += refs.size(); nptrs += ptrs.size(); nstr += sr.size(); nidx += idx.size();
		if (!opt.index_free) { hdr.IsBlockReferenced(i); hdr.GetBlockRefCount(i); }
	}
	(void) nrefs; (void) nptrs; (void) nstr; (void) nidx; // exercised, not part of the logical content
	return o.text ? o.s : vf_hex(o.h);
}

} // namespace bat
