// C09: deleting vertices keeps a shape and its skin data consistent.
// E2 search: state = (shape construction, deletion history); every history is replayed on a
// fresh model, the last DeleteVertsForShape is compared with a reference model (parallel
// arrays + triangle list filtered by the composed keep-list), index/counter validity is
// checked and the result is saved raw, reloaded and compared.  See DESIGN.md "C09".
#include "meshkit.hpp"

using namespace nifly;
using namespace mk;
using vf::J;
using vf::Stats;

static vf::Args A;
static bool g_check_all_steps = false;

struct Case {
	bool file = false;
	Spec spec;
	bool reloaded = false;
	int V = 0;
	uint32_t mask = 0; // subset of tri_pool(V) / strip_pool(V)
	std::string fname;
	int shapeIdx = 0;
	std::vector<std::vector<uint16_t>> dels;
};

static J case_json(const Case& c) {
	J j = J::obj();
	if (c.file) j.set("src", "file").set("file", c.fname).set("shape", c.shapeIdx);
	else
		j.set("src", "built").set("kind", kind_id(c.spec.kind)).set("game", game_name(c.spec.game)).set("skinned", c.spec.skinned)
			.set("locked", c.spec.locked).set("eye", c.spec.eye).set("partflags", c.spec.partflags).set("uvsets", c.spec.uvsets).set("origin", c.reloaded ? "reloaded" : "api").set("V", c.V).set("mask", (int) c.mask);
	J d = J::arr();
	for (auto& s : c.dels) d.push(ints_json(s));
	j.set("dels", d);
	return j;
}
static bool case_from_json(const J& j, Case& c) {
	c.file = j["src"].str() == "file";
	if (c.file) { c.fname = j["file"].str(); c.shapeIdx = (int) j["shape"].i64(); }
	else {
		if (!kind_from(j["kind"].str(), c.spec.kind) || !game_from(j["game"].str(), c.spec.game)) return false;
		c.spec.skinned = j["skinned"].b;
		c.spec.locked = j["locked"].b;
		c.spec.eye = j["eye"].b;
		if (j.has("partflags")) c.spec.partflags = (int) j["partflags"].i64();
		if (j.has("uvsets")) c.spec.uvsets = (int) j["uvsets"].i64();
		c.reloaded = j["origin"].str() == "reloaded";
		c.V = (int) j["V"].i64();
		c.mask = (uint32_t) j["mask"].i64();
	}
	for (auto& s : j["dels"].a) {
		std::vector<uint16_t> v;
		for (auto& x : s.a) v.push_back((uint16_t) x.i64());
		c.dels.push_back(v);
	}
	return true;
}

static int g_eye_mode = 2; // 0: no eye-data configuration, 1: eye data checked in memory only, 2: also saved
static void finish_spec(Spec& sp) {
	sp.nbones = sp.skinned ? 3 : 0;
}
static Mesh mesh_for(const Spec& sp, int V, uint32_t mask) {
	Mesh m = make_mesh(V);
	if (sp.kind == K_TRISTRIPS) {
		auto pool = strip_pool(V);
		for (size_t i = 0; i < pool.size(); i++) if (mask >> i & 1) m.strips.push_back(pool[i]);
	}
	else {
		auto pool = tri_pool(V);
		for (size_t i = 0; i < pool.size(); i++) if (mask >> i & 1) m.tris.push_back(pool[i]);
	}
	return m;
}
static size_t pool_size(const Spec& sp, int V) { return sp.kind == K_TRISTRIPS ? strip_pool(V).size() : tri_pool(V).size(); }
static Weights weights_for(int V) {
	Weights w(V);
	for (int v = 0; v < V; v++) {
		float a = (float) (v + 1) / 8.0f;
		w[v] = {{v % 3, a}, {(v + 1) % 3, 1.0f - a}};
	}
	return w;
}

static NiShape* nth_shape(NifFile& nif, int idx) {
	auto shapes = nif.GetShapes();
	return idx >= 0 && (size_t) idx < shapes.size() ? shapes[idx] : nullptr;
}

struct Base {
	std::string bytes;			   // file bytes (file cases, reloaded built cases)
	std::set<std::string> rt_diff; // attributes that do not survive an undeleted raw round trip (pre-existing)
	bool rt_tris_diff = false;
	bool ready = false;
};

static std::vector<uint64_t> tri_keys(const Snap& s, bool sorted) {
	std::vector<uint64_t> k;
	for (auto& t : s.tris) k.push_back(tri_key(t));
	if (sorted) std::sort(k.begin(), k.end());
	return k;
}

// obtain a fresh model for the case
static NiShape* fresh(const Case& c, const Base& base, NifFile& nif, std::string& err) {
	if (c.file || c.reloaded) {
		if (load(nif, base.bytes) != 0) { err = "load failed"; return nullptr; }
		return nth_shape(nif, c.file ? c.shapeIdx : 0);
	}
	Mesh m = mesh_for(c.spec, c.V, c.mask);
	Weights w = weights_for(c.V);
	return build_shape(nif, c.spec, m, c.spec.skinned ? &w : nullptr, &err);
}

static bool prepare_base(const Case& c, Base& base, std::string& err) {
	if (base.ready) return true;
	if (!c.file && c.spec.eye && g_eye_mode < 2 && !c.reloaded) { base.ready = true; return true; } // never saved, see run_case
	if (c.file) base.bytes = vf::read_file(A.repo + "/tests/input/" + c.fname);
	else if (c.reloaded) {
		NifFile nif;
		Mesh m = mesh_for(c.spec, c.V, c.mask);
		Weights w = weights_for(c.V);
		if (!build_shape(nif, c.spec, m, c.spec.skinned ? &w : nullptr, &err)) return false;
		base.bytes = save_raw(nif);
		if (base.bytes.empty()) { err = "save of constructed shape failed"; return false; }
	}
	// baseline: which attributes survive a raw round trip without any deletion
	{
		Case c0 = c;
		c0.dels.clear();
		NifFile nif;
		NiShape* sh = fresh(c0, base, nif, err);
		if (!sh) return false;
		Snap a = snapshot(nif, sh);
		std::string b = save_raw(nif);
		NifFile r;
		if (b.empty() || load(r, b) != 0) { err = "baseline round trip failed"; return false; }
		NiShape* rs = nth_shape(r, c.file ? c.shapeIdx : 0);
		if (!rs) { err = "baseline: shape missing after reload"; return false; }
		Snap z = snapshot(r, rs);
		for (auto& kv : a.attr) {
			auto it = z.attr.find(kv.first);
			if (it == z.attr.end() || it->second != kv.second) base.rt_diff.insert(kv.first);
		}
		base.rt_tris_diff = tri_keys(a, a.partition_order) != tri_keys(z, a.partition_order);
	}
	base.ready = true;
	return true;
}

static std::string label_of(const Case& c, NifFile& nif, NiShape* sh) {
	if (!c.file) return c.spec.label();
	return std::string(sh->GetBlockName()) + "/" + version_label(nif.GetHeader().GetVersion()) + "/" + (sh->IsSkinned() ? "skinned" : "static");
}

static std::unordered_set<uint64_t> g_unit_states;

// returns canonical hash of the final state (0 when the case could not be run)
static uint64_t run_case(const Case& c, Base& base, Stats& st) {
	J cj = case_json(c);
	vf::set_inflight(cj.dump());
	std::string err;
	if (!prepare_base(c, base, err)) { st.violation("harness:base:" + (c.file ? c.fname : c.spec.label()), "cannot prepare base model: " + err, cj); return 0; }
	NifFile nif;
	NiShape* sh = fresh(c, base, nif, err);
	if (!sh) { st.violation("harness:fresh:" + (c.file ? c.fname : c.spec.label()), "cannot obtain model: " + err, cj); return 0; }
	std::string L = label_of(c, nif, sh);
	std::set<std::string> said; // one report per key and case
	auto V = [&](const std::string& what, const std::string& msg) { if (said.insert(what).second) st.violation(L + ":" + what, L + ": " + msg, cj); };

	Snap s0 = snapshot(nif, sh);
	std::vector<Problem> pre;
	validity(nif, sh, pre);
	std::set<std::string> prekeys;
	for (auto& p : pre) prekeys.insert(p.key);
	if (!pre.empty()) {
		if (c.file) st.add("preexisting_invalid_in_sample");
		else V("precondition:" + pre[0].key, "constructed shape is invalid before any deletion: " + pre[0].msg);
	}
	std::vector<uint32_t> keep(s0.nv);
	for (uint32_t i = 0; i < s0.nv; i++) keep[i] = i;
	std::vector<Triangle> mtris = s0.tris; // reference triangle list (list shapes)

	for (size_t step = 0; step < c.dels.size(); step++) {
		const auto& S = c.dels[step];
		// reference model
		std::vector<int> remap(keep.size(), -1);
		std::vector<uint32_t> nkeep;
		{
			size_t di = 0;
			for (size_t i = 0; i < keep.size(); i++) {
				if (di < S.size() && S[di] == i) { di++; continue; }
				remap[i] = (int) nkeep.size();
				nkeep.push_back(keep[i]);
			}
		}
		std::vector<Triangle> ntris;
		for (auto& t : mtris)
			if (t.p1 < remap.size() && t.p2 < remap.size() && t.p3 < remap.size() && remap[t.p1] >= 0 && remap[t.p2] >= 0 && remap[t.p3] >= 0)
				ntris.push_back(Triangle((uint16_t) remap[t.p1], (uint16_t) remap[t.p2], (uint16_t) remap[t.p3]));
		keep = nkeep;
		mtris = ntris;

		bool ret = nif.DeleteVertsForShape(sh, S);
		bool last = step + 1 == c.dels.size();
		if (!last && !g_check_all_steps) continue;
		st.add("transitions");
		st.max("max_depth", (long long) step + 1);

		Snap s1 = snapshot(nif, sh);
		if (s1.nv != keep.size()) V("vertex-count", vf::strf("%zu vertices expected after deleting, shape reports %u", keep.size(), s1.nv));
		for (auto& kv : s0.attr) {
			if (kv.second.size() != s0.nv) continue; // array did not agree with the counter before
			st.add("attr_arrays_compared");
			bool isw = kv.first == "weights" || kv.first == "skinweights";
			std::string key = isw ? "weights-after-delete" : "attr-" + kv.first + "-after-delete";
			static const std::vector<std::string> none;
			auto it = s1.attr.find(kv.first);
			const auto& got = it == s1.attr.end() ? none : it->second;
			if (kv.first == "partrows") {
				// a partition left without triangles may go, and with it the rows of its vertices; every row that is still
				// there must be the vertex's own old row (same weights, same bone slots), in the old partition order
				const size_t RW = 1 + sizeof(VertexWeight) + sizeof(BoneIndices);
				bool same_parts = s1.nparts == s0.nparts;
				for (size_t j = 0; j < keep.size(); j++) {
					const std::string& was = kv.second[keep[j]];
					std::string now = j < got.size() ? got[j] : std::string();
					bool ok = same_parts ? now == was : true;
					size_t pos = 0;
					for (size_t r = 0; ok && r + RW <= now.size(); r += RW) {
						size_t f = std::string::npos;
						for (size_t q = pos; q + RW <= was.size(); q += RW) if (was.compare(q, RW, now, r, RW) == 0) { f = q; break; }
						if (f == std::string::npos) ok = false; else pos = f + RW;
					}
					if (!ok) { V(key, vf::strf("partition rows of remaining vertex %zu (originally %u) changed: %s -> %s", j, keep[j], vf::hexbytes(was, 48).c_str(), vf::hexbytes(now, 48).c_str())); break; }
				}
				continue;
			}
			if (got.size() != keep.size()) { V(key, vf::strf("%s: %zu entries for %zu remaining vertices", kv.first.c_str(), got.size(), keep.size())); continue; }
			for (size_t j = 0; j < keep.size(); j++)
				if (got[j] != kv.second[keep[j]]) {
					V(key, vf::strf("%s of remaining vertex %zu (originally %u) changed: %s -> %s", kv.first.c_str(), j, keep[j], vf::hexbytes(kv.second[keep[j]], 24).c_str(), vf::hexbytes(got[j], 24).c_str()));
					break;
				}
		}
		if (s0.is_list) {
			bool same = s1.tris.size() == mtris.size();
			for (size_t i = 0; same && i < mtris.size(); i++) same = s1.tris[i].p1 == mtris[i].p1 && s1.tris[i].p2 == mtris[i].p2 && s1.tris[i].p3 == mtris[i].p3;
			if (!same) V("triangles-after-delete", "expected " + tris_str(mtris) + " got " + tris_str(s1.tris));
		}
		uint32_t ntri_now = sh->GetNumTriangles();
		bool known_kind = dynamic_cast<BSTriShape*>(sh) || nif.GetHeader().GetBlock<NiTriBasedGeomData>(sh->DataRef());
		if (known_kind && ret != (s1.nv == 0 || ntri_now == 0))
			V("return-value", vf::strf("returned %d with %u vertices and %u triangles left", (int) ret, s1.nv, ntri_now));
		std::vector<Problem> post;
		validity(nif, sh, post);
		for (auto& p : post)
			if (!prekeys.count(p.key)) V("invalid:" + p.key, "after deleting: " + p.msg);
		if (auto lod = dynamic_cast<BSLODTriShape*>(sh))
			if ((uint64_t) lod->level0 + lod->level1 + lod->level2 > ntri_now) st.add("obs_bslod_levels_exceed_triangles");
		if (!last) continue;

		uint64_t h = canon_hash(nif, sh, &s1);
		uint64_t hk = vf::fnv(vf::strf("%d/%u/%d", c.V, c.mask, (int) c.reloaded), h);
		bool fresh_state = g_unit_states.insert(hk).second;
		SkinBlocks sk = skin_blocks(nif, sh);
		st.distinct("outcomes", vf::strf("nv%u nt%u parts%d ret%d", s1.nv, ntri_now, sk.part ? (int) sk.part->partitions.size() : -1, (int) ret));

		// save raw, reload, same geometry: a function of the state, evaluated once per distinct state of a construction
		if (!fresh_state && !c.file && !g_check_all_steps) return h;
		// (--eye 1) Before its repair, saving any BSTriShape that carries eye data ran into an int shift by 36 in VertexDesc::SetAttributeOffset
		// (VertexData.hpp) whether or not vertices were deleted; the eye-data configuration is checked in memory.
		if (!c.file && c.spec.eye && g_eye_mode < 2) { st.add("reload_skipped_eye_data"); return h; }
		std::string bytes = save_raw(nif);
		if (bytes.empty()) { V("save-fails", "Save returns an error after the deletion"); return h; }
		NifFile r;
		int rc = load(r, bytes);
		if (rc != 0) { V("reload-fails", vf::strf("Load of the saved result returns %d", rc)); return h; }
		NiShape* rs = nth_shape(r, c.file ? c.shapeIdx : 0);
		if (!rs) { V("reload:shape-missing", "shape not found after reload"); return h; }
		st.add("reloads_compared");
		Snap z = snapshot(r, rs);
		if (z.nv != s1.nv) V("reload:vertex-count", vf::strf("%u vertices saved, %u after reload", s1.nv, z.nv));
		for (auto& kv : s1.attr) {
			if (kv.second.size() != s1.nv) continue;
			if (base.rt_diff.count(kv.first)) { st.add("reload_attr_skipped_not_roundtrip_stable"); st.distinct("not_roundtrip_stable", L + ":" + kv.first); continue; }
			st.add("reload_attr_arrays_compared");
			auto it = z.attr.find(kv.first);
			if (it == z.attr.end() || it->second != kv.second) {
				size_t j = 0;
				if (it != z.attr.end()) while (j < kv.second.size() && j < it->second.size() && kv.second[j] == it->second[j]) j++;
				V("reload:attr-" + kv.first, vf::strf("%s differs after save+reload (%zu entries before, %zu after, first difference at vertex %zu)", kv.first.c_str(), kv.second.size(), it == z.attr.end() ? (size_t) 0 : it->second.size(), j));
			}
		}
		if (!base.rt_tris_diff && tri_keys(s1, s1.partition_order) != tri_keys(z, s1.partition_order))
			V("reload:triangles", "triangles differ after save+reload: " + tris_str(s1.tris) + " -> " + tris_str(z.tris));
		std::vector<Problem> rp;
		validity(r, rs, rp);
		for (auto& p : rp)
			if (!prekeys.count(p.key) && !said.count("invalid:" + p.key)) V("reload:invalid:" + p.key, "after save+reload: " + p.msg);
		return h;
	}
	return 0;
}

// ---------- enumeration ----------
static std::vector<uint16_t> subset_of(uint32_t mask, int n) {
	std::vector<uint16_t> v;
	for (int i = 0; i < n; i++) if (mask >> i & 1) v.push_back((uint16_t) i);
	return v;
}

struct Unit {
	bool file = false;
	Spec spec;
	bool reloaded = false;
	int V = 0;
	uint32_t mask_lo = 0, mask_hi = 0; // [lo, hi)
	std::string fname;
	int shapeIdx = 0;
	std::vector<std::vector<uint16_t>> sets; // file units: the deletion sets of this chunk
	bool singles2 = false;					 // second deletion restricted to singletons
};

static std::vector<Spec> all_specs() {
	std::vector<Spec> v;
	auto add = [&](Kind k, Game g) {
		for (int sk = 0; sk < 2; sk++)
			for (int lk = 0; lk < 2; lk++) {
				Spec s;
				s.kind = k; s.game = g; s.skinned = sk; s.locked = lk;
				finish_spec(s);
				v.push_back(s);
				// partitions that keep only one of the two per-vertex tables (unlocked variants only)
				if (sk && !lk && (k == K_TRISHAPE || k == K_BSTRI) && g != G_FO4)
					for (int pf = 1; pf <= 2; pf++) { Spec s2 = s; s2.partflags = pf; v.push_back(s2); }
				// Oblivion geometry data with three UV sets (the count lives in the data flags of files before stream 34)
				if (!sk && !lk && g == G_OB && (k == K_TRISHAPE || k == K_TRISTRIPS)) { Spec s3 = s; s3.uvsets = 3; v.push_back(s3); }
			}
	};
	for (Game g : {G_OB, G_FO3, G_SK}) { add(K_TRISHAPE, g); add(K_TRISTRIPS, g); }
	add(K_SEGMENTED, G_FO3);
	add(K_SEGMENTED, G_SK);
	add(K_LOD, G_SK);
	add(K_BSTRI, G_SSE);
	if (g_eye_mode > 0) {
		Spec s;
		s.kind = K_BSTRI; s.game = G_SSE; s.eye = true;
		finish_spec(s);
		v.push_back(s);
	}
	add(K_BSTRI, G_FO4);
	add(K_BSDYN, G_SSE);
	add(K_BSSUB, G_FO4);
	add(K_BSSUB_SEG, G_FO4);
	add(K_BSSUB, G_SSE);
	add(K_BSMESHLOD, G_SSE);
	add(K_BSMESHLOD, G_FO4);
	return v;
}

static void run_unit(const Unit& u, const std::vector<std::string>& skips, Stats& st) {
	g_unit_states.clear();
	std::set<std::string> skip(skips.begin(), skips.end());
	bool first = true;
	long ncase = 0;
	auto one = [&](const Case& c, Base& base) -> bool {
		if ((++ncase & 63) == 0 && vf::deadline_passed()) return false;
		if (!skip.empty() && skip.count(case_json(c).dump())) { st.add("cases_skipped_after_crash"); return true; }
		uint64_t h = run_case(c, base, st);
		st.add("histories");
		if (first) {
			// the same history replayed on a second fresh model must reach the same canonical state
			first = false;
			Stats scratch;
			uint64_t h2 = run_case(c, base, scratch);
			if (h != h2) st.violation((c.file ? c.fname : c.spec.label()) + ":nondeterministic-replay", "replaying one history twice gives different canonical states", case_json(c));
			if (st.samples.empty()) st.sample(case_json(c));
		}
		return true;
	};
	bool complete = true;
	if (u.file) {
		Base base;
		Case c;
		c.file = true; c.fname = u.fname; c.shapeIdx = u.shapeIdx;
		for (auto& s : u.sets) {
			c.dels = {s};
			if (!one(c, base)) { complete = false; break; }
		}
	}
	else {
		for (uint32_t mask = u.mask_lo; mask < u.mask_hi && complete; mask++) {
			Base base;
			Case c;
			c.spec = u.spec; c.reloaded = u.reloaded; c.V = u.V; c.mask = mask;
			for (uint32_t s1 = 1; s1 < (1u << u.V) && complete; s1++) {
				auto S1 = subset_of(s1, u.V);
				c.dels = {S1};
				if (!one(c, base)) { complete = false; break; }
				int rest = u.V - (int) S1.size();
				for (uint32_t s2 = 1; s2 < (1u << rest); s2++) {
					if (u.singles2 && (s2 & (s2 - 1))) continue;
					c.dels = {S1, subset_of(s2, rest)};
					if (!one(c, base)) { complete = false; break; }
				}
			}
		}
	}
	if (!complete) st.capped("deadline reached inside a unit");
	st.add("states", (long long) g_unit_states.size());
	st.add("units");
}

int main(int argc, char** argv) {
	A = vf::parse_args(argc, argv);
	Stats top;
	if (!A.replay.empty()) {
		J c = J::parse(vf::read_file(A.replay))["case"];
		Case cs;
		if (!case_from_json(c, cs)) vf::fatal("replay: cannot parse case");
		if (!cs.file) finish_spec(cs.spec);
		g_check_all_steps = true;
		Base base;
		run_case(cs, base, top);
		vf::finish(top);
		return 0;
	}
	const bool thorough = A.thorough();
	g_eye_mode = (int) A.geti("eye", 2); // 2 since the shift in VertexDesc::SetAttributeOffset was repaired (eye data can be saved)
	const int vmax = (int) A.geti("vmax", thorough ? 6 : 5);
	const int vmax_reloaded = (int) A.geti("vmaxreloaded", 5);
	const bool with_files = A.geti("files", 1) != 0, with_built = A.geti("built", 1) != 0;

	std::vector<Unit> units;
	std::vector<Spec> specs = all_specs();
	if (A.has("kind")) {
		std::vector<Spec> f;
		for (auto& s : specs) if (A.get("kind") == kind_id(s.kind)) f.push_back(s);
		specs = f;
	}
	// large units first so that the tail of the run is short
	if (with_built)
		for (int V = vmax; V >= 3; V--)
			for (auto& sp : specs)
				for (int origin = 0; origin < 2; origin++) {
					if (origin == 1 && (V > vmax_reloaded || (sp.eye && g_eye_mode < 2))) continue;
					uint32_t nm = 1u << pool_size(sp, V);
					for (uint32_t lo = 0; lo < nm; lo += 8) {
						Unit u;
						u.spec = sp; u.reloaded = origin; u.V = V; u.mask_lo = lo; u.mask_hi = std::min(nm, lo + 8);
						u.singles2 = origin == 1 && !thorough;
						units.push_back(u);
					}
				}
	long file_shapes = 0;
	if (with_files)
		for (auto& f : list_sample_files(A.repo)) {
			NifFile nif;
			if (nif.Load(A.repo + "/tests/input/" + f) != 0) { top.note("sample file does not load: " + f); continue; }
			auto shapes = nif.GetShapes();
			for (size_t si = 0; si < shapes.size(); si++) {
				uint32_t nv = shapes[si]->GetNumVertices();
				if (nv == 0) { top.add("sample_shapes_without_vertices"); continue; }
				file_shapes++;
				std::set<std::vector<uint16_t>> sets;
				uint32_t step = (nv + 23) / 24;
				for (uint32_t i = 0; i < nv; i++)
					if (thorough || nv <= 40 || i < 3 || i + 3 >= nv || i % step == 0) sets.insert({(uint16_t) i});
				for (uint32_t len = 1; len <= 3 && len <= nv; len++) {
					std::vector<uint16_t> p, s;
					for (uint32_t i = 0; i < len; i++) { p.push_back((uint16_t) i); s.push_back((uint16_t) (nv - len + i)); }
					sets.insert(p);
					sets.insert(s);
				}
				std::vector<uint16_t> all;
				for (uint32_t i = 0; i < nv; i++) all.push_back((uint16_t) i);
				sets.insert(all);
				std::vector<std::vector<uint16_t>> list(sets.begin(), sets.end());
				size_t chunk = nv > 1000 ? 24 : 64;
				for (size_t lo = 0; lo < list.size(); lo += chunk) {
					Unit u;
					u.file = true; u.fname = f; u.shapeIdx = (int) si;
					u.sets.assign(list.begin() + lo, list.begin() + std::min(list.size(), lo + chunk));
					units.push_back(u);
				}
			}
		}

	vf::PoolCfg pc;
	pc.jobs = A.jobs;
	pc.rundir = A.rundir;
	pc.repo = A.repo;
	vf::run_pool(units.size(), pc,
		[&](size_t ui, const std::vector<std::string>& skips, long, Stats& st) { run_unit(units[ui], skips, st); },
		[&](size_t ui, const vf::CrashInfo& ci, const std::string& inflight, Stats& parent) -> std::string {
			const Unit& u = units[ui];
			std::string L = u.file ? "file:" + u.fname : u.spec.label();
			J cj;
			try { cj = J::parse(inflight); } catch (std::exception&) { cj = J::obj(); }
			parent.violation(L + ":crash:" + ci.key(), L + ": worker died (" + ci.cls + " in " + ci.frame + ") during DeleteVertsForShape / save / reload of a valid history", cj);
			parent.add("crashes");
			return inflight; // skip this history and redo the unit
		}, top);

	top.set_info("rule",
		vf::strf("constructed shapes: %zu configurations (geometry kind x game x skinned/static x LOCKEDNORM yes/no, plus one SSE BSTriShape with eye data, partitions with one per-vertex table, Oblivion shapes with three UV sets) "
				 "x origin {built through the API (V<=%d), built+saved+reloaded (V<=%d%s)} "
				 "x V in 3..%d vertices x every subset of the triangle pool below V (1/2/4/6 triangles; strip kinds: every subset of 3/4 strips) "
				 "x every non-empty sorted subset S1 of the vertices x (stop | every non-empty subset S2 of the remainder); "
				 "sample files: every shape of tests/input/*.nif (%ld shapes with vertices) x {%s singletons, prefixes and suffixes of length 1-3, all vertices}; "
				 "each history replayed on a fresh model, last deletion checked against the reference model; Save(raw)+Load compared once per distinct state of a construction (every case for sample files); "
				 "states = distinct canonical states (geometry, skin tables, segments, locked list) per construction",
				 specs.size(), vmax, std::min(vmax, vmax_reloaded), thorough ? "" : ", second deletion singletons only", vmax, file_shapes, thorough ? "all" : "first/last 3 and every ceil(V/24)-th of the"));
	top.set_info("vmax", vmax);
	top.set_info("configurations", (long long) specs.size());
	vf::finish(top);
	return 0;
}
