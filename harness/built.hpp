// API-built corpus models for relationships that neither the sample files nor the single-shape chains of sp.hpp
// contain.  Each model is built through the public NifFile API and saved raw; the bytes are the corpus entry.
//   two-skins: two skinned shapes with bone lists of different length (3 and 1) and their own skin data blocks, so that
//              a reference that lands on the sibling's block of the *right type* meets tables of another size
#pragma once
#include "s1.hpp"

namespace built {
using namespace nifly;

struct Model {
	const char* name;
	std::vector<const char*> versions;
};

inline const std::vector<Model>& models() {
	static const std::vector<Model> m = {
		{"two-skins", {"OB_20.0.0.5_u11_s11", "FO3_s34", "SK_s83", "SSE_s100", "FO4_s130", "FO76_s155"}},
	};
	return m;
}

inline std::string two_skins(const e1::VerCfg& vc) {
	NifFile nif;
	nif.Create(vc.ver());
	auto& hdr = nif.GetHeader();
	std::vector<Vector3> v = {Vector3(0, 0, 0), Vector3(1, 0, 0), Vector3(0, 1, 0), Vector3(1, 1, 0.5f)};
	std::vector<Triangle> t = {Triangle(0, 1, 2), Triangle(1, 3, 2)};
	std::vector<Vector2> uv = {Vector2(0, 0), Vector2(1, 0), Vector2(0, 1), Vector2(1, 1)};
	std::vector<Vector3> n(4, Vector3(0, 0, 1));
	std::vector<int> boneIds;
	for (int b = 0; b < 3; b++) boneIds.push_back((int) nif.GetBlockID(nif.AddNode("Bone" + std::to_string(b), MatTransform(), nif.GetRootNode())));
	const char* names[2] = {"Many", "Few"};
	for (int s = 0; s < 2; s++) {
		NiShape* shape = nif.CreateShapeFromData(names[s], &v, &t, &uv, &n);
		if (!shape) return "";
		nif.CreateSkinning(shape);
		if (shape->SkinInstanceRef()->IsEmpty()) return "";
		std::vector<int> ids(boneIds.begin(), boneIds.begin() + (s == 0 ? 3 : 1));
		nif.SetShapeBoneIDList(shape, ids);
		for (uint32_t b = 0; b < ids.size(); b++) {
			std::unordered_map<uint16_t, float> bw;
			for (uint16_t i = 0; i < 4; i++) if (s == 1 || i % 3 == b || (i + 1) % 3 == b) bw[i] = s == 1 ? 1.0f : 0.5f;
			nif.SetShapeBoneWeights(names[s], b, bw);
			MatTransform x;
			x.translation = Vector3((float) b + 1, (float) s, 0.25f);
			nif.SetShapeTransformSkinToBone(shape, b, x);
			BoundingSphere bs(Vector3((float) b, 0.5f, (float) s), 1.5f);
			nif.SetShapeBoneBounds(names[s], b, bs);
		}
		if (auto inst = hdr.GetBlock<NiSkinInstance>(shape->SkinInstanceRef()))
			if (auto sd = hdr.GetBlock(inst->dataRef))
				for (auto& bone : sd->bones)
					std::stable_sort(bone.vertexWeights.begin(), bone.vertexWeights.end(), [](const SkinWeight& a, const SkinWeight& b2) { return a.index < b2.index; });
		if (dynamic_cast<BSTriShape*>(shape))
			for (uint16_t i = 0; i < 4; i++) {
				std::vector<uint8_t> bi;
				std::vector<float> bw;
				if (s == 1) { bi = {0}; bw = {1.0f}; }
				else { bi = {(uint8_t) (i % 3), (uint8_t) ((i + 2) % 3)}; bw = {0.5f, 0.5f}; }
				nif.SetShapeVertWeights(names[s], i, bi, bw);
			}
		nif.UpdateSkinPartitions(shape);
	}
	return s1::save(nif, true);
}

inline std::string build(const std::string& name, const e1::VerCfg& vc) {
	if (name == "two-skins") return two_skins(vc);
	return "";
}

} // namespace built
