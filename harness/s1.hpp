// S1 corpus: single synthesised blocks (E1 tapes) wrapped into loadable files, and helpers for
// loading / saving NifFile objects from and to memory.
#pragma once
#include "tape.hpp"

namespace s1 {
using namespace nifly;
using e1::Script;
using e1::Tape;
using e1::VerCfg;

inline NifSaveOptions raw_opts() {
	NifSaveOptions o;
	o.optimize = false;
	o.sortBlocks = false;
	return o;
}

inline std::string save(NifFile& nif, bool raw) {
	std::ostringstream os(std::ios::binary);
	NifSaveOptions o;
	if (raw) o = raw_opts();
	if (nif.Save(os, o) != 0) return std::string();
	return os.str();
}

// returns Load's return code; *consumed = stream position after Load (bytes read incl. header)
inline int load(NifFile& nif, const std::string& bytes, long long* consumed = nullptr, bool terrain = false) {
	std::istringstream is(bytes, std::ios::binary);
	NifLoadOptions lo;
	lo.isTerrain = terrain;
	int rc = nif.Load(is, lo);
	if (consumed) {
		if (is.fail() && !is.eof()) *consumed = -2;
		else if (is.eof()) *consumed = -1; // tried to read past the end
		else *consumed = (long long) is.tellg();
	}
	return rc;
}

struct Built {
	bool ok = false;
	bool capped = false;
	std::string why;
	std::string file;	// Save(raw) of {root NiNode -> block}
	std::string tape;	// bytes the reader consumed
	std::vector<e1::Point> points;
	bool populated = false;
};

// Build the S1 file for (type, version, script).  The block is read from the tape with the file's
// own header (so string indices resolve against the seeded table), appended as block 1 and made a
// child of the root so that a default save keeps it; PrepareData() then does what Load() does after
// the block loop.  The result F = Save(raw) is therefore the library's normal form of the input
// "header + root + tape" and must itself be a fixed point of load-then-raw-save.
inline Built build_s1(const std::string& type, const VerCfg& vc, const Script& script, bool wide) {
	Built b;
	NifFile nif;
	nif.Create(vc.ver());
	auto& hdr = nif.GetHeader();
	e1::seed_strings(hdr);
	Tape tape;
	tape.script = &script;
	tape.wide = wide;
	tape.nblocks_hint = 2;
	std::unique_ptr<NiObject> obj;
	try {
		obj = e1::load_block(type, hdr, tape);
	} catch (e1::TapeCap&) {
		b.capped = true;
		b.why = "cap";
		b.points = tape.points;
		return b;
	}
	b.points = tape.points;
	b.tape = tape.bytes;
	b.populated = tape.populated;
	if (!obj) { b.why = "no factory"; return b; }
	uint32_t id = hdr.AddBlock(std::move(obj));
	auto root = nif.GetRootNode();
	if (root) {
		root->name.SetIndex(hdr.AddOrFindStringId("Scene Root"));
		if (hdr.GetBlock<NiNode>(id) != root) root->childRefs.AddBlockRef(id);
	}
	// exactly what NifFile::Load does after reading the blocks: resolve strings, link geometry,
	// clean texture paths, move partition data, drop invalid triangles
	nif.PrepareData();
	b.file = save(nif, true);
	b.ok = !b.file.empty();
	return b;
}

} // namespace s1
