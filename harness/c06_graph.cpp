// C06: block-graph edits keep every reference on its target and the header consistent.
// Explicit-state breadth-first search over operation histories on small block graphs.  Every
// transition is executed on the real NifFile / NiHeader and compared with a reference model of an
// indexed object graph (logical ids, type names, reference targets); states are deduplicated by a
// canonical form; each reached state is also saved and reloaded.  See DESIGN.md C06.
#include "s1.hpp"
#include "tape.hpp"

#include "ExtraData.hpp"

using namespace nifly;
using vf::J;
using vf::Stats;

static vf::Args A;
static size_t g_maxblocks = 5;

// ---------- operations ----------
enum OpKind { ADD_NODE, ASSIGN_ED, ADD_LOOSE, DELETE_BLOCK, REPLACE_BLOCK, SET_ORDER, DELETE_BY_TYPE, DELETE_UNREF, PRETTY_SORT, NKINDS };
static const char* OPNAME[] = {"AddNode", "AssignExtraData", "AddBlock", "DeleteBlock", "ReplaceBlock", "SetBlockOrder", "DeleteBlockByType", "DeleteUnreferencedBlocks", "PrettySortBlocks"};
static const char* LOOSE_TYPES[] = {"NiNode", "NiStringExtraData", "BSXFlags"};
static const char* REPLACE_TYPES[] = {"NiNode", "NiStringExtraData"};

struct Op {
	int kind = 0, a = 0, b = 0;
	std::string s; // type name for DELETE_BY_TYPE
};
using History = std::vector<Op>;

static J op_json(const Op& o) { return J::arr().push(OPNAME[o.kind]).push(o.a).push(o.b).push(o.s); }
static J hist_json(const History& h) { J a = J::arr(); for (auto& o : h) a.push(op_json(o)); return a; }
static Op op_from(const J& j) {
	Op o;
	std::string n = j[0].str();
	for (int k = 0; k < NKINDS; k++) if (n == OPNAME[k]) o.kind = k;
	o.a = (int) j[1].i64();
	o.b = (int) j[2].i64();
	o.s = j[3].str();
	return o;
}
static std::string hist_str(const History& h) {
	std::string s;
	for (auto& o : h) s += vf::strf("%s(%d,%d%s%s) ", OPNAME[o.kind], o.a, o.b, o.s.empty() ? "" : ",", o.s.c_str());
	return s;
}

static std::unique_ptr<NiObject> make_block(const std::string& type) {
	if (type == "NiNode") { auto n = std::make_unique<NiNode>(); n->name.get() = "LooseNode"; return n; }
	if (type == "NiStringExtraData") { auto e = std::make_unique<NiStringExtraData>(); e->name.get() = "ED"; e->stringData.get() = "data"; return e; }
	if (type == "BSXFlags") { auto e = std::make_unique<BSXFlags>(); e->name.get() = "BSX"; e->integerData = 3; return e; }
	return nullptr;
}

static std::vector<uint32_t> nth_perm(size_t n, int k) {
	std::vector<uint32_t> p(n);
	for (size_t i = 0; i < n; i++) p[i] = (uint32_t) i;
	for (int i = 0; i < k; i++) std::next_permutation(p.begin(), p.end());
	return p;
}
static int factorial(size_t n) { int f = 1; for (size_t i = 2; i <= n; i++) f *= (int) i; return f; }

// ---------- reference model ----------
struct MBlock {
	int id;
	std::string type;
	std::multiset<int> targets; // logical ids of non-empty references (refs and ptrs)
	int empties = 0;			// number of empty reference objects
	long size = -1;				// header size entry of the block (-1: not tracked; versions >= 20.2.0.5 only)
};
struct Model {
	std::vector<MBlock> slots; // index = block index
	int next_id = 0;
	bool order_free = false; // set by PrettySort: the model predicts the block set, not the order
	bool sized = false;		 // the version keeps a per-block size table in the header
	int find(int id) const { for (size_t i = 0; i < slots.size(); i++) if (slots[i].id == id) return (int) i; return -1; }
	bool referenced(int id) const {
		for (auto& b : slots) if (b.targets.count(id)) return true;
		return false;
	}
	void del(size_t slot) {
		int id = slots[slot].id;
		slots.erase(slots.begin() + (long) slot);
		for (auto& b : slots) {
			int c = (int) b.targets.count(id);
			if (c) { b.targets.erase(id); b.empties += c; }
		}
	}
	int root_slot() const { // NifFile::GetRootNode: block 0 if it is a node, else the first node
		if (!slots.empty() && slots[0].type == "NiNode") return 0;
		for (size_t i = 0; i < slots.size(); i++) if (slots[i].type == "NiNode") return (int) i;
		return -1;
	}
};

// ---------- the system under test + identity tracking ----------
struct Sut {
	NifFile nif;
	std::map<NiObject*, int> ids; // object identity -> logical id
	std::map<std::string, int> fresh_empties; // measured on default-constructed blocks
};

static int count_empties(NiObject* o, int* nonempty = nullptr) {
	std::set<NiRef*> refs;
	o->GetChildRefs(refs);
	o->GetPtrs(refs);
	int e = 0, ne = 0;
	for (auto r : refs) (r->IsEmpty() ? e : ne)++;
	if (nonempty) *nonempty = ne;
	return e;
}

struct InitSpec { const char* name; };
static const char* INITS[] = {"create", "g1", "g2shape"};

static NiVersion version_of(const std::string& v) { return v == "OB" ? NiVersion::getOB() : (v == "FO3" ? NiVersion::getFO3() : NiVersion::getSSE()); }

// build the initial graph; registers identities and fills the model from the implementation (trusted base: the
// initial state is read off the implementation once, every later state is predicted by the model)
static void build_init(const std::string& init, const std::string& ver, Sut& s, Model& m) {
	s.nif.Create(version_of(ver));
	if (init == "g1") {
		auto node = s.nif.AddNode("Child", MatTransform());
		auto ed = std::make_unique<NiStringExtraData>();
		ed->name.get() = "ED";
		ed->stringData.get() = "payload";
		s.nif.AssignExtraData(node, std::move(ed));
		s.nif.GetHeader().AddBlock(make_block("NiNode"));
	}
	else if (init == "g2shape") {
		std::vector<Vector3> v = {{0, 0, 0}, {1, 0, 0}, {0, 1, 0}};
		std::vector<Triangle> t = {{0, 1, 2}};
		std::vector<Vector2> uv = {{0, 0}, {1, 0}, {0, 1}};
		s.nif.CreateShapeFromData("Shape", &v, &t, &uv);
	}
	auto& hdr = s.nif.GetHeader();
	for (uint32_t i = 0; i < hdr.GetNumBlocks(); i++) {
		auto o = hdr.GetBlock<NiObject>(i);
		s.ids[o] = m.next_id++;
	}
	for (uint32_t i = 0; i < hdr.GetNumBlocks(); i++) {
		auto o = hdr.GetBlock<NiObject>(i);
		MBlock b;
		b.id = s.ids[o];
		b.type = o->GetBlockName();
		std::set<NiRef*> refs;
		o->GetChildRefs(refs);
		o->GetPtrs(refs);
		for (auto r : refs) {
			if (r->IsEmpty()) b.empties++;
			else if (r->index < hdr.GetNumBlocks()) b.targets.insert(s.ids[hdr.GetBlock<NiObject>(r->index)]);
		}
		m.slots.push_back(b);
	}
	for (auto t : LOOSE_TYPES) { auto o = make_block(t); s.fresh_empties[t] = count_empties(o.get()); }
}

// enabled operations in a model state (the argument domains range over the full current index range)
static std::vector<Op> enabled(const Model& m) {
	std::vector<Op> ops;
	size_t n = m.slots.size();
	if (n < g_maxblocks) {
		for (size_t i = 0; i < n; i++) if (m.slots[i].type == "NiNode") ops.push_back({ADD_NODE, (int) i, 0, ""});
		for (size_t i = 0; i < n; i++) if (m.slots[i].type == "NiNode" || m.slots[i].type == "NiTriShape" || m.slots[i].type == "BSTriShape") ops.push_back({ASSIGN_ED, (int) i, 0, ""});
		for (int t = 0; t < 3; t++) ops.push_back({ADD_LOOSE, t, 0, ""});
	}
	for (size_t i = 0; i < n; i++) ops.push_back({DELETE_BLOCK, (int) i, 0, ""});
	for (size_t i = 0; i < n; i++) for (int t = 0; t < 2; t++) ops.push_back({REPLACE_BLOCK, (int) i, t, ""});
	if (n >= 2) for (int k = 1; k < factorial(n); k++) ops.push_back({SET_ORDER, k, 0, ""});
	std::set<std::string> types;
	for (auto& b : m.slots) types.insert(b.type);
	for (auto& t : types) for (int orph = 0; orph < 2; orph++) ops.push_back({DELETE_BY_TYPE, orph, 0, t});
	ops.push_back({DELETE_UNREF, 0, 0, ""});
	ops.push_back({PRETTY_SORT, 0, 0, ""});
	return ops;
}

// apply to the implementation
static void apply_impl(Sut& s, const Op& o, const Model& before) {
	auto& hdr = s.nif.GetHeader();
	switch (o.kind) {
		case ADD_NODE: {
			auto parent = hdr.GetBlock<NiNode>((uint32_t) o.a);
			auto n = s.nif.AddNode("Added", MatTransform(), parent);
			if (n) s.ids[n] = before.next_id;
			break;
		}
		case ASSIGN_ED: {
			auto target = hdr.GetBlock<NiAVObject>((uint32_t) o.a);
			auto ed = std::make_unique<NiStringExtraData>();
			ed->name.get() = "ED";
			ed->stringData.get() = "x";
			NiObject* raw = ed.get();
			if (target) { s.nif.AssignExtraData(target, std::move(ed)); s.ids[raw] = before.next_id; }
			break;
		}
		case ADD_LOOSE: {
			auto b = make_block(LOOSE_TYPES[o.a]);
			NiObject* raw = b.get();
			hdr.AddBlock(std::move(b));
			s.ids[raw] = before.next_id;
			break;
		}
		case DELETE_BLOCK: hdr.DeleteBlock((uint32_t) o.a); break;
		case REPLACE_BLOCK: {
			auto b = make_block(REPLACE_TYPES[o.b]);
			NiObject* raw = b.get();
			int id = before.slots[(size_t) o.a].id;
			s.ids.erase(hdr.GetBlock<NiObject>((uint32_t) o.a));
			hdr.ReplaceBlock((uint32_t) o.a, std::move(b));
			s.ids[raw] = id; // the slot keeps its identity for everybody who references it
			break;
		}
		case SET_ORDER: {
			auto p = nth_perm(before.slots.size(), o.a);
			hdr.SetBlockOrder(p);
			break;
		}
		case DELETE_BY_TYPE: hdr.DeleteBlockByType(o.s, o.a != 0); break;
		case DELETE_UNREF: s.nif.DeleteUnreferencedBlocks(); break;
		case PRETTY_SORT: s.nif.PrettySortBlocks(); break;
	}
	// the library caches raw geometry pointers in shapes; re-link after structural edits as its own API does
	s.nif.LinkGeomData();
}

// apply to the model
static void apply_model(Model& m, const Op& o, const std::map<std::string, int>& fresh_empties) {
	m.order_free = false;
	switch (o.kind) {
		case ADD_NODE: {
			MBlock b{m.next_id++, "NiNode", {}, fresh_empties.at("NiNode"), m.sized ? 0 : -1};
			m.slots[(size_t) o.a].targets.insert(b.id);
			m.slots.push_back(b);
			break;
		}
		case ASSIGN_ED: {
			MBlock b{m.next_id++, "NiStringExtraData", {}, fresh_empties.at("NiStringExtraData"), m.sized ? 0 : -1};
			m.slots[(size_t) o.a].targets.insert(b.id);
			m.slots.push_back(b);
			break;
		}
		case ADD_LOOSE: {
			MBlock b{m.next_id++, LOOSE_TYPES[o.a], {}, fresh_empties.at(LOOSE_TYPES[o.a]), m.sized ? 0 : -1};
			m.slots.push_back(b);
			break;
		}
		case DELETE_BLOCK: m.del((size_t) o.a); break;
		case REPLACE_BLOCK: {
			auto& b = m.slots[(size_t) o.a];
			b.type = REPLACE_TYPES[o.b];
			b.targets.clear();
			b.empties = fresh_empties.at(b.type);
			if (m.sized) b.size = 0; // a replaced block's size entry is reset until the next save
			break;
		}
		case SET_ORDER: {
			auto p = nth_perm(m.slots.size(), o.a);
			std::vector<MBlock> ns(m.slots.size());
			for (size_t i = 0; i < m.slots.size(); i++) ns[p[i]] = m.slots[i];
			m.slots = ns;
			break;
		}
		case DELETE_BY_TYPE: {
			// documented semantics: every block of that type is deleted; with orphanedOnly a block that is
			// still referenced (at the moment it is examined, highest index first) stays
			std::vector<int> ids;
			for (auto& b : m.slots) if (b.type == o.s) ids.push_back(b.id);
			for (size_t k = ids.size(); k-- > 0;) {
				if (o.a != 0 && m.referenced(ids[k])) continue;
				m.del((size_t) m.find(ids[k]));
			}
			break;
		}
		case DELETE_UNREF: {
			int root = m.root_slot();
			if (root < 0) break;
			int rootid = m.slots[(size_t) root].id;
			for (bool again = true; again;) {
				again = false;
				for (size_t i = 0; i < m.slots.size(); i++)
					if (m.slots[i].id != rootid && !m.referenced(m.slots[i].id)) { m.del(i); again = true; break; }
			}
			break;
		}
		case PRETTY_SORT: m.order_free = true; break;
	}
}

// ---------- comparison ----------
static std::string check(Sut& s, Model& m, const char* opname) {
	auto& hdr = s.nif.GetHeader();
	auto& blocks = s.nif.blocks;
	size_t n = m.slots.size();
	if (hdr.GetNumBlocks() != n || blocks.size() != n) return vf::strf("block-count: header says %u, block vector has %zu, model expects %zu", hdr.GetNumBlocks(), blocks.size(), n);
	std::set<int> seen;
	std::vector<int> slot_id(n, -1);
	for (size_t i = 0; i < n; i++) {
		NiObject* o = blocks[i].get();
		if (!o) return vf::strf("empty-slot: slot %zu holds no block", i);
		auto it = s.ids.find(o);
		if (it == s.ids.end()) return vf::strf("unknown-object: slot %zu holds an object the history never created", i);
		if (!seen.insert(it->second).second) return vf::strf("duplicate-slot: logical block %d occupies two slots", it->second);
		slot_id[i] = it->second;
	}
	if (m.order_free) {
		// adopt the implementation's order after checking it is a permutation of the predicted block set
		std::vector<MBlock> ns;
		for (size_t i = 0; i < n; i++) {
			int k = m.find(slot_id[i]);
			if (k < 0) return vf::strf("lost-block: slot %zu holds logical block %d which the model does not expect", i, slot_id[i]);
			ns.push_back(m.slots[(size_t) k]);
		}
		m.slots = ns;
		m.order_free = false;
	}
	for (size_t i = 0; i < n; i++) {
		const MBlock& mb = m.slots[i];
		if (slot_id[i] != mb.id) return vf::strf("slot-identity: slot %zu holds logical block %d, model expects %d", i, slot_id[i], mb.id);
		NiObject* o = blocks[i].get();
		if (mb.type != o->GetBlockName()) return vf::strf("object-type: slot %zu is a %s, model expects %s", i, o->GetBlockName(), mb.type.c_str());
		if (hdr.GetBlockTypeStringById((uint32_t) i) != mb.type)
			return vf::strf("header-type-name: header names slot %zu '%s', the block is a %s", i, hdr.GetBlockTypeStringById((uint32_t) i).c_str(), mb.type.c_str());
		std::set<NiRef*> refs;
		o->GetChildRefs(refs);
		o->GetPtrs(refs);
		std::multiset<int> targets;
		int empties = 0;
		for (auto r : refs) {
			if (r->IsEmpty()) { empties++; continue; }
			if (r->index >= n) return vf::strf("dangling-reference: slot %zu (%s) references index %u of %zu", i, mb.type.c_str(), r->index, n);
			targets.insert(slot_id[r->index]);
		}
		if (targets != mb.targets) {
			std::string a, b;
			for (auto t : targets) a += std::to_string(t) + " ";
			for (auto t : mb.targets) b += std::to_string(t) + " ";
			return vf::strf("reference-target: slot %zu (%s, logical %d) references logical blocks {%s}, model expects {%s}", i, mb.type.c_str(), mb.id, a.c_str(), b.c_str());
		}
		if (empties != mb.empties) return vf::strf("empty-references: slot %zu (%s) has %d empty references, model expects %d", i, mb.type.c_str(), empties, mb.empties);
	}
	// header tables
	if (hdr.numBlockTypes != hdr.blockTypes.size()) return vf::strf("type-table-count: numBlockTypes %u but table holds %zu names", hdr.numBlockTypes, hdr.blockTypes.size());
	if (hdr.blockTypeIndices.size() != n) return vf::strf("type-index-table: %zu entries for %zu blocks", hdr.blockTypeIndices.size(), n);
	std::set<std::string> names, used;
	for (auto& t : hdr.blockTypes) if (!names.insert(t.get()).second) return "type-table-duplicate: '" + t.get() + "' listed twice";
	for (size_t i = 0; i < n; i++) {
		uint16_t ti = hdr.GetBlockTypeIndex((uint32_t) i);
		if (ti >= hdr.blockTypes.size()) return vf::strf("type-index-range: slot %zu has type index %u of %zu", i, ti, hdr.blockTypes.size());
		used.insert(hdr.blockTypes[ti].get());
	}
	for (auto& t : names) if (!used.count(t)) return "type-table-unused: '" + t + "' is in the type table but no block uses it";
	if (hdr.GetVersion().File() >= V20_2_0_5 && hdr.blockSizes.size() != n) return vf::strf("size-table: %zu entries for %zu blocks", hdr.blockSizes.size(), n);
	// the size entry is part of the header's description of a block: it moves with the block (delete, reorder, sort),
	// and is 0 for a block added or replaced since the last save
	for (size_t i = 0; i < n; i++)
		if (m.slots[i].size >= 0 && (long) hdr.GetBlockSize((uint32_t) i) != m.slots[i].size)
			return vf::strf("size-entry: header size entry of slot %zu (%s, logical %d) is %u, the entry of that block was %ld", i, m.slots[i].type.c_str(), m.slots[i].id,
							hdr.GetBlockSize((uint32_t) i), m.slots[i].size);
	(void) opname;
	return "";
}

// save + reload: same graph by index (types, non-empty reference targets)
static std::string check_reload(Sut& s, const Model& m) {
	std::string bytes = s1::save(s.nif, true);
	if (bytes.empty()) return "save-fails";
	NifFile r;
	int rc = s1::load(r, bytes);
	if (m.slots.empty()) return ""; // an empty model: nothing to compare
	if (rc != 0) return vf::strf("reload-fails: Load returns %d", rc);
	auto& hdr = r.GetHeader();
	if (hdr.GetNumBlocks() != m.slots.size()) return vf::strf("reload-block-count: %u vs %zu", hdr.GetNumBlocks(), m.slots.size());
	for (size_t i = 0; i < m.slots.size(); i++) {
		auto o = hdr.GetBlock<NiObject>((uint32_t) i);
		if (!o || m.slots[i].type != o->GetBlockName()) return vf::strf("reload-type: slot %zu", i);
		std::set<NiRef*> refs;
		o->GetChildRefs(refs);
		o->GetPtrs(refs);
		std::multiset<int> targets;
		for (auto rf : refs) if (!rf->IsEmpty()) { if (rf->index >= m.slots.size()) return vf::strf("reload-dangling: slot %zu", i); targets.insert(m.slots[rf->index].id); }
		if (targets != m.slots[i].targets) return vf::strf("reload-reference-target: slot %zu (%s)", i, m.slots[i].type.c_str());
	}
	return "";
}

static std::string canon(const Model& m, const std::string& ver) {
	std::string c = ver + "|";
	for (size_t i = 0; i < m.slots.size(); i++) {
		c += m.slots[i].type + ":";
		std::vector<int> t;
		for (auto id : m.slots[i].targets) t.push_back(m.find(id));
		std::sort(t.begin(), t.end());
		for (auto x : t) c += std::to_string(x) + ",";
		c += "e" + std::to_string(m.slots[i].empties) + ";";
	}
	return c;
}

// Before a checked transition every block gets a distinct, non-zero header size entry (what a loaded file has);
// the model records it, so the transition is checked on size entries that tell the blocks apart whatever the
// history before it was - the canonical state form therefore need not carry size values.
static void stamp_sizes(Sut& s, Model& m) {
	auto& hdr = s.nif.GetHeader();
	m.sized = hdr.GetVersion().File() >= V20_2_0_5 && hdr.blockSizes.size() == m.slots.size() && hdr.blockSizes.size() == hdr.GetNumBlocks();
	if (!m.sized) { for (auto& b : m.slots) b.size = -1; return; }
	for (size_t i = 0; i < m.slots.size(); i++) {
		hdr.blockSizes[i] = 1000 + 7 * (uint32_t) i;
		m.slots[i].size = hdr.blockSizes[i];
	}
}

// replay a history on a fresh model; checks only the last transition (prefixes were checked when first reached)
// returns "" or the violation text; *out_canon = canonical form of the reached state
static std::string run_history(const std::string& init, const std::string& ver, const History& h, Stats& st, std::string* out_canon, Model* out_model,
							   bool check_all = false) {
	Sut s;
	Model m;
	build_init(init, ver, s, m);
	std::string err = h.empty() ? check(s, m, "init") : "";
	for (size_t k = 0; k < h.size() && err.empty(); k++) {
		if (k + 1 == h.size() || check_all) stamp_sizes(s, m);
		Model before = m;
		apply_impl(s, h[k], before);
		apply_model(m, h[k], s.fresh_empties);
		if (k + 1 == h.size() || check_all) {
			err = check(s, m, OPNAME[h[k].kind]);
			st.add("transitions");
			st.add(std::string("op_") + OPNAME[h[k].kind]);
		}
		else if (m.order_free) check(s, m, ""); // adopt the order chosen by an earlier sort
	}
	if (err.empty()) {
		if (out_canon) *out_canon = canon(m, ver);
		if (out_model) *out_model = m;
		err = check_reload(s, m);
		st.add("reloads_checked");
		if (!err.empty()) err = "save-reload:" + err;
	}
	return err;
}


// ---------- typed phase: every block type keeps its *serialised* references on target ----------
// Graph: 0 root, 1 node T1, 2 extra data T2, 3 = block X of the type under test, read from an E1 tape whose
// reference reads alternate between T1 and T2.  The references X serialises are observed through the
// write-side reference hook (not through the enumerators), before and after each edit; under the
// renumbering the edit induces (object identity) every reference must still designate the same block,
// or be gone exactly when its target was deleted.
static std::vector<uint32_t> written_refs(NiObject* x, NiHeader& hdr) {
	std::vector<uint32_t> vals;
	e1::g_ctx.on_ref = [&](void* r, bool w) { if (w) vals.push_back(((NiRef*) r)->index); };
	std::ostringstream os(std::ios::binary);
	NiOStream out(&os, &hdr);
	x->Put(out);
	e1::g_ctx.on_ref = nullptr;
	return vals;
}

static std::string g_typed_header_name; // what AddBlock registered for the block under test
static const char* TYPED_OPS[] = {"DeleteBlock(1)", "DeleteBlock(2)", "SetBlockOrder(swap 1,2)", "SetBlockOrder(reverse)", "PrettySortBlocks", "DeleteBlock(0)",
								  "SetBlockOrder(rotate 1->2->3->1)", "SetBlockOrder(rotate 1->2->3->1) twice"};
static const int N_TYPED_OPS = 8;

static bool typed_build(const std::string& type, const e1::VerCfg& vc, NifFile& nif, NiObject*& x) {
	nif.Create(vc.ver());
	auto& hdr = nif.GetHeader();
	nif.AddNode("T1", MatTransform());
	auto ed = std::make_unique<NiStringExtraData>();
	ed->name.get() = "T2";
	nif.AssignExtraData(nif.GetRootNode(), std::move(ed));
	e1::seed_strings(hdr);
	e1::Tape tape;
	tape.ref_cycle = {1, 2};
	e1::Tape::no_ref_alts = true;
	std::unique_ptr<NiObject> obj;
	try { obj = e1::load_block(type, hdr, tape); } catch (std::exception&) { e1::Tape::no_ref_alts = false; return false; }
	e1::Tape::no_ref_alts = false;
	if (!obj) return false;
	std::vector<NiStringRef*> sr;
	obj->GetStringRefs(sr);
	for (auto r : sr) r->get() = hdr.GetStringById(r->GetIndex());
	x = obj.get();
	uint32_t id = hdr.AddBlock(std::move(obj));
	nif.GetRootNode()->childRefs.AddBlockRef(id);
	g_typed_header_name = hdr.GetBlockTypeStringById(id);
	return true;
}

static void typed_unit(const std::string& type, const e1::VerCfg& vc, Stats& st) {
	NifFile base;
	NiObject* x0 = nullptr;
	J cj0 = J::obj().set("typed", type).set("version", vc.name);
	vf::set_inflight(cj0.dump());
	if (!typed_build(type, vc, base, x0)) { st.add("typed_not_built"); return; }
	// the header must name an added block by the name its type is registered (and later looked up) under
	st.add("transitions");
	if (g_typed_header_name != type)
		st.violation(std::string("typed:") + type + ":header-type-name", vf::strf("%s (%s): AddBlock registers the block as '%s'; a reload would create a different type", type.c_str(), vc.name, g_typed_header_name.c_str()), cj0);
	std::vector<uint32_t> L0 = written_refs(x0, base.GetHeader());
	size_t nonempty = 0;
	for (auto v : L0) if (v != NIF_NPOS) nonempty++;
	if (nonempty == 0) { st.add("typed_types_without_references"); return; }
	st.add("typed_cases_with_references");
	for (int op = 0; op < N_TYPED_OPS; op++) {
		J cj = J(cj0).set("op", TYPED_OPS[op]);
		vf::set_inflight(cj.dump());
		NifFile nif;
		NiObject* x = nullptr;
		if (!typed_build(type, vc, nif, x)) return;
		auto& hdr = nif.GetHeader();
		std::vector<NiObject*> before;
		for (uint32_t i = 0; i < hdr.GetNumBlocks(); i++) before.push_back(hdr.GetBlock<NiObject>(i));
		switch (op) {
			case 0: hdr.DeleteBlock(1u); break;
			case 1: hdr.DeleteBlock(2u); break;
			case 2: { std::vector<uint32_t> p = {0, 2, 1, 3}; hdr.SetBlockOrder(p); break; }
			case 3: { std::vector<uint32_t> p = {3, 2, 1, 0}; hdr.SetBlockOrder(p); break; }
			case 4: nif.PrettySortBlocks(); break;
			case 5: hdr.DeleteBlock(0u); break;
			// a 3-cycle (not its own inverse); applied twice, a target sits in the LAST slot when the second reorder starts
			case 6: { std::vector<uint32_t> p = {0, 2, 3, 1}; hdr.SetBlockOrder(p); break; }
			case 7: { std::vector<uint32_t> p = {0, 2, 3, 1}; hdr.SetBlockOrder(p); std::vector<uint32_t> q = {0, 2, 3, 1}; hdr.SetBlockOrder(q); break; }
		}
		std::map<NiObject*, uint32_t> after;
		for (uint32_t i = 0; i < hdr.GetNumBlocks(); i++) after[hdr.GetBlock<NiObject>(i)] = i;
		if (!after.count(x)) continue;
		std::vector<uint32_t> L1 = written_refs(x, hdr);
		std::multiset<uint32_t> expect, got;
		for (auto v : L0) {
			if (v == NIF_NPOS || v >= before.size()) continue;
			auto it = after.find(before[v]);
			if (it != after.end()) expect.insert(it->second);
		}
		for (auto v : L1) if (v != NIF_NPOS) got.insert(v);
		st.add("transitions");
		st.add("typed_transitions");
		if (expect != got) {
			std::string a, b;
			for (auto v : expect) a += std::to_string(v) + " ";
			for (auto v : got) b += std::to_string(v) + " ";
			st.violation(std::string("typed:") + type + ":stale-serialised-reference",
						 vf::strf("%s (%s) after %s: the block writes references {%s}, under the induced renumbering they should be {%s}", type.c_str(), vc.name, TYPED_OPS[op], b.c_str(), a.c_str()), cj);
		}
	}
}

struct Node { std::string init, ver; History h; };

int main(int argc, char** argv) {
	A = vf::parse_args(argc, argv);
	Stats top;
	bool thorough = A.thorough();
	int maxdepth = (int) A.geti("depth", thorough ? 5 : 4);
	g_maxblocks = (size_t) A.geti("maxblocks", thorough ? 5 : 4);

	if (!A.replay.empty()) {
		J c = J::parse(vf::read_file(A.replay))["case"];
		if (c.has("typed")) {
			e1::install_hooks();
			for (auto& v : e1::all_versions()) if (c["version"].str() == v.name) typed_unit(c["typed"].str(), v, top);
			top.add("states");
			vf::finish(top);
			return 0;
		}
		History h;
		for (auto& o : c["history"].a) h.push_back(op_from(o));
		std::string err = run_history(c["init"].str(), c["version"].str(), h, top, nullptr, nullptr, true);
		if (!err.empty()) top.violation(std::string(h.empty() ? "init" : OPNAME[h.back().kind]) + ":" + err.substr(0, err.find(':')), err + " after " + hist_str(h), c);
		top.add("states");
		vf::finish(top);
		return 0;
	}

	vf::PoolCfg pc;
	pc.jobs = A.jobs;
	pc.rundir = A.rundir;
	pc.repo = A.repo;
	pc.max_restarts_per_unit = 5000;
	// typed phase
	if (A.geti("typed", 1)) {
		e1::install_hooks();
		std::vector<std::string> types = e1::all_type_names();
		std::vector<e1::VerCfg> vers = thorough ? e1::all_versions() : e1::game_versions();
		struct TU { size_t t, v; };
		std::vector<TU> tus;
		for (size_t t = 0; t < types.size(); t++) for (size_t v = 0; v < vers.size(); v++) tus.push_back({t, v});
		size_t nunits = std::min<size_t>(tus.size(), (size_t) A.jobs * 8);
		vf::run_pool(nunits, pc,
			[&](size_t u, const std::vector<std::string>& skips, long, Stats& st) {
				std::set<std::string> skip(skips.begin(), skips.end());
				for (size_t i = u; i < tus.size(); i += nunits) {
					std::string key = types[tus[i].t] + "@" + vers[tus[i].v].name;
					if (skip.count(key)) continue;
					vf::set_step(key.c_str());
					typed_unit(types[tus[i].t], vers[tus[i].v], st);
				}
			},
			[&](size_t, const vf::CrashInfo& ci, const std::string& inflight, Stats& parent) -> std::string {
				// a reader fault on the synthesised block rejects the input (BSGeometry); anything else is reported
				J cj;
				try { cj = J::parse(inflight); } catch (std::exception&) {}
				if (!cj.has("op")) parent.add("typed_rejected_by_fault");
				else parent.violation("typed:" + cj["typed"].str() + ":crash:" + ci.key(), "worker died (" + ci.cls + " in " + ci.frame + ") on " + inflight, cj);
				return vf::g_last_step;
			},
			top);
		top.add("states", (long long) top.cnt["typed_cases_with_references"]);
	}
	// initial states
	std::vector<Node> frontier;
	for (const char* ver : {"SSE", "OB"}) {
		frontier.push_back({"create", ver, {}});
		frontier.push_back({"g1", ver, {}});
	}
	if (thorough || A.geti("shape", 0)) frontier.push_back({"g2shape", "OB", {}});
	std::set<std::string> seen;
	{
		std::vector<Node> f2;
		for (auto& nd : frontier) {
			std::string c;
			std::string err = run_history(nd.init, nd.ver, nd.h, top, &c, nullptr);
			if (!err.empty()) top.violation("init:" + err.substr(0, err.find(':')), err, J::obj().set("init", nd.init).set("version", nd.ver).set("history", hist_json(nd.h)));
			if (seen.insert(nd.init + "/" + c).second) f2.push_back(nd);
		}
		frontier = f2;
	}
	top.add("states", (long long) seen.size());
	int depth_done = 0;
	for (int depth = 1; depth <= maxdepth && !frontier.empty(); depth++) {
		if (vf::deadline_passed()) { top.capped(vf::strf("deadline before depth %d", depth)); break; }
		// small units (a few frontier nodes each) so that a worker death costs little; workers append successors
		// (canon \t json) to one file per worker process
		const size_t per_unit = 4;
		size_t nunits = (frontier.size() + per_unit - 1) / per_unit;
		vf::run_pool(nunits, pc,
			[&](size_t u, const std::vector<std::string>& skips, long, Stats& st) {
				std::string path = A.rundir + "/succ." + std::to_string(depth) + "." + std::to_string(vf::g_slot) + "." + std::to_string(getpid());
				FILE* f = fopen(path.c_str(), "a");
				if (f) setvbuf(f, nullptr, _IOLBF, 1 << 16);
				std::set<std::string> skip(skips.begin(), skips.end()); // histories that killed a worker (already reported)
				for (size_t i = u * per_unit; i < std::min(frontier.size(), (u + 1) * per_unit); i++) {
					if (vf::deadline_passed()) { st.capped(vf::strf("deadline inside depth %d", depth)); break; }
					const Node& nd = frontier[i];
					// recompute the model state of this node to know the enabled operations
					Model m;
					{
						Stats scratch;
						std::string c;
						run_history(nd.init, nd.ver, nd.h, scratch, &c, &m);
					}
					for (auto& op : enabled(m)) {
						History h2 = nd.h;
						h2.push_back(op);
						J cj = J::obj().set("init", nd.init).set("version", nd.ver).set("history", hist_json(h2));
						if (skip.count(cj.dump())) continue;
						vf::set_inflight(cj.dump());
						std::string c;
						std::string err = run_history(nd.init, nd.ver, h2, st, &c, nullptr);
						if (!err.empty()) {
							st.violation(std::string(OPNAME[op.kind]) + ":" + err.substr(0, err.find(':')), err + " after " + hist_str(h2), cj);
							continue; // do not explore beyond a violated state
						}
						if (f) fprintf(f, "%s\t%s\n", (nd.init + "/" + c).c_str(), hist_json(h2).dump().c_str());
					}
					st.add("nodes_expanded");
				}
				if (f) fclose(f);
			},
			[&](size_t, const vf::CrashInfo& ci, const std::string& inflight, Stats& parent) -> std::string {
				J cj;
				try { cj = J::parse(inflight); } catch (std::exception&) {}
				std::string lastop = "?";
				if (cj.has("history") && cj["history"].size()) lastop = cj["history"][cj["history"].size() - 1][0].str();
				parent.violation(lastop + ":crash:" + ci.key(), "worker died (" + ci.cls + " in " + ci.frame + ") while executing " + inflight.substr(0, 400), cj);
				parent.add("transitions");
				return inflight; // redo the shard without this history (the state it would have reached is not explored further)
			},
			top);
		// collect successors
		std::vector<Node> next;
		size_t succ_total = 0;
		std::vector<std::string> succfiles;
		{
			std::string cmd = "ls " + A.rundir + "/succ." + std::to_string(depth) + ".* 2>/dev/null";
			FILE* p = popen(cmd.c_str(), "r");
			char buf[4096];
			while (p && fgets(buf, sizeof buf, p)) { std::string l = buf; while (!l.empty() && (l.back() == '\n')) l.pop_back(); if (!l.empty()) succfiles.push_back(l); }
			if (p) pclose(p);
		}
		for (auto& path : succfiles) {
			std::ifstream in(path);
			std::string line;
			while (std::getline(in, line)) {
				size_t tab = line.find('\t');
				if (tab == std::string::npos) continue;
				succ_total++;
				std::string key = line.substr(0, tab);
				if (seen.count(key)) continue;
				// a worker that died while its buffer was being flushed leaves a truncated last line; the shard was
				// redone without the fatal history, so the complete line is in another file
				J hj;
				try { hj = J::parse(line.substr(tab + 1)); } catch (std::exception&) { top.add("truncated_successor_lines_ignored"); succ_total--; continue; }
				seen.insert(key);
				Node nd;
				nd.init = key.substr(0, key.find('/'));
				std::string rest = key.substr(key.find('/') + 1);
				nd.ver = rest.substr(0, rest.find('|'));
				for (auto& o : hj.a) nd.h.push_back(op_from(o));
				next.push_back(nd);
				if (next.size() % 4001 == 1) top.sample(J::obj().set("init", nd.init).set("version", nd.ver).set("history", hj).set("canonical_state", rest));
			}
			unlink(path.c_str());
		}
		top.add("states", (long long) next.size());
		top.max("depth", depth);
		top.set_info(vf::strf("level_%d", depth), J::obj().set("frontier_in", (long long) frontier.size()).set("successors", (long long) succ_total).set("new_states", (long long) next.size()));
		frontier = next;
		depth_done = depth;
	}
	top.set_info("depth_completed", depth_done);
	top.set_info("max_blocks", (long long) g_maxblocks);
	top.set_info("rule", "breadth-first search over operation histories {AddNode(p), AssignExtraData(p), AddBlock(loose, 3 types), DeleteBlock(i), ReplaceBlock(i, 2 types), "
						 "SetBlockOrder(every permutation), DeleteBlockByType(name, orphanedOnly), DeleteUnreferencedBlocks, PrettySortBlocks}, every argument over the full "
						 "current index range, graphs of at most max_blocks blocks; state = history replayed on a fresh NifFile; canonical state = per slot (type, sorted "
						 "target slots, number of empty references) + version; every transition is executed on the implementation and compared with the reference model, "
						 "every reached state is saved raw and reloaded.  Typed phase: for every registered block type x version configuration a 4-block graph whose "
						 "block 3 is read from an E1 tape with references alternating between two targets; 8 edits (delete target 1 / 2 / root, swap, reverse, sort, 3-cycle once and twice - the second time with a target in the last slot); "
						 "the references the block *serialises* (write-side reference hook, not the enumerators) must follow the renumbering induced by object identity");
	vf::finish(top);
	return 0;
}
