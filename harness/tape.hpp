// E1: deviation-bounded exploration of the answers given to typed stream reads.
// The Tape is a std::streambuf that *synthesises* the bytes a block reader asks for, guided by
// the NIFLY_VERIF announce hook (kind/width/site of the next access).  See DESIGN.md 3.3.
#pragma once
#include "common.hpp"

#include "Factory.hpp"
#include "NifFile.hpp"

#include <cfloat>
#include <unordered_map>
#include <unordered_set>

namespace e1 {
using namespace nifly;
namespace K = nifly::verif;

struct VerCfg {
	const char* name;
	NiFileVersion file;
	uint32_t user, stream;
	NiVersion ver() const { return NiVersion(file, user, stream); }
};

// One representative per cell of the partition induced by the literal version gates (DESIGN 3.3).
inline const std::vector<VerCfg>& all_versions() {
	static const std::vector<VerCfg> v = {
		{"SPECIAL_10.0.1.0", V10_0_1_0, 0, 0},
		{"OB_10.1.0.106_u10_s5", V10_1_0_106, 10, 5},
		{"OB_10.2.0.0_u10_s9", V10_2_0_0, 10, 9},
		{"OB_10.2.0.0_u10_s10", V10_2_0_0, 10, 10},
		{"OB_20.0.0.4_u10_s11", V20_0_0_4, 10, 11},
		{"OB_20.0.0.4_u11_s11", V20_0_0_4, 11, 11},
		{"OB_20.0.0.5_u11_s11", V20_0_0_5, 11, 11},
		{"FO3_s12", V20_2_0_7, 11, 12},
		{"FO3_s15", V20_2_0_7, 11, 15},
		{"FO3_s17", V20_2_0_7, 11, 17},
		{"FO3_s22", V20_2_0_7, 11, 22},
		{"FO3_s24", V20_2_0_7, 11, 24},
		{"FO3_s25", V20_2_0_7, 11, 25},
		{"FO3_s26", V20_2_0_7, 11, 26},
		{"FO3_s27", V20_2_0_7, 11, 27},
		{"FO3_s29", V20_2_0_7, 11, 29},
		{"FO3_s34", V20_2_0_7, 11, 34},
		{"FO3_s35", V20_2_0_7, 11, 35},
		{"FO3_s76", V20_2_0_7, 11, 76},
		{"SK_s83", V20_2_0_7, 12, 83},
		{"SSE_s100", V20_2_0_7, 12, 100},
		{"FO4_s130", V20_2_0_7, 12, 130},
		{"FO4_s131", V20_2_0_7, 12, 131},
		{"FO4_s132", V20_2_0_7, 12, 132},
		{"FO4_s139", V20_2_0_7, 12, 139},
		{"FO76_s155", V20_2_0_7, 12, 155},
		{"SF_s172", V20_2_0_7, 12, 172},
		{"SF_s173", V20_2_0_7, 12, 173},
	};
	return v;
}
// one per game (quick tiers)
inline std::vector<VerCfg> game_versions() {
	std::vector<VerCfg> r;
	for (auto& v : all_versions()) {
		std::string n = v.name;
		if (n == "SPECIAL_10.0.1.0" || n == "OB_10.2.0.0_u10_s9" || n == "OB_20.0.0.5_u11_s11" || n == "FO3_s34" || n == "SK_s83"
			|| n == "SSE_s100" || n == "FO4_s130" || n == "FO4_s139" || n == "FO76_s155" || n == "SF_s172" || n == "SF_s173"
			|| n == "FO3_s12" || n == "FO4_s132")
			r.push_back(v);
	}
	return r;
}

inline std::vector<std::string> all_type_names() {
	std::vector<std::string> names;
	for (auto& kv : NiFactoryRegister::Get().m_registrations) names.push_back(kv.first);
	std::sort(names.begin(), names.end());
	return names;
}

struct Choice {
	uint32_t pos;
	uint8_t alt;
};
using Script = std::vector<Choice>;

inline std::string script_str(const Script& s) {
	std::string o;
	for (auto& c : s) o += std::to_string(c.pos) + ":" + std::to_string(c.alt) + ",";
	return o;
}
inline vf::J script_json(const Script& s) {
	vf::J a = vf::J::arr();
	for (auto& c : s) a.push(vf::J::arr().push((long long) c.pos).push((long long) c.alt));
	return a;
}
inline Script script_from_json(const vf::J& j) {
	Script s;
	for (auto& e : j.a) s.push_back({(uint32_t) e[0].i64(), (uint8_t) e[1].i64()});
	return s;
}

struct Point {
	int kind;
	uint16_t width;
	uint8_t nalts, taken;
	const void* site;
	bool first_of_site;
	uint32_t tape_off;
};

struct TapeCap : std::exception {
	const char* what() const noexcept override { return "tape horizon exceeded"; }
};
struct TapeDiverged : std::exception {
	const char* what() const noexcept override { return "script names a choice point that does not exist (replay divergence)"; }
};

static const char* kind_name(int k) {
	static const char* n[] = {"RAW", "BOOL", "INT", "ENUM", "FLOAT", "STRUCT", "HALF", "REF", "STRIDX", "STRLEN", "COUNT", "STRDATA"};
	return (k >= 0 && k < 12) ? n[k] : "?";
}

class Tape : public std::streambuf {
public:
	// --- configuration ---
	bool wide = true;	   // wide or narrow alphabets
	bool tag_refs = false; // REF / STRIDX reads return unique tags instead of alphabet values (C05)
	const Script* script = nullptr;
	size_t max_reads = 20000, max_bytes = 1u << 20;
	uint32_t nblocks_hint = 2, nstrings = 3; // values that make sense for REF / STRIDX alphabets
	uint32_t ref_default = NIF_NPOS;		 // default answer for references
	std::vector<uint32_t> ref_cycle; // when non-empty: REF reads return these targets in turn (no alternatives)
	int vdesc_set = 0; // 0: single-block set (incl. degenerate descriptors); 1: skinned well-formed set; 2: unskinned well-formed set (linked chains)

	// --- results ---
	std::string bytes;
	std::vector<Point> points;
	struct RefRead { uint32_t off; uint32_t value; int kind; };
	std::vector<RefRead> refreads; // every REF / STRIDX read: tape offset + value supplied
	size_t nreads = 0, ntyped = 0;
	bool populated = false; // some COUNT/STRLEN answered > 0
	size_t script_used = 0;

	struct Pending { int kind = 0; size_t width = 0; const void* site = nullptr; bool valid = false; } pend;

	void announce(int kind, size_t width, const void* site) { pend = {kind, width, site, true}; }

	static inline bool no_ref_alts = false; // set while a tape with ref_cycle is active
	static size_t nalts(int kind, size_t width, bool wide, bool tag_refs) {
		switch (kind) {
			case K::K_BOOL: return 2;
			case K::K_COUNT: return wide ? 4 : 3;
			case K::K_STRLEN: return 3;
			case K::K_ENUM: return wide ? 6 : 3;
			case K::K_INT:
				if (width == 1) return wide ? 4 : 3;
				if (width == 2) return wide ? 4 : 3;
				if (width == 4) return wide ? 13 : 3;
				if (width == 8) return wide ? 6 : 3;
				return 1;
			case K::K_FLOAT: return width == 4 ? 3 : 1;
			case K::K_REF: return (tag_refs || no_ref_alts) ? 1 : 3;
			case K::K_STRIDX: return tag_refs ? 1 : (wide ? 4 : 3);
			default: return 1;
		}
	}

	// VertexDesc values (8-byte INT): flags in the high bits select which per-vertex attributes exist
	static uint64_t vdesc(size_t alt) {
		// VF_VERTEX=1 VF_UV=2 VF_UV_2=4 VF_NORMAL=8 VF_TANGENT=0x10 VF_COLORS=0x20 VF_SKINNED=0x40 VF_LANDDATA=0x80
		// VF_EYEDATA=0x100 VF_FULLPREC=0x400 ; stored in bits 44..55
		auto mk = [](uint64_t flags) { return flags << 44; };
		switch (alt) {
			case 0: return mk(0x1 | 0x2 | 0x8 | 0x10);							 // half-precision, uv, normals, tangents
			case 1: return 0;
			case 2: return mk(0x1 | 0x2 | 0x8 | 0x10 | 0x20 | 0x40);			 // + colours + skin
			case 3: return mk(0x1 | 0x2 | 0x8 | 0x10 | 0x400 | 0x100);			 // full precision + eye data
			case 4: return mk(0x1 | 0x2 | 0x4 | 0x8 | 0x10 | 0x20 | 0x40 | 0x80 | 0x100 | 0x400); // everything
			default: return mk(0x1 | 0x2 | 0x8 | 0x10 | 0x400) | (uint64_t(6) << 8);		 // UV offset 24: two extra floats per vertex
		}
	}

	// well-formed descriptors for linked chains: the skinned flag agrees with the presence of a skin instance
	static uint64_t vdesc_chain(size_t alt, bool skinned) {
		auto mk = [&](uint64_t flags) { return (flags | (skinned ? 0x40 : 0)) << 44; };
		switch (alt) {
			case 0: return mk(0x1 | 0x2 | 0x8 | 0x10);
			case 1: return mk(0x1 | 0x2);
			case 2: return mk(0x1 | 0x2 | 0x8 | 0x10 | 0x20);
			case 3: return mk(0x1 | 0x2 | 0x8 | 0x10 | 0x400 | (skinned ? 0 : 0x100));
			case 4: return mk(0x1);
			default: return mk(0x1 | 0x2 | 0x8 | 0x10 | 0x400) | (uint64_t(6) << 8); // two extra floats per vertex
		}
	}

	void value(int kind, size_t width, size_t alt, char* out) {
		uint64_t v = 0;
		switch (kind) {
			case K::K_BOOL: v = alt == 0 ? 1 : 0; break;
			case K::K_COUNT: { static const uint64_t a[] = {1, 0, 2, 3}; v = a[alt]; break; }
			case K::K_STRLEN: { static const uint64_t a[] = {2, 0, 1}; v = a[alt]; break; }
			case K::K_ENUM: { static const uint64_t a[] = {1, 0, 2, 3, 4, 5}; v = a[alt]; break; }
			case K::K_INT:
				if (width == 1) { static const uint64_t a[] = {1, 0, 2, 3}; v = a[alt]; }
				else if (width == 2) { static const uint64_t a[] = {1, 0, 2, 0x1001}; v = a[alt]; }
				else if (width == 4) { static const uint64_t a[] = {1, 0, 2, 3, 4, 5, 6, 7, 8, 11, 12, 14, 16}; v = a[alt]; }
				else if (width == 8) v = vdesc_set == 0 ? vdesc(alt) : vdesc_chain(alt, vdesc_set == 1);
				break;
			case K::K_FLOAT: {
				float f = alt == 0 ? 0.5f + 0.25f * float(float_k++ % 8) : (alt == 1 ? 0.0f : FLT_MAX);
				memcpy(out, &f, 4);
				return;
			}
			case K::K_REF:
				if (!ref_cycle.empty()) v = ref_cycle[tag_k++ % ref_cycle.size()];
				else if (tag_refs) v = 1000 + tag_k++;
				else { const uint64_t a[] = {ref_default, 0, 1}; v = a[alt]; }
				break;
			case K::K_STRIDX:
				if (tag_refs) v = 1000 + tag_k++;
				else {
					// The first string reference of a block (its name, where it has one) defaults to empty:
					// the FO76+/SF lighting and effect shader readers skip their whole payload when the
					// block is named.  Every later string reference defaults to "Name".
					static const uint64_t first[] = {NIF_NPOS, 0, 1, 2}, later[] = {0, NIF_NPOS, 1, 2};
					v = (stridx_k++ == 0 ? first : later)[alt];
				}
				break;
		}
		memcpy(out, &v, width <= 8 ? width : 8);
	}

	void fill(char* s, size_t n, int kind) {
		if (kind == K::K_STRDATA) {
			for (size_t i = 0; i < n; i++) s[i] = char('a' + (fill_k++ % 26));
			return;
		}
		if (kind == K::K_HALF && n == 2) {
			static const uint16_t h[] = {0x3800, 0x3a00, 0x3c00, 0x3e00, 0x3400, 0x4000}; // 0.5 0.75 1 1.5 0.25 2
			uint16_t v = h[fill_k++ % 6];
			memcpy(s, &v, 2);
			return;
		}
		if (n % 4 == 0) {
			for (size_t i = 0; i < n; i += 4) {
				float f = 0.125f * float(1 + fill_k++ % 15);
				memcpy(s + i, &f, 4);
			}
			return;
		}
		for (size_t i = 0; i < n; i++) s[i] = char(1 + fill_k++ % 3);
	}

protected:
	std::streamsize xsgetn(char* s, std::streamsize n) override {
		if (n <= 0) return 0;
		std::streamsize got = 0;
		if (gptr() < egptr()) { // leftover look-ahead byte from underflow()
			*s++ = *gptr();
			gbump(1);
			n--;
			got++;
			if (n == 0) return got;
		}
		if (++nreads > max_reads || bytes.size() + (size_t) n > max_bytes) throw TapeCap();
		Pending p = pend;
		pend.valid = false;
		size_t off = bytes.size();
		bool typed = p.valid && p.width == (size_t) n && got == 0;
		if (typed) {
			ntyped++;
			size_t na = nalts(p.kind, p.width, wide, tag_refs);
			size_t alt = 0;
			if (na > 1) {
				uint32_t pos = (uint32_t) points.size();
				if (script && script_used < script->size() && (*script)[script_used].pos == pos) {
					alt = (*script)[script_used].alt;
					script_used++;
					if (alt >= na) throw TapeDiverged();
				}
				bool first = seen_sites.insert(p.site).second;
				points.push_back({p.kind, (uint16_t) p.width, (uint8_t) na, (uint8_t) alt, p.site, first, (uint32_t) off});
			}
			if (na > 1 || p.kind == K::K_REF || p.kind == K::K_STRIDX) {
				value(p.kind, p.width, alt, s);
				if (p.kind == K::K_REF || p.kind == K::K_STRIDX) {
					uint32_t v;
					memcpy(&v, s, 4);
					refreads.push_back({(uint32_t) off, v, p.kind});
				}
				if ((p.kind == K::K_COUNT || p.kind == K::K_STRLEN) && alt != 1) populated = true;
			}
			else
				fill(s, (size_t) n, p.kind);
		}
		else
			fill(s, (size_t) n, p.valid ? p.kind : 0);
		bytes.append(s, (size_t) n);
		return got + n;
	}

	int_type underflow() override {
		if (gptr() < egptr()) return traits_type::to_int_type(*gptr());
		if (++nreads > max_reads || bytes.size() + 1 > max_bytes) throw TapeCap();
		// byte-wise reads (getline / getstring): two letters, then the terminator
		char c = (line_k++ % 3 == 2) ? '\0' : 'm';
		onebuf = c;
		bytes.push_back(c);
		setg(&onebuf, &onebuf, &onebuf + 1);
		return traits_type::to_int_type(c);
	}

private:
	std::unordered_set<const void*> seen_sites;
	size_t float_k = 0, tag_k = 0, fill_k = 0, line_k = 0, stridx_k = 0;
	char onebuf = 0;
};

// ---- hook installation ----
struct HookCtx {
	Tape* tape = nullptr;
	std::function<void(void*, bool)> on_ref, on_strref;
	std::function<void(int, size_t, const void*)> on_announce; // used when no tape is attached (write side / file loads)
};
inline HookCtx g_ctx;
inline nifly::verif::Hooks g_hooks_obj;

inline void install_hooks() {
	g_hooks_obj.ctx = &g_ctx;
	g_hooks_obj.announce = [](void* c, int kind, size_t width, const void* site) {
		auto ctx = (HookCtx*) c;
		if (ctx->tape) ctx->tape->announce(kind, width, site);
		else if (ctx->on_announce) ctx->on_announce(kind, width, site);
	};
	g_hooks_obj.on_ref = [](void* c, void* ref, bool w) {
		auto ctx = (HookCtx*) c;
		if (ctx->on_ref) ctx->on_ref(ref, w);
	};
	g_hooks_obj.on_strref = [](void* c, void* ref, bool w) {
		auto ctx = (HookCtx*) c;
		if (ctx->on_strref) ctx->on_strref(ref, w);
	};
	nifly::verif::g_hooks = &g_hooks_obj;
}
struct TapeScope {
	explicit TapeScope(Tape* t) { g_ctx.tape = t; }
	~TapeScope() { g_ctx.tape = nullptr; }
};

// The fixed string table every synthesised block sees.
inline void seed_strings(NiHeader& hdr) {
	hdr.AddOrFindStringId("Name");
	hdr.AddOrFindStringId("", true);
	hdr.AddOrFindStringId("Other");
}

// Load one block of `type` from a tape.  Throws TapeCap / TapeDiverged.
inline std::unique_ptr<NiObject> load_block(const std::string& type, NiHeader& hdr, Tape& tape) {
	auto f = NiFactoryRegister::Get().GetFactoryByName(type);
	if (!f) return nullptr;
	std::istream is(&tape);
	is.exceptions(std::ios::badbit);
	NiIStream s(&is, &hdr);
	TapeScope scope(&tape);
	auto obj = f->Load(s);
	if (tape.script && tape.script_used != tape.script->size()) throw TapeDiverged();
	return obj;
}

// ---- the explorer (stateless DFS, deviation bound) ----
struct ExploreCfg {
	int bound = 1;
	bool wide = true;
	bool site_reduction = true;
	std::set<std::string> skip; // script strings that must not be run (crashed earlier)
};
// run(script) executes once and returns the choice points seen; it may throw TapeCap (counted by caller)
// returns false when the deadline stopped the exploration
template<class Run>
bool explore(const ExploreCfg& cfg, Run&& run, Script script = {}, size_t from = 0) {
	if (vf::deadline_passed()) return false;
	if (!cfg.skip.empty() && cfg.skip.count(script_str(script))) return true;
	std::vector<Point> pts = run(script);
	if ((int) script.size() >= cfg.bound) return true;
	for (size_t i = from; i < pts.size(); i++) {
		if (cfg.site_reduction && !pts[i].first_of_site) continue;
		for (uint8_t alt = 1; alt < pts[i].nalts; alt++) {
			Script s2 = script;
			s2.push_back({(uint32_t) i, alt});
			if (!explore(cfg, run, s2, i + 1)) return false;
		}
	}
	return true;
}

// ---- write-side recorder: (kind,width,offset) of every announced field + reference objects ----
struct WriteRecorder {
	struct Field { int kind; uint32_t width; uint64_t off; };
	std::vector<Field> fields;
	std::ostream* os = nullptr;
	void attach(std::ostream* o) {
		os = o;
		fields.clear();
		g_ctx.on_announce = [this](int kind, size_t width, const void*) {
			fields.push_back({kind, (uint32_t) width, (uint64_t) os->tellp()});
		};
	}
	void detach() { g_ctx.on_announce = nullptr; os = nullptr; }
};

} // namespace e1
