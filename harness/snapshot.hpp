// Common oracles of DESIGN.md 3.8 used by C11 / C14:
//  * logical snapshot (query battery) of a whole model and of one shape, rendered to an ordered
//    list of (field, value) pairs so that a difference can be named by its field;
//  * block payloads written the way NifFile::Save(raw) writes them, together with the offsets of
//    every block reference and of every string reference (from the NIFLY_VERIF hooks);
//  * masked payload compare: bytes equal outside reference fields, string fields compared by the
//    string they denote in their own file's table.
// Everything here is deterministic (sorted containers, bit-exact float signatures).
#pragma once
#include "s1.hpp"

namespace snap {
using namespace nifly;
using Fields = std::vector<std::pair<std::string, std::string>>;

// ---------- small helpers ----------
template<class T>
inline std::string sig(const std::vector<T>& v) {
	static_assert(std::is_trivially_copyable<T>::value, "raw signature needs a trivially copyable element");
	return vf::strf("%zu#%s", v.size(), vf::hex64(vf::fnv(v.data(), v.size() * sizeof(T))).c_str());
}
inline std::string fbits(float f) {
	uint32_t u;
	memcpy(&u, &f, 4);
	return vf::strf("%08x", u);
}
inline std::string sig(const Vector3& v) { return fbits(v.x) + "," + fbits(v.y) + "," + fbits(v.z); }
inline std::string sig(const MatTransform& t) {
	std::string o = sig(t.translation) + "/";
	for (int r = 0; r < 3; r++) o += sig(t.rotation[r]) + "/";
	return o + fbits(t.scale);
}
inline std::string sig(const BoundingSphere& b) { return sig(b.center) + "r" + fbits(b.radius); }

inline std::string first_diff(const std::string& a, const std::string& b) {
	size_t n = std::min(a.size(), b.size()), i = 0;
	while (i < n && a[i] == b[i]) i++;
	return vf::strf("lengths %zu vs %zu, first difference at offset %zu", a.size(), b.size(), i);
}

// name of the first field whose value differs (or that exists on one side only); "" when equal.
// Fields whose name starts with one of `ignore` are skipped.
inline std::string diff_fields(const Fields& a, const Fields& b, const std::vector<std::string>& ignore = {}, std::string* detail = nullptr) {
	auto skip = [&](const std::string& k) {
		for (auto& p : ignore) if (k.compare(0, p.size(), p) == 0) return true;
		return false;
	};
	std::map<std::string, std::string> ma, mb;
	for (auto& kv : a) if (!skip(kv.first)) ma[kv.first] = kv.second;
	for (auto& kv : b) if (!skip(kv.first)) mb[kv.first] = kv.second;
	// report in the battery's own order
	for (auto& kv : a) {
		if (skip(kv.first)) continue;
		auto it = mb.find(kv.first);
		if (it == mb.end()) { if (detail) *detail = kv.first + ": '" + kv.second.substr(0, 80) + "' vs <absent>"; return kv.first; }
		if (it->second != kv.second) {
			if (detail) *detail = kv.first + ": '" + kv.second.substr(0, 80) + "' vs '" + it->second.substr(0, 80) + "'";
			return kv.first;
		}
	}
	for (auto& kv : b) {
		if (skip(kv.first)) continue;
		if (!ma.count(kv.first)) { if (detail) *detail = kv.first + ": <absent> vs '" + kv.second.substr(0, 80) + "'"; return kv.first; }
	}
	return "";
}
inline uint64_t hash_fields(const Fields& f) {
	uint64_t h = 1469598103934665603ull;
	for (auto& kv : f) { h = vf::fnv(kv.first, h); h = vf::fnv("=", 1, h); h = vf::fnv(kv.second, h); h = vf::fnv("\n", 1, h); }
	return h;
}
// generic field name for violation keys: "shape[2].normals" -> "normals", "bone[3].weights" -> "bone.weights"
inline std::string generic_field(std::string f) {
	std::string o;
	for (size_t i = 0; i < f.size(); i++) {
		if (f[i] == '[') { // skip "[...]" up to the "]." that closes the label (names may contain brackets)
			size_t e = f.find("].", i);
			i = e == std::string::npos ? f.size() : e;
			continue;
		}
		o += f[i];
	}
	if (o.compare(0, 6, "shape.") == 0) o = o.substr(6);
	return o;
}

// ---------- logical snapshot of one shape ----------
// prefix is prepended to every field name.  Only read-only queries are used (the few non-const
// accessors called here refresh scratch caches that are never written to a file).
inline void shape_snapshot(NifFile& nif, NiShape* shape, const std::string& prefix, Fields& out) {
	auto put = [&](const std::string& k, const std::string& v) { out.emplace_back(prefix + k, v); };
	auto& hdr = nif.GetHeader();
	put("type", shape->GetBlockName());
	put("name", shape->name.get());
	{
		auto parent = nif.GetParentNode(shape);
		put("parent", parent ? parent->name.get() : std::string("<none>"));
	}
	put("flags", std::to_string(shape->flags));
	put("transform", sig(shape->GetTransformToParent()));
	put("nverts", std::to_string(shape->GetNumVertices()));
	put("ntris", std::to_string(shape->GetNumTriangles()));
	put("has", vf::strf("v%d uv%d n%d t%d c%d skinned%d", (int) shape->HasVertices(), (int) shape->HasUVs(), (int) shape->HasNormals(),
						(int) shape->HasTangents(), (int) shape->HasVertexColors(), (int) shape->IsSkinned()));
	{
		std::vector<Vector3> v;
		bool ok = nif.GetVertsForShape(shape, v);
		put("verts", (ok ? "1:" : "0:") + sig(v));
	}
	{
		std::vector<Triangle> t;
		bool ok = shape->GetTriangles(t);
		put("tris", (ok ? "1:" : "0:") + sig(t));
	}
	{
		auto n = nif.GetNormalsForShape(shape);
		put("normals", n ? sig(*n) : std::string("<none>"));
	}
	{
		std::vector<Vector3> v;
		bool ok = nif.GetTangentsForShape(shape, v);
		put("tangents", (ok ? "1:" : "0:") + sig(v));
		v.clear();
		ok = nif.GetBitangentsForShape(shape, v);
		put("bitangents", (ok ? "1:" : "0:") + sig(v));
	}
	{
		std::vector<Vector2> v;
		bool ok = nif.GetUvsForShape(shape, v);
		put("uvs", (ok ? "1:" : "0:") + sig(v));
	}
	{
		std::vector<Color4> v;
		bool ok = nif.GetColorsForShape(shape, v);
		put("colors", (ok ? "1:" : "0:") + sig(v));
	}
	{
		std::vector<float> v;
		bool ok = NifFile::GetEyeDataForShape(shape, v);
		put("eyedata", (ok ? "1:" : "0:") + sig(v));
	}
	put("bounds", sig(shape->GetBounds()));

	// shader
	if (auto shader = nif.GetShader(shape)) {
		put("shader.block", shader->GetBlockName());
		put("shader.name", shader->name.get());
		put("shader.type", std::to_string(shader->GetShaderType()));
		if (auto bs = dynamic_cast<BSShaderProperty*>(shader))
			put("shader.flags", vf::strf("%u/%08x/%08x/%u/%u", (unsigned) bs->shaderFlags, bs->shaderFlags1, bs->shaderFlags2, bs->numSF1, bs->numSF2));
		put("shader.bools", vf::strf("%d%d%d%d%d%d%d%d%d%d%d%d%d%d", (int) shader->IsSkinTinted(), (int) shader->IsFaceTinted(), (int) shader->IsSkinned(),
									 (int) shader->IsDoubleSided(), (int) shader->IsModelSpace(), (int) shader->IsEmissive(), (int) shader->HasSpecular(),
									 (int) shader->HasVertexColors(), (int) shader->HasVertexAlpha(), (int) shader->HasBacklight(),
									 (int) shader->HasRimlight(), (int) shader->HasSoftlight(), (int) shader->HasGlowmap(),
									 (int) shader->HasEnvironmentMapping()));
		put("shader.params", fbits(shader->GetGlossiness()) + "," + fbits(shader->GetSpecularStrength()) + "," + sig(shader->GetSpecularColor()) + ","
								 + fbits(shader->GetAlpha()) + "," + fbits(shader->GetEmissiveMultiple()) + "," + fbits(shader->GetEnvironmentMapScale()));
		put("shader.wet", shader->GetWetMaterialName());
		put("shader.hasTextureSet", shader->HasTextureSet() ? "1" : "0");
	}
	else
		put("shader.block", "<none>");
	for (uint32_t i = 0; i < 10; i++) {
		std::string tex;
		uint32_t rc = nif.GetTextureSlot(shape, tex, i);
		put("tex" + std::to_string(i), std::to_string(rc) + ":" + tex);
	}
	if (auto alpha = nif.GetAlphaProperty(shape)) put("alpha", vf::strf("%u/%u", (unsigned) alpha->flags, (unsigned) alpha->threshold));
	else put("alpha", "<none>");
	if (auto mat = nif.GetMaterialProperty(shape)) put("material", mat->name.get());

	// skin
	{
		std::vector<std::string> bones;
		nif.GetShapeBoneList(shape, bones);
		std::string bl;
		for (auto& b : bones) bl += b + "|";
		put("bones", std::to_string(bones.size()) + ":" + bl);
		std::vector<int> ids;
		nif.GetShapeBoneIDList(shape, ids);
		put("boneids.count", std::to_string(ids.size()));
		MatTransform g2s;
		if (nif.GetShapeTransformGlobalToSkin(shape, g2s)) put("skin.globalToSkin", sig(g2s));
		else put("skin.globalToSkin", "<none>");
		for (uint32_t bi = 0; bi < ids.size(); bi++) {
			std::string bp = "bone[" + std::to_string(bi) + "].";
			std::unordered_map<uint16_t, float> w;
			nif.GetShapeBoneWeights(shape, bi, w);
			std::vector<std::pair<uint16_t, uint32_t>> sorted;
			for (auto& kv : w) { uint32_t u; memcpy(&u, &kv.second, 4); sorted.push_back({kv.first, u}); }
			std::sort(sorted.begin(), sorted.end());
			uint64_t h = 1469598103934665603ull;
			for (auto& e : sorted) { h = vf::fnv(&e.first, 2, h); h = vf::fnv(&e.second, 4, h); }
			put(bp + "weights", vf::strf("%zu#%s", sorted.size(), vf::hex64(h).c_str()));
			MatTransform s2b;
			if (nif.GetShapeTransformSkinToBone(shape, bi, s2b)) {
				put(bp + "skinToBone", sig(s2b));
				BoundingSphere bs;
				if (nif.GetShapeBoneBounds(shape, bi, bs)) put(bp + "bounds", sig(bs));
			}
			else
				put(bp + "skinToBone", "<none>");
		}
		if (auto dis = hdr.GetBlock<BSDismemberSkinInstance>(shape->SkinInstanceRef())) {
			std::string s;
			for (auto& p : dis->partitions) s += vf::strf("%u:%u,", (unsigned) p.partID, (unsigned) p.flags);
			put("skin.dismember", s);
		}
		if (auto si = hdr.GetBlock<NiSkinInstance>(shape->SkinInstanceRef())) {
			if (auto sp = hdr.GetBlock(si->skinPartitionRef)) {
				std::string s = std::to_string(sp->numPartitions) + ":";
				for (auto& p : sp->partitions)
					s += vf::strf("%u/%u/%u/%u/%u/%s/%s,", (unsigned) p.numVertices, (unsigned) p.numTriangles, (unsigned) p.numBones, (unsigned) p.numStrips,
								  (unsigned) p.numWeightsPerVertex, sig(p.bones).c_str(), sig(p.vertexMap).c_str());
				put("skin.partitions", s);
			}
		}
	}
	// segments (FO4)
	{
		NifSegmentationInfo inf;
		std::vector<int> triParts;
		if (NifFile::GetShapeSegments(shape, inf, triParts)) {
			std::string s = inf.ssfFile + ";";
			for (auto& sg : inf.segs) {
				s += std::to_string(sg.partID) + "(";
				for (auto& ss : sg.subs) s += vf::strf("%d:%u:%u:%s,", ss.partID, ss.userSlotID, ss.material, sig(ss.extraData).c_str());
				s += ")";
			}
			put("segments", s + sig(triParts));
		}
	}
	// extra data attached to the shape
	{
		std::string s;
		for (auto& r : shape->extraDataRefs) {
			auto ed = hdr.GetBlock(r);
			if (ed) s += std::string(ed->GetBlockName()) + ":" + ed->name.get() + "|";
		}
		put("extradata", s);
	}
}

inline Fields shape_fields(NifFile& nif, NiShape* shape) {
	Fields f;
	shape_snapshot(nif, shape, "", f);
	return f;
}

// ---------- logical snapshot of a whole model ----------
inline Fields model_snapshot(NifFile& nif) {
	Fields out;
	auto put = [&](const std::string& k, const std::string& v) { out.emplace_back(k, v); };
	auto& hdr = nif.GetHeader();
	put("valid", nif.IsValid() ? "1" : "0");
	put("nblocks", std::to_string(hdr.GetNumBlocks()));
	{
		std::map<std::string, int> types;
		for (uint32_t i = 0; i < hdr.GetNumBlocks(); i++) types[hdr.GetBlockTypeStringById(i)]++;
		std::string s;
		for (auto& kv : types) s += kv.first + "x" + std::to_string(kv.second) + ",";
		put("blocktypes", s);
	}
	{
		auto root = nif.GetRootNode();
		put("root", root ? root->name.get() : std::string("<none>"));
	}
	{
		auto names = nif.GetShapeNames();
		std::sort(names.begin(), names.end());
		std::string s;
		for (auto& n : names) s += n + "|";
		put("shapenames", s);
	}
	// Nodes and shapes are keyed by name, not by position: a default save reorders blocks.  Entries
	// sharing a name are ranked by their content hash, so the labelling does not depend on block order.
	auto emit_sorted = [&](const char* what, std::vector<std::pair<std::string, Fields>>& items) {
		std::vector<std::tuple<std::string, uint64_t, size_t>> order;
		for (size_t i = 0; i < items.size(); i++) {
			Fields h; // ranking ignores the child count, which legitimately changes when something is attached
			for (auto& kv : items[i].second) if (kv.first != "children") h.push_back(kv);
			order.emplace_back(items[i].first, hash_fields(h), i);
		}
		std::sort(order.begin(), order.end());
		std::map<std::string, int> rank;
		for (auto& o : order) {
			int r = rank[std::get<0>(o)]++;
			std::string p = std::string(what) + "[" + std::get<0>(o) + "#" + std::to_string(r) + "].";
			for (auto& kv : items[std::get<2>(o)].second) out.emplace_back(p + kv.first, kv.second);
		}
	};
	{
		// parent of every block in one pass (first NiNode, in block order, listing it as a child)
		std::map<uint32_t, NiNode*> parent_of;
		for (auto node : nif.GetNodes())
			for (auto& c : node->childRefs)
				if (!c.IsEmpty() && !parent_of.count(c.index)) parent_of[c.index] = node;
		std::vector<std::pair<std::string, Fields>> items;
		for (uint32_t i = 0; i < hdr.GetNumBlocks(); i++) {
			auto node = hdr.GetBlock<NiNode>(i);
			if (!node) continue;
			Fields f;
			f.emplace_back("type", node->GetBlockName());
			f.emplace_back("name", node->name.get());
			f.emplace_back("transform", sig(node->GetTransformToParent()));
			f.emplace_back("flags", std::to_string(node->flags));
			auto it = parent_of.find(i);
			f.emplace_back("parent", it != parent_of.end() ? it->second->name.get() : std::string("<none>"));
			f.emplace_back("children", std::to_string(node->childRefs.GetSize()));
			std::string s;
			for (auto& r : node->extraDataRefs) {
				auto ed = hdr.GetBlock(r);
				if (ed) s += std::string(ed->GetBlockName()) + ":" + ed->name.get() + "|";
			}
			f.emplace_back("extradata", s);
			items.emplace_back(node->name.get(), std::move(f));
		}
		emit_sorted("node", items);
	}
	{
		std::vector<std::pair<std::string, Fields>> items;
		for (auto shape : nif.GetShapes()) {
			Fields f;
			shape_snapshot(nif, shape, "", f);
			items.emplace_back(shape->name.get(), std::move(f));
		}
		emit_sorted("shape", items);
	}
	// header strings actually referenced by blocks
	{
		std::set<std::string> used;
		for (auto& b : nif.blocks) {
			if (!b) continue;
			std::vector<NiStringRef*> refs;
			b->GetStringRefs(refs);
			for (auto r : refs) used.insert(r->get());
		}
		std::string s;
		for (auto& u : used) s += u + "\x1f";
		put("strings", vf::strf("%zu#%s", used.size(), vf::hex64(vf::fnv(s)).c_str()));
	}
	return out;
}

// ---------- cached geometry pointers ----------
// For every NiGeometry-style shape: the non-owning pointer to its data block must be null or the
// address of a block owned by the same model.  Returns the index (in GetShapes order) of the first
// shape whose cache points elsewhere, or -1.  No pointer is dereferenced.
inline int foreign_geometry_cache(NifFile& nif) {
	std::set<const void*> own;
	for (auto& b : nif.blocks) own.insert(b.get());
	int k = 0;
	for (auto shape : nif.GetShapes()) {
		if (dynamic_cast<NiGeometry*>(shape)) {
			const void* p = shape->GetGeomData();
			if (p && !own.count(p)) return k;
			// ... and it must be the very block the shape's data reference designates
			if (p && shape->DataRef() && !shape->DataRef()->IsEmpty()) {
				const void* designated = nif.GetHeader().GetBlock<NiObject>(shape->DataRef()->index);
				if (designated && designated != p) return k;
			}
		}
		k++;
	}
	return -1;
}

// ---------- payloads ----------
struct Payload {
	std::string type;
	std::string bytes;
	struct Ref {
		uint32_t off;	// offset of the 4-byte index inside bytes
		uint32_t value; // index written
		bool child;		// reported by GetChildRefs
		bool ptr;		// reported by GetPtrs
		bool bone;		// element of NiBoneContainer::boneRefs
	};
	std::vector<Ref> refs; // in write order
	struct Str {
		uint32_t off, len; // field extent inside bytes: 4 (index) or 4 + length (inline string)
		std::string str;   // the string denoted (index resolved in the file's own table)
	};
	std::vector<Str> strs; // in write order
	size_t enumerated_not_written = 0; // non-empty enumerated references that never passed the hook
};

// Writes every block of the model the way Save(raw) does (FinalizeData, then Put per block) and
// records reference / string fields.  This counts as one save of the object.
inline std::vector<Payload> payloads(NifFile& nif) {
	std::vector<Payload> out;
	nif.FinalizeData();
	auto& hdr = nif.GetHeader();
	const bool index_mode = hdr.GetVersion().File() >= V20_1_0_3;
	for (uint32_t i = 0; i < hdr.GetNumBlocks(); i++) {
		Payload p;
		p.type = hdr.GetBlockTypeStringById(i);
		NiObject* obj = nif.blocks[i].get();
		std::ostringstream os(std::ios::binary);
		std::vector<std::pair<void*, uint32_t>> seen_refs;
		struct SeenStr { NiStringRef* r; uint32_t off; };
		std::vector<SeenStr> seen_strs;
		e1::g_ctx.on_ref = [&](void* r, bool w) { if (w) seen_refs.push_back({r, (uint32_t) os.tellp()}); };
		e1::g_ctx.on_strref = [&](void* r, bool w) { if (w) seen_strs.push_back({(NiStringRef*) r, (uint32_t) os.tellp()}); };
		{
			NiOStream stream(&os, &hdr);
			obj->Put(stream);
		}
		e1::g_ctx.on_ref = nullptr;
		e1::g_ctx.on_strref = nullptr;
		p.bytes = os.str();
		std::set<NiRef*> childs, ptrs, bones;
		obj->GetChildRefs(childs);
		obj->GetPtrs(ptrs);
		if (auto bc = dynamic_cast<NiBoneContainer*>(obj)) bc->boneRefs.GetIndexPtrs(bones);
		std::set<void*> written;
		for (auto& sr : seen_refs) {
			auto r = (NiRef*) sr.first;
			written.insert(sr.first);
			uint32_t v = NIF_NPOS;
			if (sr.second + 4 <= p.bytes.size()) memcpy(&v, p.bytes.data() + sr.second, 4);
			p.refs.push_back({sr.second, v, childs.count(r) > 0, ptrs.count(r) > 0, bones.count(r) > 0});
		}
		for (auto r : childs) if (!r->IsEmpty() && !written.count(r)) p.enumerated_not_written++;
		for (auto r : ptrs) if (!r->IsEmpty() && !written.count(r)) p.enumerated_not_written++;
		for (auto& ss : seen_strs) {
			if (index_mode) {
				uint32_t idx = NIF_NPOS;
				if (ss.off + 4 <= p.bytes.size()) memcpy(&idx, p.bytes.data() + ss.off, 4);
				p.strs.push_back({ss.off, 4, hdr.GetStringById(idx)});
			}
			else {
				uint32_t len = 0;
				if (ss.off + 4 <= p.bytes.size()) memcpy(&len, p.bytes.data() + ss.off, 4);
				std::string s = ss.off + 4 + (size_t) len <= p.bytes.size() ? p.bytes.substr(ss.off + 4, len) : std::string();
				p.strs.push_back({ss.off, 4 + len, s});
			}
		}
		out.push_back(std::move(p));
	}
	return out;
}

// Canonical form of a payload for the masked compare: reference fields blanked, string fields cut
// out and replaced by the strings they denote.  skip_first_string drops the first string field's
// value (the block's own name) from the comparison.
struct Canon {
	std::string bytes;				 // payload without string fields, reference fields zeroed
	std::vector<uint32_t> ref_pos;	 // positions of reference fields inside `bytes`
	std::vector<uint32_t> str_pos;	 // positions where string fields were cut
	std::vector<std::string> strs;
};
inline Canon canon(const Payload& p, bool skip_first_string = false) {
	Canon c;
	struct Mark { uint32_t off, len; int kind; size_t idx; };
	std::vector<Mark> marks;
	for (size_t i = 0; i < p.refs.size(); i++) marks.push_back({p.refs[i].off, 4, 0, i});
	for (size_t i = 0; i < p.strs.size(); i++) marks.push_back({p.strs[i].off, p.strs[i].len, 1, i});
	std::sort(marks.begin(), marks.end(), [](const Mark& a, const Mark& b) { return a.off < b.off; });
	size_t pos = 0;
	for (auto& m : marks) {
		if (m.off < pos || m.off + (size_t) m.len > p.bytes.size()) continue; // overlapping / out of range: leave bytes as they are
		c.bytes.append(p.bytes, pos, m.off - pos);
		if (m.kind == 0) {
			c.ref_pos.push_back((uint32_t) c.bytes.size());
			c.bytes.append(4, '\0');
		}
		else {
			c.str_pos.push_back((uint32_t) c.bytes.size());
			c.strs.push_back(skip_first_string && m.idx == 0 ? std::string("<skipped>") : p.strs[m.idx].str);
		}
		pos = m.off + m.len;
	}
	c.bytes.append(p.bytes, pos, std::string::npos);
	return c;
}
// "" when the two payloads are equal apart from references; otherwise what differs.
inline std::string masked_diff(const Payload& a, const Payload& b, bool skip_first_string = false) {
	if (a.type != b.type) return "type " + a.type + " vs " + b.type;
	Canon ca = canon(a, skip_first_string), cb = canon(b, skip_first_string);
	if (ca.bytes != cb.bytes) return "bytes outside reference/string fields differ (" + first_diff(ca.bytes, cb.bytes) + ")";
	if (ca.ref_pos != cb.ref_pos) return vf::strf("reference fields differ in number or position (%zu vs %zu)", ca.ref_pos.size(), cb.ref_pos.size());
	if (ca.str_pos != cb.str_pos) return vf::strf("string fields differ in number or position (%zu vs %zu)", ca.str_pos.size(), cb.str_pos.size());
	for (size_t i = 0; i < ca.strs.size(); i++)
		if (ca.strs[i] != cb.strs[i]) return vf::strf("string field #%zu denotes '%s' vs '%s'", i, ca.strs[i].substr(0, 60).c_str(), cb.strs[i].substr(0, 60).c_str());
	return "";
}

// ---------- corpus ----------
struct Model {
	std::string name;  // "input/TestNifFile_X.nif", "expected/...", "api:SSE"
	std::string bytes; // file content (api models: the builder's raw save)
	std::vector<std::string> aliases; // other sample files with identical content
};

inline std::vector<std::string> list_nifs(const std::string& dir) {
	std::vector<std::string> r;
	std::string cmd = "ls " + dir + "/*.nif 2>/dev/null";
	FILE* p = popen(cmd.c_str(), "r");
	if (!p) return r;
	char buf[4096];
	while (fgets(buf, sizeof buf, p)) {
		std::string s = buf;
		while (!s.empty() && (s.back() == '\n' || s.back() == '\r')) s.pop_back();
		if (!s.empty()) r.push_back(s);
	}
	pclose(p);
	std::sort(r.begin(), r.end());
	return r;
}

// All sample files (input first, then expected), de-duplicated by content, sorted by (size, name).
inline std::vector<Model> sample_models(const std::string& repo, size_t* nfiles = nullptr) {
	std::vector<Model> ms;
	size_t n = 0;
	for (const char* sub : {"input", "expected"}) {
		for (auto& path : list_nifs(repo + "/tests/" + sub)) {
			n++;
			std::string bytes = vf::read_file(path);
			std::string nm = std::string(sub) + "/" + path.substr(path.rfind('/') + 1);
			bool dup = false;
			for (auto& m : ms)
				if (m.bytes == bytes) { m.aliases.push_back(nm); dup = true; break; }
			if (!dup) ms.push_back({nm, bytes, {}});
		}
	}
	std::stable_sort(ms.begin(), ms.end(), [](const Model& a, const Model& b) {
		if (a.bytes.size() != b.bytes.size()) return a.bytes.size() < b.bytes.size();
		return a.name < b.name;
	});
	if (nfiles) *nfiles = n;
	return ms;
}

// Small models built through the public API: Create + CreateShapeFromData (two shapes, so that
// "first shape" and "another shape" both exist), saved raw; the bytes are then used like a file.
inline std::vector<Model> api_models() {
	std::vector<Model> ms;
	struct V { const char* name; NiVersion ver; };
	std::vector<V> vers = {{"api:OB", NiVersion::getOB()}, {"api:SK", NiVersion::getSK()}, {"api:SSE", NiVersion::getSSE()}, {"api:FO4", NiVersion::getFO4()}};
	for (auto& v : vers) {
		NifFile nif;
		nif.Create(v.ver);
		std::vector<Vector3> verts = {{0.0f, 0.0f, 0.0f}, {1.0f, 0.0f, 0.25f}, {0.0f, 1.0f, 0.5f}, {1.0f, 1.0f, 0.75f}, {0.5f, 0.5f, 2.0f}};
		std::vector<Triangle> tris = {{0, 1, 2}, {1, 3, 2}, {2, 3, 4}};
		std::vector<Vector2> uvs = {{0.0f, 0.0f}, {1.0f, 0.0f}, {0.0f, 1.0f}, {1.0f, 1.0f}, {0.5f, 0.5f}};
		std::vector<Vector3> norms = {{0.0f, 0.0f, 1.0f}, {0.0f, 1.0f, 0.0f}, {1.0f, 0.0f, 0.0f}, {0.0f, 0.0f, 1.0f}, {0.0f, 1.0f, 0.0f}};
		nif.CreateShapeFromData("ApiShapeA", &verts, &tris, &uvs, &norms);
		std::vector<Vector3> verts2 = {{2.0f, 0.0f, 0.0f}, {3.0f, 0.0f, 0.0f}, {2.0f, 1.0f, 0.0f}, {3.0f, 1.0f, 1.0f}};
		std::vector<Triangle> tris2 = {{0, 1, 2}, {1, 3, 2}};
		std::vector<Vector2> uvs2 = {{0.25f, 0.0f}, {1.0f, 0.25f}, {0.0f, 0.75f}, {1.0f, 1.0f}};
		nif.CreateShapeFromData("ApiShapeB", &verts2, &tris2, &uvs2, nullptr);
		std::string bytes = s1::save(nif, true);
		if (bytes.empty()) vf::fatal(std::string("api model could not be saved: ") + v.name);
		NifFile probe;
		if (s1::load(probe, bytes) != 0) vf::fatal(std::string("api model does not reload: ") + v.name);
		ms.push_back({v.name, bytes, {}});
	}
	// geometry kinds no sample file contains: NiTriStrips, BSLODTriShape, BSSegmentedTriShape (their data blocks
	// are linked through the cached geometry pointer, like NiTriShape, but along separate code paths)
	struct K { const char* name; NiVersion ver; };
	std::vector<K> kinds = {{"api:OB+strips", NiVersion::getOB()}, {"api:FO3+strips+segmented", NiVersion::getFO3()}, {"api:SK+strips+lod", NiVersion::getSK()}};
	for (auto& kd : kinds) {
		NifFile nif;
		nif.Create(kd.ver);
		auto& hdr = nif.GetHeader();
		auto root = nif.GetRootNode();
		std::vector<Vector3> verts = {{0.0f, 0.0f, 0.0f}, {1.0f, 0.0f, 0.25f}, {0.0f, 1.0f, 0.5f}, {1.0f, 1.0f, 0.75f}, {0.5f, 0.5f, 2.0f}};
		std::vector<Vector2> uvs = {{0.0f, 0.0f}, {1.0f, 0.0f}, {0.0f, 1.0f}, {1.0f, 1.0f}, {0.5f, 0.5f}};
		std::vector<Triangle> tris = {{0, 1, 2}, {1, 3, 2}, {2, 3, 4}};
		{
			auto d = std::make_unique<NiTriStripsData>();
			d->Create(hdr.GetVersion(), &verts, nullptr, &uvs, nullptr);
			d->stripsInfo.hasPoints = true;
			d->stripsInfo.points = {{0, 1, 2, 3}, {2, 3, 4}};
			for (uint16_t len : {uint16_t(4), uint16_t(3)}) d->stripsInfo.stripLengths.push_back(len);
			d->numTriangles = 3;
			auto draw = d.get();
			uint32_t did = hdr.AddBlock(std::move(d));
			auto sh = std::make_unique<NiTriStrips>();
			sh->name.get() = "ApiStrips";
			sh->SetGeomData(draw);
			sh->DataRef()->index = did;
			root->childRefs.AddBlockRef(hdr.AddBlock(std::move(sh)));
		}
		std::string n = kd.name;
		if (n.find("segmented") != std::string::npos || n.find("lod") != std::string::npos) {
			auto d = std::make_unique<NiTriShapeData>();
			d->Create(hdr.GetVersion(), &verts, &tris, &uvs, nullptr);
			auto draw = d.get();
			uint32_t did = hdr.AddBlock(std::move(d));
			auto add_shape = [&](auto sh) {
				sh->name.get() = "ApiSpecial";
				sh->SetGeomData(draw);
				sh->DataRef()->index = did;
				root->childRefs.AddBlockRef(hdr.AddBlock(std::move(sh)));
			};
			if (n.find("segmented") != std::string::npos) add_shape(std::make_unique<BSSegmentedTriShape>());
			else add_shape(std::make_unique<BSLODTriShape>());
		}
		std::string bytes = s1::save(nif, true);
		if (bytes.empty()) vf::fatal(std::string("api model could not be saved: ") + kd.name);
		NifFile probe;
		if (s1::load(probe, bytes) != 0) vf::fatal(std::string("api model does not reload: ") + kd.name);
		ms.push_back({kd.name, bytes, {}});
	}
	// a shape whose shader carries a CHAIN of controllers: blocks three levels below the shape point back (target) to a
	// block one level below it
	for (auto& v : {V{"api:SSE+controller-chain", NiVersion::getSSE()}, V{"api:FO4+controller-chain", NiVersion::getFO4()}}) {
		NifFile nif;
		nif.Create(v.ver);
		auto& hdr = nif.GetHeader();
		std::vector<Vector3> verts = {{0.0f, 0.0f, 0.0f}, {1.0f, 0.0f, 0.25f}, {0.0f, 1.0f, 0.5f}, {1.0f, 1.0f, 0.75f}};
		std::vector<Triangle> tris = {{0, 1, 2}, {1, 3, 2}};
		std::vector<Vector2> uvs = {{0.0f, 0.0f}, {1.0f, 0.0f}, {0.0f, 1.0f}, {1.0f, 1.0f}};
		std::vector<Vector3> norms(4, Vector3(0.0f, 0.0f, 1.0f));
		nif.CreateShapeFromData("Filler", &verts, &tris, &uvs, &norms); // so that block numbers differ between models
		NiShape* shape = nif.CreateShapeFromData("ApiAnimated", &verts, &tris, &uvs, &norms);
		NiShader* shader = shape ? nif.GetShader(shape) : nullptr;
		if (!shader) vf::fatal(std::string("api model has no shader: ") + v.name);
		uint32_t shaderId = hdr.GetBlockID(shader);
		uint32_t nextId = NIF_NPOS;
		for (int k = 2; k >= 0; k--) { // built back to front: controller #0 -> #1 -> #2
			auto interp = std::make_unique<NiFloatInterpolator>();
			interp->floatValue = 0.25f * (float) (k + 1);
			uint32_t interpId = hdr.AddBlock(std::move(interp));
			auto ctl = std::make_unique<BSLightingShaderPropertyFloatController>();
			ctl->typeOfControlledVariable = 8 + (uint32_t) k;
			ctl->targetRef.index = shaderId;
			ctl->interpolatorRef.index = interpId;
			ctl->nextControllerRef.index = nextId;
			nextId = hdr.AddBlock(std::move(ctl));
		}
		shader->controllerRef.index = nextId;
		std::string bytes = s1::save(nif, true);
		if (bytes.empty()) vf::fatal(std::string("api model could not be saved: ") + v.name);
		NifFile probe;
		if (s1::load(probe, bytes) != 0) vf::fatal(std::string("api model does not reload: ") + v.name);
		ms.push_back({v.name, bytes, {}});
	}
	// a shader flagged "model space normals" in versions where a clone keeps normals and tangents (FO4, FO76) and in
	// one where it drops them (SSE; there the source is built without normals, as such meshes are)
	for (auto& v : {V{"api:FO4+model-space-normals", NiVersion::getFO4()}, V{"api:FO76+model-space-normals", NiVersion::getFO76()}, V{"api:SSE+model-space-normals", NiVersion::getSSE()}}) {
		NifFile nif;
		nif.Create(v.ver);
		std::vector<Vector3> verts = {{0.0f, 0.0f, 0.0f}, {1.0f, 0.0f, 0.25f}, {0.0f, 1.0f, 0.5f}, {1.0f, 1.0f, 0.75f}};
		std::vector<Triangle> tris = {{0, 1, 2}, {1, 3, 2}};
		std::vector<Vector2> uvs = {{0.0f, 0.0f}, {1.0f, 0.0f}, {0.0f, 1.0f}, {1.0f, 1.0f}};
		std::vector<Vector3> norms(4, Vector3(0.0f, 0.0f, 1.0f));
		const bool sse = std::string(v.name).find("SSE") != std::string::npos;
		NiShape* shape = nif.CreateShapeFromData("ApiModelSpace", &verts, &tris, &uvs, sse ? nullptr : &norms);
		NiShader* shader = shape ? nif.GetShader(shape) : nullptr;
		auto bss = dynamic_cast<BSShaderProperty*>(shader);
		if (!bss) vf::fatal(std::string("api model has no BSShaderProperty: ") + v.name);
		bss->shaderFlags1 |= 1u << 12;
		std::string bytes = s1::save(nif, true);
		if (bytes.empty()) vf::fatal(std::string("api model could not be saved: ") + v.name);
		NifFile probe;
		if (s1::load(probe, bytes) != 0) vf::fatal(std::string("api model does not reload: ") + v.name);
		ms.push_back({v.name, bytes, {}});
	}
	// hierarchical skeletons: a shape skinned to BoneA and to its child BoneB, and a model that already owns BoneA but
	// not BoneB (a clone into it has to create the descendant under the node that is already there)
	for (auto& v : {V{"api:SK+bone-chain", NiVersion::getSK()}, V{"api:SSE+bone-chain", NiVersion::getSSE()}, V{"api:SK+bone-root-only", NiVersion::getSK()}, V{"api:SSE+bone-root-only", NiVersion::getSSE()},
					V{"api:SK+bone-flat", NiVersion::getSK()}, V{"api:SSE+bone-flat", NiVersion::getSSE()}}) {
		const bool chain = std::string(v.name).find("bone-chain") != std::string::npos;
		const bool flat = std::string(v.name).find("bone-flat") != std::string::npos; // BoneB exists, but under the root and somewhere else
		NifFile nif;
		nif.Create(v.ver);
		auto& hdr = nif.GetHeader();
		std::vector<Vector3> verts = {{0.0f, 0.0f, 0.0f}, {1.0f, 0.0f, 0.25f}, {0.0f, 1.0f, 0.5f}, {1.0f, 1.0f, 0.75f}};
		std::vector<Triangle> tris = {{0, 1, 2}, {1, 3, 2}};
		std::vector<Vector2> uvs = {{0.0f, 0.0f}, {1.0f, 0.0f}, {0.0f, 1.0f}, {1.0f, 1.0f}};
		std::vector<Vector3> norms(4, Vector3(0.0f, 0.0f, 1.0f));
		MatTransform ta, tb;
		ta.translation = Vector3(0.0f, 0.0f, 1.0f);
		tb.translation = Vector3(0.0f, 0.5f, 0.0f);
		NiNode* boneA = nif.AddNode("BoneA", ta, nif.GetRootNode());
		MatTransform tflat;
		tflat.translation = Vector3(3.0f, -2.0f, 0.25f);
		tflat.scale = 1.5f;
		NiNode* boneB = flat ? nif.AddNode("BoneB", tflat, nif.GetRootNode()) : nullptr;
		if (chain) {
			// the child bone is a node of a DERIVED class (NiBone): a clone has to bring it along as what it is
			auto nb = std::make_unique<NiBone>();
			nb->name.get() = "BoneB";
			nb->SetTransformToParent(tb);
			uint32_t id = hdr.AddBlock(std::move(nb));
			boneA->childRefs.AddBlockRef(id);
			boneB = hdr.GetBlock<NiNode>(id);
		}
		NiShape* shape = nif.CreateShapeFromData(chain ? "ApiSkinned" : "ApiPlain", &verts, &tris, &uvs, &norms);
		if (!shape) vf::fatal(std::string("api model has no shape: ") + v.name);
		nif.CreateSkinning(shape);
		std::vector<int> ids = {(int) hdr.GetBlockID(boneA)};
		if (boneB) ids.push_back((int) hdr.GetBlockID(boneB));
		nif.SetShapeBoneIDList(shape, ids);
		for (uint32_t b = 0; b < ids.size(); b++) {
			std::unordered_map<uint16_t, float> bw;
			for (uint16_t i = 0; i < 4; i++) bw[i] = ids.size() == 1 ? 1.0f : 0.5f;
			nif.SetShapeBoneWeights(shape->name.get(), b, bw);
		}
		if (dynamic_cast<BSTriShape*>(shape))
			for (uint16_t i = 0; i < 4; i++) {
				std::vector<uint8_t> bi = {0};
				std::vector<float> bw = {1.0f};
				if (ids.size() == 2) { bi = {0, 1}; bw = {0.5f, 0.5f}; }
				nif.SetShapeVertWeights(shape->name.get(), i, bi, bw);
			}
		if (auto inst = hdr.GetBlock<NiSkinInstance>(shape->SkinInstanceRef()))
			if (auto sd = hdr.GetBlock(inst->dataRef))
				for (auto& bone : sd->bones)
					std::stable_sort(bone.vertexWeights.begin(), bone.vertexWeights.end(), [](const SkinWeight& a, const SkinWeight& b2) { return a.index < b2.index; });
		nif.UpdateSkinPartitions(shape);
		std::string bytes = s1::save(nif, true);
		if (bytes.empty()) vf::fatal(std::string("api model could not be saved: ") + v.name);
		NifFile probe;
		if (s1::load(probe, bytes) != 0) vf::fatal(std::string("api model does not reload: ") + v.name);
		ms.push_back({v.name, bytes, {}});
	}
	return ms;
}

inline const Model* find_model(const std::vector<Model>& ms, const std::string& name) {
	for (auto& m : ms) {
		if (m.name == name) return &m;
		for (auto& a : m.aliases) if (a == name) return &m;
	}
	return nullptr;
}

inline std::string version_key(const NiVersion& v) { return vf::strf("%08x/%u/%u", (unsigned) v.File(), v.User(), v.Stream()); }

} // namespace snap
