// C17 — segment / partition labels round-trip and always partition the triangles.
//
// Part "segments": BSSubIndexTriShape (FO4; thorough also FO76) built with CreateShapeFromData on a fixed
// 6-vertex mesh whose first T pool triangles are used.  A state is (segmentation info, label list):
//   info    1..3 segments x 0..2 sub-segments each (39 shapes); the part ids are a permutation of 0..n-1
//           over the n declared slots (segment, its sub-segments, next segment, ...): every permutation
//           for n <= full_n, and identity / reversed / rotated by +1 / rotated by -1 for larger n
//   labels  every list in (declared ids U {-1})^T
// Operation sequence per state, each result compared with the reference model written from the property
// statement: SetShapeSegments -> GetShapeSegments; Save(raw)+Load -> GetShapeSegments; and for every single
// vertex v: rebuild, SetShapeSegments, DeleteVertsForShape({v}) -> GetShapeSegments; Save+Load -> Get.
//
// Part "partitions": NiTriShape (SK; thorough also FO3) / BSTriShape (SSE) made skinned with CreateSkinning,
// two bone nodes and weights; 1..3 partitions whose body-part ids are every arrangement of {40,41,42};
// labels every list in ({0..n-1} U {-1})^T; the same operation sequence with SetShapePartitions /
// GetShapePartitions, once without and once with UpdateSkinPartitions before saving.
//
// Reference model (from the statement, nothing else):
//   * documented renumbering (comment in SetSegmentation: "Renumber partitions so that the partition IDs are
//     increasing"): the k-th declared slot gets id k; a triangle labelled with the slot's old id must come
//     back labelled k.  For partitions no renumbering is documented except that DeleteVertsForShape removes
//     partitions that became empty; labels are therefore compared through the body-part id they select.
//   * a triangle given -1 may come back as -1 or as any declared (or, for partitions, appended) part.
//   * ranges: segment ranges tile [0,T) in declaration order; the sub-segment ranges of a segment are
//     contiguous, ordered and inside the segment's range; so every triangle lies in exactly one segment
//     range and at most one sub-segment range.
//   * the stored triangles are the previous ones (after a deletion: the survivors, re-indexed) as a
//     multiset.  Partitions: triangles are compared up to cyclic rotation of their three indices, because
//     the skin partition code canonicalises triangles by rotation and SSE reloads shape triangles from there.
//   * triangles are identified by value (the mesh has pairwise distinct triangles), which is how a label is
//     followed through the reordering.
#include "common.hpp"
#include "s1.hpp"

#include <algorithm>
#include <array>
#include <map>
#include <unordered_set>

using namespace nifly;
using vf::J;
using vf::Stats;

static vf::Args A;

static const int NV = 6;
static const Triangle POOL[5] = {Triangle(0, 1, 2), Triangle(2, 1, 3), Triangle(2, 3, 4), Triangle(4, 3, 5), Triangle(0, 2, 4)};

struct VerDef {
	const char* name;
	NiVersion (*get)();
};
static const VerDef SEG_VERS[] = {{"FO4", &NiVersion::getFO4}, {"FO76", &NiVersion::getFO76}};
static const VerDef PART_VERS[] = {{"SK", &NiVersion::getSK}, {"SSE", &NiVersion::getSSE}, {"FO3", &NiVersion::getFO3}};

// ---------------------------------------------------------------- state
struct State {
	std::string kind; // segments | partitions
	std::string ver;
	std::vector<int> subs; // segments: number of sub-segments per segment; partitions: unused
	std::vector<int> ids;  // segments: part id of each slot in declaration order; partitions: body-part id per partition
	int T = 0;
	std::vector<int> labels;
	bool update = false; // partitions: UpdateSkinPartitions before saving
};

static J state_json(const State& s) {
	J j = J::obj();
	j.set("kind", s.kind).set("version", s.ver);
	if (s.kind == "segments") j.set("subs", J::arr_of(s.subs));
	j.set("ids", J::arr_of(s.ids)).set("T", s.T).set("labels", J::arr_of(s.labels));
	if (s.kind == "partitions") j.set("update", s.update);
	return j;
}
static std::vector<int> ints(const J& a) {
	std::vector<int> v;
	for (size_t i = 0; i < a.size(); i++) v.push_back((int) a[i].i64());
	return v;
}
static State state_from_json(const J& j) {
	State s;
	s.kind = j["kind"].str();
	s.ver = j["version"].str();
	s.subs = ints(j["subs"]);
	s.ids = ints(j["ids"]);
	s.T = (int) j["T"].i64();
	s.labels = ints(j["labels"]);
	s.update = j["update"].b;
	return s;
}
static uint64_t state_hash(const State& s) {
	std::string k = s.kind + "/" + s.ver + "/";
	for (int x : s.subs) k += std::to_string(x) + ",";
	k += "/";
	for (int x : s.ids) k += std::to_string(x) + ",";
	k += "/" + std::to_string(s.T) + "/";
	for (int x : s.labels) k += std::to_string(x) + ",";
	return vf::fnv(k);
}

static NiVersion version_of(const std::string& n) {
	for (auto& v : SEG_VERS) if (n == v.name) return v.get();
	for (auto& v : PART_VERS) if (n == v.name) return v.get();
	vf::fatal("unknown version " + n);
}

// ---------------------------------------------------------------- mesh
static std::vector<Vector3> mesh_verts() {
	std::vector<Vector3> v;
	for (int i = 0; i < NV; i++) v.push_back(Vector3((float) i, (float) ((i * i) % 5), (float) (i % 3) * 0.5f));
	return v;
}
static std::vector<Vector2> mesh_uvs() {
	std::vector<Vector2> v;
	for (int i = 0; i < NV; i++) v.push_back(Vector2((float) i / 8.0f, (float) ((i * 3) % 7) / 8.0f));
	return v;
}
static std::vector<Triangle> mesh_tris(int T) { return std::vector<Triangle>(POOL, POOL + T); }

typedef std::array<uint16_t, 3> Tri3;
static Tri3 t3(const Triangle& t) { return Tri3{t.p1, t.p2, t.p3}; }
static Tri3 rot3(Tri3 t) { // smallest index first, orientation kept
	if (t[1] <= t[0] && t[1] <= t[2]) return Tri3{t[1], t[2], t[0]};
	if (t[2] <= t[0] && t[2] <= t[1]) return Tri3{t[2], t[0], t[1]};
	return t;
}

// what the model knows about the triangles that must currently be stored
struct Expect {
	std::vector<Tri3> tris; // surviving original triangles, in current vertex numbering
	std::vector<int> want;	// required label (new numbering / body-part id); -1 = any
};

static Expect expect_after(const std::vector<Triangle>& orig, const std::vector<int>& want, int deleted_vertex) {
	Expect e;
	for (size_t i = 0; i < orig.size(); i++) {
		Tri3 t = t3(orig[i]);
		if (deleted_vertex >= 0) {
			if (t[0] == deleted_vertex || t[1] == deleted_vertex || t[2] == deleted_vertex) continue;
			for (auto& p : t) if (p > deleted_vertex) p--;
		}
		e.tris.push_back(t);
		e.want.push_back(want[i]);
	}
	return e;
}

struct Ctx {
	Stats& st;
	const State& s;
	bool failed = false;
	// segments: some triangle carries the id of a segment that has sub-segments (or is unassigned while the
	// first segment has sub-segments).  Such inputs get their own violation keys so that they cannot hide a
	// defect that shows on inputs without this feature.
	bool parent_labelled = false;
	int del = -1; // vertex deleted in the operation sequence being judged (-1: none)
};

// Files whose reload was executed, checked against the model and found to reproduce every observable of the
// object that was saved (same triangles, same GetShape* output, same range tables).  Loading is deterministic,
// so another state that produces the same bytes from an object that passed its own in-memory check needs no
// second Load: the reloaded object would again equal the saved one.  (NifFile::Load costs > 1 ms under ASan
// because the header parser compiles a std::regex per call.)
static std::unordered_set<std::string> g_faithful;
static std::string bytes_key(const std::string& bytes) {
	uint64_t a = vf::fnv(bytes), b = vf::fnv(bytes, 0x9e3779b97f4a7c15ull);
	std::string k((const char*) &a, 8);
	k.append((const char*) &b, 8);
	k += std::to_string(bytes.size());
	return k;
}
static void viol(Ctx& x, const std::string& when, const std::string& what, const std::string& msg) {
	x.failed = true;
	x.st.violation(x.s.ver + ":" + x.s.kind + ":" + when + ":" + what + (x.parent_labelled ? ":parent-labelled-input" : ""),
				   x.s.ver + " " + x.s.kind + " " + when + (x.del >= 0 ? vf::strf(" (vertex %d deleted)", x.del) : std::string()) + ": " + msg, state_json(x.s));
}

static std::string tris_str(const std::vector<Tri3>& v) {
	std::string o;
	for (auto& t : v) o += vf::strf("(%u,%u,%u)", t[0], t[1], t[2]);
	return o;
}

// ---------------------------------------------------------------- segments: checks
static bool check_segments_(Ctx& x, NiShape* shape, const Expect& e, const std::string& when);
// returns whether this call found everything in order; x.failed accumulates over the whole state
static bool check_segments(Ctx& x, NiShape* shape, const Expect& e, const std::string& when) {
	bool before = x.failed;
	x.failed = false;
	check_segments_(x, shape, e, when);
	bool ok = !x.failed;
	x.failed = before || !ok;
	return ok;
}
static bool check_segments_(Ctx& x, NiShape* shape, const Expect& e, const std::string& when) {
	auto* b = dynamic_cast<BSSubIndexTriShape*>(shape);
	if (!b) { viol(x, when, "not-bssubindextrishape", "shape is not a BSSubIndexTriShape"); return false; }
	const State& s = x.s;
	const size_t nseg = s.subs.size();
	int nslots = 0;
	for (int k : s.subs) nslots += 1 + k;

	// stored triangles = expected survivors as a multiset
	std::vector<Triangle> cur;
	shape->GetTriangles(cur);
	std::vector<Tri3> a, c;
	for (auto& t : cur) a.push_back(t3(t));
	c = e.tris;
	std::vector<Tri3> as = a, cs = c;
	std::sort(as.begin(), as.end());
	std::sort(cs.begin(), cs.end());
	if (as != cs) {
		viol(x, when, "triangles-not-permutation", "stored triangles " + tris_str(a) + " are not a permutation of the expected " + tris_str(c));
		return false;
	}
	const size_t T = a.size();

	NifSegmentationInfo inf;
	std::vector<int> parts;
	x.st.add("transitions");
	x.st.add("ops_get_segments");
	if (!NifFile::GetShapeSegments(shape, inf, parts)) { viol(x, when, "get-fails", "GetShapeSegments returns false"); return false; }
	if (parts.size() != T) { viol(x, when, "label-count", vf::strf("%zu labels returned for %zu triangles", parts.size(), T)); return false; }
	// info: same shape, ids renumbered in declaration order
	bool shape_ok = inf.segs.size() == nseg;
	for (size_t i = 0; shape_ok && i < nseg; i++) shape_ok = (int) inf.segs[i].subs.size() == s.subs[i];
	if (!shape_ok) { viol(x, when, "info-shape", "segment / sub-segment counts returned differ from those set"); return false; }
	{
		int k = 0;
		bool ok = true;
		for (size_t i = 0; i < nseg; i++) {
			ok &= inf.segs[i].partID == k++;
			for (auto& sub : inf.segs[i].subs) ok &= sub.partID == k++;
		}
		if (!ok) viol(x, when, "ids-not-renumbered", "returned part ids are not 0..n-1 in declaration order");
	}
	// labels
	for (size_t p = 0; p < T; p++) {
		size_t i = 0;
		while (i < e.tris.size() && e.tris[i] != a[p]) i++;
		int want = e.want[i];
		if (want >= 0 && parts[p] != want) {
			viol(x, when, "label-changed",
				 vf::strf("triangle (%u,%u,%u) was labelled with slot %d but GetShapeSegments reports %d (stored at position %zu of %zu)", a[p][0], a[p][1], a[p][2], want,
						  parts[p], p, T));
			break;
		}
		if (want < 0 && (parts[p] < -1 || parts[p] >= nslots)) {
			viol(x, when, "unassigned-label-out-of-range", vf::strf("unassigned triangle comes back with label %d, declared slots are 0..%d", parts[p], nslots - 1));
			break;
		}
	}
	// ranges, read from the block itself
	auto& sg = b->segmentation;
	if (sg.numPrimitives != T) viol(x, when, "range-sum", vf::strf("segmentation.numPrimitives = %u, triangle count = %zu", sg.numPrimitives, T));
	if (sg.segments.size() != nseg || sg.numSegments != nseg) { viol(x, when, "segment-count", vf::strf("%zu segments stored (numSegments %u), %zu declared", sg.segments.size(), sg.numSegments, nseg)); return false; }
	uint64_t curpos = 0;
	std::vector<int> cover(T, 0), subcover(T, 0);
	for (size_t i = 0; i < nseg; i++) {
		auto& seg = sg.segments[i];
		if (seg.startIndex != curpos * 3) {
			viol(x, when, "range-not-contiguous", vf::strf("segment %zu starts at index %u, previous ranges end at %llu", i, seg.startIndex, (unsigned long long) curpos * 3));
			break;
		}
		for (uint64_t t = curpos; t < curpos + seg.numPrimitives && t < T; t++) cover[t]++;
		uint64_t segend = curpos + seg.numPrimitives;
		if (seg.subSegments.size() != (size_t) s.subs[i] || seg.numSubSegments != (uint32_t) s.subs[i])
			viol(x, when, "subsegment-count", vf::strf("segment %zu stores %zu sub-segments (numSubSegments %u), %d declared", i, seg.subSegments.size(), seg.numSubSegments, s.subs[i]));
		uint64_t subpos = 0;
		bool first = true;
		for (size_t j = 0; j < seg.subSegments.size(); j++) {
			auto& sub = seg.subSegments[j];
			if (sub.startIndex % 3 != 0) { viol(x, when, "subrange-misaligned", vf::strf("segment %zu sub %zu starts at index %u", i, j, sub.startIndex)); break; }
			uint64_t st0 = sub.startIndex / 3;
			if (first ? st0 < curpos : st0 != subpos) {
				viol(x, when, first ? "subrange-outside-segment" : "subrange-not-contiguous",
					 vf::strf("segment %zu [%llu,%llu) sub %zu starts at triangle %llu, expected %s %llu", i, (unsigned long long) curpos, (unsigned long long) segend, j,
							  (unsigned long long) st0, first ? ">=" : "==", (unsigned long long) (first ? curpos : subpos)));
				break;
			}
			first = false;
			subpos = st0 + sub.numPrimitives;
			if (subpos > segend) {
				viol(x, when, "subrange-outside-segment",
					 vf::strf("segment %zu [%llu,%llu) sub %zu ends at triangle %llu", i, (unsigned long long) curpos, (unsigned long long) segend, j, (unsigned long long) subpos));
				break;
			}
			for (uint64_t t = st0; t < subpos && t < T; t++) subcover[t]++;
		}
		curpos = segend;
	}
	if (!x.failed && curpos != T) viol(x, when, "range-sum", vf::strf("segment ranges end at triangle %llu, triangle count = %zu", (unsigned long long) curpos, T));
	for (size_t t = 0; t < T && !x.failed; t++) {
		if (cover[t] != 1) viol(x, when, "triangle-not-in-exactly-one-segment", vf::strf("triangle %zu lies in %d segment ranges", t, cover[t]));
		else if (subcover[t] > 1) viol(x, when, "triangle-in-several-subsegments", vf::strf("triangle %zu lies in %d sub-segment ranges", t, subcover[t]));
	}
	return !x.failed;
}

static std::string obs_segments(NiShape* shape) {
	auto* b = dynamic_cast<BSSubIndexTriShape*>(shape);
	if (!b) return "?";
	std::string o;
	std::vector<Triangle> cur;
	shape->GetTriangles(cur);
	for (auto& t : cur) o += vf::strf("%u,%u,%u;", t.p1, t.p2, t.p3);
	NifSegmentationInfo inf;
	std::vector<int> parts;
	NifFile::GetShapeSegments(shape, inf, parts);
	o += "|";
	for (int p : parts) o += std::to_string(p) + ",";
	o += "|" + inf.ssfFile + "|";
	for (auto& sg : inf.segs) {
		o += vf::strf("S%d:", sg.partID);
		for (auto& sub : sg.subs) o += vf::strf("s%d/%u/%u/%zu,", sub.partID, sub.userSlotID, sub.material, sub.extraData.size());
	}
	auto& sg = b->segmentation;
	o += vf::strf("|%u/%u/%u|", sg.numPrimitives, sg.numSegments, sg.numTotalSegments);
	for (auto& seg : sg.segments) {
		o += vf::strf("[%u+%u p%u n%u:", seg.startIndex, seg.numPrimitives, seg.parentArrayIndex, seg.numSubSegments);
		for (auto& sub : seg.subSegments) o += vf::strf("(%u+%u a%u)", sub.startIndex, sub.numPrimitives, sub.arrayIndex);
		o += "]";
	}
	return o;
}

static NiShape* build_seg_shape(NifFile& nif, const State& s, const std::vector<Triangle>& tris) {
	static const std::vector<Vector3> verts = mesh_verts();
	static const std::vector<Vector2> uvs = mesh_uvs();
	nif.Create(version_of(s.ver));
	return nif.CreateShapeFromData("S", &verts, &tris, &uvs, nullptr);
}

static NifSegmentationInfo make_info(const State& s) {
	NifSegmentationInfo inf;
	inf.ssfFile = "Meshes\\test.ssf";
	size_t k = 0;
	for (int nsub : s.subs) {
		NifSegmentInfo seg;
		seg.partID = s.ids[k++];
		for (int j = 0; j < nsub; j++) {
			NifSubSegmentInfo sub;
			sub.partID = s.ids[k++];
			sub.userSlotID = 30 + (uint32_t) k;
			sub.material = 0x1000u + (uint32_t) k;
			seg.subs.push_back(sub);
		}
		inf.segs.push_back(seg);
	}
	return inf;
}

static NiShape* load_into(const std::string& bytes, NifFile& dst, Ctx& x, const std::string& when) {
	x.st.add("transitions");
	x.st.add("ops_save_load");
	int rc = s1::load(dst, bytes);
	if (rc != 0) { viol(x, when, "reload-fails", vf::strf("Load of the saved file returns %d", rc)); return nullptr; }
	auto shapes = dst.GetShapes();
	if (shapes.size() != 1) { viol(x, when, "reload-shape-count", vf::strf("reloaded file has %zu shapes", shapes.size())); return nullptr; }
	return shapes[0];
}

// Save(raw)+Load and the model check on the reloaded shape (skipped when these exact bytes are already known to
// reload faithfully, see g_faithful)
static void reload_check_segments(Ctx& x, NifFile& nif, NiShape* shape, const Expect& e, const std::string& when) {
	std::string bytes = s1::save(nif, true);
	if (bytes.empty()) { viol(x, when, "save-fails", "Save(raw) reports an error"); return; }
	std::string key = bytes_key(bytes);
	if (g_faithful.count(key)) { x.st.add("reloads_answered_by_identical_file"); return; }
	NifFile re;
	NiShape* rs = load_into(bytes, re, x, when);
	if (!rs) return;
	if (check_segments(x, rs, e, when) && obs_segments(rs) == obs_segments(shape)) g_faithful.insert(key);
}

// set [-> delete vertex] -> get -> save+load -> get, for del = -1 (no deletion) and every vertex
static void full_sequence_segments(Ctx& x, const State& s, const NifSegmentationInfo& inf, const std::vector<Triangle>& tris, const std::vector<int>& want) {
	Stats& st = x.st;
	for (int del = -1; del < NV; del++) {
		x.del = del;
		NifFile nif;
		NiShape* shape = build_seg_shape(nif, s, tris);
		if (!shape) { viol(x, "build", "create-returns-null", "CreateShapeFromData returned nullptr"); return; }
		st.add("ops_set_segments");
		if (del < 0) st.add("transitions");
		NifFile::SetShapeSegments(shape, inf, s.labels);
		std::string when = "after-set";
		if (del >= 0) {
			st.add("transitions");
			st.add("ops_delete_vertex");
			nif.DeleteVertsForShape(shape, std::vector<uint16_t>{(uint16_t) del});
			when = "after-delete";
		}
		Expect e = expect_after(tris, want, del);
		if (check_segments(x, shape, e, when)) reload_check_segments(x, nif, shape, e, when + "+reload");
		// a failure does not end the state: every deletion starts from a fresh build and is judged on its own
	}
}

static void run_segments_state(const State& s, Stats& st) {
	Ctx x{st, s};
	vf::set_inflight(state_json(s).dump());
	st.add("evaluations");
	const std::vector<Triangle> tris = mesh_tris(s.T);
	// model: slot index of each declared id
	int nslots = (int) s.ids.size();
	std::vector<int> slot_of(nslots, -1);
	bool identity = true;
	for (int k = 0; k < nslots; k++) { slot_of[s.ids[k]] = k; identity &= s.ids[k] == k; }
	std::vector<int> want(s.T);
	for (int i = 0; i < s.T; i++) want[i] = s.labels[i] < 0 ? -1 : slot_of[s.labels[i]];
	{
		std::vector<int> seg_slot_subs(nslots, 0); // for segment slots: number of sub-segments
		int k = 0;
		for (int nsub : s.subs) { seg_slot_subs[k] = nsub; k += 1 + nsub; }
		for (int i = 0; i < s.T; i++) if (seg_slot_subs[want[i] < 0 ? 0 : want[i]] > 0) x.parent_labelled = true;
	}
	const NifSegmentationInfo inf = make_info(s);

	if (!identity) {
		// Symmetry reduction.  SetShapeSegments translates the caller's ids to slot numbers first; if the file
		// produced from (permuted ids, labels) is byte-identical to the one produced from (identity ids, the
		// same labels translated by the model), every later operation would repeat what the identity-numbered
		// state - which is enumerated too - already executes.  Only set -> get is then checked here.
		NifFile na, nb;
		NiShape* sa = build_seg_shape(na, s, tris);
		NiShape* sb = build_seg_shape(nb, s, tris);
		if (!sa || !sb) { viol(x, "build", "create-returns-null", "CreateShapeFromData returned nullptr"); return; }
		st.add("ops_set_segments", 2);
		st.add("transitions");
		NifFile::SetShapeSegments(sa, inf, s.labels);
		State si = s;
		for (int k = 0; k < nslots; k++) si.ids[k] = k;
		si.labels = want;
		NifFile::SetShapeSegments(sb, make_info(si), si.labels);
		Expect e = expect_after(tris, want, -1);
		bool ok = check_segments(x, sa, e, "after-set");
		if (!ok) { st.distinct("outcomes", s.ver + ":segments:FAIL"); return; }
		std::string ba = s1::save(na, true), bb = s1::save(nb, true);
		if (!ba.empty() && ba == bb) {
			st.add("states_reduced_to_identity_numbering");
			st.distinct("outcomes", s.ver + ":segments:ok(reduced)");
			return;
		}
		st.add("states_not_reducible_to_identity_numbering");
	}
	full_sequence_segments(x, s, inf, tris, want);
	st.distinct("outcomes", vf::strf("%s:segments:%s", s.ver.c_str(), x.failed ? "FAIL" : "ok"));
}

// ---------------------------------------------------------------- partitions
static NiShape* build_skinned(NifFile& nif, const State& s, const std::vector<Triangle>& tris) {
	static const std::vector<Vector3> verts = mesh_verts();
	static const std::vector<Vector2> uvs = mesh_uvs();
	nif.Create(version_of(s.ver));
	NiShape* shape = nif.CreateShapeFromData("S", &verts, &tris, &uvs, nullptr);
	if (!shape) return nullptr;
	NiNode* b0 = nif.AddNode("Bone0", MatTransform());
	NiNode* b1 = nif.AddNode("Bone1", MatTransform());
	nif.CreateSkinning(shape);
	std::vector<int> boneIDs = {(int) nif.GetBlockID(b0), (int) nif.GetBlockID(b1)};
	nif.SetShapeBoneIDList(shape, boneIDs);
	// vertex i: bone i%2 with weight 1, every third vertex shared 50/50
	std::unordered_map<uint16_t, float> w0, w1;
	for (int i = 0; i < NV; i++) {
		float a = (i % 3 == 2) ? 0.5f : (i % 2 == 0 ? 1.0f : 0.0f);
		float b = 1.0f - a;
		if (a > 0) w0[(uint16_t) i] = a;
		if (b > 0) w1[(uint16_t) i] = b;
		std::vector<uint8_t> ids;
		std::vector<float> ws;
		if (a > 0) { ids.push_back(0); ws.push_back(a); }
		if (b > 0) { ids.push_back(1); ws.push_back(b); }
		nif.SetShapeVertWeights("S", (uint16_t) i, ids, ws);
	}
	nif.SetShapeBoneWeights("S", 0, w0);
	nif.SetShapeBoneWeights("S", 1, w1);
	return shape;
}

static bool check_partitions_(Ctx& x, NifFile& nif, NiShape* shape, const Expect& e, const std::string& when);
static bool check_partitions(Ctx& x, NifFile& nif, NiShape* shape, const Expect& e, const std::string& when) {
	bool before = x.failed;
	x.failed = false;
	check_partitions_(x, nif, shape, e, when);
	bool ok = !x.failed;
	x.failed = before || !ok;
	return ok;
}
static bool check_partitions_(Ctx& x, NifFile& nif, NiShape* shape, const Expect& e, const std::string& when) {
	std::vector<Triangle> cur;
	shape->GetTriangles(cur);
	std::vector<Tri3> a, as, cs;
	for (auto& t : cur) a.push_back(rot3(t3(t)));
	for (auto& t : e.tris) cs.push_back(rot3(t));
	as = a;
	std::sort(as.begin(), as.end());
	std::vector<Tri3> css = cs;
	std::sort(css.begin(), css.end());
	if (as != css) {
		viol(x, when, "triangles-not-permutation", "stored triangles " + tris_str(a) + " are not a permutation (up to rotation) of the expected " + tris_str(cs));
		return false;
	}
	const size_t T = a.size();
	NiVector<BSDismemberSkinInstance::PartitionInfo> info;
	std::vector<int> parts;
	x.st.add("transitions");
	x.st.add("ops_get_partitions");
	if (!nif.GetShapePartitions(shape, info, parts)) { viol(x, when, "get-fails", "GetShapePartitions returns false"); return false; }
	if (parts.size() != T) { viol(x, when, "label-count", vf::strf("%zu labels returned for %zu triangles", parts.size(), T)); return false; }
	for (size_t p = 0; p < T; p++) {
		size_t i = 0;
		while (i < cs.size() && cs[i] != a[p]) i++;
		int want = e.want[i]; // body-part id, -1 = any
		int got = parts[p];
		if (want < 0) {
			if (got < -1 || got >= (int) info.size()) { viol(x, when, "unassigned-label-out-of-range", vf::strf("unassigned triangle comes back with label %d of %u partitions", got, info.size())); break; }
			continue;
		}
		if (got < 0 || got >= (int) info.size()) {
			viol(x, when, "label-out-of-range", vf::strf("triangle (%u,%u,%u) comes back with label %d, %u partitions reported", a[p][0], a[p][1], a[p][2], got, info.size()));
			break;
		}
		if (info[(uint32_t) got].partID != want) {
			viol(x, when, "label-changed",
				 vf::strf("triangle (%u,%u,%u) was assigned to body part %d but is reported in partition %d with body part %u", a[p][0], a[p][1], a[p][2], want, got,
						  info[(uint32_t) got].partID));
			break;
		}
	}
	// the partition blocks themselves: every triangle in exactly one of them
	auto skinInst = nif.GetHeader().GetBlock<NiSkinInstance>(shape->SkinInstanceRef());
	auto skinPart = skinInst ? nif.GetHeader().GetBlock(skinInst->skinPartitionRef) : nullptr;
	if (!skinPart) { viol(x, when, "no-skin-partition", "shape has no NiSkinPartition"); return false; }
	if (skinPart->numPartitions != skinPart->partitions.size()) viol(x, when, "partition-count-field", vf::strf("numPartitions %u, %zu blocks", skinPart->numPartitions, skinPart->partitions.size()));
	if (info.size() != skinPart->partitions.size()) viol(x, when, "partition-info-count", vf::strf("%u partition infos for %zu partitions", info.size(), skinPart->partitions.size()));
	size_t sum = 0;
	bool have_all = true;
	std::vector<Tri3> un;
	for (auto& p : skinPart->partitions) {
		sum += p.numTriangles;
		if (p.numTriangles > 0 && p.trueTriangles.size() != p.numTriangles) have_all = false;
		for (auto& t : p.trueTriangles) un.push_back(rot3(t3(t)));
	}
	if (sum != T) viol(x, when, "range-sum", vf::strf("partitions hold %zu triangles in total, the shape has %zu", sum, T));
	else if (have_all) {
		std::sort(un.begin(), un.end());
		if (un != as) viol(x, when, "triangle-not-in-exactly-one-partition", "union of the partitions' triangles " + tris_str(un) + " differs from the shape's " + tris_str(as));
	}
	return !x.failed;
}

// order-independent observables of a skinned shape: which body part each triangle belongs to, and the sizes
static std::string obs_partitions(NifFile& nif, NiShape* shape) {
	std::vector<Triangle> cur;
	shape->GetTriangles(cur);
	NiVector<BSDismemberSkinInstance::PartitionInfo> info;
	std::vector<int> parts;
	if (!nif.GetShapePartitions(shape, info, parts) || parts.size() != cur.size()) return "?";
	std::vector<std::string> items;
	for (size_t i = 0; i < cur.size(); i++) {
		Tri3 t = rot3(t3(cur[i]));
		int p = parts[i];
		items.push_back(vf::strf("%u,%u,%u>%d;", t[0], t[1], t[2], p >= 0 && p < (int) info.size() ? (int) info[(uint32_t) p].partID : -1000 - p));
	}
	std::sort(items.begin(), items.end());
	std::string o = vf::strf("%u|", info.size());
	for (uint32_t i = 0; i < info.size(); i++) o += vf::strf("%u,", info[i].partID);
	o += "|";
	for (auto& it : items) o += it;
	return o;
}

static void run_partitions_state(const State& s, Stats& st) {
	Ctx x{st, s};
	vf::set_inflight(state_json(s).dump());
	st.add("evaluations");
	const std::vector<Triangle> tris = mesh_tris(s.T);
	std::vector<int> want(s.T);
	for (int i = 0; i < s.T; i++) want[i] = s.labels[i] < 0 ? -1 : s.ids[s.labels[i]];
	NiVector<BSDismemberSkinInstance::PartitionInfo> info;
	for (int id : s.ids) {
		BSDismemberSkinInstance::PartitionInfo pi;
		pi.flags = PF_EDITOR_VISIBLE;
		pi.partID = (uint16_t) id;
		info.push_back(pi);
	}
	// del = -2: no vertex is deleted, the empty partitions are removed instead (the other renumbering operation)
	for (int del = -2; del < NV; del++) {
		x.del = del;
		NifFile nif;
		NiShape* shape = build_skinned(nif, s, tris);
		if (!shape) { viol(x, "build", "create-returns-null", "CreateShapeFromData returned nullptr"); return; }
		st.add("ops_set_partitions");
		if (del == -1) st.add("transitions");
		nif.SetShapePartitions(shape, info, s.labels);
		std::string when = "after-set";
		if (del == -2) {
			st.add("transitions");
			st.add("ops_remove_empty_partitions");
			nif.RemoveEmptyPartitions(shape);
			when = "after-remove-empty";
		}
		if (del >= 0) {
			st.add("transitions");
			st.add("ops_delete_vertex");
			nif.DeleteVertsForShape(shape, std::vector<uint16_t>{(uint16_t) del});
			when = "after-delete";
		}
		Expect e = expect_after(tris, want, del);
		bool ok = check_partitions(x, nif, shape, e, when);
		if (ok && s.update) {
			st.add("transitions");
			st.add("ops_update_skin_partitions");
			nif.UpdateSkinPartitions(shape);
			when += "+update";
			ok = check_partitions(x, nif, shape, e, when);
		}
		if (ok) {
			std::string bytes = s1::save(nif, true);
			std::string key = bytes_key(bytes) + (s.update ? "u" : "p");
			if (bytes.empty()) viol(x, when + "+reload", "save-fails", "Save(raw) reports an error");
			else if (g_faithful.count(key)) st.add("reloads_answered_by_identical_file");
			else {
				NifFile re;
				NiShape* rs = load_into(bytes, re, x, when + "+reload");
				if (rs && check_partitions(x, re, rs, e, when + "+reload") && obs_partitions(re, rs) == obs_partitions(nif, shape)) g_faithful.insert(key);
			}
		}
	}
	st.distinct("outcomes", vf::strf("%s:partitions:%s:%s", s.ver.c_str(), s.update ? "update" : "plain", x.failed ? "FAIL" : "ok"));
}

static void run_state(const State& s, Stats& st) {
	if (s.kind == "segments") run_segments_state(s, st);
	else if (s.kind == "partitions") run_partitions_state(s, st);
	else vf::fatal("unknown kind " + s.kind);
}

// ---------------------------------------------------------------- enumeration
struct Unit {
	std::string kind, ver;
	std::vector<int> subs, ids;
	int T;
	int first; // first label index (0..n, n = -1) or -2 when T == 0
	double weight;
};

static std::vector<std::vector<int>> numberings(int n, int full_n) {
	std::vector<std::vector<int>> out;
	std::vector<int> id(n);
	for (int i = 0; i < n; i++) id[i] = i;
	if (n <= full_n) {
		do out.push_back(id); while (std::next_permutation(id.begin(), id.end()));
		return out;
	}
	std::vector<int> rev(id.rbegin(), id.rend()), r1(n), r2(n);
	for (int i = 0; i < n; i++) { r1[i] = (i + 1) % n; r2[i] = (i + n - 1) % n; }
	for (auto& c : {id, rev, r1, r2}) if (std::find(out.begin(), out.end(), c) == out.end()) out.push_back(c);
	return out;
}

// ---------------------------------------------------------------- boundary: more triangles than 16 bits can count
// FO4 shapes count triangles in 32 bits.  One shape with 65535 / 65536 / 65537 / 70000 pairwise distinct triangles over 90
// vertices, two segments (the second with one sub-segment), labels cycling through the three ids: set -> get must keep
// the triangles as a multiset, give every triangle the label it was set with, and tile [0,T) with the ranges.
static void run_big_segments(int T, Stats& st) {
	vf::set_inflight(J::obj().set("kind", "segments-big").set("T", T).dump());
	st.add("evaluations");
	st.add("big_shapes");
	const int NVB = 90;
	std::vector<Vector3> verts;
	std::vector<Vector2> uvs;
	for (int i = 0; i < NVB; i++) { verts.push_back(Vector3((float) (i % 10), (float) (i / 10), (float) (i % 7) * 0.25f)); uvs.push_back(Vector2((float) i / NVB, 1.0f - (float) i / NVB)); }
	std::vector<Triangle> tris;
	for (uint16_t a = 0; a < NVB && (int) tris.size() < T; a++)
		for (uint16_t b = a + 1; b < NVB && (int) tris.size() < T; b++)
			for (uint16_t c = b + 1; c < NVB && (int) tris.size() < T; c++) tris.push_back(Triangle(a, b, c));
	if ((int) tris.size() != T) { st.violation("harness:big-mesh", "not enough distinct triangles", J::obj()); return; }
	J cj = J::obj().set("kind", "segments-big").set("T", T);
	NifFile nif;
	nif.Create(NiVersion::getFO4());
	NiShape* shape = nif.CreateShapeFromData("S", &verts, &tris, &uvs, nullptr);
	if (!shape) { st.violation("FO4:segments-big:create-returns-null", "CreateShapeFromData returned nullptr", cj); return; }
	NifSegmentationInfo inf;
	inf.ssfFile = "Meshes\\test.ssf";
	NifSegmentInfo s0, s1;
	s0.partID = 0;
	s1.partID = 1;
	NifSubSegmentInfo sub;
	sub.partID = 2;
	sub.userSlotID = 31;
	sub.material = 0x1001u;
	s1.subs.push_back(sub);
	inf.segs.push_back(s0);
	inf.segs.push_back(s1);
	std::vector<int> labels((size_t) T);
	std::map<std::array<uint16_t, 3>, int> want;
	for (int i = 0; i < T; i++) { labels[(size_t) i] = i % 3; want[{tris[(size_t) i].p1, tris[(size_t) i].p2, tris[(size_t) i].p3}] = i % 3; }
	st.add("transitions", 2);
	NifFile::SetShapeSegments(shape, inf, labels);
	std::vector<Triangle> cur;
	shape->GetTriangles(cur);
	NifSegmentationInfo got;
	std::vector<int> parts;
	if (!NifFile::GetShapeSegments(shape, got, parts)) { st.violation("FO4:segments-big:get-fails", vf::strf("GetShapeSegments returns false for %d triangles", T), cj); return; }
	if ((int) cur.size() != T || (int) parts.size() != T) { st.violation("FO4:segments-big:count", vf::strf("%d triangles set, %zu stored, %zu labels returned", T, cur.size(), parts.size()), cj); return; }
	std::set<std::array<uint16_t, 3>> seen;
	long wrong = 0, foreign = 0;
	for (int i = 0; i < T; i++) {
		std::array<uint16_t, 3> k = {cur[(size_t) i].p1, cur[(size_t) i].p2, cur[(size_t) i].p3};
		auto it = want.find(k);
		if (it == want.end()) { foreign++; continue; }
		seen.insert(k);
		if (parts[(size_t) i] != it->second) wrong++;
	}
	if (foreign || (int) seen.size() != T)
		st.violation("FO4:segments-big:triangles-not-permutation", vf::strf("%d triangles set: %ld stored triangles are not among them, %zu of the original ones are still there", T, foreign, seen.size()), cj);
	else if (wrong)
		st.violation("FO4:segments-big:label-changed", vf::strf("%d triangles set: %ld come back with another label", T, wrong), cj);
}

int main(int argc, char** argv) {
	A = vf::parse_args(argc, argv);
	Stats top;
	if (!A.replay.empty()) {
		J r = J::parse(vf::read_file(A.replay));
		if (r["case"].has("kind") && r["case"]["kind"].str() == "segments-big") {
			const int T = (int) r["case"]["T"].i64();
			vf::CrashInfo ci = vf::run_isolated(A.rundir, A.repo, 300, [&]() {
				Stats st;
				run_big_segments(T, st);
				st.flush(stdout);
				return 0;
			});
			if (!ci.cls.empty()) top.violation("FO4:segments-big:crash:" + ci.key(), "child died (" + ci.cls + " in " + ci.frame + ")", r["case"]);
			vf::finish(top);
			return 0;
		}
		State s = state_from_json(r["case"]);
		vf::CrashInfo ci = vf::run_isolated(A.rundir, A.repo, 300, [&]() {
			Stats st;
			run_state(s, st);
			st.flush(stdout);
			return 0;
		});
		if (!ci.cls.empty()) top.violation("crash:" + ci.key(), "child died (" + ci.cls + " in " + ci.frame + ") :: " + vf::tab_safe(ci.text.substr(0, 500)), state_json(s));
		vf::finish(top);
		return 0;
	}
	const bool thorough = A.thorough();
	const int Tmax = (int) A.geti("tmax", thorough ? 5 : 4);
	const int full_n = (int) A.geti("fulln", thorough ? 4 : 3);
	const std::string only = A.get("part");

	std::vector<Unit> units;
	auto add_units = [&](const std::string& kind, const std::string& ver, const std::vector<int>& subs, const std::vector<int>& ids, int nlabels, int tmax) {
		for (int T = 0; T <= tmax; T++) {
			if (T == 0) { units.push_back({kind, ver, subs, ids, 0, -2, 1}); continue; }
			double w = 1;
			for (int i = 1; i < T; i++) w *= nlabels + 1;
			for (int f = 0; f <= nlabels; f++) units.push_back({kind, ver, subs, ids, T, f, w});
		}
	};
	size_t n_infos = 0;
	if (only.empty() || only == "segments") {
		int nsv = thorough ? 2 : 1;
		for (int vi = 0; vi < nsv; vi++)
			for (int nseg = 1; nseg <= 3; nseg++) {
				int combos = 1;
				for (int i = 0; i < nseg; i++) combos *= 3;
				for (int c = 0; c < combos; c++) {
					std::vector<int> subs;
					int cc = c, n = nseg;
					for (int i = 0; i < nseg; i++) { subs.push_back(cc % 3); n += cc % 3; cc /= 3; }
					// FO76 shares the code path; it gets the identity numbering only (thorough)
					auto nums = vi == 0 ? numberings(n, full_n) : numberings(n, 0);
					if (vi == 1) nums.resize(1);
					for (auto& ids : nums) { add_units("segments", SEG_VERS[vi].name, subs, ids, n, vi == 0 ? Tmax : std::min(Tmax, 3)); n_infos++; }
				}
			}
	}
	if (only.empty() || only == "partitions") {
		int npv = thorough ? 3 : 2;
		for (int vi = 0; vi < npv; vi++)
			for (int np = 1; np <= 3; np++) {
				// body-part ids: every arrangement of np distinct ids out of {40,41,42}
				std::vector<int> pool = {40, 41, 42};
				std::sort(pool.begin(), pool.end());
				std::set<std::vector<int>> seen;
				do {
					std::vector<int> ids(pool.begin(), pool.begin() + np);
					if (!seen.insert(ids).second) continue;
					add_units("partitions", PART_VERS[vi].name, {}, ids, np, Tmax);
					n_infos++;
				} while (std::next_permutation(pool.begin(), pool.end()));
			}
	}
	std::stable_sort(units.begin(), units.end(), [](const Unit& a, const Unit& b) { return a.weight > b.weight; });

	vf::PoolCfg pc;
	pc.jobs = A.jobs;
	pc.rundir = A.rundir;
	pc.repo = A.repo;
	pc.max_restarts_per_unit = 200;

	// enumerate the label lists of one unit in a fixed order; `fn` gets (index, state)
	auto for_each_state = [&](const Unit& U, const std::function<bool(long, State&)>& fn) {
		const int n = (int) U.ids.size();
		// label alphabet: declared ids in slot order, then -1
		std::vector<int> alpha;
		if (U.kind == "segments") alpha = U.ids;
		else for (int i = 0; i < n; i++) alpha.push_back(i);
		alpha.push_back(-1);
		State s;
		s.kind = U.kind; s.ver = U.ver; s.subs = U.subs; s.ids = U.ids; s.T = U.T;
		s.labels.assign((size_t) U.T, alpha[0]);
		std::vector<int> digit((size_t) U.T, 0);
		if (U.T > 0) { digit[0] = U.first; s.labels[0] = alpha[(size_t) U.first]; }
		long idx = 0;
		for (;;) {
			for (int upd = 0; upd < (U.kind == "partitions" ? 2 : 1); upd++) {
				s.update = upd != 0;
				if (!fn(idx++, s)) return;
			}
			int p = U.T - 1;
			while (p >= 1) {
				if (++digit[(size_t) p] <= n) { s.labels[(size_t) p] = alpha[(size_t) digit[(size_t) p]]; break; }
				digit[(size_t) p] = 0;
				s.labels[(size_t) p] = alpha[0];
				p--;
			}
			if (p < 1) return;
		}
	};

	auto unit_fn = [&](size_t u, const std::vector<std::string>& skips, long, Stats& st) {
		const Unit& U = units[u];
		std::set<long> skip;
		for (auto& k : skips) skip.insert(atol(k.c_str()));
		std::unordered_set<uint64_t> distinct;
		for_each_state(U, [&](long idx, State& s) {
			if ((idx & 63) == 0 && vf::deadline_passed()) { st.capped("deadline inside unit " + U.kind + "/" + U.ver); return false; }
			if (skip.count(idx)) { st.add("states_left_out_after_crash"); return true; }
			distinct.insert(state_hash(s));
			run_state(s, st);
			if (st.samples.empty() && idx % 53 == 7) st.sample(state_json(s));
			return true;
		});
		st.add("units");
		st.add("states", (long long) distinct.size());
		st.add(("states_" + U.kind).c_str(), (long long) distinct.size());
		st.max("depth", 4); // set, delete, (update,) save+load, get
	};
	auto crash_fn = [&](size_t u, const vf::CrashInfo& ci, const std::string& inflight, Stats& parent) -> std::string {
		J cj;
		try { cj = J::parse(inflight); } catch (std::exception&) { cj = J::obj().set("unparsed", inflight.substr(0, 200)); }
		std::string pre = cj.has("version") ? cj["version"].str() + ":" + cj["kind"].str() + ":" : "";
		parent.violation(pre + "crash:" + ci.key(), "worker died (" + ci.cls + " in " + ci.frame + ") while running " + inflight.substr(0, 400) + " :: " + vf::tab_safe(ci.text.substr(0, 500)), cj);
		parent.add("worker_crashes");
		if (!cj.has("kind")) return "";
		std::string want = cj.dump();
		long found = -1;
		for_each_state(units[u], [&](long idx, State& s) {
			if (state_json(s).dump() == want) { found = idx; return false; }
			return true;
		});
		return found < 0 ? std::string() : std::to_string(found);
	};
	vf::run_pool(units.size(), pc, unit_fn, crash_fn, top);
	if (only.empty() || only == "segments") {
		// the four big shapes, each in its own forked worker
		static const int BIG[4] = {65535, 65536, 65537, 70000};
		vf::run_pool(4, pc, [&](size_t u, const std::vector<std::string>&, long, Stats& st) { run_big_segments(BIG[u], st); },
					 [&](size_t u, const vf::CrashInfo& ci, const std::string&, Stats& parent) -> std::string {
						 parent.violation("FO4:segments-big:crash:" + ci.key(), vf::strf("worker died (%s in %s) on the shape with %d triangles", ci.cls.c_str(), ci.frame.c_str(), BIG[u]), J::obj().set("kind", "segments-big").set("T", BIG[u]));
						 return "";
					 },
					 top);
	}

	top.set_info("rule",
				 vf::strf("explicit enumeration, no sampling. segments: BSSubIndexTriShape %s, fixed mesh of %d vertices, T = 0..%d (first T triangles of a fixed pool of 5 pairwise "
						  "distinct triangles); segmentation infos: 1..3 segments x 0..2 sub-segments each (39 shapes) with part ids = every permutation of 0..n-1 over the n "
						  "declared slots for n <= %d, and identity/reversed/rotated+1/rotated-1 for n > %d%s; label lists: all of (declared ids U {-1})^T. partitions: %s, 1..3 "
						  "partitions with body-part ids = every arrangement of distinct ids from {40,41,42}, labels all of ({0..n-1} U {-1})^T, each with and without "
						  "UpdateSkinPartitions. per state: set -> get -> save+load -> get, then for each of the %d vertices: rebuild, set, delete vertex -> get -> save+load -> get. "
						  "reductions (both checked, not assumed): a state with permuted ids whose saved file is byte-identical to that of the identity-numbered state with model-translated "
						  "labels runs set -> get only; a Save+Load whose bytes equal an earlier file that reloaded faithfully is not repeated. "
						  "states = distinct (version, info, label list) by value; transitions = operations executed on the implementation whose result was compared with the model. "
						  "boundary: FO4 shapes with 65535 / 65536 / 65537 / 70000 pairwise distinct triangles, three ids cycling, set -> get",
						  thorough ? "FO4 and FO76" : "FO4", NV, Tmax, full_n, full_n, thorough ? " (FO76: identity numbering only, T <= 3)" : "", thorough ? "SK, SSE, FO3" : "SK, SSE", NV));
	top.set_info("tmax", Tmax);
	top.set_info("full_permutations_up_to_n", full_n);
	top.set_info("segmentation_infos_and_partition_infos", (long long) n_infos);
	top.note("labels outside the declared ids are a caller error and are not generated; a -1 label may come back as -1 or as any part");
	top.note("stability of the reordering (relative order of triangles with equal labels) is not required by the statement and is not checked");
	top.note("partition triangles are compared up to cyclic rotation of their indices (orientation preserved)");
	vf::finish(top);
	return 0;
}
