// C03: blocks of unknown type survive load and save untouched.
// For every corpus file that carries block sizes and every non-empty subset U of its block TYPE
// names, the names in U are relabelled (in the header type table, through the independent codec) to
// names the library does not know; the file is loaded and saved (raw and default) and the output is
// parsed independently: same block count and order, relabelled blocks byte-identical with the same
// type name and size at the same index, every input string index still denotes the same string.
#include "canon.hpp"
#include "e3.hpp"

using namespace nifly;
using vf::J;
using vf::Stats;

static vf::Args A;

static std::string relabel(const std::string& F, const np::Header& h, const std::vector<size_t>& subset, np::Header* out = nullptr) {
	np::Header h2 = h;
	for (auto t : subset) h2.types[t] = "Vf" + h.types[t];
	if (out) *out = h2;
	return np::emit_header(h2) + F.substr(h.hdr_end);
}

static J case_of(const e3::Entry& e, const np::Header& h, const std::vector<size_t>& subset, bool raw) {
	J a = J::arr();
	for (auto t : subset) a.push(h.types[t]);
	return J::obj().set("entry", e.label).set("unknown_types", a).set("raw", raw);
}

static std::string subset_str(const np::Header& h, const std::vector<size_t>& subset) {
	std::string s;
	for (auto t : subset) s += h.types[t] + " ";
	return s;
}

static void check_case(const e3::Entry& e, const std::string& F, const np::Header& h, const std::vector<size_t>& subset, Stats& st, std::set<uint64_t>& outcomes) {
	np::Header hu;
	std::string FU = relabel(F, h, subset, &hu);
	std::set<std::string> unknown;
	for (auto t : subset) unknown.insert(hu.types[t]);
	// modes 0..3: raw/default save of the model / of a copy; modes 4..9: an explicit call of one of the guarded
	// operations before the save (4,5 SetShapeOrder(reversed names); 6,7 PrettySortBlocks; 8,9 Optimize; 10,11 DeleteUnreferencedNodes;
	// 12,13 DeleteUnreferencedBlocks<T> for several block classes T)
	for (int mode = 13; mode >= 0; mode--) {
		const int raw = mode & 1;
		const bool via_copy = mode < 4 && (mode & 2) != 0; // the loaded model is copied and the COPY is saved: it must protect unknown blocks just the same
		const int pre = mode < 4 ? 0 : mode / 2 - 1;		  // 1 SetShapeOrder, 2 PrettySortBlocks, 3 Optimize, 4 DeleteUnreferencedNodes, 5 typed DeleteUnreferencedBlocks: nothing may move or go while unknown blocks are present
		const bool reorder = pre != 0;
		J cj = case_of(e, h, subset, raw == 1).set("via_copy", via_copy).set("reorder", reorder).set("pre", pre);
		vf::set_inflight(cj.dump());
		st.add("evaluations");
		std::string what = e.keyname + " with {" + subset_str(h, subset) + "} unknown, " + (raw ? "raw" : "default") + " save" + (via_copy ? " of a copy of the model" : "");
		NifFile n;
		int rc = s1::load(n, FU);
		if (rc != 0) { st.violation("load-fails", what + ": Load returns " + std::to_string(rc), cj); continue; }
		if (!n.HasUnknown()) { st.violation("unknown-not-detected", what + ": HasUnknown() is false", cj); continue; }
		if (pre == 1) {
			std::vector<std::string> names;
			for (auto sh : n.GetShapes()) names.push_back(sh->name.get());
			if (names.size() < 2) continue;
			std::reverse(names.begin(), names.end());
			n.SetShapeOrder(names);
			st.add("shape_orders_applied");
			what += ", after SetShapeOrder(reversed)";
		}
		else if (pre == 2) {
			n.PrettySortBlocks();
			st.add("explicit_sorts_applied");
			what += ", after PrettySortBlocks()";
		}
		else if (pre == 3) {
			n.Optimize();
			st.add("explicit_optimizes_applied");
			what += ", after Optimize()";
		}
		else if (pre == 4) {
			n.DeleteUnreferencedNodes();
			st.add("explicit_node_prunes_applied");
			what += ", after DeleteUnreferencedNodes()";
		}
		else if (pre == 5) {
			n.DeleteUnreferencedBlocks<BSShaderTextureSet>();
			n.DeleteUnreferencedBlocks<NiGeometryData>();
			n.DeleteUnreferencedBlocks<NiExtraData>();
			n.DeleteUnreferencedBlocks<NiSkinData>();
			n.DeleteUnreferencedBlocks<NiProperty>();
			n.DeleteUnreferencedBlocks<NiObject>();
			st.add("explicit_typed_prunes_applied");
			what += ", after DeleteUnreferencedBlocks<T>() for several T";
		}
		NifFile ncopy;
		if (via_copy) ncopy = n;
		std::string O = s1::save(via_copy ? ncopy : n, raw == 1);
		np::Header ho = np::parse(O);
		if (!ho.ok) { st.violation("output-unparsable", what + ": " + ho.err, cj); continue; }
		outcomes.insert(vf::fnv(O));
		if (ho.nblocks != h.nblocks) {
			st.violation("block-count-changed", vf::strf("%s: %u blocks in, %u out", what.c_str(), h.nblocks, ho.nblocks), cj);
			continue;
		}
		if (!ho.has_sizes || ho.blocks_end + 8 != O.size()) { st.violation("output-size-table", what + ": output size table does not walk to the footer", cj); continue; }
		bool bad = false;
		for (uint32_t i = 0; i < h.nblocks && !bad; i++) {
			std::string tin = hu.type_of(i), tout = ho.type_of(i);
			if (tin != tout) {
				st.violation("order-or-type-changed", vf::strf("%s: block %u was a '%s', output has a '%s' there", what.c_str(), i, tin.c_str(), tout.c_str()), cj);
				bad = true;
				break;
			}
			if (unknown.count(tin)) {
				st.add("unknown_blocks_compared");
				if (ho.sizes[i] != h.sizes[i]) {
					st.violation("unknown-size-changed:" + h.type_of(i), vf::strf("%s: unknown block %u declared %u bytes, output declares %u", what.c_str(), i, h.sizes[i], ho.sizes[i]), cj);
					bad = true;
				}
				else if (np::block_bytes(O, ho, i) != np::block_bytes(F, h, i)) {
					st.violation("unknown-payload-changed:" + h.type_of(i), vf::strf("%s: payload of unknown block %u differs", what.c_str(), i), cj);
					bad = true;
				}
			}
		}
		if (bad) continue;
		if (h.has_strings) {
			for (size_t i = 0; i < h.strings.size(); i++) {
				st.add("string_indices_checked");
				if (i >= ho.strings.size() || ho.strings[i] != h.strings[i]) {
					st.violation("string-index-remapped",
								 vf::strf("%s: input string %zu was '%s', output has '%s'", what.c_str(), i, h.strings[i].c_str(), i < ho.strings.size() ? ho.strings[i].c_str() : "<nothing>"), cj);
					break;
				}
			}
		}
	}
}

template<class F>
static void for_each_subset(size_t T, bool full, F&& fn) {
	if (full && T <= 10) {
		for (uint32_t mask = 1; mask < (1u << T); mask++) {
			std::vector<size_t> s;
			for (size_t i = 0; i < T; i++) if (mask & (1u << i)) s.push_back(i);
			if (!fn(s)) return;
		}
		return;
	}
	// sizes 1, 2, T-1, T
	std::set<std::vector<size_t>> done;
	auto emit = [&](std::vector<size_t> s) { return done.insert(s).second ? fn(s) : true; };
	for (size_t i = 0; i < T; i++) if (!emit({i})) return;
	if (full) {
		for (size_t i = 0; i < T; i++) for (size_t j = i + 1; j < T; j++) if (!emit({i, j})) return;
		for (size_t i = 0; i < T; i++) { std::vector<size_t> s; for (size_t k = 0; k < T; k++) if (k != i) s.push_back(k); if (!emit(s)) return; }
	}
	std::vector<size_t> all;
	for (size_t k = 0; k < T; k++) all.push_back(k);
	emit(all);
}

int main(int argc, char** argv) {
	A = vf::parse_args(argc, argv);
	e1::install_hooks();
	Stats top;
	bool thorough = A.thorough();
	std::vector<e3::Entry> ents = e3::corpus(A.repo, thorough, (size_t) 1 << 30, A.geti("s1", 1) != 0);
	auto find_entry = [&](const std::string& label, e3::Entry& e) {
		if (label.rfind("file:", 0) == 0) { e.label = label; e.keyname = label.substr(5); e.sample = true; return true; }
		size_t at = label.find('@');
		if (at == std::string::npos) return false;
		e.label = e.keyname = label;
		e.type = label.substr(0, at);
		e.version = label.substr(at + 1);
		return true;
	};
	if (!A.replay.empty()) {
		J c = J::parse(vf::read_file(A.replay))["case"];
		e3::Entry e;
		if (!find_entry(c["entry"].str(), e)) vf::fatal("replay: bad entry");
		std::string F = e3::entry_bytes(e, A.repo);
		np::Header h = np::parse(F);
		if (!h.ok) vf::fatal("replay: entry does not parse");
		std::vector<size_t> subset;
		for (auto& t : c["unknown_types"].a)
			for (size_t i = 0; i < h.types.size(); i++) if (h.types[i] == t.str()) subset.push_back(i);
		std::set<uint64_t> outcomes;
		check_case(e, F, h, subset, top, outcomes);
		vf::finish(top);
		return 0;
	}
	if (A.has("entry")) { e3::Entry e; if (!find_entry(A.get("entry"), e)) vf::fatal("bad --entry"); ents = {e}; }

	vf::PoolCfg pc;
	pc.jobs = A.jobs;
	pc.rundir = A.rundir;
	pc.repo = A.repo;
	vf::run_pool(ents.size(), pc,
		[&](size_t u, const std::vector<std::string>&, long, Stats& st) {
			const e3::Entry& e = ents[u];
			std::string F0 = e3::entry_bytes(e, A.repo);
			if (F0.empty()) { st.add("entries_not_built"); return; }
			np::Header h0 = np::parse(F0);
			if (!h0.ok || !h0.has_sizes) { st.add("entries_without_size_table"); return; } // the property quantifies over files with block sizes
			std::string F = F0;
			np::Header h = h0;
			if (h.blocks_end + 8 != F.size()) { st.add("entries_size_table_not_exact"); return; }
			st.add("entries");
			size_t T = h.types.size();
			bool full = thorough || T <= 8;
			std::set<uint64_t> outcomes;
			size_t ncases = 0;
			for_each_subset(T, full, [&](const std::vector<size_t>& s) {
				if (vf::deadline_passed()) { st.capped("deadline inside " + e.label); return false; }
				check_case(e, F, h, s, st, outcomes);
				ncases++;
				if (u % 211 == 0 && ncases == 1) st.sample(case_of(e, h, s, true));
				return true;
			});
			// Variant with a string table that holds one text twice (valid: nothing forbids duplicate entries in an input
			// file): string 0 is duplicated at index 1 and every string index >= 1 in every block moves up by one.  The
			// positions of the index fields come from the write-side hook on a raw save of the loaded file.
			if (h.has_strings && !h.strings.empty()) {
				NifFile n;
				if (s1::load(n, F0) == 0) {
					canon::Saved sv = canon::save(n, true);
					np::Header hn = np::parse(sv.bytes);
					if (hn.ok && hn.has_sizes && hn.blocks_end + 8 == sv.bytes.size() && !hn.strings.empty()) {
						std::string body = sv.bytes.substr(hn.hdr_end);
						for (auto off : sv.stridx) {
							if (off < hn.hdr_end || off + 4 > sv.bytes.size()) continue;
							uint32_t v;
							memcpy(&v, body.data() + (off - hn.hdr_end), 4);
							if (v != 0xFFFFFFFFu && v >= 1) { v++; memcpy(&body[off - hn.hdr_end], &v, 4); }
						}
						np::Header hd = hn;
						hd.strings.insert(hd.strings.begin() + 1, hn.strings[0]);
						std::string FD = np::emit_header(hd) + body;
						np::Header hdp = np::parse(FD);
						e3::Entry ed = e;
						ed.keyname = e.keyname + " [string 0 duplicated at index 1]";
						if (hdp.ok) {
							st.add("entries_with_duplicate_string_variant");
							for_each_subset(T, false, [&](const std::vector<size_t>& s) { // singletons + all
								if (vf::deadline_passed()) { st.capped("deadline inside " + e.label); return false; }
								check_case(ed, FD, hdp, s, st, outcomes);
								ncases++;
								return true;
							});
						}
					}
				}
			}
			st.add("distinct_nontrivial", (long long) ncases);
			st.add("distinct_outcomes", (long long) outcomes.size());
		},
		[&](size_t u, const vf::CrashInfo& ci, const std::string& inflight, Stats& parent) -> std::string {
			J cj;
			try { cj = J::parse(inflight); } catch (std::exception&) {}
			parent.violation("crash:" + ci.key(), "worker died (" + ci.cls + " in " + ci.frame + ") on " + ents[u].keyname + " " + inflight.substr(0, 300), cj);
			return "";
		},
		top);
	top.set_info("rule", "corpus = sample files + the all-defaults synthesised instance of every (block type, version) that carries a size table; for each file every "
						 "non-empty subset of its type names (all 2^T-1 for T <= 10 in thorough / T <= 8 in quick, else singletons (quick) or sizes 1,2,T-1,T) is relabelled "
						 "unknown in the header by the independent codec, then Load + Save with both option sets; distinct_nontrivial = (file, subset) pairs");
	vf::finish(top);
	return 0;
}
