// C08: wire compatibility between the build of the working tree ("cur") and the vendored
// reference snapshot ("ref", /verif/ref/nifly).  This one source is compiled against both
// trees.  Roles:
//   (default)  orchestrator, current build only: for every unit (version, chunk of types) runs
//              gen(cur) -> recode(ref) and gen(ref) -> recode(cur) as subprocesses and compares.
//   --role gen     explore the typed-read decision tree of each type (each build explores its
//                  OWN tree) and write one record per execution: the file Save(raw) produces.
//   --role recode  for each record: Load, check the reader stops at the footer, Save(raw).
// A file written by one build must load in the other, be consumed exactly and re-encode to the
// identical bytes.
#include "s1.hpp"

#include <dirent.h>
#include <fcntl.h>

using namespace nifly;
using namespace e1;
using vf::J;
using vf::Stats;

static vf::Args A;

// ---- record files ----
static void put_u32(FILE* f, uint32_t v) { fwrite(&v, 4, 1, f); }
static bool get_u32(FILE* f, uint32_t& v) { return fread(&v, 4, 1, f) == 1; }
static void put_str(FILE* f, const std::string& s) { put_u32(f, (uint32_t) s.size()); if (!s.empty()) fwrite(s.data(), 1, s.size(), f); }
static bool get_str(FILE* f, std::string& s) {
	uint32_t n;
	if (!get_u32(f, n) || n > (1u << 28)) return false;
	s.resize(n);
	return n == 0 || fread(&s[0], 1, n, f) == n;
}

struct GenRec { std::string label, script, file; };   // label = type name or sample file name

static const VerCfg* find_ver(const std::string& n) {
	for (auto& v : all_versions()) if (n == v.name) return &v;
	return nullptr;
}
static std::vector<std::string> split(const std::string& s, char c) {
	std::vector<std::string> r;
	size_t i = 0;
	while (i <= s.size()) {
		size_t j = s.find(c, i);
		if (j == std::string::npos) j = s.size();
		if (j > i) r.push_back(s.substr(i, j - i));
		i = j + 1;
	}
	return r;
}

// Load a file, check the reader stops at the footer, re-encode.  The same routine gives the writing
// build's own verdict on its file (self) and the other build's verdict (recode role).
struct Verdict { uint32_t rc = 0, extent_ok = 0, same = 0; uint64_t hash = 0; };
static Verdict recode_one(const std::string& file) {
	Verdict v;
	NifFile n;
	long long consumed = 0;
	v.rc = (uint32_t) s1::load(n, file, &consumed);
	v.extent_ok = (v.rc == 0 && consumed == (long long) file.size() - 8) ? 1 : 0;
	if (v.rc == 0 && v.extent_ok) { // a reader that lost its place would re-encode garbage of arbitrary size
		std::string out = s1::save(n, true);
		v.same = out == file;
		v.hash = vf::fnv(out);
	}
	return v;
}
static void put_verdict(FILE* f, const Verdict& v) { put_u32(f, v.rc); put_u32(f, v.extent_ok); put_u32(f, v.same); fwrite(&v.hash, 8, 1, f); }
static bool get_verdict(FILE* f, Verdict& v) { return get_u32(f, v.rc) && get_u32(f, v.extent_ok) && get_u32(f, v.same) && fread(&v.hash, 8, 1, f) == 1; }
static void emit_record(FILE* out, const std::string& label, const std::string& script, const std::string& file) {
	put_str(out, label);
	put_str(out, script);
	put_str(out, file);
	put_verdict(out, recode_one(file));
}

// ---- role gen ----
static void gen_type(const std::string& type, const VerCfg& vc, int bound, bool wide, FILE* out, bool per_exec_fork) {
	ExploreCfg cfg;
	cfg.bound = bound;
	cfg.wide = wide;
	explore(cfg, [&](const Script& s) -> std::vector<Point> {
		if (!per_exec_fork) {
			s1::Built b = s1::build_s1(type, vc, s, wide);
			if (b.ok) emit_record(out, type, script_json(s).dump(), b.file);
			return b.points;
		}
		// fork per execution: a fault inside the reader rejects this input only
		int fd[2];
		if (pipe(fd) != 0) _exit(5);
		fflush(out);
		pid_t pid = fork();
		if (pid == 0) {
			close(fd[0]);
			s1::Built b = s1::build_s1(type, vc, s, wide);
			FILE* p = fdopen(fd[1], "w");
			uint32_t n = (uint32_t) b.points.size();
			fwrite(&n, 4, 1, p);
			if (n) fwrite(b.points.data(), sizeof(Point), n, p);
			put_str(p, b.ok ? b.file : std::string());
			fflush(p);
			if (b.ok) put_verdict(p, recode_one(b.file)); // may die: then the parent sees a file without a verdict
			fclose(p);
			_exit(0);
		}
		close(fd[1]);
		std::string buf;
		char tmp[65536];
		ssize_t r;
		while ((r = read(fd[0], tmp, sizeof tmp)) > 0) buf.append(tmp, (size_t) r);
		close(fd[0]);
		int status = 0;
		waitpid(pid, &status, 0);
		std::vector<Point> pts;
		if (!(WIFEXITED(status) && WEXITSTATUS(status) == 0)) {
			std::string p = A.rundir + "/san." + std::to_string(pid);
			unlink(p.c_str());
		}
		if (buf.size() < 4) return pts;
		uint32_t n;
		memcpy(&n, buf.data(), 4);
		size_t off = 4 + (size_t) n * sizeof(Point);
		if (buf.size() < off + 4) return pts;
		pts.resize(n);
		if (n) memcpy(pts.data(), buf.data() + 4, (size_t) n * sizeof(Point));
		uint32_t flen;
		memcpy(&flen, buf.data() + off, 4);
		if (flen && buf.size() >= off + 4 + flen) {
			put_str(out, type);
			put_str(out, script_json(s).dump());
			put_str(out, buf.substr(off + 4, flen));
			Verdict v;
			v.rc = 999; // the writing build itself died on its own file
			if (buf.size() >= off + 4 + flen + 20) {
				memcpy(&v.rc, buf.data() + off + 4 + flen, 4);
				memcpy(&v.extent_ok, buf.data() + off + 8 + flen, 4);
				memcpy(&v.same, buf.data() + off + 12 + flen, 4);
				memcpy(&v.hash, buf.data() + off + 16 + flen, 8);
			}
			put_verdict(out, v);
		}
		return pts;
	});
}

static int role_gen() {
	FILE* out = fopen(A.get("out").c_str(), "wb");
	if (!out) return 4;
	install_hooks();
	if (A.has("rfiles")) {
		for (auto& rel : split(A.get("rfiles"), ',')) {
			std::string F0 = vf::read_file(A.repo + "/tests/" + rel);
			NifFile n;
			if (s1::load(n, F0) != 0) continue;
			emit_record(out, rel, "[]", s1::save(n, true));
		}
		fclose(out);
		return 0;
	}
	auto vc = find_ver(A.get("version"));
	if (!vc) return 4;
	int bound = (int) A.geti("bound", 1);
	bool wide = A.geti("wide", 1) != 0;
	for (auto& type : split(A.get("types"), ',')) {
		// one forked child per type; if it dies, redo the type with one child per execution
		std::string part = A.get("out") + ".part";
		fflush(out);
		pid_t pid = fork();
		if (pid == 0) {
			FILE* p = fopen(part.c_str(), "wb");
			gen_type(type, *vc, bound, wide, p, false);
			fclose(p);
			_exit(0);
		}
		int status = 0;
		waitpid(pid, &status, 0);
		if (WIFEXITED(status) && WEXITSTATUS(status) == 0) {
			std::string data = vf::read_file(part);
			fwrite(data.data(), 1, data.size(), out);
		}
		else {
			std::string p = A.rundir + "/san." + std::to_string(pid);
			unlink(p.c_str());
			gen_type(type, *vc, bound, wide, out, true);
		}
		unlink(part.c_str());
	}
	fclose(out);
	return 0;
}

// ---- role recode ----
// Children process the records in order; when one dies on record k, "died" is recorded for k and a
// new child continues at k+1.
static int role_recode() {
	std::vector<GenRec> recs;
	{
		FILE* in = fopen(A.get("in").c_str(), "rb");
		if (!in) return 4;
		GenRec g;
		Verdict self;
		while (get_str(in, g.label) && get_str(in, g.script) && get_str(in, g.file) && get_verdict(in, self)) recs.push_back(g);
		fclose(in);
	}
	std::string outpath = A.get("out");
	{ FILE* o = fopen(outpath.c_str(), "wb"); if (!o) return 4; fclose(o); }
	size_t next = 0;
	while (next < recs.size()) {
		pid_t pid = fork();
		if (pid == 0) {
			FILE* out = fopen(outpath.c_str(), "ab");
			for (size_t k = next; k < recs.size(); k++) {
				put_verdict(out, recode_one(recs[k].file));
				fflush(out);
			}
			fclose(out);
			_exit(0);
		}
		int status = 0;
		waitpid(pid, &status, 0);
		if (WIFEXITED(status) && WEXITSTATUS(status) == 0) break;
		std::string p = A.rundir + "/san." + std::to_string(pid);
		unlink(p.c_str());
		// how many verdicts made it to the file?
		FILE* chk = fopen(outpath.c_str(), "rb");
		fseek(chk, 0, SEEK_END);
		long sz = ftell(chk);
		fclose(chk);
		size_t done = (size_t) sz / 20;
		if (truncate(outpath.c_str(), (off_t) done * 20) != 0) return 5;
		FILE* out = fopen(outpath.c_str(), "ab");
		Verdict died;
		died.rc = 999;
		put_verdict(out, died);
		fclose(out);
		next = done + 1;
	}
	return 0;
}

// ---- orchestrator ----
static int spawn(const std::string& exe, const std::vector<std::string>& args) {
	fflush(stdout);
	pid_t pid = fork();
	if (pid == 0) {
		std::vector<char*> av;
		av.push_back((char*) exe.c_str());
		for (auto& a : args) av.push_back((char*) a.c_str());
		av.push_back(nullptr);
		int dn = open("/dev/null", O_WRONLY);
		if (dn >= 0) { dup2(dn, 1); }
		execv(exe.c_str(), av.data());
		_exit(127);
	}
	int status = 0;
	waitpid(pid, &status, 0);
	std::string p = A.rundir + "/san." + std::to_string(pid);
	unlink(p.c_str());
	return status;
}

struct Unit { std::string version; std::string types; std::string rfiles; };

static std::string game_of(const std::string& vname) { return vname.substr(0, vname.find('_')); }

static void compare(const std::string& genfile, const std::string& outfile, const std::string& dir, const Unit& u, int recode_status, Stats& st,
					std::set<uint64_t>& distinct) {
	FILE* g = fopen(genfile.c_str(), "rb");
	FILE* o = fopen(outfile.c_str(), "rb");
	if (!g) return;
	GenRec gr;
	Verdict self;
	size_t idx = 0;
	while (get_str(g, gr.label) && get_str(g, gr.script) && get_str(g, gr.file) && get_verdict(g, self)) {
		Verdict other;
		bool have = o && get_verdict(o, other);
		J cj = J::obj().set("label", gr.label).set("version", u.version).set("direction", dir).set("script", J::parse(gr.script)).set("wide", A.geti("wide", 1) != 0);
		std::string keybase = gr.label + ":" + (u.rfiles.empty() ? game_of(u.version) : std::string("file")) + ":" + dir;
		std::string what = gr.label + " (" + u.version + ") " + dir;
		st.add("evaluations");
		distinct.insert(vf::fnv(gr.file));
		if (!have) {
			st.violation(keybase + ":reader-stopped", vf::strf("%s: the reading build produced no verdict for record %zu (exit status %d)", what.c_str(), idx, recode_status), cj);
			break;
		}
		// The file must mean the same to both builds: same load result, same consumed extent, same re-encoding.
		// (Whether the writing build's own re-encoding equals the file is C01's question; files that are no fixed
		// point for their own writer are counted, and still have to be treated identically by the other build.)
		if (other.rc != self.rc)
			st.violation(keybase + ":load-result-differs", vf::strf("%s: Load returns %u in the reading build, %u in the writing build", what.c_str(), other.rc, self.rc), cj);
		else if (other.extent_ok != self.extent_ok)
			st.violation(keybase + ":consumed-extent-differs", vf::strf("%s: the reading build %s at the footer, the writing build %s", what.c_str(), other.extent_ok ? "stops" : "does not stop", self.extent_ok ? "does" : "does not"), cj);
		else if (other.hash != self.hash || other.same != self.same)
			st.violation(keybase + ":reencode-differs", vf::strf("%s: the two builds re-encode the %zu byte file differently (identical to the file: reader %u, writer %u)", what.c_str(), gr.file.size(), other.same, self.same), cj);
		if (self.rc == 0 && self.extent_ok && self.same) st.add("files_fixed_point_in_both_builds");
		else st.add("files_not_a_fixed_point_for_their_own_writer");
		if (st.samples.empty() && idx == 3) st.sample(cj.set("file_bytes", (long long) gr.file.size()));
		idx++;
	}
	st.add(dir == "cur->ref" ? "files_cur_to_ref" : "files_ref_to_cur", (long long) idx);
	fclose(g);
	if (o) fclose(o);
}

int main(int argc, char** argv) {
	A = vf::parse_args(argc, argv);
	std::string role = A.get("role");
	if (role == "gen") return role_gen();
	if (role == "recode") return role_recode();

	Stats top;
	const char* refexe = getenv("VERIF_EXE_REF");
	if (!refexe || !vf::file_exists(refexe)) vf::fatal("reference codec not built (VERIF_EXE_REF)");
	char self[4096];
	ssize_t sl = readlink("/proc/self/exe", self, sizeof self - 1);
	if (sl <= 0) vf::fatal("cannot resolve own path");
	self[sl] = 0;
	std::string cur = self, ref = refexe;
	bool thorough = A.thorough();
	int bound = (int) A.geti("bound", 1);
	bool wide = A.geti("wide", 1) != 0;
	// quick: one version configuration per game cell that the samples exercise least (13 of 28); thorough: all 28
	std::vector<VerCfg> vers = thorough ? all_versions() : game_versions();
	std::vector<std::string> types = all_type_names();
	size_t chunk = (size_t) A.geti("chunk", bound >= 2 ? 6 : 24);

	std::vector<Unit> units;
	if (!A.replay.empty()) {
		J c = J::parse(vf::read_file(A.replay))["case"];
		std::string label = c["label"].str();
		if (label.find(".nif") != std::string::npos) units.push_back({"", "", label});
		else units.push_back({c["version"].str(), label, ""});
		wide = c["wide"].t == J::BOOL ? c["wide"].b : true;
		bound = std::max<int>(1, (int) c["script"].size());
	}
	else {
		// sample files
		std::string list;
		for (const char* sub : {"input", "expected"}) {
			std::string dir = A.repo + "/tests/" + sub;
			DIR* d = opendir(dir.c_str());
			if (!d) continue;
			std::vector<std::string> names;
			while (auto e = readdir(d)) { std::string n = e->d_name; if (n.size() > 4 && n.substr(n.size() - 4) == ".nif") names.push_back(n); }
			closedir(d);
			std::sort(names.begin(), names.end());
			for (auto& n : names) { if (!list.empty()) list += ","; list += std::string(sub) + "/" + n; }
		}
		if (A.geti("rfiles", 1)) for (auto& half : {list.substr(0, list.find(',', list.size() / 2)), list.substr(list.find(',', list.size() / 2) + 1)}) units.push_back({"", "", half});
		if (A.has("version")) { auto v = find_ver(A.get("version")); if (!v) vf::fatal("unknown version"); vers = {*v}; }
		if (A.has("type")) types = {A.get("type")};
		for (auto& v : vers)
			for (size_t i = 0; i < types.size(); i += chunk) {
				std::string t;
				for (size_t j = i; j < std::min(types.size(), i + chunk); j++) { if (!t.empty()) t += ","; t += types[j]; }
				units.push_back({v.name, t, ""});
			}
	}

	vf::PoolCfg pc;
	pc.jobs = A.jobs;
	pc.rundir = A.rundir;
	pc.repo = A.repo;
	vf::run_pool(units.size(), pc,
		[&](size_t ui, const std::vector<std::string>&, long, Stats& st) {
			const Unit& u = units[ui];
			std::string base = A.rundir + "/u" + std::to_string(ui);
			std::set<uint64_t> distinct;
			for (int dirn = 0; dirn < 2; dirn++) {
				if (vf::deadline_passed()) { st.capped("deadline before unit " + std::to_string(ui)); break; }
				const std::string& genexe = dirn == 0 ? cur : ref;
				const std::string& recexe = dirn == 0 ? ref : cur;
				std::string gf = base + (dirn == 0 ? ".cur.gen" : ".ref.gen"), of = gf + ".out";
				std::vector<std::string> ga = {"--role", "gen", "--out", gf, "--bound", std::to_string(bound), "--wide", wide ? "1" : "0"};
				if (!u.rfiles.empty()) { ga.push_back("--rfiles"); ga.push_back(u.rfiles); }
				else { ga.push_back("--version"); ga.push_back(u.version); ga.push_back("--types"); ga.push_back(u.types); }
				int gs = spawn(genexe, ga);
				if (!(WIFEXITED(gs) && WEXITSTATUS(gs) == 0)) st.add("generator_failures");
				int rs = spawn(recexe, {"--role", "recode", "--in", gf, "--out", of});
				compare(gf, of, dirn == 0 ? "cur->ref" : "ref->cur", u, rs, st, distinct);
				unlink(gf.c_str());
				unlink(of.c_str());
			}
			st.add("units");
			st.add("distinct_nontrivial", (long long) distinct.size());
		},
		[&](size_t ui, const vf::CrashInfo& ci, const std::string&, Stats& parent) -> std::string {
			parent.violation("orchestrator-worker-died:" + ci.key(), "orchestrator worker died on unit " + units[ui].version + " " + units[ui].types.substr(0, 80), J::obj());
			return "";
		},
		top);
	top.set_info("rule", vf::strf("each build explores its own typed-read decision tree (deviation bound %d, %s alphabets, %zu types x %zu version configs) and writes "
								  "Save(raw) of every accepted synthesised block file, plus the normal form of every sample file; the other build must load each file, "
								  "stop at the footer and re-encode it to identical bytes; distinct_nontrivial = distinct files by content hash",
								  bound, wide ? "wide" : "narrow", types.size(), vers.size()));
	top.set_info("programs", 2);
	top.set_info("deviation_bound", bound);
	vf::finish(top);
	return 0;
}
