// C13 — geometry written through the API is what is read back, in every version.
//
// Families of cases (every family is enumerated completely, no sampling):
//   small     versions x V in 1..Vmax x 9 lattice arrangements x every subset of a fixed pool of <= 6
//             triangles x UVs present/absent x normals present/absent: CreateShapeFromData, read back
//             immediately and after Save(raw)+Load.
//   setter    versions x V x arrangements x UV/normal presence x base {fresh, populated, populated+eye} x
//             every setter/getter pair (positions same count / grown / shrunk, UVs, normals, tangents,
//             bitangents, colours, eye data, triangles (4 lists), bounds).
//   boundary  versions x V in {1, 65535, 65536} x T in {0, 65535, 65536} x attribute presence.
//
// Storage formats (read from the code under test; they decide the tolerance the statement allows):
//   OB / FO3 / SK   NiTriShape + NiTriShapeData: positions, normals, tangents, bitangents, colours, UVs are
//                   32-bit floats (NiGeometryData::Sync)                       -> bit-exact
//   SSE             BSTriShape: positions float (stream 100 forces full precision), UVs half, normals /
//                   tangents / bitangent y,z one byte each (b = round((x+1)/2*255), x' = b/255*2-1),
//                   bitangent x float, colours one byte (b = floor(f*256), 255 for f==1; f' = b/255),
//                   eye data float
//   FO4 / FO76      BSSubIndexTriShape: as SSE but positions and bitangent x are halves unless
//                   VF_FULLPREC is set (BSTriShape::Create never sets it)
// In memory every BSTriShape attribute that is a float/half on disk is kept as float, so the
// quantisation of halves only shows after Save+Load; byte attributes are quantised by the setter.
#include "common.hpp"
#include "s1.hpp"

#include <cmath>
#include <unordered_set>

using namespace nifly;
using vf::J;
using vf::Stats;

static vf::Args A;
static bool g_no_reload = false; // set for a case whose Save+Load step killed the worker before
// Saving a BSTriShape that carries eye data is probed once per version in an isolated child before the
// enumeration starts (see probe_eye_save).  Where the probe dies, the finding is reported once and the
// Save+Load step of every further case whose shape carries eye data is left out (their in-memory checks
// still run); where it survives, those cases are saved and reloaded like all others.
static bool g_eye_save_dies[6] = {false, false, false, false, false, false};

// ---------------------------------------------------------------- versions
struct Ver {
	const char* name;
	NiVersion (*get)();
	bool bs;		   // BSTriShape family (SSE, FO4, FO76)
	bool half_pos;	   // positions stored as halves
	uint32_t tri_limit; // documented by NifFile::GetTriangleLimit
};
static const Ver g_vers[] = {
	{"OB", &NiVersion::getOB, false, false, 65535u},	{"FO3", &NiVersion::getFO3, false, false, 65535u},
	{"SK", &NiVersion::getSK, false, false, 65535u},	{"SSE", &NiVersion::getSSE, true, false, 65535u},
	{"FO4", &NiVersion::getFO4, true, true, 0xFFFFFFFFu}, {"FO76", &NiVersion::getFO76, true, true, 0xFFFFFFFFu},
};
static const int NVER = 6;
static const char* storage_class(const Ver& v) { return !v.bs ? "NiTriShapeData(OB/FO3/SK)" : v.half_pos ? "BSSubIndexTriShape(FO4/FO76)" : "BSTriShape(SSE)"; }
static int find_ver(const std::string& n) {
	for (int i = 0; i < NVER; i++) if (n == g_vers[i].name) return i;
	return -1;
}

// ---------------------------------------------------------------- lattices
static const float L9[9] = {0.0f, 1.0f, -1.0f, 0.1f, 1.0f / 3.0f, 1000.5f, 65504.0f, 1e-5f, -0.0f};
// values a byte-quantised signed attribute can represent (|x| <= 1): lattice members inside the range,
// their negatives and two more inexact ones
static const float LU[9] = {0.0f, 1.0f, -1.0f, 0.1f, 1.0f / 3.0f, 1e-5f, -0.0f, -0.1f, -1.0f / 3.0f};
// values a byte-quantised colour can represent (0 <= x <= 1)
static const float LC[9] = {0.0f, 1.0f, 0.1f, 1.0f / 3.0f, 1e-5f, -0.0f, 0.5f, 0.999f, 0.75f};

static Vector3 unitv(float x, float y, float z) {
	double d = std::sqrt((double) x * x + (double) y * y + (double) z * z);
	if (d == 0) return Vector3(0, 0, 0);
	return Vector3((float) (x / d), (float) (y / d), (float) (z / d));
}
// normals handed to CreateShapeFromData: unit vectors built from lattice values (and the zero vector)
static std::vector<Vector3> make_unit_normals() {
	std::vector<Vector3> n;
	n.push_back(Vector3(0, 0, 1));
	n.push_back(Vector3(1, 0, 0));
	n.push_back(Vector3(0, -1, 0));
	n.push_back(unitv(1, 1, 0));
	n.push_back(unitv(1, -1, 1));
	n.push_back(unitv(0.1f, 1.0f / 3.0f, -1));
	n.push_back(Vector3(0, 0, 0));
	n.push_back(unitv(1e-5f, 1, -0.0f));
	n.push_back(unitv(-1, 0.1f, 1.0f / 3.0f));
	n.push_back(Vector3(-1, 0, 0));
	n.push_back(unitv(1000.5f, 65504.0f, 1));
	return n;
}
static const std::vector<Vector3> g_unit_normals = make_unit_normals();

// ---------------------------------------------------------------- cases
struct Case {
	std::string fam; // small | setter | boundary
	int ver = 0;
	int V = 0;
	int arr = 0;
	unsigned trimask = 0;
	bool uv = false, nrm = false;
	int base = 0; // 0 as created, 1 every attribute but eye data populated, 2 eye data populated too (BSTriShape family)
	std::string setter;
	int T = 0; // boundary
	bool fullprec = false; // small, FO4/FO76 only: BSTriShape::SetFullPrecision(true) after creation -> float positions in the file
};

static const char* const BASES[] = {"fresh", "populated", "populated+eye"};
static J case_json(const Case& c) {
	J j = J::obj();
	j.set("family", c.fam).set("version", g_vers[c.ver].name).set("V", c.V).set("arr", c.arr).set("uv", c.uv).set("normals", c.nrm);
	if (c.fam == "small") j.set("trimask", (long long) c.trimask).set("fullprec", c.fullprec);
	if (c.fam == "setter") j.set("trimask", (long long) c.trimask).set("base", BASES[c.base]).set("setter", c.setter);
	if (c.fam == "boundary") j.set("T", c.T);
	return j;
}
static Case case_from_json(const J& j) {
	Case c;
	c.fam = j["family"].str();
	c.ver = find_ver(j["version"].str());
	if (c.ver < 0) vf::fatal("replay: unknown version " + j["version"].str());
	c.V = (int) j["V"].i64();
	c.arr = (int) j["arr"].i64();
	c.uv = j["uv"].b;
	c.nrm = j["normals"].b;
	c.trimask = (unsigned) j["trimask"].i64();
	for (int b = 0; b < 3; b++) if (j["base"].str() == BASES[b]) c.base = b;
	c.setter = j["setter"].str();
	c.T = (int) j["T"].i64();
	c.fullprec = j["fullprec"].b;
	return c;
}

// fixed triangle pool per vertex count (<= 6 triangles, both windings occur)
static std::vector<Triangle> tri_pool(int V) {
	std::vector<Triangle> p;
	if (V == 3) { p = {Triangle(0, 1, 2), Triangle(2, 1, 0)}; }
	else if (V == 4) { p = {Triangle(0, 1, 2), Triangle(1, 3, 2), Triangle(0, 2, 3), Triangle(3, 1, 0), Triangle(2, 1, 0), Triangle(3, 2, 1)}; }
	else if (V == 5) { p = {Triangle(0, 1, 2), Triangle(2, 1, 3), Triangle(2, 3, 4), Triangle(4, 0, 2), Triangle(1, 4, 3), Triangle(0, 4, 1)}; }
	else if (V >= 6) { p = {Triangle(0, 1, 2), Triangle(2, 1, 3), Triangle(2, 3, 4), Triangle(4, 3, 5), Triangle(5, 0, 4), Triangle(1, 5, 3)}; }
	return p;
}

struct Mesh {
	std::vector<Vector3> verts;
	std::vector<Triangle> tris;
	std::vector<Vector2> uvs;
	std::vector<Vector3> norms;
	bool uv = false, nrm = false;
};

static Vector3 lat_pos(int i, int a) { return Vector3(L9[(i + a) % 9], L9[(2 * i + a + 1) % 9], L9[(4 * i + a + 2) % 9]); }
static Vector2 lat_uv(int i, int a) { return Vector2(L9[(3 * i + a + 4) % 9], L9[(5 * i + a + 6) % 9]); }

static Mesh make_small_mesh(int V, int arr, unsigned trimask, bool uv, bool nrm) {
	Mesh m;
	m.uv = uv;
	m.nrm = nrm;
	for (int i = 0; i < V; i++) m.verts.push_back(lat_pos(i, arr));
	for (int i = 0; i < V; i++)
		for (int k = 0; k < i; k++)
			if (m.verts[i].x == m.verts[k].x && m.verts[i].y == m.verts[k].y && m.verts[i].z == m.verts[k].z)
				vf::fatal("internal: lattice arrangement yields equal vertices");
	auto pool = tri_pool(V);
	for (size_t k = 0; k < pool.size(); k++) if (trimask & (1u << k)) m.tris.push_back(pool[k]);
	if (uv) for (int i = 0; i < V; i++) m.uvs.push_back(lat_uv(i, arr));
	if (nrm) for (int i = 0; i < V; i++) m.norms.push_back(g_unit_normals[(size_t) (i + arr) % g_unit_normals.size()]);
	return m;
}

// boundary meshes: x from the lattice, y/z from an integer grid (all exactly representable as halves) so
// that 65536 vertices stay pairwise distinct
static Mesh make_big_mesh(int V, int T, int arr, bool uv, bool nrm) {
	Mesh m;
	m.uv = uv;
	m.nrm = nrm;
	m.verts.resize((size_t) V);
	for (int i = 0; i < V; i++) m.verts[(size_t) i] = Vector3(L9[(i + arr) % 9], (float) ((i / 9) % 128), (float) (i / (9 * 128)));
	m.tris.resize((size_t) T);
	for (int k = 0; k < T; k++)
		m.tris[(size_t) k] = V >= 3 ? Triangle((uint16_t) (k % V), (uint16_t) ((k + 1) % V), (uint16_t) ((k + 2) % V)) : Triangle(0, 0, 0);
	if (uv) {
		m.uvs.resize((size_t) V);
		for (int i = 0; i < V; i++) m.uvs[(size_t) i] = Vector2(L9[(3 * i + arr + 4) % 9], (float) (i % 2048));
	}
	if (nrm) {
		m.norms.resize((size_t) V);
		for (int i = 0; i < V; i++) m.norms[(size_t) i] = g_unit_normals[(size_t) (i + arr) % g_unit_normals.size()];
	}
	return m;
}

static uint64_t mesh_hash(const Case& c, const Mesh& m) {
	uint64_t h = vf::fnv(std::string(g_vers[c.ver].name) + "/" + c.fam + "/" + c.setter + "/" + BASES[c.base] + (c.fullprec ? "/fp" : ""));
	unsigned char flags[2] = {(unsigned char) m.uv, (unsigned char) m.nrm};
	h = vf::fnv(flags, 2, h);
	if (!m.verts.empty()) h = vf::fnv(m.verts.data(), m.verts.size() * sizeof(Vector3), h);
	h = vf::fnv("|", 1, h);
	if (!m.tris.empty()) h = vf::fnv(m.tris.data(), m.tris.size() * sizeof(Triangle), h);
	h = vf::fnv("|", 1, h);
	if (!m.uvs.empty()) h = vf::fnv(m.uvs.data(), m.uvs.size() * sizeof(Vector2), h);
	h = vf::fnv("|", 1, h);
	if (!m.norms.empty()) h = vf::fnv(m.norms.data(), m.norms.size() * sizeof(Vector3), h);
	return h;
}

// ---------------------------------------------------------------- tolerances
enum Fmt { F_FLOAT, F_HALF, F_SBYTE, F_CBYTE };

static double half_spacing(double x) {
	x = std::fabs(x);
	if (x < 6.103515625e-05) return 5.9604644775390625e-08; // subnormal halves: 2^-24
	int e;
	std::frexp(x, &e); // x = m * 2^e, 0.5 <= m < 1
	return std::ldexp(1.0, e - 1 - 10);
}
static const double SBYTE_STEP = 2.0 / 255.0; // signed byte attribute: one quantisation step
static const double CBYTE_STEP = 1.0 / 255.0; // colour byte: one quantisation step

static bool same_bits(float a, float b) { return std::memcmp(&a, &b, 4) == 0; }

struct Ctx {
	Stats& st;
	const Case& c;
	std::string prefix; // version name
	bool failed = false;
	bool record = true; // record error magnitudes (off for comparisons that are observations only)
};

static void viol(Ctx& x, const std::string& what, const std::string& msg) {
	x.failed = true;
	x.st.violation(x.prefix + ":" + what, std::string(g_vers[x.c.ver].name) + " " + x.c.fam + ": " + msg, case_json(x.c));
}

// Compare one float component against what was written; returns false when outside the tolerance the
// storage format allows.  Records the largest error seen per format (in millionths of the allowed error).
static bool cmp_comp(Ctx& x, float want, float got, Fmt f) {
	if (f == F_FLOAT) return same_bits(want, got);
	double err = std::fabs((double) got - (double) want);
	double tol = f == F_HALF ? half_spacing(want) : f == F_SBYTE ? SBYTE_STEP : CBYTE_STEP;
	const char* k = f == F_HALF ? "max_err_half_ppm_of_1ulp" : f == F_SBYTE ? "max_err_sbyte_ppm_of_step" : "max_err_colour_ppm_of_step";
	if (std::isnan(got)) return false;
	if (x.record) {
		x.st.max(k, (long long) std::llround(err / tol * 1e6));
		if (f == F_HALF && err > tol * 0.5 * (1 + 1e-9)) x.st.add("half_values_not_rounded_to_nearest");
	}
	return err <= tol * (1.0 + 1e-6) + 1e-7 * (f == F_HALF ? 0 : 1);
}

// ---------------------------------------------------------------- snapshot through the getters
struct Snap {
	bool ok = false;
	uint16_t nv = 0;
	bool pV = false, pU = false, pN = false, pT = false, pB = false, pC = false, pE = false;
	std::vector<Vector3> verts, norms, tans, bits;
	std::vector<Vector2> uvs;
	std::vector<Color4> cols;
	std::vector<float> eye;
	std::vector<Triangle> tris;
	bool trisOk = false;	// what GetTriangles returned
	uint32_t ntris = 0;		// GetNumTriangles
	BoundingSphere bounds;
	std::string flavour_mismatch; // pointer getter vs copying getter disagree
};

template<class T> static bool vec_same(const std::vector<T>& a, const std::vector<T>& b) {
	return a.size() == b.size() && (a.empty() || std::memcmp(a.data(), b.data(), a.size() * sizeof(T)) == 0);
}

static Snap snapshot(NifFile& nif, NiShape* shape) {
	Snap s;
	if (!shape) return s;
	s.ok = true;
	s.nv = shape->GetNumVertices();
	if (auto p = nif.GetVertsForShape(shape)) { s.pV = true; s.verts = *p; }
	if (auto p = nif.GetUvsForShape(shape)) { s.pU = !p->empty(); s.uvs = *p; }
	if (auto p = nif.GetNormalsForShape(shape)) { s.pN = !p->empty(); s.norms = *p; }
	if (auto p = nif.GetTangentsForShape(shape)) { s.pT = !p->empty(); s.tans = *p; }
	if (auto p = nif.GetBitangentsForShape(shape)) { s.pB = !p->empty(); s.bits = *p; }
	if (auto p = nif.GetColorsForShape(shape)) { s.pC = !p->empty(); s.cols = *p; }
	if (auto p = nif.GetEyeDataForShape(shape)) { s.pE = !p->empty(); s.eye = *p; }
	s.trisOk = shape->GetTriangles(s.tris);
	s.ntris = shape->GetNumTriangles();
	s.bounds = shape->GetBounds();
	// the copying flavour of each getter must agree with the pointer flavour whenever it reports data
	{
		std::vector<Vector3> v;
		if (nif.GetVertsForShape(shape, v) && !vec_same(v, s.verts)) s.flavour_mismatch += "verts ";
		std::vector<Vector2> u;
		if (nif.GetUvsForShape(shape, u) && !vec_same(u, s.uvs)) s.flavour_mismatch += "uvs ";
		std::vector<Color4> c;
		if (nif.GetColorsForShape(shape, c) && !vec_same(c, s.cols)) s.flavour_mismatch += "colours ";
		std::vector<Vector3> t;
		if (nif.GetTangentsForShape(shape, t) && !vec_same(t, s.tans)) s.flavour_mismatch += "tangents ";
		std::vector<Vector3> b;
		if (nif.GetBitangentsForShape(shape, b) && !vec_same(b, s.bits)) s.flavour_mismatch += "bitangents ";
		std::vector<float> e;
		if (NifFile::GetEyeDataForShape(shape, e) && !vec_same(e, s.eye)) s.flavour_mismatch += "eye ";
	}
	return s;
}

// "all per-vertex arrays keep the vertex count": every array a getter hands out is empty/absent or has
// exactly GetNumVertices() elements; positions always have that size
static void check_sizes(Ctx& x, const Snap& s, const std::string& when) {
	auto bad = [&](const char* what, size_t n) {
		viol(x, std::string("sizes:") + what + ":" + when, vf::strf("%s array has %zu elements but the shape reports %u vertices (%s)", what, n, s.nv, when.c_str()));
	};
	if (s.verts.size() != s.nv) bad("positions", s.verts.size());
	if (!s.uvs.empty() && s.uvs.size() != s.nv) bad("uvs", s.uvs.size());
	if (!s.norms.empty() && s.norms.size() != s.nv) bad("normals", s.norms.size());
	if (!s.tans.empty() && s.tans.size() != s.nv) bad("tangents", s.tans.size());
	if (!s.bits.empty() && s.bits.size() != s.nv) bad("bitangents", s.bits.size());
	if (!s.cols.empty() && s.cols.size() != s.nv) bad("colours", s.cols.size());
	if (!s.eye.empty() && s.eye.size() != s.nv) bad("eyedata", s.eye.size());
	// the triangle getter hands out triangles it then reports as "no triangles", or the counter disagrees with the list
	if (!s.tris.empty() && !s.trisOk) viol(x, "triangle-getter-reports-failure:" + when, vf::strf("GetTriangles returns false but hands out %zu triangles (%s)", s.tris.size(), when.c_str()));
	if (s.ntris != s.tris.size()) viol(x, "triangle-counter:" + when, vf::strf("GetNumTriangles says %u, GetTriangles hands out %zu (%s)", s.ntris, s.tris.size(), when.c_str()));
	if (!s.flavour_mismatch.empty())
		viol(x, "getter-flavours-differ:" + when, "pointer and copying getter disagree for: " + s.flavour_mismatch + "(" + when + ")");
}

static bool cmp_v3(Ctx& x, const std::vector<Vector3>& want, const std::vector<Vector3>& got, Fmt fx, Fmt fy, Fmt fz, std::string& why) {
	if (want.size() != got.size()) { why = vf::strf("size %zu, expected %zu", got.size(), want.size()); return false; }
	for (size_t i = 0; i < want.size(); i++) {
		bool ok = cmp_comp(x, want[i].x, got[i].x, fx) & cmp_comp(x, want[i].y, got[i].y, fy) & cmp_comp(x, want[i].z, got[i].z, fz);
		if (!ok) {
			why = vf::strf("element %zu: wrote (%.9g, %.9g, %.9g), read (%.9g, %.9g, %.9g)", i, want[i].x, want[i].y, want[i].z, got[i].x, got[i].y, got[i].z);
			return false;
		}
	}
	return true;
}
static bool cmp_v2(Ctx& x, const std::vector<Vector2>& want, const std::vector<Vector2>& got, Fmt f, std::string& why) {
	if (want.size() != got.size()) { why = vf::strf("size %zu, expected %zu", got.size(), want.size()); return false; }
	for (size_t i = 0; i < want.size(); i++) {
		bool ok = cmp_comp(x, want[i].u, got[i].u, f) & cmp_comp(x, want[i].v, got[i].v, f);
		if (!ok) {
			why = vf::strf("element %zu: wrote (%.9g, %.9g), read (%.9g, %.9g)", i, want[i].u, want[i].v, got[i].u, got[i].v);
			return false;
		}
	}
	return true;
}
static bool cmp_c4(Ctx& x, const std::vector<Color4>& want, const std::vector<Color4>& got, Fmt f, std::string& why) {
	if (want.size() != got.size()) { why = vf::strf("size %zu, expected %zu", got.size(), want.size()); return false; }
	for (size_t i = 0; i < want.size(); i++) {
		bool ok = cmp_comp(x, want[i].r, got[i].r, f) & cmp_comp(x, want[i].g, got[i].g, f) & cmp_comp(x, want[i].b, got[i].b, f) & cmp_comp(x, want[i].a, got[i].a, f);
		if (!ok) {
			why = vf::strf("element %zu: wrote (%.9g, %.9g, %.9g, %.9g), read (%.9g, %.9g, %.9g, %.9g)", i, want[i].r, want[i].g, want[i].b, want[i].a, got[i].r,
						   got[i].g, got[i].b, got[i].a);
			return false;
		}
	}
	return true;
}
static bool cmp_f(Ctx& x, const std::vector<float>& want, const std::vector<float>& got, Fmt f, std::string& why) {
	if (want.size() != got.size()) { why = vf::strf("size %zu, expected %zu", got.size(), want.size()); return false; }
	for (size_t i = 0; i < want.size(); i++)
		if (!cmp_comp(x, want[i], got[i], f)) { why = vf::strf("element %zu: wrote %.9g, read %.9g", i, want[i], got[i]); return false; }
	return true;
}
static bool cmp_tris(const std::vector<Triangle>& want, const std::vector<Triangle>& got, std::string& why) {
	if (want.size() != got.size()) { why = vf::strf("%zu triangles, expected %zu", got.size(), want.size()); return false; }
	for (size_t i = 0; i < want.size(); i++)
		if (want[i].p1 != got[i].p1 || want[i].p2 != got[i].p2 || want[i].p3 != got[i].p3) {
			why = vf::strf("triangle %zu: wrote (%u,%u,%u), read (%u,%u,%u)", i, want[i].p1, want[i].p2, want[i].p3, got[i].p1, got[i].p2, got[i].p3);
			return false;
		}
	return true;
}

// storage format of an attribute: in memory (before any save) and in the file (after reload)
static Fmt fmt_pos(const Ver& v, bool reloaded) { return reloaded && v.half_pos ? F_HALF : F_FLOAT; }
static Fmt fmt_uv(const Ver& v, bool reloaded) { return reloaded && v.bs ? F_HALF : F_FLOAT; }
static Fmt fmt_nbt(const Ver& v) { return v.bs ? F_SBYTE : F_FLOAT; }
static Fmt fmt_bitx(const Ver& v, bool reloaded) { return reloaded && v.half_pos ? F_HALF : F_FLOAT; }
static Fmt fmt_col(const Ver& v) { return v.bs ? F_CBYTE : F_FLOAT; }

static NiShape* reload(NifFile& src, NifFile& dst, Ctx& x, const std::string& when) {
	std::string bytes = s1::save(src, true);
	if (bytes.empty()) { viol(x, "save-fails:" + when, "Save(raw) reports an error (" + when + ")"); return nullptr; }
	int rc = s1::load(dst, bytes);
	if (rc != 0) { viol(x, "reload-fails:" + when, vf::strf("Load of the saved file returns %d (%s)", rc, when.c_str())); return nullptr; }
	auto shapes = dst.GetShapes();
	if (shapes.size() != 1) { viol(x, "reload-shape-count:" + when, vf::strf("reloaded file has %zu shapes, expected 1 (%s)", shapes.size(), when.c_str())); return nullptr; }
	return shapes[0];
}

// ---------------------------------------------------------------- creation read-back (small + boundary)
static void check_created(Ctx& x, const Ver& v, const Mesh& m, const Snap& s, bool reloaded) {
	const std::string when = reloaded ? "after-reload" : "immediate";
	std::string why;
	check_sizes(x, s, when);
	if (s.nv != m.verts.size()) {
		viol(x, "vertex-count:" + when, vf::strf("shape reports %u vertices, %zu were given (%s)", s.nv, m.verts.size(), when.c_str()));
		return;
	}
	const Fmt fp = x.c.fullprec ? F_FLOAT : fmt_pos(v, reloaded);
	if (!cmp_v3(x, m.verts, s.verts, fp, fp, fp, why))
		viol(x, std::string("positions-readback:") + (x.c.fullprec ? "fullprec:" : "") + when, "positions differ " + when + ": " + why);
	if (!cmp_tris(m.tris, s.tris, why)) viol(x, "triangles-readback:" + when, "triangles differ " + when + ": " + why);
	if (m.uv) {
		if (!cmp_v2(x, m.uvs, s.uvs, fmt_uv(v, reloaded), why)) viol(x, "uv-readback:" + when, "UVs differ " + when + ": " + why);
	}
	if (m.nrm) {
		if (!cmp_v3(x, m.norms, s.norms, fmt_nbt(v), fmt_nbt(v), fmt_nbt(v), why)) viol(x, "normals-readback:" + when, "normals differ " + when + ": " + why);
	}
}

static void run_create_case(const Case& c, const Mesh& m, Stats& st, bool lenient_over_limit) {
	const Ver& v = g_vers[c.ver];
	Ctx x{st, c, v.name};
	NifFile nif;
	nif.Create(v.get());
	NiShape* shape = nif.CreateShapeFromData("S", &m.verts, &m.tris, m.uv ? &m.uvs : nullptr, m.nrm ? &m.norms : nullptr);
	st.add("evaluations");
	st.add("creates");
	if (!shape) { viol(x, "create-returns-null", "CreateShapeFromData returned nullptr"); return; }
	if (c.fullprec) {
		auto* bs = dynamic_cast<BSTriShape*>(shape);
		if (!bs) { viol(x, "fullprec-not-bstrishape", "shape is not a BSTriShape"); return; }
		bs->SetFullPrecision(true);
		if (!bs->IsFullPrecision()) viol(x, "fullprec-not-set", "SetFullPrecision(true) leaves IsFullPrecision() false");
	}
	const bool over_v = m.verts.size() > NifFile::GetVertexLimit();
	const bool over_t = m.tris.size() > (size_t) v.tri_limit;
	Snap s0 = snapshot(nif, shape);
	if (lenient_over_limit && (over_v || over_t)) {
		// Beyond the documented limits only memory safety is required; record what the library does.
		NifFile re;
		std::string bytes = g_no_reload ? std::string() : s1::save(nif, true);
		int rc = bytes.empty() ? -1 : s1::load(re, bytes);
		Snap s1;
		if (rc == 0 && re.GetShapes().size() == 1) s1 = snapshot(re, re.GetShapes()[0]);
		st.note(vf::strf("observed beyond limit, %s: V=%zu T=%zu given -> shape has %u vertices, %zu triangles, UVs %s, normals %s; Save+Load rc=%d, then %u vertices, %zu triangles",
						 storage_class(v), m.verts.size(), m.tris.size(), s0.nv, s0.tris.size(), !m.uv ? "not given" : s0.pU ? "kept" : "dropped",
						 !m.nrm ? "not given" : s0.pN ? "kept" : "dropped", rc, s1.nv, s1.tris.size()));
		st.add("over_limit_cases");
		return;
	}
	check_created(x, v, m, s0, false);
	NifFile re;
	NiShape* rs = g_no_reload ? nullptr : reload(nif, re, x, "created");
	if (!g_no_reload) st.add("save_loads");
	if (rs) {
		Snap s1 = snapshot(re, rs);
		check_created(x, v, m, s1, true);
	}
	st.distinct("outcomes", vf::strf("%s:create:uv=%d/%d:n=%d/%d:t=%d:c=%d:%s", v.name, (int) m.uv, (int) s0.pU, (int) m.nrm, (int) s0.pN, (int) s0.pT, (int) s0.pC,
									 x.failed ? "FAIL" : "ok"));
}

// ---------------------------------------------------------------- setter family
static const char* const SETTERS[] = {"positions", "positions-grow", "positions-shrink", "uvs", "normals", "tangents", "bitangents", "colours", "eyedata",
									   "triangles-reversed", "triangles-empty", "triangles-drop-first", "triangles-duplicate", "bounds", "triangles-reorder"};
static const int NSETTERS = 15;

static std::vector<Vector3> gen_v3(int n, int a, const float* lat) {
	std::vector<Vector3> r;
	for (int i = 0; i < n; i++) r.push_back(Vector3(lat[(i + a) % 9], lat[(2 * i + a + 3) % 9], lat[(4 * i + a + 5) % 9]));
	return r;
}

// others unchanged: every attribute except `skip` (and, for presence only, the tangent/bitangent twin that
// shares one flag in both storage formats) is bit-identical before and after the setter
static void check_others(Ctx& x, const Snap& a, const Snap& b, const std::string& setter) {
	auto rep = [&](const char* what, size_t na, size_t nb) {
		viol(x, "setter:" + setter + ":changes-" + what, vf::strf("Set %s changed the %s array (size %zu -> %zu or content)", setter.c_str(), what, na, nb));
	};
	bool is_tri = setter.rfind("triangles", 0) == 0;
	if (setter != "positions" && !vec_same(a.verts, b.verts)) rep("positions", a.verts.size(), b.verts.size());
	if (setter != "uvs" && !vec_same(a.uvs, b.uvs)) rep("uvs", a.uvs.size(), b.uvs.size());
	if (setter != "normals" && !vec_same(a.norms, b.norms)) rep("normals", a.norms.size(), b.norms.size());
	if (setter != "tangents" && !(setter == "bitangents" && a.tans.empty()) && !vec_same(a.tans, b.tans)) rep("tangents", a.tans.size(), b.tans.size());
	if (setter != "bitangents" && !(setter == "tangents" && a.bits.empty()) && !vec_same(a.bits, b.bits)) rep("bitangents", a.bits.size(), b.bits.size());
	if (setter != "colours" && !vec_same(a.cols, b.cols)) rep("colours", a.cols.size(), b.cols.size());
	if (setter != "eyedata" && !vec_same(a.eye, b.eye)) rep("eyedata", a.eye.size(), b.eye.size());
	if (!is_tri && !vec_same(a.tris, b.tris)) rep("triangles", a.tris.size(), b.tris.size());
	if (setter != "bounds" && std::memcmp(&a.bounds, &b.bounds, sizeof(BoundingSphere)) != 0) rep("bounds", 1, 1);
	if (a.nv != b.nv) viol(x, "setter:" + setter + ":changes-vertex-count", vf::strf("Set %s changed the vertex count %u -> %u", setter.c_str(), a.nv, b.nv));
}

// presave: the model is saved once (result discarded) just before the setter call, so that the setter meets a model
// that has already been through Save (derived blocks such as the Oblivion tangent-space extra data exist).
// reloaded: receives the geometry read back from the file written after the setter call.
static void run_setter_case(const Case& c, Stats& st, bool presave = false, Snap* reloaded = nullptr) {
	const Ver& v = g_vers[c.ver];
	Ctx x{st, c, v.name};
	Mesh m = make_small_mesh(c.V, c.arr, c.trimask, c.uv, c.nrm);
	NifFile nif;
	nif.Create(v.get());
	// "no UVs" is handed over as a null pointer or (odd arrangements) as an EMPTY list: packed shapes then carry no UV flag at all
	static const std::vector<Vector2> noUvs;
	NiShape* shape = nif.CreateShapeFromData("S", &m.verts, &m.tris, m.uv ? &m.uvs : (c.arr % 2 ? &noUvs : nullptr), m.nrm ? &m.norms : nullptr);
	st.add("evaluations");
	if (!shape) { viol(x, "create-returns-null", "CreateShapeFromData returned nullptr"); return; }
	const int V = c.V;
	const float* nlat = v.bs ? LU : L9; // byte attributes can only hold |x| <= 1
	const float* clat = v.bs ? LC : L9;
	const int a1 = (c.arr + 2) % 9, a2 = (c.arr + 5) % 9;
	if (c.base >= 1) {
		// bring every attribute into existence first so that "resizes nothing else" has something to bite on
		std::vector<Vector2> u;
		for (int i = 0; i < V; i++) u.push_back(lat_uv(i, a1));
		nif.SetUvsForShape(shape, u);
		nif.SetNormalsForShape(shape, gen_v3(V, a1, nlat));
		nif.SetTangentsForShape(shape, gen_v3(V, a1 + 1, nlat));
		nif.SetBitangentsForShape(shape, gen_v3(V, a1 + 2, nlat));
		std::vector<Color4> cc;
		for (int i = 0; i < V; i++) cc.push_back(Color4(clat[(i + a1) % 9], clat[(i + a1 + 2) % 9], clat[(i + a1 + 4) % 9], clat[(i + a1 + 6) % 9]));
		nif.SetColorsForShape(shape, cc);
		st.add("setter_calls", 5);
		if (c.base == 2) {
			std::vector<float> ee;
			for (int i = 0; i < V; i++) ee.push_back(L9[(i + a1 + 1) % 9]);
			NifFile::SetEyeDataForShape(shape, ee);
			st.add("setter_calls");
		}
	}
	Snap before = snapshot(nif, shape);
	check_sizes(x, before, "before-setter");

	if (presave) s1::save(nif, true);
	const std::string& S = c.setter;
	std::string why;
	// what the getter must return afterwards (filled by the branch taken)
	std::vector<Vector3> w3;
	std::vector<Vector2> w2;
	std::vector<Color4> w4;
	std::vector<float> w1;
	std::vector<Triangle> wt;
	BoundingSphere wb;
	bool applicable = true;
	bool count_change = false;

	if (S == "positions" || S == "positions-grow" || S == "positions-shrink") {
		int n = S == "positions" ? V : S == "positions-grow" ? V + 1 : V - 1;
		if (n < 1) applicable = false;
		else {
			w3.clear();
			for (int i = 0; i < n; i++) w3.push_back(lat_pos(i, a2));
			nif.SetVertsForShape(shape, w3);
			count_change = n != V;
		}
	}
	else if (S == "uvs") {
		for (int i = 0; i < V; i++) w2.push_back(lat_uv(i, a2));
		nif.SetUvsForShape(shape, w2);
	}
	else if (S == "normals") { w3 = gen_v3(V, a2, nlat); nif.SetNormalsForShape(shape, w3); }
	else if (S == "tangents") { w3 = gen_v3(V, a2 + 1, nlat); nif.SetTangentsForShape(shape, w3); }
	else if (S == "bitangents") { w3 = gen_v3(V, a2 + 2, nlat); nif.SetBitangentsForShape(shape, w3); }
	else if (S == "colours") {
		for (int i = 0; i < V; i++) w4.push_back(Color4(clat[(i + a2) % 9], clat[(i + a2 + 2) % 9], clat[(i + a2 + 4) % 9], clat[(i + a2 + 6) % 9]));
		nif.SetColorsForShape(shape, w4);
	}
	else if (S == "eyedata") {
		if (!v.bs) applicable = false; // only BSTriShape has the attribute; the setter documents nothing for other shapes
		else {
			for (int i = 0; i < V; i++) w1.push_back(L9[(i + a2) % 9]);
			NifFile::SetEyeDataForShape(shape, w1);
		}
	}
	else if (S == "triangles-reorder") {
		// NifFile::ReorderTriangles: the triangles the shape has now, in the order of an index list (here: rotated by one, then
		// reversed); a list of the wrong length or with an index out of range must be refused and change nothing
		std::vector<Triangle> cur;
		shape->GetTriangles(cur);
		if (cur.size() < 2) applicable = false;
		else {
			std::vector<uint32_t> idx;
			for (size_t i = 0; i < cur.size(); i++) idx.push_back((uint32_t) ((cur.size() - i) % cur.size()));
			for (auto i : idx) wt.push_back(cur[i]);
			std::vector<uint32_t> shortList(idx.begin(), idx.end() - 1), badList = idx;
			badList[0] = (uint32_t) cur.size();
			bool r1 = nif.ReorderTriangles(shape, shortList), r2 = nif.ReorderTriangles(shape, badList);
			std::vector<Triangle> still;
			shape->GetTriangles(still);
			if (r1 || r2 || !vec_same(still, cur))
				viol(x, "setter:triangles-reorder:bad-list-not-refused", vf::strf("ReorderTriangles with a list of the wrong length returns %d, with an index out of range %d; triangles %s", (int) r1, (int) r2, vec_same(still, cur) ? "unchanged" : "changed"));
			if (!nif.ReorderTriangles(shape, idx)) viol(x, "setter:triangles-reorder:refused", "ReorderTriangles refuses a permutation of the triangle indices");
		}
	}
	else if (S.rfind("triangles", 0) == 0) {
		auto pool = tri_pool(V);
		if (S == "triangles-reversed") wt.assign(pool.rbegin(), pool.rend());
		else if (S == "triangles-empty") wt.clear();
		else if (S == "triangles-drop-first") { if (pool.empty()) applicable = false; else wt.assign(pool.begin() + 1, pool.end()); }
		else { if (pool.empty()) applicable = false; else { wt = pool; wt.push_back(pool[0]); wt.push_back(pool[0]); } }
		if (applicable) shape->SetTriangles(wt);
	}
	else if (S == "bounds") {
		wb = BoundingSphere(Vector3(L9[a2 % 9], L9[(a2 + 3) % 9], L9[(a2 + 6) % 9]), L9[(a2 + 5) % 9]);
		shape->SetBounds(wb);
	}
	else vf::fatal("unknown setter " + S);

	if (!applicable) { st.add("setter_not_applicable"); return; }
	st.add("setter_calls");
	st.add("setter_pairs_checked");

	Snap after = snapshot(nif, shape);
	const std::string K = "setter:" + S;
	// 1. the getter returns what was set, within the quantisation of the storage format
	auto check_value = [&](const Snap& s, bool reloaded, bool as_violation) -> bool {
		bool ok = true;
		if (S.rfind("positions", 0) == 0) ok = cmp_v3(x, w3, s.verts, fmt_pos(v, reloaded), fmt_pos(v, reloaded), fmt_pos(v, reloaded), why);
		else if (S == "uvs") ok = cmp_v2(x, w2, s.uvs, fmt_uv(v, reloaded), why);
		else if (S == "normals") ok = cmp_v3(x, w3, s.norms, fmt_nbt(v), fmt_nbt(v), fmt_nbt(v), why);
		else if (S == "tangents") ok = cmp_v3(x, w3, s.tans, fmt_nbt(v), fmt_nbt(v), fmt_nbt(v), why);
		else if (S == "bitangents") ok = cmp_v3(x, w3, s.bits, v.bs ? fmt_bitx(v, reloaded) : F_FLOAT, fmt_nbt(v), fmt_nbt(v), why);
		else if (S == "colours") ok = cmp_c4(x, w4, s.cols, fmt_col(v), why);
		else if (S == "eyedata") ok = cmp_f(x, w1, s.eye, F_FLOAT, why);
		else if (S.rfind("triangles", 0) == 0) ok = cmp_tris(wt, s.tris, why);
		else if (S == "bounds") {
			ok = std::memcmp(&wb, &s.bounds, sizeof wb) == 0;
			if (!ok) why = vf::strf("wrote centre (%.9g,%.9g,%.9g) r %.9g, read (%.9g,%.9g,%.9g) r %.9g", wb.center.x, wb.center.y, wb.center.z, wb.radius, s.bounds.center.x,
									s.bounds.center.y, s.bounds.center.z, s.bounds.radius);
		}
		if (!ok && as_violation) viol(x, K + ":getter-differs", "Set " + S + " then get: " + why);
		return ok;
	};
	check_value(after, false, true);
	// 2. nothing else is resized or altered (a changed vertex count is documented to drop the other data)
	if (!count_change) check_others(x, before, after, S.rfind("positions", 0) == 0 ? "positions" : S);
	else if (after.nv != w3.size()) viol(x, K + ":vertex-count", vf::strf("SetVertsForShape with %zu positions leaves a vertex count of %u", w3.size(), after.nv));
	// 3. every per-vertex array has the vertex count
	check_sizes(x, after, count_change ? std::string("after-positions-count-change") : "after-" + S);
	// 4. after Save+Load the arrays still have the vertex count.  Whether the value set survives the file is
	//    not part of the statement for setters (e.g. tangents are only stored when normals exist); it is
	//    recorded as an observation, not as a violation.
	NifFile re;
	const bool eye_on_shape = !after.eye.empty();
	const bool do_reload = !g_no_reload && !(eye_on_shape && g_eye_save_dies[c.ver]);
	if (!do_reload && !g_no_reload) st.add("save_load_left_out_eye_data_save_dies");
	NiShape* rs = do_reload ? reload(nif, re, x, "after-" + S) : nullptr;
	if (do_reload) st.add("save_loads");
	if (rs) {
		Snap r = snapshot(re, rs);
		if (reloaded) *reloaded = r;
		check_sizes(x, r, "reload-after-" + S);
		x.record = false;
		bool kept = check_value(r, true, false);
		x.record = true;
		if (!kept) {
			st.add("setter_value_not_kept_by_file");
			st.note(vf::strf("observed: value set with %s on %s (normals %s) is not kept by Save+Load", S.c_str(), storage_class(v), after.pN ? "present" : "absent"));
		}
	}
	st.distinct("outcomes", vf::strf("%s:%s:%s:%s", v.name, S.c_str(), BASES[c.base], x.failed ? "FAIL" : "ok"));
}

// ---------------------------------------------------------------- dispatch
static std::unordered_set<uint64_t> g_unit_distinct;

static void run_case(const Case& c, Stats& st) {
	vf::set_inflight(case_json(c).dump());
	if (c.fam == "small") {
		Mesh m = make_small_mesh(c.V, c.arr, c.trimask, c.uv, c.nrm);
		g_unit_distinct.insert(mesh_hash(c, m));
		run_create_case(c, m, st, false);
	}
	else if (c.fam == "boundary") {
		Mesh m = make_big_mesh(c.V, c.T, c.arr, c.uv, c.nrm);
		g_unit_distinct.insert(mesh_hash(c, m));
		run_create_case(c, m, st, true);
	}
	else if (c.fam == "setter") {
		Mesh m = make_small_mesh(c.V, c.arr, c.trimask, c.uv, c.nrm);
		g_unit_distinct.insert(mesh_hash(c, m));
		Snap ra, rb;
		run_setter_case(c, st, false, &ra);
		// 5. the file written after the setter call does not depend on whether the model had been saved before the call:
		//    history [create, populate, Save, set, Save] must read back exactly like [create, populate, set, Save]
		if (ra.ok && !g_no_reload && !(c.base == 2 && g_eye_save_dies[c.ver])) {
			Stats scratch;
			run_setter_case(c, scratch, true, &rb);
			st.add("save_loads", 2);
			if (rb.ok) {
				st.add("setter_presave_histories_compared");
				std::string d;
				if (ra.nv != rb.nv) d += "vertex-count ";
				if (!vec_same(ra.verts, rb.verts)) d += "positions ";
				if (!vec_same(ra.uvs, rb.uvs)) d += "uvs ";
				if (!vec_same(ra.norms, rb.norms)) d += "normals ";
				if (!vec_same(ra.tans, rb.tans)) d += "tangents ";
				if (!vec_same(ra.bits, rb.bits)) d += "bitangents ";
				if (!vec_same(ra.cols, rb.cols)) d += "colours ";
				if (!vec_same(ra.eye, rb.eye)) d += "eyedata ";
				if (!vec_same(ra.tris, rb.tris)) d += "triangles ";
				if (std::memcmp(&ra.bounds, &rb.bounds, sizeof(BoundingSphere)) != 0) d += "bounds ";
				if (!d.empty()) {
					Ctx x{st, c, g_vers[c.ver].name};
					viol(x, "setter:" + c.setter + ":file-depends-on-earlier-save", "Set " + c.setter + " then Save+Load reads back different { " + d + "} when the model had been saved once before the setter call");
				}
			}
		}
	}
	else vf::fatal("unknown family " + c.fam);
}

struct Unit {
	std::string fam;
	int ver, V, T;
	int setter;
};

// the cases of one unit, in a fixed order (the position in this list is the skip token after a crash)
static std::vector<Case> unit_cases(const Unit& U, bool thorough) {
	std::vector<Case> out;
	if (U.fam == "small") {
		size_t npool = tri_pool(U.V).size();
		for (int arr = 0; arr < 9; arr++)
			for (unsigned mask = 0; mask < (1u << npool); mask++)
				for (int uv = 0; uv < 2; uv++)
					for (int nr = 0; nr < 2; nr++)
						for (int fp = 0; fp < (g_vers[U.ver].half_pos ? 2 : 1); fp++) {
							Case c;
							c.fam = "small"; c.ver = U.ver; c.V = U.V; c.arr = arr; c.trimask = mask; c.uv = uv; c.nrm = nr; c.fullprec = fp != 0;
							out.push_back(c);
						}
	}
	else if (U.fam == "setter") {
		size_t npool = tri_pool(U.V).size();
		for (int arr = 0; arr < 9; arr++)
			for (int uv = 0; uv < 2; uv++)
				for (int nr = 0; nr < 2; nr++)
					for (int base = 0; base < (g_vers[U.ver].bs ? 3 : 2); base++) {
						Case c;
						c.fam = "setter"; c.ver = U.ver; c.V = U.V; c.arr = arr; c.trimask = (1u << npool) - 1; c.uv = uv; c.nrm = nr; c.base = base;
						c.setter = SETTERS[U.setter];
						out.push_back(c);
						// the same setter on a shape that was created without any triangle (three arrangements)
						if (arr % 3 == 0 && npool > 0) { c.trimask = 0; out.push_back(c); }
					}
	}
	else {
		// quick: attributes all present / all absent, one arrangement; thorough: all four presence
		// combinations and three arrangements (quick is a subset)
		int narr = thorough ? 3 : 1;
		for (int arr = 0; arr < narr; arr++)
			for (int uv = 0; uv < 2; uv++)
				for (int nr = 0; nr < 2; nr++) {
					if (!thorough && uv != nr) continue;
					Case c;
					c.fam = "boundary"; c.ver = U.ver; c.V = U.V; c.T = U.T; c.arr = arr * 4; c.uv = uv; c.nrm = nr;
					out.push_back(c);
				}
	}
	return out;
}

int main(int argc, char** argv) {
	A = vf::parse_args(argc, argv);
	Stats top;
	if (!A.replay.empty()) {
		J r = J::parse(vf::read_file(A.replay));
		Case c = case_from_json(r["case"]);
		// in a child, so that a crash is reported through the same path as during the enumeration
		vf::CrashInfo ci = vf::run_isolated(A.rundir, A.repo, 300, [&]() {
			Stats st;
			run_case(c, st);
			st.flush(stdout);
			return 0;
		});
		if (!ci.cls.empty()) top.violation("crash:" + ci.key(), "child died (" + ci.cls + " in " + ci.frame + ") :: " + vf::tab_safe(ci.text.substr(0, 500)), case_json(c));
		vf::finish(top);
		return 0;
	}
	const bool thorough = A.thorough();
	const int Vmax = (int) A.geti("vmax", thorough ? 6 : 5);
	std::vector<int> vers;
	for (int i = 0; i < NVER; i++) if (!A.has("version") || A.get("version") == g_vers[i].name) vers.push_back(i);
	if (vers.empty()) vf::fatal("unknown --version");
	const std::string only = A.get("family");

	std::vector<Unit> units;
	// big units first so that they do not end up alone at the tail
	static const int BV[3] = {65536, 65535, 1}, BT[3] = {65536, 65535, 0};
	if (only.empty() || only == "boundary")
		for (int bv : BV) for (int bt : BT) for (int vi : vers) units.push_back({"boundary", vi, bv, bt, 0});
	if (only.empty() || only == "small")
		for (int V = Vmax; V >= 1; V--) for (int vi : vers) units.push_back({"small", vi, V, 0, 0});
	if (only.empty() || only == "setter")
		for (int V = Vmax; V >= 1; V--) for (int vi : vers) for (int s = 0; s < NSETTERS; s++) units.push_back({"setter", vi, V, 0, s});

	// probe: does saving a shape with eye data survive?
	for (int vi : vers) {
		if (!g_vers[vi].bs) continue;
		Case pc0;
		pc0.fam = "setter"; pc0.ver = vi; pc0.V = 3; pc0.arr = 0; pc0.trimask = 3; pc0.base = 0; pc0.setter = "eyedata";
		vf::CrashInfo ci = vf::run_isolated(A.rundir, A.repo, 120, [&]() {
			Stats st;
			run_case(pc0, st);
			return 0;
		});
		top.add("probes");
		if (!ci.cls.empty()) {
			g_eye_save_dies[vi] = true;
			top.violation("crash:" + ci.key(), std::string(g_vers[vi].name) + ": SetEyeDataForShape followed by Save kills the process (" + ci.cls + " in " + ci.frame + ") :: " + vf::tab_safe(ci.text.substr(0, 500)),
						  case_json(pc0));
			top.note(std::string("Save of a ") + g_vers[vi].name + " shape carrying eye data dies under the sanitizer (" + ci.key() + "); cases whose shape carries eye data are checked in memory only, their Save+Load step is left out (counter save_load_left_out_eye_data_save_dies)");
		}
	}

	vf::PoolCfg pc;
	pc.jobs = A.jobs;
	pc.rundir = A.rundir;
	pc.repo = A.repo;
	pc.max_restarts_per_unit = 400; // a unit holds at most 72 setter cases; each may need two restarts

	auto unit_fn = [&](size_t u, const std::vector<std::string>& skips, long, Stats& st) {
		const Unit& U = units[u];
		// a case that killed the worker once is repeated without its Save+Load step (its in-memory checks
		// still count); if it kills the worker again it is left out
		std::map<long, int> died;
		for (auto& s : skips) died[atol(s.c_str())]++;
		g_unit_distinct.clear();
		std::vector<Case> cases = unit_cases(U, thorough);
		for (size_t k = 0; k < cases.size(); k++) {
			if ((k & 15) == 0 && vf::deadline_passed()) {
				st.capped(vf::strf("deadline inside unit %s/%s/V=%d", U.fam.c_str(), g_vers[U.ver].name, U.V));
				break;
			}
			int d = died.count((long) k) ? died[(long) k] : 0;
			if (d >= 2) { st.add("cases_left_out_after_two_crashes"); continue; }
			g_no_reload = d == 1;
			if (g_no_reload) st.add("cases_repeated_without_save_load_after_crash");
			run_case(cases[k], st);
			g_no_reload = false;
			if (st.samples.empty() && (k % 97) == 5) st.sample(case_json(cases[k]));
		}
		st.add("units");
		st.add("distinct_nontrivial", (long long) g_unit_distinct.size());
		st.add(("distinct_" + U.fam).c_str(), (long long) g_unit_distinct.size());
	};
	// crash: report it with the in-flight case, then restart the unit (see unit_fn for what happens to the case)
	auto crash_fn = [&](size_t u, const vf::CrashInfo& ci, const std::string& inflight, Stats& parent) -> std::string {
		J cj;
		try { cj = J::parse(inflight); } catch (std::exception&) { cj = J::obj().set("unparsed", inflight.substr(0, 200)); }
		parent.violation("crash:" + ci.key(), "worker died (" + ci.cls + " in " + ci.frame + ") while running " + inflight.substr(0, 400) + " :: " + vf::tab_safe(ci.text.substr(0, 500)), cj);
		parent.add("worker_crashes");
		if (!cj.has("family")) return "";
		Case c = case_from_json(cj);
		std::vector<Case> cases = unit_cases(units[u], thorough);
		std::string want = case_json(c).dump();
		for (size_t k = 0; k < cases.size(); k++) if (case_json(cases[k]).dump() == want) return std::to_string(k);
		return "";
	};
	vf::run_pool(units.size(), pc, unit_fn, crash_fn, top);

	top.set_info("rule",
				 vf::strf("complete product, no sampling. small: %zu versions x V=1..%d x 9 cyclic arrangements of the lattice {0,1,-1,0.1,1/3,1000.5,65504,1e-5,-0.0} "
						  "(vertex i = (L[i+a], L[2i+a+1], L[4i+a+2]), pairwise distinct) x every subset of the fixed triangle pool of that V (V=3: 2, V>=4: 6 triangles; "
						  "V<3: empty) x UVs present/absent x normals present/absent (unit vectors built from lattice values, and the zero vector); FO4/FO76 additionally with "
						  "BSTriShape::SetFullPrecision(true) after creation (float positions in the file). "
						  "setter: same V/arrangements/presence, full pool as triangle list x base {as created; UVs, normals, tangents, bitangents, colours populated; the same plus eye data (BSTriShape family)} x %d setter/getter pairs "
						  "(positions same count/+1/-1, uvs, normals, tangents, bitangents, colours, eye data, 4 triangle lists, bounds). "
						  "boundary: V in {1,65535,65536} x T in {0,65535,65536} x %s. "
						  "distinct_nontrivial = distinct (version, family, setter, base, mesh) inputs by value (hash of all vertex/triangle/UV/normal bytes); every case is non-trivial "
						  "(a shape is created, read back, saved and reloaded)",
						  vers.size(), Vmax, NSETTERS, thorough ? "all 4 UV/normal presence combinations x 3 arrangements" : "attributes all present / all absent"));
	top.set_info("tolerances",
				 "float-stored attributes: bit-exact. half-stored (FO4/FO76 positions and bitangent.x, SSE/FO4/FO76 UVs; only after Save+Load): |err| <= 1 half ulp of the "
				 "written value (half.hpp rounds to nearest: counter half_values_not_rounded_to_nearest stays 0). BSTriShape normals/tangents/bitangent y,z: byte = "
				 "round((x+1)/2*255), read b/255*2-1, one step = 2/255 allowed (observed <= 1/255). BSTriShape colours: byte = floor(f*256) (255 for 1.0), read b/255, one step = "
				 "1/255 allowed. max_err_* are the largest observed errors in millionths of the allowed error");
	top.set_info("vmax", Vmax);
	top.note("V=65536 and T beyond NifFile::GetTriangleLimit() are outside the documented limits: only memory safety is required there; what the library does is recorded in the 'observed beyond limit' notes");
	top.note("setter values after Save+Load are observed ('observed: value set ... not kept' notes), not required: the statement demands reload fidelity only for created geometry");
	top.note("size-mismatching setter input (documented as caller error: 'size needs to match the current vertex count') is not generated, except SetVertsForShape, which documents the count change");
	vf::finish(top);
	return 0;
}
