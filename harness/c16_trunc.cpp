// C16: truncated files never crash the loader.  Fault enumeration over crash points: every
// prefix of every corpus file (every byte offset for files <= 16 KiB; boundary-directed for
// larger files), each run through Load + query battery + Save under ASan/UBSan with a watchdog.
#include "e3.hpp"

using namespace nifly;
using namespace e3;

static vf::Args A;
static int g_watchdog = 5;

static std::vector<size_t> cut_points(const std::string& bytes, size_t full_limit, Stats& st) {
	std::vector<size_t> cuts;
	if (bytes.size() <= full_limit) {
		for (size_t i = 0; i < bytes.size(); i++) cuts.push_back(i);
		return cuts;
	}
	// boundary-directed: every typed-read boundary of a clean load (+-1, +width-1), first 3
	// occurrences of each call site per block, plus a stride
	np::Header h = np::parse(bytes);
	std::istringstream is(bytes, std::ios::binary);
	struct Rd { size_t pos, width; const void* site; };
	std::vector<Rd> reads;
	e1::g_ctx.on_announce = [&](int, size_t width, const void* site) {
		std::streampos p = is.rdbuf()->pubseekoff(0, std::ios::cur, std::ios::in);
		if (p >= 0) reads.push_back({(size_t) p, width, site});
	};
	{
		NifFile n;
		NifLoadOptions lo;
		n.Load(is, lo);
	}
	e1::g_ctx.on_announce = nullptr;
	std::map<std::pair<const void*, size_t>, int> occ;
	std::set<size_t> set;
	for (auto& r : reads) {
		size_t blk = 0;
		if (h.ok && h.has_sizes) blk = (size_t) (std::upper_bound(h.block_off.begin(), h.block_off.end(), r.pos) - h.block_off.begin());
		if (occ[{r.site, blk}]++ >= 3) continue;
		for (long long d : {-1LL, 0LL, 1LL, (long long) r.width - 1, (long long) r.width}) {
			long long c = (long long) r.pos + d;
			if (c >= 0 && (size_t) c < bytes.size()) set.insert((size_t) c);
		}
	}
	size_t stride = (h.ok && h.has_sizes) ? 4096 : 512;
	for (size_t c = 0; c < bytes.size(); c += stride) set.insert(c);
	if (h.ok) {
		for (size_t c = 0; c < std::min(h.hdr_end + 64, bytes.size()); c++) set.insert(c); // the whole header, byte by byte
		for (auto o : h.block_off) for (long long d : {-1LL, 0LL, 1LL}) if ((long long) o + d >= 0 && o + d < bytes.size()) set.insert((size_t) ((long long) o + d));
	}
	for (size_t c = bytes.size() > 12 ? bytes.size() - 12 : 0; c < bytes.size(); c++) set.insert(c);
	cuts.assign(set.begin(), set.end());
	st.add("typed_reads_seen", (long long) reads.size());
	return cuts;
}

static J case_of(const Entry& e, size_t cut) {
	return J::obj().set("entry", e.label).set("cut", (long long) cut);
}

static bool find_entry(const std::string& label, Entry& e) {
	if (label.rfind("file:", 0) == 0) { e.label = label; e.keyname = label.substr(5); e.sample = true; return true; }
	size_t at = label.find('@');
	if (at == std::string::npos) return false;
	e.label = e.keyname = label;
	e.type = label.substr(0, at);
	e.version = label.substr(at + 1);
	return true;
}

int main(int argc, char** argv) {
	A = vf::parse_args(argc, argv);
	e1::install_hooks();
	arm_watchdog();
	bat::g_step_hook = vf::set_step;
	Stats top;
	bool thorough = A.thorough();
	g_watchdog = (int) A.geti("watchdog", thorough ? 20 : 5);
	size_t full_limit = (size_t) A.geti("fulllimit", 16384);

	if (!A.replay.empty()) {
		J c = J::parse(vf::read_file(A.replay))["case"];
		Entry e;
		if (!find_entry(c["entry"].str(), e)) vf::fatal("replay: bad entry");
		std::string bytes = entry_bytes(e, A.repo);
		size_t cut = (size_t) c["cut"].i64();
		vf::CrashInfo ci = vf::run_isolated(A.rundir, A.repo, g_watchdog * 4, [&]() { return workload_truncated(bytes.substr(0, cut)); });
		std::string step0 = vf::g_last_step;
		top.add("evaluations");
		if (!ci.cls.empty()) top.violation(crash_key(ci, A.repo, step0), vf::strf("%s truncated to %zu of %zu bytes: %s", e.keyname.c_str(), cut, bytes.size(), ci.text.substr(0, 400).c_str()), c);
		vf::finish(top);
		return 0;
	}

	// quick: sample files up to 64 KiB + S1 for one version per game; thorough: everything
	std::vector<Entry> ents = corpus(A.repo, thorough, (size_t) 1 << 30, A.geti("s1", 1) != 0);
	if (!thorough) {
		// quick: the 6 smallest sample files
		std::vector<std::pair<size_t, std::string>> sz;
		for (auto& e : ents) if (e.sample) sz.push_back({vf::read_file(A.repo + "/tests/" + e.label.substr(5)).size(), e.label});
		std::sort(sz.begin(), sz.end());
		std::set<std::string> keep;
		for (size_t i = 0; i < sz.size() && i < (size_t) A.geti("nsamples", 6); i++) keep.insert(sz[i].second);
		std::vector<Entry> f;
		for (auto& e : ents) if (!e.sample || keep.count(e.label)) f.push_back(e);
		ents = f;
	}
	if (A.has("entry")) { Entry e; if (!find_entry(A.get("entry"), e)) vf::fatal("bad --entry"); ents = {e}; }

	vf::PoolCfg pc;
	pc.jobs = A.jobs;
	pc.rundir = A.rundir;
	pc.repo = A.repo;
	pc.max_restarts_per_unit = 2000;
	vf::run_pool(ents.size(), pc,
		[&](size_t u, const std::vector<std::string>& skips, long resume, Stats& st) {
			const Entry& e = ents[u];
			std::string bytes = entry_bytes(e, A.repo);
			if (bytes.empty()) { st.add("entries_not_built"); return; }
			Stats scratch;
			std::vector<size_t> cuts = cut_points(bytes, full_limit, skips.empty() ? st : scratch);
			size_t start = skips.empty() ? 0 : (size_t) resume + 1;
			if (skips.empty()) {
				st.add("entries");
				st.add(bytes.size() <= full_limit ? "entries_every_byte" : "entries_boundary_directed");
				if (u % 97 == 0) st.sample(case_of(e, cuts.size() / 2).set("file_bytes", (long long) bytes.size()).set("cuts_for_this_entry", (long long) cuts.size()));
			}
			std::set<uint64_t> outcomes;
			size_t done = 0;
			for (size_t k = start; k < cuts.size(); k++) {
				if (vf::deadline_passed()) { st.capped("deadline inside " + e.label); break; }
				vf::set_inflight(case_of(e, cuts[k]).dump());
				vf::set_progress((long) k);
				vf::watch_start(g_watchdog);
				{
					vf::set_step("Load");
					NifFile n;
					int rc = s1::load(n, bytes.substr(0, cuts[k]));
					bool valid = n.IsValid();
					if (valid) {
						bat::Opt o;
						o.index_free = false;
						o.hash_only = true;
						std::string t = bat::model_text(n, o);
						vf::set_step("Save");
						std::string out = s1::save(n, false);
						vf::set_step("destroy");
						outcomes.insert(vf::fnv(t, (uint64_t) rc));
					}
					else outcomes.insert((uint64_t) rc);
					st.add(valid ? "prefixes_loaded_partially" : "prefixes_rejected");
				}
				vf::watch_stop();
				done++;
				st.add("evaluations");
			}
			st.add("distinct_nontrivial", (long long) done);
			st.add("distinct_outcomes", (long long) outcomes.size());
		},
		[&](size_t u, const vf::CrashInfo& ci, const std::string& inflight, Stats& parent) -> std::string {
			J c;
			try { c = J::parse(inflight); } catch (std::exception&) { parent.add("worker_deaths_unattributed"); return ""; }
			const Entry& e = ents[u];
			std::string bytes = entry_bytes(e, A.repo);
			size_t cut = (size_t) c["cut"].i64();
			std::string step0 = vf::g_last_step;
			parent.add("evaluations");
			std::string key0 = crash_key(ci, A.repo, step0);
			static std::map<std::string, int> confirmed;
			if (confirmed[key0] >= 2) {
				parent.add("faulting_placements");
				parent.violation(key0, vf::strf("%s truncated to %zu of %zu bytes: %s", e.keyname.c_str(), cut, bytes.size(), ci.cls.c_str()), c);
				return "skip";
			}
			// replay before report: run the placement alone, with a longer limit
			vf::CrashInfo again = vf::run_isolated(A.rundir, A.repo, g_watchdog * 4, [&]() { return workload_truncated(bytes.substr(0, cut)); });
			if (!again.cls.empty()) confirmed[key0]++;
			if (again.cls.empty()) {
				parent.add("faults_not_reproduced");
				parent.note("not reproduced alone: " + crash_key(ci, A.repo, step0) + " on " + inflight);
				return "skip";
			}
			parent.add("faulting_placements");
			parent.violation(crash_key(again, A.repo, vf::g_last_step), vf::strf("%s truncated to %zu of %zu bytes: %s", e.keyname.c_str(), cut, bytes.size(), again.cls.c_str()), c);
			return "skip";
		},
		top);
	top.set_info("rule", vf::strf("crash points = every prefix length 0..size-1 for files <= %zu bytes; for larger files every typed-read boundary of a clean load "
								  "(-1, 0, +1, +width-1, +width; first 3 occurrences of a call site per block), block boundaries +-1, the whole header and the last 12 "
								  "bytes byte by byte, and a 4 KiB stride (512 B without a size table); each prefix: Load, and if the model reports valid the query "
								  "battery and a default Save, under ASan+UBSan with a %d s watchdog; distinct_nontrivial = prefixes strictly shorter than the file",
								  full_limit, g_watchdog));
	vf::finish(top);
	return 0;
}
