// E3: fault enumeration (C15 corrupted references, C16 truncation).  Shared parts: corpus,
// workloads, watchdog, crash attribution and confirmation.  See DESIGN.md 3.7.
#pragma once
#include "battery.hpp"
#include "canon.hpp"
#include "s1.hpp"
#include "sp.hpp"
#include "built.hpp"

#include <dirent.h>

extern "C" void __sanitizer_print_stack_trace(void);

namespace e3 {
using namespace nifly;
using vf::J;
using vf::Stats;

struct Entry {
	std::string label;	 // "file:input/x.nif" or "Type@Version"
	std::string keyname; // short name used in messages
	std::string type, version;
	bool sample = false;
};

inline std::vector<std::string> sample_files(const std::string& repo) {
	std::vector<std::string> r;
	for (const char* sub : {"input", "expected"}) {
		std::string dir = repo + "/tests/" + sub;
		DIR* d = opendir(dir.c_str());
		if (!d) continue;
		std::vector<std::string> names;
		while (auto e = readdir(d)) {
			std::string n = e->d_name;
			if (n.size() > 4 && n.substr(n.size() - 4) == ".nif") names.push_back(n);
		}
		closedir(d);
		std::sort(names.begin(), names.end());
		for (auto& n : names) r.push_back(std::string(sub) + "/" + n);
	}
	return r;
}

// bytes of a corpus entry: sample files as they are on disk; S1 = the all-defaults (most populated)
// instance of (type, version) wrapped into a file
inline std::string entry_bytes(const Entry& e, const std::string& repo) {
	if (e.sample) return vf::read_file(repo + "/tests/" + e.label.substr(5));
	const e1::VerCfg* vc = nullptr;
	for (auto& v : e1::all_versions()) if (e.version == v.name) vc = &v;
	if (!vc) return "";
	e1::Script none;
	if (e.type.rfind("built:", 0) == 0) return built::build(e.type.substr(6), *vc);
	if (e.type.rfind("chain:", 0) == 0) {
		for (auto& ch : sp::chains())
			if (e.type == std::string("chain:") + ch.name) { sp::Built b = sp::build(ch, *vc, 0, none, true); return b.ok ? b.file : std::string(); }
		return "";
	}
	s1::Built b = s1::build_s1(e.type, *vc, none, true);
	return b.ok ? b.file : std::string();
}

inline std::vector<Entry> corpus(const std::string& repo, bool all_versions, size_t max_samples_bytes, bool with_s1 = true) {
	std::vector<Entry> r;
	for (auto& f : sample_files(repo)) {
		std::string bytes = vf::read_file(repo + "/tests/" + f);
		if (bytes.size() > max_samples_bytes) continue;
		Entry e;
		e.label = "file:" + f;
		e.keyname = f;
		e.sample = true;
		r.push_back(e);
	}
	if (with_s1) {
		// linked chains (shape -> data / skin / shader / texture blocks), all-defaults members
		for (auto& ch : sp::chains())
			for (auto vn : ch.versions) {
				Entry e;
				e.type = std::string("chain:") + ch.name;
				e.version = vn;
				e.label = e.type + "@" + vn;
				e.keyname = e.label;
				r.push_back(e);
			}
		// API-built multi-shape models
		for (auto& bm : built::models())
			for (auto vn : bm.versions) {
				Entry e;
				e.type = std::string("built:") + bm.name;
				e.version = vn;
				e.label = e.type + "@" + vn;
				e.keyname = e.label;
				r.push_back(e);
			}
		auto vers = all_versions ? e1::all_versions() : e1::game_versions();
		for (auto& t : e1::all_type_names())
			for (auto& v : vers) {
				Entry e;
				e.label = t + "@" + v.name;
				e.keyname = e.label;
				e.type = t;
				e.version = v.name;
				r.push_back(e);
			}
	}
	return r;
}

// ---- watchdog: on SIGALRM print the stack through the sanitizer runtime, then exit 99 ----
inline void on_alarm(int) {
	__sanitizer_print_stack_trace();
	_exit(99);
}
inline void arm_watchdog() {
	struct sigaction sa;
	memset(&sa, 0, sizeof sa);
	sa.sa_handler = on_alarm;
	sigaction(SIGALRM, &sa, nullptr);
	sigaction(SIGPROF, &sa, nullptr); // vf::watch_start: CPU-time limit
}

// Finding key for a dead child.  Memory errors / UB: error class + innermost nifly frame.
// Hangs and stack exhaustion: error class + OUTERMOST nifly frame (the API entry point), because
// the innermost frame of a loop / recursion depends on where the signal landed.
inline std::string crash_key(const vf::CrashInfo& ci, const std::string& repo, const std::string& step = "") {
	std::string cls = ci.cls;
	if (WIFEXITED(ci.status) && WEXITSTATUS(ci.status) == 99) cls = "timeout";
	bool outer = cls == "timeout" || cls == "stack-overflow";
	std::string frame = ci.frame;
	if (outer && !step.empty()) {
		std::string st = step;
		for (auto& c : st) if (c == ' ') c = '_';
		return cls + "@" + st;
	}
	if (outer) {
		std::istringstream is(ci.text);
		std::string line, last;
		while (std::getline(is, line)) {
			size_t in = line.find(" in ");
			if (line.find("    #") != 0 || in == std::string::npos) continue;
			std::string rest = line.substr(in + 4);
			if (rest.find(repo + "/src/") != std::string::npos || rest.find(repo + "/include/") != std::string::npos) {
				size_t sp = rest.rfind(" /");
				last = vf::sanitize_fn(rest.substr(0, sp));
			}
		}
		if (!last.empty()) frame = last;
	}
	return cls + "@" + (frame.empty() ? "?" : frame);
}

// ---- workloads ----
// C16: Load(prefix); whatever it returns, if the model reports valid run the query battery and Save; destroy.
inline int workload_truncated(const std::string& bytes) {
	bat::g_step_hook = vf::set_step;
	vf::set_step("Load");
	NifFile n;
	s1::load(n, bytes);
	if (n.IsValid()) {
		bat::Opt o;
		o.index_free = false;
		o.hash_only = true;
		std::string t = bat::model_text(n, o);
		vf::set_step("Save");
		std::string out = s1::save(n, false);
		(void) t;
		(void) out;
	}
	vf::set_step("destroy");
	return 0;
}

// C15: Load -> query battery -> copy -> Save(default) -> Load of the output -> destroy.
// returns 0 = fine, 3 = saved output does not load (a property violation without a crash)
inline int workload_corrupted(const std::string& bytes) {
	bat::g_step_hook = vf::set_step;
	vf::set_step("Load");
	NifFile n;
	int rc = s1::load(n, bytes);
	if (rc != 0 || !n.IsValid()) return 0; // rejecting the file is acceptable
	bat::Opt o;
	o.index_free = false;
	o.hash_only = true;
	std::string t = bat::model_text(n, o);
	(void) t;
	vf::set_step("copy");
	{
		NifFile copy(n);
		bat::Opt o2;
		o2.heavy = false;
		o2.hash_only = true;
		std::string t2 = bat::model_text(copy, o2);
		(void) t2;
	}
	vf::set_step("Save");
	std::string out = s1::save(n, false);
	if (out.empty()) return 3;
	vf::set_step("reload of saved output");
	NifFile m;
	if (s1::load(m, out) != 0) return 3;
	vf::set_step("destroy");
	return 0;
}

} // namespace e3
