// Saved-file canonicalisation: a save is recorded together with the offsets of every string-index
// field (write-side announce hook), then rendered as segments [header, block 0, block 1, ...] in
// which the string table is a sorted set and every string index is replaced by the string it
// denotes.  Two saves that differ only in string-table numbering have equal canonical forms.
#pragma once
#include "nifparse.hpp"
#include "s1.hpp"

namespace canon {
using namespace nifly;

struct Saved {
	std::string bytes;
	std::vector<uint64_t> stridx; // absolute offsets of 4-byte string-index fields
	std::vector<uint64_t> refs;	  // absolute offsets of 4-byte block reference fields
	int rc = 0;
};

inline Saved save_with(NifFile& nif, bool optimize, bool sortBlocks);
inline Saved save(NifFile& nif, bool raw) { return save_with(nif, !raw, !raw); }
inline Saved save_with(NifFile& nif, bool optimize, bool sortBlocks) {
	Saved s;
	std::ostringstream os(std::ios::binary);
	e1::WriteRecorder rec;
	rec.attach(&os);
	NifSaveOptions o;
	o.optimize = optimize;
	o.sortBlocks = sortBlocks;
	s.rc = nif.Save(os, o);
	rec.detach();
	s.bytes = os.str();
	for (auto& f : rec.fields) {
		if (f.kind == nifly::verif::K_STRIDX && f.width == 4) s.stridx.push_back(f.off);
		else if (f.kind == nifly::verif::K_REF && f.width == 4) s.refs.push_back(f.off);
	}
	return s;
}

struct Canon {
	bool parsed = false;
	std::vector<std::string> seg;		 // seg[0] = header, seg[1+i] = block i (or one body segment without a size table)
	std::vector<std::string> block_type; // per block
};

inline Canon canonical(const Saved& s) {
	Canon c;
	np::Header h = np::parse(s.bytes);
	if (!h.ok) {
		c.seg.push_back(s.bytes);
		return c;
	}
	c.parsed = true;
	std::string hdr;
	if (h.has_strings) {
		hdr = s.bytes.substr(0, h.off_strings);
		std::vector<std::string> set = h.strings;
		std::sort(set.begin(), set.end());
		set.erase(std::unique(set.begin(), set.end()), set.end());
		hdr += "<STRINGS";
		for (auto& t : set) hdr += "|" + t;
		hdr += ">";
		hdr += s.bytes.substr(h.end_strings, h.hdr_end - h.end_strings);
	}
	else
		hdr = s.bytes.substr(0, h.hdr_end);
	c.seg.push_back(hdr);
	auto render = [&](size_t from, size_t to) {
		std::string o;
		size_t pos = from;
		auto lo = std::lower_bound(s.stridx.begin(), s.stridx.end(), (uint64_t) from);
		for (auto it = lo; it != s.stridx.end() && *it + 4 <= to; ++it) {
			if (*it < pos) continue;
			o += s.bytes.substr(pos, *it - pos);
			uint32_t idx;
			memcpy(&idx, s.bytes.data() + *it, 4);
			if (idx == 0xFFFFFFFFu) o += "<S:NPOS>";
			else if (idx < h.strings.size()) o += "<S:" + h.strings[idx] + ">";
			else o += "<S:OUT-OF-RANGE>";
			pos = *it + 4;
		}
		o += s.bytes.substr(pos, to - pos);
		return o;
	};
	if (h.has_sizes && h.blocks_end + 8 == s.bytes.size()) {
		for (size_t i = 0; i < h.block_off.size(); i++) {
			c.seg.push_back(render(h.block_off[i], h.block_off[i] + h.sizes[i]));
			c.block_type.push_back(h.type_of(i));
		}
		c.seg.push_back(s.bytes.substr(h.blocks_end));
	}
	else
		c.seg.push_back(render(h.hdr_end, s.bytes.size()));
	return c;
}

// "" when equal, else a description of the first difference
inline std::string diff(const Canon& a, const Canon& b) {
	if (a.seg.size() != b.seg.size()) return "block count differs: " + std::to_string(a.seg.size()) + " vs " + std::to_string(b.seg.size()) + " segments";
	for (size_t i = 0; i < a.seg.size(); i++) {
		if (a.seg[i] == b.seg[i]) continue;
		std::string where = i == 0 ? "header" : (i - 1 < a.block_type.size() ? "block " + std::to_string(i - 1) + " (" + a.block_type[i - 1] + ")" : "body/footer");
		size_t n = std::min(a.seg[i].size(), b.seg[i].size()), k = 0;
		while (k < n && a.seg[i][k] == b.seg[i][k]) k++;
		return where + " differs: lengths " + std::to_string(a.seg[i].size()) + " vs " + std::to_string(b.seg[i].size()) + ", first difference at canonical offset "
			   + std::to_string(k);
	}
	return "";
}
inline std::string first_block_type_differing(const Canon& a, const Canon& b) {
	if (a.seg.size() != b.seg.size()) return "count";
	for (size_t i = 0; i < a.seg.size(); i++)
		if (a.seg[i] != b.seg[i]) return i == 0 ? "header" : (i - 1 < a.block_type.size() ? a.block_type[i - 1] : "body");
	return "";
}

} // namespace canon
