// C12 model recipes: small Skyrim LE (stream 83) / SE (stream 100) models built through the nifly
// API over a feature product (skin weight placement, primitive kind, segments, vertex colours,
// model-space-normal flag, sibling name clashes, shader variant, mesh).  A recipe is a plain
// tuple of small integers; build() turns it into the bytes of a saved file.  Nothing here is
// random: every attribute value is a fixed function of (mesh, shape salt, vertex index), chosen
// pairwise distinct.
#pragma once
#include "common.hpp"

#include "NifFile.hpp"
#include "NifUtil.hpp"

#include <array>
#include <sstream>

namespace c12 {
using namespace nifly;
using vf::J;

enum Ver { V_LE = 0, V_SE = 1 };
// where the per-vertex bone weights live
enum Skin {
	SKIN_NONE = 0,		// unskinned
	SKIN_BOTH = 1,		// NiSkinData and partition / vertex data agree (what the API produces)
	SKIN_DATA_ONLY = 2, // weights only in NiSkinData (LE: partitions without vertex weights, SE: vertex data weights zero)
	SKIN_PART_ONLY = 3, // weights only in the partition (LE) / partition vertex data (SE); NiSkinData hasVertWeights = 0
	SKIN_NO_BONES = 4	// skin instance lists bones, NiSkinData carries no weights, UpdateSkinPartitions therefore
						// produced partitions with numBones == 0 (SE: the vertex data still carries weights)
};
enum Kind {
	KIND_TRI = 0,	 // LE NiTriShape / SE BSTriShape
	KIND_STRIPS = 1, // LE NiTriStrips (partitions stripped as well when skinned)
	KIND_SEG = 2,	 // LE BSSegmentedTriShape / SE BSSubIndexTriShape with two segments
	KIND_DYN = 3	 // SE BSDynamicTriShape (skinned only: head part)
};
enum Col { COL_NONE = 0, COL_WHITE = 1, COL_MIXED = 2 };
enum Clash {
	CLASH_NONE = 0,		 // root: "Shape", "Other"
	CLASH_PAIR = 1,		 // root: "Shape", "Shape"
	CLASH_SUFFIXED = 2,	 // root: "Shape_1", "Shape", "Shape"  (the obvious new name is already taken)
	CLASH_CHILD = 3,	 // root -> "Grp": "Shape", "Shape"
	CLASH_GRANDCHILD = 4 // root -> "Grp" -> "Sub": "Shape", "Shape"
};

inline const char* skin_name(int s) {
	static const char* n[] = {"unskinned", "both-sources", "skindata-only-weights", "partition-only-weights", "partitions-without-bones"};
	return s >= 0 && s < 5 ? n[s] : "?";
}
inline const char* kind_name(int k) {
	static const char* n[] = {"triangles", "strips", "segments", "dynamic"};
	return k >= 0 && k < 4 ? n[k] : "?";
}
inline const char* col_name(int c) {
	static const char* n[] = {"none", "all-white", "mixed"};
	return c >= 0 && c < 3 ? n[c] : "?";
}
inline const char* clash_name(int c) {
	static const char* n[] = {"none", "pair", "pair+taken-suffix", "pair-under-child", "pair-under-grandchild"};
	return c >= 0 && c < 5 ? n[c] : "?";
}

struct Recipe {
	int ver = V_LE, skin = 0, kind = 0, col = 0, msn = 0, clash = 0, shader = 0, mesh = 0;

	bool valid() const {
		if (ver == V_LE) {
			if (kind == KIND_DYN) return false;
		}
		else {
			if (kind == KIND_STRIPS) return false;
			if (kind == KIND_DYN && skin == SKIN_NONE) return false;
		}
		return true;
	}
	// default-valued fields are omitted so that simpler recipes have shorter replay files
	J json() const {
		J j = J::obj();
		j.set("ver", ver == V_LE ? "LE" : "SE");
		if (skin) j.set("skin", skin);
		if (kind) j.set("kind", kind);
		if (col) j.set("col", col);
		if (msn) j.set("msn", msn);
		if (clash) j.set("clash", clash);
		if (shader) j.set("shader", shader);
		if (mesh) j.set("mesh", mesh);
		return j;
	}
	static Recipe from(const J& j) {
		Recipe r;
		r.ver = j["ver"].str() == "SE" ? V_SE : V_LE;
		r.skin = (int) j["skin"].i64();
		r.kind = (int) j["kind"].i64();
		r.col = (int) j["col"].i64();
		r.msn = (int) j["msn"].i64();
		r.clash = (int) j["clash"].i64();
		r.shader = (int) j["shader"].i64();
		r.mesh = (int) j["mesh"].i64();
		return r;
	}
	std::string id() const {
		return vf::strf("%s/s%d/k%d/c%d/n%d/d%d/h%d/m%d", ver == V_LE ? "LE" : "SE", skin, kind, col, msn, clash, shader, mesh);
	}
};

// ---------- meshes ----------
struct Mesh {
	std::vector<Vector3> v, n;
	std::vector<Vector2> uv;
	std::vector<std::vector<uint16_t>> strips;
	std::vector<Triangle> tris; // == GenerateTrianglesFromStrips(strips)
	int nbones = 0;
	std::vector<std::vector<std::pair<int, float>>> w; // per vertex (bone, weight), sums to 1, all distinct
	std::vector<int> triParts;						   // partition of each triangle (skinned models)
	int nparts = 1;
	bool looseTriangle = false; // LE only: one more triangle is added to the shape after the partitions were built (it lies in no partition)
};

inline Mesh make_mesh(int mesh, int salt) {
	Mesh m;
	int nv = 4;
	switch (mesh) {
		case 0:
			nv = 4;
			m.strips = {{0, 1, 2, 3}};
			m.nbones = 3;
			m.w = {{{0, 1.0f}}, {{0, 0.75f}, {1, 0.25f}}, {{0, 0.5f}, {1, 0.3125f}, {2, 0.1875f}}, {{1, 0.625f}, {2, 0.375f}}};
			m.nparts = 1;
			break;
		case 1:
			// five bones; vertex 2 is weighted to all five (truncation to the four largest, renormalised)
			nv = 5;
			m.strips = {{0, 1, 2, 3, 4}};
			m.nbones = 5;
			m.w = {{{0, 0.5625f}, {1, 0.4375f}},
				   {{1, 1.0f}},
				   {{0, 0.375f}, {1, 0.25f}, {2, 0.1875f}, {3, 0.125f}, {4, 0.0625f}},
				   {{2, 0.6875f}, {4, 0.3125f}},
				   {{3, 0.8125f}, {4, 0.125f}, {0, 0.0625f}}};
			m.nparts = 1;
			break;
		case 3: {
			// 85 bones in one partition: LE has no bone limit per partition, SE allows 80, so a conversion has to split
			nv = 30;
			std::vector<uint16_t> strip;
			for (int i = 0; i < nv; i++) strip.push_back((uint16_t) i);
			m.strips = {strip};
			m.nbones = 85;
			for (int i = 0; i < nv; i++) m.w.push_back({{(3 * i) % 85, 0.5f}, {(3 * i + 1) % 85, 0.3125f}, {(3 * i + 2) % 85, 0.1875f}});
			m.nparts = 1;
			break;
		}
		case 4:
			m.looseTriangle = true;
			// fall through: the two-partition mesh
		default:
			// two strips, four triangles, two interleaved partitions
			nv = 6;
			m.strips = {{0, 1, 2, 3}, {2, 3, 4, 5}};
			m.nbones = 4;
			m.w = {{{0, 1.0f}},
				   {{0, 0.6875f}, {1, 0.3125f}},
				   {{0, 0.4375f}, {1, 0.28125f}, {2, 0.1875f}, {3, 0.09375f}},
				   {{1, 0.5625f}, {2, 0.4375f}},
				   {{2, 0.75f}, {3, 0.25f}},
				   {{3, 0.875f}, {0, 0.125f}}};
			m.nparts = 2;
			break;
	}
	m.tris = GenerateTrianglesFromStrips(m.strips);
	for (size_t t = 0; t < m.tris.size(); t++) m.triParts.push_back(m.nparts == 1 ? 0 : (int) (t % 2));
	for (int i = 0; i < nv; i++) {
		float fi = (float) i, fs = (float) salt;
		m.v.push_back(Vector3((float) (i % 2) + 0.125f * fi + 10.0f * fs + 0.5f, (float) (i / 2) + 0.0625f * fi * fi - 3.0f,
							  0.25f * fi + 0.03125f * (float) ((i * 7) % 5) + 1.0f + fs));
		m.uv.push_back(Vector2(0.125f + 0.1f * fi + 0.01f * fs, 0.9f - 0.11f * fi - 0.01f * fs));
		Vector3 nn(0.1f * fi + 0.05f, 0.2f - 0.03f * fi, 1.0f);
		nn.Normalize();
		m.n.push_back(nn);
	}
	return m;
}

inline Color4 mixed_colour(int i, int salt) {
	return Color4(0.1f * (float) i + 0.05f + 0.01f * (float) salt, 0.9f - 0.1f * (float) i, 0.5f + 0.03f * (float) i, 1.0f - 0.07f * (float) i);
}

// the four largest weights, renormalised: the construction NifFile::UpdateSkinPartitions uses
inline std::vector<std::pair<int, float>> top4_renorm(std::vector<std::pair<int, float>> w) {
	std::stable_sort(w.begin(), w.end(), [](const std::pair<int, float>& a, const std::pair<int, float>& b) { return a.second > b.second; });
	if (w.size() > 4) w.resize(4);
	float tot = 0;
	for (auto& e : w) tot += e.second;
	if (tot != 0.0f)
		for (auto& e : w) e.second /= tot;
	return w;
}

// ---------- helpers ----------
inline std::string save_bytes(NifFile& nif, int* rc = nullptr) {
	std::ostringstream os(std::ios::binary);
	int r = nif.Save(os);
	if (rc) *rc = r;
	return r == 0 ? os.str() : std::string();
}
inline int load_bytes(NifFile& nif, const std::string& bytes) {
	std::istringstream is(bytes, std::ios::binary);
	return nif.Load(is);
}

inline MatTransform xform(float tx, float ty, float tz) {
	MatTransform t;
	t.translation = Vector3(tx, ty, tz);
	return t;
}

// ---------- shape construction ----------
struct Built {
	bool ok = false;
	std::string why;
	std::string bytes;
};

inline void apply_shader_features(NifFile& nif, BSLightingShaderProperty* sh, const Recipe& r, int salt) {
	auto& hdr = nif.GetHeader();
	auto ts = hdr.GetBlock(sh->TextureSetRef());
	if (ts) {
		ts->textures[0].get() = vf::strf("textures\\c12\\s%d_d.dds", salt);
		ts->textures[1].get() = vf::strf("textures\\c12\\s%d_n.dds", salt);
	}
	if (r.msn) sh->shaderFlags1 |= SLSF1_MODEL_SPACE_NORMALS;
	if (r.col != COL_NONE) {
		sh->SetVertexColors(true);
		sh->SetVertexAlpha(true);
	}
	else {
		sh->SetVertexColors(false);
		sh->SetVertexAlpha(false);
	}
	if (r.shader == 1) {
		// parallax shader with its texture, a stale environment-mapping flag and external emittance
		// that the BSX flags do not announce: exercises removeParallax / fixShaderFlags / fixBSXFlags
		sh->SetShaderType(BSLSP_PARALLAX);
		sh->shaderFlags1 |= (1u << 11);
		sh->shaderFlags1 |= SLSF1_ENVIRONMENT_MAPPING;
		sh->shaderFlags1 |= SLSF1_EXTERNAL_EMITTANCE;
		if (ts) ts->textures[3].get() = vf::strf("textures\\c12\\s%d_p.dds", salt);
	}
	sh->glossiness = 30.0f + (float) salt;
	sh->uvOffset = Vector2(0.25f, 0.5f);
}

inline NiShape* add_shape(NifFile& nif, NiNode* parent, const std::string& name, const Mesh& m, const Recipe& r, int salt) {
	auto& hdr = nif.GetHeader();
	NiVersion& ver = hdr.GetVersion();
	auto texset = std::make_unique<BSShaderTextureSet>(ver);
	auto shader = std::make_unique<BSLightingShaderProperty>(ver);
	shader->TextureSetRef()->index = hdr.AddBlock(std::move(texset));
	shader->SetSkinned(false);
	BSLightingShaderProperty* shp = shader.get();
	int shaderID = hdr.AddBlock(std::move(shader));
	apply_shader_features(nif, shp, r, salt);

	NiShape* result = nullptr;
	std::vector<BSGeometrySegmentData> segs;
	if (r.kind == KIND_SEG) {
		BSGeometrySegmentData a, b;
		a.flags = 0;
		a.index = 0;
		a.numTris = 1;
		b.flags = 1;
		b.index = 3;
		b.numTris = (uint32_t) m.tris.size() - 1;
		segs = {a, b};
	}
	if (r.ver == V_LE) {
		std::unique_ptr<NiGeometry> shape;
		std::unique_ptr<NiTriBasedGeomData> data;
		if (r.kind == KIND_STRIPS) {
			shape = std::make_unique<NiTriStrips>();
			auto d = std::make_unique<NiTriStripsData>();
			d->Create(ver, &m.v, &m.tris, &m.uv, &m.n);
			d->stripsInfo.hasPoints = true;
			d->stripsInfo.points = m.strips;
			for (auto& s : m.strips) {
				uint16_t len = (uint16_t) s.size();
				d->stripsInfo.stripLengths.push_back(len);
			}
			d->CalcTangentSpace();
			data = std::move(d);
		}
		else {
			if (r.kind == KIND_SEG) {
				auto s = std::make_unique<BSSegmentedTriShape>();
				s->SetSegments(segs);
				shape = std::move(s);
			}
			else
				shape = std::make_unique<NiTriShape>();
			auto d = std::make_unique<NiTriShapeData>();
			d->Create(ver, &m.v, &m.tris, &m.uv, &m.n);
			data = std::move(d);
		}
		if (r.col != COL_NONE) {
			data->SetVertexColors(true);
			for (size_t i = 0; i < m.v.size(); i++)
				data->vertexColors[i] = r.col == COL_WHITE ? Color4(1.0f, 1.0f, 1.0f, 1.0f) : mixed_colour((int) i, salt);
		}
		shape->ShaderPropertyRef()->index = shaderID;
		shape->name.get() = name;
		shape->SetGeomData(data.get());
		shape->DataRef()->index = hdr.AddBlock(std::move(data));
		shape->SetTransformToParent(xform(1.0f + (float) salt, 2.0f, 3.0f));
		result = shape.get();
		int id = hdr.AddBlock(std::move(shape));
		parent->childRefs.AddBlockRef(id);
	}
	else {
		std::unique_ptr<BSTriShape> shape;
		if (r.kind == KIND_SEG)
			shape = std::make_unique<BSSubIndexTriShape>();
		else if (r.kind == KIND_DYN)
			shape = std::make_unique<BSDynamicTriShape>();
		else
			shape = std::make_unique<BSTriShape>();
		shape->Create(ver, &m.v, &m.tris, &m.uv, &m.n);
		shape->SetSkinned(false);
		if (r.kind == KIND_SEG) static_cast<BSSubIndexTriShape*>(shape.get())->SetSegments(segs);
		if (r.col != COL_NONE) {
			shape->SetVertexColors(true);
			for (size_t i = 0; i < m.v.size(); i++) {
				auto& vd = shape->vertData[i];
				if (r.col == COL_WHITE) memset(vd.colorData, 255, 4);
				else {
					vd.colorData[0] = (uint8_t) (10 + 40 * i + salt);
					vd.colorData[1] = (uint8_t) (250 - 30 * i);
					vd.colorData[2] = (uint8_t) (128 + 7 * i);
					vd.colorData[3] = (uint8_t) (255 - 20 * i);
				}
			}
		}
		shape->ShaderPropertyRef()->index = shaderID;
		shape->name.get() = name;
		shape->SetTransformToParent(xform(1.0f + (float) salt, 2.0f, 3.0f));
		result = shape.get();
		int id = hdr.AddBlock(std::move(shape));
		parent->childRefs.AddBlockRef(id);
	}
	return result;
}

inline void add_skin(NifFile& nif, NiShape* shape, const std::string& uniqueName, const Mesh& m, const Recipe& r, const std::vector<int>& boneIDs) {
	auto& hdr = nif.GetHeader();
	nif.CreateSkinning(shape);
	std::vector<int> ids(boneIDs.begin(), boneIDs.begin() + m.nbones);
	nif.SetShapeBoneIDList(shape, ids);
	bool dataWeights = r.skin == SKIN_BOTH || r.skin == SKIN_DATA_ONLY || r.skin == SKIN_PART_ONLY;
	if (dataWeights) {
		for (int b = 0; b < m.nbones; b++) {
			std::unordered_map<uint16_t, float> bw;
			for (size_t v = 0; v < m.w.size(); v++)
				for (auto& e : m.w[v])
					if (e.first == b) bw[(uint16_t) v] = e.second;
			nif.SetShapeBoneWeights(uniqueName, (uint32_t) b, bw);
		}
	}
	if (r.ver == V_SE && r.skin != SKIN_DATA_ONLY) {
		for (size_t v = 0; v < m.w.size(); v++) {
			auto t = top4_renorm(m.w[v]);
			std::vector<uint8_t> bi;
			std::vector<float> bwt;
			for (auto& e : t) {
				bi.push_back((uint8_t) e.first);
				bwt.push_back(e.second);
			}
			nif.SetShapeVertWeights(uniqueName, (uint16_t) v, bi, bwt);
		}
	}
	if (m.nparts > 1) {
		NiVector<BSDismemberSkinInstance::PartitionInfo> info;
		for (int p = 0; p < m.nparts; p++) {
			BSDismemberSkinInstance::PartitionInfo pi;
			pi.flags = PF_EDITOR_VISIBLE;
			pi.partID = (uint16_t) (32 + p * 6);
			info.push_back(pi);
		}
		nif.SetShapePartitions(shape, info, m.triParts);
	}
	nif.UpdateSkinPartitions(shape);
	if (m.looseTriangle && r.ver == V_LE && r.kind == 0) {
		// a triangle that no partition lists (LE keeps the shape's triangles in the geometry data): the rebuild that ends a
		// conversion has to place it, or the SE shape - which keeps its triangles in the partitions - loses it
		std::vector<Triangle> t;
		shape->GetTriangles(t);
		t.push_back(Triangle(0, 4, 5));
		shape->SetTriangles(t);
	}

	auto skinInst = hdr.GetBlock<NiSkinInstance>(shape->SkinInstanceRef());
	auto skinData = skinInst ? hdr.GetBlock(skinInst->dataRef) : nullptr;
	auto skinPart = skinInst ? hdr.GetBlock(skinInst->skinPartitionRef) : nullptr;
	if (skinData) {
		for (int b = 0; b < (int) skinData->bones.size(); b++) skinData->bones[b].boneTransform = xform(-0.5f * (float) b, 0.25f, 0.0f);
	}
	if (r.skin == SKIN_PART_ONLY && skinData) {
		skinData->hasVertWeights = 0;
		for (auto& b : skinData->bones) {
			b.vertexWeights.clear();
			b.numVertices = 0;
		}
	}
	if (r.skin == SKIN_DATA_ONLY && r.ver == V_LE && skinPart) {
		for (auto& p : skinPart->partitions) {
			p.hasVertexWeights = false;
			p.vertexWeights.clear();
		}
	}
	if (r.ver == V_LE && r.kind == KIND_STRIPS && skinPart) {
		// a stripped LE skin: every mapped triangle becomes a strip of its own
		for (auto& p : skinPart->partitions) {
			p.strips.clear();
			p.stripLengths.clear();
			for (auto& t : p.triangles) {
				p.strips.push_back({t.p1, t.p2, t.p3});
				p.stripLengths.push_back(3);
			}
			p.numStrips = (uint16_t) p.strips.size();
			p.numTriangles = (uint16_t) p.triangles.size();
			p.triangles.clear();
			p.trueTriangles.clear();
			p.hasFaces = true;
		}
		skinPart->triParts.clear();
	}
}

inline Built build(const Recipe& r) {
	Built out;
	if (!r.valid()) { out.why = "invalid recipe"; return out; }
	NifFile nif;
	nif.Create(r.ver == V_LE ? NiVersion::getSK() : NiVersion::getSSE());
	auto& hdr = nif.GetHeader();
	NiNode* root = nif.GetRootNode();
	if (!root) { out.why = "no root"; return out; }

	// final names, parents
	std::vector<std::string> names;
	NiNode* parent = root;
	switch (r.clash) {
		case CLASH_NONE: names = {"Shape", "Other"}; break;
		case CLASH_PAIR: names = {"Shape", "Shape"}; break;
		case CLASH_SUFFIXED: names = {"Shape_1", "Shape", "Shape"}; break;
		case CLASH_CHILD:
			names = {"Shape", "Shape"};
			parent = nif.AddNode("Grp", xform(0.5f, 0.0f, -1.0f), root);
			break;
		default:
			names = {"Shape", "Shape"};
			parent = nif.AddNode("Grp", xform(0.5f, 0.0f, -1.0f), root);
			parent = nif.AddNode("Sub", xform(0.0f, 0.75f, 0.0f), parent);
			break;
	}
	if (!parent) { out.why = "AddNode failed"; return out; }

	std::vector<int> boneIDs;
	if (r.skin != SKIN_NONE) {
		for (int b = 0; b < (r.mesh == 3 ? 85 : 5); b++) {
			NiNode* bone = nif.AddNode(vf::strf("Bone%d", b), xform((float) b, 0.5f * (float) b, 1.0f), root);
			if (!bone) { out.why = "bone node"; return out; }
			boneIDs.push_back((int) nif.GetBlockID(bone));
		}
	}
	if (r.shader == 1) {
		auto bsx = std::make_unique<BSXFlags>();
		bsx->name.get() = "BSX";
		bsx->integerData = 0x82; // no external-emittance bit although the shaders ask for it
		nif.AssignExtraData(root, std::move(bsx));
	}

	std::vector<NiShape*> shapes;
	for (size_t s = 0; s < names.size(); s++) {
		Mesh m = make_mesh(r.mesh, (int) s);
		std::string unique = vf::strf("c12tmp%zu", s);
		NiShape* shape = add_shape(nif, parent, unique, m, r, (int) s);
		if (!shape) { out.why = "add_shape"; return out; }
		if (r.skin != SKIN_NONE) add_skin(nif, shape, unique, m, r, boneIDs);
		shapes.push_back(shape);
	}
	for (size_t s = 0; s < names.size(); s++) shapes[s]->name.get() = names[s];

	int rc = 0;
	out.bytes = save_bytes(nif, &rc);
	if (rc != 0 || out.bytes.empty()) { out.why = "Save of the built model failed"; return out; }
	out.ok = true;
	return out;
}

} // namespace c12
