// Edge coverage of the library under a harness (build variant "cov", tools/coverage.sh): every instrumented edge sets a
// byte in a bitmap that lives in a shared file mapping, so that hits made by forked workers - including workers that
// die or leave through _exit - are kept.  The table of edge addresses is written once, next to the bitmap.
// Not part of any registered command.
#pragma once
#ifdef VERIF_COV
#include <cstdint>
#include <cstdio>
#include <cstdlib>
#include <fcntl.h>
#include <string>
#include <sys/mman.h>
#include <unistd.h>

namespace vfcov {
static uint8_t* g_map = nullptr;
static uint32_t g_n = 0;
// $VERIF_COVMAP is a directory; one bitmap per executable (guard numbering is per binary)
__attribute__((no_sanitize("coverage", "address", "undefined"))) static std::string map_path() {
	const char* dir = getenv("VERIF_COVMAP");
	if (!dir || !*dir) return "";
	char exe[4096];
	ssize_t n = readlink("/proc/self/exe", exe, sizeof exe - 1);
	if (n <= 0) return "";
	exe[n] = 0;
	std::string e = exe;
	size_t sl = e.rfind('/');
	return std::string(dir) + "/" + (sl == std::string::npos ? e : e.substr(sl + 1)) + ".map";
}
}

#define VF_NOCOV __attribute__((no_sanitize("coverage", "address", "undefined")))

extern "C" VF_NOCOV void __sanitizer_cov_trace_pc_guard_init(uint32_t* start, uint32_t* stop) {
	if (start == stop || *start) return;
	uint32_t n = 0;
	for (uint32_t* x = start; x < stop; x++) *x = ++n;
	vfcov::g_n = n;
	std::string mp = vfcov::map_path();
	if (mp.empty()) return;
	const char* path = mp.c_str();
	int fd = open(path, O_RDWR | O_CREAT, 0644);
	if (fd < 0) return;
	if (ftruncate(fd, (off_t) n + 1) != 0) { close(fd); return; }
	void* p = mmap(nullptr, (size_t) n + 1, PROT_READ | PROT_WRITE, MAP_SHARED, fd, 0);
	close(fd);
	if (p != MAP_FAILED) vfcov::g_map = (uint8_t*) p;
}
extern "C" VF_NOCOV void __sanitizer_cov_trace_pc_guard(uint32_t* guard) {
	uint32_t g = *guard;
	if (g && vfcov::g_map) vfcov::g_map[g] = 1;
}
extern "C" VF_NOCOV void __sanitizer_cov_pcs_init(const uintptr_t* beg, const uintptr_t* end) {
	std::string mp = vfcov::map_path();
	if (mp.empty()) return;
	std::string p = mp + ".pcs";
	if (access(p.c_str(), F_OK) == 0) return;
	FILE* f = fopen(p.c_str(), "wb");
	if (!f) return;
	fwrite(beg, sizeof(uintptr_t), (size_t) (end - beg), f); // pairs (pc, flags); flags bit 0 = function entry
	fclose(f);
}
#endif
