// Minimal JSON value (parse + dump) for replay files, samples and protocol lines.
#pragma once
#include <cstdint>
#include <cstdio>
#include <cstdlib>
#include <map>
#include <sstream>
#include <stdexcept>
#include <string>
#include <vector>

namespace vf {
struct J {
	enum T { NUL, BOOL, NUM, STR, ARR, OBJ } t = NUL;
	bool b = false;
	double n = 0;
	std::string s;
	std::vector<J> a;
	std::vector<std::pair<std::string, J>> o;

	J() {}
	J(bool v) : t(BOOL), b(v) {}
	J(int v) : t(NUM), n(v) {}
	J(unsigned v) : t(NUM), n(v) {}
	J(long v) : t(NUM), n((double) v) {}
	J(long long v) : t(NUM), n((double) v) {}
	J(unsigned long v) : t(NUM), n((double) v) {}
	J(unsigned long long v) : t(NUM), n((double) v) {}
	J(double v) : t(NUM), n(v) {}
	J(const char* v) : t(STR), s(v) {}
	J(const std::string& v) : t(STR), s(v) {}
	static J arr() { J j; j.t = ARR; return j; }
	static J obj() { J j; j.t = OBJ; return j; }
	template<class V> static J arr_of(const V& v) { J j = arr(); for (auto& e : v) j.a.push_back(J(e)); return j; }

	J& push(const J& v) { t = ARR; a.push_back(v); return *this; }
	J& set(const std::string& k, const J& v) {
		t = OBJ;
		for (auto& kv : o) if (kv.first == k) { kv.second = v; return *this; }
		o.emplace_back(k, v);
		return *this;
	}
	bool has(const std::string& k) const { for (auto& kv : o) if (kv.first == k) return true; return false; }
	const J& at(const std::string& k) const {
		for (auto& kv : o) if (kv.first == k) return kv.second;
		static J nul; return nul;
	}
	const J& operator[](const std::string& k) const { return at(k); }
	const J& operator[](size_t i) const { return a.at(i); }
	size_t size() const { return t == ARR ? a.size() : o.size(); }
	long long i64() const { return (long long) n; }
	std::string str() const { return s; }

	static void esc(std::string& out, const std::string& s) {
		out += '"';
		for (unsigned char c : s) {
			switch (c) {
				case '"': out += "\\\""; break;
				case '\\': out += "\\\\"; break;
				case '\n': out += "\\n"; break;
				case '\r': out += "\\r"; break;
				case '\t': out += "\\t"; break;
				default:
					if (c < 0x20 || c >= 0x7f) { char b[8]; snprintf(b, sizeof b, "\\u%04x", c); out += b; }
					else out += (char) c;
			}
		}
		out += '"';
	}
	void dump(std::string& out) const {
		switch (t) {
			case NUL: out += "null"; break;
			case BOOL: out += b ? "true" : "false"; break;
			case NUM: {
				char buf[40];
				if (n == (double) (long long) n && n > -9e15 && n < 9e15) snprintf(buf, sizeof buf, "%lld", (long long) n);
				else snprintf(buf, sizeof buf, "%.9g", n);
				out += buf;
				break;
			}
			case STR: esc(out, s); break;
			case ARR: {
				out += '[';
				for (size_t i = 0; i < a.size(); i++) { if (i) out += ','; a[i].dump(out); }
				out += ']';
				break;
			}
			case OBJ: {
				out += '{';
				for (size_t i = 0; i < o.size(); i++) { if (i) out += ','; esc(out, o[i].first); out += ':'; o[i].second.dump(out); }
				out += '}';
				break;
			}
		}
	}
	std::string dump() const { std::string s; dump(s); return s; }

	// --- parser ---
	struct P {
		const std::string& s; size_t i = 0;
		explicit P(const std::string& str) : s(str) {}
		void ws() { while (i < s.size() && (s[i] == ' ' || s[i] == '\n' || s[i] == '\t' || s[i] == '\r')) i++; }
		[[noreturn]] void fail(const char* m) { throw std::runtime_error(std::string("json: ") + m + " at " + std::to_string(i)); }
		J val() {
			ws();
			if (i >= s.size()) fail("eof");
			char c = s[i];
			if (c == '{') {
				J j = J::obj(); i++; ws();
				if (s[i] == '}') { i++; return j; }
				for (;;) {
					ws(); J k = val(); if (k.t != STR) fail("key");
					ws(); if (s[i] != ':') fail(":"); i++;
					J v = val(); j.o.emplace_back(k.s, v);
					ws(); if (s[i] == ',') { i++; continue; }
					if (s[i] == '}') { i++; return j; }
					fail("obj");
				}
			}
			if (c == '[') {
				J j = J::arr(); i++; ws();
				if (s[i] == ']') { i++; return j; }
				for (;;) {
					j.a.push_back(val()); ws();
					if (s[i] == ',') { i++; continue; }
					if (s[i] == ']') { i++; return j; }
					fail("arr");
				}
			}
			if (c == '"') {
				J j; j.t = STR; i++;
				while (i < s.size() && s[i] != '"') {
					if (s[i] == '\\') {
						i++;
						switch (s[i]) {
							case 'n': j.s += '\n'; break;
							case 't': j.s += '\t'; break;
							case 'r': j.s += '\r'; break;
							case 'b': j.s += '\b'; break;
							case 'f': j.s += '\f'; break;
							case 'u': {
								unsigned v = (unsigned) strtoul(s.substr(i + 1, 4).c_str(), nullptr, 16);
								i += 4;
								j.s += (char) (v & 0xff); // harness only ever writes \u00XX
								break;
							}
							default: j.s += s[i];
						}
						i++;
					}
					else j.s += s[i++];
				}
				i++;
				return j;
			}
			if (!s.compare(i, 4, "true")) { i += 4; return J(true); }
			if (!s.compare(i, 5, "false")) { i += 5; return J(false); }
			if (!s.compare(i, 4, "null")) { i += 4; return J(); }
			char* e = nullptr;
			double d = strtod(s.c_str() + i, &e);
			if (e == s.c_str() + i) fail("value");
			i = (size_t) (e - s.c_str());
			return J(d);
		}
	};
	static J parse(const std::string& s) { P p(s); return p.val(); }
};
} // namespace vf
