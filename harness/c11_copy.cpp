// C11 — "A copied model is equal to and fully independent of its source".
//
// Scenario = (model, copy kind, edited side, edit history, destruction order).
//   model   : every sample file of tests/input + tests/expected (de-duplicated by content) and four
//             models built through the API (Create + CreateShapeFromData in OB / SK / SSE / FO4)
//   kind    : copy-construct | assign over an empty NifFile | assign over a different loaded model
//   edited  : the copy or the source receives the edits, the other side is "untouched"
//   history : every sequence of length <= depth over the menu
//               rename / MoveVertex / DeleteVertsForShape({0}) / SetTextureSlot(0) on the first shape,
//               hdr.DeleteBlock(i) for every block index i, Save(default) into a scratch stream, Clear()
//             (an operation that has nothing to act on in the state reached is not on the menu)
//   order   : source destroyed first | copy destroyed first
// Oracle (statement only):
//   * right after copying, Save(raw) of the copy == Save(raw) of a twin (a second NifFile loaded from
//     the same bytes);
//   * after every edit on the edited side, and after its destruction, the untouched side's k-th raw
//     save equals the k-th raw save of an untouched twin and its logical snapshot equals the twin's;
//   * when the untouched side is destroyed first, the edited side still saves the bytes / answers the
//     queries of a twin that was loaded from the file and driven through the same history;
//   * no sanitizer report: scenarios run in forked workers, a dead worker is a violation keyed by
//     error class and top nifly frame.
// A history is executed on a plain loaded model first (stage A, no copy exists yet).  If that alone
// faults, or leaves a shape caching a pointer to a block the history itself deleted, the defect is not
// one of copying: the history is rejected / cut at that point and counted, never reported.
#include "snapshot.hpp"
#include "nifparse.hpp"

using namespace nifly;
using vf::J;
using vf::Stats;
using snap::Fields;
using snap::Model;

static vf::Args A;
static std::vector<Model> g_models;	 // models explored in this run
static std::vector<Model> g_all;	 // every model (replay lookup, "other" model)
static const Model* g_other_a = nullptr; // smallest sample, target of "assign over a loaded model"
static const Model* g_other_b = nullptr; // second smallest (used when the model itself is g_other_a)
static int g_depth = 1;
static uint32_t g_big = 24; // models with more blocks than this: no history made of two DeleteBlock operations
static uint32_t g_huge = 100; // models with more blocks than this: a DeleteBlock is paired only with Save(default)
static std::vector<int> g_model_depth; // per explored model: maximum history length
static std::vector<uint32_t> g_model_blocks;

// bound on histories of length 2 (every history of length <= 1 is always inside the bound)
static bool pair_in_bound(uint32_t blocks, const std::string& a, const std::string& b) {
	const bool da = a.compare(0, 4, "del:") == 0, db = b.compare(0, 4, "del:") == 0;
	if (!da && !db) return true;
	if (blocks <= g_big) return true;
	if (da && db) return false;
	if (blocks <= g_huge) return true;
	return (da ? b : a) == "save";
}

using History = std::vector<std::string>;
static const char* KINDS[3] = {"ctor", "assign-empty", "assign-loaded"};
static const char* SIDES[3] = {"copy", "source", "source-before-copy"}; // which side is edited (2: the source, before the copy is made)
static const char* ORDERS[2] = {"source-first", "copy-first"}; // which object is destroyed first

static std::string hist_str(const History& h) {
	std::string s;
	for (auto& o : h) s += o + ",";
	return s;
}
static J hist_json(const History& h) {
	J a = J::arr();
	for (auto& o : h) a.push(o);
	return a;
}
static std::string op_name(const std::string& op) {
	if (op.compare(0, 4, "del:") == 0) return "DeleteBlock";
	if (op == "rename") return "RenameShape";
	if (op == "move") return "MoveVertex";
	if (op == "delv") return "DeleteVertsForShape";
	if (op == "tex") return "SetTextureSlot";
	if (op == "save") return "Save";
	if (op == "clear") return "Clear";
	return op;
}
static J scen_json(const Model& m, int kind, int side, int order, const History& h) {
	return J::obj().set("file", m.name).set("kind", KINDS[kind]).set("edited", SIDES[side]).set("history", hist_json(h)).set("order", ORDERS[order]);
}
static std::string scen_id(int kind, int side, int order, const History& h) {
	return std::string(KINDS[kind]) + "/" + SIDES[side] + "/" + ORDERS[order] + "/" + hist_str(h);
}

// ---------- operations ----------
// returns false when the operation has nothing to act on (not applicable in this state)
static bool op_applicable(NifFile& m, const std::string& op) {
	if (op == "clear") return m.IsValid();
	if (!m.IsValid()) return false;
	if (op == "save") return true;
	if (op.compare(0, 4, "del:") == 0) return (uint32_t) atoll(op.c_str() + 4) < m.GetHeader().GetNumBlocks();
	return !m.GetShapes().empty();
}
static bool apply_op(NifFile& m, const std::string& op) {
	if (!op_applicable(m, op)) return false;
	if (op == "clear") { m.Clear(); return true; }
	if (op == "save") {
		std::ostringstream os(std::ios::binary);
		m.Save(os);
		return true;
	}
	if (op.compare(0, 4, "del:") == 0) { m.GetHeader().DeleteBlock((uint32_t) atoll(op.c_str() + 4)); return true; }
	NiShape* s = m.GetShapes()[0];
	if (op == "rename") NifFile::RenameShape(s, "vfRenamed");
	else if (op == "move") m.MoveVertex(s, Vector3(1.5f, -2.25f, 3.125f), 0);
	else if (op == "delv") m.DeleteVertsForShape(s, std::vector<uint16_t>{0});
	else if (op == "tex") {
		std::string t = "textures\\vf\\changed.dds";
		m.SetTextureSlot(s, t, 0);
	}
	else
		vf::fatal("unknown operation " + op);
	return true;
}
static std::vector<std::string> menu_of(NifFile& m) {
	std::vector<std::string> r;
	for (const char* o : {"rename", "move", "delv", "tex", "save", "clear"})
		if (op_applicable(m, o)) r.push_back(o);
	if (m.IsValid())
		for (uint32_t i = 0; i < m.GetHeader().GetNumBlocks(); i++) r.push_back("del:" + std::to_string(i));
	return r;
}

// ---------- per-model reference data (cached per worker process) ----------
static const int KMAX = 4;
struct CopyBase {
	bool computed = false, equal = true;
	std::string BC[KMAX]; // k-th raw save of an unedited copy (fallback reference when the copy differs from the twin)
	Fields SC[KMAX];
};
struct Base {
	bool computed = false;
	Fields S0;			  // snapshot of a freshly loaded twin
	std::string BT[KMAX]; // BT[k] = k-th raw save of an untouched twin (k = 1..3)
	Fields ST[KMAX];	  // snapshot after the k-th save
	CopyBase cb[3];
};
static std::map<std::string, Base> g_base;

static const Model& other_of(const Model& m) { return (&m == g_other_a || m.bytes == g_other_a->bytes) ? *g_other_b : *g_other_a; }

static void must_load(NifFile& n, const Model& m) {
	if (s1::load(n, m.bytes) != 0) vf::fatal("model does not load: " + m.name);
}
static std::unique_ptr<NifFile> make_copy(int kind, const NifFile& src, const Model& m) {
	std::unique_ptr<NifFile> c;
	if (kind == 0) c.reset(new NifFile(src));
	else if (kind == 1) { c.reset(new NifFile()); *c = src; }
	else {
		c.reset(new NifFile());
		must_load(*c, other_of(m));
		*c = src;
	}
	return c;
}

static Base& get_base(const Model& m) {
	Base& b = g_base[m.name];
	if (b.computed) return b;
	vf::set_inflight(J::obj().set("file", m.name).set("stage", "base").dump());
	NifFile t;
	must_load(t, m);
	b.S0 = snap::model_snapshot(t);
	for (int k = 1; k < KMAX; k++) {
		b.BT[k] = s1::save(t, true);
		if (b.BT[k].empty()) vf::fatal("twin of " + m.name + " does not save");
		b.ST[k] = snap::model_snapshot(t);
	}
	b.computed = true;
	return b;
}
static CopyBase& get_copy_base(const Model& m, int kind) {
	Base& b = get_base(m);
	CopyBase& cb = b.cb[kind];
	if (cb.computed) return cb;
	vf::set_inflight(J::obj().set("file", m.name).set("kind", KINDS[kind]).set("stage", "copy").dump());
	NifFile s;
	must_load(s, m);
	auto c = make_copy(kind, s, m);
	for (int k = 1; k < KMAX; k++) {
		cb.BC[k] = s1::save(*c, true);
		cb.SC[k] = snap::model_snapshot(*c);
	}
	cb.equal = cb.BC[1] == b.BT[1];
	cb.computed = true;
	return cb;
}

// which block differs first between a fresh copy and a fresh twin (diagnosis for the violation key)
static std::string first_differing_block(const Model& m, int kind, std::string* detail) {
	NifFile s, t;
	must_load(s, m);
	must_load(t, m);
	auto c = make_copy(kind, s, m);
	auto pc = snap::payloads(*c), pt = snap::payloads(t);
	if (pc.size() != pt.size()) { *detail = vf::strf("block count %zu vs %zu", pc.size(), pt.size()); return "block-count"; }
	for (size_t i = 0; i < pc.size(); i++) {
		if (pc[i].type != pt[i].type) { *detail = vf::strf("block %zu type %s vs %s", i, pc[i].type.c_str(), pt[i].type.c_str()); return "block-type"; }
		if (pc[i].bytes != pt[i].bytes) {
			size_t n = std::min(pc[i].bytes.size(), pt[i].bytes.size()), o = 0;
			while (o < n && pc[i].bytes[o] == pt[i].bytes[o]) o++;
			*detail = vf::strf("block %zu (%s): payload %zu vs %zu bytes, first difference at payload offset %zu (copy 0x%02x, twin 0x%02x)", i, pc[i].type.c_str(),
							   pc[i].bytes.size(), pt[i].bytes.size(), o, o < pc[i].bytes.size() ? (unsigned char) pc[i].bytes[o] : 0,
							   o < pt[i].bytes.size() ? (unsigned char) pt[i].bytes[o] : 0);
			return pc[i].type;
		}
	}
	*detail = "all block payloads equal; header differs";
	return "header";
}

// ---------- stage A: the history on a plain loaded model ----------
struct AResult {
	bool cut = false;	 // a shape caches a pointer to a block the history deleted: history stops here
	size_t len = 0;		 // operations executed
	std::vector<bool> applied;
	bool valid = true;
	std::string bytes;	 // raw save after the history (when valid and not cut)
	Fields snap;		 // snapshot after that save
	std::vector<std::string> menu; // operations applicable in the state reached
	bool changed = false;		   // the edited side's bytes differ from an unedited model's
};
static AResult stage_a(const Model& m, const History& h, const Base& base) {
	vf::set_inflight(J::obj().set("file", m.name).set("history", hist_json(h)).set("stage", "A").dump());
	AResult r;
	NifFile te;
	must_load(te, m);
	for (auto& op : h) {
		r.applied.push_back(apply_op(te, op));
		r.len++;
		if (snap::foreign_geometry_cache(te) >= 0) { r.cut = true; break; }
	}
	r.valid = te.IsValid();
	if (r.cut) { r.changed = true; return r; }
	r.menu = menu_of(te);
	if (r.valid) {
		r.bytes = s1::save(te, true);
		r.changed = r.bytes != base.BT[1];
	}
	else
		r.changed = true;
	r.snap = snap::model_snapshot(te);
	return r;
}

// ---------- stage B: one scenario ----------
struct Ctx {
	const Model& m;
	int kind, side, order;
	const History& h;
	Stats& st;
	J j;
	void viol(const std::string& key, const std::string& msg) { st.violation(key, m.name + " " + scen_id(kind, side, order, h) + ": " + msg, j); }
};

// k-th check of the untouched side
static void check_untouched(Ctx& c, NifFile& U, int k, const std::string& after, const Base& base, const CopyBase& cb) {
	const bool u_is_copy = c.side == 1; // source edited -> the copy is untouched
	const char* uname = u_is_copy ? "copy" : "source";
	const bool fallback = u_is_copy && !cb.equal && !(after == "copy");
	const std::string& ref = fallback ? cb.BC[k] : base.BT[k];
	const Fields& refS = fallback ? cb.SC[k] : base.ST[k];
	if (fallback) c.st.add("checks_against_copys_own_first_saves");
	std::string b = s1::save(U, true);
	c.st.add("untouched_side_checks");
	if (b != ref) {
		if (u_is_copy && after == "copy") {
			std::string detail;
			std::string type = first_differing_block(c.m, c.kind, &detail);
			c.viol("copy-bytes-differ:" + type, "Save(raw) of the fresh copy differs from Save(raw) of a twin loaded from the same bytes (" + snap::first_diff(b, ref) + "; " + detail + ")");
		}
		else
			c.viol(std::string(uname) + "-changed-after:" + after,
				   vf::strf("raw save #%d of the untouched %s differs from raw save #%d of an untouched twin after %s on the other side (%s)", k, uname, k, after.c_str(),
							snap::first_diff(b, ref).c_str()));
	}
	Fields s = snap::model_snapshot(U);
	std::string detail;
	std::string f = snap::diff_fields(s, refS, {}, &detail);
	if (!f.empty())
		c.viol(std::string(uname) + "-snapshot-changed-after:" + after + ":" + snap::generic_field(f),
			   std::string("logical snapshot of the untouched ") + uname + " differs from the twin's after " + after + " on the other side (" + detail + ")");
}

static void run_scenario(const Model& m, int kind, int side, int order, const History& h, const AResult& ar, Stats& st) {
	Ctx c{m, kind, side, order, h, st, scen_json(m, kind, side, order, h)};
	Base& base = get_base(m);
	CopyBase& cb = get_copy_base(m, kind);
	J inflight = c.j;
	vf::set_inflight(J(inflight).set("stage", "copy").dump());
	alarm(60);
	std::unique_ptr<NifFile> S(new NifFile());
	must_load(*S, m);
	std::unique_ptr<NifFile> C = make_copy(kind, *S, m);
	vf::set_inflight(J(inflight).set("stage", "B").dump());
	st.add("evaluations");
	st.add(std::string("kind_") + KINDS[kind]);
	{
		int k = snap::foreign_geometry_cache(*C);
		if (k >= 0) c.viol("copy:shape-geometry-cache-outside-copy", vf::strf("shape #%d of the fresh copy caches a geometry-data pointer that is not a block of the copy", k));
	}
	NifFile& E = side == 0 ? *C : *S;
	NifFile& U = side == 0 ? *S : *C;
	const char* ename = SIDES[side];
	int k = 0;
	bool cut = false;
	if (h.empty()) {
		// equality right after copying (copy vs twin) / source unaffected by being copied
		Fields sc = snap::model_snapshot(*C);
		std::string detail;
		std::string f = snap::diff_fields(sc, base.S0, {}, &detail);
		if (!f.empty()) c.viol("copy-snapshot-differs:" + snap::generic_field(f), "logical snapshot of the fresh copy differs from a twin's (" + detail + ")");
		check_untouched(c, U, ++k, "copy", base, cb);
	}
	for (size_t i = 0; i < ar.len; i++) {
		bool applied = apply_op(E, h[i]);
		st.add("ops_applied_" + op_name(h[i]));
		if (applied != ar.applied[i]) {
			c.viol(std::string("edited-") + ename + "-diverges-from-twin:" + op_name(h[i]),
				   vf::strf("%s is %s on the edited %s but %s on a twin loaded from the file and driven through the same history", h[i].c_str(),
							applied ? "applicable" : "not applicable", ename, ar.applied[i] ? "applicable" : "not applicable"));
		}
		int fc = snap::foreign_geometry_cache(E);
		bool last = i + 1 == ar.len;
		if (fc >= 0 && !(last && ar.cut)) {
			c.viol(std::string("edited-") + ename + ":shape-geometry-cache-outside-model",
				   vf::strf("after %s shape #%d of the edited %s caches a geometry pointer outside its own model; the twin's does not", h[i].c_str(), fc, ename));
		}
		if (fc >= 0) { cut = true; break; }
	}
	// one check of the untouched side after the whole history (every prefix is a scenario of its own)
	if (ar.len > 0) check_untouched(c, U, ++k, op_name(h[ar.len - 1]), base, cb);
	if (ar.cut) cut = true;
	// destruction
	const bool e_first = (order == 0) == (side == 1); // order 0 = source first; side 1 = source edited
	if (e_first) {
		if (side == 0) C.reset(); else S.reset();
		check_untouched(c, U, ++k, "destroy", base, cb);
		if (side == 0) S.reset(); else C.reset();
	}
	else {
		if (side == 0) S.reset(); else C.reset();
		NifFile& E2 = side == 0 ? *C : *S;
		st.add("edited_side_checks");
		if (!cut) {
			const bool skip_bytes = side == 0 && !cb.equal; // the copy already differs from a twin: bytes are not comparable
			if (E2.IsValid() != ar.valid)
				c.viol(std::string("edited-") + ename + "-diverges-from-twin:valid", "IsValid differs from the twin's after the same history");
			else if (E2.IsValid() && !skip_bytes) {
				std::string b = s1::save(E2, true);
				if (b != ar.bytes)
					c.viol(std::string("edited-") + ename + "-bytes-differ-from-twin-after:destroy-other",
						   std::string("after the untouched side was destroyed the edited ") + ename
							   + " saves bytes that differ from a twin loaded from the file and driven through the same history (" + snap::first_diff(b, ar.bytes) + ")");
			}
			else if (E2.IsValid()) {
				st.add("edited_bytes_not_comparable_copy_unequal");
				(void) s1::save(E2, true); // still exercised under the sanitizer
			}
			Fields s = snap::model_snapshot(E2);
			std::string detail;
			std::string f = snap::diff_fields(s, ar.snap, {}, &detail);
			if (!f.empty())
				c.viol(std::string("edited-") + ename + "-snapshot-differs-from-twin:" + snap::generic_field(f),
					   std::string("after the untouched side was destroyed the edited ") + ename + "'s snapshot differs from the twin's (" + detail + ")");
		}
		else
			st.add("edited_side_checks_skipped_history_cut");
		if (side == 0) C.reset(); else S.reset();
	}
	alarm(0);
	if (ar.changed) st.add("distinct_nontrivial");
	st.max("history_length", (long long) h.size());
}

// ---------- copying from a non-initial state: the history runs on the source BEFORE the copy is made ----------
// The copy of the edited source must be what a twin driven through the same history is (bytes, snapshot), must not
// cache geometry outside itself - also where the source itself is left with a stale cache by the history - and must
// stand alone once the source is gone.
static void run_precopy(const Model& m, int kind, const History& h, const AResult& ar, Stats& st) {
	Ctx c{m, kind, 2, 0, h, st, scen_json(m, kind, 2, 0, h)};
	vf::set_inflight(J(c.j).set("stage", "B").dump());
	alarm(60);
	st.add("evaluations");
	st.add("scenarios_copy_of_edited_source");
	std::unique_ptr<NifFile> S(new NifFile());
	must_load(*S, m);
	for (size_t i = 0; i < ar.len; i++) apply_op(*S, h[i]);
	std::unique_ptr<NifFile> C = make_copy(kind, *S, m);
	int k = snap::foreign_geometry_cache(*C);
	if (k >= 0) c.viol("copy-of-edited-source:shape-geometry-cache-outside-copy", vf::strf("shape #%d of a copy made after %s caches a geometry-data pointer that is not a block of the copy", k, hist_str(h).c_str()));
	S.reset(); // the copy must stand alone
	if (k < 0 && !ar.cut) {
		if (C->IsValid() != ar.valid) c.viol("copy-of-edited-source-diverges-from-twin:valid", "IsValid of the copy differs from the edited twin's");
		else if (C->IsValid()) {
			std::string b = s1::save(*C, true);
			if (b != ar.bytes)
				c.viol("copy-of-edited-source-bytes-differ-from-twin", "a copy made after " + hist_str(h) + " saves bytes that differ from a twin driven through the same history (" + snap::first_diff(b, ar.bytes) + ")");
			Fields sn = snap::model_snapshot(*C);
			std::string detail;
			std::string f = snap::diff_fields(sn, ar.snap, {}, &detail);
			if (!f.empty()) c.viol("copy-of-edited-source-snapshot-differs-from-twin:" + snap::generic_field(f), "snapshot of a copy made after " + hist_str(h) + " differs from the edited twin's (" + detail + ")");
		}
	}
	else if (k < 0) {
		// the history left the source itself with a stale cache (not a defect of copying); the copy is still saved and queried under the sanitizer
		st.add("copy_of_edited_source_history_cut");
		if (C->IsValid()) (void) s1::save(*C, true);
		(void) snap::model_snapshot(*C);
	}
	C.reset();
	alarm(0);
}

// ---------- a history: stage A once, then the 12 (kind, side, order) scenarios ----------
struct Filter { int kind = -1, side = -1, order = -1; };
// returns stage A's result through *out (for extending the history)
static bool run_history(const Model& m, const History& h, const std::set<std::string>& skip, Stats& st, AResult* out, const Filter& flt = Filter()) {
	if (skip.count("A:" + hist_str(h))) { st.add("histories_skipped_rejected"); return false; }
	Base& base = get_base(m);
	alarm(60);
	AResult ar = stage_a(m, h, base);
	alarm(0);
	st.add("histories");
	if (ar.cut) st.add("histories_cut_self_dangling_cache");
	st.distinct("outcomes", vf::strf("%s|%zu|%d|%s", m.name.c_str(), ar.bytes.size(), (int) ar.cut, vf::hex64(vf::fnv(ar.bytes)).substr(0, 8).c_str()));
	for (int kind = 0; kind < 3; kind++) {
		if (flt.kind >= 0 && flt.kind != kind) continue;
		if (skip.count(std::string("C:") + KINDS[kind])) { st.add("scenarios_skipped_copy_faults"); continue; }
		if (!h.empty() && (flt.side < 0 || flt.side == 2) && !skip.count("B:" + scen_id(kind, 2, 0, h))) {
			try {
				run_precopy(m, kind, h, ar, st);
			} catch (std::exception& e) {
				alarm(0);
				st.violation(std::string("exception:") + typeid(e).name(), m.name + " " + scen_id(kind, 2, 0, h) + ": exception " + e.what(), scen_json(m, kind, 2, 0, h));
			}
		}
		for (int side = 0; side < 2; side++) {
			if (flt.side >= 0 && flt.side != side) continue;
			for (int order = 0; order < 2; order++) {
				if (flt.order >= 0 && flt.order != order) continue;
				if (skip.count("B:" + scen_id(kind, side, order, h))) { st.add("scenarios_skipped_faulted"); continue; }
				try {
					run_scenario(m, kind, side, order, h, ar, st);
				} catch (std::exception& e) {
					alarm(0);
					st.violation(std::string("exception:") + typeid(e).name(), m.name + " " + scen_id(kind, side, order, h) + ": exception " + e.what(),
								 scen_json(m, kind, side, order, h));
				}
			}
		}
	}
	if (st.samples.empty() && (int) h.size() == g_depth) st.sample(scen_json(m, 2, 0, 0, h).set("edited_bytes_changed", ar.changed).set("history_cut", ar.cut));
	if (out) *out = ar;
	return true;
}

struct Unit { size_t model; int op1; }; // op1 = -1: the empty history
static std::vector<std::vector<std::string>> g_menu0; // per model: operations applicable to the freshly loaded model

static void run_unit(const Unit& u, const std::vector<std::string>& skips, Stats& st) {
	const Model& m = g_models[u.model];
	std::set<std::string> skip(skips.begin(), skips.end());
	st.add("units");
	if (u.op1 < 0) {
		run_history(m, {}, skip, st, nullptr);
		return;
	}
	History h1 = {g_menu0[u.model][(size_t) u.op1]};
	AResult a1;
	if (!run_history(m, h1, skip, st, &a1)) return;
	if (g_model_depth[u.model] < 2 || a1.cut) return;
	for (auto& op2 : a1.menu) {
		if (vf::deadline_passed()) { st.capped("deadline reached inside unit " + m.name + " / " + h1[0]); return; }
		if (!pair_in_bound(g_model_blocks[u.model], h1[0], op2)) { st.add("histories_outside_bound_big_model"); continue; }
		History h2 = {h1[0], op2};
		run_history(m, h2, skip, st, nullptr);
	}
}

static std::string crash_key(const vf::CrashInfo& ci) {
	if (ci.cls.compare(0, 6, "ubsan:") == 0) return ci.key();
	if (ci.cls == "timeout" || ci.cls.compare(0, 7, "signal-") == 0 || ci.cls.compare(0, 5, "exit-") == 0) return "crash:" + ci.key();
	return "asan:" + ci.key();
}

static int kind_of(const std::string& s) { for (int i = 0; i < 3; i++) if (s == KINDS[i]) return i; return -1; }
static int side_of(const std::string& s) { for (int i = 0; i < 3; i++) if (s == SIDES[i]) return i; return -1; }
static int order_of(const std::string& s) { for (int i = 0; i < 2; i++) if (s == ORDERS[i]) return i; return -1; }

int main(int argc, char** argv) {
	A = vf::parse_args(argc, argv);
	e1::install_hooks();
	Stats top;
	const bool thorough = A.thorough();
	g_depth = (int) A.geti("depth", thorough ? 2 : 1);
	g_big = (uint32_t) A.geti("big", 24);
	g_huge = (uint32_t) A.geti("huge", 100);
	size_t nfiles = 0;
	std::vector<Model> samples = snap::sample_models(A.repo, &nfiles);
	if (samples.size() < 2) vf::fatal("no sample files under " + A.repo + "/tests");
	std::vector<Model> api = snap::api_models();
	// models with opaque blocks: a sample file in which one block type that refers to other blocks is relabelled (in the
	// header type table, by the independent codec) to a name the library does not know.  The copy must stay as careful
	// with them as the source (no pruning, no reordering, no string rebuild under an opaque block).
	{
		int made = 0;
		for (auto& m : samples) {
			if (made >= 3) break;
			np::Header h = np::parse(m.bytes);
			if (!h.ok || !h.has_sizes || h.blocks_end + 8 != m.bytes.size()) continue;
			for (size_t t = 0; t < h.types.size(); t++) {
				if (h.types[t] != "BSLightingShaderProperty" && h.types[t] != "BSShaderPPLightingProperty" && h.types[t] != "NiTexturingProperty") continue;
				np::Header h2 = h;
				h2.types[t] = "Vf" + h.types[t];
				Model u;
				u.name = "unknown:" + h.types[t] + ":" + m.name;
				u.bytes = np::emit_header(h2) + m.bytes.substr(h.hdr_end);
				NifFile probe;
				if (s1::load(probe, u.bytes) == 0 && probe.HasUnknown()) { api.push_back(u); made++; }
				break;
			}
		}
	}
	g_all = samples;
	for (auto& m : api) g_all.push_back(m);
	g_other_a = &g_all[0];
	g_other_b = &g_all[1];
	size_t nsamples = (size_t) A.geti("files", thorough ? (long long) samples.size() : 12);
	nsamples = std::min(nsamples, samples.size());
	if (A.has("file")) {
		auto m = snap::find_model(g_all, A.get("file"));
		if (!m) vf::fatal("unknown model " + A.get("file"));
		g_models.push_back(*m);
		g_model_depth.push_back(g_depth);
	}
	else {
		// every model takes part with the empty history (copy, compare, destroy); the nsamples smallest
		// sample files and the API-built models with histories up to g_depth
		for (size_t i = 0; i < samples.size(); i++) { g_models.push_back(samples[i]); g_model_depth.push_back(i < nsamples ? g_depth : 0); }
		for (auto& m : api) { g_models.push_back(m); g_model_depth.push_back(g_depth); }
	}

	if (A.has("probe")) { // timing aid (stderr only)
		for (auto& m : g_models) {
			double t0 = vf::now();
			NifFile n;
			must_load(n, m);
			double t1 = vf::now();
			Fields f = snap::model_snapshot(n);
			double t2 = vf::now();
			std::string b = s1::save(n, true);
			double t3 = vf::now();
			NifFile c(n);
			double t4 = vf::now();
			fprintf(stderr, "%-50s %7zu B %4u blocks %2zu shapes: load %.1f ms, snapshot %.1f ms (%zu fields), save %.1f ms, copy %.1f ms\n", m.name.c_str(), m.bytes.size(),
					n.GetHeader().GetNumBlocks(), n.GetShapes().size(), (t1 - t0) * 1e3, (t2 - t1) * 1e3, f.size(), (t3 - t2) * 1e3, (t4 - t3) * 1e3);
		}
		vf::finish(top);
		return 0;
	}

	vf::PoolCfg pc;
	pc.jobs = A.jobs;
	pc.rundir = A.rundir;
	pc.repo = A.repo;
	pc.max_restarts_per_unit = 400;

	auto crash_fn = [&](size_t, const vf::CrashInfo& ci, const std::string& inflight, Stats& parent) -> std::string {
		J j;
		try { j = J::parse(inflight); } catch (std::exception&) { return ""; }
		std::string stage = j["stage"].str();
		History h;
		for (auto& e : j["history"].a) h.push_back(e.str());
		if (stage == "A") {
			// the history faults on a plain loaded model, no copy involved: not this property's concern
			parent.add("histories_rejected_fault_without_copy");
			parent.distinct("rejected_fault_sites", ci.key());
			if (parent.cnt["histories_rejected_fault_without_copy"] <= 5)
				parent.note("history rejected (faults without any copy): " + ci.key() + " on " + j["file"].str() + " " + hist_str(h));
			return "A:" + hist_str(h);
		}
		if (stage == "base") {
			parent.capped("reference saves of " + j["file"].str() + " fault (" + ci.key() + "): unit abandoned");
			return "";
		}
		J rep = J::obj().set("file", j["file"]).set("kind", j["kind"]);
		if (j.has("edited")) rep.set("edited", j["edited"]).set("history", j["history"]).set("order", j["order"]);
		else rep.set("edited", "copy").set("history", J::arr()).set("order", "source-first");
		std::string where = stage == "copy" ? "while copying" : "after copying";
		parent.violation(crash_key(ci), j["file"].str() + " " + j["kind"].str() + ": worker died " + where + ": " + ci.cls + " in " + ci.frame + " | " + vf::tab_safe(ci.text.substr(0, 400)), rep);
		if (stage == "copy") return "C:" + j["kind"].str();
		return "B:" + scen_id(kind_of(j["kind"].str()), side_of(j["edited"].str()), order_of(j["order"].str()), h);
	};

	if (!A.replay.empty()) {
		J c = J::parse(vf::read_file(A.replay))["case"];
		auto m = snap::find_model(g_all, c["file"].str());
		if (!m) vf::fatal("replay: unknown model " + c["file"].str());
		g_models = {*m};
		g_model_depth = {2};
		g_model_blocks = {0};
		History h;
		for (auto& e : c["history"].a) h.push_back(e.str());
		g_depth = (int) h.size();
		Filter flt;
		flt.kind = kind_of(c["kind"].str());
		flt.side = side_of(c["edited"].str());
		flt.order = order_of(c["order"].str());
		if (flt.kind < 0 || flt.side < 0 || flt.order < 0) vf::fatal("replay: bad scenario");
		vf::run_pool(1, pc,
					 [&](size_t, const std::vector<std::string>& skips, long, Stats& st) {
						 std::set<std::string> skip(skips.begin(), skips.end());
						 run_history(g_models[0], h, skip, st, nullptr, flt);
					 },
					 crash_fn, top);
		vf::finish(top);
		return 0;
	}

	// unit list: (model, first operation); the menus come from the freshly loaded models
	std::vector<Unit> units;
	size_t menu_total = 0;
	for (size_t i = 0; i < g_models.size(); i++) {
		NifFile n;
		must_load(n, g_models[i]);
		g_menu0.push_back(menu_of(n));
		g_model_blocks.push_back(n.GetHeader().GetNumBlocks());
		menu_total += g_menu0.back().size();
		units.push_back({i, -1});
		if (g_model_depth[i] >= 1)
			for (size_t o = 0; o < g_menu0.back().size(); o++) units.push_back({i, (int) o});
	}
	// big units first (better balance): a unit's size grows with its model's menu
	auto weight = [&](const Unit& u) -> size_t {
		if (u.op1 < 0) return (size_t) -1; // the empty history (copy equality) first
		if (g_depth < 2) return 0;
		size_t n = 0;
		for (auto& op2 : g_menu0[u.model]) if (pair_in_bound(g_model_blocks[u.model], g_menu0[u.model][(size_t) u.op1], op2)) n++;
		return n * g_models[u.model].bytes.size();
	};
	std::stable_sort(units.begin(), units.end(), [&](const Unit& a, const Unit& b) { return weight(a) > weight(b); });

	vf::run_pool(units.size(), pc, [&](size_t u, const std::vector<std::string>& skips, long, Stats& st) { run_unit(units[u], skips, st); }, crash_fn, top);

	size_t deep_models = 0;
	for (int d : g_model_depth) if (d >= 1) deep_models++;
	top.set_info("rule",
				 vf::strf("scenario = model x copy kind {copy-construct, assign over empty, assign over a loaded model} x edited side {copy, source} x "
						  "destruction order {source first, copy first} x edit history. Every one of the %zu models (%zu distinct sample files out of %zu, + %zu API-built) runs the empty "
						  "history (copy, compare with twin, destroy in either order); %zu models (the %zu smallest sample files + the API-built ones) run every history of length <= %d over "
						  "{RenameShape, MoveVertex, DeleteVertsForShape({0}), SetTextureSlot(0) on the first shape, hdr.DeleteBlock(i) for every block index i, Save(default), Clear()}, "
						  "operations without a target in the reached state left out; bound on length-2 histories by model size: <= %u blocks: all pairs; <= %u blocks: all pairs except two DeleteBlocks; "
						  "larger: a DeleteBlock is paired only with Save(default), in either order. "
						  "evaluations = scenarios executed; distinct_nontrivial = scenarios (each enumerated once) whose history changed the raw-save bytes of the edited side",
						  g_models.size(), samples.size(), nfiles, api.size(), deep_models, std::min(nsamples, samples.size()), g_depth, g_big, g_huge));
	top.set_info("history_depth", g_depth);
	top.set_info("models", (long long) g_models.size());
	top.set_info("sample_files_total", (long long) nfiles);
	top.set_info("sample_files_distinct", (long long) samples.size());
	top.set_info("first_operation_menu_total", (long long) menu_total);
	top.note("a history that faults, or leaves a shape caching a pointer to a block the history itself deleted, on a plain loaded model (no copy in the process) is "
			 "rejected / cut and counted (histories_rejected_fault_without_copy, histories_cut_self_dangling_cache), not reported: the defect is not one of copying");
	top.note("the untouched side is compared with the k-th raw save of an untouched twin (each object is saved as often as its twin, never compared with its own earlier save); "
			 "only when a copy already differs from the twin right after copying (reported once as copy-bytes-differ) are its later saves compared with an unedited copy's own k-th save");
	vf::finish(top);
	return 0;
}
