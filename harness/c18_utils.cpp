// C18: index-remapping and strip utilities (include/NifUtil.hpp) and their users, checked
// exhaustively at small scope against naive reference definitions, under ASan/UBSan.
//
// Two input domains (see DESIGN "### C18" and the property statement):
//   A  contract domain: strictly ascending index lists (subsets), incl. empty, full and
//      out-of-range ones -> result compared with the reference model ("transitions");
//   B  lists that break the documented precondition (unsorted, duplicated, negative entries):
//      the statement only demands "no access outside the containers for any input", so these
//      are executed for memory safety only (never compared with the reference).
// Out-of-container access is observed twice: a bounds-checked vector type is passed as
// VectorType (throws on the first bad element access), and the same call is repeated on
// exact-capacity std::vectors so that ASan sees any access past the allocation.
#include "common.hpp"
#include "NifFile.hpp"
#include "NifUtil.hpp"

#include <array>
#include <climits>
#include <unordered_map>
#include <unordered_set>

using namespace nifly;
using vf::J;
using vf::Stats;
typedef long long ll;

// ---------------------------------------------------------------- small helpers
template<class T> struct TN;
template<> struct TN<uint16_t> { static const char* n() { return "uint16"; } };
template<> struct TN<uint32_t> { static const char* n() { return "uint32"; } };
template<> struct TN<int> { static const char* n() { return "int"; } };
template<> struct TN<size_t> { static const char* n() { return "size_t"; } };
template<> struct TN<std::string> { static const char* n() { return "string"; } };

template<class I> static std::vector<ll> extremes();
template<> std::vector<ll> extremes<uint16_t>() { return {65535}; }
template<> std::vector<ll> extremes<uint32_t>() { return {4294967295ll}; }
template<> std::vector<ll> extremes<int>() { return {-1, 2147483647ll}; }

static std::string jlist(const std::vector<ll>& v) {
	std::string s = "[";
	for (size_t i = 0; i < v.size(); i++) {
		if (i) s += ',';
		s += std::to_string(v[i]);
	}
	s += ']';
	return s;
}

// A list of integers together with its (possibly compact) JSON description.
struct Lst {
	std::vector<ll> v;
	std::string json;
};
static Lst L(const std::vector<ll>& v) { return Lst{v, jlist(v)}; }
// concatenation of arithmetic progressions a, a+s, ... < b
static Lst Lranges(const std::vector<std::array<ll, 3>>& rs) {
	Lst l;
	l.json = "{\"ranges\":[";
	for (size_t i = 0; i < rs.size(); i++) {
		if (i) l.json += ',';
		l.json += jlist({rs[i][0], rs[i][1], rs[i][2]});
		for (ll x = rs[i][0]; x < rs[i][1]; x += rs[i][2]) l.v.push_back(x);
	}
	l.json += "]}";
	return l;
}
static Lst Lcycle(const std::vector<ll>& pat, ll len) {
	Lst l;
	l.json = "{\"cycle\":" + jlist(pat) + ",\"len\":" + std::to_string(len) + "}";
	for (ll i = 0; i < len; i++) l.v.push_back(pat[(size_t) i % pat.size()]);
	return l;
}
static std::vector<ll> jints(const J& j) {
	std::vector<ll> v;
	for (auto& e : j.a) v.push_back(e.i64());
	return v;
}
static Lst Lparse(const J& j) {
	if (j.t == J::ARR) return L(jints(j));
	if (j.has("ranges")) {
		std::vector<std::array<ll, 3>> rs;
		for (auto& r : j["ranges"].a) {
			if (r.size() != 3 || r[2].i64() <= 0) vf::fatal("replay: bad range");
			rs.push_back({r[0].i64(), r[1].i64(), r[2].i64()});
		}
		return Lranges(rs);
	}
	if (j.has("cycle")) {
		auto pat = jints(j["cycle"]);
		if (pat.empty()) vf::fatal("replay: empty cycle");
		return Lcycle(pat, j["len"].i64());
	}
	vf::fatal("replay: cannot parse integer list");
}

struct Tri3 {
	uint16_t a, b, c;
	bool operator==(const Tri3& o) const { return a == o.a && b == o.b && c == o.c; }
};
struct TriLst {
	std::vector<Triangle> v;
	std::string json;
};
static std::string jtri(const Triangle& t) { return jlist({t.p1, t.p2, t.p3}); }
static TriLst TL(const std::vector<Triangle>& v) {
	TriLst l;
	l.v = v;
	l.json = "[";
	for (size_t i = 0; i < v.size(); i++) {
		if (i) l.json += ',';
		l.json += jtri(v[i]);
	}
	l.json += "]";
	return l;
}
static TriLst TLcycle(const std::vector<Triangle>& pat, ll count) {
	TriLst l;
	l.json = "{\"cycle\":" + TL(pat).json + ",\"count\":" + std::to_string(count) + "}";
	for (ll i = 0; i < count; i++) l.v.push_back(pat[(size_t) i % pat.size()]);
	return l;
}
static TriLst TLparse(const J& j) {
	auto one = [](const J& t) {
		if (t.size() != 3) vf::fatal("replay: bad triangle");
		return Triangle((uint16_t) t[0].i64(), (uint16_t) t[1].i64(), (uint16_t) t[2].i64());
	};
	std::vector<Triangle> v;
	if (j.t == J::ARR) {
		for (auto& t : j.a) v.push_back(one(t));
		return TL(v);
	}
	for (auto& t : j["cycle"].a) v.push_back(one(t));
	if (v.empty()) vf::fatal("replay: empty triangle cycle");
	return TLcycle(v, j["count"].i64());
}

static bool same_tris(const std::vector<Triangle>& got, const std::vector<Tri3>& ref) {
	if (got.size() != ref.size()) return false;
	for (size_t i = 0; i < got.size(); i++)
		if (got[i].p1 != ref[i].a || got[i].p2 != ref[i].b || got[i].p3 != ref[i].c) return false;
	return true;
}
static std::string show_tris(const std::vector<Triangle>& t, size_t maxn = 8) {
	std::string s = "[";
	for (size_t i = 0; i < t.size() && i < maxn; i++) s += vf::strf("%s(%u,%u,%u)", i ? " " : "", t[i].p1, t[i].p2, t[i].p3);
	if (t.size() > maxn) s += vf::strf(" ... %zu in total", t.size());
	return s + "]";
}
static std::string show_ref(const std::vector<Tri3>& t, size_t maxn = 8) {
	std::string s = "[";
	for (size_t i = 0; i < t.size() && i < maxn; i++) s += vf::strf("%s(%u,%u,%u)", i ? " " : "", t[i].a, t[i].b, t[i].c);
	if (t.size() > maxn) s += vf::strf(" ... %zu in total", t.size());
	return s + "]";
}
template<class V> static std::string show_vec(const V& v, size_t maxn = 12) {
	std::ostringstream os;
	os << "[";
	size_t i = 0;
	for (auto& e : v) {
		if (i >= maxn) { os << " ... " << v.size() << " in total"; break; }
		os << (i ? " " : "") << e;
		i++;
	}
	os << "]";
	return os.str();
}

// ---------------------------------------------------------------- per-worker case context
struct Ctx {
	Stats* st = nullptr;
	std::set<long> skip; // case ordinals (within the unit) that killed a worker before
	long ord = 0;
	std::string body; // JSON of the current case without the closing brace
	std::unordered_set<uint32_t> outcomes;
	long tick = 0;
	bool stop = false;
};
static Ctx G;
static vf::Args A;
static bool g_rawvector = false;

static void body_begin(const char* fn) {
	G.body = "{\"fn\":\"";
	G.body += fn;
	G.body += '"';
}
static void body_s(const char* k, const char* v) {
	G.body += ",\"";
	G.body += k;
	G.body += "\":\"";
	G.body += v;
	G.body += '"';
}
static void body_raw(const char* k, const std::string& v) {
	G.body += ",\"";
	G.body += k;
	G.body += "\":";
	G.body += v;
}
static void body_i(const char* k, ll v) { body_raw(k, std::to_string(v)); }

// Announces the case (in-flight slot) and tells whether it is to be executed.
static bool begin_case() {
	long o = G.ord++;
	if ((++G.tick & 4095) == 0 && vf::deadline_passed()) G.stop = true;
	if (G.stop) return false;
	if (G.skip.count(o)) {
		G.st->add("cases_not_rerun_after_worker_death");
		return false;
	}
	static std::string infl;
	infl = G.body;
	infl += ",\"_ord\":";
	infl += std::to_string(o);
	infl += '}';
	vf::set_inflight(infl);
	return true;
}
static J case_j() { return J::parse(G.body + "}"); }
static void viol(const std::string& key, const std::string& msg) { G.st->violation(key, msg, case_j()); }
static void outcome(unsigned fn, unsigned a, unsigned b, unsigned c) {
	G.outcomes.insert((fn << 24) | ((a & 255) << 16) | ((b & 255) << 8) | (c & 255));
}
static const char* FN_NAMES[] = {"?", "Erase", "Insert", "Collapse", "Expand", "ApplyMap", "MapKeys", "Strips", "StripsToTris", "PartitionStrips",
								 "TriangulateShape", "DeletePartitions"};

// ---------------------------------------------------------------- bounds-checked vector
struct OobAccess { ll idx; size_t size; };
struct BadResize { unsigned long long n; };
template<class T> struct CVec {
	using value_type = T;
	std::vector<T> d;
	size_t size() const { return d.size(); }
	// the rest of the read-only vector interface a helper might plausibly use (a change that starts using one of them
	// must not break the build of the harness)
	bool empty() const { return d.empty(); }
	size_t capacity() const { return d.capacity(); }
	void reserve(size_t n) { d.reserve(n); }
	auto begin() { return d.begin(); }
	auto end() { return d.end(); }
	auto begin() const { return d.begin(); }
	auto end() const { return d.end(); }
	T& front() { if (d.empty()) throw OobAccess{0, 0}; return d.front(); }
	T& back() { if (d.empty()) throw OobAccess{-1, 0}; return d.back(); }
	void resize(unsigned long long n) {
		if (n > (1ull << 22)) throw BadResize{n};
		d.resize((size_t) n);
	}
	T& operator[](ll i) {
		if (i < 0 || (size_t) i >= d.size()) throw OobAccess{i, d.size()};
		return d[(size_t) i];
	}
};
template<class F> static std::string guarded(F&& f) {
	try {
		f();
	} catch (OobAccess& o) {
		return vf::strf("element [%lld] of a %zu-element vector is accessed", o.idx, o.size);
	} catch (BadResize& b) {
		return vf::strf("vector is resized to %llu elements", b.n);
	} catch (std::exception& e) {
		return std::string("exception: ") + e.what();
	}
	return "";
}

template<class E> static E elem(size_t i);
template<> int elem<int>(size_t i) { return 100 + (int) i; }
template<> std::string elem<std::string>(size_t i) { return "element-number-" + std::to_string(i) + "-long-enough-to-live-on-the-heap"; }

template<class I> static std::vector<I> mkidx(const std::vector<ll>& s) {
	std::vector<I> r(s.size()); // capacity == size: ASan sees indices[size()]
	for (size_t i = 0; i < s.size(); i++) r[i] = (I) s[i];
	return r;
}

enum Cls { SORTED = 0, NEG, UNSORTED, DUP };
static const char* CLS[] = {"sorted-list", "negative-index", "unsorted-list", "duplicate-index"};
static Cls classify(const std::vector<ll>& s) {
	bool neg = false, uns = false, dup = false;
	for (size_t i = 0; i < s.size(); i++) {
		if (s[i] < 0) neg = true;
		if (i && s[i] < s[i - 1]) uns = true;
		if (i && s[i] == s[i - 1]) dup = true;
	}
	return neg ? NEG : uns ? UNSORTED : dup ? DUP : SORTED;
}
// membership mask over [0, n)
static std::vector<char> mask_of(const std::vector<ll>& s, size_t n) {
	std::vector<char> m(n, 0);
	for (ll x : s) if (x >= 0 && (unsigned long long) x < n) m[(size_t) x] = 1;
	return m;
}

// ---------------------------------------------------------------- EraseVectorIndices (+ erase-then-insert)
template<class I, class E> static void case_erase(size_t n, const Lst& S) {
	body_begin("EraseVectorIndices");
	body_s("itype", TN<I>::n());
	body_s("elem", TN<E>::n());
	body_i("len", (ll) n);
	body_raw("indices", S.json);
	if (!begin_case()) return;
	Stats& st = *G.st;
	st.add("states");
	const std::string T = TN<I>::n();
	Cls c = classify(S.v);
	std::vector<I> idx = mkidx<I>(S.v);
	std::vector<E> orig(n);
	for (size_t i = 0; i < n; i++) orig[i] = elem<E>(i);
	CVec<E> cv;
	cv.d = orig;
	std::string fault = guarded([&] { EraseVectorIndices(cv, idx); });
	if (!fault.empty()) {
		viol("EraseVectorIndices:" + T + ":out-of-container:" + CLS[c], "EraseVectorIndices<" + T + "> on " + std::to_string(n) + " elements, indices " + show_vec(S.v) + ": " + fault);
		return;
	}
	// reference: the elements whose position is not listed, in order (positions >= size denote nothing)
	std::vector<char> m = mask_of(S.v, n);
	std::vector<E> ref;
	size_t inrange = 0;
	for (size_t i = 0; i < n; i++) {
		if (m[i]) inrange++;
		else ref.push_back(orig[i]);
	}
	if (c == SORTED) {
		st.add("transitions");
		if (cv.d != ref) {
			viol("EraseVectorIndices:" + T + ":result-mismatch",
				 "EraseVectorIndices<" + T + "> on " + show_vec(orig) + " with indices " + show_vec(S.v) + " gives " + show_vec(cv.d) + ", expected " + show_vec(ref));
			return;
		}
	}
	else st.add("applications_memory_safety_only");
	outcome(1, (unsigned) std::min<size_t>(n, 255), (unsigned) std::min<size_t>(S.v.size(), 255), (unsigned) std::min<size_t>(cv.d.size(), 255));
	// the container type the callers use, exact capacity, under ASan
	{
		std::vector<E> sv(orig.begin(), orig.end());
		EraseVectorIndices(sv, idx);
		if (c == SORTED) {
			st.add("transitions");
			if (sv != ref) viol("EraseVectorIndices:" + T + ":result-mismatch", "std::vector run: got " + show_vec(sv) + ", expected " + show_vec(ref));
		}
		else if (sv != cv.d) viol("EraseVectorIndices:" + T + ":nondeterministic", "std::vector and checked vector disagree");
	}
	// erase then re-insert restores the positions of the survivors
	if (c == SORTED && inrange == S.v.size()) {
		CVec<E> w = cv;
		fault = guarded([&] { InsertVectorIndices(w, idx); });
		st.add("transitions");
		if (!fault.empty()) {
			viol("EraseThenInsert:" + T + ":out-of-container", "re-inserting " + show_vec(S.v) + " into the " + std::to_string(cv.d.size()) + " survivors: " + fault);
			return;
		}
		bool ok = w.d.size() == n;
		for (size_t i = 0; ok && i < n; i++) if (!m[i] && !(w.d[i] == orig[i])) ok = false;
		if (!ok)
			viol("EraseThenInsert:" + T + ":not-restored",
				 "erase then insert of " + show_vec(S.v) + " on " + show_vec(orig) + " gives " + show_vec(w.d) + " (listed positions are free, all others must hold their original element)");
	}
}

// ---------------------------------------------------------------- InsertVectorIndices (+ insert-then-erase)
template<class I, class E> static void case_insert(size_t m0, const Lst& S) {
	body_begin("InsertVectorIndices");
	body_s("itype", TN<I>::n());
	body_s("elem", TN<E>::n());
	body_i("len", (ll) m0);
	body_raw("indices", S.json);
	if (!begin_case()) return;
	Stats& st = *G.st;
	st.add("states");
	const std::string T = TN<I>::n();
	Cls c = classify(S.v);
	const size_t k = S.v.size();
	// the definition "result has len+k elements, the listed positions are free" needs every listed position < len+k
	bool meaningful = c == SORTED && (k == 0 || (unsigned long long) S.v.back() < m0 + k);
	std::vector<I> idx = mkidx<I>(S.v);
	std::vector<E> orig(m0);
	for (size_t i = 0; i < m0; i++) orig[i] = elem<E>(i);
	CVec<E> cv;
	cv.d = orig;
	std::string fault = guarded([&] { InsertVectorIndices(cv, idx); });
	if (!fault.empty()) {
		viol("InsertVectorIndices:" + T + ":out-of-container:" + CLS[c], "InsertVectorIndices<" + T + "> on " + std::to_string(m0) + " elements, indices " + show_vec(S.v) + ": " + fault);
		if (g_rawvector) { // replay aid: show what the sanitizer says about the same call on a std::vector
			std::vector<E> sv(orig.begin(), orig.end());
			InsertVectorIndices(sv, idx);
		}
		return;
	}
	std::vector<char> m = mask_of(S.v, m0 + k);
	if (meaningful) {
		st.add("transitions");
		bool ok = cv.d.size() == m0 + k;
		size_t src = 0;
		for (size_t i = 0; ok && i < m0 + k; i++)
			if (!m[i]) { if (src >= m0 || !(cv.d[i] == orig[src])) ok = false; src++; }
		if (ok && src != m0) ok = false;
		if (!ok) {
			viol("InsertVectorIndices:" + T + ":result-mismatch",
				 "InsertVectorIndices<" + T + "> on " + show_vec(orig) + " with indices " + show_vec(S.v) + " gives " + show_vec(cv.d) + " (expected " + std::to_string(m0 + k)
					 + " elements with the original ones, in order, at the unlisted positions)");
			return;
		}
		// and erasing the same positions gives the original back
		CVec<E> w = cv;
		fault = guarded([&] { EraseVectorIndices(w, idx); });
		st.add("transitions");
		if (!fault.empty()) viol("InsertThenErase:" + T + ":out-of-container", fault);
		else if (w.d != orig) viol("InsertThenErase:" + T + ":not-restored", "insert then erase of " + show_vec(S.v) + " on " + show_vec(orig) + " gives " + show_vec(w.d));
	}
	else st.add("applications_memory_safety_only");
	outcome(2, (unsigned) std::min<size_t>(m0, 255), (unsigned) std::min<size_t>(k, 255), (unsigned) std::min<size_t>(cv.d.size(), 255));
	{
		std::vector<E> sv(orig.begin(), orig.end());
		InsertVectorIndices(sv, idx);
		if (sv.size() != cv.d.size()) viol("InsertVectorIndices:" + T + ":nondeterministic", "std::vector and checked vector disagree on the result size");
		else if (meaningful) {
			st.add("transitions");
			bool ok = true;
			size_t src = 0;
			for (size_t i = 0; ok && i < m0 + k; i++)
				if (!m[i]) { if (!(sv[i] == orig[src])) ok = false; src++; }
			if (!ok) viol("InsertVectorIndices:" + T + ":result-mismatch", "std::vector run: got " + show_vec(sv));
		}
	}
}

// ---------------------------------------------------------------- GenerateIndexCollapseMap / GenerateIndexExpandMap
template<class I1, class I2> static void case_collapse(const Lst& S, ll mapSize) {
	body_begin("GenerateIndexCollapseMap");
	body_s("itype", TN<I1>::n());
	body_s("stype", TN<I2>::n());
	body_raw("indices", S.json);
	body_i("mapSize", mapSize);
	if (!begin_case()) return;
	Stats& st = *G.st;
	st.add("states");
	Cls c = classify(S.v);
	std::vector<I1> idx = mkidx<I1>(S.v);
	std::vector<int> got = GenerateIndexCollapseMap(idx, (I2) mapSize);
	if (c != SORTED) { st.add("applications_memory_safety_only"); return; }
	st.add("transitions");
	std::vector<char> m = mask_of(S.v, (size_t) mapSize);
	std::vector<int> ref((size_t) mapSize);
	int next = 0;
	for (size_t i = 0; i < (size_t) mapSize; i++) ref[i] = m[i] ? -1 : next++;
	outcome(3, (unsigned) std::min<ll>(mapSize, 255), (unsigned) std::min<size_t>(S.v.size(), 255), (unsigned) std::min(next, 255));
	if (got != ref)
		viol(std::string("GenerateIndexCollapseMap:") + TN<I1>::n() + "/" + TN<I2>::n() + ":result-mismatch",
			 "collapse map of size " + std::to_string(mapSize) + " for deleted " + show_vec(S.v) + " is " + show_vec(got) + ", expected " + show_vec(ref));
}
template<class I1, class I2> static void case_expand(const Lst& S, ll mapSize) {
	body_begin("GenerateIndexExpandMap");
	body_s("itype", TN<I1>::n());
	body_s("stype", TN<I2>::n());
	body_raw("indices", S.json);
	body_i("mapSize", mapSize);
	if (!begin_case()) return;
	Stats& st = *G.st;
	st.add("states");
	Cls c = classify(S.v);
	std::vector<I1> idx = mkidx<I1>(S.v);
	std::vector<int> got = GenerateIndexExpandMap(idx, (I2) mapSize);
	if (c != SORTED) { st.add("applications_memory_safety_only"); return; }
	st.add("transitions");
	// reference: entry i is the i-th natural number that is not listed
	std::vector<char> m = mask_of(S.v, (size_t) mapSize + S.v.size() + 1);
	std::vector<int> ref;
	for (size_t x = 0; ref.size() < (size_t) mapSize; x++)
		if (x >= m.size() || !m[x]) ref.push_back((int) x);
	outcome(4, (unsigned) std::min<ll>(mapSize, 255), (unsigned) std::min<size_t>(S.v.size(), 255), ref.empty() ? 0u : (unsigned) std::min(ref.back(), 255));
	if (got != ref)
		viol(std::string("GenerateIndexExpandMap:") + TN<I1>::n() + "/" + TN<I2>::n() + ":result-mismatch",
			 "expand map of size " + std::to_string(mapSize) + " for inserted " + show_vec(S.v) + " is " + show_vec(got) + ", expected " + show_vec(ref));
}

// ---------------------------------------------------------------- ApplyMapToTriangles
template<class I1, class I2>
static void case_applymap(const std::vector<Triangle>& tris, const std::string& tj, const std::vector<I1>& map, const std::string& mj, bool del) {
	body_begin("ApplyMapToTriangles");
	body_s("mtype", TN<I1>::n());
	body_s("dtype", TN<I2>::n());
	body_raw("tris", tj);
	body_raw("map", mj);
	body_raw("del", del ? "true" : "false");
	if (!begin_case()) return;
	Stats& st = *G.st;
	st.add("states");
	st.add("transitions");
	std::vector<Triangle> t(tris.begin(), tris.end()); // exact capacity
	std::vector<I2> dt;
	ApplyMapToTriangles<I1, I2>(t, map, del ? &dt : nullptr);
	// reference: exactly the triangles whose three corners are in the map and map to a non-negative index, in order
	static std::vector<Tri3> ref;
	static std::vector<ll> refdel;
	ref.clear();
	refdel.clear();
	auto alive = [&](uint16_t p) { return (size_t) p < map.size() && !((ll) map[p] < 0); };
	for (size_t i = 0; i < tris.size(); i++) {
		const Triangle& s = tris[i];
		if (alive(s.p1) && alive(s.p2) && alive(s.p3)) ref.push_back(Tri3{(uint16_t) map[s.p1], (uint16_t) map[s.p2], (uint16_t) map[s.p3]});
		else refdel.push_back((ll) i);
	}
	outcome(5, (unsigned) std::min<size_t>(tris.size(), 255), (unsigned) std::min<size_t>(ref.size(), 255), (unsigned) std::min<size_t>(map.size(), 255));
	const std::string T = std::string(TN<I1>::n()) + "/" + TN<I2>::n();
	if (!same_tris(t, ref)) {
		viol("ApplyMapToTriangles:" + T + ":triangles-mismatch", "triangles " + show_tris(tris) + " through map " + mj + " give " + show_tris(t) + ", expected " + show_ref(ref));
		return;
	}
	if (del) {
		bool ok = dt.size() == refdel.size();
		for (size_t i = 0; ok && i < dt.size(); i++) ok = (ll) dt[i] == refdel[i];
		if (!ok) viol("ApplyMapToTriangles:" + T + ":deletedTris-mismatch", "triangles " + show_tris(tris) + " through map " + mj + ": deletedTris " + show_vec(dt) + ", expected " + show_vec(refdel));
	}
}

// ---------------------------------------------------------------- ApplyIndexMapToMapKeys
template<class M> static void case_keys(const char* mname, const std::vector<ll>& keys, const std::vector<int>& map, const std::string& mj, int offset) {
	using K = typename M::key_type;
	using V = typename M::mapped_type;
	body_begin("ApplyIndexMapToMapKeys");
	body_s("maptype", mname);
	body_raw("keys", jlist(keys));
	body_raw("map", mj);
	body_i("offset", offset);
	if (!begin_case()) return;
	Stats& st = *G.st;
	st.add("states");
	st.add("transitions");
	M km;
	for (ll k : keys) km[(K) k] = (V) (1000 + k);
	ApplyIndexMapToMapKeys(km, map, offset);
	// reference (NifUtil.hpp:132-135): a key inside the index map is dropped if its entry is negative and renamed to the
	// entry otherwise; a key outside gets the offset added.  Keys that collide may keep any of the colliding values.
	std::map<ll, std::set<ll>> ref;
	for (ll k : keys) {
		if ((size_t) k >= map.size()) ref[(ll) (K) (k + offset)].insert(1000 + k);
		else if (map[(size_t) k] >= 0) ref[(ll) (K) map[(size_t) k]].insert(1000 + k);
	}
	std::map<ll, ll> got;
	for (auto& kv : km) got[(ll) kv.first] = (ll) kv.second;
	outcome(6, (unsigned) keys.size(), (unsigned) got.size(), (unsigned) map.size());
	bool ok = got.size() == ref.size();
	for (auto& kv : got) {
		auto it = ref.find(kv.first);
		if (it == ref.end() || !it->second.count(kv.second)) ok = false;
	}
	if (!ok) {
		std::string g, r;
		for (auto& kv : got) g += vf::strf(" %lld->%lld", kv.first, kv.second);
		for (auto& kv : ref) r += vf::strf(" %lld->{%s}", kv.first, show_vec(kv.second).c_str());
		viol(std::string("ApplyIndexMapToMapKeys:") + mname + ":result-mismatch",
			 "keys " + show_vec(keys) + " (value = 1000+key) through map " + mj + " offset " + std::to_string(offset) + " give" + g + ", expected" + r);
	}
}

// ---------------------------------------------------------------- strips
// reference: every window (s[i-2], s[i-1], s[i]) with three different corners is a triangle; even i keeps the
// order, odd i swaps the last two corners (alternating winding); strips shorter than 3 give nothing.
template<class I> static void ref_strips(const std::vector<std::vector<I>>& strips, std::vector<Tri3>& out) {
	out.clear();
	for (auto& s : strips)
		for (size_t i = 2; i < s.size(); i++) {
			uint16_t a = (uint16_t) s[i - 2], b = (uint16_t) s[i - 1], c = (uint16_t) s[i];
			if (a == b || b == c || a == c) continue;
			if (i % 2 == 0) out.push_back(Tri3{a, b, c});
			else out.push_back(Tri3{a, c, b});
		}
}
static std::string jstrips(const std::vector<const std::string*>& js) {
	std::string s = "[";
	for (size_t i = 0; i < js.size(); i++) {
		if (i) s += ',';
		s += *js[i];
	}
	return s + "]";
}

template<class I> static void case_strips(const std::vector<std::vector<I>>& strips, const std::string& sj) {
	body_begin("GenerateTrianglesFromStrips");
	body_s("itype", TN<I>::n());
	body_raw("strips", sj);
	if (!begin_case()) return;
	Stats& st = *G.st;
	st.add("states");
	st.add("transitions");
	std::vector<Triangle> got = GenerateTrianglesFromStrips(strips);
	static std::vector<Tri3> ref;
	ref_strips(strips, ref);
	outcome(7, (unsigned) strips.size(), (unsigned) std::min<size_t>(ref.size(), 255), 0);
	if (!same_tris(got, ref))
		viol(std::string("GenerateTrianglesFromStrips:") + TN<I>::n() + ":triangles-mismatch", "strips " + sj.substr(0, 200) + " expand to " + show_tris(got) + ", expected " + show_ref(ref));
}

enum User { U_STRIPSTOTRIS = 0, U_PARTITION, U_PARTITION_ALL, U_TRIANGULATE };
static const char* USER_FN[] = {"NiTriStripsData::StripsToTris", "PartitionBlock::ConvertStripsToTriangles", "NiSkinPartition::ConvertStripsToTriangles", "NifFile::TriangulateShape"};

static void case_user(User u, const std::vector<std::vector<uint16_t>>& strips, const std::string& sj) {
	body_begin(USER_FN[u]);
	body_raw("strips", sj);
	if (!begin_case()) return;
	Stats& st = *G.st;
	st.add("states");
	st.add("transitions");
	static std::vector<Tri3> ref;
	ref_strips(strips, ref);
	const bool countable = ref.size() <= 65535; // the 16-bit triangle counters can hold the number
	if (u == U_STRIPSTOTRIS) {
		NiTriStripsData d;
		d.stripsInfo.points = strips;
		std::vector<Triangle> got = d.StripsToTris();
		outcome(8, (unsigned) strips.size(), (unsigned) std::min<size_t>(ref.size(), 255), 0);
		if (!same_tris(got, ref)) { viol("StripsToTris:triangles-mismatch", "strips " + sj.substr(0, 200) + " give " + show_tris(got) + ", expected " + show_ref(ref)); return; }
		std::vector<Triangle> got2;
		d.GetTriangles(got2);
		if (!same_tris(got2, ref)) { viol("NiTriStripsData::GetTriangles:triangles-mismatch", "strips " + sj.substr(0, 200) + " give " + show_tris(got2) + ", expected " + show_ref(ref)); return; }
		if (d.GetNumTriangles() != ref.size()) viol("NiTriStripsData::GetNumTriangles:count-mismatch", vf::strf("GetNumTriangles() = %u, expected %zu", d.GetNumTriangles(), ref.size()));
	}
	else if (u == U_PARTITION || u == U_PARTITION_ALL) {
		NiSkinPartition sp;
		sp.partitions.resize(u == U_PARTITION ? 1 : 2);
		sp.numPartitions = (uint32_t) sp.partitions.size();
		auto& p = sp.partitions.back();
		p.strips = strips;
		p.numStrips = (uint16_t) strips.size();
		for (auto& s : strips) p.stripLengths.push_back((uint16_t) s.size());
		p.trueTriangles.push_back(Triangle(7, 8, 9));
		bool r = u == U_PARTITION ? p.ConvertStripsToTriangles() : sp.ConvertStripsToTriangles();
		outcome(9, (unsigned) strips.size(), (unsigned) std::min<size_t>(ref.size(), 255), r);
		const char* key = u == U_PARTITION ? "PartitionBlock::ConvertStripsToTriangles" : "NiSkinPartition::ConvertStripsToTriangles";
		if (strips.empty()) {
			// nothing to convert: the block must be left alone
			if (r || !p.triangles.empty()) viol(std::string(key) + ":no-strips", "a partition without strips reports a conversion");
			return;
		}
		if (!r) { viol(std::string(key) + ":not-converted", "returns false for strips " + sj.substr(0, 200)); return; }
		if (!same_tris(p.triangles, ref)) { viol(std::string(key) + ":triangles-mismatch", "strips " + sj.substr(0, 200) + " give " + show_tris(p.triangles) + ", expected " + show_ref(ref)); return; }
		if (countable && p.numTriangles != ref.size()) viol(std::string(key) + ":numTriangles", vf::strf("numTriangles = %u for %zu triangles", p.numTriangles, ref.size()));
		if (p.numStrips != 0 || !p.strips.empty() || !p.stripLengths.empty()) viol(std::string(key) + ":strips-left", "strip data remains after the conversion");
	}
	else {
		NifFile nif;
		nif.Create(NiVersion::getFO3());
		auto& hdr = nif.GetHeader();
		auto data = std::make_unique<NiTriStripsData>();
		data->vertices = {Vector3(0, 0, 0), Vector3(1, 0, 0), Vector3(0, 1, 0), Vector3(0, 0, 1)};
		data->numVertices = 4;
		data->stripsInfo.points = strips;
		data->stripsInfo.stripLengths.resize((uint16_t) strips.size());
		for (size_t i = 0; i < strips.size(); i++) data->stripsInfo.stripLengths[(uint16_t) i] = (uint16_t) strips[i].size();
		uint32_t dataId = hdr.AddBlock(std::move(data));
		auto shape = std::make_unique<NiTriStrips>();
		shape->name.get() = "S";
		shape->DataRef()->index = dataId;
		uint32_t shapeId = hdr.AddBlock(std::move(shape));
		nif.GetRootNode()->childRefs.AddBlockRef(shapeId);
		nif.TriangulateShape(hdr.GetBlock<NiShape>(shapeId));
		auto ts = hdr.GetBlock<NiTriShape>(shapeId);
		auto td = hdr.GetBlock<NiTriShapeData>(dataId);
		outcome(10, (unsigned) strips.size(), (unsigned) std::min<size_t>(ref.size(), 255), ts != nullptr);
		if (ref.empty()) {
			// no triangle: either the shape is left as it is or it becomes an empty triangle shape
			if (td && !td->triangles.empty()) viol("TriangulateShape:triangles-mismatch", "strips without a proper triangle give " + show_tris(td->triangles));
			return;
		}
		if (!ts || !td) { viol("TriangulateShape:not-converted", "shape/data blocks are not NiTriShape/NiTriShapeData after TriangulateShape for strips " + sj.substr(0, 200)); return; }
		if (!same_tris(td->triangles, ref)) { viol("TriangulateShape:triangles-mismatch", "strips " + sj.substr(0, 200) + " give " + show_tris(td->triangles) + ", expected " + show_ref(ref)); return; }
		if (countable && td->numTriangles != ref.size()) viol("TriangulateShape:numTriangles", vf::strf("numTriangles = %u for %zu triangles", td->numTriangles, ref.size()));
		if (td->vertices.size() != 4 || ts->DataRef()->index != dataId || ts->name.get() != "S" || nif.GetShapes().size() != 1)
			viol("TriangulateShape:shape-damaged", "vertices, data link, name or parent link lost by the conversion");
		std::vector<Triangle> viaShape;
		ts->GetTriangles(viaShape);
		if (!same_tris(viaShape, ref)) viol("TriangulateShape:triangles-mismatch", "NiShape::GetTriangles after conversion gives " + show_tris(viaShape));
	}
}

// NiSkinPartition::DeletePartitions (Skin.cpp: collapse map over triParts + EraseVectorIndices on the partitions)
static void case_delparts(size_t n, const Lst& S) {
	body_begin("NiSkinPartition::DeletePartitions");
	body_i("len", (ll) n);
	body_raw("indices", S.json);
	if (!begin_case()) return;
	Stats& st = *G.st;
	st.add("states");
	if (classify(S.v) != SORTED) vf::fatal("DeletePartitions is only driven with sorted lists");
	st.add("transitions");
	NiSkinPartition sp;
	sp.partitions.resize(n);
	for (size_t i = 0; i < n; i++) sp.partitions[i].numBones = (uint16_t) (100 + i);
	sp.numPartitions = (uint32_t) n;
	for (size_t i = 0; i < n; i++) sp.triParts.push_back((int) i);
	for (size_t i = n; i-- > 0;) sp.triParts.push_back((int) i);
	sp.triParts.push_back(-1);
	std::vector<int> before = sp.triParts;
	std::vector<uint32_t> idx = mkidx<uint32_t>(S.v);
	sp.DeletePartitions(idx);
	std::vector<char> m = mask_of(S.v, n);
	std::vector<int> refParts, newIndex(n);
	int next = 0;
	for (size_t i = 0; i < n; i++) {
		newIndex[i] = m[i] ? -1 : next++;
		if (!m[i]) refParts.push_back(100 + (int) i);
	}
	std::vector<int> refTri;
	for (int pi : before) refTri.push_back(pi >= 0 && (size_t) pi < n ? newIndex[(size_t) pi] : pi);
	std::vector<int> gotParts;
	for (auto& p : sp.partitions) gotParts.push_back(p.numBones);
	outcome(11, (unsigned) n, (unsigned) S.v.size(), (unsigned) gotParts.size());
	if (gotParts != refParts || sp.numPartitions != refParts.size())
		viol("DeletePartitions:partitions-mismatch", "deleting " + show_vec(S.v) + " of " + std::to_string(n) + " partitions leaves " + show_vec(gotParts) + " (numPartitions " + std::to_string(sp.numPartitions) + "), expected " + show_vec(refParts));
	else if (sp.triParts != refTri)
		viol("DeletePartitions:triParts-mismatch", "deleting " + show_vec(S.v) + " of " + std::to_string(n) + " partitions maps triParts " + show_vec(before, 20) + " to " + show_vec(sp.triParts, 20) + ", expected " + show_vec(refTri, 20));
}

// ---------------------------------------------------------------- enumeration helpers
static std::vector<ll> subset_of(unsigned mask) {
	std::vector<ll> s;
	for (unsigned b = 0; b < 32; b++) if (mask & (1u << b)) s.push_back(b);
	return s;
}
// all sequences of length 1..maxlen over the alphabet, f(seq)
// (shorter sequences first, so that the first failing case reported for a key is a shortest one)
template<class F> static void for_sequences(const std::vector<ll>& alpha, size_t maxlen, F&& f) {
	for (size_t len = 1; len <= maxlen; len++) {
		std::vector<size_t> d(len, 0);
		std::vector<ll> s(len);
		for (;;) {
			for (size_t i = 0; i < len; i++) s[i] = alpha[d[i]];
			f(s);
			size_t p = len;
			while (p > 0 && d[p - 1] + 1 == alpha.size()) d[--p] = 0;
			if (p == 0) break;
			d[p - 1]++;
		}
	}
}
// strictly ascending and every entry within [0, hi]  ->  already part of domain A
static bool in_domain_a(const std::vector<ll>& s, ll hi) {
	for (size_t i = 0; i < s.size(); i++) if (s[i] < 0 || s[i] > hi || (i && s[i] <= s[i - 1])) return false;
	return true;
}
// strips over {0..3}: index -> strip, ordered by length then lexicographically
static std::vector<uint16_t> strip_of(size_t idx) {
	size_t len = 0, cnt = 1;
	while (idx >= cnt) { idx -= cnt; cnt *= 4; len++; }
	std::vector<uint16_t> s(len);
	for (size_t i = len; i-- > 0;) { s[i] = (uint16_t) (idx % 4); idx /= 4; }
	return s;
}
static size_t strips_upto(size_t len) { size_t n = 0, c = 1; for (size_t l = 0; l <= len; l++) { n += c; c *= 4; } return n; }

struct Tier {
	size_t N;         // vector length for erase / insert
	size_t Lb;        // sequence length for precondition-breaking lists
	size_t mapMax;    // map sizes for collapse / expand
	int triIdx;       // triangle corner alphabet 0..triIdx
	int mapLen;       // ApplyMapToTriangles: map length
	int mapVals;      // map values -1, 0..mapVals-1
	int keyBits;      // key sets within {0..keyBits-1}
	size_t strip1;    // single strips up to this length
	size_t strip2;    // pairs of strips, each up to this length (direct function)
	size_t user1, user2; // users (StripsToTris, partition): single / pairs
	size_t tri1, tri2;   // TriangulateShape: single / pairs
};
static Tier tier_of(bool thorough) {
	if (thorough) return Tier{6, 4, 7, 4, 4, 4, 6, 6, 6, 6, 5, 6, 4};
	return Tier{5, 3, 6, 4, 3, 3, 5, 5, 5, 5, 4, 5, 3};
}
static Tier TR;

struct Unit { int kind; int a, b; };
enum { K_TRI, K_STRIP2, K_USER2, K_TRIANG2, K_KEYS, K_EI, K_MAPS, K_STRIP1, K_DELPARTS, K_BOUNDARY, K_REPLAY };
static const char* KIND[] = {"tri", "strip2", "user2", "triang2", "keys", "ei", "maps", "strip1", "delparts", "boundary", "replay"};

// ---- ApplyMapToTriangles unit: type combination c, first triangle f (-1: the empty list)
template<class I1> static void build_maps(std::vector<std::vector<I1>>& maps, std::vector<std::string>& js) {
	std::vector<ll> alpha;
	alpha.push_back(std::is_signed<I1>::value ? -1 : 65535);
	for (int v = 0; v < TR.mapVals; v++) alpha.push_back(v);
	maps.push_back({});
	js.push_back("[]");
	for_sequences(alpha, (size_t) TR.mapLen, [&](const std::vector<ll>& s) { maps.push_back(mkidx<I1>(s)); js.push_back(jlist(s)); });
}
static Triangle tri_of(int idx) {
	int n = TR.triIdx + 1;
	return Triangle((uint16_t) (idx / (n * n)), (uint16_t) (idx / n % n), (uint16_t) (idx % n));
}
template<class I1, class I2> static void unit_tri(int f) {
	std::vector<std::vector<I1>> maps;
	std::vector<std::string> mjs;
	build_maps<I1>(maps, mjs);
	int n = TR.triIdx + 1, T = n * n * n;
	std::vector<TriLst> lists;
	if (f < 0) lists.push_back(TL({}));
	else {
		lists.push_back(TL({tri_of(f)}));
		for (int s = 0; s < T; s++) lists.push_back(TL({tri_of(f), tri_of(s)}));
	}
	for (auto& l : lists)
		for (size_t m = 0; m < maps.size(); m++)
			for (int del = 0; del < 2; del++) {
				case_applymap<I1, I2>(l.v, l.json, maps[m], mjs[m], del != 0);
				if (G.stop) return;
			}
}

template<class F> static bool with_itype(const std::string& n, F&& f) {
	if (n == "uint16") f(uint16_t());
	else if (n == "uint32") f(uint32_t());
	else if (n == "int") f(int());
	else return false;
	return true;
}
template<class F> static bool with_stype(const std::string& n, F&& f) {
	if (n == "size_t") { f(size_t()); return true; }
	return with_itype(n, f);
}

// ---- erase / insert unit for index type I
template<class I, class E> static void unit_ei(bool withB) {
	// domain A
	for (size_t n = 0; n <= TR.N; n++)
		for (unsigned mask = 0; mask < (1u << (n + 2)); mask++) {
			case_erase<I, E>(n, L(subset_of(mask)));
			if (G.stop) return;
		}
	for (size_t m = 0; m <= TR.N; m++)
		for (unsigned mask = 0; mask < (1u << (TR.N + 3)); mask++) {
			case_insert<I, E>(m, L(subset_of(mask)));
			if (G.stop) return;
		}
	if (!withB) return;
	// domain B: every sequence that is not a subset of the domain-A universe
	for (size_t n = 0; n <= TR.N; n++) {
		std::vector<ll> alpha;
		for (size_t v = 0; v <= n + 1; v++) alpha.push_back((ll) v);
		for (ll x : extremes<I>()) alpha.push_back(x);
		for_sequences(alpha, TR.Lb, [&](const std::vector<ll>& s) {
			if (G.stop) return;
			if (!in_domain_a(s, (ll) n + 1)) case_erase<I, E>(n, L(s));
			if (!in_domain_a(s, (ll) TR.N + 2)) case_insert<I, E>(n, L(s));
		});
	}
}
template<class I1, class I2> static void unit_maps() {
	for (ll ms = 0; ms <= (ll) TR.mapMax; ms++) {
		for (unsigned mask = 0; mask < (1u << (TR.mapMax + 2)); mask++) {
			Lst s = L(subset_of(mask));
			case_collapse<I1, I2>(s, ms);
			case_expand<I1, I2>(s, ms);
			if (G.stop) return;
		}
		std::vector<ll> alpha;
		for (ll v = 0; v <= ms + 1; v++) alpha.push_back(v);
		for (ll x : extremes<I1>()) alpha.push_back(x);
		for_sequences(alpha, TR.Lb, [&](const std::vector<ll>& s) {
			if (G.stop || in_domain_a(s, (ll) TR.mapMax + 1)) return;
			Lst l = L(s);
			case_collapse<I1, I2>(l, ms);
			case_expand<I1, I2>(l, ms);
		});
	}
}

static void unit_keys(int mt) {
	std::vector<std::vector<int>> maps;
	std::vector<std::string> mjs;
	{
		std::vector<std::vector<int>> tmp;
		build_maps<int>(tmp, mjs);
		maps = tmp;
	}
	static const int offsets[] = {-1, 0, 2};
	for (unsigned km = 0; km < (1u << TR.keyBits); km++) {
		std::vector<ll> keys = subset_of(km);
		for (size_t m = 0; m < maps.size(); m++)
			for (int off : offsets) {
				switch (mt) {
					case 0: case_keys<std::map<int, int>>("map<int,int>", keys, maps[m], mjs[m], off); break;
					case 1: case_keys<std::unordered_map<int, int>>("unordered_map<int,int>", keys, maps[m], mjs[m], off); break;
					case 2: case_keys<std::unordered_map<uint16_t, float>>("unordered_map<uint16,float>", keys, maps[m], mjs[m], off); break;
					default: case_keys<std::map<uint16_t, int>>("map<uint16,int>", keys, maps[m], mjs[m], off); break;
				}
				if (G.stop) return;
			}
	}
}

template<class I> static std::vector<I> strip_as(size_t idx) {
	std::vector<uint16_t> s = strip_of(idx);
	return std::vector<I>(s.begin(), s.end());
}
template<class I> static void unit_strip1() {
	size_t n = strips_upto(TR.strip1);
	// no strip at all, then every single strip
	case_strips<I>({}, "[]");
	for (size_t i = 0; i < n && !G.stop; i++) {
		std::vector<std::vector<I>> ss{strip_as<I>(i)};
		std::vector<ll> tmp(ss[0].begin(), ss[0].end());
		case_strips<I>(ss, "[" + jlist(tmp) + "]");
	}
}
static void unit_users1() {
	for (int u = 0; u < 4; u++) {
		size_t n = strips_upto(u == U_TRIANGULATE ? TR.tri1 : TR.user1);
		case_user((User) u, {}, "[]");
		for (size_t i = 0; i < n && !G.stop; i++) {
			std::vector<std::vector<uint16_t>> ss{strip_of(i)};
			std::vector<ll> tmp(ss[0].begin(), ss[0].end());
			case_user((User) u, ss, "[" + jlist(tmp) + "]");
		}
	}
}
// pairs of strips: first strip index in [lo, hi), second over all strips up to maxlen
template<class F> static void for_pairs(size_t lo, size_t hi, size_t maxlen, F&& f) {
	size_t n = strips_upto(maxlen);
	std::vector<std::vector<uint16_t>> all(n);
	std::vector<std::string> js(n);
	for (size_t i = 0; i < n; i++) {
		all[i] = strip_of(i);
		js[i] = jlist(std::vector<ll>(all[i].begin(), all[i].end()));
	}
	for (size_t a = lo; a < hi && a < n; a++)
		for (size_t b = 0; b < n; b++) {
			if (G.stop) return;
			std::vector<std::vector<uint16_t>> ss{all[a], all[b]};
			f(ss, "[" + js[a] + "," + js[b] + "]");
		}
}

// ---- 16-bit boundary cases
// the same list may be written in two ways (e.g. [n] and [65535]): keep one
static std::vector<Lst> uniq(const std::vector<Lst>& in) {
	std::vector<Lst> out;
	for (auto& l : in) {
		bool seen = false;
		for (auto& o : out) if (o.v == l.v) seen = true;
		if (!seen) out.push_back(l);
	}
	return out;
}
static void unit_boundary(int part) {
	if (part == 0) {
		for (ll n : {65534ll, 65535ll}) {
			std::vector<Lst> lists = uniq({L({}), L({0}), L({n - 1}), L({0, n - 1}), Lranges({{0, n, 2}}), Lranges({{0, n, 1}}), Lranges({{1, n, 1}}), L({n}), L({0, n}), L({65535})});
			for (auto& s : lists) case_erase<uint16_t, int>((size_t) n, s);
		}
		for (ll n : {65535ll, 65536ll, 65537ll}) {
			std::vector<Lst> lists = uniq({L({0}), L({n - 1}), L({65535}), L({65534, 65535}), Lranges({{0, n, 2}}), Lranges({{0, n, 1}}), L({n}), L({0, n + 1})});
			for (auto& s : lists) {
				case_erase<uint32_t, int>((size_t) n, s);
				case_erase<int, int>((size_t) n, s);
			}
		}
	}
	else if (part == 1) {
		// InsertVectorIndices: final size F = len + k
		for (ll F : {65534ll, 65535ll}) {
			std::vector<Lst> lists = uniq({L({0}), L({F - 1}), L({0, F - 1}), Lranges({{0, F, 2}}), Lranges({{1, F, 2}}), Lranges({{0, F, 1}}), Lranges({{0, F - 1, 1}}), L({F - 2, F - 1})});
			for (auto& s : lists) case_insert<uint16_t, int>((size_t) (F - (ll) s.v.size()), s);
		}
		case_insert<uint16_t, int>(65534, L({65535})); // position == final size: out of range
		case_insert<uint16_t, int>(65533, L({65535})); // position > final size
		case_insert<uint16_t, int>(65533, L({65534, 65535}));
		for (ll F : {65536ll, 65537ll}) {
			std::vector<Lst> lists = uniq({L({0}), L({F - 1}), L({0, F - 1}), Lranges({{0, F, 2}}), Lranges({{0, F, 1}}), L({65535, 65536})});
			for (auto& s : lists) {
				if (s.v.back() >= F) continue;
				case_insert<uint32_t, int>((size_t) (F - (ll) s.v.size()), s);
				case_insert<int, int>((size_t) (F - (ll) s.v.size()), s);
			}
		}
	}
	else if (part == 2) {
		for (ll ms : {65534ll, 65535ll}) {
			std::vector<Lst> lists = uniq({L({}), L({0}), L({ms - 1}), L({0, ms - 1}), Lranges({{0, ms, 2}}), Lranges({{0, ms, 1}}), L({ms}), L({65535})});
			for (auto& s : lists) {
				case_collapse<uint16_t, uint16_t>(s, ms);
				case_collapse<uint16_t, size_t>(s, ms);
				case_collapse<uint32_t, uint32_t>(s, ms);
			}
		}
		for (auto& s : {L({0}), L({65535}), L({65536}), Lranges({{0, 65537, 2}})}) {
			case_collapse<uint32_t, uint32_t>(s, 65536);
			case_collapse<uint32_t, size_t>(s, 65537);
			case_collapse<int, int>(s, 65537);
		}
		// expand maps whose largest entry still fits the 16-bit counter (mapSize + k <= 65536)
		case_expand<uint16_t, uint16_t>(L({}), 65535);
		case_expand<uint16_t, uint16_t>(L({0}), 65535);
		case_expand<uint16_t, uint16_t>(L({65534}), 65535);
		case_expand<uint16_t, uint16_t>(L({65535}), 65535);
		case_expand<uint16_t, uint16_t>(L({0, 1}), 65534);
		case_expand<uint16_t, uint16_t>(L({0, 65535}), 65534);
		case_expand<uint16_t, uint16_t>(Lranges({{0, 65536, 2}}), 32768);
		case_expand<uint16_t, uint16_t>(Lranges({{0, 65535, 1}}), 1);
		case_expand<uint32_t, uint32_t>(L({0, 1}), 65536);
		case_expand<uint16_t, size_t>(L({0, 1}), 65536);
		case_expand<int, int>(Lranges({{0, 65536, 2}}), 65537);
	}
	else if (part == 3) {
		std::vector<int> map = {2, 1, 0, -1};
		std::vector<uint16_t> map16 = {2, 1, 0, 65535};
		for (ll cnt : {65535ll, 65536ll, 65537ll}) {
			TriLst t = TLcycle({Triangle(0, 1, 2), Triangle(1, 2, 5), Triangle(2, 3, 0)}, cnt);
			for (int del = 0; del < 2; del++) {
				case_applymap<int, int>(t.v, t.json, map, "[2,1,0,-1]", del != 0);
				case_applymap<int, uint32_t>(t.v, t.json, map, "[2,1,0,-1]", del != 0);
				case_applymap<uint16_t, int>(t.v, t.json, map16, "[2,1,0,65535]", del != 0);
			}
		}
		// more than 65535 SURVIVORS (FO4 shapes count triangles in 32 bits): every triangle but one per cycle survives
		for (ll cnt : {81919ll, 81920ll, 81921ll, 90000ll}) { // 4 of 5 survive: 65535, 65536, 65537, 72000 survivors
			TriLst t = TLcycle({Triangle(0, 1, 2), Triangle(2, 1, 0), Triangle(1, 0, 2), Triangle(0, 1, 2), Triangle(1, 2, 3)}, cnt);
			for (int del = 0; del < 2; del++) {
				case_applymap<int, int>(t.v, t.json, map, "[2,1,0,-1]", del != 0);
				case_applymap<int, uint32_t>(t.v, t.json, map, "[2,1,0,-1]", del != 0);
			}
		}
		// a map that covers the whole 16-bit index range
		{
			std::vector<int> big(65536);
			for (size_t i = 0; i < big.size(); i++) big[i] = (int) (65535 - i);
			// JSON form of this map: {"descending":n} = n-1, n-2, ..., 0
			TriLst t = TL({Triangle(0, 65535, 1), Triangle(65534, 65535, 65533)});
			case_applymap<int, int>(t.v, t.json, big, "{\"descending\":65536}", true);
		}
	}
	else if (part == 5) {
		// opt-in (--beyond16 1): containers with more elements than the 16-bit index type can count.  Outside the
		// property's quantifier (no caller has them); kept for inspection only.
		alarm(60);
		case_insert<uint16_t, int>(65535, L({0}));      // final size 65536, every position still representable
		case_insert<uint16_t, int>(65535, L({65535}));
		case_erase<uint16_t, int>(65536, L({65535}));
		case_expand<uint16_t, uint16_t>(L({0, 1}), 65535); // largest entry 65536
		case_insert<uint16_t, int>(65536, L({0}));      // final size 65537
		case_erase<uint16_t, int>(65536, L({0}));
	}
	else {
		Lst longStrip = Lcycle({0, 1, 2, 3}, 65535), degenerate = Lcycle({0, 0, 1}, 65535), four = L({0, 1, 2, 3}), five = L({3, 2, 1, 0, 1});
		auto mk = [](const std::vector<const Lst*>& ls) {
			std::vector<std::vector<uint16_t>> ss;
			for (auto l : ls) ss.push_back(std::vector<uint16_t>(l->v.begin(), l->v.end()));
			return ss;
		};
		auto js = [](const std::vector<const Lst*>& ls) {
			std::vector<const std::string*> p;
			for (auto l : ls) p.push_back(&l->json);
			return jstrips(p);
		};
		std::vector<std::vector<const Lst*>> sets = {{&longStrip}, {&degenerate}, {&longStrip, &four}, {&four, &longStrip}, {&longStrip, &five}};
		for (auto& s : sets) {
			case_strips<uint16_t>(mk(s), js(s));
			for (int u = 0; u < 4; u++) case_user((User) u, mk(s), js(s));
		}
		// more triangles than a 16-bit counter holds: only the triangle lists are compared
		std::vector<const Lst*> twice = {&longStrip, &longStrip};
		case_strips<uint16_t>(mk(twice), js(twice));
		case_user(U_STRIPSTOTRIS, mk(twice), js(twice));
		case_user(U_PARTITION, mk(twice), js(twice));
	}
}

// ---------------------------------------------------------------- replay of one case
static void run_replay(const J& c) {
	const std::string fn = c["fn"].str();
	auto bad = [&](const std::string& w) { vf::fatal("replay: " + w); };
	if (fn == "EraseVectorIndices" || fn == "InsertVectorIndices") {
		Lst s = Lparse(c["indices"]);
		size_t n = (size_t) c["len"].i64();
		bool str = c["elem"].str() == "string";
		bool er = fn == "EraseVectorIndices";
		if (!with_itype(c["itype"].str(), [&](auto tag) {
				using I = decltype(tag);
				if (er) { if (str) case_erase<I, std::string>(n, s); else case_erase<I, int>(n, s); }
				else { if (str) case_insert<I, std::string>(n, s); else case_insert<I, int>(n, s); }
			}))
			bad("itype");
	}
	else if (fn == "GenerateIndexCollapseMap" || fn == "GenerateIndexExpandMap") {
		Lst s = Lparse(c["indices"]);
		ll ms = c["mapSize"].i64();
		bool col = fn == "GenerateIndexCollapseMap";
		bool ok = with_itype(c["itype"].str(), [&](auto t1) {
			using I1 = decltype(t1);
			if (!with_stype(c["stype"].str(), [&](auto t2) {
					using I2 = decltype(t2);
					if (col) case_collapse<I1, I2>(s, ms);
					else case_expand<I1, I2>(s, ms);
				}))
				bad("stype");
		});
		if (!ok) bad("itype");
	}
	else if (fn == "ApplyMapToTriangles") {
		TriLst t = TLparse(c["tris"]);
		std::vector<ll> mv;
		std::string mj;
		if (c["map"].t == J::ARR) { mv = jints(c["map"]); mj = jlist(mv); }
		else {
			ll n = c["map"]["descending"].i64();
			for (ll i = 0; i < n; i++) mv.push_back(n - 1 - i);
			mj = "{\"descending\":" + std::to_string(n) + "}";
		}
		bool del = c["del"].b;
		std::string mt = c["mtype"].str(), dt = c["dtype"].str();
		if (mt == "int" && dt == "int") case_applymap<int, int>(t.v, t.json, mkidx<int>(mv), mj, del);
		else if (mt == "int" && dt == "uint32") case_applymap<int, uint32_t>(t.v, t.json, mkidx<int>(mv), mj, del);
		else if (mt == "uint16" && dt == "int") case_applymap<uint16_t, int>(t.v, t.json, mkidx<uint16_t>(mv), mj, del);
		else if (mt == "uint16" && dt == "uint32") case_applymap<uint16_t, uint32_t>(t.v, t.json, mkidx<uint16_t>(mv), mj, del);
		else bad("mtype/dtype");
	}
	else if (fn == "ApplyIndexMapToMapKeys") {
		std::vector<ll> keys = jints(c["keys"]), mv = jints(c["map"]);
		std::vector<int> map = mkidx<int>(mv);
		int off = (int) c["offset"].i64();
		std::string mt = c["maptype"].str();
		if (mt == "map<int,int>") case_keys<std::map<int, int>>("map<int,int>", keys, map, jlist(mv), off);
		else if (mt == "unordered_map<int,int>") case_keys<std::unordered_map<int, int>>("unordered_map<int,int>", keys, map, jlist(mv), off);
		else if (mt == "unordered_map<uint16,float>") case_keys<std::unordered_map<uint16_t, float>>("unordered_map<uint16,float>", keys, map, jlist(mv), off);
		else if (mt == "map<uint16,int>") case_keys<std::map<uint16_t, int>>("map<uint16,int>", keys, map, jlist(mv), off);
		else bad("maptype");
	}
	else if (fn == "NiSkinPartition::DeletePartitions") case_delparts((size_t) c["len"].i64(), Lparse(c["indices"]));
	else {
		// strips
		std::vector<Lst> ls;
		for (auto& s : c["strips"].a) ls.push_back(Lparse(s));
		std::vector<const std::string*> p;
		for (auto& l : ls) p.push_back(&l.json);
		std::string sj = jstrips(p);
		if (fn == "GenerateTrianglesFromStrips") {
			if (!with_itype(c["itype"].str(), [&](auto tag) {
					using I = decltype(tag);
					std::vector<std::vector<I>> ss;
					for (auto& l : ls) ss.push_back(mkidx<I>(l.v));
					case_strips<I>(ss, sj);
				}))
				bad("itype");
			return;
		}
		std::vector<std::vector<uint16_t>> ss;
		for (auto& l : ls) ss.push_back(mkidx<uint16_t>(l.v));
		for (int u = 0; u < 4; u++)
			if (fn == USER_FN[u]) { case_user((User) u, ss, sj); return; }
		bad("unknown fn " + fn);
	}
}

// ---------------------------------------------------------------- main
int main(int argc, char** argv) {
	A = vf::parse_args(argc, argv);
	Stats top;
	TR = tier_of(A.thorough());
	const bool withB = A.geti("precond", 0) != 0; // domain B (lists breaking the documented sorted-ascending precondition): outside the property's quantifier ("sorted index list", "index subsets"), off by default
	const std::string only = A.get("only");
	g_rawvector = !A.replay.empty() && A.geti("rawvector", 0) != 0;

	J replayCase;
	std::vector<Unit> units;
	if (!A.replay.empty()) {
		replayCase = J::parse(vf::read_file(A.replay))["case"];
		TR = tier_of(true);
		units.push_back({K_REPLAY, 0, 0});
	}
	else {
		int T = (TR.triIdx + 1) * (TR.triIdx + 1) * (TR.triIdx + 1);
		for (int c = 0; c < 4; c++)
			for (int f = -1; f < T; f++) units.push_back({K_TRI, c, f});
		const int chunk = 32;
		for (size_t a = 0; a < strips_upto(TR.strip2); a += chunk) units.push_back({K_STRIP2, (int) a, (int) a + chunk});
		for (size_t a = 0; a < strips_upto(TR.user2); a += chunk) units.push_back({K_USER2, (int) a, (int) a + chunk});
		for (size_t a = 0; a < strips_upto(TR.tri2); a += chunk) units.push_back({K_TRIANG2, (int) a, (int) a + chunk});
		for (int m = 0; m < 4; m++) units.push_back({K_KEYS, m, 0});
		for (int t = 0; t < 3; t++)
			for (int e = 0; e < 2; e++) units.push_back({K_EI, t, e});
		for (int t1 = 0; t1 < 3; t1++)
			for (int t2 = 0; t2 < 4; t2++) units.push_back({K_MAPS, t1, t2});
		for (int t = 0; t < 4; t++) units.push_back({K_STRIP1, t, 0});
		units.push_back({K_DELPARTS, 0, 0});
		for (int p = 0; p < 5; p++) units.push_back({K_BOUNDARY, p == 4 ? 6 : p, 0});
		if (A.geti("beyond16", 0)) units.push_back({K_BOUNDARY, 5, 0});
		if (!only.empty()) {
			std::vector<Unit> f;
			for (auto& u : units) if (only == KIND[u.kind]) f.push_back(u);
			units = f;
		}
	}

	vf::PoolCfg pc;
	pc.jobs = A.jobs;
	pc.rundir = A.rundir;
	pc.repo = A.repo;
	static const char* IT[] = {"uint16", "uint32", "int", "size_t"};

	auto unit_fn = [&](size_t ui, const std::vector<std::string>& skips, long, Stats& st) {
		const Unit& u = units[ui];
		G = Ctx();
		G.st = &st;
		for (auto& s : skips) G.skip.insert(atol(s.c_str()));
		alarm(1800); // a hang inside a unit ends the worker ("timeout") instead of the run
		switch (u.kind) {
			case K_TRI:
				if (u.a == 0) unit_tri<int, int>(u.b);
				else if (u.a == 1) unit_tri<int, uint32_t>(u.b);
				else if (u.a == 2) unit_tri<uint16_t, int>(u.b);
				else unit_tri<uint16_t, uint32_t>(u.b);
				break;
			case K_STRIP2:
				for_pairs((size_t) u.a, (size_t) u.b, TR.strip2, [&](const std::vector<std::vector<uint16_t>>& ss, const std::string& sj) { case_strips<uint16_t>(ss, sj); });
				break;
			case K_USER2:
				for_pairs((size_t) u.a, (size_t) u.b, TR.user2, [&](const std::vector<std::vector<uint16_t>>& ss, const std::string& sj) {
					case_user(U_STRIPSTOTRIS, ss, sj);
					case_user(U_PARTITION, ss, sj);
					case_user(U_PARTITION_ALL, ss, sj);
				});
				break;
			case K_TRIANG2:
				for_pairs((size_t) u.a, (size_t) u.b, TR.tri2, [&](const std::vector<std::vector<uint16_t>>& ss, const std::string& sj) { case_user(U_TRIANGULATE, ss, sj); });
				break;
			case K_KEYS: unit_keys(u.a); break;
			case K_EI:
				with_itype(IT[u.a], [&](auto tag) {
					using I = decltype(tag);
					if (u.b == 0) unit_ei<I, int>(withB);
					else unit_ei<I, std::string>(false);
				});
				break;
			case K_MAPS:
				with_itype(IT[u.a], [&](auto t1) {
					using I1 = decltype(t1);
					with_stype(IT[u.b], [&](auto t2) {
						using I2 = decltype(t2);
						unit_maps<I1, I2>();
					});
				});
				break;
			case K_STRIP1:
				if (u.a == 0) unit_strip1<uint16_t>();
				else if (u.a == 1) unit_strip1<uint32_t>();
				else if (u.a == 2) unit_strip1<int>();
				else unit_users1();
				break;
			case K_DELPARTS:
				for (size_t n = 0; n <= TR.N && !G.stop; n++)
					for (unsigned mask = 0; mask < (1u << (n + 2)); mask++) case_delparts(n, L(subset_of(mask)));
				break;
			case K_BOUNDARY: unit_boundary(u.a); break;
			case K_REPLAY: run_replay(replayCase); break;
		}
		alarm(0);
		if (G.stop) st.capped(std::string("deadline reached inside unit ") + KIND[u.kind] + "/" + std::to_string(u.a) + "/" + std::to_string(u.b));
		st.add("units");
		st.add(std::string("cases_") + KIND[u.kind], G.ord);
		if (!G.body.empty() && u.kind != K_REPLAY && (ui == 0 || units[ui - 1].kind != u.kind)) st.sample(case_j()); // last case of the first unit of each kind
		for (uint32_t o : G.outcomes) st.distinct("outcomes", vf::strf("%s/%u/%u/%u", FN_NAMES[o >> 24], (o >> 16) & 255, (o >> 8) & 255, o & 255));
	};
	auto crash_fn = [&](size_t ui, const vf::CrashInfo& ci, const std::string& inflight, Stats& parent) -> std::string {
		// a worker died: sanitizer report, signal or watchdog.  The case in flight is the finding.
		J c;
		try { c = J::parse(inflight); } catch (std::exception&) {}
		std::string fn = c.t == J::OBJ ? c["fn"].str() : std::string("?");
		std::string types;
		for (const char* k : {"itype", "stype", "mtype", "dtype", "maptype"}) if (c.has(k)) types += (types.empty() ? "" : "/") + c[k].str();
		std::string cls;
		if (c.has("indices") && c["indices"].t == J::ARR) cls = std::string(":") + CLS[classify(jints(c["indices"]))];
		J rc = J::obj();
		long ord = -1;
		for (auto& kv : c.o) { if (kv.first == "_ord") ord = (long) kv.second.i64(); else rc.set(kv.first, kv.second); }
		parent.violation(fn + (types.empty() ? "" : ":" + types) + ":" + ci.cls + cls, "worker died (" + ci.cls + " in " + (ci.frame.empty() ? "?" : ci.frame) + ") while running " + rc.dump().substr(0, 300), rc);
		parent.add("worker_deaths");
		if (ord < 0 || units[ui].kind == K_REPLAY) return "";
		return std::to_string(ord); // restart the unit without this case
	};
	vf::run_pool(units.size(), pc, unit_fn, crash_fn, top);

	if (A.replay.empty()) {
		top.set_info("rule",
					 vf::strf("complete enumeration, no sampling. Erase/InsertVectorIndices: vectors of length 0..%zu with distinct elements (the templates only move elements, so one "
							  "vector per length and element type {int, std::string} represents all of them) x every strictly ascending index list over {0..len+1} (erase) / {0..%zu} "
							  "(insert) x index types uint16/uint32/int, each run on a bounds-checked vector and on an exact-capacity std::vector; erase-then-insert and insert-then-erase "
							  "round trips.  Collapse/ExpandMap: every subset of {0..%zu} x map sizes 0..%zu x 3 index x 4 size types.  ApplyMapToTriangles: every list of <=2 triangles over "
							  "corners 0..%d x every map of length <=%d over {-1|65535, 0..%d} x deletedTris on/off x {int,uint16} maps x {int,uint32} counters.  ApplyIndexMapToMapKeys: every "
							  "key set within {0..%d} x the same maps x offsets {-1,0,2} x 4 map types.  GenerateTrianglesFromStrips: every strip over {0..3} of length <=%zu (3 index types), "
							  "every ordered pair of strips of length <=%zu; users StripsToTris / PartitionBlock+NiSkinPartition::ConvertStripsToTriangles (single <=%zu, pairs <=%zu), "
							  "NifFile::TriangulateShape (single <=%zu, pairs <=%zu), NiSkinPartition::DeletePartitions (0..%zu partitions x every subset of {0..n+1}); boundary cases at "
							  "65534..65537 elements.  %s"
							  "states = distinct inputs (function, type instantiation, argument values; each generated once), transitions = applications compared with the reference model.",
							  TR.N, TR.N + 2, TR.mapMax + 1, TR.mapMax, TR.triIdx, TR.mapLen, TR.mapVals - 1, TR.keyBits - 1, TR.strip1, TR.strip2, TR.user1, TR.user2, TR.tri1, TR.tri2, TR.N,
							  withB ? vf::strf("Precondition-breaking index lists (every sequence of length <=%zu over {0..len+1} plus the type's extreme values that is not strictly ascending or "
											   "has a negative/extreme entry) are executed for memory safety only.  ",
											   TR.Lb)
										  .c_str()
									: ""));
		top.set_info("domain_b_enabled", withB);
		top.set_info("oracle", "reference = naive loops written from the property statement; memory: bounds-checked VectorType (throws on first bad access) + ASan/UBSan on exact-capacity std::vectors; a dead worker is a violation keyed function:types:sanitizer-class");
		top.note("Lists that break the documented precondition 'indices must be in sorted ascending order' (domain B) are only required not to touch memory outside the containers; their results are not compared.");
		top.note("InsertVectorIndices with a listed position >= len + k has no defined result; it is executed for memory safety only.");
		top.note("Inserted positions hold unspecified values (the implementation leaves moved-from / stale elements there); only survivors are compared.");
		top.note("Vectors larger than the index type can address (e.g. 65536 elements with uint16 indices) are outside the quantifier ('index types used by callers') and are not generated.");
	}
	vf::finish(top);
	return 0;
}
