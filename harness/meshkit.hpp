// Small-mesh construction kit shared by C09 (vertex deletion) and C10 (skin partitions):
// SM corpus (DESIGN 3.5) instantiated as every geometry kind that can be built through the
// API or from blocks, raw-field snapshots, index/counter validity checks, canonical hashes.
#pragma once
#include "common.hpp"
#include "NifFile.hpp"
#include "NifUtil.hpp"

#include <algorithm>
#include <dirent.h>
#include <unordered_set>

namespace mk {
using namespace nifly;
using vf::J;

// ---------- load / save from memory (same semantics as s1::load / s1::save) ----------
inline NifSaveOptions raw_opts() {
	NifSaveOptions o;
	o.optimize = false;
	o.sortBlocks = false;
	return o;
}
inline std::string save_raw(NifFile& nif) {
	std::ostringstream os(std::ios::binary);
	if (nif.Save(os, raw_opts()) != 0) return std::string();
	return os.str();
}
inline int load(NifFile& nif, const std::string& bytes) {
	std::istringstream is(bytes, std::ios::binary);
	NifLoadOptions lo;
	return nif.Load(is, lo);
}

// ---------- games ----------
enum Game { G_OB, G_FO3, G_SK, G_SSE, G_FO4 };
inline const char* game_name(Game g) {
	switch (g) { case G_OB: return "OB"; case G_FO3: return "FO3"; case G_SK: return "SK"; case G_SSE: return "SSE"; default: return "FO4"; }
}
inline bool game_from(const std::string& s, Game& g) {
	for (int i = 0; i <= G_FO4; i++) if (s == game_name((Game) i)) { g = (Game) i; return true; }
	return false;
}
inline NiVersion game_version(Game g) {
	switch (g) {
		case G_OB: return NiVersion::getOB();
		case G_FO3: return NiVersion::getFO3();
		case G_SK: return NiVersion::getSK();
		case G_SSE: return NiVersion::getSSE();
		default: return NiVersion::getFO4();
	}
}
inline std::string version_label(const NiVersion& v) {
	if (v.IsOB()) return "OB";
	if (v.IsFO3()) return "FO3";
	if (v.IsSK()) return "SK";
	if (v.IsSSE()) return "SSE";
	if (v.IsFO4()) return "FO4";
	if (v.IsFO76()) return "FO76";
	if (v.IsSF()) return "SF";
	return "other";
}

// ---------- meshes ----------
struct Mesh {
	int V = 0;
	std::vector<Triangle> tris;
	std::vector<std::vector<uint16_t>> strips; // strip kinds only
	std::vector<Vector3> pos, nrm, tan, bit;
	std::vector<Vector2> uv;
	std::vector<Color4> col;
	std::vector<float> eye;
};

// pairwise distinct attribute values, all exactly representable as half floats / n/256 bytes
inline Mesh make_mesh(int V) {
	Mesh m;
	m.V = V;
	for (int i = 0; i < V; i++) {
		float f = (float) i;
		m.pos.push_back(Vector3(f + 1.0f, 2.0f * (f + 1.0f) + 0.5f, -(f + 1.0f) * 0.25f));
		m.uv.push_back(Vector2(f / 32.0f, 1.0f - f / 64.0f));
		m.nrm.push_back(Vector3(-1.0f + f / 16.0f, 0.5f - f / 32.0f, 1.0f - f / 16.0f));
		m.tan.push_back(Vector3(f / 32.0f, -0.5f + f / 32.0f, 0.75f - f / 32.0f));
		m.bit.push_back(Vector3((f + 1.0f) / 16.0f, 0.25f - f / 32.0f, -0.75f + f / 32.0f));
		m.col.push_back(Color4(f / 32.0f, 1.0f - f / 32.0f, 0.5f + f / 64.0f, 1.0f - f / 64.0f));
		m.eye.push_back(0.5f * f + 0.25f);
	}
	return m;
}

inline const std::vector<Triangle>& tri_pool6() {
	static const std::vector<Triangle> p = {Triangle(0, 1, 2), Triangle(2, 1, 3), Triangle(2, 3, 4),
											Triangle(4, 3, 5), Triangle(0, 2, 4), Triangle(1, 5, 3)};
	return p;
}
// pool triangles whose indices all lie below V: V=3 -> 1, V=4 -> 2, V=5 -> 4, V=6 -> 6
inline std::vector<Triangle> tri_pool(int V) {
	std::vector<Triangle> r;
	for (auto& t : tri_pool6())
		if (t.p1 < V && t.p2 < V && t.p3 < V) r.push_back(t);
	return r;
}
// strip pool: zig-zag over all vertices, a reversed triangle, a strip with a repeated point (degenerate
// triangles) and a strip too short to hold a triangle
inline std::vector<std::vector<uint16_t>> strip_pool(int V) {
	std::vector<std::vector<uint16_t>> r;
	std::vector<uint16_t> s0;
	for (int i = 0; i < V; i++) s0.push_back((uint16_t) i);
	r.push_back(s0);
	r.push_back({2, 1, 0});
	if (V >= 4) r.push_back({(uint16_t) (V - 1), (uint16_t) (V - 2), (uint16_t) (V - 2), (uint16_t) (V - 3), 0});
	r.push_back({1, 0});
	return r;
}

// per-vertex weights: list of (bone, weight)
using VW = std::vector<std::pair<int, float>>;
using Weights = std::vector<VW>;

enum Kind { K_TRISHAPE, K_TRISTRIPS, K_SEGMENTED, K_LOD, K_BSTRI, K_BSDYN, K_BSSUB, K_BSSUB_SEG, K_BSMESHLOD, K_COUNT };
inline const char* kind_block(Kind k) {
	switch (k) {
		case K_TRISHAPE: return "NiTriShape";
		case K_TRISTRIPS: return "NiTriStrips";
		case K_SEGMENTED: return "BSSegmentedTriShape";
		case K_LOD: return "BSLODTriShape";
		case K_BSTRI: return "BSTriShape";
		case K_BSDYN: return "BSDynamicTriShape";
		case K_BSSUB: return "BSSubIndexTriShape";
		case K_BSSUB_SEG: return "BSSubIndexTriShape";
		case K_BSMESHLOD: return "BSMeshLODTriShape";
		default: return "?";
	}
}
inline const char* kind_id(Kind k) {
	switch (k) {
		case K_TRISHAPE: return "NiTriShape";
		case K_TRISTRIPS: return "NiTriStrips";
		case K_SEGMENTED: return "BSSegmentedTriShape";
		case K_LOD: return "BSLODTriShape";
		case K_BSTRI: return "BSTriShape";
		case K_BSDYN: return "BSDynamicTriShape";
		case K_BSSUB: return "BSSubIndexTriShape";
		case K_BSSUB_SEG: return "BSSubIndexTriShape+segs";
		case K_BSMESHLOD: return "BSMeshLODTriShape";
		default: return "?";
	}
}
inline bool kind_from(const std::string& s, Kind& k) {
	for (int i = 0; i < K_COUNT; i++) if (s == kind_id((Kind) i)) { k = (Kind) i; return true; }
	return false;
}

struct Spec {
	Kind kind = K_TRISHAPE;
	Game game = G_SK;
	bool skinned = false;
	bool locked = false; // LOCKEDNORM NiIntegersExtraData attached
	int nbones = 0;
	bool eye = false;
	bool raw_vert_weights = false; // hand every influence to SetShapeVertWeights instead of the four strongest
	int uvsets = 1;				   // legacy geometry data before stream 34 may carry several UV sets (count in the data flags)
	int partflags = 0;			   // skin partitions: 0 as rebuilt (weights and bone indices), 1 bone indices only, 2 weights only (the format keeps both flags independent)
	std::string label() const {
		return std::string(kind_id(kind)) + "/" + game_name(game) + "/" + (skinned ? "skinned" : "static") + (eye ? "+eye" : "") + (partflags == 1 ? "+partition-boneindices-only" : partflags == 2 ? "+partition-weights-only" : "")
			   + (uvsets > 1 ? "+uvsets" + std::to_string(uvsets) : "");
	}
};

template<class T>
inline T* add_block(NifFile& nif, std::unique_ptr<T> p, uint32_t* id = nullptr) {
	T* raw = p.get();
	uint32_t i = nif.GetHeader().AddBlock(std::move(p));
	if (id) *id = i;
	return raw;
}

// What CreateSkinning does for NiTriShape, for geometry kinds it does not recognise (BSLODTriShape).
inline void manual_skinning(NifFile& nif, NiShape* shape) {
	auto& hdr = nif.GetHeader();
	uint32_t dataId, partId, instId;
	add_block(nif, std::make_unique<NiSkinData>(), &dataId);
	add_block(nif, std::make_unique<NiSkinPartition>(), &partId);
	NiSkinInstance* inst;
	if (hdr.GetVersion().File() == NiFileVersion::V20_2_0_7) inst = add_block(nif, std::make_unique<BSDismemberSkinInstance>(), &instId);
	else inst = add_block(nif, std::make_unique<NiSkinInstance>(), &instId);
	inst->dataRef.index = dataId;
	inst->skinPartitionRef.index = partId;
	inst->targetRef.index = nif.GetBlockID(nif.GetRootNode());
	shape->SkinInstanceRef()->index = instId;
	shape->SetSkinned(true);
	nif.SetDefaultPartition(shape);
}

// Attach bones + weights to an already skinned shape (both weight stores where the format has both)
inline void set_weights(NifFile& nif, NiShape* shape, int nbones, const Weights& w, bool raw_vert_weights = false) {
	auto& hdr = nif.GetHeader();
	std::vector<int> ids;
	for (int b = 0; b < nbones; b++) {
		NiNode* n = nif.AddNode("B" + std::to_string(b), MatTransform(), nif.GetRootNode());
		ids.push_back((int) nif.GetBlockID(n));
	}
	nif.SetShapeBoneIDList(shape, ids);
	std::string name = shape->name.get();
	auto skinInst = hdr.GetBlock<NiSkinInstance>(shape->SkinInstanceRef());
	if (skinInst) {
		for (int b = 0; b < nbones; b++) {
			std::unordered_map<uint16_t, float> bw;
			for (size_t v = 0; v < w.size(); v++)
				for (auto& e : w[v]) if (e.first == b) bw[(uint16_t) v] = e.second;
			nif.SetShapeBoneWeights(name, (uint32_t) b, bw);
		}
		// SetShapeBoneWeights copies an unordered_map in iteration order: fix the order (irrelevant to the format)
		if (auto sd = hdr.GetBlock(skinInst->dataRef))
			for (auto& bone : sd->bones)
				std::stable_sort(bone.vertexWeights.begin(), bone.vertexWeights.end(),
								 [](const SkinWeight& a, const SkinWeight& b2) { return a.index < b2.index; });
	}
	if (dynamic_cast<BSTriShape*>(shape)) {
		for (size_t v = 0; v < w.size(); v++) {
			VW s = w[v];
			std::stable_sort(s.begin(), s.end(), [](const std::pair<int, float>& a, const std::pair<int, float>& b2) { return a.second > b2.second; });
			if (s.size() > 4 && !raw_vert_weights) s.resize(4); // a caller hands over at most the four strongest influences
			std::vector<uint8_t> bi;
			std::vector<float> bwts;
			for (auto& e : s) { bi.push_back((uint8_t) e.first); bwts.push_back(e.second); }
			if (!bi.empty()) nif.SetShapeVertWeights(name, (uint16_t) v, bi, bwts);
		}
	}
}

inline std::vector<BSGeometrySegmentData> sse_segments(uint32_t T) {
	std::vector<BSGeometrySegmentData> segs(3);
	uint32_t a = (T + 1) / 2;
	segs[0].index = 0; segs[0].numTris = a;
	segs[1].index = a * 3; segs[1].numTris = T - a;
	segs[2].index = T * 3; segs[2].numTris = 0;
	return segs;
}

// Build {root -> shape "S"} in a fresh model.  Returns nullptr + err on failure.
inline NiShape* build_shape(NifFile& nif, const Spec& sp, const Mesh& m, const Weights* w, std::string* err = nullptr) {
	nif.Create(game_version(sp.game));
	auto& hdr = nif.GetHeader();
	NiNode* root = nif.GetRootNode();
	if (!root) { if (err) *err = "no root"; return nullptr; }
	NiVersion& ver = hdr.GetVersion();
	NiShape* shape = nullptr;
	const uint32_t T = (uint32_t) m.tris.size();
	auto attach = [&](NiShape* s, uint32_t id) {
		s->name.get() = "S";
		root->childRefs.AddBlockRef(id);
		shape = s;
	};
	switch (sp.kind) {
		case K_TRISHAPE:
			shape = nif.CreateShapeFromData("S", &m.pos, &m.tris, &m.uv, nullptr);
			break;
		case K_BSTRI:
			if (sp.game == G_SSE) shape = nif.CreateShapeFromData("S", &m.pos, &m.tris, &m.uv, nullptr);
			else {
				auto s = std::make_unique<BSTriShape>();
				s->Create(ver, &m.pos, &m.tris, &m.uv, nullptr);
				s->SetSkinned(false);
				uint32_t id; auto raw = add_block(nif, std::move(s), &id);
				attach(raw, id);
			}
			break;
		case K_BSSUB:
		case K_BSSUB_SEG:
			if (sp.game == G_FO4) shape = nif.CreateShapeFromData("S", &m.pos, &m.tris, &m.uv, nullptr);
			else {
				auto s = std::make_unique<BSSubIndexTriShape>();
				s->Create(ver, &m.pos, &m.tris, &m.uv, nullptr);
				s->SetSkinned(false);
				s->SetSegments(sse_segments(T));
				uint32_t id; auto raw = add_block(nif, std::move(s), &id);
				attach(raw, id);
			}
			break;
		case K_BSDYN: {
			auto s = std::make_unique<BSDynamicTriShape>();
			s->Create(ver, &m.pos, &m.tris, &m.uv, nullptr);
			s->SetSkinned(false);
			uint32_t id; auto raw = add_block(nif, std::move(s), &id);
			attach(raw, id);
			break;
		}
		case K_BSMESHLOD: {
			auto s = std::make_unique<BSMeshLODTriShape>();
			s->Create(ver, &m.pos, &m.tris, &m.uv, nullptr);
			s->SetSkinned(false);
			s->lodSize0 = T / 2; s->lodSize1 = T - T / 2; s->lodSize2 = 0;
			uint32_t id; auto raw = add_block(nif, std::move(s), &id);
			attach(raw, id);
			break;
		}
		case K_TRISTRIPS: {
			auto d = std::make_unique<NiTriStripsData>();
			d->Create(ver, &m.pos, nullptr, &m.uv, nullptr);
			d->stripsInfo.hasPoints = true;
			d->stripsInfo.points = m.strips;
			uint32_t nt = 0;
			for (auto& s : m.strips) {
				uint16_t len = (uint16_t) s.size();
				d->stripsInfo.stripLengths.push_back(len);
				if (len > 2) nt += len - 2;
			}
			d->numTriangles = (uint16_t) nt;
			auto s = std::make_unique<NiTriStrips>();
			uint32_t did; auto draw = add_block(nif, std::move(d), &did);
			s->SetGeomData(draw);
			s->DataRef()->index = did;
			uint32_t id; auto raw = add_block(nif, std::move(s), &id);
			attach(raw, id);
			break;
		}
		case K_SEGMENTED:
		case K_LOD: {
			auto d = std::make_unique<NiTriShapeData>();
			d->Create(ver, &m.pos, &m.tris, &m.uv, nullptr);
			uint32_t did; auto draw = add_block(nif, std::move(d), &did);
			if (sp.kind == K_SEGMENTED) {
				auto s = std::make_unique<BSSegmentedTriShape>();
				s->SetGeomData(draw);
				s->DataRef()->index = did;
				s->SetSegments(sse_segments(T));
				uint32_t id; auto raw = add_block(nif, std::move(s), &id);
				attach(raw, id);
			}
			else {
				auto s = std::make_unique<BSLODTriShape>();
				s->SetGeomData(draw);
				s->DataRef()->index = did;
				s->level0 = T / 2; s->level1 = T - T / 2; s->level2 = 0;
				uint32_t id; auto raw = add_block(nif, std::move(s), &id);
				attach(raw, id);
			}
			break;
		}
		default: break;
	}
	if (!shape) { if (err) *err = "shape not created"; return nullptr; }
	// normals are handed over after creation: Create() would derive a tangent space from them, and the
	// SM normals are deliberately not unit vectors (pairwise distinct bytes), which that code does not expect
	nif.SetNormalsForShape(shape, m.nrm);
	nif.SetColorsForShape(shape, m.col);
	nif.SetTangentsForShape(shape, m.tan);
	nif.SetBitangentsForShape(shape, m.bit);
	if (sp.eye) nif.SetEyeDataForShape(shape, m.eye);
	if (sp.uvsets > 1)
		if (auto gd = shape->GetGeomData())
			if (ver.Stream() < 34 && !gd->uvSets.empty()) {
				gd->uvSets.resize((size_t) sp.uvsets);
				for (int u = 1; u < sp.uvsets; u++) {
					gd->uvSets[u] = gd->uvSets[0];
					for (size_t i = 0; i < gd->uvSets[u].size(); i++) { gd->uvSets[u][i].u += 0.5f * u + 0.03125f * i; gd->uvSets[u][i].v -= 0.25f * u; }
				}
				gd->dataFlags = (uint16_t) ((gd->dataFlags & ~0x3F) | sp.uvsets);
			}

	if (sp.kind == K_BSSUB_SEG && sp.game == G_FO4) {
		// two segments, the first with two sub-segments, the second with one; triangles dealt round robin
		NifSegmentationInfo inf;
		inf.segs.resize(2);
		inf.segs[0].partID = 0;
		inf.segs[0].subs.resize(2);
		inf.segs[0].subs[0].partID = 1;
		inf.segs[0].subs[1].partID = 2;
		inf.segs[1].partID = 3;
		inf.segs[1].subs.resize(1);
		inf.segs[1].subs[0].partID = 4;
		static const int deal[4] = {1, 4, 2, 3};
		std::vector<int> tp(T);
		for (uint32_t i = 0; i < T; i++) tp[i] = deal[i % 4];
		nif.SetShapeSegments(shape, inf, tp);
	}

	if (sp.skinned) {
		if (sp.kind == K_LOD) manual_skinning(nif, shape);
		else nif.CreateSkinning(shape);
		if (shape->SkinInstanceRef()->IsEmpty()) { if (err) *err = "no skin instance"; return nullptr; }
		if (w) set_weights(nif, shape, sp.nbones, *w, sp.raw_vert_weights);
		nif.UpdateSkinPartitions(shape);
		if (sp.partflags) {
			auto inst = hdr.GetBlock<NiSkinInstance>(shape->SkinInstanceRef());
			auto part = inst ? hdr.GetBlock(inst->skinPartitionRef) : nullptr;
			if (part)
				for (auto& p : part->partitions) {
					if (sp.partflags == 1) { p.hasVertexWeights = false; p.vertexWeights.clear(); }
					if (sp.partflags == 2) { p.hasBoneIndices = false; p.boneIndices.clear(); }
				}
		}
	}
	if (sp.locked) {
		auto ed = std::make_unique<NiIntegersExtraData>();
		ed->name.get() = "LOCKEDNORM";
		for (uint32_t v : {(uint32_t) (m.V - 1), 0u, 2u})
			if ((int) v < m.V) { uint32_t x = v; ed->integersData.push_back(x); }
		uint32_t id; add_block(nif, std::move(ed), &id);
		shape->extraDataRefs.AddBlockRef(id);
	}
	if (auto dyn = dynamic_cast<BSDynamicTriShape*>(shape)) dyn->CalcDynamicData(); // dynamic data in step with vertData, as after a load
	return shape;
}

// ---------- triangles ----------
inline Triangle rot(Triangle t) { t.rot(); return t; }
inline uint64_t tri_key(const Triangle& t0) {
	Triangle t = rot(t0);
	return ((uint64_t) t.p1 << 32) | ((uint64_t) t.p2 << 16) | t.p3;
}
inline std::string tris_str(const std::vector<Triangle>& v, size_t maxn = 12) {
	std::string s = "[";
	for (size_t i = 0; i < v.size() && i < maxn; i++) s += vf::strf("%s(%u,%u,%u)", i ? "," : "", v[i].p1, v[i].p2, v[i].p3);
	if (v.size() > maxn) s += ",...";
	return s + "]";
}

// read-only equivalent of NiSkinPartition::PrepareTrueTriangles for one partition
inline std::vector<Triangle> eff_true_tris(const NiSkinPartition& sp, const NiSkinPartition::PartitionBlock& p, bool* bad = nullptr) {
	if (!p.trueTriangles.empty()) return p.trueTriangles;
	std::vector<Triangle> t = p.triangles;
	if (p.numStrips) t = GenerateTrianglesFromStrips(p.strips);
	if (!sp.bMappedIndices) return t;
	std::vector<Triangle> r;
	for (auto& x : t) {
		if (x.p1 >= p.vertexMap.size() || x.p2 >= p.vertexMap.size() || x.p3 >= p.vertexMap.size()) { if (bad) *bad = true; continue; }
		r.push_back(Triangle(p.vertexMap[x.p1], p.vertexMap[x.p2], p.vertexMap[x.p3]));
	}
	return r;
}

struct SkinBlocks {
	NiSkinInstance* inst = nullptr;
	BSDismemberSkinInstance* bsd = nullptr;
	NiSkinData* data = nullptr;
	NiSkinPartition* part = nullptr;
	BSSkinInstance* bsskin = nullptr;
};
inline SkinBlocks skin_blocks(NifFile& nif, NiShape* shape) {
	SkinBlocks s;
	auto& hdr = nif.GetHeader();
	if (!shape->SkinInstanceRef()) return s;
	s.inst = hdr.GetBlock<NiSkinInstance>(shape->SkinInstanceRef());
	s.bsskin = hdr.GetBlock<BSSkinInstance>(shape->SkinInstanceRef());
	if (s.inst) {
		s.bsd = dynamic_cast<BSDismemberSkinInstance*>(s.inst);
		s.data = hdr.GetBlock(s.inst->dataRef);
		s.part = hdr.GetBlock(s.inst->skinPartitionRef);
	}
	return s;
}

// ---------- snapshot: raw per-vertex fields ----------
struct Snap {
	std::string block;
	uint32_t nv = 0;
	std::map<std::string, std::vector<std::string>> attr; // attribute -> per-vertex bytes
	bool is_list = false;		 // triangles stored as a list (otherwise derived from strips)
	std::vector<Triangle> tris;
	bool partition_order = false; // SSE skinned: a reload lists triangles partition by partition
	size_t nparts = 0;			  // skin partitions
};
template<class T>
inline std::string bytes_of(const T& v) { return std::string((const char*) &v, sizeof(T)); }

inline Snap snapshot(NifFile& nif, NiShape* shape) {
	Snap s;
	auto& hdr = nif.GetHeader();
	s.block = shape->GetBlockName();
	auto bs = dynamic_cast<BSTriShape*>(shape);
	if (bs) {
		s.nv = bs->numVertices;
		s.is_list = true;
		s.tris = bs->triangles;
		auto dyn = dynamic_cast<BSDynamicTriShape*>(shape);
		size_t n = bs->vertData.size();
		auto& A = s.attr;
		bool pos = bs->HasVertices() || dyn;
		for (size_t i = 0; i < n; i++) {
			auto& v = bs->vertData[i];
			if (pos) { A["pos"].push_back(bytes_of(v.vert)); A["bitangentX"].push_back(bytes_of(v.bitangentX)); }
			if (bs->HasUVs()) A["uv"].push_back(bytes_of(v.uv));
			if (bs->HasNormals()) {
				A["normal"].push_back(std::string((const char*) v.normal, 3) + (char) v.bitangentY);
				if (bs->HasTangents()) A["tangent"].push_back(std::string((const char*) v.tangent, 3) + (char) v.bitangentZ);
			}
			if (bs->HasVertexColors()) A["color"].push_back(std::string((const char*) v.colorData, 4));
			if (bs->IsSkinned()) A["weights"].push_back(std::string((const char*) v.weights, 16) + std::string((const char*) v.weightBones, 4));
			if (bs->HasEyeData()) A["eye"].push_back(bytes_of(v.eyeData));
		}
		if (dyn) for (auto& d : dyn->dynamicData) A["dynamic"].push_back(bytes_of(d));
	}
	else if (auto gd = shape->GetGeomData()) {
		s.nv = gd->numVertices;
		auto& A = s.attr;
		for (auto& v : gd->vertices) A["pos"].push_back(bytes_of(v));
		for (auto& v : gd->normals) A["normal"].push_back(bytes_of(v));
		for (auto& v : gd->tangents) A["tangent"].push_back(bytes_of(v));
		for (auto& v : gd->bitangents) A["bitangent"].push_back(bytes_of(v));
		for (auto& v : gd->vertexColors) A["color"].push_back(bytes_of(v));
		for (size_t u = 0; u < gd->uvSets.size(); u++)
			for (auto& v : gd->uvSets[u]) A["uv" + std::to_string(u)].push_back(bytes_of(v));
		if (auto tsd = dynamic_cast<NiTriShapeData*>(gd)) { s.is_list = true; s.tris = tsd->triangles; }
		else gd->GetTriangles(s.tris);
	}
	SkinBlocks sk = skin_blocks(nif, shape);
	if (sk.data && sk.data->hasVertWeights) {
		// per vertex: sorted (bone, weight bits)
		std::vector<std::vector<std::pair<uint32_t, uint32_t>>> pv(s.nv);
		bool any = false;
		for (size_t b = 0; b < sk.data->bones.size(); b++)
			for (auto& vw : sk.data->bones[b].vertexWeights) {
				any = true;
				if (vw.index < s.nv) { float wv = vw.weight; uint32_t bits; memcpy(&bits, &wv, 4); pv[vw.index].push_back({(uint32_t) b, bits}); }
			}
		if (any) {
			auto& a = s.attr["skinweights"];
			for (auto& l : pv) {
				std::sort(l.begin(), l.end());
				std::string x;
				for (auto& e : l) { x += bytes_of(e.first); x += bytes_of(e.second); }
				a.push_back(x);
			}
		}
	}
	if (sk.part && !sk.part->partitions.empty()) {
		// per vertex: its row (weights, bone slots) in every partition that lists it, in partition order
		std::vector<std::string> rows(s.nv);
		bool any = false;
		for (auto& p : sk.part->partitions)
			for (size_t i = 0; i < p.vertexMap.size(); i++) {
				uint16_t v = p.vertexMap[i];
				if (v >= s.nv) continue;
				any = true;
				rows[v] += 'P';
				rows[v] += p.hasVertexWeights && i < p.vertexWeights.size() ? bytes_of(p.vertexWeights[i]) : std::string(sizeof(VertexWeight), '-');
				rows[v] += p.hasBoneIndices && i < p.boneIndices.size() ? bytes_of(p.boneIndices[i]) : std::string(sizeof(BoneIndices), '-');
			}
		s.nparts = sk.part->partitions.size();
		if (any) s.attr["partrows"] = rows;
	}
	s.partition_order = bs && hdr.GetVersion().IsSSE() && sk.part;
	return s;
}

// ---------- validity: every index refers to an existing vertex, counters equal array sizes ----------
struct Problem { std::string key, msg; };

inline void validity(NifFile& nif, NiShape* shape, std::vector<Problem>& out) {
	auto& hdr = nif.GetHeader();
	auto P = [&](const std::string& k, const std::string& m) { out.push_back({k, m}); };
	uint32_t nv = shape->GetNumVertices();
	uint32_t ntris = 0;
	auto bs = dynamic_cast<BSTriShape*>(shape);
	if (bs) {
		nv = bs->numVertices;
		ntris = bs->numTriangles;
		if (bs->vertData.size() != nv) P("vertdata-count", vf::strf("numVertices %u but vertData holds %zu", nv, bs->vertData.size()));
		if (bs->triangles.size() != bs->numTriangles) P("triangle-count", vf::strf("numTriangles %u but %zu triangles stored", bs->numTriangles, bs->triangles.size()));
		for (auto& t : bs->triangles)
			if (t.p1 >= nv || t.p2 >= nv || t.p3 >= nv) { P("triangle-index", vf::strf("triangle (%u,%u,%u) with %u vertices", t.p1, t.p2, t.p3, nv)); break; }
		if (auto dyn = dynamic_cast<BSDynamicTriShape*>(shape))
			if (dyn->dynamicData.size() != nv) P("dynamicdata-count", vf::strf("%u vertices but %zu dynamic entries", nv, dyn->dynamicData.size()));
		// the LOD levels of a BSMeshLODTriShape are counts of triangles of its own list
		if (auto lod = dynamic_cast<BSMeshLODTriShape*>(shape))
			if ((uint64_t) lod->lodSize0 + lod->lodSize1 + lod->lodSize2 > ntris)
				P("meshlod-levels-exceed-triangles", vf::strf("LOD sizes %u+%u+%u but %u triangles", lod->lodSize0, lod->lodSize1, lod->lodSize2, ntris));
		if (auto sub = dynamic_cast<BSSubIndexTriShape*>(shape)) {
			auto& sg = sub->segmentation;
			bool fo4 = hdr.GetVersion().Stream() >= 130;
			if (fo4) {
				if (sg.numSegments != sg.segments.size()) P("segment-count", vf::strf("numSegments %u but %zu segments", sg.numSegments, sg.segments.size()));
				if (!sg.segments.empty() && sg.numPrimitives != ntris) P("segment-numprimitives", vf::strf("segmentation.numPrimitives %u but %u triangles", sg.numPrimitives, ntris));
				for (size_t i = 0; i < sg.segments.size(); i++) {
					auto& g = sg.segments[i];
					if (g.numPrimitives && (uint64_t) g.startIndex / 3 + g.numPrimitives > ntris)
						P("segment-range", vf::strf("segment %zu covers triangles [%u,%u) of %u", i, g.startIndex / 3, g.startIndex / 3 + g.numPrimitives, ntris));
					if (g.numSubSegments != g.subSegments.size()) P("segment-count", vf::strf("segment %zu: numSubSegments %u but %zu stored", i, g.numSubSegments, g.subSegments.size()));
					for (size_t j = 0; j < g.subSegments.size(); j++) {
						auto& ss = g.subSegments[j];
						if (ss.numPrimitives && (uint64_t) ss.startIndex / 3 + ss.numPrimitives > ntris)
							P("subsegment-range", vf::strf("segment %zu sub %zu covers triangles [%u,%u) of %u", i, j, ss.startIndex / 3, ss.startIndex / 3 + ss.numPrimitives, ntris));
					}
				}
			}
			else {
				if (sub->numSegments != sub->segments.size()) P("segment-count", vf::strf("numSegments %u but %zu segments", sub->numSegments, sub->segments.size()));
				for (size_t i = 0; i < sub->segments.size(); i++) {
					auto& g = sub->segments[i];
					if (g.numTris && (uint64_t) g.index / 3 + g.numTris > ntris)
						P("segment-range", vf::strf("segment %zu covers triangles [%u,%u) of %u", i, g.index / 3, g.index / 3 + g.numTris, ntris));
				}
			}
		}
	}
	else if (auto gd = shape->GetGeomData()) {
		nv = gd->numVertices;
		if (gd->vertices.size() != nv) P("vertex-count", vf::strf("numVertices %u but %zu positions", nv, gd->vertices.size()));
		auto opt = [&](const char* n, size_t sz) { if (sz != 0 && sz != nv) P(std::string("array-count-") + n, vf::strf("%u vertices but %zu %s", nv, sz, n)); };
		opt("normals", gd->normals.size());
		opt("tangents", gd->tangents.size());
		opt("bitangents", gd->bitangents.size());
		opt("colors", gd->vertexColors.size());
		for (auto& u : gd->uvSets) if (u.size() != nv) P("array-count-uvs", vf::strf("%u vertices but %zu uvs", nv, u.size()));
		if (auto tsd = dynamic_cast<NiTriShapeData*>(gd)) {
			ntris = tsd->numTriangles;
			if (tsd->triangles.size() != tsd->numTriangles) P("triangle-count", vf::strf("numTriangles %u but %zu triangles stored", tsd->numTriangles, tsd->triangles.size()));
			if (tsd->numTrianglePoints != 3u * tsd->numTriangles) P("trianglepoint-count", vf::strf("numTrianglePoints %u with %u triangles", tsd->numTrianglePoints, tsd->numTriangles));
			for (auto& t : tsd->triangles)
				if (t.p1 >= nv || t.p2 >= nv || t.p3 >= nv) { P("triangle-index", vf::strf("triangle (%u,%u,%u) with %u vertices", t.p1, t.p2, t.p3, nv)); break; }
		}
		else if (auto ssd = dynamic_cast<NiTriStripsData*>(gd)) {
			auto& si = ssd->stripsInfo;
			if (si.hasPoints) {
				if (si.stripLengths.size() != si.points.size()) P("strip-count", vf::strf("%u strip lengths but %zu strips", (unsigned) si.stripLengths.size(), si.points.size()));
				uint32_t expect = 0;
				for (size_t i = 0; i < si.points.size(); i++) {
					if (i < si.stripLengths.size() && si.stripLengths[i] != si.points[i].size())
						P("strip-length", vf::strf("strip %zu: length %u but %zu points", i, si.stripLengths[i], si.points[i].size()));
					if (si.points[i].size() > 2) expect += (uint32_t) si.points[i].size() - 2;
					for (auto p : si.points[i]) if (p >= nv) { P("strip-index", vf::strf("strip %zu holds point %u with %u vertices", i, p, nv)); break; }
				}
				if (ssd->numTriangles != (uint16_t) expect) P("strip-triangle-count", vf::strf("numTriangles %u but strips hold %u", ssd->numTriangles, expect));
			}
			ntris = ssd->GetNumTriangles();
		}
		if (auto seg = dynamic_cast<BSSegmentedTriShape*>(shape)) {
			if (seg->numSegments != seg->segments.size()) P("segment-count", vf::strf("numSegments %u but %zu segments", seg->numSegments, seg->segments.size()));
			for (size_t i = 0; i < seg->segments.size(); i++) {
				auto& g = seg->segments[i];
				if (g.numTris && (uint64_t) g.index / 3 + g.numTris > ntris)
					P("segment-range", vf::strf("segment %zu covers triangles [%u,%u) of %u", i, g.index / 3, g.index / 3 + g.numTris, ntris));
			}
		}
	}
	SkinBlocks sk = skin_blocks(nif, shape);
	if (sk.data) {
		if (sk.data->numBones != sk.data->bones.size()) P("skindata-bonecount", vf::strf("numBones %u but %zu bones", sk.data->numBones, sk.data->bones.size()));
		if (sk.data->hasVertWeights)
			for (size_t b = 0; b < sk.data->bones.size(); b++) {
				auto& bone = sk.data->bones[b];
				if (bone.numVertices != bone.vertexWeights.size()) P("skindata-count", vf::strf("bone %zu: numVertices %u but %zu weights", b, bone.numVertices, bone.vertexWeights.size()));
				for (auto& vw : bone.vertexWeights)
					if (vw.index >= nv) { P("skindata-index", vf::strf("bone %zu weights vertex %u of %u", b, vw.index, nv)); break; }
			}
	}
	if (sk.part) {
		auto& sp = *sk.part;
		if (sp.numPartitions != sp.partitions.size()) P("partition-count", vf::strf("numPartitions %u but %zu partitions", sp.numPartitions, sp.partitions.size()));
		if (!sp.vertData.empty() && sp.vertData.size() != nv) P("partition-vertdata-count", vf::strf("%u vertices but partition vertex data holds %zu", nv, sp.vertData.size()));
		for (size_t pi = 0; pi < sp.partitions.size(); pi++) {
			auto& p = sp.partitions[pi];
			size_t ms = p.vertexMap.size();
			if (p.hasVertexMap && p.numVertices != ms) P("partition-vertexmap-count", vf::strf("partition %zu: numVertices %u but vertex map holds %zu", pi, p.numVertices, ms));
			for (auto v : p.vertexMap) if (v >= nv) { P("partition-vertexmap-index", vf::strf("partition %zu maps vertex %u of %u", pi, v, nv)); break; }
			if (p.hasVertexWeights && p.vertexWeights.size() != p.numVertices) P("partition-weights-count", vf::strf("partition %zu: %u vertices but %zu weight rows", pi, p.numVertices, p.vertexWeights.size()));
			if (p.hasBoneIndices && p.boneIndices.size() != p.numVertices) P("partition-boneindices-count", vf::strf("partition %zu: %u vertices but %zu bone index rows", pi, p.numVertices, p.boneIndices.size()));
			uint32_t lim = sp.bMappedIndices ? (uint32_t) ms : nv;
			if (p.numStrips != p.strips.size() && p.hasFaces) P("partition-strip-count", vf::strf("partition %zu: numStrips %u but %zu strips", pi, p.numStrips, p.strips.size()));
			for (size_t i = 0; i < p.strips.size(); i++) {
				if (i < p.stripLengths.size() && p.stripLengths[i] != p.strips[i].size()) P("partition-strip-length", vf::strf("partition %zu strip %zu: length %u but %zu points", pi, i, p.stripLengths[i], p.strips[i].size()));
				for (auto x : p.strips[i]) if (x >= lim) { P("partition-strip-index", vf::strf("partition %zu strip point %u, limit %u", pi, x, lim)); break; }
			}
			if (p.numStrips == 0 && p.hasFaces && p.triangles.size() != p.numTriangles)
				P("partition-triangle-count", vf::strf("partition %zu: numTriangles %u but %zu triangles", pi, p.numTriangles, p.triangles.size()));
			for (auto& t : p.triangles)
				if (t.p1 >= lim || t.p2 >= lim || t.p3 >= lim) { P(sp.bMappedIndices ? "partition-mapped-triangle-index" : "partition-triangle-index", vf::strf("partition %zu triangle (%u,%u,%u), limit %u", pi, t.p1, t.p2, t.p3, lim)); break; }
			if (!p.trueTriangles.empty() && p.trueTriangles.size() != p.numTriangles)
				P("partition-truetriangle-count", vf::strf("partition %zu: numTriangles %u but %zu true triangles", pi, p.numTriangles, p.trueTriangles.size()));
			for (auto& t : p.trueTriangles)
				if (t.p1 >= nv || t.p2 >= nv || t.p3 >= nv) { P("partition-truetriangle-index", vf::strf("partition %zu true triangle (%u,%u,%u) with %u vertices", pi, t.p1, t.p2, t.p3, nv)); break; }
		}
		if (sk.bsd && sk.bsd->partitions.size() != sp.partitions.size())
			P("dismember-count", vf::strf("%u dismember entries but %zu partitions", (unsigned) sk.bsd->partitions.size(), sp.partitions.size()));
	}
	for (auto& ref : shape->extraDataRefs) {
		auto ied = hdr.GetBlock<NiIntegersExtraData>(ref);
		if (ied && ied->name == "LOCKEDNORM")
			for (uint32_t i = 0; i < ied->integersData.size(); i++)
				if (ied->integersData[i] >= nv) { P("lockednorm-index", vf::strf("LOCKEDNORM lists vertex %u of %u", ied->integersData[i], nv)); break; }
	}
}

// ---------- canonical state hash (geometry + skin tables + segments + locked list) ----------
inline uint64_t canon_hash(NifFile& nif, NiShape* shape, const Snap* snap = nullptr) {
	auto& hdr = nif.GetHeader();
	Snap local;
	if (!snap) { local = snapshot(nif, shape); snap = &local; }
	std::string c = snap->block + "|" + std::to_string(snap->nv) + "|";
	for (auto& kv : snap->attr) {
		c += kv.first + ":";
		for (auto& b : kv.second) { c += b; c += ';'; }
	}
	auto put_tris = [&](const std::vector<Triangle>& v) { for (auto& t : v) c += vf::strf("%u,%u,%u;", t.p1, t.p2, t.p3); c += '|'; };
	put_tris(snap->tris);
	if (auto gd = shape->GetGeomData())
		if (auto ssd = dynamic_cast<NiTriStripsData*>(gd))
			for (auto& s : ssd->stripsInfo.points) { for (auto p : s) c += std::to_string(p) + ","; c += '/'; }
	SkinBlocks sk = skin_blocks(nif, shape);
	if (sk.part) {
		c += vf::strf("P%zu,%d|", sk.part->partitions.size(), (int) sk.part->bMappedIndices);
		for (auto& p : sk.part->partitions) {
			c += vf::strf("nv%u nt%u nb%u ns%u;", p.numVertices, p.numTriangles, p.numBones, p.numStrips);
			for (auto b : p.bones) c += std::to_string(b) + ",";
			c += 'm';
			for (auto v : p.vertexMap) c += std::to_string(v) + ",";
			c += 'w';
			for (auto& w : p.vertexWeights) c += bytes_of(w);
			c += 'i';
			for (auto& b : p.boneIndices) c += bytes_of(b);
			c += 't';
			put_tris(p.triangles);
			put_tris(p.trueTriangles);
			for (auto& s : p.strips) { for (auto x : s) c += std::to_string(x) + ","; c += '/'; }
		}
		c += "tp";
		for (int t : sk.part->triParts) c += std::to_string(t) + ",";
	}
	if (sk.bsd) { c += "D"; for (uint32_t i = 0; i < sk.bsd->partitions.size(); i++) c += vf::strf("%u:%u,", sk.bsd->partitions[i].partID, (unsigned) sk.bsd->partitions[i].flags); }
	if (auto sub = dynamic_cast<BSSubIndexTriShape*>(shape)) {
		c += "G";
		for (auto& g : sub->segmentation.segments) {
			c += vf::strf("%u+%u(", g.startIndex, g.numPrimitives);
			for (auto& s : g.subSegments) c += vf::strf("%u+%u,", s.startIndex, s.numPrimitives);
			c += ")";
		}
		for (auto& g : sub->segments) c += vf::strf("%u+%u;", g.index, g.numTris);
	}
	if (auto seg = dynamic_cast<BSSegmentedTriShape*>(shape)) { c += "G"; for (auto& g : seg->segments) c += vf::strf("%u+%u;", g.index, g.numTris); }
	if (auto lod = dynamic_cast<BSLODTriShape*>(shape)) c += vf::strf("L%u,%u,%u", lod->level0, lod->level1, lod->level2);
	if (auto lod = dynamic_cast<BSMeshLODTriShape*>(shape)) c += vf::strf("L%u,%u,%u", lod->lodSize0, lod->lodSize1, lod->lodSize2);
	for (auto& ref : shape->extraDataRefs) {
		auto ied = hdr.GetBlock<NiIntegersExtraData>(ref);
		if (ied && ied->name == "LOCKEDNORM") { c += "K"; for (uint32_t i = 0; i < ied->integersData.size(); i++) c += std::to_string(ied->integersData[i]) + ","; }
	}
	return vf::fnv(c);
}

inline std::vector<std::string> list_sample_files(const std::string& repo) {
	std::vector<std::string> files;
	std::string dir = repo + "/tests/input";
	if (DIR* d = opendir(dir.c_str())) {
		while (dirent* e = readdir(d)) {
			std::string n = e->d_name;
			if (n.size() > 4 && n.substr(n.size() - 4) == ".nif") files.push_back(n);
		}
		closedir(d);
	}
	std::sort(files.begin(), files.end());
	return files;
}

inline J ints_json(const std::vector<uint16_t>& v) { J a = J::arr(); for (auto x : v) a.push((int) x); return a; }
inline J ints_json(const std::vector<int>& v) { J a = J::arr(); for (auto x : v) a.push(x); return a; }

} // namespace mk
