// Shared harness machinery: arguments, protocol output, deadline, forked worker pool with
// crash attribution.  See DESIGN.md section 3.
#pragma once
#include "json.hpp"
#include "covrt.hpp"

#include <atomic>
#include <chrono>
#include <csignal>
#include <cstdarg>
#include <cstring>
#include <fstream>
#include <functional>
#include <set>
#include <sys/mman.h>
#include <sys/resource.h>
#include <sys/time.h>
#include <sys/wait.h>
#include <unistd.h>

namespace vf {

struct Args {
	std::string prop, tier = "quick", replay, rundir = "/tmp", repo = "/repo", root = "/verif";
	int jobs = 8;
	double deadline = 150;
	long long seed = 0;
	std::map<std::string, std::string> kv; // any --name value pair not known above
	bool thorough() const { return tier == "thorough"; }
	bool has(const std::string& k) const { return kv.count(k) > 0; }
	std::string get(const std::string& k, const std::string& d = "") const { auto it = kv.find(k); return it == kv.end() ? d : it->second; }
	long long geti(const std::string& k, long long d) const { auto it = kv.find(k); return it == kv.end() ? d : atoll(it->second.c_str()); }
};

inline double now() {
	return std::chrono::duration<double>(std::chrono::steady_clock::now().time_since_epoch()).count();
}
inline double g_t0 = now();
inline double g_deadline = 1e18;
inline bool deadline_passed() { return now() - g_t0 > g_deadline; }

inline Args parse_args(int argc, char** argv) {
	Args a;
	for (int i = 1; i < argc; i++) {
		std::string k = argv[i];
		if (k.rfind("--", 0) != 0) continue;
		std::string v = (i + 1 < argc && strncmp(argv[i + 1], "--", 2) != 0) ? argv[++i] : "1";
		k = k.substr(2);
		if (k == "prop") a.prop = v;
		else if (k == "tier") a.tier = v;
		else if (k == "replay") a.replay = v;
		else if (k == "jobs") a.jobs = atoi(v.c_str());
		else if (k == "deadline") a.deadline = atof(v.c_str());
		else if (k == "seed") a.seed = atoll(v.c_str());
		else a.kv[k] = v;
	}
	if (const char* e = getenv("VERIF_RUNDIR")) a.rundir = e;
	if (const char* e = getenv("VERIF_REPO")) a.repo = e;
	if (const char* e = getenv("VERIF_ROOT")) a.root = e;
	if (a.jobs < 1) a.jobs = 1;
	if (a.jobs > 60) a.jobs = 60;
	g_deadline = a.deadline;
	g_t0 = now();
	return a;
}

inline std::string read_file(const std::string& p) {
	std::ifstream f(p, std::ios::binary);
	std::stringstream ss;
	ss << f.rdbuf();
	return ss.str();
}
inline bool file_exists(const std::string& p) { return access(p.c_str(), R_OK) == 0; }

inline std::string strf(const char* fmt, ...) {
	char buf[4096];
	va_list ap;
	va_start(ap, fmt);
	vsnprintf(buf, sizeof buf, fmt, ap);
	va_end(ap);
	return buf;
}

inline uint64_t fnv(const void* p, size_t n, uint64_t h = 1469598103934665603ull) {
	auto c = (const unsigned char*) p;
	for (size_t i = 0; i < n; i++) { h ^= c[i]; h *= 1099511628211ull; }
	return h;
}
inline uint64_t fnv(const std::string& s, uint64_t h = 1469598103934665603ull) { return fnv(s.data(), s.size(), h); }
inline std::string hex64(uint64_t v) { char b[20]; snprintf(b, sizeof b, "%016llx", (unsigned long long) v); return b; }
inline std::string hexbytes(const std::string& s, size_t maxn = 64) {
	std::string o;
	for (size_t i = 0; i < s.size() && i < maxn; i++) { char b[4]; snprintf(b, sizeof b, "%02x", (unsigned char) s[i]); o += b; }
	if (s.size() > maxn) o += "...";
	return o;
}
inline std::string tab_safe(std::string s) {
	for (auto& c : s) if (c == '\t' || c == '\n' || c == '\r') c = ' ';
	return s;
}

// ---- per-process statistics, flushed as protocol lines ----
struct Stats {
	std::map<std::string, long long> cnt, mx;
	std::map<std::string, std::set<std::string>> sets;
	std::vector<std::string> samples; // json
	struct V { std::string key, msg, casejson; };
	std::vector<V> viols;
	std::vector<std::string> notes;
	std::map<std::string, std::string> info; // name -> json
	std::string raw;						 // protocol lines produced elsewhere (isolated children), passed through
	bool exhaustive = true;
	size_t max_samples = 6;
	size_t max_viols_per_key = 3;
	std::map<std::string, int> violcount;

	void add(const std::string& k, long long n = 1) { cnt[k] += n; }
	void max(const std::string& k, long long n) { if (!mx.count(k) || mx[k] < n) mx[k] = n; }
	void distinct(const std::string& k, const std::string& tok) { sets[k].insert(tok); }
	void distinct(const std::string& k, uint64_t h) { sets[k].insert(hex64(h)); }
	void sample(const J& j) { if (samples.size() < max_samples) samples.push_back(j.dump()); }
	void note(const std::string& s) { notes.push_back(s); }
	void set_info(const std::string& k, const J& v) { info[k] = v.dump(); }
	void violation(const std::string& key, const std::string& msg, const J& replay) {
		if (violcount[key]++ < (int) max_viols_per_key) viols.push_back({key, msg, replay.dump()});
		else cnt["violations_suppressed_same_key"]++;
	}
	void capped(const std::string& why) { exhaustive = false; notes.push_back("cap: " + why); }

	void flush(FILE* f) {
		for (auto& kv : cnt) fprintf(f, "C\t%s\t%lld\n", kv.first.c_str(), kv.second);
		for (auto& kv : mx) fprintf(f, "M\t%s\t%lld\n", kv.first.c_str(), kv.second);
		for (auto& kv : sets) for (auto& t : kv.second) fprintf(f, "S\t%s\t%s\n", kv.first.c_str(), tab_safe(t).c_str());
		for (auto& s : samples) fprintf(f, "E\t%s\n", s.c_str());
		for (auto& v : viols) fprintf(f, "V\t%s\t%s\t%s\n", tab_safe(v.key).c_str(), tab_safe(v.msg).c_str(), v.casejson.c_str());
		for (auto& n : notes) fprintf(f, "N\t%s\n", tab_safe(n).c_str());
		for (auto& kv : info) fprintf(f, "I\t%s\t%s\n", kv.first.c_str(), kv.second.c_str());
		if (!exhaustive) fprintf(f, "X\t0\n");
		if (!raw.empty()) fwrite(raw.data(), 1, raw.size(), f);
		raw.clear();
		fflush(f);
		cnt.clear(); mx.clear(); sets.clear(); samples.clear(); viols.clear(); notes.clear(); info.clear();
	}
};

inline void finish(Stats& st) {
	st.flush(stdout);
	printf("DONE\n");
	fflush(stdout);
}
[[noreturn]] inline void fatal(const std::string& msg) {
	printf("F\t%s\n", tab_safe(msg).c_str());
	fflush(stdout);
	_exit(3);
}

// ---- sanitizer report of a dead child: top frames inside nifly ----
struct CrashInfo {
	int status = 0;
	std::string cls;   // error class: heap-buffer-overflow, SEGV, stack-overflow, timeout, ubsan:<kind>, signal N, exit N
	std::string frame; // first frame whose source file lies in the nifly tree (function name)
	std::string text;  // head of the report
	std::string key() const { return cls + "@" + (frame.empty() ? "?" : frame); }
};

inline std::string sanitize_fn(std::string fn) {
	// strip template args / parameter lists so keys survive unrelated edits
	size_t p = fn.find('(');
	if (p != std::string::npos) fn = fn.substr(0, p);
	std::string o;
	int depth = 0;
	for (char c : fn) {
		if (c == '<') depth++;
		else if (c == '>') depth--;
		else if (depth == 0 && c != ' ') o += c;
	}
	return o;
}

inline CrashInfo read_crash(const std::string& rundir, pid_t pid, int status, const std::string& repo) {
	CrashInfo ci;
	ci.status = status;
	std::string path = rundir + "/san." + std::to_string(pid);
	std::string txt = read_file(path);
	unlink(path.c_str());
	ci.text = txt.substr(0, 3000);
	if (WIFSIGNALED(status) && (WTERMSIG(status) == SIGALRM || WTERMSIG(status) == SIGPROF)) ci.cls = "timeout";
	else if (WIFSIGNALED(status) && WTERMSIG(status) == SIGXCPU) ci.cls = "timeout";
	if (!txt.empty()) {
		std::istringstream is(txt);
		std::string line;
		bool got_cls = !ci.cls.empty();
		while (std::getline(is, line)) {
			if (!got_cls) {
				size_t p = line.find("ERROR: AddressSanitizer: ");
				if (p != std::string::npos) {
					std::string r = line.substr(p + 25);
					size_t sp = r.find(' ');
					ci.cls = r.substr(0, sp);
					if (ci.cls == "attempting") ci.cls = "bad-free"; // "attempting double-free / free on address"
					if (ci.cls == "requested" || ci.cls == "allocator" ) ci.cls = "allocation-size-too-big";
					got_cls = true;
				}
				else if ((p = line.find("runtime error: ")) != std::string::npos) {
					std::string r = line.substr(p + 15);
					// class = first three words, digits stripped
					std::string c;
					int words = 0;
					for (char ch : r) {
						if (ch == ' ') { if (++words >= 3) break; c += '-'; }
						else if (!isdigit((unsigned char) ch) && ch != '-' && ch != '.') c += ch;
					}
					ci.cls = "ubsan:" + c;
					got_cls = true;
				}
				else if (line.find("ERROR: AddressSanitizer failed to allocate") != std::string::npos || line.find("out of memory") != std::string::npos) {
					ci.cls = "out-of-memory";
					got_cls = true;
				}
			}
			// frame lines: "    #1 0x... in nifly::Foo::Bar(...) /repo/src/X.cpp:123:4"
			size_t in = line.find(" in ");
			if (ci.frame.empty() && line.find("    #") == 0 && in != std::string::npos) {
				std::string rest = line.substr(in + 4);
				bool in_repo = rest.find(repo + "/src/") != std::string::npos || rest.find(repo + "/include/") != std::string::npos
							   || rest.find("/ref/nifly/") != std::string::npos;
				if (in_repo) {
					size_t sp = rest.rfind(" /");
					ci.frame = sanitize_fn(rest.substr(0, sp));
				}
			}
		}
	}
	if (ci.cls.empty()) {
		if (WIFSIGNALED(status)) ci.cls = "signal-" + std::to_string(WTERMSIG(status));
		else ci.cls = "exit-" + std::to_string(WEXITSTATUS(status));
	}
	return ci;
}

// ---- forked worker pool ----
// Units 0..n-1 are handed out through a shared counter.  Each worker appends protocol lines
// to its own file.  Before running a case a worker may describe it in its in-flight slot;
// when a worker dies the parent calls on_crash(unit, crashinfo, inflight) and restarts a
// worker on the same unit with `skips[unit]` extended by whatever on_crash returns (empty
// string = do not retry that unit).
struct Shared {
	std::atomic<long> next;
	std::atomic<long> stop;
	struct Slot {
		std::atomic<long> unit;
		std::atomic<long> progress; // cases finished inside the unit (resume hint)
		char step[96];				// coarse "what was running" marker (API entry point), see set_step
		char inflight[16384];
	} slots[64];
};
inline Shared* g_shared = nullptr;
inline int g_slot = -1;

inline void set_inflight(const std::string& s) {
	if (!g_shared || g_slot < 0) return;
	size_t n = std::min(s.size(), sizeof(g_shared->slots[0].inflight) - 1);
	memcpy(g_shared->slots[g_slot].inflight, s.data(), n);
	g_shared->slots[g_slot].inflight[n] = 0;
}
// Private one-slot mapping for run_isolated children (no pool slot there).
struct StepSlot { char step[96]; };
inline StepSlot* g_stepslot = nullptr;
inline std::string g_last_step; // step marker of the most recently reaped dead worker / isolated child
inline void set_step(const char* s) {
	char* dst = nullptr;
	if (g_shared && g_slot >= 0) dst = g_shared->slots[g_slot].step;
	else if (g_stepslot) dst = g_stepslot->step;
	if (!dst) return;
	size_t n = strlen(s);
	if (n > 95) n = 95;
	memcpy(dst, s, n);
	dst[n] = 0;
}
inline void set_progress(long p) { if (g_shared && g_slot >= 0) g_shared->slots[g_slot].progress = p; }

struct PoolCfg {
	int jobs = 8;
	std::string rundir;
	std::string repo = "/repo";
	rlim_t stack_bytes = 8u << 20;
	int max_restarts_per_unit = 50;
};

using UnitFn = std::function<void(size_t unit, const std::vector<std::string>& skips, long resume, Stats& st)>;
// return value: string to add to the unit's skip list and retry ("" = give up on that unit)
using CrashFn = std::function<std::string(size_t unit, const CrashInfo& ci, const std::string& inflight, Stats& parent)>;

inline void run_pool(size_t nunits, const PoolCfg& cfg, UnitFn fn, CrashFn on_crash, Stats& parent) {
	if (nunits == 0) return;
	auto sh = (Shared*) mmap(nullptr, sizeof(Shared), PROT_READ | PROT_WRITE, MAP_SHARED | MAP_ANONYMOUS, -1, 0);
	if (sh == MAP_FAILED) fatal("mmap failed");
	new (sh) Shared();
	sh->next = 0;
	sh->stop = 0;
	for (auto& s : sh->slots) { s.unit = -1; s.progress = 0; s.inflight[0] = 0; s.step[0] = 0; }
	g_shared = sh;
	std::map<size_t, std::vector<std::string>> skips;
	std::map<size_t, int> restarts;
	std::map<pid_t, int> slot_of;
	int jobs = std::min<size_t>(cfg.jobs, nunits);
	fflush(stdout);

	auto spawn = [&](int slot, long first_unit, long resume) {
		fflush(stdout);
		pid_t pid = fork();
		if (pid < 0) fatal("fork failed");
		if (pid == 0) {
			g_slot = slot;
			struct rlimit rl { cfg.stack_bytes, cfg.stack_bytes };
			setrlimit(RLIMIT_STACK, &rl);
			std::string path = cfg.rundir + "/w" + std::to_string(slot) + "." + std::to_string(getpid()) + ".out";
			FILE* f = fopen(path.c_str(), "w");
			if (!f) _exit(4);
			long u = first_unit;
			for (;;) {
				if (u < 0) u = sh->next.fetch_add(1);
				if ((size_t) u >= nunits) break;
				if (sh->stop.load() || deadline_passed()) {
					// unit not run: the run is not exhaustive
					fprintf(f, "X\t0\nC\tunits_not_run_deadline\t1\n");
					u = -1;
					continue;
				}
				sh->slots[slot].unit = u;
				sh->slots[slot].progress = resume;
				sh->slots[slot].inflight[0] = 0;
				Stats st;
				static const std::vector<std::string> none;
				auto it = skips.find((size_t) u);
				fn((size_t) u, it == skips.end() ? none : it->second, resume, st);
				st.flush(f);
				sh->slots[slot].unit = -1;
				resume = 0;
				u = -1;
			}
			fclose(f);
			_exit(0);
		}
		slot_of[pid] = slot;
	};

	for (int i = 0; i < jobs; i++) spawn(i, -1, 0);
	while (!slot_of.empty()) {
		int status = 0;
		pid_t pid = wait(&status);
		if (pid < 0) break;
		auto it = slot_of.find(pid);
		if (it == slot_of.end()) continue;
		int slot = it->second;
		slot_of.erase(it);
		if (WIFEXITED(status) && WEXITSTATUS(status) == 0) continue;
		long unit = sh->slots[slot].unit.load();
		std::string inflight = sh->slots[slot].inflight;
		long progress = sh->slots[slot].progress.load();
		sh->slots[slot].step[95] = 0;
		g_last_step = sh->slots[slot].step;
		CrashInfo ci = read_crash(cfg.rundir, pid, status, cfg.repo);
		if (unit < 0) {
			// died outside a unit: infrastructure problem
			parent.add("worker_deaths_outside_unit");
			spawn(slot, -1, 0);
			continue;
		}
		std::string skip = on_crash((size_t) unit, ci, inflight, parent);
		if (!skip.empty() && restarts[(size_t) unit]++ < cfg.max_restarts_per_unit) {
			skips[(size_t) unit].push_back(skip);
			spawn(slot, unit, progress);
		}
		else {
			if (!skip.empty()) { parent.capped("unit " + std::to_string(unit) + " abandoned after too many worker deaths"); }
			spawn(slot, -1, 0);
		}
	}
	// concatenate worker output
	fflush(stdout);
	std::string cmd = "cat " + cfg.rundir + "/w*.out 2>/dev/null";
	FILE* p = popen(cmd.c_str(), "r");
	if (p) {
		char buf[65536];
		size_t n;
		while ((n = fread(buf, 1, sizeof buf, p)) > 0) fwrite(buf, 1, n, stdout);
		pclose(p);
	}
	std::string rm = "rm -f " + cfg.rundir + "/w*.out";
	if (system(rm.c_str())) {}
	fflush(stdout);
	munmap(sh, sizeof(Shared));
	g_shared = nullptr;
}

// Watchdog that does not depend on machine load: the limit counts the CPU time of the process (a hang in a
// single-threaded library burns CPU); a wall-clock alarm at eight times the limit is the backstop for a process
// that blocks.  Both signals take the same handler (installed by the harness) or their default action (death).
inline void watch_start(int seconds) {
	if (seconds <= 0) return;
	struct itimerval it;
	memset(&it, 0, sizeof it);
	it.it_value.tv_sec = seconds;
	setitimer(ITIMER_PROF, &it, nullptr);
	alarm((unsigned) seconds * 8);
}
inline void watch_stop() {
	struct itimerval it;
	memset(&it, 0, sizeof it);
	setitimer(ITIMER_PROF, &it, nullptr);
	alarm(0);
}

// Run one closure in a forked child with a watchdog; returns CrashInfo with cls=="" on clean exit 0.
inline CrashInfo run_isolated(const std::string& rundir, const std::string& repo, int timeout_s, const std::function<int()>& body) {
	fflush(stdout);
	static StepSlot* slot = nullptr;
	if (!slot) {
		slot = (StepSlot*) mmap(nullptr, sizeof(StepSlot), PROT_READ | PROT_WRITE, MAP_SHARED | MAP_ANONYMOUS, -1, 0);
		if (slot == MAP_FAILED) slot = nullptr;
	}
	if (slot) slot->step[0] = 0;
	pid_t pid = fork();
	if (pid == 0) {
		g_shared = nullptr;
		g_slot = -1;
		g_stepslot = slot;
		watch_start(timeout_s);
		int rc = body();
		fflush(stdout);
		_exit(rc);
	}
	int status = 0;
	waitpid(pid, &status, 0);
	if (slot) { slot->step[95] = 0; g_last_step = slot->step; }
	if (WIFEXITED(status) && WEXITSTATUS(status) == 0) return CrashInfo();
	return read_crash(rundir, pid, status, repo);
}

} // namespace vf
