// C14 — "Cloning a shape yields a self-contained copy and leaves the source untouched".
//
// Scenario = (source model, shape k of it, destination, clone count).
//   source      : every sample file (de-duplicated by content) and four API-built models
//   destination : the same model | a fresh NifFile::Create(same version) | another loaded model of
//                 the same version (thorough: every other one, quick: the largest other one)
//   count       : 1 or 2 (the same source shape cloned twice under different names)
// Oracle, from the statement:
//   (a) the source model is not modified: cross-model, its Save(raw) equals the Save(raw) of a twin
//       loaded from the same bytes and its logical snapshot equals the twin's; same-model, every block
//       that existed before equals the twin's block under masked payload compare (NiNode blocks, whose
//       child lists legitimately grow, are compared by name / transform / parent instead);
//   (b) every reference reachable from the clone resolves inside the destination to a block of the same
//       type whose payload equals the source's referenced block apart from references, string fields
//       compared by the string they denote (masked payload compare, snapshot.hpp);
//   (c) geometry, shader type / flags, texture paths and skin (weights, transforms) of the clone equal
//       the source shape's (logical snapshot of the shape, name and parent excluded);
//   (d) the clone's bone list names the same bones in the same order and every bone node exists in the
//       destination;
//   (e) the destination saves raw and default, reloads, and the clone is found with a snapshot equal to
//       what the source shape shows after the same save + reload of a twin.
// Intentional behaviour that the statement does not forbid is not flagged: for SK / SSE shapes whose
// shader is model-space CloneShape strips normals / tangents (those fields and the payloads of the blocks
// holding them are left out of the comparison); bones are re-parented / re-created by name (bone
// pointers are compared as names); pointers that stay inside one model are accepted when they still
// reach the original block.
// Each object is saved at most once: the destination is constructed three times (payloads, raw, default).
#include "snapshot.hpp"

using namespace nifly;
using vf::J;
using vf::Stats;
using snap::Fields;
using snap::Model;
using snap::Payload;

static vf::Args A;
static std::vector<Model> g_all;		// every model: samples (size order) then API-built
static std::vector<size_t> g_sources;	// indices into g_all explored as sources
static std::vector<std::string> g_vkey; // version key per model
static std::vector<size_t> g_nshapes;
static bool g_all_others = false;

static const char* CLONE_NAMES[2] = {"vfClone1", "vfClone2"};

struct Scn {
	size_t src, shape;
	std::string dest; // "same" | "fresh" | "file:<name>"
	int count;
};
static J scn_json(const Scn& s, const std::string& shape_name = "") {
	J j = J::obj().set("src", g_all[s.src].name).set("shape", (long long) s.shape).set("dest", s.dest).set("count", s.count);
	if (!shape_name.empty()) j.set("shape_name", shape_name);
	return j;
}
static std::string scn_id(const Scn& s) { return vf::strf("%zu/%s/%d", s.shape, s.dest.c_str(), s.count); }

static void must_load(NifFile& n, const Model& m) {
	if (s1::load(n, m.bytes) != 0) vf::fatal("model does not load: " + m.name);
}

// ---------- reference data of a source model (twins; cached per worker) ----------
struct SrcRef {
	bool computed = false;
	std::string raw;				 // Save(raw) of twin 1
	std::vector<Payload> payloads;	 // twin 2
	Fields model;					 // twin 3: model snapshot
	std::vector<Fields> shape;		 // twin 3: per shape
	std::vector<uint32_t> shape_block;
	uint32_t root_block = NIF_NPOS;
	std::vector<std::string> shape_name;
	std::vector<bool> model_space;	 // CloneShape strips normals / tangents for this shape
	std::vector<std::vector<std::string>> bones;
	std::map<std::string, std::vector<Fields>> after_raw, after_default; // shape name -> snapshots after save + reload of a twin
};
static std::map<size_t, SrcRef> g_ref;

static void shapes_by_name(NifFile& n, std::map<std::string, std::vector<Fields>>& out) {
	for (auto s : n.GetShapes()) out[s->name.get()].push_back(snap::shape_fields(n, s));
}

static SrcRef& get_ref(size_t mi) {
	SrcRef& r = g_ref[mi];
	if (r.computed) return r;
	const Model& m = g_all[mi];
	vf::set_inflight(J::obj().set("src", m.name).set("stage", "reference").dump());
	{
		NifFile t;
		must_load(t, m);
		r.raw = s1::save(t, true);
		if (r.raw.empty()) vf::fatal("twin of " + m.name + " does not save");
		NifFile back;
		if (s1::load(back, r.raw) == 0) shapes_by_name(back, r.after_raw);
	}
	{
		NifFile t;
		must_load(t, m);
		r.payloads = snap::payloads(t);
		// self-check of the payload writer: header + payloads + footer is exactly what Save(raw) writes
		std::string cat;
		for (auto& p : r.payloads) cat += p.bytes;
		if (r.raw.size() < cat.size() + 8 || r.raw.compare(r.raw.size() - 8 - cat.size(), cat.size(), cat) != 0)
			vf::fatal("payload writer disagrees with Save(raw) for " + m.name);
	}
	{
		NifFile t;
		must_load(t, m);
		r.model = snap::model_snapshot(t);
		auto& hdr = t.GetHeader();
		r.root_block = t.GetBlockID(t.GetRootNode());
		for (auto s : t.GetShapes()) {
			r.shape.push_back(snap::shape_fields(t, s));
			r.shape_block.push_back(t.GetBlockID(s));
			r.shape_name.push_back(s->name.get());
			auto shader = t.GetShader(s);
			r.model_space.push_back(shader && shader->IsModelSpace() && (hdr.GetVersion().IsSK() || hdr.GetVersion().IsSSE()));
			std::vector<std::string> bl;
			t.GetShapeBoneList(s, bl);
			r.bones.push_back(bl);
		}
	}
	{
		NifFile t;
		must_load(t, m);
		std::string d = s1::save(t, false);
		NifFile back;
		if (!d.empty() && s1::load(back, d) == 0) shapes_by_name(back, r.after_default);
	}
	r.computed = true;
	return r;
}

// ---------- one construction: load, clone ----------
struct Built {
	std::unique_ptr<NifFile> S, Down; // Down: destination when it is not the source itself
	NifFile* D = nullptr;
	NiShape* srcShape = nullptr;
	std::vector<NiShape*> clones;
	uint32_t nblocks_before = 0;
	std::set<std::string> nodes_before; // names of the destination's nodes before cloning
};
static const Model* dest_model(const Scn& sc) {
	if (sc.dest.compare(0, 5, "file:") != 0) return nullptr;
	auto m = snap::find_model(g_all, sc.dest.substr(5));
	if (!m) vf::fatal("unknown destination " + sc.dest);
	return m;
}
static Built build(const Scn& sc) {
	Built b;
	b.S.reset(new NifFile());
	must_load(*b.S, g_all[sc.src]);
	if (sc.dest == "same") b.D = b.S.get();
	else if (sc.dest == "fresh") {
		b.Down.reset(new NifFile());
		b.Down->Create(b.S->GetHeader().GetVersion());
		b.D = b.Down.get();
	}
	else {
		b.Down.reset(new NifFile());
		must_load(*b.Down, *dest_model(sc));
		b.D = b.Down.get();
	}
	auto shapes = b.S->GetShapes();
	if (sc.shape >= shapes.size()) vf::fatal("shape index out of range");
	b.srcShape = shapes[sc.shape];
	b.nblocks_before = b.D->GetHeader().GetNumBlocks();
	for (auto n : b.D->GetNodes()) b.nodes_before.insert(n->name.get());
	for (int i = 0; i < sc.count; i++) b.clones.push_back(b.D->CloneShape(b.srcShape, CLONE_NAMES[i], sc.dest == "same" ? nullptr : b.S.get()));
	return b;
}

static bool is_geometry_holder(const std::string& type) {
	static const std::set<std::string> t = {"NiTriShape", "NiTriStrips", "BSLODTriShape", "BSSegmentedTriShape", "NiTriShapeData", "NiTriStripsData", "BSTriShape",
											"BSDynamicTriShape", "BSSubIndexTriShape", "BSMeshLODTriShape", "NiSkinPartition", "NiBinaryExtraData"};
	return t.count(type) > 0;
}

struct Ctx {
	const Scn& sc;
	Stats& st;
	J j;
	std::string what;
	void viol(const std::string& key, const std::string& msg) { st.violation(key, what + ": " + msg, j); }
};

// fields left out when a clone's snapshot is compared with the source shape's
static std::vector<std::string> ignore_list(bool model_space) {
	std::vector<std::string> ig = {"name", "parent"};
	if (model_space) { ig.push_back("normals"); ig.push_back("tangents"); ig.push_back("bitangents"); ig.push_back("has"); }
	return ig;
}

// (b) reference walk + masked payload compare
static size_t compare_tree(Ctx& c, const std::vector<Payload>& PS, uint32_t srcRoot, const std::vector<Payload>& PD, uint32_t dstRoot, bool model_space, bool same_model,
						   uint32_t srcSceneRoot, uint32_t dstSceneRoot) {
	std::map<uint32_t, uint32_t> s2d;
	struct Deferred { uint32_t si, di; size_t k; };
	std::vector<Deferred> ptrs;
	size_t pairs = 0;
	std::function<void(uint32_t, uint32_t, int)> walk = [&](uint32_t si, uint32_t di, int depth) {
		if (depth > 64) { c.st.add("reference_walk_depth_cut"); return; }
		pairs++;
		if (!s2d.count(si)) s2d[si] = di;
		const Payload &a = PS[si], &b = PD[di];
		if (a.type != b.type) {
			c.viol("clone:ref-wrong-type", vf::strf("a reference that reaches a %s (block %u) in the source reaches a %s (block %u) in the destination", a.type.c_str(), si, b.type.c_str(), di));
			return;
		}
		const bool exempt = model_space && is_geometry_holder(a.type);
		if (!exempt) {
			std::string d = snap::masked_diff(a, b, depth == 0);
			if (!d.empty()) c.viol("clone:payload-differs:" + a.type, vf::strf("%s reached from the clone (block %u) differs from the source's (block %u): %s", a.type.c_str(), di, si, d.c_str()));
		}
		else
			c.st.add("payloads_exempt_model_space");
		c.st.add("payload_pairs_compared");
		if (a.refs.size() != b.refs.size()) {
			if (exempt) c.viol("clone:payload-differs:" + a.type, vf::strf("%s: %zu vs %zu reference fields", a.type.c_str(), a.refs.size(), b.refs.size()));
			return;
		}
		for (size_t k = 0; k < a.refs.size(); k++) {
			const auto &ra = a.refs[k], &rb = b.refs[k];
			if (ra.child && !ra.ptr) {
				if (ra.value == NIF_NPOS) {
					if (rb.value != NIF_NPOS) c.viol("clone:ref-appeared", vf::strf("%s: reference #%zu is empty in the source but %u in the clone", a.type.c_str(), k, rb.value));
					continue;
				}
				if (ra.value >= PS.size()) { c.st.add("source_refs_dangling_skipped"); continue; }
				if (rb.value == NIF_NPOS || rb.value >= PD.size()) {
					c.viol("clone:dangling-ref", vf::strf("%s (block %u): reference #%zu = %u does not resolve inside the destination (%zu blocks); the source's reaches a %s", a.type.c_str(), di,
														  k, rb.value, PD.size(), PS[ra.value].type.c_str()));
					continue;
				}
				walk(ra.value, rb.value, depth + 1);
			}
			else
				ptrs.push_back({si, di, k});
		}
	};
	walk(srcRoot, dstRoot, 0);
	for (auto& p : ptrs) {
		const auto &ra = PS[p.si].refs[p.k], &rb = PD[p.di].refs[p.k];
		const std::string& holder = PS[p.si].type;
		if (ra.bone) { c.st.add("bone_pointers_left_to_bone_list_check"); continue; }
		if (ra.value == NIF_NPOS || ra.value >= PS.size()) continue;
		c.st.add("pointers_checked");
		auto it = s2d.find(ra.value);
		if (it != s2d.end()) {
			// the source's pointer stays inside the cloned subtree (e.g. controller -> its target)
			if (rb.value == it->second) continue;
			c.viol("clone:ptr-not-rebound:" + holder, vf::strf("%s (block %u): pointer #%zu reaches block %u of the cloned subtree in the source (a %s) but block %u instead of the clone's block %u in the destination",
															   holder.c_str(), p.di, p.k, ra.value, PS[ra.value].type.c_str(), rb.value, it->second));
			continue;
		}
		if (rb.value == NIF_NPOS || rb.value >= PD.size()) {
			c.viol("clone:dangling-ptr:" + holder, vf::strf("%s (block %u): pointer #%zu = %u does not resolve inside the destination (%zu blocks); the source's reaches a %s", holder.c_str(), p.di, p.k,
															rb.value, PD.size(), PS[ra.value].type.c_str()));
			continue;
		}
		if (ra.value == srcSceneRoot) {
			// a pointer to the source's root node (skeleton root): the same content in the destination is its root node, whatever node class that is
			c.st.add("pointers_to_scene_root");
			if (rb.value != dstSceneRoot)
				c.viol("clone:ptr-to-root-misses-root:" + holder, vf::strf("%s (block %u): pointer #%zu reaches the root node (block %u) in the source but block %u (a %s) in the destination, whose root node is block %u",
																		 holder.c_str(), p.di, p.k, ra.value, rb.value, PD[rb.value].type.c_str(), dstSceneRoot));
			continue;
		}
		if (PD[rb.value].type != PS[ra.value].type)
			c.viol("clone:ptr-wrong-type:" + holder, vf::strf("%s (block %u): pointer #%zu reaches a %s in the source but a %s (block %u) in the destination", holder.c_str(), p.di, p.k,
															  PS[ra.value].type.c_str(), PD[rb.value].type.c_str(), rb.value));
	}
	return pairs;
}

static void check_clone_snapshot(Ctx& c, NifFile& D, NiShape* clone, const Fields& ref, bool model_space, const std::string& when, const std::string& keypart) {
	Fields f = snap::shape_fields(D, clone);
	std::string detail;
	std::string d = snap::diff_fields(ref, f, ignore_list(model_space), &detail);
	if (!d.empty()) c.viol("clone:" + keypart + ":" + snap::generic_field(d), "the clone's " + snap::generic_field(d) + " differs from the source shape's " + when + " (" + detail + ")");
}

static void run_scenario(const Scn& sc, Stats& st) {
	SrcRef& ref = get_ref(sc.src);
	if (sc.shape >= ref.shape.size()) vf::fatal("shape index out of range for " + g_all[sc.src].name);
	Ctx c{sc, st, scn_json(sc, ref.shape_name[sc.shape]), g_all[sc.src].name + " shape #" + std::to_string(sc.shape) + " '" + ref.shape_name[sc.shape] + "' -> " + sc.dest + " x" + std::to_string(sc.count)};
	vf::set_inflight(J(c.j).set("stage", "clone").dump());
	alarm(120);
	const bool same = sc.dest == "same";
	const bool ms = ref.model_space[sc.shape];
	const Fields& srcF = ref.shape[sc.shape];
	st.add("evaluations");
	st.add(std::string("dest_") + (same ? "same" : sc.dest == "fresh" ? "fresh" : "other"));
	if (ms) st.add("scenarios_model_space_exemption");
	bool nontrivial = false;

	// ---- construction A: in-memory checks, source untouched, reference walk ----
	{
		Built b = build(sc);
		NifFile& D = *b.D;
		bool ok = true;
		for (int i = 0; i < sc.count; i++)
			if (!b.clones[(size_t) i]) { c.viol("clone:null", vf::strf("CloneShape #%d returned nullptr", i + 1)); ok = false; }
		if (ok) {
			for (int i = 0; i < sc.count; i++) {
				NiShape* cl = b.clones[(size_t) i];
				if (D.GetBlockID(cl) == NIF_NPOS) { c.viol("clone:not-in-destination", "the returned shape is not a block of the destination"); ok = false; continue; }
				if (cl->name.get() != CLONE_NAMES[i]) c.viol("clone:name", "the clone does not carry the requested name");
				// (c) geometry / shader / textures / skin
				check_clone_snapshot(c, D, cl, srcF, ms, "right after cloning", "snapshot-differs");
				// (d) bones
				std::vector<std::string> bl;
				D.GetShapeBoneList(cl, bl);
				if (bl != ref.bones[sc.shape]) {
					std::string sa, sb;
					for (auto& x : ref.bones[sc.shape]) sa += x + "|";
					for (auto& x : bl) sb += x + "|";
					c.viol("clone:bone-list-differs", vf::strf("bone list of the source (%zu): %s  of the clone (%zu): %s", ref.bones[sc.shape].size(), sa.substr(0, 200).c_str(), bl.size(), sb.substr(0, 200).c_str()));
				}
				for (auto& bn : ref.bones[sc.shape])
					if (!D.FindBlockByName<NiNode>(bn)) { c.viol("clone:bone-missing", "bone node '" + bn + "' does not exist in the destination"); break; }
				// a bone node the clone brought along is a node of the same class as the source's (NiBone, BSFadeNode, ... stay what they are)
				if (!same)
					for (auto& bn : ref.bones[sc.shape]) {
						if (b.nodes_before.count(bn)) continue;
						auto dn = D.FindBlockByName<NiNode>(bn);
						auto sn = b.S->FindBlockByName<NiNode>(bn);
						if (dn && sn && std::string(dn->GetBlockName()) != sn->GetBlockName()) {
							c.viol("clone:bone-class-changed", "bone node '" + bn + "' is a " + sn->GetBlockName() + " in the source but was created as a " + dn->GetBlockName() + " in the destination");
							break;
						}
					}
			}
			// geometry cache of the clone must be a block of the destination
			int fc = snap::foreign_geometry_cache(D);
			if (fc >= 0) c.viol("clone:geometry-cache-outside-destination", vf::strf("shape #%d of the destination caches a geometry-data pointer that is not one of its blocks", fc));
			// the source shape itself still answers as before
			{
				Fields f = snap::shape_fields(*b.S, b.srcShape);
				std::string detail;
				std::string d = snap::diff_fields(srcF, f, {}, &detail);
				if (!d.empty()) c.viol("clone:source-modified:shape:" + snap::generic_field(d), "the source shape's snapshot changed (" + detail + ")");
			}
			// (a) source untouched
			std::vector<Payload> PD;
			if (!same) {
				Fields msnap = snap::model_snapshot(*b.S);
				std::string detail;
				std::string d = snap::diff_fields(ref.model, msnap, {}, &detail);
				if (!d.empty()) c.viol("clone:source-modified:snapshot:" + snap::generic_field(d), "the source model's logical snapshot changed (" + detail + ")");
				std::string raw = s1::save(*b.S, true);
				if (raw != ref.raw) c.viol("clone:source-modified", "Save(raw) of the source model after cloning differs from a twin's (" + snap::first_diff(raw, ref.raw) + ")");
				PD = snap::payloads(D);
			}
			else {
				PD = snap::payloads(D);
				if (PD.size() < ref.payloads.size()) c.viol("clone:source-modified", "the model has fewer blocks after cloning into itself");
				else {
					Fields msnap = snap::model_snapshot(D);
					std::map<std::string, std::string> after;
					for (auto& kv : msnap) after[kv.first] = kv.second;
					for (auto& kv : ref.model) {
						if (kv.first.compare(0, 5, "node[") != 0) continue;
						if (kv.first.size() > 9 && kv.first.compare(kv.first.size() - 9, 9, ".children") == 0) continue;
						auto it = after.find(kv.first);
						if (it == after.end() || it->second != kv.second) {
							c.viol("clone:source-modified:" + snap::generic_field(kv.first),
								   "cloning inside one model changed " + kv.first + ": '" + kv.second.substr(0, 80) + "' -> '" + (it == after.end() ? std::string("<absent>") : it->second.substr(0, 80)) + "'");
							break;
						}
					}
					for (uint32_t i = 0; i < ref.payloads.size(); i++) {
						if (dynamic_cast<NiNode*>(D.blocks[i].get())) continue;
						std::string d = snap::masked_diff(ref.payloads[i], PD[i]);
						if (!d.empty()) { c.viol("clone:source-modified:" + ref.payloads[i].type, vf::strf("block %u (%s) that existed before cloning changed: %s", i, ref.payloads[i].type.c_str(), d.c_str())); break; }
					}
				}
			}
			// (b)
			size_t hooks_missed = 0;
			for (auto& p : PD) {
				hooks_missed += p.enumerated_not_written;
				if (p.enumerated_not_written) st.distinct("types_with_refs_not_seen_by_write_hook", p.type);
			}
			if (hooks_missed) st.add("enumerated_refs_not_seen_by_write_hook", (long long) hooks_missed);
			if (ok) {
				for (int i = 0; i < sc.count; i++) {
					uint32_t di = D.GetBlockID(b.clones[(size_t) i]);
					size_t pairs = compare_tree(c, ref.payloads, ref.shape_block[sc.shape], PD, di, ms, same, ref.root_block, D.GetBlockID(D.GetRootNode()));
					st.max("blocks_in_cloned_subtree", (long long) pairs);
					if (pairs > 1) nontrivial = true;
				}
			}
			st.distinct("outcomes", vf::strf("+%u blocks/%zu bones", D.GetHeader().GetNumBlocks() - b.nblocks_before, ref.bones[sc.shape].size()));
		}
		// destruction order: destination first, then the source (pointers into the source would fault)
		if (b.Down) b.Down.reset();
		b.S.reset();
	}

	// ---- construction B: raw save, reload ----
	auto saved_check = [&](bool raw) {
		vf::set_inflight(J(c.j).set("stage", raw ? "save-raw" : "save-default").dump());
		Built b = build(sc);
		for (auto cl : b.clones) if (!cl) return;
		// a self-contained copy does not need its source: across models the source is destroyed before the destination is saved
		if (!same) { b.srcShape = nullptr; b.S.reset(); }
		std::string bytes = s1::save(*b.D, raw);
		const char* how = raw ? "raw" : "default";
		if (bytes.empty()) { c.viol(std::string("clone:destination-save-fails:") + how, "Save returns an error"); return; }
		NifFile back;
		long long consumed = 0;
		int rc = s1::load(back, bytes, &consumed);
		if (rc != 0) { c.viol(std::string("clone:destination-reload-fails:") + how, vf::strf("Load of the destination's %s save returns %d", how, rc)); return; }
		if (consumed != (long long) bytes.size() - 8)
			c.viol(std::string("clone:destination-reload-extent:") + how, vf::strf("reloading the %s save of %zu bytes stops at %lld", how, bytes.size(), consumed));
		auto& refs = raw ? ref.after_raw : ref.after_default;
		auto it = refs.find(ref.shape_name[sc.shape]);
		if (it == refs.end() || it->second.empty()) { st.add(std::string("source_shape_absent_after_twin_save_") + how); return; }
		for (int i = 0; i < sc.count; i++) {
			auto cl = back.FindBlockByName<NiShape>(CLONE_NAMES[i]);
			if (!cl) { c.viol(std::string("clone:lost-after-save:") + how, vf::strf("clone #%d is not found after a %s save and reload of the destination", i + 1, how)); continue; }
			Fields f = snap::shape_fields(back, cl);
			std::string first, firstdetail;
			bool match = false;
			for (auto& cand : it->second) {
				std::string detail;
				std::string d = snap::diff_fields(cand, f, ignore_list(ms), &detail);
				if (d.empty()) { match = true; break; }
				if (first.empty()) { first = d; firstdetail = detail; }
			}
			if (!match)
				c.viol(std::string("clone:snapshot-differs-after-save:") + how + ":" + snap::generic_field(first),
					   std::string("after a ") + how + " save and reload the clone's " + snap::generic_field(first) + " differs from what the source shape shows after the same save and reload of a twin (" + firstdetail + ")");
			st.add("reloaded_clone_checks");
		}
		if (b.Down) b.Down.reset();
		b.S.reset();
	};
	saved_check(true);
	saved_check(false);
	alarm(0);
	if (nontrivial) st.add("distinct_nontrivial");
}

// ---------- enumeration ----------
static std::vector<std::string> dests_for(size_t src) {
	std::vector<std::string> d = {"same", "fresh"};
	std::vector<size_t> others;
	for (size_t i = 0; i < g_all.size(); i++) {
		if (i == src || g_vkey[i] != g_vkey[src] || g_all[i].bytes == g_all[src].bytes) continue;
		others.push_back(i);
	}
	if (others.empty()) return d;
	if (g_all_others) for (auto i : others) d.push_back("file:" + g_all[i].name);
	else {
		// one other: the largest model of the same version (g_all is in size order, API-built models last and tiny)
		size_t best = others[0];
		for (auto i : others) if (g_all[i].bytes.size() >= g_all[best].bytes.size()) best = i;
		d.push_back("file:" + g_all[best].name);
		// and every API-built model of the version (tiny; they exist for the relationships no sample file has)
		for (auto i : others) if (i != best && g_all[i].name.compare(0, 4, "api:") == 0) d.push_back("file:" + g_all[i].name);
	}
	return d;
}

struct Unit { size_t src, shape; };

static std::string crash_key(const vf::CrashInfo& ci) {
	if (ci.cls.compare(0, 6, "ubsan:") == 0) return ci.key();
	if (ci.cls == "timeout" || ci.cls.compare(0, 7, "signal-") == 0 || ci.cls.compare(0, 5, "exit-") == 0) return "crash:" + ci.key();
	return "asan:" + ci.key();
}

int main(int argc, char** argv) {
	A = vf::parse_args(argc, argv);
	e1::install_hooks();
	Stats top;
	const bool thorough = A.thorough();
	g_all_others = A.geti("allothers", thorough ? 1 : 0) != 0;
	size_t nfiles = 0;
	std::vector<Model> samples = snap::sample_models(A.repo, &nfiles);
	if (samples.empty()) vf::fatal("no sample files under " + A.repo + "/tests");
	std::vector<Model> api = snap::api_models();
	g_all = samples;
	for (auto& m : api) g_all.push_back(m);
	size_t nsamples = std::min((size_t) A.geti("files", (long long) samples.size()), samples.size());
	for (size_t i = 0; i < g_all.size(); i++) {
		NifFile n;
		must_load(n, g_all[i]);
		g_vkey.push_back(snap::version_key(n.GetHeader().GetVersion()));
		g_nshapes.push_back(n.GetShapes().size());
	}
	if (A.has("file")) {
		auto m = snap::find_model(g_all, A.get("file"));
		if (!m) vf::fatal("unknown model " + A.get("file"));
		g_sources.push_back((size_t) (m - &g_all[0]));
	}
	else {
		for (size_t i = 0; i < nsamples; i++) g_sources.push_back(i);
		for (size_t i = samples.size(); i < g_all.size(); i++) g_sources.push_back(i);
	}

	vf::PoolCfg pc;
	pc.jobs = A.jobs;
	pc.rundir = A.rundir;
	pc.repo = A.repo;
	pc.max_restarts_per_unit = 200;
	auto crash_fn = [&](size_t, const vf::CrashInfo& ci, const std::string& inflight, Stats& parent) -> std::string {
		J j;
		try { j = J::parse(inflight); } catch (std::exception&) { return ""; }
		std::string stage = j["stage"].str();
		if (stage == "reference") {
			parent.capped("reference data of " + j["src"].str() + " could not be computed (" + ci.key() + ")");
			return "";
		}
		J rep = J::obj().set("src", j["src"]).set("shape", j["shape"]).set("dest", j["dest"]).set("count", j["count"]);
		if (j.has("shape_name")) rep.set("shape_name", j["shape_name"]);
		parent.violation(crash_key(ci), j["src"].str() + " shape #" + std::to_string(j["shape"].i64()) + " -> " + j["dest"].str() + " x" + std::to_string(j["count"].i64()) + " (" + stage
											+ "): worker died: " + ci.cls + " in " + ci.frame + " | " + vf::tab_safe(ci.text.substr(0, 400)),
						 rep);
		return vf::strf("%lld/%s/%lld", j["shape"].i64(), j["dest"].str().c_str(), j["count"].i64());
	};

	if (!A.replay.empty()) {
		J c = J::parse(vf::read_file(A.replay))["case"];
		auto m = snap::find_model(g_all, c["src"].str());
		if (!m) vf::fatal("replay: unknown model " + c["src"].str());
		Scn sc{(size_t) (m - &g_all[0]), (size_t) c["shape"].i64(), c["dest"].str(), (int) c["count"].i64()};
		if (sc.shape >= g_nshapes[sc.src] || sc.count < 1 || sc.count > 2) vf::fatal("replay: bad scenario");
		vf::run_pool(1, pc,
					 [&](size_t, const std::vector<std::string>& skips, long, Stats& st) {
						 if (!skips.empty()) return;
						 run_scenario(sc, st);
					 },
					 crash_fn, top);
		vf::finish(top);
		return 0;
	}

	std::vector<Unit> units;
	size_t total_shapes = 0;
	for (auto si : g_sources) {
		total_shapes += g_nshapes[si];
		for (size_t k = 0; k < g_nshapes[si]; k++) units.push_back({si, k});
	}
	// larger models first
	std::stable_sort(units.begin(), units.end(), [&](const Unit& a, const Unit& b) { return g_all[a.src].bytes.size() > g_all[b.src].bytes.size(); });

	vf::run_pool(units.size(), pc,
				 [&](size_t u, const std::vector<std::string>& skips, long, Stats& st) {
					 std::set<std::string> skip(skips.begin(), skips.end());
					 st.add("units");
					 for (auto& d : dests_for(units[u].src))
						 for (int count = 1; count <= 2; count++) {
							 Scn sc{units[u].src, units[u].shape, d, count};
							 if (skip.count(scn_id(sc))) { st.add("scenarios_skipped_faulted"); continue; }
							 if (vf::deadline_passed()) { st.capped("deadline reached inside unit " + g_all[sc.src].name); return; }
							 try {
								 run_scenario(sc, st);
							 } catch (std::exception& e) {
								 alarm(0);
								 st.violation(std::string("exception:") + typeid(e).name(), g_all[sc.src].name + " " + scn_id(sc) + ": exception " + e.what(), scn_json(sc));
							 }
							 if (st.samples.empty() && count == 2) st.sample(scn_json(sc));
						 }
				 },
				 crash_fn, top);

	std::set<std::string> versions;
	for (auto si : g_sources) versions.insert(g_vkey[si]);
	top.set_info("rule",
				 vf::strf("scenario = every shape of every source model x destination {same model, fresh Create(same version), %s of the same version} x clone count {1, 2}; "
						  "source models = %zu (%zu of %zu distinct sample files out of %zu, smallest first, + %zu API-built) with %zu shapes in %zu version groups; destinations are drawn from all %zu models; "
						  "evaluations = scenarios executed (each builds the destination three times: payload walk, raw save, default save); distinct_nontrivial = scenarios (each enumerated once) "
						  "whose clone carries at least one referenced child block that was compared",
						  g_all_others ? "every other loaded model" : "the largest other loaded model", g_sources.size(), nsamples, samples.size(), nfiles, api.size(), total_shapes, versions.size(),
						  g_all.size()));
	{
		std::map<std::string, int> groups;
		for (auto& v : g_vkey) groups[v]++;
		J g = J::obj();
		for (auto& kv : groups) g.set(kv.first, kv.second);
		top.set_info("models_per_version", g);
	}
	top.set_info("source_models", (long long) g_sources.size());
	top.set_info("source_shapes", (long long) total_shapes);
	top.set_info("sample_files_total", (long long) nfiles);
	top.set_info("sample_files_distinct", (long long) samples.size());
	top.note("intentional CloneShape behaviour is not flagged: normals/tangents stripped for SK/SSE model-space shaders (those snapshot fields and the payloads of geometry-holding blocks are "
			 "excluded for such shapes), bones re-created / re-parented by name (bone pointers compared as names), node children lists growing when cloning inside one model");
	top.note("a pointer of a cloned block that, in the source, targets a block of the cloned subtree must reach the corresponding block of the clone, inside one model as well as across models");
	top.note("reference snapshots after save + reload come from a twin of the source driven through the same save (raw / default); the clone may match any source shape of that name");
	vf::finish(top);
	return 0;
}
