// C20: transform algebra and bounding spheres, decided on a finite lattice that is enumerated
// completely (DESIGN "### C20").  Rotations of the lattice are built by the harness itself in
// double precision (Rodrigues formula, rounded once to float), so the inputs do not depend on
// the functions under test.  Tolerances are fixed here and emitted into the evidence.
#include "common.hpp"
#include "NifFile.hpp"

#include <algorithm>
#include <cmath>
#include <dirent.h>
#include <unordered_set>

using namespace nifly;
using vf::J;
using vf::Stats;
typedef long long ll;

// ---------------------------------------------------------------- tolerances (fixed)
static const double REL = 1e-4;      // algebraic identities: relative to the magnitude of the terms involved
static const double ROTVEC_ABS = 2e-4; // rotation-vector <-> matrix round trips, absolute per component
static const double SPHERE_REL = 1e-4, SPHERE_ABS = 1e-4;
static const double HALF_TURN_MARGIN = 1e-2; // round trips are required for angles <= pi - margin only

// ---------------------------------------------------------------- the lattice
static const double PI_D = 3.14159265358979323846;
static const double AXES[10][3] = {{1, 0, 0}, {0, 1, 0}, {0, 0, 1}, {-1, 0, 0}, {1, 1, 0}, {0, 1, -1}, {-1, 0, 1}, {1, 1, 1}, {1, -2, 3}, {-0.3, 0.5, 0.8}};
static const int NAXES = 10;
static const double ANGLES[11] = {0, 1e-3, 0.3, PI_D / 4, PI_D / 2, 2, 3, PI_D - 1e-2, PI_D, 3.5, 2 * PI_D - 0.1};
static const char* ANGLE_LABEL[11] = {"0", "1e-3", "0.3", "pi/4", "pi/2", "2", "3", "pi-1e-2", "pi", "3.5", "2pi-0.1"};
static const int NANGLES = 11;
static const int ANG_PI = 8;
static const float SCALES[3] = {0.25f, 1.0f, 3.0f};
static const float TRANS[4][3] = {{0, 0, 0}, {1, 2, 3}, {-100, 50, 0.5f}, {3000, -2000, 1000}};
static const float POINTS[6][3] = {{0, 0, 0}, {1, 0, 0}, {0, 1, 0}, {0, 0, 1}, {-7.5f, 20, 0.125f}, {1000, -2000, 3000}};
static const int COUNTS[4] = {1, 2, 3, 5};
// point lattice for bounding spheres: duplicates arise from multisets; (0,1,2) and (6,0,5) are collinear triples
static const float SPH[9][3] = {{0, 0, 0}, {1, 0, 0}, {2, 0, 0}, {0, 1, 0}, {0, 0, 1}, {1, 1, 1}, {-1, -1, -1}, {100, 50, -25}, {3000, -2000, 1000}};

struct Rot {
	int axis, ang, src; // src 0: harness (double precision Rodrigues), 1: nifly::RotVecToMat(axis * angle)
	Matrix3 m;
};
static void unit_axis(int a, double n[3]) {
	double l = std::sqrt(AXES[a][0] * AXES[a][0] + AXES[a][1] * AXES[a][1] + AXES[a][2] * AXES[a][2]);
	for (int i = 0; i < 3; i++) n[i] = AXES[a][i] / l;
}
static Vector3 rotvec(int axis, int ang) {
	double n[3];
	unit_axis(axis, n);
	return Vector3((float) (n[0] * ANGLES[ang]), (float) (n[1] * ANGLES[ang]), (float) (n[2] * ANGLES[ang]));
}
static Matrix3 rodrigues(int axis, int ang) {
	double n[3];
	unit_axis(axis, n);
	double c = std::cos(ANGLES[ang]), s = std::sin(ANGLES[ang]), k = 1 - c;
	double r[3][3] = {{c + k * n[0] * n[0], k * n[0] * n[1] - s * n[2], k * n[0] * n[2] + s * n[1]},
					  {k * n[1] * n[0] + s * n[2], c + k * n[1] * n[1], k * n[1] * n[2] - s * n[0]},
					  {k * n[2] * n[0] - s * n[1], k * n[2] * n[1] + s * n[0], c + k * n[2] * n[2]}};
	Matrix3 m;
	for (int i = 0; i < 3; i++)
		for (int j = 0; j < 3; j++) m[i][j] = (float) r[i][j];
	return m;
}
static Rot make_rot(int axis, int ang, int src) {
	Rot r;
	r.axis = axis;
	r.ang = ang;
	r.src = src;
	r.m = src == 0 ? rodrigues(axis, ang) : RotVecToMat(rotvec(axis, ang));
	return r;
}
static uint64_t hash_m3(const Matrix3& m, uint64_t h = 1469598103934665603ull) {
	for (int i = 0; i < 3; i++)
		for (int j = 0; j < 3; j++) { float f = m[i][j]; if (f == 0.0f) f = 0.0f; /* -0 == +0 */ h = vf::fnv(&f, sizeof f, h); }
	return h;
}
static std::vector<Rot> g_rots;  // distinct (by value) rotations of the lattice, src 0
static std::vector<Rot> g_rots1; // distinct rotations produced by RotVecToMat that are not already in g_rots
static bool is_identity_rot(const Rot& r) { return r.ang == 0; }

struct TId { int ri, si, ti; bool src1; }; // indices into g_rots / g_rots1, SCALES, TRANS
static const Rot& rot_of(const TId& t) { return t.src1 ? g_rots1[(size_t) t.ri] : g_rots[(size_t) t.ri]; }
static MatTransform xf(const TId& t) {
	MatTransform T;
	T.rotation = rot_of(t).m;
	T.scale = SCALES[t.si];
	T.translation = Vector3(TRANS[t.ti][0], TRANS[t.ti][1], TRANS[t.ti][2]);
	return T;
}
static bool is_identity(const TId& t) { return is_identity_rot(rot_of(t)) && t.si == 1 && t.ti == 0; }
static std::string tjson(const TId& t) {
	const Rot& r = rot_of(t);
	return vf::strf("{\"axis\":%d,\"ang\":%d,\"src\":%d,\"scale\":%d,\"trans\":%d}", r.axis, r.ang, r.src, t.si, t.ti);
}
static std::string tdesc(const TId& t) {
	const Rot& r = rot_of(t);
	return vf::strf("[rotation %s about (%g,%g,%g)%s, scale %g, translation (%g,%g,%g)]", ANGLE_LABEL[r.ang], AXES[r.axis][0], AXES[r.axis][1], AXES[r.axis][2],
					r.src ? " via RotVecToMat" : "", SCALES[t.si], TRANS[t.ti][0], TRANS[t.ti][1], TRANS[t.ti][2]);
}
static int find_rot(const std::vector<Rot>& v, const Matrix3& m) {
	for (size_t i = 0; i < v.size(); i++) if (hash_m3(v[i].m) == hash_m3(m) && v[i].m == m) return (int) i;
	return -1;
}
static void build_lattice() {
	for (int a = 0; a < NAXES; a++)
		for (int g = 0; g < NANGLES; g++) {
			Rot r = make_rot(a, g, 0);
			if (find_rot(g_rots, r.m) < 0) g_rots.push_back(r);
		}
	for (int a = 0; a < NAXES; a++)
		for (int g = 0; g < NANGLES; g++) {
			Rot r = make_rot(a, g, 1);
			if (find_rot(g_rots, r.m) < 0 && find_rot(g_rots1, r.m) < 0) g_rots1.push_back(r);
		}
}
static TId tid_from_json(const J& j) {
	Rot want = make_rot((int) j["axis"].i64(), (int) j["ang"].i64(), (int) j["src"].i64());
	TId t;
	t.src1 = want.src == 1;
	t.ri = find_rot(t.src1 ? g_rots1 : g_rots, want.m);
	if (t.ri < 0 && t.src1) { t.src1 = false; t.ri = find_rot(g_rots, want.m); }
	if (t.ri < 0) vf::fatal("replay: rotation not in the lattice");
	t.si = (int) j["scale"].i64();
	t.ti = (int) j["trans"].i64();
	if (t.si < 0 || t.si > 2 || t.ti < 0 || t.ti > 3) vf::fatal("replay: bad scale/translation index");
	return t;
}

// ---------------------------------------------------------------- case context
struct Ctx {
	Stats* st = nullptr;
	std::string body;
	long tick = 0;
	bool stop = false;
	std::map<std::string, double> worst; // check -> largest error / tolerance
	std::map<std::string, double> worst_abs;
	struct Deferred { double err; std::string msg, body; long count; };
	std::map<std::string, Deferred> deferred; // key -> worst failing case of the unit (reported when the unit ends)
};
static Ctx G;
static vf::Args A;

static bool begin_case(const std::string& body) {
	if ((++G.tick & 1023) == 0 && vf::deadline_passed()) G.stop = true;
	if (G.stop) return false;
	G.body = body;
	vf::set_inflight(body);
	return true;
}
static void viol(const std::string& key, const std::string& msg) { G.st->violation(key, msg, J::parse(G.body)); }
// keeps only the case with the largest error per key, so that the reported example does not depend on worker scheduling
static void viol_worst(const std::string& key, double err, const std::string& msg) {
	auto it = G.deferred.find(key);
	if (it == G.deferred.end()) G.deferred[key] = Ctx::Deferred{err, msg, G.body, 1};
	else {
		it->second.count++;
		if (err > it->second.err || std::isnan(err)) { it->second.err = err; it->second.msg = msg; it->second.body = G.body; }
	}
}
// records the error and tells whether it is within tolerance (NaN is not)
static bool within(const char* check, double err, double tol) {
	double ratio = tol > 0 ? err / tol : (err == 0 ? 0 : 1e30);
	if (!(ratio <= G.worst[check])) G.worst[check] = std::isnan(ratio) ? 1e30 : ratio;
	if (!(err <= G.worst_abs[check])) G.worst_abs[check] = std::isnan(err) ? 1e30 : err;
	return err <= tol;
}

static double vlen(const Vector3& v) { return std::sqrt((double) v.x * v.x + (double) v.y * v.y + (double) v.z * v.z); }
static double vdist(const Vector3& a, const Vector3& b) {
	double dx = (double) a.x - b.x, dy = (double) a.y - b.y, dz = (double) a.z - b.z;
	return std::sqrt(dx * dx + dy * dy + dz * dz);
}
static std::string vs(const Vector3& v) { return vf::strf("(%.9g,%.9g,%.9g)", v.x, v.y, v.z); }
static std::string ms(const Matrix3& m) { return "[" + vs(m[0]) + " " + vs(m[1]) + " " + vs(m[2]) + "]"; }
static double max_entry_diff(const Matrix3& a, const Matrix3& b) {
	double e = 0;
	for (int i = 0; i < 3; i++)
		for (int j = 0; j < 3; j++) {
			double d = std::fabs((double) a[i][j] - (double) b[i][j]);
			if (!(d <= e)) e = d; // NaN propagates
		}
	return e;
}
static const char* angle_key(const Rot& r) { return r.ang == ANG_PI ? "half-turn" : ANGLE_LABEL[r.ang]; }

// product A*B in double against the identity; error bound per entry: REL * (|A||B|)_ij
template<int N> static bool product_is_identity(const char* check, const double a[N][N], const double b[N][N], std::string& why) {
	bool ok = true;
	for (int i = 0; i < N; i++)
		for (int j = 0; j < N; j++) {
			double s = 0, mag = 0;
			for (int k = 0; k < N; k++) { s += a[i][k] * b[k][j]; mag += std::fabs(a[i][k] * b[k][j]); }
			double err = std::fabs(s - (i == j ? 1.0 : 0.0));
			if (!within(check, err, REL * std::max(mag, 1.0))) {
				if (ok) why = vf::strf("entry [%d][%d] of the product is %.9g (error %.3g, tolerance %.3g)", i, j, s, err, REL * std::max(mag, 1.0));
				ok = false;
			}
		}
	return ok;
}
static void to_d3(const Matrix3& m, double d[3][3]) { for (int i = 0; i < 3; i++) for (int j = 0; j < 3; j++) d[i][j] = m[i][j]; }
static void to_d4(const Matrix4& m, double d[4][4]) { for (int i = 0; i < 4; i++) for (int j = 0; j < 4; j++) d[i][j] = m[i * 4 + j]; }

// ---------------------------------------------------------------- checks on one transform
static void check_single(const TId& id) {
	if (!begin_case("{\"check\":\"single\",\"t\":" + tjson(id) + "}")) return;
	Stats& st = *G.st;
	st.add("evaluations");
	st.add("cases_single");
	if (!is_identity(id)) st.add("distinct_nontrivial");
	const MatTransform T = xf(id);
	const double tl = vlen(T.translation), s = T.scale;
	// (1) T o T^-1 = T^-1 o T = identity
	const MatTransform Ti = T.InverseTransform();
	for (int order = 0; order < 2; order++) {
		MatTransform C = order == 0 ? T.ComposeTransforms(Ti) : Ti.ComposeTransforms(T);
		const char* name = order == 0 ? "T o T^-1" : "T^-1 o T";
		st.add("identities_checked");
		if (!within("inverse.rotation", max_entry_diff(C.rotation, Matrix3()), REL))
			viol("InverseTransform:compose-not-identity:rotation", std::string(name) + " for T = " + tdesc(id) + " has rotation " + ms(C.rotation));
		if (!within("inverse.scale", std::fabs((double) C.scale - 1.0), REL))
			viol("InverseTransform:compose-not-identity:scale", std::string(name) + " for T = " + tdesc(id) + vf::strf(" has scale %.9g", C.scale));
		// the translation is a difference of two vectors of length |t| (order 0) or |t|/s (order 1)
		double mag = order == 0 ? tl : tl / s;
		if (!within("inverse.translation", vlen(C.translation), REL * std::max(mag, 1e-30) + 1e-30))
			viol("InverseTransform:compose-not-identity:translation", std::string(name) + " for T = " + tdesc(id) + " has translation " + vs(C.translation));
	}
	const Matrix4 M = T.ToMatrix();
	for (int p = 0; p < 6; p++) {
		Vector3 P(POINTS[p][0], POINTS[p][1], POINTS[p][2]);
		double pl = vlen(P);
		// (2) ToMatrix agrees with ApplyTransform
		Vector3 q = T.ApplyTransform(P), qm = M * P;
		st.add("identities_checked");
		st.add("point_comparisons");
		if (!within("ToMatrix", vdist(q, qm), REL * (tl + s * pl) + 1e-30))
			viol("ToMatrix:differs-from-ApplyTransform", "T = " + tdesc(id) + ", p = " + vs(P) + ": ToMatrix()*p = " + vs(qm) + ", ApplyTransform(p) = " + vs(q));
		// (3) T^-1(T(p)) = p and T(T^-1(p)) = p
		Vector3 back = Ti.ApplyTransform(q);
		st.add("point_comparisons");
		if (!within("inverse.points", vdist(back, P), REL * (pl + 2 * tl / s) + 1e-30))
			viol("InverseTransform:point-not-restored", "T = " + tdesc(id) + ", p = " + vs(P) + ": T^-1(T(p)) = " + vs(back));
		Vector3 back2 = T.ApplyTransform(Ti.ApplyTransform(P));
		st.add("point_comparisons");
		if (!within("inverse.points", vdist(back2, P), REL * (pl + 2 * tl) + 1e-30))
			viol("InverseTransform:point-not-restored", "T = " + tdesc(id) + ", p = " + vs(P) + ": T(T^-1(p)) = " + vs(back2));
	}
	// (4) Matrix4 inverse of the full matrix
	{
		Matrix4 Mc = M, Mi = Mc.Inverse();
		double a[4][4], b[4][4];
		to_d4(M, a);
		to_d4(Mi, b);
		std::string why;
		st.add("identities_checked", 2);
		if (!product_is_identity<4>("Matrix4.inverse", a, b, why)) viol("Matrix4::Inverse:product-not-identity", "M = ToMatrix of " + tdesc(id) + ": M * M^-1: " + why);
		else if (!product_is_identity<4>("Matrix4.inverse", b, a, why)) viol("Matrix4::Inverse:product-not-identity", "M = ToMatrix of " + tdesc(id) + ": M^-1 * M: " + why);
	}
	// (5) Matrix4 inverse of a general (non-affine) matrix: ToMatrix with another bottom row.  Small translations only, so
	//     that the matrix stays well-conditioned (the inverse is compared through the product, in double, with a bound
	//     relative to the magnitudes of the summed terms, as above).
	if (tl <= 16.0) {
		static const float ROWS[3][4] = {{0.25f, 0.0f, 0.0f, 1.0f}, {0.0f, -0.5f, 0.125f, 1.0f}, {0.5f, 0.25f, -0.25f, 2.0f}};
		for (int r = 0; r < 3; r++) {
			Matrix4 Mg = M;
			for (int k = 0; k < 4; k++) Mg[12 + k] = ROWS[r][k];
			double a[4][4];
			to_d4(Mg, a);
			// leave out the rare row that makes the matrix (nearly) singular: |det| computed in double
			double det = 0;
			{
				auto m3 = [&](int r0, int r1, int r2, int c0, int c1, int c2) {
					return a[r0][c0] * (a[r1][c1] * a[r2][c2] - a[r1][c2] * a[r2][c1]) - a[r0][c1] * (a[r1][c0] * a[r2][c2] - a[r1][c2] * a[r2][c0])
						   + a[r0][c2] * (a[r1][c0] * a[r2][c1] - a[r1][c1] * a[r2][c0]);
				};
				det = a[0][0] * m3(1, 2, 3, 1, 2, 3) - a[0][1] * m3(1, 2, 3, 0, 2, 3) + a[0][2] * m3(1, 2, 3, 0, 1, 3) - a[0][3] * m3(1, 2, 3, 0, 1, 2);
			}
			double s3 = s * s * s;
			if (std::fabs(det) < 0.05 * s3) { st.add("general_matrices_left_out_near_singular"); continue; }
			Matrix4 Mi = Mg.Inverse();
			double b[4][4];
			to_d4(Mi, b);
			std::string why;
			st.add("identities_checked", 2);
			st.add("general_matrix_inverses_checked");
			if (!product_is_identity<4>("Matrix4.inverse.general", a, b, why))
				viol("Matrix4::Inverse:general-matrix:product-not-identity", vf::strf("M = ToMatrix of %s with bottom row (%g,%g,%g,%g): M * M^-1: %s", tdesc(id).c_str(), ROWS[r][0], ROWS[r][1], ROWS[r][2], ROWS[r][3], why.c_str()));
			else if (!product_is_identity<4>("Matrix4.inverse.general", b, a, why))
				viol("Matrix4::Inverse:general-matrix:product-not-identity", vf::strf("M = ToMatrix of %s with bottom row (%g,%g,%g,%g): M^-1 * M: %s", tdesc(id).c_str(), ROWS[r][0], ROWS[r][1], ROWS[r][2], ROWS[r][3], why.c_str()));
		}
	}
}

// ---------------------------------------------------------------- checks on one rotation (and rotation x diagonal scale)
static void check_rotvec(int axis, int ang) {
	if (!begin_case(vf::strf("{\"check\":\"rotvec\",\"axis\":%d,\"ang\":%d}", axis, ang))) return;
	Stats& st = *G.st;
	st.add("evaluations");
	st.add("cases_rotvec");
	if (ang != 0) st.add("distinct_nontrivial");
	const Vector3 v = rotvec(axis, ang);
	const Matrix3 M = RotVecToMat(v);
	const std::string where = vf::strf("v = %s (angle %s about (%g,%g,%g))", vs(v).c_str(), ANGLE_LABEL[ang], AXES[axis][0], AXES[axis][1], AXES[axis][2]);
	const std::string ak = std::string("angle=") + ANGLE_LABEL[ang];
	// orthonormal rows, determinant 1
	double d[3][3], t[3][3];
	to_d3(M, d);
	for (int i = 0; i < 3; i++) for (int j = 0; j < 3; j++) t[i][j] = d[j][i];
	std::string why;
	st.add("identities_checked", 2);
	if (!product_is_identity<3>("RotVecToMat.orthonormal", d, t, why)) viol("RotVecToMat:not-orthonormal:" + ak, where + ": M * M^T: " + why + ", M = " + ms(M));
	double det = d[0][0] * (d[1][1] * d[2][2] - d[1][2] * d[2][1]) - d[0][1] * (d[1][0] * d[2][2] - d[1][2] * d[2][0]) + d[0][2] * (d[1][0] * d[2][1] - d[1][1] * d[2][0]);
	if (!within("RotVecToMat.det", std::fabs(det - 1), REL)) viol("RotVecToMat:determinant:" + ak, where + vf::strf(": det = %.9g", det));
	if (!within("Matrix3.Determinant", std::fabs((double) M.Determinant() - det), REL)) viol("Matrix3::Determinant:differs:" + ak, where + vf::strf(": Determinant() = %.9g, expected %.9g", M.Determinant(), det));
	// vector -> matrix -> vector, below a half turn
	if (ANGLES[ang] <= PI_D - HALF_TURN_MARGIN + 1e-12) {
		Vector3 back = RotMatToVec(M);
		double e = std::max(std::fabs((double) back.x - v.x), std::max(std::fabs((double) back.y - v.y), std::fabs((double) back.z - v.z)));
		if (std::isnan(back.x) || std::isnan(back.y) || std::isnan(back.z)) e = NAN;
		st.add("identities_checked");
		if (!within("RotMatToVec(RotVecToMat(v))", e, ROTVEC_ABS)) viol("RotMatToVec:vector-round-trip:" + ak, where + ": RotMatToVec(RotVecToMat(v)) = " + vs(back));
	}
	else st.add("round_trips_not_required_at_or_beyond_half_turn");
}

static void check_rot(const Rot& r) {
	if (!begin_case(vf::strf("{\"check\":\"rot\",\"axis\":%d,\"ang\":%d,\"src\":%d}", r.axis, r.ang, r.src))) return;
	Stats& st = *G.st;
	st.add("evaluations");
	st.add("cases_rot");
	if (!is_identity_rot(r)) st.add("distinct_nontrivial");
	const std::string where = vf::strf("R = rotation %s about (%g,%g,%g)%s", ANGLE_LABEL[r.ang], AXES[r.axis][0], AXES[r.axis][1], AXES[r.axis][2], r.src ? " via RotVecToMat" : "");
	// matrix -> vector -> matrix; R turns by min(a, 2pi - a), which is below the half turn for every lattice angle but pi
	double eff = std::min(ANGLES[r.ang], 2 * PI_D - ANGLES[r.ang]);
	if (eff <= PI_D - HALF_TURN_MARGIN + 1e-12) {
		Vector3 v = RotMatToVec(r.m);
		Matrix3 back = RotVecToMat(v);
		st.add("identities_checked");
		if (!within("RotVecToMat(RotMatToVec(R))", max_entry_diff(back, r.m), ROTVEC_ABS))
			viol(std::string("RotMatToVec:matrix-round-trip:angle=") + ANGLE_LABEL[r.ang], where + ": RotMatToVec(R) = " + vs(v) + ", RotVecToMat of that = " + ms(back) + ", R = " + ms(r.m));
		double vl = vlen(v);
		if (!within("RotMatToVec.angle", std::fabs(vl - eff), ROTVEC_ABS)) viol(std::string("RotMatToVec:angle:angle=") + ANGLE_LABEL[r.ang], where + vf::strf(": |RotMatToVec(R)| = %.9g, expected %.9g", vl, eff));
	}
	else st.add("round_trips_not_required_at_or_beyond_half_turn");
	// M = f * R for uniform factors at the ends of the scale range: well-conditioned (condition number 1) although the
	// determinant f^3 is tiny or huge
	for (float f : {0.01f, 0.04f, 0.1f, 30.0f, 100.0f}) {
		Matrix3 D(f, 0, 0, 0, f, 0, 0, 0, f);
		Matrix3 M = r.m * D, Mi;
		const std::string mw = where + vf::strf(", M = %g * R", f);
		st.add("identities_checked", 2);
		st.add("matrices_inverted");
		if (!M.Invert(&Mi)) { viol("Matrix3::Invert:reports-singular", mw); continue; }
		double a[3][3], b[3][3];
		to_d3(M, a);
		to_d3(Mi, b);
		std::string why;
		if (!product_is_identity<3>("Matrix3.invert", a, b, why)) viol("Matrix3::Invert:product-not-identity", mw + ": M * M^-1: " + why);
		else if (!product_is_identity<3>("Matrix3.invert", b, a, why)) viol("Matrix3::Invert:product-not-identity", mw + ": M^-1 * M: " + why);
		if (!within("Matrix3.inverse", max_entry_diff(M.Inverse(), Mi), 0)) viol("Matrix3::Inverse:differs-from-Invert", mw);
	}
	// the same uniform factors as the scale of a transform: Matrix4::Inverse of its matrix (determinant f^3)
	for (float f : {0.01f, 0.04f, 0.1f, 30.0f, 100.0f}) {
		MatTransform T;
		T.rotation = r.m;
		T.scale = f;
		T.translation = Vector3(1.0f, -2.0f, 0.5f);
		Matrix4 M = T.ToMatrix(), Mc = M, Mi = Mc.Inverse();
		const std::string mw = where + vf::strf(", M = ToMatrix(scale %g, translation (1,-2,0.5))", f);
		st.add("identities_checked", 2);
		st.add("matrices_inverted");
		double a[4][4], b[4][4];
		to_d4(M, a);
		to_d4(Mi, b);
		std::string why;
		if (!product_is_identity<4>("Matrix4.inverse.scaled", a, b, why)) viol("Matrix4::Inverse:scaled-transform:product-not-identity", mw + ": M * M^-1: " + why);
		else if (!product_is_identity<4>("Matrix4.inverse.scaled", b, a, why)) viol("Matrix4::Inverse:scaled-transform:product-not-identity", mw + ": M^-1 * M: " + why);
	}
	// M = R * diag(sx, sy, sz): Matrix3::Invert, and Matrix4::Inverse of [M | t]
	for (int sx = 0; sx < 3; sx++)
		for (int sy = 0; sy < 3; sy++)
			for (int sz = 0; sz < 3; sz++) {
				Matrix3 D(SCALES[sx], 0, 0, 0, SCALES[sy], 0, 0, 0, SCALES[sz]);
				Matrix3 M = r.m * D, Mi;
				const std::string mw = where + vf::strf(", M = R * diag(%g,%g,%g)", SCALES[sx], SCALES[sy], SCALES[sz]);
				st.add("identities_checked", 2);
				st.add("matrices_inverted");
				if (!M.Invert(&Mi)) { viol("Matrix3::Invert:reports-singular", mw); continue; }
				double a[3][3], b[3][3];
				to_d3(M, a);
				to_d3(Mi, b);
				std::string why;
				if (!product_is_identity<3>("Matrix3.invert", a, b, why)) viol("Matrix3::Invert:product-not-identity", mw + ": M * M^-1: " + why);
				else if (!product_is_identity<3>("Matrix3.invert", b, a, why)) viol("Matrix3::Invert:product-not-identity", mw + ": M^-1 * M: " + why);
				if (!within("Matrix3.inverse", max_entry_diff(M.Inverse(), Mi), 0)) viol("Matrix3::Inverse:differs-from-Invert", mw);
				for (int ti = 0; ti < 4; ti++) {
					Matrix4 F;
					for (int i = 0; i < 3; i++) { F[i * 4 + 0] = M[i][0]; F[i * 4 + 1] = M[i][1]; F[i * 4 + 2] = M[i][2]; F[i * 4 + 3] = TRANS[ti][i]; }
					Matrix4 Fi = F.Inverse();
					double a4[4][4], b4[4][4];
					to_d4(F, a4);
					to_d4(Fi, b4);
					st.add("identities_checked", 2);
					st.add("matrices_inverted");
					const std::string fw = mw + vf::strf(", translation (%g,%g,%g)", TRANS[ti][0], TRANS[ti][1], TRANS[ti][2]);
					if (!product_is_identity<4>("Matrix4.inverse", a4, b4, why)) viol("Matrix4::Inverse:product-not-identity", fw + ": F * F^-1: " + why);
					else if (!product_is_identity<4>("Matrix4.inverse", b4, a4, why)) viol("Matrix4::Inverse:product-not-identity", fw + ": F^-1 * F: " + why);
				}
			}
}

// ---------------------------------------------------------------- averages and medians of n identical transforms
static bool same_rotation(const char* check, const Matrix3& got, const Matrix3& want) { return within(check, max_entry_diff(got, want), REL); }

static void check_avg(const TId& id, int n) {
	if (!begin_case("{\"check\":\"avg\",\"t\":" + tjson(id) + ",\"n\":" + std::to_string(n) + "}")) return;
	Stats& st = *G.st;
	st.add("evaluations");
	st.add("cases_avg");
	if (!is_identity(id)) st.add("distinct_nontrivial");
	const MatTransform T = xf(id);
	const Rot& r = rot_of(id);
	const std::string ak = r.ang == ANG_PI ? std::string("half-turn") : std::string("angle=") + ANGLE_LABEL[r.ang];
	const std::string where = std::to_string(n) + " copies of " + tdesc(id);
	std::vector<MatTransform> ts((size_t) n, T);
	std::vector<Matrix3> rs((size_t) n, T.rotation);
	// rotation-level functions (once per rotation: for the unit scale / zero translation member)
	bool avgRotOk = true, medRotOk = true;
	{
		Matrix3 a = CalcAverageRotation(rs), m = CalcMedianRotation(rs);
		avgRotOk = same_rotation("CalcAverageRotation", a, T.rotation);
		medRotOk = same_rotation("CalcMedianRotation", m, T.rotation);
		if (id.si == 1 && id.ti == 0) {
			st.add("identities_checked", 2);
			if (!avgRotOk)
				viol_worst("CalcAverageRotation:" + ak, max_entry_diff(a, T.rotation), "CalcAverageRotation of " + where + vf::strf(" is off by %.3g in a matrix entry: ", max_entry_diff(a, T.rotation)) + ms(a) + " instead of " + ms(T.rotation));
			if (!medRotOk)
				viol_worst("CalcMedianRotation:" + ak, max_entry_diff(m, T.rotation), "CalcMedianRotation of " + where + vf::strf(" is off by %.3g in a matrix entry: ", max_entry_diff(m, T.rotation)) + ms(m) + " instead of " + ms(T.rotation));
		}
	}
	const double tl = vlen(T.translation);
	for (int kind = 0; kind < 2; kind++) {
		const char* fn = kind == 0 ? "CalcAverageMatTransform" : "CalcMedianMatTransform";
		MatTransform R = kind == 0 ? CalcAverageMatTransform(ts) : CalcMedianMatTransform(ts);
		st.add("identities_checked");
		// a wrong rotation that the rotation-level function already shows is that function's finding, not a second one
		bool rotOk = same_rotation(fn, R.rotation, T.rotation);
		if (!rotOk && (kind == 0 ? avgRotOk : medRotOk)) viol(std::string(fn) + ":rotation:" + ak, std::string(fn) + " of " + where + " has rotation " + ms(R.rotation));
		else if (!rotOk && !(id.si == 1 && id.ti == 0)) st.add("wrong_rotations_attributed_to_rotation_level_function");
		if (!within("avg.translation", vdist(R.translation, T.translation), REL * std::max(tl, 1e-30) + 1e-30))
			viol(std::string(fn) + ":translation", std::string(fn) + " of " + where + " has translation " + vs(R.translation));
		if (!within("avg.scale", std::fabs((double) R.scale - T.scale), REL * T.scale)) viol(std::string(fn) + ":scale", std::string(fn) + " of " + where + vf::strf(" has scale %.9g", R.scale));
	}
}

// ---------------------------------------------------------------- composition law on ordered pairs
static void check_pair(const TId& i1, const TId& i2) {
	if (!begin_case("{\"check\":\"pair\",\"t1\":" + tjson(i1) + ",\"t2\":" + tjson(i2) + "}")) return;
	Stats& st = *G.st;
	st.add("evaluations");
	st.add("cases_pair");
	if (!(is_identity(i1) && is_identity(i2))) st.add("distinct_nontrivial");
	const MatTransform T1 = xf(i1), T2 = xf(i2);
	const MatTransform C = T1.ComposeTransforms(T2);
	const double mag0 = vlen(T1.translation) + (double) T1.scale * vlen(T2.translation);
	for (int p = 0; p < 6; p++) {
		Vector3 P(POINTS[p][0], POINTS[p][1], POINTS[p][2]);
		Vector3 lhs = C.ApplyTransform(P), rhs = T1.ApplyTransform(T2.ApplyTransform(P));
		st.add("point_comparisons");
		if (!within("compose", vdist(lhs, rhs), REL * (mag0 + (double) T1.scale * T2.scale * vlen(P)) + 1e-30)) {
			viol("ComposeTransforms:differs-from-sequential-application", "T1 = " + tdesc(i1) + ", T2 = " + tdesc(i2) + ", p = " + vs(P) + ": (T1 o T2)(p) = " + vs(lhs) + ", T1(T2(p)) = " + vs(rhs));
			break;
		}
	}
}

// ---------------------------------------------------------------- bounding spheres
static void check_sphere_of(const std::vector<Vector3>& pts, const BoundingSphere& b, const std::string& keyPrefix, const std::string& where) {
	Stats& st = *G.st;
	if (pts.empty()) return;
	double lo[3] = {1e300, 1e300, 1e300}, hi[3] = {-1e300, -1e300, -1e300};
	for (auto& p : pts)
		for (int i = 0; i < 3; i++) { lo[i] = std::min(lo[i], (double) p[i]); hi[i] = std::max(hi[i], (double) p[i]); }
	double half = 0.5 * std::sqrt((hi[0] - lo[0]) * (hi[0] - lo[0]) + (hi[1] - lo[1]) * (hi[1] - lo[1]) + (hi[2] - lo[2]) * (hi[2] - lo[2]));
	double r = b.radius;
	st.add("identities_checked", 2);
	if (!(r >= 0) || std::isnan(b.center.x) || std::isnan(b.center.y) || std::isnan(b.center.z)) {
		viol(keyPrefix + ":not-finite", where + vf::strf(": centre %s radius %.9g", vs(b.center).c_str(), r));
		return;
	}
	double worst = 0;
	size_t wi = 0;
	for (size_t i = 0; i < pts.size(); i++) {
		double d = vdist(b.center, pts[i]);
		if (d > worst) { worst = d; wi = i; }
	}
	st.add("point_comparisons", (ll) pts.size());
	if (!within("sphere.contains", std::max(0.0, worst - r), r * SPHERE_REL + SPHERE_ABS))
		viol(keyPrefix + ":point-outside", where + vf::strf(": point #%zu %s lies %.9g from the centre %s, radius %.9g", wi, vs(pts[wi]).c_str(), worst, vs(b.center).c_str(), r));
	if (!within("sphere.half-diagonal", std::max(0.0, r - half), half * SPHERE_REL + SPHERE_ABS))
		viol(keyPrefix + ":larger-than-half-diagonal", where + vf::strf(": radius %.9g exceeds half the bounding-box diagonal %.9g", r, half));
}
static void check_sphere(const std::vector<int>& idx) {
	std::string js = "[";
	for (size_t i = 0; i < idx.size(); i++) js += (i ? "," : "") + std::to_string(idx[i]);
	js += "]";
	if (!begin_case("{\"check\":\"sphere\",\"points\":" + js + "}")) return;
	Stats& st = *G.st;
	st.add("evaluations");
	st.add("cases_sphere");
	if (!idx.empty()) st.add("distinct_nontrivial");
	std::vector<Vector3> pts;
	for (int i : idx) pts.push_back(Vector3(SPH[i][0], SPH[i][1], SPH[i][2]));
	BoundingSphere b(pts);
	if (idx.empty()) {
		if (!(b.radius == 0)) viol("BoundingSphere:empty-set", "bounding sphere of no point has radius " + std::to_string(b.radius));
		return;
	}
	check_sphere_of(pts, b, "BoundingSphere", "points " + js + " of the lattice");
}

static std::vector<std::string> nif_files() {
	std::vector<std::string> out;
	std::string dir = A.repo + "/tests/input";
	if (DIR* d = opendir(dir.c_str())) {
		while (dirent* e = readdir(d)) {
			std::string n = e->d_name;
			if (n.size() > 4 && n.substr(n.size() - 4) == ".nif") out.push_back(n);
		}
		closedir(d);
	}
	std::sort(out.begin(), out.end());
	return out;
}
static void check_nif(const std::string& file) {
	if (!begin_case("{\"check\":\"nif\",\"file\":\"" + file + "\"}")) return;
	Stats& st = *G.st;
	NifFile nif;
	if (nif.Load(A.repo + "/tests/input/" + file) != 0) { st.add("nif_files_not_loaded"); st.note("could not load " + file); return; }
	st.add("nif_files");
	size_t k = 0;
	for (NiShape* shape : nif.GetShapes()) {
		std::vector<Vector3> verts;
		nif.GetVertsForShape(shape, verts);
		if (verts.empty()) { st.add("shapes_without_vertices"); continue; }
		st.add("evaluations");
		st.add("cases_shape");
		st.add("distinct_nontrivial");
		shape->UpdateBounds();
		BoundingSphere b = shape->GetBounds();
		check_sphere_of(verts, b, std::string("UpdateBounds:") + shape->GetBlockName(), file + " shape #" + std::to_string(k) + " '" + shape->name.get() + "' (" + std::to_string(verts.size()) + " vertices)");
		BoundingSphere direct(verts);
		if (!(direct.radius == b.radius && direct.center == b.center)) st.add("updatebounds_differs_from_direct_sphere");
		k++;
	}
}

// small meshes built through the API (SM): UpdateBounds of a shape created from lattice points, per game version
static const char* SM_VERSIONS[6] = {"OB", "FO3", "SK", "SSE", "FO4", "FO76"};
static NiVersion sm_version(int v) {
	switch (v) {
		case 0: return NiVersion::getOB();
		case 1: return NiVersion::getFO3();
		case 2: return NiVersion::getSK();
		case 3: return NiVersion::getSSE();
		case 4: return NiVersion::getFO4();
		default: return NiVersion::getFO76();
	}
}
static void check_sm(int ver, const std::vector<int>& idx) {
	std::string js = "[";
	for (size_t i = 0; i < idx.size(); i++) js += (i ? "," : "") + std::to_string(idx[i]);
	js += "]";
	if (!begin_case(std::string("{\"check\":\"sm\",\"version\":\"") + SM_VERSIONS[ver] + "\",\"points\":" + js + "}")) return;
	Stats& st = *G.st;
	st.add("evaluations");
	st.add("cases_sm");
	st.add("distinct_nontrivial");
	std::vector<Vector3> pts;
	for (int i : idx) pts.push_back(Vector3(SPH[i][0], SPH[i][1], SPH[i][2]));
	std::vector<Triangle> tris{Triangle(0, 1, 2)};
	if (pts.size() > 3) tris.push_back(Triangle(1, 2, 3));
	NifFile nif;
	nif.Create(sm_version(ver));
	NiShape* shape = nif.CreateShapeFromData("S", &pts, &tris, nullptr);
	if (!shape) { st.add("sm_shapes_not_created"); return; }
	std::vector<Vector3> verts;
	nif.GetVertsForShape(shape, verts);
	if (verts.size() != pts.size()) { st.add("sm_shapes_with_other_vertex_count"); if (verts.empty()) return; }
	shape->UpdateBounds();
	check_sphere_of(verts, shape->GetBounds(), std::string("UpdateBounds:") + shape->GetBlockName(), std::string("shape created in ") + SM_VERSIONS[ver] + " from lattice points " + js);
	// "recomputed shape bounds contain all vertices" also after the vertices were edited through the API
	// (the getters above have filled whatever caches the shape keeps): every edit kind, then UpdateBounds
	static const char* EDITS[] = {"SetVertsForShape", "MoveVertex", "OffsetShape", "ScaleShape", "RotateShape"};
	for (int e = 0; e < 5; e++) {
		std::vector<Vector3> cur;
		nif.GetVertsForShape(shape, cur);
		if (cur.empty()) break;
		switch (e) {
			case 0: { std::vector<Vector3> moved = cur; for (auto& p : moved) p = Vector3(p.x * 3.0f + 50.0f, p.y - 120.0f, p.z * 0.5f + 7.0f); nif.SetVertsForShape(shape, moved); break; }
			case 1: nif.MoveVertex(shape, Vector3(cur[0].x + 900.0f, cur[0].y, cur[0].z - 400.0f), 0); break;
			case 2: nif.OffsetShape(shape, Vector3(-300.0f, 40.0f, 1000.0f)); break;
			case 3: nif.ScaleShape(shape, Vector3(4.0f, 0.25f, 2.0f)); break;
			case 4: nif.RotateShape(shape, Vector3(30.0f, 60.0f, 90.0f)); break;
		}
		std::vector<Vector3> now;
		nif.GetVertsForShape(shape, now);
		shape->UpdateBounds();
		st.add("bounds_after_edit_checked");
		check_sphere_of(now, shape->GetBounds(), std::string("UpdateBounds-after-") + EDITS[e] + ":" + shape->GetBlockName(),
						std::string("shape created in ") + SM_VERSIONS[ver] + " from lattice points " + js + ", bounds recomputed after " + EDITS[e]);
	}
}

// ---------------------------------------------------------------- units
struct Unit { int kind; int a; };
enum { K_PAIR, K_SINGLE, K_ROT, K_AVG, K_SPHERE, K_NIF, K_SM, K_REPLAY };
static const char* KIND[] = {"pair", "single", "rot", "avg", "sphere", "nif", "sm", "replay"};

template<class F> static void for_transforms(int ri, bool src1, F&& f) {
	for (int si = 0; si < 3; si++)
		for (int ti = 0; ti < 4; ti++) f(TId{ri, si, ti, src1});
}

static void run_replay(const J& c) {
	std::string k = c["check"].str();
	if (k == "single") check_single(tid_from_json(c["t"]));
	else if (k == "pair") check_pair(tid_from_json(c["t1"]), tid_from_json(c["t2"]));
	else if (k == "avg") check_avg(tid_from_json(c["t"]), (int) c["n"].i64());
	else if (k == "rotvec") check_rotvec((int) c["axis"].i64(), (int) c["ang"].i64());
	else if (k == "rot") {
		check_rot(make_rot((int) c["axis"].i64(), (int) c["ang"].i64(), (int) c["src"].i64()));
	}
	else if (k == "sphere") {
		std::vector<int> idx;
		for (auto& e : c["points"].a) { if (e.i64() < 0 || e.i64() > 8) vf::fatal("replay: bad point index"); idx.push_back((int) e.i64()); }
		check_sphere(idx);
	}
	else if (k == "nif") check_nif(c["file"].str());
	else if (k == "sm") {
		int ver = -1;
		for (int v = 0; v < 6; v++) if (c["version"].str() == SM_VERSIONS[v]) ver = v;
		std::vector<int> idx;
		for (auto& e : c["points"].a) { if (e.i64() < 0 || e.i64() > 8) vf::fatal("replay: bad point index"); idx.push_back((int) e.i64()); }
		if (ver < 0 || idx.size() < 3) vf::fatal("replay: bad sm case");
		check_sm(ver, idx);
	}
	else vf::fatal("replay: unknown check " + k);
}

int main(int argc, char** argv) {
	A = vf::parse_args(argc, argv);
	Stats top;
	build_lattice();
	const bool thorough = A.thorough();
	const std::string only = A.get("only");
	std::vector<std::string> files = nif_files();

	J replayCase;
	std::vector<Unit> units;
	if (!A.replay.empty()) {
		replayCase = J::parse(vf::read_file(A.replay))["case"];
		units.push_back({K_REPLAY, 0});
	}
	else {
		// quick: the harness-built lattice; thorough: extended by the matrices nifly::RotVecToMat produces for the same vectors
		const size_t nr = g_rots.size() + (thorough ? g_rots1.size() : 0);
		for (size_t r = 0; r < nr; r++) units.push_back({K_PAIR, (int) r});
		for (size_t f = 0; f < files.size(); f++) units.push_back({K_NIF, (int) f});
		for (size_t r = 0; r < nr; r++) units.push_back({K_SINGLE, (int) r});
		for (size_t r = 0; r < nr; r++) units.push_back({K_ROT, (int) r});
		units.push_back({K_AVG, 0}); // one unit: the worst failing case per key is the one reported
		for (int first = -1; first < 9; first++) units.push_back({K_SPHERE, first});
		for (int v = 0; v < 6; v++)
			for (int first = 0; first < 9; first++) units.push_back({K_SM, v * 9 + first});
		if (!only.empty()) {
			std::vector<Unit> f;
			for (auto& u : units) if (only == KIND[u.kind]) f.push_back(u);
			units = f;
		}
	}

	vf::PoolCfg pc;
	pc.jobs = A.jobs;
	pc.rundir = A.rundir;
	pc.repo = A.repo;
	auto unit_fn = [&](size_t ui, const std::vector<std::string>&, long, Stats& st) {
		const Unit& u = units[ui];
		G = Ctx();
		G.st = &st;
		const int n0 = (int) g_rots.size();
		alarm(1800);
		switch (u.kind) {
			case K_PAIR:
				for_transforms(u.a < n0 ? u.a : u.a - n0, u.a >= n0, [&](const TId& t1) {
					for (int r2 = 0; r2 < n0 + (thorough ? (int) g_rots1.size() : 0) && !G.stop; r2++)
						for_transforms(r2 < n0 ? r2 : r2 - n0, r2 >= n0, [&](const TId& t2) { check_pair(t1, t2); });
				});
				break;
			case K_SINGLE: for_transforms(u.a < n0 ? u.a : u.a - n0, u.a >= n0, [&](const TId& t) { check_single(t); }); break;
			case K_ROT:
				check_rot(u.a < n0 ? g_rots[(size_t) u.a] : g_rots1[(size_t) (u.a - n0)]);
				if (u.a >= n0) break;
				// rotation vectors: every (axis, angle) of the lattice whose matrix is this unit's rotation (v = 0 is taken once)
				for (int a = 0; a < NAXES; a++)
					for (int g = 0; g < NANGLES; g++) {
						if (g == 0 && a != 0) continue;
						if (find_rot(g_rots, rodrigues(a, g)) == u.a) check_rotvec(a, g);
					}
				break;
			case K_AVG:
				for (int n : COUNTS) {
					for (int r = 0; r < n0; r++) for_transforms(r, false, [&](const TId& t) { check_avg(t, n); });
					for (int r = 0; r < (int) g_rots1.size(); r++) for_transforms(r, true, [&](const TId& t) { check_avg(t, n); });
				}
				break;
			case K_SPHERE: {
				// first point fixed by the unit; quick: multisets (non-decreasing index lists), thorough: every ordered list
				if (u.a < 0) { check_sphere({}); break; }
				std::vector<int> idx{u.a};
				size_t maxlen = 4;
				bool ordered = thorough;
				std::function<void()> rec = [&] {
					if (G.stop) return;
					if (maxlen == 4 || idx.size() == 5) check_sphere(idx);
					if (idx.size() == maxlen) return;
					for (int nx = (ordered ? 0 : idx.back()); nx < 9; nx++) {
						idx.push_back(nx);
						rec();
						idx.pop_back();
					}
				};
				rec();
				if (thorough) { // plus every multiset of size 5
					maxlen = 5;
					ordered = false;
					rec();
				}
				break;
			}
			case K_NIF: check_nif(files[(size_t) u.a]); break;
			case K_SM: {
				// vertex lists of size 3 and 4 starting with the unit's point; quick: multisets, thorough: every ordered list
				std::vector<int> idx{u.a % 9};
				std::function<void()> rec = [&] {
					if (G.stop) return;
					if (idx.size() >= 3) check_sm(u.a / 9, idx);
					if (idx.size() == 4) return;
					for (int nx = (thorough ? 0 : idx.back()); nx < 9; nx++) {
						idx.push_back(nx);
						rec();
						idx.pop_back();
					}
				};
				rec();
				break;
			}
			case K_REPLAY: run_replay(replayCase); break;
		}
		alarm(0);
		for (auto& kv : G.deferred) {
			st.violation(kv.first, kv.second.msg + vf::strf(" (worst of %ld failing cases with this key)", kv.second.count), J::parse(kv.second.body));
			st.add("failing_cases:" + kv.first, kv.second.count);
		}
		if (G.stop) st.capped(std::string("deadline reached inside unit ") + KIND[u.kind] + "/" + std::to_string(u.a));
		st.add("units");
		if (!G.body.empty() && u.kind != K_REPLAY && (ui == 0 || units[ui - 1].kind != u.kind || ui % 37 == 0)) st.sample(J::parse(G.body));
		for (auto& kv : G.worst) st.max("worst_error_ppm_of_tolerance:" + kv.first, (ll) std::min(kv.second * 1e6, 9e15));
		for (auto& kv : G.worst_abs) st.max("worst_error_e-9:" + kv.first, (ll) std::min(kv.second * 1e9, 9e15));
	};
	auto crash_fn = [&](size_t, const vf::CrashInfo& ci, const std::string& inflight, Stats& parent) -> std::string {
		J c;
		try { c = J::parse(inflight); } catch (std::exception&) {}
		parent.violation("crash:" + (c.t == J::OBJ ? c["check"].str() : std::string("?")) + ":" + ci.key(), "worker died: " + ci.cls + " in " + ci.frame + " while running " + inflight.substr(0, 300), c);
		parent.capped("a unit was abandoned after a worker death");
		return "";
	};
	vf::run_pool(units.size(), pc, unit_fn, crash_fn, top);

	if (A.replay.empty()) {
		top.set_info("rule",
					 vf::strf("finite lattice, enumerated completely: rotations = 10 axes x 11 angles {0,1e-3,0.3,pi/4,pi/2,2,3,pi-1e-2,pi,3.5,2pi-0.1} built in double precision by the harness "
							  "and rounded to float (%zu distinct matrices%s), scales {0.25,1,3}, translations {0,(1,2,3),(-100,50,0.5),(3000,-2000,1000)} -> %zu distinct transforms; every single "
							  "transform (inverse, ToMatrix, Matrix4 inverse), every ordered pair (composition law on 6 points), every rotation vector axis*angle (orthonormality, determinant, "
							  "round trips for angles <= pi-1e-2), every rotation x 27 diagonal scales (Matrix3::Invert) x 4 translations (Matrix4::Inverse), averages and medians of 1,2,3,5 "
							  "copies of every transform (plus the %zu distinct rotations nifly::RotVecToMat itself produces for the lattice vectors), bounding spheres of %s over a 9-point lattice, "
							  "UpdateBounds of every shape with vertices in %zu files of tests/input and of shapes created through CreateShapeFromData in OB/FO3/SK/SSE/FO4/FO76 from every "
							  "such point list of size 3..4.  A case is distinct by value (duplicate matrices are removed before enumeration); "
							  "distinct_nontrivial counts the cases that are not made of identity transforms / the zero vector / the empty point set only.",
							  g_rots.size(), thorough ? vf::strf(", extended by the %zu further matrices nifly::RotVecToMat produces for the same axis*angle vectors", g_rots1.size()).c_str() : "",
							  (g_rots.size() + (thorough ? g_rots1.size() : 0)) * 12, g_rots1.size(),
							  thorough ? "every ordered point list of size 1..4 and every multiset of size 5" : "every multiset of size 1..4", files.size()));
		top.set_info("tolerances", J::obj()
									   .set("algebra_relative", REL)
									   .set("algebra_relative_to", "sum of the magnitudes of the terms that are added (|t1| + s1|t2| + s1 s2|p| for points, (|A||B|)_ij for matrix products, at least 1 for unit-size entries)")
									   .set("rotation_vector_round_trip_absolute", ROTVEC_ABS)
									   .set("round_trip_required_up_to_angle", PI_D - HALF_TURN_MARGIN)
									   .set("sphere_containment", "distance <= radius*(1+1e-4)+1e-4")
									   .set("sphere_size", "radius <= half bounding-box diagonal*(1+1e-4)+1e-4"));
		top.note("The property quantifies over a continuum; the check decides it on the lattice only.");
		top.note("Rotation-vector round trips are only required below a half turn (angle <= pi - 1e-2); exact half turns are inside the quantifier of every other identity, including averages/medians of identical transforms.");
	}
	vf::finish(top);
	return 0;
}
