// SP corpus: synthesised *linked chains* of blocks for the relationships that PrepareData,
// FinalizeData, LinkGeomData, RemoveInvalidTris and TrimTexturePaths act across (DESIGN 3.5).
// Every member of a chain is read from an E1 tape; one member at a time ranges over its decision
// tree while the others take their all-defaults instance; the links are then set on the loaded
// objects and the model goes through PrepareData + Save(raw) like the single-block files of s1.hpp.
#pragma once
#include "s1.hpp"

#include "ExtraData.hpp"
#include "Shaders.hpp"
#include "Skin.hpp"

namespace sp {
using namespace nifly;
using e1::Point;
using e1::Script;
using e1::Tape;
using e1::VerCfg;

struct Chain {
	const char* name;
	std::vector<const char*> versions; // names from e1::all_versions()
	std::vector<const char*> types;	   // first = the shape
};

inline const std::vector<Chain>& chains() {
	static const std::vector<Chain> c = {
		{"tri", {"OB_20.0.0.5_u11_s11", "FO3_s34", "SK_s83"}, {"NiTriShape", "NiTriShapeData"}},
		{"strips", {"OB_20.0.0.5_u11_s11", "FO3_s34", "SK_s83"}, {"NiTriStrips", "NiTriStripsData"}},
		{"lines", {"OB_20.0.0.5_u11_s11", "SK_s83"}, {"NiLines", "NiLinesData"}},
		{"lod", {"SK_s83"}, {"BSLODTriShape", "NiTriShapeData"}},
		{"segmented", {"FO3_s34", "SK_s83"}, {"BSSegmentedTriShape", "NiTriShapeData"}},
		{"screen", {"OB_20.0.0.5_u11_s11", "FO3_s34"}, {"NiScreenElements", "NiScreenElementsData"}},
		{"sse-skin", {"SSE_s100"}, {"BSTriShape", "BSDismemberSkinInstance", "NiSkinData", "NiSkinPartition"}},
		{"sse-skin-plain", {"SSE_s100"}, {"BSTriShape", "NiSkinInstance", "NiSkinData", "NiSkinPartition"}},
		{"sse-skin-dynamic", {"SSE_s100"}, {"BSDynamicTriShape", "BSDismemberSkinInstance", "NiSkinData", "NiSkinPartition"}},
		{"sse-skin-subindex", {"SSE_s100"}, {"BSSubIndexTriShape", "BSDismemberSkinInstance", "NiSkinData", "NiSkinPartition"}},
		{"sse-skin-meshlod", {"SSE_s100"}, {"BSMeshLODTriShape", "BSDismemberSkinInstance", "NiSkinData", "NiSkinPartition"}},
		{"fo4-skin", {"FO4_s130", "FO4_s139", "FO76_s155"}, {"BSSubIndexTriShape", "BSSkin::Instance", "BSSkin::BoneData"}},
		{"le-skin", {"OB_20.0.0.5_u11_s11", "FO3_s34", "SK_s83"}, {"NiTriShape", "NiTriShapeData", "BSDismemberSkinInstance", "NiSkinData", "NiSkinPartition"}},
		{"le-skin-strips", {"OB_20.0.0.5_u11_s11", "FO3_s34"}, {"NiTriStrips", "NiTriStripsData", "NiSkinInstance", "NiSkinData", "NiSkinPartition"}},
		{"lighting", {"SSE_s100", "FO4_s130", "FO76_s155", "SF_s172"}, {"BSTriShape", "BSLightingShaderProperty", "BSShaderTextureSet"}},
		{"lighting-le", {"SK_s83"}, {"NiTriShape", "NiTriShapeData", "BSLightingShaderProperty", "BSShaderTextureSet"}},
		{"effect", {"SK_s83", "SSE_s100", "FO4_s130", "FO76_s155"}, {"BSTriShape", "BSEffectShaderProperty"}},
		{"pp-lighting", {"FO3_s34", "FO3_s24"}, {"NiTriShape", "NiTriShapeData", "BSShaderPPLightingProperty", "BSShaderTextureSet"}},
		{"texprop", {"OB_20.0.0.5_u11_s11", "OB_10.2.0.0_u10_s9", "SPECIAL_10.0.1.0"}, {"NiTriShape", "NiTriShapeData", "NiTexturingProperty", "NiSourceTexture"}},
		{"ob-tangents", {"OB_20.0.0.5_u11_s11", "OB_20.0.0.4_u10_s11"}, {"NiTriShape", "NiTriShapeData", "NiBinaryExtraData"}},
	};
	return c;
}

inline const VerCfg* find_ver(const std::string& n) {
	for (auto& v : e1::all_versions()) if (n == v.name) return &v;
	return nullptr;
}

// set the links a loader would have found in a real file
inline void link(NifFile& nif, const std::vector<uint32_t>& ids) {
	auto& hdr = nif.GetHeader();
	NiShape* shape = nullptr;
	for (auto id : ids) if (!shape) shape = hdr.GetBlock<NiShape>(id);
	if (!shape) return;
	uint32_t rootId = nif.GetBlockID(nif.GetRootNode());
	for (auto id : ids) {
		NiObject* o = hdr.GetBlock<NiObject>(id);
		if (o == shape) continue;
		if (dynamic_cast<NiGeometryData*>(o)) {
			if (shape->DataRef()) shape->DataRef()->index = id;
		}
		else if (auto si = dynamic_cast<NiSkinInstance*>(o)) {
			if (shape->SkinInstanceRef()) shape->SkinInstanceRef()->index = id;
			si->targetRef.index = rootId;
			for (auto& b : si->boneRefs) b.index = rootId;
			for (auto id2 : ids) {
				if (hdr.GetBlock<NiSkinData>(id2)) si->dataRef.index = id2;
				if (hdr.GetBlock<NiSkinPartition>(id2)) si->skinPartitionRef.index = id2;
			}
		}
		else if (auto bsi = dynamic_cast<BSSkinInstance*>(o)) {
			if (shape->SkinInstanceRef()) shape->SkinInstanceRef()->index = id;
			bsi->targetRef.index = rootId;
			for (auto& b : bsi->boneRefs) b.index = rootId;
			for (auto id2 : ids) if (hdr.GetBlock<BSSkinBoneData>(id2)) bsi->dataRef.index = id2;
		}
		else if (auto tp = dynamic_cast<NiTexturingProperty*>(o)) {
			shape->propertyRefs.AddBlockRef(id);
			for (auto id2 : ids) if (hdr.GetBlock<NiSourceTexture>(id2)) { tp->hasBaseTex = true; if (tp->textureCount < 1) tp->textureCount = 1; tp->baseTex.sourceRef.index = id2; }
		}
		else if (auto sh = dynamic_cast<NiShader*>(o)) {
			bool viaRef = shape->HasType<BSTriShape>() || hdr.GetVersion().Stream() > 34;
			if (viaRef && shape->ShaderPropertyRef()) shape->ShaderPropertyRef()->index = id;
			else shape->propertyRefs.AddBlockRef(id);
			for (auto id2 : ids) if (hdr.GetBlock<BSShaderTextureSet>(id2) && sh->TextureSetRef()) sh->TextureSetRef()->index = id2;
		}
		else if (auto be = dynamic_cast<NiBinaryExtraData*>(o)) {
			be->name.get() = "Tangent space (binormal & tangent vectors)";
			shape->extraDataRefs.AddBlockRef(id);
		}
	}
}

struct Built {
	bool ok = false, capped = false;
	std::string file;
	std::vector<Point> points; // of the varying member
	bool populated = false;
	uint64_t tape_hash = 0;
};

// member `vary` follows `script`, all others their all-defaults instance
inline Built build(const Chain& ch, const VerCfg& vc, size_t vary, const Script& script, bool wide) {
	Built b;
	NifFile nif;
	nif.Create(vc.ver());
	auto& hdr = nif.GetHeader();
	e1::seed_strings(hdr);
	auto root = nif.GetRootNode();
	root->name.SetIndex(hdr.AddOrFindStringId("Scene Root"));
	std::vector<uint32_t> ids;
	static const Script none;
	bool skinned_chain = false;
	for (auto t : ch.types) { std::string ts = t; if (ts.find("SkinInstance") != std::string::npos || ts == "BSSkin::Instance") skinned_chain = true; }
	for (size_t k = 0; k < ch.types.size(); k++) {
		Tape tape;
		tape.script = k == vary ? &script : &none;
		tape.wide = wide;
		tape.vdesc_set = skinned_chain ? 1 : 2; // well-formed vertex descriptors: skinned flag <=> skin instance present
		std::unique_ptr<NiObject> obj;
		try {
			obj = e1::load_block(ch.types[k], hdr, tape);
		} catch (e1::TapeCap&) {
			if (k == vary) b.points = tape.points;
			b.capped = true;
			return b;
		}
		if (k == vary) { b.points = tape.points; b.populated = tape.populated; b.tape_hash = vf::fnv(tape.bytes); }
		if (!obj) return b;
		ids.push_back(hdr.AddBlock(std::move(obj)));
	}
	root->childRefs.AddBlockRef(ids[0]);
	// resolve string indices first (the binary extra data gets its magic name as a string)
	hdr.FillStringRefs();
	link(nif, ids);
	// what Load does after the block loop, minus FillStringRefs which already ran
	nif.LinkGeomData();
	nif.TrimTexturePaths();
	{
		// PrepareData would call FillStringRefs again and overwrite names set by link() from their
		// indices; give those names indices so that the call is a no-op for them
		for (auto id : ids) {
			std::vector<NiStringRef*> sr;
			hdr.GetBlock<NiObject>(id)->GetStringRefs(sr);
			for (auto r : sr) if (!r->get().empty()) r->SetIndex(hdr.AddOrFindStringId(r->get()));
		}
	}
	nif.PrepareData();
	b.file = s1::save(nif, true);
	b.ok = !b.file.empty();
	return b;
}

} // namespace sp
