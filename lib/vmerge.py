"""Merge the protocol lines a harness printed, write the evidence file, report violations."""
import os, json, re, time


def read_findings(verif):
    path = os.path.join(verif, "known_findings.txt")
    findings, fixed = {}, []
    if os.path.exists(path):
        for line in open(path):
            line = line.strip()
            if not line or line.startswith("#"):
                continue
            m = re.match(r"finding:\s+property=(\S+)\s+key=(\S+)\s*(.*)$", line)
            if m:
                findings[(m.group(1), m.group(2))] = m.group(3)
                continue
            m = re.match(r"fixed:\s+property=(\S+)\s+(\S+)\s*(.*)$", line)
            if m:
                fixed.append((m.group(1), m.group(2), m.group(3)))
    return findings, fixed


def merge_and_report(verif, prop, tier, seed, spec, outpath, harness_rc, wall_s, build_s, run_s, replay, jobs, deadline):
    cnt, mx, sets, samples, viols, notes, info = {}, {}, {}, [], {}, [], {}
    exhaustive, done, fatal, ndone = True, False, [], 0
    with open(outpath, "rb") as f:
        for raw in f:
            line = raw.decode("utf-8", "replace").rstrip("\n")
            if not line:
                continue
            p = line.split("\t")
            t = p[0]
            try:
                if t == "C":
                    cnt[p[1]] = cnt.get(p[1], 0) + int(p[2])
                elif t == "M":
                    mx[p[1]] = max(mx.get(p[1], 0), int(p[2]))
                elif t == "S":
                    sets.setdefault(p[1], set()).add(p[2])
                elif t == "E":
                    if len(samples) < 400:
                        samples.append(json.loads(p[1]))
                elif t == "V":
                    key, msg = p[1], p[2]
                    case = json.loads(p[3]) if len(p) > 3 and p[3] else None
                    v = viols.setdefault(key, {"key": key, "message": msg, "case": case, "count": 0})
                    v["count"] += 1
                    # keep the smallest replay (fewest deviations / shortest history)
                    if case is not None and v["case"] is not None and len(json.dumps(case)) < len(json.dumps(v["case"])):
                        v["case"], v["message"] = case, msg
                elif t == "N":
                    if p[1] not in notes:
                        notes.append(p[1])
                elif t == "I":
                    info[p[1]] = json.loads(p[2])
                elif t == "X":
                    exhaustive = exhaustive and p[1] == "1"
                elif t == "F":
                    fatal.append(p[1])
                elif t == "DONE":
                    ndone += 1
                    done = ndone >= int(spec.get("_expected_done", 1))
            except (IndexError, ValueError) as e:
                fatal.append("bad protocol line %r (%s)" % (line[:200], e))
    if harness_rc != 0 and not fatal:
        fatal.append("harness exited with status %d" % harness_rc)
    if not done and not fatal:
        fatal.append("harness did not finish (no DONE line)")
    if fatal:
        for m in fatal[:10]:
            print("HARNESS-FAILURE property=%s %s" % (prop, m), flush=True)
        return 2

    findings, fixed = read_findings(verif)
    new, known = [], []
    for key in sorted(viols):
        v = viols[key]
        if (prop, key) in findings:
            known.append(v)
        else:
            new.append(v)
    rdir = os.path.join(verif, "replays", prop)
    os.makedirs(rdir, exist_ok=True)
    for v in known:
        print("KNOWN-FINDING: property=%s key=%s %s (seen %d times this run; %s)" % (
            prop, v["key"], findings[(prop, v["key"])], v["count"], v["message"][:300]), flush=True)
    n = 0
    for v in new:
        n += 1
        safe = re.sub(r"[^A-Za-z0-9_.=-]+", "_", v["key"])[:80]
        path = os.path.join(rdir, "%s-%s.json" % (tier[0], safe))
        with open(path, "w") as f:
            json.dump({"property": prop, "key": v["key"], "message": v["message"], "case": v["case"]}, f, indent=1)
        print("VIOLATION property=%s replay=%s key=%s %s" % (prop, path, v["key"], v["message"][:600]), flush=True)

    if not replay:
        level = spec["level"]
        cov = {}
        for k, val in cnt.items():
            cov[k] = val
        for k, val in mx.items():
            cov["max_" + k] = val
        for k, val in sets.items():
            cov["distinct_" + k] = len(val)
        cov.update(info)
        step = max(1, len(samples) // 12)
        cov["samples"] = samples[::step][:12] if samples else []
        cov["exhaustive"] = bool(exhaustive)
        if level in ("exploration", "fault_enumeration"):
            cov.setdefault("evaluations", 0)
            cov.setdefault("distinct_nontrivial", 0)
            cov.setdefault("rule", "")
        if level == "model_checking":
            cov.setdefault("states", cov.get("distinct_states", 0))
            cov.setdefault("transitions", 0)
            cov.setdefault("traces_validated_against_impl", cov.get("transitions", 0))
        cov["known_findings_seen"] = [{"key": v["key"], "count": v["count"]} for v in known]
        cov["new_violation_keys"] = [v["key"] for v in new]
        cov["jobs"] = jobs
        cov["deadline_s"] = deadline
        cov["build_s"] = round(build_s, 2)
        cov["run_s"] = round(run_s, 2)
        ev = {
            "property_id": prop, "tier": tier, "seed": seed, "level": level, "coverage": cov,
            "assumptions": list(spec.get("assumptions", [])) + notes,
            "wall_s": round(wall_s, 2), "violations": len(new),
        }
        os.makedirs(os.path.join(verif, "evidence"), exist_ok=True)
        tmp = os.path.join(verif, "evidence", ".%s.json.tmp" % prop)
        with open(tmp, "w") as f:
            json.dump(ev, f, indent=1, sort_keys=True)
            f.write("\n")
        os.rename(tmp, os.path.join(verif, "evidence", "%s.json" % prop))
        # a copy per tier (evidence/<id>.json always describes the last run, whichever tier that was)
        try:
            os.makedirs(os.path.join(verif, "evidence", "tiers"), exist_ok=True)
            with open(os.path.join(verif, "evidence", "tiers", "%s.%s.json" % (prop, tier)), "w") as f:
                json.dump(ev, f, indent=1, sort_keys=True)
                f.write("\n")
        except OSError:
            pass
    ev_line = "property=%s tier=%s evaluations=%s states=%s transitions=%s exhaustive=%s new=%d known=%d wall=%.1fs" % (
        prop, tier, cnt.get("evaluations"), cnt.get("states", len(sets.get("states", ())) or None),
        cnt.get("transitions"), exhaustive, len(new), len(known), wall_s)
    print(("FAIL " if new else "OK ") + ev_line, flush=True)
    return 1 if new else 0
