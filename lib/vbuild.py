"""Build cache for the nifly library and the harnesses.

Objects are cached per translation unit under /verif/build/obj/<variant>/<hash>.o where the
hash covers the TU's bytes, every header under include/ and external/, and the flag set.  A
changed byte in /repo therefore yields new objects; nothing is ever reused across different
source states.  A lock file serialises concurrent builders.
"""
import os, hashlib, subprocess, glob, fcntl, time, shutil
from concurrent.futures import ThreadPoolExecutor

VERIF = os.path.dirname(os.path.dirname(os.path.abspath(__file__)))
BUILD = os.path.join(VERIF, "build")
CXX = os.environ.get("VERIF_CXX", "clang++")

COMMON = ["-std=c++17", "-fno-omit-frame-pointer", "-DNIFLY_VERIF", "-w"]
VARIANTS = {
    # sanitised build: oracle for memory errors / UB (alignment and enum checks off, see DESIGN 3.1)
    "asan": {
        "default": COMMON + ["-O1", "-gline-tables-only", "-fsanitize=address,undefined",
                             "-fno-sanitize=alignment,enum", "-fno-sanitize-recover=undefined"],
        "Factory.cpp": COMMON + ["-O0", "-gline-tables-only", "-fsanitize=address"],
        "link": ["-fsanitize=address,undefined"],
    },
    # the sanitised build plus edge coverage into a shared bitmap (tools/coverage.sh; never used by a registered command)
    "cov": {
        "default": COMMON + ["-O1", "-gline-tables-only", "-fsanitize=address,undefined", "-fno-sanitize=alignment,enum", "-fno-sanitize-recover=undefined",
                             "-fsanitize-coverage=trace-pc-guard,pc-table", "-DVERIF_COV", "-fno-pie"],
        "Factory.cpp": COMMON + ["-O0", "-gline-tables-only", "-fsanitize=address", "-fno-pie"],
        "link": ["-fsanitize=address,undefined", "-no-pie"],
    },
    # plain optimised build for pure enumeration where the sanitizer is not the oracle
    "fast": {
        "default": COMMON + ["-O2", "-gline-tables-only"],
        "Factory.cpp": COMMON + ["-O0"],
        "link": [],
    },
}


FORCE_VARIANT = os.environ.get("VERIF_VARIANT", "")


class BuildError(Exception):
    pass


def _sha(*parts):
    h = hashlib.sha256()
    for p in parts:
        if isinstance(p, str):
            p = p.encode()
        h.update(p)
        h.update(b"\0")
    return h.hexdigest()[:20]


def _read(path):
    with open(path, "rb") as f:
        return f.read()


def source_root(repo, ref=False):
    return os.path.join(VERIF, "ref", "nifly") if ref else repo


def header_hash(root):
    files = sorted(glob.glob(os.path.join(root, "include", "*")) + glob.glob(os.path.join(root, "external", "*")))
    return _sha(*[os.path.basename(f).encode() + b"=" + _read(f) for f in files])


class _Lock:
    def __init__(self, name):
        os.makedirs(BUILD, exist_ok=True)
        self.path = os.path.join(BUILD, ".lock-" + name)

    def __enter__(self):
        self.f = open(self.path, "w")
        fcntl.flock(self.f, fcntl.LOCK_EX)
        return self

    def __exit__(self, *a):
        fcntl.flock(self.f, fcntl.LOCK_UN)
        self.f.close()


def _compile(args):
    src, obj, flags, incs = args
    if os.path.exists(obj):
        os.utime(obj, None)
        return None
    tmp = obj + ".tmp%d" % os.getpid()
    cmd = [CXX] + flags + incs + ["-c", src, "-o", tmp]
    p = subprocess.run(cmd, stdout=subprocess.PIPE, stderr=subprocess.STDOUT)
    if p.returncode != 0:
        try:
            os.unlink(tmp)
        except OSError:
            pass
        return "%s\n%s" % (" ".join(cmd), p.stdout.decode("utf-8", "replace")[-6000:])
    os.rename(tmp, obj)
    return None


def _prune(dirpath, keep, pattern="*"):
    ents = sorted(glob.glob(os.path.join(dirpath, pattern)), key=lambda p: os.path.getmtime(p), reverse=True)
    for p in ents[keep:]:
        try:
            if os.path.isdir(p):
                shutil.rmtree(p, ignore_errors=True)
            else:
                os.unlink(p)
        except OSError:
            pass


def build_library(repo, jobs=16, variant="asan", ref=False):
    """Returns the directory holding libnifly.a for this exact source state."""
    if FORCE_VARIANT and variant == "asan":
        variant = FORCE_VARIANT
    root = source_root(repo, ref)
    if not os.path.isdir(os.path.join(root, "src")):
        raise BuildError("no sources at %s" % root)
    v = VARIANTS[variant]
    hh = header_hash(root)
    srcs = sorted(glob.glob(os.path.join(root, "src", "*.cpp")))
    incs = ["-I" + os.path.join(root, "include"), "-isystem", os.path.join(root, "external")]
    objdir = os.path.join(BUILD, "obj", variant)
    os.makedirs(objdir, exist_ok=True)
    tasks, objs = [], []
    for s in srcs:
        base = os.path.basename(s)
        flags = v.get(base, v["default"])
        h = _sha(base, _read(s), hh, " ".join(flags), CXX)
        obj = os.path.join(objdir, "%s-%s.o" % (base[:-4], h))
        objs.append(obj)
        tasks.append((s, obj, flags, incs))
    libhash = _sha(*[os.path.basename(o) for o in objs])
    libdir = os.path.join(BUILD, "lib", "%s%s-%s" % (variant, "-ref" if ref else "", libhash))
    lib = os.path.join(libdir, "libnifly.a")
    with _Lock("lib-" + variant):
        if os.path.exists(lib):
            os.utime(libdir, None)
            return libdir
        # big TUs first
        order = sorted(tasks, key=lambda t: -os.path.getsize(t[0]) - (10 ** 7 if t[0].endswith("Factory.cpp") else 0))
        with ThreadPoolExecutor(max_workers=max(1, jobs)) as ex:
            errs = [e for e in ex.map(_compile, order) if e]
        if errs:
            raise BuildError(errs[0])
        os.makedirs(libdir, exist_ok=True)
        tmp = lib + ".tmp%d" % os.getpid()
        p = subprocess.run(["ar", "rcs", tmp] + objs, stdout=subprocess.PIPE, stderr=subprocess.STDOUT)
        if p.returncode != 0:
            raise BuildError(p.stdout.decode())
        os.rename(tmp, lib)
        with open(os.path.join(libdir, "root.txt"), "w") as f:
            f.write(root + "\n")
        _prune(os.path.join(BUILD, "lib"), 6)
        _prune(objdir, 14 * 5, "*.o")
    return libdir


def build_harness(repo, libdir_asan, harness_src, variant="asan", jobs=16, ref=False):
    """Compile one harness TU (plus harness/*.cpp helpers named in its first-line 'LINK:' comment)."""
    if FORCE_VARIANT and variant == "asan":
        variant = FORCE_VARIANT
    root = source_root(repo, ref)
    libdir = libdir_asan if (variant in ("asan", FORCE_VARIANT) and not ref) else build_library(repo, jobs, variant, ref)
    v = VARIANTS[variant]
    hdir = os.path.join(VERIF, "harness")
    src = os.path.join(hdir, harness_src)
    hdrs = sorted(glob.glob(os.path.join(hdir, "*.hpp")))
    hh = _sha(*[os.path.basename(f).encode() + b"=" + _read(f) for f in hdrs])
    flags = list(v["default"]) + ["-fno-access-control"]
    h = _sha(_read(src), hh, os.path.basename(libdir), " ".join(flags), CXX)
    bindir = os.path.join(BUILD, "bin")
    os.makedirs(bindir, exist_ok=True)
    exe = os.path.join(bindir, "%s-%s%s-%s" % (harness_src[:-4], variant, "-ref" if ref else "", h))
    with _Lock("bin-" + harness_src):
        if os.path.exists(exe):
            os.utime(exe, None)
            return exe
        incs = ["-I" + os.path.join(root, "include"), "-isystem", os.path.join(root, "external"), "-I" + hdir]
        tmp = exe + ".tmp%d" % os.getpid()
        cmd = [CXX] + flags + incs + [src, os.path.join(libdir, "libnifly.a")] + v["link"] + ["-lpthread", "-o", tmp]
        p = subprocess.run(cmd, stdout=subprocess.PIPE, stderr=subprocess.STDOUT)
        if p.returncode != 0:
            raise BuildError("%s\n%s" % (" ".join(cmd), p.stdout.decode("utf-8", "replace")[-8000:]))
        os.rename(tmp, exe)
        _prune(bindir, 60)
    return exe
