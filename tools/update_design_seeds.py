#!/usr/bin/env python3
"""Regenerate the table between the seed-table markers of DESIGN.md from seeded/*/meta.json."""
import os, subprocess, sys
root = os.path.dirname(os.path.dirname(os.path.abspath(__file__)))
p = os.path.join(root, "DESIGN.md")
s = open(p).read()
b, e = "<!-- seed-table-begin -->", "<!-- seed-table-end -->"
assert s.count(b) == 1 and s.count(e) == 1
table = subprocess.check_output([sys.executable, os.path.join(root, "tools", "seed_table.py")], text=True)
s = s[: s.index(b) + len(b)] + "\n" + table + s[s.index(e):]
b2, e2 = "<!-- bounds-table-begin -->", "<!-- bounds-table-end -->"
if s.count(b2) == 1 and s.count(e2) == 1:
    t2 = subprocess.check_output([sys.executable, os.path.join(root, "tools", "bounds_table.py")], text=True)
    s = s[: s.index(b2) + len(b2)] + "\n" + t2 + s[s.index(e2):]
open(p, "w").write(s)
print("DESIGN.md 8.5 / 8.7 updated")
