#!/usr/bin/env python3
"""Edge coverage of the nifly sources under the quick tier of every check (diagnostic, not a registered command).

  tools/coverage.py run [ids...]     build variant "cov", run ./check <id> --tier quick --no-evidence with the bitmap on
  tools/coverage.py report           aggregate build/cov/*.map into build/cov/report.txt and print a summary

A function counts as entered when any of its edges was hit by any harness; edges of library functions (same object
in every binary) are merged edge by edge.
"""
import collections, glob, json, os, struct, subprocess, sys

VERIF = os.path.dirname(os.path.dirname(os.path.abspath(__file__)))
COV = os.path.join(VERIF, "build", "cov")


def run(ids):
    os.makedirs(COV, exist_ok=True)
    checks = json.load(open(os.path.join(VERIF, "harness", "checks.json")))
    env = dict(os.environ, VERIF_VARIANT="cov", VERIF_COVMAP=COV)
    for i in ids or sorted(checks):
        p = subprocess.run([os.path.join(VERIF, "check"), i, "--tier", "quick", "--no-evidence", "--deadline", os.environ.get("VERIF_COV_DEADLINE", "1200")], env=env, stdout=subprocess.PIPE, stderr=subprocess.STDOUT, text=True)
        print(i, (p.stdout.strip().splitlines() or ["?"])[-1][:200], flush=True)


def symbolize(exe, pcs):
    out = subprocess.run(["llvm-symbolizer", "--obj=" + exe, "--functions=linkage", "--demangle", "--no-inlines"],
                         input="\n".join(hex(p) for p in pcs) + "\n", stdout=subprocess.PIPE, text=True).stdout
    res, cur = [], []
    for line in out.splitlines():
        if not line.strip():
            if cur:
                res.append((cur[0], cur[1] if len(cur) > 1 else "?"))
            cur = []
        else:
            cur.append(line.strip())
    if cur:
        res.append((cur[0], cur[1] if len(cur) > 1 else "?"))
    return res


def report():
    funcs = {}  # (name, file) -> {"n": edges, "hit": set(edge offsets)} ; file relative to repo
    bins = 0
    for mp in sorted(glob.glob(os.path.join(COV, "*.map"))):
        exe = os.path.join(VERIF, "build", "bin", os.path.basename(mp)[:-4])
        if not os.path.exists(exe) or not os.path.exists(mp + ".pcs"):
            continue
        bins += 1
        bitmap = open(mp, "rb").read()
        raw = open(mp + ".pcs", "rb").read()
        n = len(raw) // 16
        pairs = struct.unpack("<%dQ" % (2 * n), raw[: n * 16])
        entries = [k for k in range(n) if pairs[2 * k + 1] & 1]
        names = symbolize(exe, [pairs[2 * k] for k in entries])
        for idx, k in enumerate(entries):
            end = entries[idx + 1] if idx + 1 < len(entries) else n
            name, loc = names[idx] if idx < len(names) else ("?", "?")
            f = loc.rsplit(":", 2)[0]
            if "/src/" not in f and "/include/" not in f:
                continue
            if "/harness/" in f or "/external/" in f or "/usr/" in f:
                continue
            rel = f[f.rfind("/src/") + 1:] if "/src/" in f else f[f.rfind("/include/") + 1:]
            key = (name, rel)
            rec = funcs.setdefault(key, {"n": end - k, "hit": set(), "line": loc.rsplit(":", 2)[1] if loc.count(":") >= 2 else "?"})
            hits = {off for off in range(end - k) if k + off + 1 < len(bitmap) and bitmap[k + off + 1]}
            if rec["n"] == end - k:
                rec["hit"] |= hits
            elif len(hits) * rec["n"] > len(rec["hit"]) * (end - k):
                rec["n"], rec["hit"] = end - k, hits
    per_file = collections.defaultdict(lambda: [0, 0, 0, 0])
    never = collections.defaultdict(list)
    partial = []
    for (name, rel), rec in funcs.items():
        pf = per_file[rel]
        pf[0] += 1
        pf[2] += rec["n"]
        pf[3] += len(rec["hit"])
        if rec["hit"]:
            pf[1] += 1
            if rec["n"] >= 8 and len(rec["hit"]) * 2 < rec["n"]:
                partial.append((len(rec["hit"]) / rec["n"], rel, rec["line"], name, rec["n"]))
        else:
            never[rel].append((int(rec["line"]) if rec["line"].isdigit() else 0, name, rec["n"]))
    lines = ["binaries: %d" % bins, "", "file | functions entered/total | edges hit/total"]
    tf = [0, 0, 0, 0]
    for rel in sorted(per_file):
        a = per_file[rel]
        for i in range(4):
            tf[i] += a[i]
        lines.append("%-28s %5d/%-5d %7d/%-7d %5.1f%%" % (rel, a[1], a[0], a[3], a[2], 100.0 * a[3] / max(1, a[2])))
    lines.append("%-28s %5d/%-5d %7d/%-7d %5.1f%%" % ("TOTAL", tf[1], tf[0], tf[3], tf[2], 100.0 * tf[3] / max(1, tf[2])))
    lines += ["", "functions never entered (file:line name [edges]):"]
    for rel in sorted(never):
        for ln, name, n in sorted(never[rel]):
            lines.append("  %s:%d %s [%d]" % (rel, ln, name, n))
    lines += ["", "functions entered with fewer than half of their edges hit (>= 8 edges):"]
    for frac, rel, ln, name, n in sorted(partial):
        lines.append("  %4.0f%% %s:%s %s [%d]" % (100 * frac, rel, ln, name, n))
    open(os.path.join(COV, "report.txt"), "w").write("\n".join(lines) + "\n")
    print("\n".join(lines[: 4 + len(per_file)]))
    print("never entered: %d functions; report: %s" % (sum(len(v) for v in never.values()), os.path.join(COV, "report.txt")))


if __name__ == "__main__":
    if len(sys.argv) >= 2 and sys.argv[1] == "run":
        run(sys.argv[2:])
    elif len(sys.argv) >= 2 and sys.argv[1] == "report":
        report()
    else:
        print(__doc__)
