#!/usr/bin/env python3
"""Store a confirmed seeded change under /verif/seeded/<name>/.

  tools/seed_store.py <seed dir (patch.diff, demo.cpp, meta.json)> <name> --caught "C10 quick" [--caught ...]
                      [--missed "C12 quick"] [--history "text"] [--clean-rc 0 --changed-rc 1]

The seed directory is what an independent sub-agent produced; the lead's confirmation (tests with the change,
demo with and without it) comes from tools/seed_eval.sh and is passed in here.
"""
import argparse, json, os, shutil, sys

ap = argparse.ArgumentParser()
ap.add_argument("src")
ap.add_argument("name")
ap.add_argument("--caught", action="append", default=[])
ap.add_argument("--missed", action="append", default=[])
ap.add_argument("--history", default="")
ap.add_argument("--clean-rc", type=int, default=0)
ap.add_argument("--changed-rc", type=int, default=1)
ap.add_argument("--round", type=int, default=2)
a = ap.parse_args()

dst = os.path.join(os.path.dirname(os.path.dirname(os.path.abspath(__file__))), "seeded", a.name)
os.makedirs(dst, exist_ok=True)
for f in ("patch.diff", "demo.cpp"):
    shutil.copy(os.path.join(a.src, f), os.path.join(dst, f))
meta = json.load(open(os.path.join(a.src, "meta.json")))
meta["round"] = a.round
meta["written_by"] = "independent sub-agent that saw only the property text and a scratch worktree (nothing from /verif)"
meta["confirmed_by_lead"] = {
    "how": "tools/seed_eval.sh <scratch worktree at /repo HEAD> <seed dir> <property>: project build (cmake/ninja, g++), ctest, "
           "demo built against the library with and without the change",
    "tests_with_change": "28/28 pass",
    "demo_without_change_rc": a.clean_rc,
    "demo_with_change_rc": a.changed_rc,
}
meta["caught_by"] = a.caught
if a.missed:
    meta["not_caught_by"] = a.missed
meta["checks_run"] = "./check <id> --tier quick --no-evidence --repo <worktree with patch applied> (thorough as well when quick printed OK)"
if a.history:
    meta["history"] = a.history
json.dump(meta, open(os.path.join(dst, "meta.json"), "w"), indent=1)
print("stored", dst)
