#!/bin/sh
# Vendor the reference snapshot for C08: a verbatim copy of /repo's committed sources (HEAD),
# taken after the hook commit and after every "fix:" commit of this engagement.
set -e
REPO=${1:-/repo}
DEST=/verif/ref/nifly
rm -rf "$DEST"
mkdir -p "$DEST"
git -C "$REPO" archive HEAD src include external | tar -x -C "$DEST"
git -C "$REPO" rev-parse HEAD > "$DEST/COMMIT"
echo "vendored $(cat $DEST/COMMIT) into $DEST"
