#!/usr/bin/env python3
"""Print the markdown table of DESIGN.md 8.5 from seeded/*/meta.json."""
import glob, json, os, re

root = os.path.dirname(os.path.dirname(os.path.abspath(__file__)))
rows = []
for d in sorted(glob.glob(os.path.join(root, "seeded", "*"))):
    mp = os.path.join(d, "meta.json")
    if not os.path.exists(mp):
        continue
    m = json.load(open(mp))
    name = os.path.basename(d)
    site = (m.get("site") or "").split(" (")[0]
    site = re.sub(r"^(src|include)/", "", site)
    caught = ", ".join(m.get("caught_by") or []) or "-"
    missed = ", ".join(m.get("not_caught_by") or [])
    hist = m.get("history", "")
    rows.append((name, site, caught, missed, hist))

print("| change | site | reported by | not reported by |")
print("|---|---|---|---|")
for r in rows:
    print("| %s | `%s` | %s | %s |" % (r[0], r[1], r[2], r[3] or ""))
print()
print("History of the changes that were not reported at first, or not by the check of the property they were written for:")
print()
for r in rows:
    if r[4]:
        print("* **%s** - %s." % (r[0], r[4].rstrip(".")))
