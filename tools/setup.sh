#!/bin/sh
# Offline setup after a fresh restore: pre-build the sanitised library from /repo, the reference
# snapshot (C08) and every harness, so that the checks only pay for what changed.  Everything is
# rebuilt from files on disk; nothing is fetched.
cd /verif || exit 1
./check --build-only || exit 1
ids="C01 C03 C04 C06 C08 C09 C10 C11 C12 C13 C14 C15 C16 C17 C18 C19 C20"
fail=0
# four harness builds at a time (each is a single large translation unit)
echo $ids | tr ' ' '\n' | xargs -P 4 -I{} sh -c './check {} --build-only >/dev/null 2>&1 || echo "build of {} failed"' | tee /verif/build/.setup.$$ 
if [ -s /verif/build/.setup.$$ ]; then fail=1; fi
rm -f /verif/build/.setup.$$
exit $fail
